module verif.local

go 1.23

toolchain go1.23.5

require pgregory.net/rapid v1.3.0
