module verif.local

go 1.18

require pgregory.net/rapid v1.3.0
