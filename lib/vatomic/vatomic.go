// Package vatomic mirrors the API of sync/atomic; every operation first calls Hook
// (when one is installed) and then performs the real sync/atomic operation.
//
// /verif overlays a package's source with its import "sync/atomic" rewritten to
//
//	atomic "verif.local/vatomic"
//
// so that a scheduler (verif.local/vsched) can own the order of the package's atomic
// steps.  With Hook == nil every function is a straight pass-through to sync/atomic.
//
// Hook is a plain variable on purpose (no synchronisation of its own that could hide a
// race from the race detector): set it only while no other goroutine is executing
// instrumented code, e.g. before starting the goroutines that will run under it.
//
// The op string is "<Op><Type>" for the function API ("LoadUint64", "CompareAndSwapUint32",
// ...) and "<Type>.<Op>" for the typed API ("Int32.Add", "Pointer.CompareAndSwap", ...).
// addr is the address of the word operated on.
//
// Mechanical mirror of the sync/atomic API of go1.23; no logic belongs here.
package vatomic

import (
	"sync/atomic"
	"unsafe"
)

// Hook, when non-nil, is called before every atomic operation.
var Hook func(op string, addr unsafe.Pointer)

func hook(op string, addr unsafe.Pointer) {
	if h := Hook; h != nil {
		h(op, addr)
	}
}

func LoadInt32(addr *int32) int32 {
	hook("LoadInt32", unsafe.Pointer(addr))
	return atomic.LoadInt32(addr)
}
func StoreInt32(addr *int32, val int32) {
	hook("StoreInt32", unsafe.Pointer(addr))
	atomic.StoreInt32(addr, val)
}
func AddInt32(addr *int32, delta int32) int32 {
	hook("AddInt32", unsafe.Pointer(addr))
	return atomic.AddInt32(addr, delta)
}
func SwapInt32(addr *int32, new int32) int32 {
	hook("SwapInt32", unsafe.Pointer(addr))
	return atomic.SwapInt32(addr, new)
}
func CompareAndSwapInt32(addr *int32, old, new int32) bool {
	hook("CompareAndSwapInt32", unsafe.Pointer(addr))
	return atomic.CompareAndSwapInt32(addr, old, new)
}
func AndInt32(addr *int32, mask int32) int32 {
	hook("AndInt32", unsafe.Pointer(addr))
	return atomic.AndInt32(addr, mask)
}
func OrInt32(addr *int32, mask int32) int32 {
	hook("OrInt32", unsafe.Pointer(addr))
	return atomic.OrInt32(addr, mask)
}

func LoadInt64(addr *int64) int64 {
	hook("LoadInt64", unsafe.Pointer(addr))
	return atomic.LoadInt64(addr)
}
func StoreInt64(addr *int64, val int64) {
	hook("StoreInt64", unsafe.Pointer(addr))
	atomic.StoreInt64(addr, val)
}
func AddInt64(addr *int64, delta int64) int64 {
	hook("AddInt64", unsafe.Pointer(addr))
	return atomic.AddInt64(addr, delta)
}
func SwapInt64(addr *int64, new int64) int64 {
	hook("SwapInt64", unsafe.Pointer(addr))
	return atomic.SwapInt64(addr, new)
}
func CompareAndSwapInt64(addr *int64, old, new int64) bool {
	hook("CompareAndSwapInt64", unsafe.Pointer(addr))
	return atomic.CompareAndSwapInt64(addr, old, new)
}
func AndInt64(addr *int64, mask int64) int64 {
	hook("AndInt64", unsafe.Pointer(addr))
	return atomic.AndInt64(addr, mask)
}
func OrInt64(addr *int64, mask int64) int64 {
	hook("OrInt64", unsafe.Pointer(addr))
	return atomic.OrInt64(addr, mask)
}

func LoadUint32(addr *uint32) uint32 {
	hook("LoadUint32", unsafe.Pointer(addr))
	return atomic.LoadUint32(addr)
}
func StoreUint32(addr *uint32, val uint32) {
	hook("StoreUint32", unsafe.Pointer(addr))
	atomic.StoreUint32(addr, val)
}
func AddUint32(addr *uint32, delta uint32) uint32 {
	hook("AddUint32", unsafe.Pointer(addr))
	return atomic.AddUint32(addr, delta)
}
func SwapUint32(addr *uint32, new uint32) uint32 {
	hook("SwapUint32", unsafe.Pointer(addr))
	return atomic.SwapUint32(addr, new)
}
func CompareAndSwapUint32(addr *uint32, old, new uint32) bool {
	hook("CompareAndSwapUint32", unsafe.Pointer(addr))
	return atomic.CompareAndSwapUint32(addr, old, new)
}
func AndUint32(addr *uint32, mask uint32) uint32 {
	hook("AndUint32", unsafe.Pointer(addr))
	return atomic.AndUint32(addr, mask)
}
func OrUint32(addr *uint32, mask uint32) uint32 {
	hook("OrUint32", unsafe.Pointer(addr))
	return atomic.OrUint32(addr, mask)
}

func LoadUint64(addr *uint64) uint64 {
	hook("LoadUint64", unsafe.Pointer(addr))
	return atomic.LoadUint64(addr)
}
func StoreUint64(addr *uint64, val uint64) {
	hook("StoreUint64", unsafe.Pointer(addr))
	atomic.StoreUint64(addr, val)
}
func AddUint64(addr *uint64, delta uint64) uint64 {
	hook("AddUint64", unsafe.Pointer(addr))
	return atomic.AddUint64(addr, delta)
}
func SwapUint64(addr *uint64, new uint64) uint64 {
	hook("SwapUint64", unsafe.Pointer(addr))
	return atomic.SwapUint64(addr, new)
}
func CompareAndSwapUint64(addr *uint64, old, new uint64) bool {
	hook("CompareAndSwapUint64", unsafe.Pointer(addr))
	return atomic.CompareAndSwapUint64(addr, old, new)
}
func AndUint64(addr *uint64, mask uint64) uint64 {
	hook("AndUint64", unsafe.Pointer(addr))
	return atomic.AndUint64(addr, mask)
}
func OrUint64(addr *uint64, mask uint64) uint64 {
	hook("OrUint64", unsafe.Pointer(addr))
	return atomic.OrUint64(addr, mask)
}

func LoadUintptr(addr *uintptr) uintptr {
	hook("LoadUintptr", unsafe.Pointer(addr))
	return atomic.LoadUintptr(addr)
}
func StoreUintptr(addr *uintptr, val uintptr) {
	hook("StoreUintptr", unsafe.Pointer(addr))
	atomic.StoreUintptr(addr, val)
}
func AddUintptr(addr *uintptr, delta uintptr) uintptr {
	hook("AddUintptr", unsafe.Pointer(addr))
	return atomic.AddUintptr(addr, delta)
}
func SwapUintptr(addr *uintptr, new uintptr) uintptr {
	hook("SwapUintptr", unsafe.Pointer(addr))
	return atomic.SwapUintptr(addr, new)
}
func CompareAndSwapUintptr(addr *uintptr, old, new uintptr) bool {
	hook("CompareAndSwapUintptr", unsafe.Pointer(addr))
	return atomic.CompareAndSwapUintptr(addr, old, new)
}
func AndUintptr(addr *uintptr, mask uintptr) uintptr {
	hook("AndUintptr", unsafe.Pointer(addr))
	return atomic.AndUintptr(addr, mask)
}
func OrUintptr(addr *uintptr, mask uintptr) uintptr {
	hook("OrUintptr", unsafe.Pointer(addr))
	return atomic.OrUintptr(addr, mask)
}

func LoadPointer(addr *unsafe.Pointer) unsafe.Pointer {
	hook("LoadPointer", unsafe.Pointer(addr))
	return atomic.LoadPointer(addr)
}
func StorePointer(addr *unsafe.Pointer, val unsafe.Pointer) {
	hook("StorePointer", unsafe.Pointer(addr))
	atomic.StorePointer(addr, val)
}
func SwapPointer(addr *unsafe.Pointer, new unsafe.Pointer) unsafe.Pointer {
	hook("SwapPointer", unsafe.Pointer(addr))
	return atomic.SwapPointer(addr, new)
}
func CompareAndSwapPointer(addr *unsafe.Pointer, old, new unsafe.Pointer) bool {
	hook("CompareAndSwapPointer", unsafe.Pointer(addr))
	return atomic.CompareAndSwapPointer(addr, old, new)
}

// ---- typed API ----

// Int32 mirrors atomic.Int32.
type Int32 struct{ v atomic.Int32 }

func (x *Int32) Load() int32 {
	hook("Int32.Load", unsafe.Pointer(x))
	return x.v.Load()
}
func (x *Int32) Store(val int32) {
	hook("Int32.Store", unsafe.Pointer(x))
	x.v.Store(val)
}
func (x *Int32) Swap(new int32) int32 {
	hook("Int32.Swap", unsafe.Pointer(x))
	return x.v.Swap(new)
}
func (x *Int32) CompareAndSwap(old, new int32) bool {
	hook("Int32.CompareAndSwap", unsafe.Pointer(x))
	return x.v.CompareAndSwap(old, new)
}
func (x *Int32) Add(delta int32) int32 {
	hook("Int32.Add", unsafe.Pointer(x))
	return x.v.Add(delta)
}
func (x *Int32) And(mask int32) int32 {
	hook("Int32.And", unsafe.Pointer(x))
	return x.v.And(mask)
}
func (x *Int32) Or(mask int32) int32 {
	hook("Int32.Or", unsafe.Pointer(x))
	return x.v.Or(mask)
}

// Int64 mirrors atomic.Int64.
type Int64 struct{ v atomic.Int64 }

func (x *Int64) Load() int64 {
	hook("Int64.Load", unsafe.Pointer(x))
	return x.v.Load()
}
func (x *Int64) Store(val int64) {
	hook("Int64.Store", unsafe.Pointer(x))
	x.v.Store(val)
}
func (x *Int64) Swap(new int64) int64 {
	hook("Int64.Swap", unsafe.Pointer(x))
	return x.v.Swap(new)
}
func (x *Int64) CompareAndSwap(old, new int64) bool {
	hook("Int64.CompareAndSwap", unsafe.Pointer(x))
	return x.v.CompareAndSwap(old, new)
}
func (x *Int64) Add(delta int64) int64 {
	hook("Int64.Add", unsafe.Pointer(x))
	return x.v.Add(delta)
}
func (x *Int64) And(mask int64) int64 {
	hook("Int64.And", unsafe.Pointer(x))
	return x.v.And(mask)
}
func (x *Int64) Or(mask int64) int64 {
	hook("Int64.Or", unsafe.Pointer(x))
	return x.v.Or(mask)
}

// Uint32 mirrors atomic.Uint32.
type Uint32 struct{ v atomic.Uint32 }

func (x *Uint32) Load() uint32 {
	hook("Uint32.Load", unsafe.Pointer(x))
	return x.v.Load()
}
func (x *Uint32) Store(val uint32) {
	hook("Uint32.Store", unsafe.Pointer(x))
	x.v.Store(val)
}
func (x *Uint32) Swap(new uint32) uint32 {
	hook("Uint32.Swap", unsafe.Pointer(x))
	return x.v.Swap(new)
}
func (x *Uint32) CompareAndSwap(old, new uint32) bool {
	hook("Uint32.CompareAndSwap", unsafe.Pointer(x))
	return x.v.CompareAndSwap(old, new)
}
func (x *Uint32) Add(delta uint32) uint32 {
	hook("Uint32.Add", unsafe.Pointer(x))
	return x.v.Add(delta)
}
func (x *Uint32) And(mask uint32) uint32 {
	hook("Uint32.And", unsafe.Pointer(x))
	return x.v.And(mask)
}
func (x *Uint32) Or(mask uint32) uint32 {
	hook("Uint32.Or", unsafe.Pointer(x))
	return x.v.Or(mask)
}

// Uint64 mirrors atomic.Uint64.
type Uint64 struct{ v atomic.Uint64 }

func (x *Uint64) Load() uint64 {
	hook("Uint64.Load", unsafe.Pointer(x))
	return x.v.Load()
}
func (x *Uint64) Store(val uint64) {
	hook("Uint64.Store", unsafe.Pointer(x))
	x.v.Store(val)
}
func (x *Uint64) Swap(new uint64) uint64 {
	hook("Uint64.Swap", unsafe.Pointer(x))
	return x.v.Swap(new)
}
func (x *Uint64) CompareAndSwap(old, new uint64) bool {
	hook("Uint64.CompareAndSwap", unsafe.Pointer(x))
	return x.v.CompareAndSwap(old, new)
}
func (x *Uint64) Add(delta uint64) uint64 {
	hook("Uint64.Add", unsafe.Pointer(x))
	return x.v.Add(delta)
}
func (x *Uint64) And(mask uint64) uint64 {
	hook("Uint64.And", unsafe.Pointer(x))
	return x.v.And(mask)
}
func (x *Uint64) Or(mask uint64) uint64 {
	hook("Uint64.Or", unsafe.Pointer(x))
	return x.v.Or(mask)
}

// Uintptr mirrors atomic.Uintptr.
type Uintptr struct{ v atomic.Uintptr }

func (x *Uintptr) Load() uintptr {
	hook("Uintptr.Load", unsafe.Pointer(x))
	return x.v.Load()
}
func (x *Uintptr) Store(val uintptr) {
	hook("Uintptr.Store", unsafe.Pointer(x))
	x.v.Store(val)
}
func (x *Uintptr) Swap(new uintptr) uintptr {
	hook("Uintptr.Swap", unsafe.Pointer(x))
	return x.v.Swap(new)
}
func (x *Uintptr) CompareAndSwap(old, new uintptr) bool {
	hook("Uintptr.CompareAndSwap", unsafe.Pointer(x))
	return x.v.CompareAndSwap(old, new)
}
func (x *Uintptr) Add(delta uintptr) uintptr {
	hook("Uintptr.Add", unsafe.Pointer(x))
	return x.v.Add(delta)
}
func (x *Uintptr) And(mask uintptr) uintptr {
	hook("Uintptr.And", unsafe.Pointer(x))
	return x.v.And(mask)
}
func (x *Uintptr) Or(mask uintptr) uintptr {
	hook("Uintptr.Or", unsafe.Pointer(x))
	return x.v.Or(mask)
}

// Bool mirrors atomic.Bool.
type Bool struct{ v atomic.Bool }

func (x *Bool) Load() bool {
	hook("Bool.Load", unsafe.Pointer(x))
	return x.v.Load()
}
func (x *Bool) Store(val bool) {
	hook("Bool.Store", unsafe.Pointer(x))
	x.v.Store(val)
}
func (x *Bool) Swap(new bool) bool {
	hook("Bool.Swap", unsafe.Pointer(x))
	return x.v.Swap(new)
}
func (x *Bool) CompareAndSwap(old, new bool) bool {
	hook("Bool.CompareAndSwap", unsafe.Pointer(x))
	return x.v.CompareAndSwap(old, new)
}

// Pointer mirrors atomic.Pointer.
type Pointer[T any] struct{ v atomic.Pointer[T] }

func (x *Pointer[T]) Load() *T {
	hook("Pointer.Load", unsafe.Pointer(x))
	return x.v.Load()
}
func (x *Pointer[T]) Store(val *T) {
	hook("Pointer.Store", unsafe.Pointer(x))
	x.v.Store(val)
}
func (x *Pointer[T]) Swap(new *T) *T {
	hook("Pointer.Swap", unsafe.Pointer(x))
	return x.v.Swap(new)
}
func (x *Pointer[T]) CompareAndSwap(old, new *T) bool {
	hook("Pointer.CompareAndSwap", unsafe.Pointer(x))
	return x.v.CompareAndSwap(old, new)
}

// Value mirrors atomic.Value.
type Value struct{ v atomic.Value }

func (x *Value) Load() interface{} {
	hook("Value.Load", unsafe.Pointer(x))
	return x.v.Load()
}
func (x *Value) Store(val interface{}) {
	hook("Value.Store", unsafe.Pointer(x))
	x.v.Store(val)
}
func (x *Value) Swap(new interface{}) interface{} {
	hook("Value.Swap", unsafe.Pointer(x))
	return x.v.Swap(new)
}
func (x *Value) CompareAndSwap(old, new interface{}) bool {
	hook("Value.CompareAndSwap", unsafe.Pointer(x))
	return x.v.CompareAndSwap(old, new)
}
