// Package vnode is a scripted Cassandra node / cluster that lives in memory: connections are
// in-process duplex pipes whose byte boundaries, write failures and lifetimes are decided by the
// harness, and the node speaks the native protocol only through lib/cqlspec (written from the
// specification). It does not import gocql.
package vnode

import (
	"context"
	"errors"
	"fmt"
	"io"
	"net"
	"os"
	"sync"
	"time"
)

// half is one direction of a pipe.
type half struct {
	mu       sync.Mutex
	cond     *sync.Cond
	buf      []byte
	closed   bool // writer closed: reader drains then gets EOF
	rdClosed bool // reader closed: writes fail
	deadline time.Time
	dlTimer  *time.Timer
}

func newHalf() *half {
	h := &half{}
	h.cond = sync.NewCond(&h.mu)
	return h
}

type timeoutErr struct{}

func (timeoutErr) Error() string        { return "i/o timeout" }
func (timeoutErr) Timeout() bool        { return true }
func (timeoutErr) Temporary() bool      { return true }
func (timeoutErr) Is(target error) bool { return target == os.ErrDeadlineExceeded }

// errCtxDeadline is how a transport that is driven by contexts (a tunnel over gRPC or websockets behind a
// HostDialer) reports that its write deadline ran out: an error that wraps context.DeadlineExceeded.
var errCtxDeadline = fmt.Errorf("tunnel: write: %w", context.DeadlineExceeded)

// ErrTimeout is the deadline error of a Conn (a net.Error with Timeout() == true).
var ErrTimeout net.Error = timeoutErr{}

func (h *half) setDeadline(t time.Time) {
	h.mu.Lock()
	h.deadline = t
	if h.dlTimer != nil {
		h.dlTimer.Stop()
		h.dlTimer = nil
	}
	if !t.IsZero() {
		d := time.Until(t)
		if d < 0 {
			d = 0
		}
		h.dlTimer = time.AfterFunc(d, func() {
			h.mu.Lock()
			h.cond.Broadcast()
			h.mu.Unlock()
		})
	}
	h.cond.Broadcast()
	h.mu.Unlock()
}

func (h *half) read(p []byte, max int) (int, error) {
	h.mu.Lock()
	defer h.mu.Unlock()
	for {
		if h.rdClosed {
			return 0, io.ErrClosedPipe
		}
		if len(h.buf) > 0 {
			n := len(p)
			if max > 0 && n > max {
				n = max
			}
			n = copy(p[:n], h.buf)
			h.buf = h.buf[n:]
			return n, nil
		}
		if h.closed {
			return 0, io.EOF
		}
		if !h.deadline.IsZero() && !time.Now().Before(h.deadline) {
			return 0, ErrTimeout
		}
		h.cond.Wait()
	}
}

func (h *half) write(p []byte) (int, error) {
	h.mu.Lock()
	defer h.mu.Unlock()
	if h.closed || h.rdClosed {
		return 0, io.ErrClosedPipe
	}
	h.buf = append(h.buf, p...)
	h.cond.Broadcast()
	return len(p), nil
}

func (h *half) closeWrite() {
	h.mu.Lock()
	h.closed = true
	h.cond.Broadcast()
	h.mu.Unlock()
}

func (h *half) closeRead() {
	h.mu.Lock()
	h.rdClosed = true
	h.buf = nil
	h.cond.Broadcast()
	h.mu.Unlock()
}

// WriteRule decides the fate of the driver's k-th Write call on a connection (k counts from 0).
type WriteRule struct {
	Nth    int    `json:"nth"`
	Accept int    `json:"accept"` // bytes accepted before the failure; <0: the whole write succeeds
	Err    string `json:"err"`    // "" none, "timeout" (net.Error timeout), "ctxdeadline" (an error wrapping context.DeadlineExceeded), "reset" (generic error), "stall" (block until the write deadline or Release)
	Close  bool   `json:"close"`  // close the connection after this write
}

// Plan is the fault plan of one client-side connection.
type Plan struct {
	ReadChunks   []int       `json:"read_chunks,omitempty"` // sizes the driver's Reads are limited to, cyclic; empty: unlimited
	Writes       []WriteRule `json:"writes,omitempty"`
	CutAt        int         `json:"cut_at,omitempty"`         // >0: after this many bytes written in total the connection dies mid-write
	WriteDelayUs int         `json:"write_delay_us,omitempty"` // >0: every Write of the driver takes this long before its bytes are delivered (a slow link)
	CloseErr     bool        `json:"close_err,omitempty"`      // the driver's Close closes the connection and reports an error (a TLS connection whose close_notify cannot be sent)
}

// ErrCloseNotify is what Close returns under Plan.CloseErr.
var ErrCloseNotify = errors.New("vnode: connection closed, close_notify could not be sent")

// WriteRec records one Write call of the driver.
type WriteRec struct {
	Index    int
	Data     []byte // bytes offered
	Accepted int    // bytes that reached the node
	Err      string
}

// Conn is one end of an in-memory connection. The client end (given to the driver) carries the
// fault plan and the write record; the server end is plain.
type Conn struct {
	rd, wr     *half
	local, rem *net.TCPAddr
	client     bool

	mu        sync.Mutex
	plan      Plan
	nWrites   int
	nReads    int
	total     int
	writes    []WriteRec
	closed    bool
	onClose   func()
	wdeadline time.Time
	release   chan struct{}
	done      chan struct{} // closed by Close: a blocked write returns, as a blocked socket write does
	peerDone  chan struct{} // the other end's done: a blocked write fails when the peer resets the connection
}

// Pipe returns the client and server ends of a fresh connection.
func Pipe(clientAddr, serverAddr *net.TCPAddr, plan Plan) (client, server *Conn) {
	a, b := newHalf(), newHalf()
	client = &Conn{rd: a, wr: b, local: clientAddr, rem: serverAddr, client: true, plan: plan, release: make(chan struct{}), done: make(chan struct{})}
	server = &Conn{rd: b, wr: a, local: serverAddr, rem: clientAddr, done: make(chan struct{})}
	client.peerDone, server.peerDone = server.done, client.done
	return
}

func (c *Conn) Read(p []byte) (int, error) {
	max := 0
	if c.client {
		c.mu.Lock()
		if n := len(c.plan.ReadChunks); n > 0 {
			max = c.plan.ReadChunks[c.nReads%n]
			c.nReads++
		}
		c.mu.Unlock()
	}
	return c.rd.read(p, max)
}

var errReset = errors.New("vnode: connection reset by fault plan")

func (c *Conn) Write(p []byte) (int, error) {
	if !c.client {
		return c.wr.write(p)
	}
	c.mu.Lock()
	idx := c.nWrites
	c.nWrites++
	var rule *WriteRule
	for i := range c.plan.Writes {
		if c.plan.Writes[i].Nth == idx {
			rule = &c.plan.Writes[i]
		}
	}
	cut := -1
	if c.plan.CutAt > 0 && c.total+len(p) > c.plan.CutAt {
		cut = c.plan.CutAt - c.total
		if cut < 0 {
			cut = 0
		}
	}
	dl := c.wdeadline
	c.mu.Unlock()

	if d := c.plan.WriteDelayUs; d > 0 {
		t := time.NewTimer(time.Duration(d) * time.Microsecond)
		select {
		case <-t.C:
		case <-c.done:
		case <-c.peerDone:
		}
		t.Stop()
	}
	accept, errS, closeAfter := len(p), "", false
	if rule != nil {
		if rule.Accept >= 0 && rule.Accept < accept {
			accept = rule.Accept
		}
		errS, closeAfter = rule.Err, rule.Close
		if errS == "" && accept < len(p) {
			errS = "reset"
		}
	}
	if cut >= 0 && cut < accept {
		accept, errS, closeAfter = cut, "reset", true
	}
	if errS == "stall" {
		// block until the write deadline passes or the harness releases the connection
		var timer <-chan time.Time
		if !dl.IsZero() {
			t := time.NewTimer(time.Until(dl))
			defer t.Stop()
			timer = t.C
		}
		select {
		case <-timer:
			errS = "timeout"
		case <-c.release:
			errS, accept = "", len(p)
		case <-c.done:
			errS, accept = "reset", 0
		case <-c.peerDone:
			errS, accept = "reset", 0
		}
	}
	n, werr := c.wr.write(p[:accept])
	var err error
	switch {
	case werr != nil:
		err = werr
	case errS == "timeout":
		err = ErrTimeout
	case errS == "ctxdeadline":
		err = errCtxDeadline
	case errS != "":
		err = errReset
	}
	c.mu.Lock()
	c.total += n
	rec := WriteRec{Index: idx, Data: append([]byte{}, p...), Accepted: n}
	if err != nil {
		rec.Err = err.Error()
	}
	c.writes = append(c.writes, rec)
	c.mu.Unlock()
	if closeAfter {
		c.Close()
	}
	return n, err
}

// Release unblocks a stalled write (it then succeeds).
func (c *Conn) Release() {
	c.mu.Lock()
	select {
	case <-c.release:
	default:
		close(c.release)
	}
	c.mu.Unlock()
}

// Writes returns the record of the driver's Write calls so far.
func (c *Conn) Writes() []WriteRec {
	c.mu.Lock()
	defer c.mu.Unlock()
	return append([]WriteRec{}, c.writes...)
}

func (c *Conn) Close() error {
	c.mu.Lock()
	if c.closed {
		c.mu.Unlock()
		return nil
	}
	c.closed = true
	close(c.done)
	f := c.onClose
	c.mu.Unlock()
	c.wr.closeWrite()
	c.rd.closeRead()
	if f != nil {
		f()
	}
	if c.client && c.plan.CloseErr {
		return ErrCloseNotify
	}
	return nil
}

// Closed reports whether Close was called on this end.
func (c *Conn) Closed() bool {
	c.mu.Lock()
	defer c.mu.Unlock()
	return c.closed
}

func (c *Conn) LocalAddr() net.Addr  { return c.local }
func (c *Conn) RemoteAddr() net.Addr { return c.rem }

func (c *Conn) SetDeadline(t time.Time) error {
	c.SetReadDeadline(t)
	c.SetWriteDeadline(t)
	return nil
}

func (c *Conn) SetReadDeadline(t time.Time) error {
	c.rd.setDeadline(t)
	return nil
}

func (c *Conn) SetWriteDeadline(t time.Time) error {
	c.mu.Lock()
	c.wdeadline = t
	c.mu.Unlock()
	return nil
}
