package vnode

import (
	"context"
	"encoding/hex"
	"errors"
	"fmt"
	"net"
	"strconv"
	"strings"
	"sync"
	"sync/atomic"
	"time"

	"verif.local/cqlspec"
)

// HostSpec is what the cluster "truth" says about one node.
type HostSpec struct {
	IP      string   `json:"ip"`
	Port    int      `json:"port"`
	HostID  string   `json:"host_id"` // 32 hex digits
	DC      string   `json:"dc"`
	Rack    string   `json:"rack"`
	Tokens  []string `json:"tokens"`
	Version string   `json:"version"`           // release_version
	Peer    string   `json:"peer,omitempty"`    // node-to-node address (system.peers.peer / system.local.broadcast_address); "" = IP
	NoAddr  bool     `json:"no_addr,omitempty"` // the peers row carries no usable address: peer null, rpc_address 0.0.0.0
}

// PeerAddr is the node-to-node address the cluster reports for the host.
func (h HostSpec) PeerAddr() string {
	if h.Peer != "" {
		return h.Peer
	}
	return h.IP
}

func (h HostSpec) Key() string { return net.JoinHostPort(h.IP, strconv.Itoa(h.Port)) }

// LoggedReq is one request frame as a node received it.
type LoggedReq struct {
	Seq    int64 // global order over the whole cluster
	Node   string
	ConnID int
	Stream int
	Req    *cqlspec.Request // nil if the frame did not decode
	Err    string           // decode error of a malformed request frame
	Raw    []byte
	At     time.Time
}

// ReqCtx is handed to handlers; Reply may be called later and from any goroutine.
type ReqCtx struct {
	Node *Node
	Conn *ServerConn
	Req  *cqlspec.Request
	Seq  int64
	Raw  []byte
}

// Reply sends resp as the answer to this request (stream id and version are filled in).
func (rc *ReqCtx) Reply(resp *cqlspec.Response) error {
	r := *resp
	r.Version = rc.Req.Header.Version
	r.Stream = rc.Req.Header.Stream
	return rc.Conn.Send(&r)
}

// ServerConn is the node's side of one connection.
type ServerConn struct {
	ID         int
	Node       *Node
	C          *Conn // server end
	Client     *Conn // client end (for inspection: Writes(), Closed())
	wmu        sync.Mutex
	Registered bool
	Keyspace   string
	Compress   string // negotiated compression ("" none)
	Started    bool   // STARTUP seen
	AuthStep   int
	Opened     time.Time
}

func (sc *ServerConn) compressFn() func([]byte) ([]byte, error) {
	switch sc.Compress {
	case "snappy":
		return func(b []byte) ([]byte, error) { return cqlspec.SnappyEncode(b, true), nil }
	case "lz4":
		return func(b []byte) ([]byte, error) { return cqlspec.CassandraLZ4Encode(b, true), nil }
	}
	return nil
}

func (sc *ServerConn) decompressFn() func([]byte) ([]byte, error) {
	switch sc.Compress {
	case "snappy":
		return func(b []byte) ([]byte, error) { return cqlspec.SnappyDecode(b, 300<<20) }
	case "lz4":
		return func(b []byte) ([]byte, error) { return cqlspec.CassandraLZ4Decode(b, 300<<20) }
	}
	return nil
}

// Send writes one response frame (atomically with respect to other Sends).
func (sc *ServerConn) Send(r *cqlspec.Response) error {
	if sc.Compress != "" && sc.Node.CompressResponses && r.Kind != "SUPPORTED" && (r.Kind != "READY" || sc.Node.CompressReady) {
		r.Compress = true
	}
	b, err := r.Frame(sc.compressFn())
	if err != nil {
		return err
	}
	return sc.SendRaw(b)
}

// SendRaw writes arbitrary bytes to the driver.
func (sc *ServerConn) SendRaw(b []byte) error {
	sc.wmu.Lock()
	defer sc.wmu.Unlock()
	_, err := sc.C.Write(b)
	return err
}

// Close closes the connection from the node's side.
func (sc *ServerConn) Close() { sc.C.Close() }

// Node is one scripted Cassandra node.
type Node struct {
	Cluster *Cluster
	Spec    HostSpec

	mu    sync.Mutex
	log   []*LoggedReq
	conns []*ServerConn

	// Intercept sees every request first (handshake included); returning true means it was handled.
	Intercept func(rc *ReqCtx) bool
	// Handler receives user statements: QUERY that is not a system query, PREPARE, EXECUTE, BATCH.
	Handler func(rc *ReqCtx)

	Supported         map[string][]string
	AuthClass         string // class sent in AUTHENTICATE; "" = no authentication unless RequireAuth
	RequireAuth       bool   // demand authentication even with an empty class name
	CompressResponses bool
	CompressReady     bool   // with CompressResponses: the READY that answers STARTUP is compressed too (Cassandra installs the compressor before it answers)
	RefuseDial        string // "" accept; "refuse" fail; "stall" block until ctx is done
	Partitioner       string
}

// Log returns a copy of the request log.
func (n *Node) Log() []*LoggedReq {
	n.mu.Lock()
	defer n.mu.Unlock()
	return append([]*LoggedReq{}, n.log...)
}

// Conns returns the connections opened to this node so far.
func (n *Node) Conns() []*ServerConn {
	n.mu.Lock()
	defer n.mu.Unlock()
	return append([]*ServerConn{}, n.conns...)
}

// OpenConns counts connections to this node whose client end is not closed.
func (n *Node) OpenConns() int {
	k := 0
	for _, sc := range n.Conns() {
		if !sc.Client.Closed() && !sc.C.Closed() {
			k++
		}
	}
	return k
}

// Cluster is a set of nodes plus the dialer the driver uses.
type Cluster struct {
	mu        sync.Mutex
	nodes     map[string]*Node // by "ip:port"
	order     []*Node
	seq       int64
	connSeq   int64
	Proto     int
	PlanFor   func(addr string, nth int) Plan // fault plan of the nth connection to addr
	dials     map[string]int
	truth     []HostSpec // what system.local / system.peers report (defaults to the nodes' specs)
	PeersErr  *cqlspec.Response
	alias     map[string]string // public "ip:port" -> key in nodes
	aliasOnly bool
	PeersV2   bool // a Cassandra 4 cluster: system.peers_v2 exists (peer_port, native_address, native_port), system.local has the *_port columns
}

func NewCluster(specs []HostSpec) *Cluster {
	c := &Cluster{nodes: map[string]*Node{}, dials: map[string]int{}}
	for _, s := range specs {
		c.AddNode(s)
	}
	return c
}

// AddNode makes a node dialable (and part of the truth unless SetTruth was used).
func (c *Cluster) AddNode(s HostSpec) *Node {
	if s.Port == 0 {
		s.Port = 9042
	}
	if s.Version == "" {
		s.Version = "3.11.4"
	}
	n := &Node{Cluster: c, Spec: s, Partitioner: "org.apache.cassandra.dht.Murmur3Partitioner",
		Supported: map[string][]string{"CQL_VERSION": {"3.4.4"}, "COMPRESSION": {"snappy", "lz4"}}}
	c.mu.Lock()
	c.nodes[s.Key()] = n
	c.order = append(c.order, n)
	c.mu.Unlock()
	return n
}

func (c *Cluster) Node(ip string) *Node {
	c.mu.Lock()
	defer c.mu.Unlock()
	for _, n := range c.order {
		if n.Spec.IP == ip {
			return n
		}
	}
	return nil
}

func (c *Cluster) Nodes() []*Node {
	c.mu.Lock()
	defer c.mu.Unlock()
	return append([]*Node{}, c.order...)
}

// SetTruth replaces what the cluster reports about its membership.
func (c *Cluster) SetTruth(t []HostSpec) {
	c.mu.Lock()
	c.truth = append([]HostSpec{}, t...)
	c.mu.Unlock()
}

// Truth returns the reported membership (the nodes' own specs unless SetTruth was called).
func (c *Cluster) Truth() []HostSpec {
	c.mu.Lock()
	defer c.mu.Unlock()
	if c.truth != nil {
		return append([]HostSpec{}, c.truth...)
	}
	var out []HostSpec
	for _, n := range c.order {
		out = append(out, n.Spec)
	}
	return out
}

// AllLogs merges the request logs of all nodes in global order.
func (c *Cluster) AllLogs() []*LoggedReq {
	var all []*LoggedReq
	for _, n := range c.Nodes() {
		all = append(all, n.Log()...)
	}
	for i := 1; i < len(all); i++ {
		for j := i; j > 0 && all[j].Seq < all[j-1].Seq; j-- {
			all[j], all[j-1] = all[j-1], all[j]
		}
	}
	return all
}

var ErrRefused = errors.New("vnode: connection refused")

// SetAlias makes the node at real ("ip:port", the address it reports) reachable at public ("ip:port"); with
// only == true the reported addresses themselves cannot be dialled any more (a cluster behind address translation).
func (c *Cluster) SetAlias(public, real string, only bool) {
	c.mu.Lock()
	if c.alias == nil {
		c.alias = map[string]string{}
	}
	c.alias[public] = real
	c.aliasOnly = only
	c.mu.Unlock()
}

// SetRefuse changes RefuseDial while sessions are dialling.
func (n *Node) SetRefuse(mode string) {
	n.mu.Lock()
	n.RefuseDial = mode
	n.mu.Unlock()
}

// Dials is the number of dial attempts made to addr ("ip:port") so far.
func (c *Cluster) Dials(addr string) int {
	c.mu.Lock()
	defer c.mu.Unlock()
	return c.dials[addr]
}

// DialContext implements gocql.Dialer.
func (c *Cluster) DialContext(ctx context.Context, network, addr string) (net.Conn, error) {
	c.mu.Lock()
	dialled := ""
	if real, ok := c.alias[addr]; ok {
		dialled, addr = addr, real
	} else if c.aliasOnly {
		c.dials[addr]++
		c.mu.Unlock()
		return nil, fmt.Errorf("vnode: %s is a private address, not reachable from the client: %w", addr, ErrRefused)
	}
	n := c.nodes[addr]
	nth := c.dials[addr]
	c.dials[addr]++
	planFor := c.PlanFor
	c.mu.Unlock()
	if n == nil {
		return nil, fmt.Errorf("vnode: no node at %s: %w", addr, ErrRefused)
	}
	n.mu.Lock()
	refuse := n.RefuseDial
	n.mu.Unlock()
	switch refuse {
	case "refuse":
		return nil, ErrRefused
	case "stall":
		<-ctx.Done()
		return nil, ctx.Err()
	}
	var plan Plan
	if planFor != nil {
		plan = planFor(addr, nth)
	}
	ip, port := net.ParseIP(n.Spec.IP), n.Spec.Port
	if dialled != "" {
		// the client's end of the connection names the address that was dialled
		if h, p, err := net.SplitHostPort(dialled); err == nil {
			ip = net.ParseIP(h)
			port, _ = strconv.Atoi(p)
		}
	}
	client, server := Pipe(&net.TCPAddr{IP: net.IPv4(127, 0, 0, 1), Port: 40000 + nth}, &net.TCPAddr{IP: ip, Port: port}, plan)
	sc := &ServerConn{ID: int(atomic.AddInt64(&c.connSeq, 1)), Node: n, C: server, Client: client, Opened: time.Now()}
	n.mu.Lock()
	n.conns = append(n.conns, sc)
	n.mu.Unlock()
	go n.serve(sc)
	return client, nil
}

// serve reads request frames until the connection ends.
func (n *Node) serve(sc *ServerConn) {
	defer sc.C.Close()
	hdr := make([]byte, 9)
	for {
		if _, err := readFull(sc.C, hdr[:1]); err != nil {
			return
		}
		v := int(hdr[0] & 0x7f)
		hs := 9
		if v < 3 {
			hs = 8
		}
		if _, err := readFull(sc.C, hdr[1:hs]); err != nil {
			return
		}
		h, _, err := cqlspec.ParseHeader(hdr[:hs])
		if err != nil || h.Length < 0 || h.Length > 300<<20 {
			n.logReq(sc, &LoggedReq{Err: fmt.Sprintf("bad header % x: %v", hdr[:hs], err), Raw: append([]byte{}, hdr[:hs]...), Stream: h.Stream})
			return
		}
		body := make([]byte, h.Length)
		if _, err := readFull(sc.C, body); err != nil {
			return
		}
		raw := append(append([]byte{}, hdr[:hs]...), body...)
		req, derr := cqlspec.DecodeRequest(raw, sc.decompressFn())
		lr := &LoggedReq{Stream: h.Stream, Req: req, Raw: raw}
		if derr != nil {
			lr.Err = derr.Error()
		}
		n.logReq(sc, lr)
		if derr != nil {
			// a real server answers a protocol error
			_ = sc.Send(&cqlspec.Response{Version: h.Version, Stream: h.Stream, Kind: "ERROR", Code: cqlspec.ErrProtocol, Message: "vnode cannot decode request: " + derr.Error()})
			continue
		}
		rc := &ReqCtx{Node: n, Conn: sc, Req: req, Seq: lr.Seq, Raw: raw}
		if n.Intercept != nil && n.Intercept(rc) {
			continue
		}
		n.dispatch(rc)
	}
}

func readFull(c *Conn, p []byte) (int, error) {
	got := 0
	for got < len(p) {
		n, err := c.Read(p[got:])
		got += n
		if err != nil {
			return got, err
		}
	}
	return got, nil
}

func (n *Node) logReq(sc *ServerConn, lr *LoggedReq) {
	lr.Seq = atomic.AddInt64(&n.Cluster.seq, 1)
	lr.Node = n.Spec.IP
	lr.ConnID = sc.ID
	lr.At = time.Now()
	n.mu.Lock()
	n.log = append(n.log, lr)
	n.mu.Unlock()
}

func text(s string) cqlspec.Value { return cqlspec.BytesValue([]byte(s)) }

func inetV(ip string) cqlspec.Value {
	p := net.ParseIP(ip)
	if p == nil {
		return cqlspec.NullValue()
	}
	if v4 := p.To4(); v4 != nil {
		return cqlspec.BytesValue(v4)
	}
	return cqlspec.BytesValue(p.To16())
}

func uuidV(h string) cqlspec.Value {
	b, err := hex.DecodeString(h)
	if err != nil || len(b) != 16 {
		return cqlspec.NullValue()
	}
	return cqlspec.BytesValue(b)
}

func tokensV(toks []string) cqlspec.Value {
	v := cqlspec.Value{Elems: []cqlspec.Value{}}
	for _, t := range toks {
		v.Elems = append(v.Elems, text(t))
	}
	return v
}

func col(table, name string, k cqlspec.Kind) cqlspec.Column {
	return cqlspec.Column{Keyspace: "system", Table: table, Name: name, Type: cqlspec.Scalar(k)}
}

var setText = &cqlspec.Type{Kind: cqlspec.Set, Elems: []*cqlspec.Type{cqlspec.Scalar(cqlspec.Varchar)}}

// RowsResponse builds a ROWS result.
func RowsResponse(cols []cqlspec.Column, rows [][]cqlspec.Value) *cqlspec.Response {
	return &cqlspec.Response{Kind: "ROWS", Meta: &cqlspec.Metadata{Columns: cols}, Rows: rows}
}

// LocalRow is the system.local answer of this node.
func (n *Node) LocalRow() *cqlspec.Response {
	s := n.Spec
	// the node reports itself as the truth describes it (address changes etc. are visible)
	// (the first matching row: further rows with the same host id are stale duplicates, see C16)
	for _, t := range n.Cluster.Truth() {
		if t.HostID == s.HostID {
			s = t
			break
		}
	}
	cols := []cqlspec.Column{col("local", "key", cqlspec.Varchar), col("local", "data_center", cqlspec.Varchar), col("local", "rack", cqlspec.Varchar),
		col("local", "host_id", cqlspec.UUID), col("local", "release_version", cqlspec.Varchar), col("local", "cluster_name", cqlspec.Varchar),
		col("local", "partitioner", cqlspec.Varchar), col("local", "broadcast_address", cqlspec.Inet), col("local", "rpc_address", cqlspec.Inet),
		col("local", "listen_address", cqlspec.Inet), {Keyspace: "system", Table: "local", Name: "tokens", Type: setText},
		col("local", "schema_version", cqlspec.UUID), col("local", "cql_version", cqlspec.Varchar)}
	row := []cqlspec.Value{text("local"), text(s.DC), text(s.Rack), uuidV(s.HostID), text(s.Version), text("vcluster"), text(n.Partitioner),
		inetV(s.PeerAddr()), inetV(s.IP), inetV(s.IP), tokensV(s.Tokens), uuidV("00000000000010008000000000000001"), text("3.4.4")}
	if n.Cluster.PeersV2 {
		port := s.Port
		if port == 0 {
			port = 9042
		}
		cols = append(cols, col("local", "rpc_port", cqlspec.Int), col("local", "broadcast_port", cqlspec.Int), col("local", "listen_port", cqlspec.Int))
		row = append(row, cqlspec.I64Value(int64(port)), cqlspec.I64Value(7000), cqlspec.I64Value(7000))
	}
	return RowsResponse(cols, [][]cqlspec.Value{row})
}

// PeersV2Rows is the system.peers_v2 answer of this node (Cassandra 4): ports next to the addresses.
func (n *Node) PeersV2Rows() *cqlspec.Response {
	cols := []cqlspec.Column{col("peers_v2", "peer", cqlspec.Inet), col("peers_v2", "peer_port", cqlspec.Int), col("peers_v2", "data_center", cqlspec.Varchar),
		col("peers_v2", "rack", cqlspec.Varchar), col("peers_v2", "host_id", cqlspec.UUID), col("peers_v2", "release_version", cqlspec.Varchar),
		col("peers_v2", "native_address", cqlspec.Inet), col("peers_v2", "native_port", cqlspec.Int), col("peers_v2", "preferred_ip", cqlspec.Inet),
		col("peers_v2", "preferred_port", cqlspec.Int), {Keyspace: "system", Table: "peers_v2", Name: "tokens", Type: setText},
		col("peers_v2", "schema_version", cqlspec.UUID)}
	var rows [][]cqlspec.Value
	for _, t := range n.Cluster.Truth() {
		if t.HostID == n.Spec.HostID && t.HostID != "" {
			continue
		}
		dc, rack := text(t.DC), text(t.Rack)
		if t.DC == "" {
			dc = cqlspec.NullValue()
		}
		if t.Rack == "" {
			rack = cqlspec.NullValue()
		}
		toks := tokensV(t.Tokens)
		if len(t.Tokens) == 0 {
			toks = cqlspec.NullValue()
		}
		port := t.Port
		if port == 0 {
			port = 9042
		}
		peer, native := inetV(t.PeerAddr()), inetV(t.IP)
		if t.NoAddr {
			peer, native = cqlspec.NullValue(), inetV("0.0.0.0")
		}
		rows = append(rows, []cqlspec.Value{peer, cqlspec.I64Value(7000), dc, rack, uuidV(t.HostID), text(t.Version), native, cqlspec.I64Value(int64(port)),
			cqlspec.NullValue(), cqlspec.NullValue(), toks, uuidV("00000000000010008000000000000001")})
	}
	return RowsResponse(cols, rows)
}

// PeersRows is the system.peers answer of this node: every host of the truth except itself.
func (n *Node) PeersRows() *cqlspec.Response {
	cols := []cqlspec.Column{col("peers", "peer", cqlspec.Inet), col("peers", "data_center", cqlspec.Varchar), col("peers", "rack", cqlspec.Varchar),
		col("peers", "host_id", cqlspec.UUID), col("peers", "release_version", cqlspec.Varchar), col("peers", "rpc_address", cqlspec.Inet),
		col("peers", "preferred_ip", cqlspec.Inet), {Keyspace: "system", Table: "peers", Name: "tokens", Type: setText},
		col("peers", "schema_version", cqlspec.UUID)}
	var rows [][]cqlspec.Value
	for _, t := range n.Cluster.Truth() {
		if t.HostID == n.Spec.HostID && t.HostID != "" {
			continue
		}
		dc, rack := text(t.DC), text(t.Rack)
		if t.DC == "" {
			dc = cqlspec.NullValue()
		}
		if t.Rack == "" {
			rack = cqlspec.NullValue()
		}
		toks := tokensV(t.Tokens)
		if len(t.Tokens) == 0 {
			toks = cqlspec.NullValue()
		}
		peer, rpc := inetV(t.PeerAddr()), inetV(t.IP)
		if t.NoAddr {
			peer, rpc = cqlspec.NullValue(), inetV("0.0.0.0")
		}
		rows = append(rows, []cqlspec.Value{peer, dc, rack, uuidV(t.HostID), text(t.Version), rpc, cqlspec.NullValue(), toks,
			uuidV("00000000000010008000000000000001")})
	}
	return RowsResponse(cols, rows)
}

func norm(s string) string { return strings.ToLower(strings.Join(strings.Fields(s), " ")) }

// dispatch is the default behaviour of a node.
func (n *Node) dispatch(rc *ReqCtx) {
	req := rc.Req
	switch req.Kind {
	case "OPTIONS":
		rc.Reply(&cqlspec.Response{Kind: "SUPPORTED", Supported: n.Supported})
	case "STARTUP":
		rc.Conn.Started = true
		if c := req.Options["COMPRESSION"]; c != "" {
			rc.Conn.Compress = c
		}
		if n.AuthClass != "" || n.RequireAuth {
			rc.Reply(&cqlspec.Response{Kind: "AUTHENTICATE", Class: n.AuthClass})
			return
		}
		rc.Reply(&cqlspec.Response{Kind: "READY"})
	case "AUTH_RESPONSE":
		rc.Reply(&cqlspec.Response{Kind: "AUTH_SUCCESS"})
	case "REGISTER":
		rc.Conn.Registered = true
		rc.Reply(&cqlspec.Response{Kind: "READY"})
	case "QUERY":
		q := norm(req.Statement)
		switch {
		case strings.HasPrefix(q, "select * from system.local"):
			rc.Reply(n.LocalRow())
		case strings.HasPrefix(q, "select * from system.peers_v2"):
			if n.Cluster.PeersV2 {
				if e := n.Cluster.peersErr(); e != nil {
					rc.Reply(e)
					return
				}
				rc.Reply(n.PeersV2Rows())
				return
			}
			rc.Reply(&cqlspec.Response{Kind: "ERROR", Code: cqlspec.ErrInvalid, Message: "unconfigured table peers_v2"})
		case strings.HasPrefix(q, "select * from system.peers"):
			if e := n.Cluster.peersErr(); e != nil {
				rc.Reply(e)
				return
			}
			rc.Reply(n.PeersRows())
		case strings.HasPrefix(q, "use "):
			ks := strings.Trim(strings.TrimSpace(req.Statement[4:]), `"`)
			rc.Conn.Keyspace = ks
			rc.Reply(&cqlspec.Response{Kind: "SET_KEYSPACE", Keyspace: ks})
		case strings.Contains(q, " from system_schema.") || strings.Contains(q, " from system.schema_"):
			rc.Reply(RowsResponse([]cqlspec.Column{}, nil))
		case strings.HasPrefix(q, "select schema_version from system."):
			// schema agreement checks
			rc.Reply(RowsResponse([]cqlspec.Column{col("local", "schema_version", cqlspec.UUID)}, [][]cqlspec.Value{{uuidV("00000000000010008000000000000001")}}))
		default:
			n.user(rc)
		}
	default:
		n.user(rc)
	}
}

func (c *Cluster) peersErr() *cqlspec.Response {
	c.mu.Lock()
	defer c.mu.Unlock()
	return c.PeersErr
}

// SetPeersErr makes system.peers queries fail with e (nil: back to normal).
func (c *Cluster) SetPeersErr(e *cqlspec.Response) {
	c.mu.Lock()
	c.PeersErr = e
	c.mu.Unlock()
}

func (n *Node) user(rc *ReqCtx) {
	if n.Handler != nil {
		n.Handler(rc)
		return
	}
	switch rc.Req.Kind {
	case "PREPARE":
		rc.Reply(&cqlspec.Response{Kind: "PREPARED", PreparedIDHex: hex.EncodeToString([]byte(rc.Req.Statement)),
			Meta: &cqlspec.Metadata{Columns: []cqlspec.Column{}}, ResultMeta: &cqlspec.Metadata{Columns: []cqlspec.Column{}}})
	default:
		rc.Reply(&cqlspec.Response{Kind: "VOID"})
	}
}

// SendEvent pushes an EVENT frame on every registered connection of this node.
func (n *Node) SendEvent(ev *cqlspec.Response) int {
	k := 0
	for _, sc := range n.Conns() {
		if sc.Registered && !sc.C.Closed() {
			e := *ev
			e.Kind = "EVENT"
			e.Stream = -1
			if e.Version == 0 {
				e.Version = n.Cluster.Proto
			}
			if sc.Send(&e) == nil {
				k++
			}
		}
	}
	return k
}

// HostID builds a deterministic host id from a small number.
func HostID(i int) string { return fmt.Sprintf("%08x00001000800000000000%04x", 0xabcd0000+i, i) }
