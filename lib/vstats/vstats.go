// Package vstats is the measurement side of every check: how many cases were
// evaluated, how many were distinct and non-trivial by the property's stated
// rule, class histograms, samples, known-finding hits, and violations.
//
// One Collector per test function ("part").  Everything is flushed to the file
// named by $VX_STATS (a JSON list, one object per part) by Flush, which the
// harness calls from TestMain.
package vstats

import (
	"crypto/sha1"
	"encoding/json"
	"fmt"
	"io/ioutil"
	"os"
	"sort"
	"sync"
)

type Violation struct {
	Part string          `json:"part"`
	Msg  string          `json:"msg"`
	Case json.RawMessage `json:"case"`
}

type Collector struct {
	mu          sync.Mutex
	Property    string
	Part        string
	Rule        string
	Evaluations int64
	classes     map[string]int64
	nontrivial  map[[12]byte]struct{}
	samples     []json.RawMessage
	largest     json.RawMessage
	known       map[string]int64
	knownWhat   map[string]string
	excluded    map[string]int64
	extra       map[string]interface{}
	violations  []Violation
	exhaustive  bool
}

var (
	regMu sync.Mutex
	reg   []*Collector

	curPath = os.Getenv("VX_CUR")
	curMu   sync.Mutex
	curFile *os.File
)

// New registers a collector for one test function.
func New(property, part, rule string) *Collector {
	c := &Collector{Property: property, Part: part, Rule: rule,
		classes: map[string]int64{}, nontrivial: map[[12]byte]struct{}{},
		known: map[string]int64{}, knownWhat: map[string]string{}, excluded: map[string]int64{},
		extra: map[string]interface{}{}}
	regMu.Lock()
	reg = append(reg, c)
	regMu.Unlock()
	return c
}

// Case is the per-evaluation recorder.
type Case struct {
	c       *Collector
	classes []string
	nt      bool
	enc     json.RawMessage
}

func canon(v interface{}) json.RawMessage {
	b, err := json.Marshal(v)
	if err != nil {
		b, _ = json.Marshal(fmt.Sprintf("%+v", v))
	}
	return b
}

// Begin starts the evaluation of one case. If $VX_CUR is set the case is
// persisted first so that a crash of the process can be attributed to it.
func (c *Collector) Begin(v interface{}) *Case {
	enc := canon(v)
	if curPath != "" {
		obj := map[string]interface{}{"property": c.Property, "part": c.Part, "case": enc}
		b, _ := json.Marshal(obj)
		curMu.Lock()
		if curFile == nil {
			curFile, _ = os.OpenFile(curPath, os.O_CREATE|os.O_RDWR|os.O_TRUNC, 0o644)
		}
		if curFile != nil {
			// one pwrite + ftruncate per case; trailing spaces keep the file valid JSON when it shrinks
			_, _ = curFile.WriteAt(b, 0)
			_ = curFile.Truncate(int64(len(b)))
		}
		curMu.Unlock()
	}
	c.mu.Lock()
	c.Evaluations++
	c.mu.Unlock()
	return &Case{c: c, enc: enc}
}

func (k *Case) Class(label string)  { k.classes = append(k.classes, label) }
func (k *Case) NonTrivial()         { k.nt = true }
func (k *Case) Enc() json.RawMessage { return k.enc }

// Known records that the oracle met a listed known finding (not a violation).
func (k *Case) Known(id, what string) {
	k.c.mu.Lock()
	k.c.known[id]++
	if _, ok := k.c.knownWhat[id]; !ok {
		k.c.knownWhat[id] = what
	}
	k.c.mu.Unlock()
}

// Excluded records that the generator/oracle skipped a class by construction.
func (k *Case) Excluded(id string) {
	k.c.mu.Lock()
	k.c.excluded[id]++
	k.c.mu.Unlock()
}

// End commits the case's labels.
func (k *Case) End() {
	c := k.c
	c.mu.Lock()
	defer c.mu.Unlock()
	for _, l := range k.classes {
		c.classes[l]++
	}
	if k.nt {
		h := sha1.Sum(k.enc)
		var d [12]byte
		copy(d[:], h[:12])
		if _, ok := c.nontrivial[d]; !ok {
			c.nontrivial[d] = struct{}{}
			if len(c.samples) < 4 && len(k.enc) < 4000 {
				c.samples = append(c.samples, k.enc)
			}
			if len(k.enc) > len(c.largest) && len(k.enc) < 6000 {
				c.largest = k.enc
			}
		}
	}
}

// Violation records a failing case (the last one recorded for a part is the
// shrunk one, because rapid re-runs the minimal case last).
func (c *Collector) Violation(enc json.RawMessage, msg string) {
	c.mu.Lock()
	c.violations = append(c.violations, Violation{Part: c.Part, Msg: msg, Case: enc})
	c.mu.Unlock()
	if p := os.Getenv("VX_FAIL"); p != "" {
		obj := map[string]interface{}{"property": c.Property, "part": c.Part, "msg": msg, "case": enc}
		b, _ := json.MarshalIndent(obj, "", " ")
		_ = ioutil.WriteFile(p, b, 0o644)
	}
}

func (c *Collector) Count(label string, n int64) {
	c.mu.Lock()
	c.classes[label] += n
	c.mu.Unlock()
}

func (c *Collector) SetExtra(k string, v interface{}) {
	c.mu.Lock()
	c.extra[k] = v
	c.mu.Unlock()
}

func (c *Collector) SetExhaustive(b bool) { c.mu.Lock(); c.exhaustive = b; c.mu.Unlock() }

type out struct {
	Property    string                 `json:"property"`
	Part        string                 `json:"part"`
	Rule        string                 `json:"rule"`
	Evaluations int64                  `json:"evaluations"`
	Nontrivial  []string               `json:"nontrivial_digests"`
	Classes     map[string]int64       `json:"classes"`
	Samples     []json.RawMessage      `json:"samples"`
	Known       map[string]int64       `json:"known"`
	KnownWhat   map[string]string      `json:"known_what"`
	Excluded    map[string]int64       `json:"excluded"`
	Extra       map[string]interface{} `json:"extra"`
	Violations  []Violation            `json:"violations"`
	Exhaustive  bool                   `json:"exhaustive"`
}

// Flush writes every registered collector to $VX_STATS.
func Flush() {
	p := os.Getenv("VX_STATS")
	if p == "" {
		return
	}
	regMu.Lock()
	defer regMu.Unlock()
	var all []out
	for _, c := range reg {
		c.mu.Lock()
		o := out{Property: c.Property, Part: c.Part, Rule: c.Rule, Evaluations: c.Evaluations,
			Classes: c.classes, Known: c.known, KnownWhat: c.knownWhat, Excluded: c.excluded,
			Extra: c.extra, Exhaustive: c.exhaustive}
		for d := range c.nontrivial {
			o.Nontrivial = append(o.Nontrivial, fmt.Sprintf("%x", d[:]))
		}
		sort.Strings(o.Nontrivial)
		o.Samples = append(o.Samples, c.samples...)
		if c.largest != nil {
			dup := false
			for _, s := range c.samples {
				if string(s) == string(c.largest) {
					dup = true
				}
			}
			if !dup {
				o.Samples = append(o.Samples, c.largest)
			}
		}
		// keep only the last violation per part (the shrunk one) plus a count
		if n := len(c.violations); n > 0 {
			o.Violations = []Violation{c.violations[n-1]}
		}
		c.mu.Unlock()
		all = append(all, o)
	}
	b, _ := json.Marshal(all)
	_ = ioutil.WriteFile(p, b, 0o644)
}

// KnownFinding is one record of /verif/known_findings.jsonl.
type KnownFinding struct {
	Property string `json:"property"`
	ID       string `json:"id"`
	Status   string `json:"status"` // "known" | "fixed"
	What     string `json:"what"`
	Commit   string `json:"commit,omitempty"`
}

var (
	kfOnce sync.Once
	kf     map[string]KnownFinding
)

// IsKnown reports whether finding id is listed with status "known" (a fixed
// entry suppresses nothing).
func IsKnown(id string) bool {
	kfOnce.Do(func() {
		kf = map[string]KnownFinding{}
		p := os.Getenv("VX_KNOWN")
		if p == "" {
			return
		}
		b, err := ioutil.ReadFile(p)
		if err != nil {
			return
		}
		start := 0
		for i := 0; i <= len(b); i++ {
			if i == len(b) || b[i] == '\n' {
				line := b[start:i]
				start = i + 1
				var r KnownFinding
				if len(line) > 2 && json.Unmarshal(line, &r) == nil && r.ID != "" {
					kf[r.ID] = r
				}
			}
		}
	})
	r, ok := kf[id]
	return ok && r.Status == "known"
}
