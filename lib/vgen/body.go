// Package vgen holds deterministic builders for large test inputs that are
// described by a few numbers in a Case (so that the JSON of a case stays small
// and Run remains a pure function of it).
package vgen

import "encoding/binary"

// SplitMix is a tiny deterministic generator (splitmix64); it is part of the
// case semantics, so it must never change.
type SplitMix uint64

func (s *SplitMix) Next() uint64 {
	*s += 0x9e3779b97f4a7c15
	z := uint64(*s)
	z = (z ^ (z >> 30)) * 0xbf58476d1ce4e5b9
	z = (z ^ (z >> 27)) * 0x94d049bb133111eb
	return z ^ (z >> 31)
}

func (s *SplitMix) Intn(n int) int {
	if n <= 1 {
		return 0
	}
	return int(s.Next() % uint64(n))
}

func (s *SplitMix) Fill(b []byte) {
	i := 0
	for ; i+8 <= len(b); i += 8 {
		binary.LittleEndian.PutUint64(b[i:], s.Next())
	}
	if i < len(b) {
		v := s.Next()
		for ; i < len(b); i++ {
			b[i] = byte(v)
			v >>= 8
		}
	}
}

// BodyKinds lists the shapes Body knows.
var BodyKinds = []string{"random", "zeros", "repeat", "lowentropy", "text", "rows", "mixed", "farmatch"}

// Body builds size bytes of the given shape.  p is a shape parameter (pattern
// length, alphabet size, ...); any value is accepted.
//
//	random      incompressible
//	zeros       one byte value (p) repeated
//	repeat      a random pattern of 1+p%97 bytes repeated
//	lowentropy  independent bytes from an alphabet of 2+p%5 symbols
//	text        CQL-like statements built from a small vocabulary
//	rows        a RESULT-like body: [int n][bytes] cells with recurring values
//	mixed       alternating runs of the other shapes, run lengths 1..4096
//	farmatch    random prefix, then copies of earlier material at distances
//	            around 64 KiB (the LZ4 / snappy offset limits)
func Body(kind string, size int, seed uint64, p int) []byte {
	b := make([]byte, size)
	if size == 0 {
		return b
	}
	if p < 0 {
		p = -p
	}
	r := SplitMix(seed)
	switch kind {
	case "random":
		r.Fill(b)
	case "zeros":
		for i := range b {
			b[i] = byte(p)
		}
	case "repeat":
		pat := make([]byte, 1+p%97)
		r.Fill(pat)
		for i := range b {
			b[i] = pat[i%len(pat)]
		}
	case "lowentropy":
		k := 2 + p%5
		for i := range b {
			b[i] = "aZ\x00\xff 7"[r.Intn(k)]
		}
	case "text":
		voc := []string{"SELECT ", "INSERT INTO ", "UPDATE ", " FROM ", " WHERE ", "ks.", "tbl_", "col", " = ?", " AND ", ", ", "(", ")", " VALUES ", "USING TTL ", "0123456789", "\n", "é", "token(", " LIMIT "}
		for i := 0; i < size; {
			w := voc[r.Intn(len(voc))]
			if r.Intn(5) == 0 {
				w = string(rune('a' + r.Intn(26)))
			}
			i += copy(b[i:], w)
		}
	case "rows":
		vals := make([][]byte, 1+p%9)
		for i := range vals {
			vals[i] = make([]byte, r.Intn(40))
			r.Fill(vals[i])
		}
		for i := 0; i < size; {
			var cell []byte
			switch r.Intn(4) {
			case 0:
				cell = make([]byte, r.Intn(24))
				r.Fill(cell)
			default:
				cell = vals[r.Intn(len(vals))]
			}
			var l [4]byte
			binary.BigEndian.PutUint32(l[:], uint32(len(cell)))
			i += copy(b[i:], l[:])
			if i < size {
				i += copy(b[i:], cell)
			}
		}
	case "mixed":
		for i := 0; i < size; {
			n := 1 + r.Intn(4096)
			if r.Intn(4) == 0 {
				n = 1 + r.Intn(24)
			}
			if n > size-i {
				n = size - i
			}
			sub := []string{"random", "zeros", "repeat", "lowentropy", "text", "rows"}[r.Intn(6)]
			copy(b[i:], Body(sub, n, r.Next(), r.Intn(1000)))
			i += n
		}
	case "farmatch":
		head := size
		if head > 70000 {
			head = 70000
		}
		r.Fill(b[:head])
		for i := head; i < size; {
			d := 65536 + r.Intn(9) - 4 // 65532..65540
			if r.Intn(3) == 0 {
				d = 1 + r.Intn(70000)
			}
			if d > i {
				d = i
			}
			n := 4 + r.Intn(300)
			if n > size-i {
				n = size - i
			}
			for k := 0; k < n; k++ {
				b[i+k] = b[i+k-d]
			}
			i += n
			if i < size && r.Intn(2) == 0 {
				b[i] = byte(r.Next())
				i++
			}
		}
	default:
		r.Fill(b)
	}
	return b
}
