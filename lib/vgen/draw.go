package vgen

import "pgregory.net/rapid"

// BodySpec describes a body; Bytes() materialises it deterministically.
type BodySpec struct {
	Kind string `json:"kind"`
	Size int    `json:"size"`
	Seed uint64 `json:"seed"`
	P    int    `json:"p"`
}

func (s BodySpec) Bytes() []byte { return Body(s.Kind, s.Size, s.Seed, s.P) }

// SizeBoundaries are lengths at which block codecs change behaviour: LZ4's
// 12/13-byte minimum, 15 and 15+255 length escapes, 64 KiB offsets; snappy's
// 60/61 literal tags, 256, its 64 KiB input blocks; and the 1 MiB upper end.
var SizeBoundaries = []int{0, 1, 4, 5, 12, 13, 15, 16, 19, 20, 60, 61, 64, 255, 256, 270, 271, 4096,
	65535, 65536, 65540, 65548, 65536 + 270, 131072, 1 << 18, 1 << 19, 1 << 20}

// DrawSize draws a body length in [0, max], forcing magnitudes by construction.
func DrawSize(t *rapid.T, max int, label string) int {
	var n int
	switch rapid.SampledFrom([]string{"tiny", "tiny", "small", "small", "small", "medium", "medium", "large", "boundary", "boundary"}).Draw(t, label+"Class") {
	case "tiny":
		n = rapid.IntRange(0, 40).Draw(t, label)
	case "small":
		n = rapid.IntRange(41, 4096).Draw(t, label)
	case "medium":
		n = 4097 + int(rapid.Uint32Range(0, 200000-4097).Draw(t, label))
	case "large":
		n = 200001 + int(rapid.Uint32Range(0, (1<<20)-200001).Draw(t, label))
	default:
		n = rapid.SampledFrom(SizeBoundaries).Draw(t, label+"B") + rapid.IntRange(-3, 3).Draw(t, label+"D")
	}
	if n < 0 {
		n = 0
	}
	if n > max {
		n = max
	}
	return n
}

// DrawBody draws a body description of at most max bytes.
func DrawBody(t *rapid.T, max int, label string) BodySpec {
	return BodySpec{
		Kind: rapid.SampledFrom(BodyKinds).Draw(t, label+"Kind"),
		Size: DrawSize(t, max, label+"Size"),
		Seed: rapid.Uint64().Draw(t, label+"Seed"),
		P:    rapid.IntRange(0, 1000).Draw(t, label+"P"),
	}
}

// SizeClass labels a length for histograms.
func SizeClass(n int) string {
	switch {
	case n == 0:
		return "0"
	case n < 13:
		return "1-12"
	case n <= 4096:
		return "13-4Ki"
	case n < 65536:
		return "4Ki-64Ki"
	case n <= 200000:
		return "64Ki-200k"
	default:
		return "200k-1Mi"
	}
}
