// Package vsched is a deterministic cooperative scheduler for code whose atomic
// operations go through verif.local/vatomic.
//
// Run starts N worker goroutines.  Exactly one of them executes at any time (a token is
// passed between them); a worker gives the token up only inside vatomic.Hook, i.e.
// immediately before one of its atomic operations, or when its body returns.  At such a
// point the scheduler decides which runnable worker performs its pending operation next.
// The decisions are read from Config.Choices, so a run is a pure function of
// (Config, body): the same choices give the same interleaving of atomic steps, the same
// trace and the same results.
//
// Choice convention: at a decision point the runnable workers are listed with the worker
// that is giving up the token first (if it is still runnable), then the others by
// increasing id, cyclically after it.  The next element c of Choices selects entry
// c mod len(list); choice 0 therefore means "no preemption", and an exhausted Choices
// list continues with 0.  Points with a single runnable worker consume no choice.
//
// Goroutines that are not workers pass through the hook untouched: trivially so while no
// Run is active (the hook is not installed); during a Run only with Config.Foreign = true,
// which identifies workers by goroutine id (slow: a stack header is formatted per atomic
// operation).  With Foreign = false every hook call during a Run is attributed to the
// worker that holds the token, so no other goroutine may execute instrumented code during
// the Run (the caller of Run is blocked inside Run, which makes this the natural case).
package vsched

import (
	"fmt"
	"runtime"
	"runtime/debug"
	"strings"
	"sync/atomic"
	"time"
	"unsafe"

	"verif.local/vatomic"
)

// Step is one executed atomic operation.
type Step struct {
	W    int    `json:"w"`    // worker id
	Call int    `json:"call"` // value of Worker.Call when the operation was issued
	Op   string `json:"op"`   // vatomic op string
	Addr int    `json:"addr"` // index of the word (Config.Addrs first, then order of first use)
	Mod  bool   `json:"mod"`  // the operation changed the value of the word
}

func (s Step) String() string {
	m := ""
	if s.Mod {
		m = "*"
	}
	return fmt.Sprintf("w%d#%d:%s@%d%s", s.W, s.Call, s.Op, s.Addr, m)
}

// Decision is one point where more than one worker was runnable.
type Decision struct {
	N int `json:"n"` // number of runnable workers
	C int `json:"c"` // index chosen (0 = the worker that was running continues)
}

// Stale describes a compare-and-swap issued by a worker whose previous access to the
// same word was a load, with another worker having changed the word in between: the
// worker was preempted between "read" and "update" and acted on a stale value.
type Stale struct {
	W, Addr, LoadStep, CASStep, ByW, ByStep int
}

type WorkerPanic struct {
	W     int
	Value string
	Stack string
}

type Config struct {
	Workers int
	Choices []int
	// AutoColdLoads: a load of a word that no worker has written or is about to write
	// (pending operation) so far in this run is executed without a decision point.  This
	// only prunes schedules (soundness of an oracle is unaffected); leave it false for a
	// complete enumeration.
	AutoColdLoads bool
	MaxSteps      int              // 0 = 1e6; exceeding it aborts the run (Result.Err)
	Addrs         []unsafe.Pointer // words with fixed indices 0..len-1
	Watchdog      time.Duration    // 0 = 60s; a worker that neither reaches a hook nor returns
	Foreign       bool             // other goroutines may call instrumented code during the Run
}

type Result struct {
	Trace       []Step
	Decisions   []Decision
	Preemptions int // decisions that took the token away from a runnable worker
	Stale       []Stale
	Panics      []WorkerPanic
	Err         error // step limit / watchdog; nil otherwise
	Auto        int   // steps executed without decision because of AutoColdLoads
}

// Now returns the number of atomic steps executed so far in the run (all workers).  Only
// the worker that is running may call it.
func (w *Worker) Now() int { return len(w.s.res.Trace) }

// Worker is handed to the body; Call is free for the body to tag its steps with.
type Worker struct {
	ID   int
	Call int

	s        *sched
	ch       chan struct{}
	done     bool
	started  bool
	pendOp   string
	pendAddr unsafe.Pointer
	pendIdx  int
	last     map[int]access // last access of this worker per word
	// pending settle of the last executed step
	lastStep int
	lastVal  uint64
	lastW    int // width in bytes, 0 = unknown
	hasLast  bool
}

type access struct {
	step int
	load bool
}

type modRec struct{ step, w int }

type sched struct {
	cfg      Config
	workers  []*Worker
	byGoid   map[uint64]*Worker
	running  *Worker // holder of the token
	list     []*Worker
	startup  bool
	toMain   chan struct{}
	finished chan struct{}
	aborting bool
	res      *Result
	next     int // index into Choices
	addrIdx  map[unsafe.Pointer]int
	hot      map[int]bool
	mods     map[int][]modRec
	steps    int
}

type abortT struct{}

func goid() uint64 {
	var buf [40]byte
	n := runtime.Stack(buf[:], false)
	// "goroutine 123 ["
	var id uint64
	for i := len("goroutine "); i < n; i++ {
		c := buf[i]
		if c < '0' || c > '9' {
			break
		}
		id = id*10 + uint64(c-'0')
	}
	return id
}

func isLoad(op string) bool {
	return strings.HasPrefix(op, "Load") || strings.HasSuffix(op, ".Load")
}

func isCAS(op string) bool {
	return strings.HasPrefix(op, "CompareAndSwap") || strings.HasSuffix(op, ".CompareAndSwap")
}

func width(op string) int {
	switch {
	case strings.Contains(op, "Value"):
		return 0
	case strings.Contains(op, "32"), strings.Contains(op, "Bool"):
		return 4
	default:
		return 8
	}
}

func peek(addr unsafe.Pointer, w int) uint64 {
	switch w {
	case 4:
		return uint64(atomic.LoadUint32((*uint32)(addr)))
	case 8:
		return atomic.LoadUint64((*uint64)(addr))
	}
	return 0
}

// Run executes body once per worker under the schedule given by cfg.Choices.
func Run(cfg Config, body func(w *Worker)) *Result {
	if cfg.MaxSteps == 0 {
		cfg.MaxSteps = 1000000
	}
	if cfg.Watchdog == 0 {
		cfg.Watchdog = 60 * time.Second
	}
	s := &sched{cfg: cfg, byGoid: map[uint64]*Worker{}, toMain: make(chan struct{}),
		finished: make(chan struct{}, 1), res: &Result{}, addrIdx: map[unsafe.Pointer]int{},
		hot: map[int]bool{}, mods: map[int][]modRec{}, startup: true}
	for i, a := range cfg.Addrs {
		s.addrIdx[a] = i
	}
	var ids chan uint64
	if cfg.Foreign {
		ids = make(chan uint64)
	}
	s.res.Trace = make([]Step, 0, 64)
	s.res.Decisions = make([]Decision, 0, 64)
	s.list = make([]*Worker, 0, cfg.Workers)
	for i := 0; i < cfg.Workers; i++ {
		w := &Worker{ID: i, s: s, ch: make(chan struct{}), last: map[int]access{}}
		s.workers = append(s.workers, w)
		go func() {
			if ids != nil {
				ids <- goid()
			}
			<-w.ch
			s.running = w
			defer s.exit(w)
			body(w)
		}()
		if ids != nil {
			s.byGoid[<-ids] = w
		}
	}
	prev := vatomic.Hook
	vatomic.Hook = s.hook
	defer func() { vatomic.Hook = prev }()

	timer := time.NewTimer(cfg.Watchdog)
	defer timer.Stop()
	wait := func(c chan struct{}) bool {
		if !timer.Stop() {
			select {
			case <-timer.C:
			default:
			}
		}
		timer.Reset(cfg.Watchdog)
		select {
		case <-c:
			return true
		case <-timer.C:
			s.res.Err = fmt.Errorf("vsched: a worker neither reached an atomic operation nor returned within %v", cfg.Watchdog)
			return false
		}
	}
	// start-up: every worker runs alone up to its first atomic operation
	for _, w := range s.workers {
		w.started = true
		w.ch <- struct{}{}
		if !wait(s.toMain) {
			return s.res
		}
	}
	s.startup = false
	first := s.pick(nil, -1)
	if first == nil {
		return s.res
	}
	first.ch <- struct{}{}
	wait(s.finished)
	return s.res
}

func (s *sched) index(addr unsafe.Pointer) int {
	i, ok := s.addrIdx[addr]
	if !ok {
		i = len(s.addrIdx)
		s.addrIdx[addr] = i
	}
	return i
}

// settle decides whether the last executed step of w changed its word.
func (s *sched) settle(w *Worker) {
	if !w.hasLast {
		return
	}
	w.hasLast = false
	st := &s.res.Trace[w.lastStep]
	if w.lastW == 0 {
		st.Mod = !isLoad(st.Op)
	} else {
		st.Mod = peek(w.pendAddr, w.lastW) != w.lastVal
	}
	if st.Mod {
		s.mods[st.Addr] = append(s.mods[st.Addr], modRec{w.lastStep, w.ID})
	}
}

// pick chooses the next worker; cur is the worker giving up the token (nil if it is not
// runnable any more), after is the id after which the cyclic order starts when cur is nil.
func (s *sched) pick(cur *Worker, after int) *Worker {
	list := s.list[:0]
	start := after + 1
	if cur != nil {
		list = append(list, cur)
		start = cur.ID + 1
	}
	n := len(s.workers)
	for k := 0; k < n; k++ {
		w := s.workers[(start+k)%n]
		if w != cur && !w.done {
			list = append(list, w)
		}
	}
	switch len(list) {
	case 0:
		return nil
	case 1:
		return list[0]
	}
	c := 0
	if s.next < len(s.cfg.Choices) {
		c = s.cfg.Choices[s.next]
		s.next++
	}
	if c < 0 {
		c = -c
	}
	c %= len(list)
	s.res.Decisions = append(s.res.Decisions, Decision{N: len(list), C: c})
	if cur != nil && c != 0 {
		s.res.Preemptions++
	}
	return list[c]
}

func (s *sched) hook(op string, addr unsafe.Pointer) {
	var w *Worker
	if s.cfg.Foreign {
		w = s.byGoid[goid()]
	} else {
		w = s.running
	}
	if w == nil || w.done {
		return
	}
	s.settle(w)
	if s.aborting {
		panic(abortT{})
	}
	w.pendOp, w.pendAddr, w.pendIdx = op, addr, s.index(addr)
	load := isLoad(op)
	auto := false
	if !load {
		s.hot[w.pendIdx] = true
	}
	switch {
	case s.startup:
		s.running = nil
		s.toMain <- struct{}{}
		<-w.ch
		s.running = w
	case s.cfg.AutoColdLoads && load && !s.hot[w.pendIdx]:
		auto = true
	default:
		if nx := s.pick(w, w.ID); nx != w {
			s.running = nil
			nx.ch <- struct{}{}
			<-w.ch
			s.running = w
		}
	}
	if s.aborting {
		panic(abortT{})
	}
	s.steps++
	if s.steps > s.cfg.MaxSteps {
		s.aborting = true
		s.res.Err = fmt.Errorf("vsched: more than %d atomic steps (livelock?)", s.cfg.MaxSteps)
		panic(abortT{})
	}
	if auto {
		s.res.Auto++
	}
	t := len(s.res.Trace)
	s.res.Trace = append(s.res.Trace, Step{W: w.ID, Call: w.Call, Op: op, Addr: w.pendIdx})
	if isCAS(op) {
		if la, ok := w.last[w.pendIdx]; ok && la.load {
			ms := s.mods[w.pendIdx]
			for i := len(ms) - 1; i >= 0 && ms[i].step > la.step; i-- {
				if ms[i].w != w.ID {
					s.res.Stale = append(s.res.Stale, Stale{W: w.ID, Addr: w.pendIdx, LoadStep: la.step, CASStep: t, ByW: ms[i].w, ByStep: ms[i].step})
					break
				}
			}
		}
	}
	w.last[w.pendIdx] = access{step: t, load: load}
	w.lastStep, w.lastW, w.hasLast = t, width(op), true
	w.lastVal = peek(addr, w.lastW)
}

// exit runs (deferred) when a worker's body returns or panics.
func (s *sched) exit(w *Worker) {
	if r := recover(); r != nil {
		if _, ok := r.(abortT); !ok {
			s.res.Panics = append(s.res.Panics, WorkerPanic{W: w.ID, Value: fmt.Sprint(r), Stack: string(debug.Stack())})
		}
	}
	s.settle(w)
	w.done = true
	s.running = nil
	if s.startup {
		s.toMain <- struct{}{}
		return
	}
	if nx := s.pick(nil, w.ID); nx != nil {
		nx.ch <- struct{}{}
		return
	}
	s.finished <- struct{}{}
}

// Explore enumerates every schedule of a deterministic system depth-first: run(choices)
// must execute the system from its initial state under the given choice prefix (the
// scheduler continues with choice 0 after the prefix) and return the Result; visit judges
// it.  Returns the number of complete schedules executed and whether the enumeration is
// complete (false if limit > 0 was reached or visit returned an error).
func Explore(run func(choices []int) *Result, visit func(choices []int, r *Result) error, limit int) (n int, complete bool, err error) {
	var prefix []int
	for {
		r := run(prefix)
		n++
		full := make([]int, len(r.Decisions))
		for i, d := range r.Decisions {
			full[i] = d.C
		}
		if err = visit(full, r); err != nil {
			return n, false, err
		}
		if r.Err != nil {
			return n, false, r.Err
		}
		i := len(r.Decisions) - 1
		for ; i >= 0; i-- {
			if r.Decisions[i].C+1 < r.Decisions[i].N {
				break
			}
		}
		if i < 0 {
			return n, true, nil
		}
		prefix = append(full[:i:i], full[i]+1)
		if limit > 0 && n >= limit {
			return n, false, nil
		}
	}
}
