package vsched

import (
	"fmt"
	"testing"

	"verif.local/vatomic"
)

// two workers with a and b atomic steps have C(a+b, a) interleavings
func TestExploreCountsInterleavings(t *testing.T) {
	for _, ab := range [][2]int{{1, 1}, {2, 3}, {4, 4}, {5, 2}} {
		var x [2]uint64
		seen := map[string]bool{}
		n, complete, err := Explore(func(ch []int) *Result {
			return Run(Config{Workers: 2, Choices: ch}, func(w *Worker) {
				for i := 0; i < ab[w.ID]; i++ {
					vatomic.AddUint64(&x[w.ID], 1)
				}
			})
		}, func(ch []int, r *Result) error {
			s := ""
			for _, st := range r.Trace {
				s += fmt.Sprint(st.W)
			}
			if seen[s] {
				return fmt.Errorf("schedule %s visited twice", s)
			}
			seen[s] = true
			return nil
		}, 0)
		want := 1
		for i := 1; i <= ab[0]; i++ {
			want = want * (ab[1] + i) / i
		}
		if err != nil || !complete || n != want {
			t.Fatalf("a=%d b=%d: %d schedules (complete=%v, err=%v), want %d", ab[0], ab[1], n, complete, err, want)
		}
	}
}

func TestDeterministicAndStale(t *testing.T) {
	run := func() *Result {
		var x uint64
		return Run(Config{Workers: 2, Choices: []int{0, 1, 0, 1, 1}}, func(w *Worker) {
			for i := 0; i < 3; i++ {
				for {
					v := vatomic.LoadUint64(&x)
					if vatomic.CompareAndSwapUint64(&x, v, v+1) {
						break
					}
				}
			}
		})
	}
	a, b := run(), run()
	if fmt.Sprint(a.Trace) != fmt.Sprint(b.Trace) || fmt.Sprint(a.Decisions) != fmt.Sprint(b.Decisions) {
		t.Fatalf("two runs with equal choices differ:\n%v\n%v", a.Trace, b.Trace)
	}
	if len(a.Stale) == 0 {
		t.Fatalf("expected a stale compare-and-swap in %v", a.Trace)
	}
	for _, s := range a.Stale {
		if a.Trace[s.CASStep].Mod {
			t.Fatalf("stale CAS at step %d succeeded: %v", s.CASStep, a.Trace)
		}
	}
}

func TestForeignGoroutinePassesThrough(t *testing.T) {
	var x, y uint64
	stop, done := make(chan struct{}), make(chan struct{})
	r := Run(Config{Workers: 2, Foreign: true, Choices: []int{1, 1, 1}}, func(w *Worker) {
		if w.ID == 0 {
			go func() { // not a worker
				defer close(done)
				for {
					select {
					case <-stop:
						return
					default:
						vatomic.AddUint64(&y, 1)
					}
				}
			}()
		}
		for i := 0; i < 50; i++ {
			vatomic.AddUint64(&x, 1)
		}
		if w.ID == 1 {
			close(stop)
			<-done // vatomic.Hook may only change while no other goroutine runs instrumented code
		}
	})
	if r.Err != nil || len(r.Trace) != 100 || x != 100 {
		t.Fatalf("err=%v steps=%d x=%d", r.Err, len(r.Trace), x)
	}
	if vatomic.Hook != nil {
		t.Fatal("hook left installed")
	}
}

func TestStepLimitAndPanic(t *testing.T) {
	var x uint64
	r := Run(Config{Workers: 2, MaxSteps: 1000}, func(w *Worker) {
		if w.ID == 1 {
			panic("boom")
		}
		for {
			vatomic.LoadUint64(&x)
		}
	})
	if r.Err == nil || len(r.Panics) != 1 || r.Panics[0].W != 1 {
		t.Fatalf("err=%v panics=%v", r.Err, r.Panics)
	}
}
