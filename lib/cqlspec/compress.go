package cqlspec

// Independent statement of the two body compression formats of the CQL native
// protocol (v1..v4 frame compression), written from the format specifications:
//
//   - "snappy": one raw snappy block (format_description.txt of google/snappy):
//     uvarint uncompressed length, then literal / copy elements.
//   - "lz4": Cassandra's framing - 4 bytes, big endian, UNCOMPRESSED length,
//     followed by exactly one LZ4 block (lz4_Block_format.md).  Cassandra's
//     reader (transport.FrameCompressor.LZ4Compressor) decompresses with the
//     length taken from the prefix and fails unless the block yields exactly
//     that many bytes and the whole input is consumed.
//
// Nothing here is derived from gocql, pierrec/lz4 or golang/snappy; the encoders
// are deliberately simple (literal-only, and a greedy 4-byte-hash matcher).

import (
	"encoding/binary"
	"errors"
	"fmt"
)

var (
	ErrLZ4Short      = errors.New("cqlspec: lz4 body shorter than the 4 byte length prefix")
	ErrLZ4Corrupt    = errors.New("cqlspec: malformed lz4 block")
	ErrLZ4ZeroOffset = fmt.Errorf("%w: match offset 0", ErrLZ4Corrupt)
	ErrLZ4Length     = errors.New("cqlspec: lz4 block does not decode to the prefixed length")
	ErrTooLarge      = errors.New("cqlspec: declared uncompressed length above the caller's limit")
	ErrSnappy        = errors.New("cqlspec: malformed snappy block")
	ErrSnappyLength  = errors.New("cqlspec: snappy block does not decode to the declared length")
)

// LZ4BlockDecode decodes one LZ4 block that must yield exactly n bytes and be
// consumed completely.  The parsing restrictions on encoders (last five bytes
// literal, ...) are not enforced, as in the reference decoders.
func LZ4BlockDecode(src []byte, n int) ([]byte, error) {
	if n == 0 {
		// the block of the empty string is the single token 0x00; an absent
		// block is tolerated as well (see CassandraLZ4Decode)
		if len(src) == 0 || (len(src) == 1 && src[0] == 0) {
			return []byte{}, nil
		}
		return nil, ErrLZ4Length
	}
	out := make([]byte, 0, n)
	i := 0
	for {
		if i >= len(src) {
			return nil, ErrLZ4Corrupt // a block ends after the literals of its last sequence
		}
		tok := src[i]
		i++
		ll := int(tok >> 4)
		if ll == 15 {
			for {
				if i >= len(src) {
					return nil, ErrLZ4Corrupt
				}
				b := src[i]
				i++
				ll += int(b)
				if ll > n {
					return nil, ErrLZ4Length
				}
				if b != 255 {
					break
				}
			}
		}
		if ll > len(src)-i {
			return nil, ErrLZ4Corrupt
		}
		if len(out)+ll > n {
			return nil, ErrLZ4Length
		}
		out = append(out, src[i:i+ll]...)
		i += ll
		if i == len(src) {
			break // last sequence: literals only
		}
		if len(src)-i < 2 {
			return nil, ErrLZ4Corrupt
		}
		off := int(src[i]) | int(src[i+1])<<8
		i += 2
		if off == 0 {
			return nil, ErrLZ4ZeroOffset
		}
		if off > len(out) {
			return nil, ErrLZ4Corrupt
		}
		ml := int(tok & 15)
		if ml == 15 {
			for {
				if i >= len(src) {
					return nil, ErrLZ4Corrupt
				}
				b := src[i]
				i++
				ml += int(b)
				if ml > n {
					return nil, ErrLZ4Length
				}
				if b != 255 {
					break
				}
			}
		}
		ml += 4
		if len(out)+ml > n {
			return nil, ErrLZ4Length
		}
		for k := 0; k < ml; k++ { // byte-wise: matches may overlap their own output
			out = append(out, out[len(out)-off])
		}
	}
	if len(out) != n {
		return nil, ErrLZ4Length
	}
	return out, nil
}

func lz4PutSeq(dst, lit []byte, off, ml int) []byte {
	// ml < 0: last sequence (literals only)
	ll := len(lit)
	tok := byte(0)
	if ll >= 15 {
		tok = 15 << 4
	} else {
		tok = byte(ll) << 4
	}
	m := 0
	if ml >= 0 {
		m = ml - 4
		if m >= 15 {
			tok |= 15
		} else {
			tok |= byte(m)
		}
	}
	dst = append(dst, tok)
	if ll >= 15 {
		r := ll - 15
		for ; r >= 255; r -= 255 {
			dst = append(dst, 255)
		}
		dst = append(dst, byte(r))
	}
	dst = append(dst, lit...)
	if ml >= 0 {
		dst = append(dst, byte(off), byte(off>>8))
		if m >= 15 {
			r := m - 15
			for ; r >= 255; r -= 255 {
				dst = append(dst, 255)
			}
			dst = append(dst, byte(r))
		}
	}
	return dst
}

// LZ4BlockEncodeLiteral returns the LZ4 block that stores x as one run of literals.
func LZ4BlockEncodeLiteral(x []byte) []byte {
	return lz4PutSeq(make([]byte, 0, len(x)+len(x)/255+16), x, 0, -1)
}

// LZ4BlockEncodeGreedy is a small greedy LZ4 block encoder (4-byte hash, one
// candidate) obeying the end-of-block restrictions of the format.
func LZ4BlockEncodeGreedy(x []byte) []byte {
	dst := make([]byte, 0, len(x)/2+16)
	n := len(x)
	anchor := 0
	if n >= 13 {
		var tab [1 << 14]int32 // position+1
		mfLimit := n - 12      // last position where a match may start
		matchLimit := n - 5    // matches end before the last five bytes
		i := 0
		for i <= mfLimit {
			v := binary.LittleEndian.Uint32(x[i:])
			h := (v * 2654435761) >> 18
			c := int(tab[h]) - 1
			tab[h] = int32(i + 1)
			if c >= 0 && i-c <= 65535 && binary.LittleEndian.Uint32(x[c:]) == v {
				ml := 4
				for i+ml < matchLimit && x[c+ml] == x[i+ml] {
					ml++
				}
				dst = lz4PutSeq(dst, x[anchor:i], i-c, ml)
				i += ml
				anchor = i
				continue
			}
			i++
		}
	}
	return lz4PutSeq(dst, x[anchor:], 0, -1)
}

// CassandraLZ4Frame prepends the 4-byte big-endian uncompressed length.
func CassandraLZ4Frame(uncompressedLen int, block []byte) []byte {
	b := make([]byte, 4, 4+len(block))
	binary.BigEndian.PutUint32(b, uint32(uncompressedLen))
	return append(b, block...)
}

// CassandraLZ4Encode compresses a frame body the way a Cassandra node would lay it
// out; greedy=false stores it uncompressed inside a valid block.
func CassandraLZ4Encode(x []byte, greedy bool) []byte {
	if greedy {
		return CassandraLZ4Frame(len(x), LZ4BlockEncodeGreedy(x))
	}
	return CassandraLZ4Frame(len(x), LZ4BlockEncodeLiteral(x))
}

// CassandraLZ4Decode is the reading side; limit bounds the declared length.
func CassandraLZ4Decode(body []byte, limit int) ([]byte, error) {
	if len(body) < 4 {
		return nil, ErrLZ4Short
	}
	n := binary.BigEndian.Uint32(body)
	if uint64(n) > uint64(limit) {
		return nil, fmt.Errorf("%w: %d > %d", ErrTooLarge, n, limit)
	}
	return LZ4BlockDecode(body[4:], int(n))
}

// SnappyDecode decodes one raw snappy block.
func SnappyDecode(src []byte, limit int) ([]byte, error) {
	n64, k := binary.Uvarint(src)
	if k <= 0 || n64 > 0xffffffff {
		return nil, ErrSnappy
	}
	if n64 > uint64(limit) {
		return nil, fmt.Errorf("%w: %d > %d", ErrTooLarge, n64, limit)
	}
	n := int(n64)
	out := make([]byte, 0, n)
	i := k
	for i < len(src) {
		tag := src[i]
		i++
		var ln, off int
		switch tag & 3 {
		case 0:
			ln = int(tag >> 2)
			if ln >= 60 {
				nb := ln - 59
				if len(src)-i < nb {
					return nil, ErrSnappy
				}
				v := uint32(0)
				for b := 0; b < nb; b++ {
					v |= uint32(src[i+b]) << (8 * uint(b))
				}
				i += nb
				if uint64(v)+1 > uint64(n) {
					return nil, ErrSnappyLength
				}
				ln = int(v)
			}
			ln++
			if ln > len(src)-i {
				return nil, ErrSnappy
			}
			if len(out)+ln > n {
				return nil, ErrSnappyLength
			}
			out = append(out, src[i:i+ln]...)
			i += ln
			continue
		case 1:
			if len(src)-i < 1 {
				return nil, ErrSnappy
			}
			ln = 4 + int(tag>>2)&7
			off = int(tag>>5)<<8 | int(src[i])
			i++
		case 2:
			if len(src)-i < 2 {
				return nil, ErrSnappy
			}
			ln = 1 + int(tag>>2)
			off = int(src[i]) | int(src[i+1])<<8
			i += 2
		case 3:
			if len(src)-i < 4 {
				return nil, ErrSnappy
			}
			ln = 1 + int(tag>>2)
			o := uint32(src[i]) | uint32(src[i+1])<<8 | uint32(src[i+2])<<16 | uint32(src[i+3])<<24
			i += 4
			if uint64(o) > uint64(len(out)) {
				return nil, ErrSnappy
			}
			off = int(o)
		}
		if off == 0 || off > len(out) {
			return nil, ErrSnappy
		}
		if len(out)+ln > n {
			return nil, ErrSnappyLength
		}
		for c := 0; c < ln; c++ {
			out = append(out, out[len(out)-off])
		}
	}
	if len(out) != n {
		return nil, ErrSnappyLength
	}
	return out, nil
}

func snappyPutLiteral(dst, lit []byte) []byte {
	for len(lit) > 0 {
		c := lit
		if len(c) > 65536 {
			c = c[:65536]
		}
		lit = lit[len(c):]
		m := len(c) - 1
		switch {
		case m < 60:
			dst = append(dst, byte(m)<<2)
		case m < 256:
			dst = append(dst, 60<<2, byte(m))
		default:
			dst = append(dst, 61<<2, byte(m), byte(m>>8))
		}
		dst = append(dst, c...)
	}
	return dst
}

// SnappyEncode produces a raw snappy block for x: literal-only, or with a greedy
// matcher emitting 2-byte-offset copies.
func SnappyEncode(x []byte, greedy bool) []byte {
	dst := make([]byte, 0, len(x)+len(x)/1024+16)
	var tmp [binary.MaxVarintLen64]byte
	dst = append(dst, tmp[:binary.PutUvarint(tmp[:], uint64(len(x)))]...)
	if !greedy || len(x) < 8 {
		return snappyPutLiteral(dst, x)
	}
	var tab [1 << 14]int32
	anchor, i := 0, 0
	for i+4 <= len(x) {
		v := binary.LittleEndian.Uint32(x[i:])
		h := (v * 0x1e35a7bd) >> 18
		c := int(tab[h]) - 1
		tab[h] = int32(i + 1)
		if c >= 0 && i-c <= 65535 && binary.LittleEndian.Uint32(x[c:]) == v {
			ml := 4
			for i+ml < len(x) && x[c+ml] == x[i+ml] {
				ml++
			}
			dst = snappyPutLiteral(dst, x[anchor:i])
			off := i - c
			for r := ml; r > 0; {
				p := r
				if p > 64 {
					p = 64
				}
				dst = append(dst, byte(p-1)<<2|2, byte(off), byte(off>>8))
				r -= p
			}
			i += ml
			anchor = i
			continue
		}
		i++
	}
	return snappyPutLiteral(dst, x[anchor:])
}
