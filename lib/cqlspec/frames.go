package cqlspec

import (
	"encoding/binary"
	"errors"
	"fmt"
	"sort"
)

// Opcodes (section 2.4 of the native protocol specifications).
const (
	OpError         = 0x00
	OpStartup       = 0x01
	OpReady         = 0x02
	OpAuthenticate  = 0x03
	OpOptions       = 0x05
	OpSupported     = 0x06
	OpQuery         = 0x07
	OpResult        = 0x08
	OpPrepare       = 0x09
	OpExecute       = 0x0A
	OpRegister      = 0x0B
	OpEvent         = 0x0C
	OpBatch         = 0x0D
	OpAuthChallenge = 0x0E
	OpAuthResponse  = 0x0F
	OpAuthSuccess   = 0x10
)

// Header flags.
const (
	FlagCompress      = 0x01
	FlagTracing       = 0x02
	FlagCustomPayload = 0x04
	FlagWarning       = 0x08
	FlagBeta          = 0x10
)

type Header struct {
	Version  int  `json:"version"` // 1..5
	Response bool `json:"response"`
	Flags    byte `json:"flags"`
	Stream   int  `json:"stream"`
	Op       byte `json:"op"`
	Length   int  `json:"length"`
}

func HeaderSize(version int) int {
	if version >= 3 {
		return 9
	}
	return 8
}

// ParseHeader decodes a frame header; it needs the first byte to know the width.
func ParseHeader(b []byte) (Header, int, error) {
	if len(b) < 1 {
		return Header{}, 0, ErrShort
	}
	v := int(b[0] & 0x7f)
	if v < 1 || v > 5 {
		return Header{}, 0, fmt.Errorf("unsupported protocol version %d", v)
	}
	n := HeaderSize(v)
	if len(b) < n {
		return Header{}, 0, ErrShort
	}
	h := Header{Version: v, Response: b[0]&0x80 != 0, Flags: b[1]}
	if v >= 3 {
		h.Stream = int(int16(binary.BigEndian.Uint16(b[2:4])))
		h.Op = b[4]
		h.Length = int(int32(binary.BigEndian.Uint32(b[5:9])))
	} else {
		h.Stream = int(int8(b[2]))
		h.Op = b[3]
		h.Length = int(int32(binary.BigEndian.Uint32(b[4:8])))
	}
	return h, n, nil
}

func (h Header) Bytes() []byte {
	v := byte(h.Version)
	if h.Response {
		v |= 0x80
	}
	out := []byte{v, h.Flags}
	if h.Version >= 3 {
		out = append(out, byte(h.Stream>>8), byte(h.Stream))
	} else {
		out = append(out, byte(h.Stream))
	}
	out = append(out, h.Op)
	return append(out, be(uint64(uint32(int32(h.Length))), 4)...)
}

// ---- primitive notations: strict reader -----------------------------------------------------

type Reader struct {
	B   []byte
	Off int
	Err error
}

func (r *Reader) fail(e error) {
	if r.Err == nil {
		r.Err = e
	}
}

func (r *Reader) take(n int) []byte {
	if r.Err != nil {
		return nil
	}
	if n < 0 || len(r.B)-r.Off < n {
		r.fail(fmt.Errorf("need %d bytes at offset %d, have %d: %w", n, r.Off, len(r.B)-r.Off, ErrShort))
		return nil
	}
	b := r.B[r.Off : r.Off+n]
	r.Off += n
	return b
}

func (r *Reader) Rest() int { return len(r.B) - r.Off }

func (r *Reader) Byte() byte {
	b := r.take(1)
	if b == nil {
		return 0
	}
	return b[0]
}

func (r *Reader) Short() int {
	b := r.take(2)
	if b == nil {
		return 0
	}
	return int(binary.BigEndian.Uint16(b))
}

func (r *Reader) Int() int {
	b := r.take(4)
	if b == nil {
		return 0
	}
	return int(int32(binary.BigEndian.Uint32(b)))
}

func (r *Reader) Long() int64 {
	b := r.take(8)
	if b == nil {
		return 0
	}
	return int64(binary.BigEndian.Uint64(b))
}

func (r *Reader) String() string { return string(r.take(r.Short())) }

func (r *Reader) LongString() string {
	n := r.Int()
	if n < 0 {
		r.fail(errors.New("negative [long string] length"))
		return ""
	}
	return string(r.take(n))
}

// Bytes reads [bytes]: nil for a negative length.
func (r *Reader) Bytes() []byte {
	n := r.Int()
	if n < 0 {
		return nil
	}
	b := r.take(n)
	if b == nil && r.Err == nil {
		return []byte{}
	}
	return append([]byte{}, b...)
}

func (r *Reader) ShortBytes() []byte {
	b := r.take(r.Short())
	return append([]byte{}, b...)
}

func (r *Reader) StringList() []string {
	n := r.Short()
	out := []string{}
	for i := 0; i < n && r.Err == nil; i++ {
		out = append(out, r.String())
	}
	return out
}

func (r *Reader) StringMap() map[string]string {
	n := r.Short()
	out := map[string]string{}
	for i := 0; i < n && r.Err == nil; i++ {
		k := r.String()
		out[k] = r.String()
	}
	return out
}

func (r *Reader) BytesMap() map[string][]byte {
	n := r.Short()
	out := map[string][]byte{}
	for i := 0; i < n && r.Err == nil; i++ {
		k := r.String()
		out[k] = r.Bytes()
	}
	return out
}

// ---- primitive notations: writer --------------------------------------------------------------

// W builds a body and records where every length / count field sits (for structure-aware mutation).
type W struct {
	B      []byte
	Fields []Field
}

// Field locates a length or count field inside a body.
type Field struct {
	Off   int    `json:"off"`
	Width int    `json:"w"`
	Kind  string `json:"kind"`
}

func (w *W) mark(width int, kind string) { w.Fields = append(w.Fields, Field{Off: len(w.B), Width: width, Kind: kind}) }

func (w *W) Byte(b byte)   { w.B = append(w.B, b) }
func (w *W) Short(n int)   { w.B = append(w.B, byte(n>>8), byte(n)) }
func (w *W) Int(n int)     { w.B = append(w.B, be(uint64(uint32(int32(n))), 4)...) }
func (w *W) Long(n int64)  { w.B = append(w.B, be(uint64(n), 8)...) }
func (w *W) Raw(b []byte)  { w.B = append(w.B, b...) }
func (w *W) CountShort(n int, kind string) { w.mark(2, kind); w.Short(n) }
func (w *W) CountInt(n int, kind string)   { w.mark(4, kind); w.Int(n) }

func (w *W) String(s string) {
	w.mark(2, "string-len")
	w.Short(len(s))
	w.B = append(w.B, s...)
}

func (w *W) LongString(s string) {
	w.mark(4, "longstring-len")
	w.Int(len(s))
	w.B = append(w.B, s...)
}

func (w *W) Bytes(b []byte) {
	w.mark(4, "bytes-len")
	if b == nil {
		w.Int(-1)
		return
	}
	w.Int(len(b))
	w.B = append(w.B, b...)
}

func (w *W) ShortBytes(b []byte) {
	w.mark(2, "shortbytes-len")
	w.Short(len(b))
	w.B = append(w.B, b...)
}

func (w *W) StringList(l []string) {
	w.CountShort(len(l), "stringlist-count")
	for _, s := range l {
		w.String(s)
	}
}

func (w *W) StringMultiMap(m map[string][]string) {
	keys := make([]string, 0, len(m))
	for k := range m {
		keys = append(keys, k)
	}
	sort.Strings(keys)
	w.CountShort(len(m), "multimap-count")
	for _, k := range keys {
		w.String(k)
		w.StringList(m[k])
	}
}

func (w *W) BytesMap(m map[string][]byte) {
	keys := make([]string, 0, len(m))
	for k := range m {
		keys = append(keys, k)
	}
	sort.Strings(keys)
	w.CountShort(len(m), "bytesmap-count")
	for _, k := range keys {
		w.String(k)
		w.Bytes(m[k])
	}
}

// Inet writes [inet]: size byte, address, [int] port.
func (w *W) Inet(addr []byte, port int) {
	w.mark(1, "inet-size")
	w.Byte(byte(len(addr)))
	w.Raw(addr)
	w.Int(port)
}

// InetAddr writes [inetaddr]: size byte and address, no port.
func (w *W) InetAddr(addr []byte) {
	w.mark(1, "inet-size")
	w.Byte(byte(len(addr)))
	w.Raw(addr)
}

// TypeOption writes an [option] type description.
func (w *W) TypeOption(t *Type) {
	w.mark(2, "type-id")
	w.Short(int(t.Kind))
	switch t.Kind {
	case Custom:
		w.String(t.Custom)
	case List, Set:
		w.TypeOption(t.Elems[0])
	case Map:
		w.TypeOption(t.Elems[0])
		w.TypeOption(t.Elems[1])
	case UDT:
		w.String(t.Keyspace)
		w.String(t.Name)
		w.CountShort(len(t.Elems), "udt-field-count")
		for i, e := range t.Elems {
			w.String(t.Names[i])
			w.TypeOption(e)
		}
	case Tuple:
		w.CountShort(len(t.Elems), "tuple-elem-count")
		for _, e := range t.Elems {
			w.TypeOption(e)
		}
	}
}
