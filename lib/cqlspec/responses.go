package cqlspec

import (
	"encoding/hex"
	"sort"
)

// Error codes (section 9).
const (
	ErrServer          = 0x0000
	ErrProtocol        = 0x000A
	ErrCredentials     = 0x0100
	ErrUnavailable     = 0x1000
	ErrOverloaded      = 0x1001
	ErrBootstrapping   = 0x1002
	ErrTruncate        = 0x1003
	ErrWriteTimeout    = 0x1100
	ErrReadTimeout     = 0x1200
	ErrReadFailure     = 0x1300
	ErrFunctionFailure = 0x1400
	ErrWriteFailure    = 0x1500
	ErrCDCWriteFailure = 0x1600
	ErrCASWriteUnknown = 0x1700
	ErrSyntax          = 0x2000
	ErrUnauthorized    = 0x2100
	ErrInvalid         = 0x2200
	ErrConfig          = 0x2300
	ErrAlreadyExists   = 0x2400
	ErrUnprepared      = 0x2500
)

var AllErrorCodes = []int{ErrServer, ErrProtocol, ErrCredentials, ErrUnavailable, ErrOverloaded, ErrBootstrapping,
	ErrTruncate, ErrWriteTimeout, ErrReadTimeout, ErrReadFailure, ErrFunctionFailure, ErrWriteFailure,
	ErrCDCWriteFailure, ErrCASWriteUnknown, ErrSyntax, ErrUnauthorized, ErrInvalid, ErrConfig, ErrAlreadyExists, ErrUnprepared}

// Column is a column specification of rows / prepared metadata.
type Column struct {
	Keyspace string `json:"ks"`
	Table    string `json:"table"`
	Name     string `json:"name"`
	Type     *Type  `json:"type"`
}

// Metadata is <metadata> of a Rows result (also the result metadata / bind metadata of Prepared).
type Metadata struct {
	GlobalSpec bool     `json:"global_spec,omitempty"`
	Keyspace   string   `json:"ks,omitempty"`    // global table spec
	Table      string   `json:"table,omitempty"` // global table spec
	HasMore    bool     `json:"has_more,omitempty"`
	StateHex   string   `json:"state,omitempty"` // paging state (when HasMore)
	NoMetadata bool     `json:"no_metadata,omitempty"`
	Columns    []Column `json:"columns"`
	PKIndexes  []int    `json:"pk,omitempty"` // prepared bind metadata, v4+
}

// FailureReason is one entry of the v5 reasonmap of Read_failure / Write_failure.
type FailureReason struct {
	AddrHex string `json:"addr"`
	Code    int    `json:"code"`
}

// Response is the logical content of a response frame. JSON-serialisable.
type Response struct {
	Version  int               `json:"version"`
	Stream   int               `json:"stream"`
	TraceHex string            `json:"trace,omitempty"`    // 16 bytes hex when the tracing flag is set
	Warnings []string          `json:"warnings,omitempty"` // v4+, sets the warning flag when non-nil
	Payload  map[string]string `json:"payload,omitempty"`  // v4+ custom payload (hex values, "null")
	HasPayload bool            `json:"has_payload,omitempty"`
	Compress bool              `json:"compress,omitempty"`

	Kind string `json:"kind"` // READY AUTHENTICATE AUTH_CHALLENGE AUTH_SUCCESS SUPPORTED ERROR VOID ROWS SET_KEYSPACE PREPARED SCHEMA_CHANGE EVENT

	Class     string              `json:"class,omitempty"`     // AUTHENTICATE
	TokenHex  *string             `json:"token,omitempty"`     // AUTH_CHALLENGE / AUTH_SUCCESS ([bytes], nil = null)
	Supported map[string][]string `json:"supported,omitempty"` // SUPPORTED

	// ERROR
	Code        int             `json:"code,omitempty"`
	Message     string          `json:"message,omitempty"`
	Consistency int             `json:"cl,omitempty"`
	Required    int             `json:"required,omitempty"`
	Alive       int             `json:"alive,omitempty"`
	Received    int             `json:"received,omitempty"`
	BlockFor    int             `json:"blockfor,omitempty"`
	NumFailures int             `json:"numfailures,omitempty"`
	Reasons     []FailureReason `json:"reasons,omitempty"` // v5
	DataPresent byte            `json:"data_present,omitempty"`
	WriteType   string          `json:"write_type,omitempty"`
	ErrKeyspace string          `json:"err_ks,omitempty"`
	ErrTable    string          `json:"err_table,omitempty"`
	Function    string          `json:"function,omitempty"`
	ArgTypes    []string        `json:"arg_types,omitempty"`
	UnpreparedIDHex string      `json:"unprepared_id,omitempty"`

	// RESULT
	Meta       *Metadata `json:"meta,omitempty"`        // ROWS metadata; PREPARED bind metadata
	ResultMeta *Metadata `json:"result_meta,omitempty"` // PREPARED result metadata (v2+)
	Rows       [][]Value `json:"rows,omitempty"`
	Keyspace   string    `json:"set_keyspace,omitempty"`
	PreparedIDHex string `json:"prepared_id,omitempty"`

	// SCHEMA_CHANGE result and EVENT
	EventType  string   `json:"event_type,omitempty"` // TOPOLOGY_CHANGE STATUS_CHANGE SCHEMA_CHANGE
	Change     string   `json:"change,omitempty"`
	Target     string   `json:"target,omitempty"` // KEYSPACE TABLE TYPE FUNCTION AGGREGATE
	ChKeyspace string   `json:"ch_ks,omitempty"`
	ChObject   string   `json:"ch_object,omitempty"`
	ChArgs     []string `json:"ch_args,omitempty"`
	AddrHex    string   `json:"addr,omitempty"`
	Port       int      `json:"port,omitempty"`
}

func unhex(s string) []byte {
	b, _ := hex.DecodeString(s)
	if b == nil {
		b = []byte{}
	}
	return b
}

func (m *Metadata) write(w *W, version int, prepared bool, rowCols []Column) {
	flags := 0
	if m.GlobalSpec {
		flags |= 0x01
	}
	if m.HasMore {
		flags |= 0x02
	}
	if m.NoMetadata {
		flags |= 0x04
	}
	w.Int(flags)
	w.CountInt(len(m.Columns), "column-count")
	if prepared && version >= 4 {
		w.CountInt(len(m.PKIndexes), "pk-count")
		for _, i := range m.PKIndexes {
			w.Short(i)
		}
	}
	if m.HasMore {
		w.Bytes(unhex(m.StateHex))
	}
	if m.NoMetadata {
		return
	}
	if m.GlobalSpec {
		w.String(m.Keyspace)
		w.String(m.Table)
	}
	for _, c := range m.Columns {
		if !m.GlobalSpec {
			w.String(c.Keyspace)
			w.String(c.Table)
		}
		w.String(c.Name)
		w.TypeOption(c.Type)
	}
}

func (r *Response) writeSchemaChange(w *W) {
	w.String(r.Change)
	if r.Version <= 2 {
		w.String(r.ChKeyspace)
		w.String(r.ChObject) // empty for a keyspace change
		return
	}
	w.String(r.Target)
	w.String(r.ChKeyspace)
	switch r.Target {
	case "TABLE", "TYPE":
		w.String(r.ChObject)
	case "FUNCTION", "AGGREGATE":
		w.String(r.ChObject)
		w.StringList(r.ChArgs)
	}
}

// Opcode returns the response opcode for r.Kind.
func (r *Response) Opcode() byte {
	switch r.Kind {
	case "READY":
		return OpReady
	case "AUTHENTICATE":
		return OpAuthenticate
	case "AUTH_CHALLENGE":
		return OpAuthChallenge
	case "AUTH_SUCCESS":
		return OpAuthSuccess
	case "SUPPORTED":
		return OpSupported
	case "ERROR":
		return OpError
	case "EVENT":
		return OpEvent
	}
	return OpResult
}

// Body encodes the (uncompressed) body including the tracing / warning / payload prefix and returns
// the field map of every length and count field in it.
func (r *Response) Body() ([]byte, []Field) {
	w := &W{}
	if r.TraceHex != "" {
		w.Raw(unhex(r.TraceHex))
	}
	if r.Warnings != nil {
		w.StringList(r.Warnings)
	}
	if r.HasPayload {
		m := map[string][]byte{}
		for k, v := range r.Payload {
			if v == "null" {
				m[k] = nil
			} else {
				m[k] = unhex(v)
			}
		}
		w.BytesMap(m)
	}
	switch r.Kind {
	case "READY":
	case "AUTHENTICATE":
		w.String(r.Class)
	case "AUTH_CHALLENGE", "AUTH_SUCCESS":
		if r.TokenHex == nil {
			w.Bytes(nil)
		} else {
			w.Bytes(unhex(*r.TokenHex))
		}
	case "SUPPORTED":
		w.StringMultiMap(r.Supported)
	case "ERROR":
		w.Int(r.Code)
		w.String(r.Message)
		switch r.Code {
		case ErrUnavailable:
			w.Short(r.Consistency)
			w.Int(r.Required)
			w.Int(r.Alive)
		case ErrWriteTimeout:
			w.Short(r.Consistency)
			w.Int(r.Received)
			w.Int(r.BlockFor)
			w.String(r.WriteType)
		case ErrReadTimeout:
			w.Short(r.Consistency)
			w.Int(r.Received)
			w.Int(r.BlockFor)
			w.Byte(r.DataPresent)
		case ErrReadFailure, ErrWriteFailure:
			w.Short(r.Consistency)
			w.Int(r.Received)
			w.Int(r.BlockFor)
			if r.Version >= 5 {
				w.CountInt(len(r.Reasons), "reason-count")
				for _, fr := range r.Reasons {
					w.InetAddr(unhex(fr.AddrHex))
					w.Short(fr.Code)
				}
			} else {
				w.Int(r.NumFailures)
			}
			if r.Code == ErrReadFailure {
				w.Byte(r.DataPresent)
			} else {
				w.String(r.WriteType)
			}
		case ErrFunctionFailure:
			w.String(r.ErrKeyspace)
			w.String(r.Function)
			w.StringList(r.ArgTypes)
		case ErrCASWriteUnknown:
			w.Short(r.Consistency)
			w.Int(r.Received)
			w.Int(r.BlockFor)
		case ErrAlreadyExists:
			w.String(r.ErrKeyspace)
			w.String(r.ErrTable)
		case ErrUnprepared:
			w.ShortBytes(unhex(r.UnpreparedIDHex))
		}
	case "VOID":
		w.Int(1)
	case "ROWS":
		w.Int(2)
		r.Meta.write(w, r.Version, false, nil)
		w.CountInt(len(r.Rows), "row-count")
		for _, row := range r.Rows {
			for i, cell := range row {
				w.Bytes(Encode(r.Meta.Columns[i].Type, cell, r.Version))
			}
		}
	case "SET_KEYSPACE":
		w.Int(3)
		w.String(r.Keyspace)
	case "PREPARED":
		w.Int(4)
		w.ShortBytes(unhex(r.PreparedIDHex))
		r.Meta.write(w, r.Version, true, nil)
		if r.Version >= 2 {
			rm := r.ResultMeta
			if rm == nil {
				rm = &Metadata{}
			}
			rm.write(w, r.Version, false, nil)
		}
	case "SCHEMA_CHANGE":
		w.Int(5)
		r.writeSchemaChange(w)
	case "EVENT":
		w.String(r.EventType)
		switch r.EventType {
		case "TOPOLOGY_CHANGE", "STATUS_CHANGE":
			w.String(r.Change)
			w.Inet(unhex(r.AddrHex), r.Port)
		case "SCHEMA_CHANGE":
			r.writeSchemaChange(w)
		}
	}
	return w.B, w.Fields
}

// HeaderFlags returns the header flags implied by the response's prefix fields.
func (r *Response) HeaderFlags() byte {
	var f byte
	if r.Compress {
		f |= FlagCompress
	}
	if r.TraceHex != "" {
		f |= FlagTracing
	}
	if r.HasPayload {
		f |= FlagCustomPayload
	}
	if r.Warnings != nil {
		f |= FlagWarning
	}
	if r.Version >= 5 {
		f |= FlagBeta
	}
	return f
}

// Frame encodes header + body (compressed with compress when r.Compress).
func (r *Response) Frame(compress func([]byte) ([]byte, error)) ([]byte, error) {
	body, _ := r.Body()
	return r.FrameWithBody(body, compress)
}

// FrameWithBody wraps an arbitrary (possibly mutated) body in this response's header.
func (r *Response) FrameWithBody(body []byte, compress func([]byte) ([]byte, error)) ([]byte, error) {
	if r.Compress && compress != nil {
		c, err := compress(body)
		if err != nil {
			return nil, err
		}
		body = c
	}
	h := Header{Version: r.Version, Response: true, Flags: r.HeaderFlags(), Stream: r.Stream, Op: r.Opcode(), Length: len(body)}
	return append(h.Bytes(), body...), nil
}

// SortedKeys is a helper for deterministic iteration.
func SortedKeys(m map[string][]string) []string {
	out := make([]string, 0, len(m))
	for k := range m {
		out = append(out, k)
	}
	sort.Strings(out)
	return out
}
