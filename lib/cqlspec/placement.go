package cqlspec

// Replica placement as Cassandra computes it (AbstractReplicationStrategy
// .calculateNaturalEndpoints), stated over an abstract ring.  Written from
// Cassandra's Java (SimpleStrategy, NetworkTopologyStrategy, TokenMetadata
// .firstTokenIndex / ringIterator); nothing here is derived from the driver.
//
// A ring is a bag of (token, node, dc, rack) entries; a node may own several
// tokens (vnodes) and always reports the same dc and rack.  Tokens are int64
// ranks: only their order matters, so a caller maps partitioner-specific
// tokens to ranks with any strictly monotone function.
//
// All functions return the replicas in Cassandra's order (the first one is the
// "primary" when the owner of the range takes part in replication).

import "sort"

// RingEntry is one token of the ring.
type RingEntry struct {
	Token int64
	Node  string
	DC    string
	Rack  string
}

func sortedRing(ring []RingEntry) []RingEntry {
	s := make([]RingEntry, len(ring))
	copy(s, ring)
	sort.SliceStable(s, func(i, j int) bool { return s[i].Token < s[j].Token })
	return s
}

// firstTokenIndex is TokenMetadata.firstTokenIndex(ring, start, insertMin=false):
// the index of the first ring token >= start, or 0 when start is past the last
// token (the range (last, first] wraps around).
func firstTokenIndex(sorted []RingEntry, start int64) int {
	i := sort.Search(len(sorted), func(i int) bool { return sorted[i].Token >= start })
	if i == len(sorted) {
		return 0
	}
	return i
}

// ringWalk is TokenMetadata.ringIterator(ring, start, false): every ring entry
// once, clockwise, beginning with the owner of start.
func ringWalk(ring []RingEntry, start int64) []RingEntry {
	s := sortedRing(ring)
	if len(s) == 0 {
		return nil
	}
	f := firstTokenIndex(s, start)
	out := make([]RingEntry, 0, len(s))
	out = append(out, s[f:]...)
	out = append(out, s[:f]...)
	return out
}

// Owner returns the entry owning token t: the range (previous token, token]
// with wrap-around.  ok is false for an empty ring.
func Owner(ring []RingEntry, t int64) (e RingEntry, ok bool) {
	w := ringWalk(ring, t)
	if len(w) == 0 {
		return RingEntry{}, false
	}
	return w[0], true
}

// SimpleReplicas is SimpleStrategy.calculateNaturalEndpoints: the next rf
// distinct nodes clockwise, topology ignored.
func SimpleReplicas(ring []RingEntry, rf int, t int64) []string {
	var out []string
	for _, e := range ringWalk(ring, t) {
		if len(out) >= rf {
			break
		}
		if !containsStr(out, e.Node) {
			out = append(out, e.Node)
		}
	}
	return out
}

func containsStr(l []string, s string) bool {
	for _, x := range l {
		if x == s {
			return true
		}
	}
	return false
}

// topology is TokenMetadata.Topology restricted to what NTS reads.
type topology struct {
	dcNodes map[string]map[string]bool            // dc -> nodes
	dcRacks map[string]map[string]map[string]bool // dc -> rack -> nodes
}

func topologyOf(ring []RingEntry) topology {
	tp := topology{dcNodes: map[string]map[string]bool{}, dcRacks: map[string]map[string]map[string]bool{}}
	for _, e := range ring {
		if tp.dcNodes[e.DC] == nil {
			tp.dcNodes[e.DC] = map[string]bool{}
			tp.dcRacks[e.DC] = map[string]map[string]bool{}
		}
		tp.dcNodes[e.DC][e.Node] = true
		if tp.dcRacks[e.DC][e.Rack] == nil {
			tp.dcRacks[e.DC][e.Rack] = map[string]bool{}
		}
		tp.dcRacks[e.DC][e.Rack][e.Node] = true
	}
	return tp
}

// linkedSet is java.util.LinkedHashSet<String>.
type linkedSet struct {
	in    map[string]bool
	order []string
}

func newLinkedSet() *linkedSet { return &linkedSet{in: map[string]bool{}} }
func (s *linkedSet) add(x string) bool {
	if s.in[x] {
		return false
	}
	s.in[x] = true
	s.order = append(s.order, x)
	return true
}

// NTSReplicasSkipped is NetworkTopologyStrategy.calculateNaturalEndpoints in
// the formulation of Cassandra 2.x - 3.0: walk the ring; per datacenter take
// the first node of every rack not yet used, remember nodes of already-used
// racks as "skipped", and once every rack of the datacenter has been used
// append the skipped nodes (in the order met) and then whatever comes next,
// until min(rf, nodes in dc) replicas are found.  rf maps datacenter name to
// replication factor; datacenters absent from the ring or with rf 0 take no
// replicas.
func NTSReplicasSkipped(ring []RingEntry, rf map[string]int, t int64) []string {
	tp := topologyOf(ring)
	replicas := newLinkedSet()
	dcReplicas := map[string]map[string]bool{}
	seenRacks := map[string]map[string]bool{}
	skipped := map[string]*linkedSet{}
	for dc := range rf {
		dcReplicas[dc] = map[string]bool{}
		seenRacks[dc] = map[string]bool{}
		skipped[dc] = newLinkedSet()
	}
	sufficientDC := func(dc string) bool {
		want := rf[dc]
		if n := len(tp.dcNodes[dc]); n < want {
			want = n
		}
		return len(dcReplicas[dc]) >= want
	}
	sufficient := func() bool {
		for dc := range rf {
			if !sufficientDC(dc) {
				return false
			}
		}
		return true
	}
	for _, e := range ringWalk(ring, t) {
		if sufficient() {
			break
		}
		dc := e.DC
		if _, ok := rf[dc]; !ok || sufficientDC(dc) {
			continue
		}
		if len(seenRacks[dc]) == len(tp.dcRacks[dc]) {
			// every rack used: rack no longer matters
			dcReplicas[dc][e.Node] = true
			replicas.add(e.Node)
			continue
		}
		if seenRacks[dc][e.Rack] {
			skipped[dc].add(e.Node)
			continue
		}
		dcReplicas[dc][e.Node] = true
		replicas.add(e.Node)
		seenRacks[dc][e.Rack] = true
		if len(seenRacks[dc]) == len(tp.dcRacks[dc]) {
			for _, s := range skipped[dc].order {
				if sufficientDC(dc) {
					break
				}
				dcReplicas[dc][s] = true
				replicas.add(s)
			}
		}
	}
	return replicas.order
}

// NTSReplicasRackRepeats is the formulation of Cassandra 3.0.x(late)/3.11/4.x
// (class DatacenterEndpoints): per datacenter rfLeft = min(rf, nodes) and
// acceptableRackRepeats = rf - racks; a node of a new rack is always taken, a
// node of a used rack only while rack repeats remain (and never twice).
func NTSReplicasRackRepeats(ring []RingEntry, rf map[string]int, t int64) []string {
	tp := topologyOf(ring)
	type dcState struct {
		rfLeft            int
		acceptableRepeats int
	}
	replicas := newLinkedSet()
	type loc struct{ dc, rack string }
	seenRacks := map[loc]bool{}
	dcs := map[string]*dcState{}
	toFill := 0
	for dc, r := range rf {
		n := len(tp.dcNodes[dc])
		if r <= 0 || n <= 0 {
			continue
		}
		left := r
		if n < left {
			left = n
		}
		dcs[dc] = &dcState{rfLeft: left, acceptableRepeats: r - len(tp.dcRacks[dc])}
		toFill++
	}
	for _, e := range ringWalk(ring, t) {
		if toFill <= 0 {
			break
		}
		st := dcs[e.DC]
		if st == nil || st.rfLeft == 0 {
			continue
		}
		l := loc{e.DC, e.Rack}
		if !seenRacks[l] {
			seenRacks[l] = true
			st.rfLeft--
			replicas.add(e.Node)
		} else {
			if st.acceptableRepeats <= 0 {
				continue
			}
			if !replicas.add(e.Node) {
				continue
			}
			st.acceptableRepeats--
			st.rfLeft--
		}
		if st.rfLeft == 0 {
			toFill--
		}
	}
	return replicas.order
}

// SameSet reports whether a and b hold the same elements ignoring order and
// multiplicity.
func SameSet(a, b []string) bool {
	ma := map[string]bool{}
	for _, x := range a {
		ma[x] = true
	}
	mb := map[string]bool{}
	for _, x := range b {
		mb[x] = true
		if !ma[x] {
			return false
		}
	}
	return len(ma) == len(mb)
}

// EligibleNodes is the number of distinct nodes that may hold a replica: for
// NTS the nodes of datacenters with rf > 0, for SimpleStrategy (rf == nil)
// every node.
func EligibleNodes(ring []RingEntry, rf map[string]int) int {
	seen := map[string]bool{}
	for _, e := range ring {
		if rf == nil || rf[e.DC] > 0 {
			seen[e.Node] = true
		}
	}
	return len(seen)
}
