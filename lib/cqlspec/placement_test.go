package cqlspec

import (
	"reflect"
	"testing"
)

func e(tok int64, node, dc, rack string) RingEntry { return RingEntry{tok, node, dc, rack} }

func TestSimpleHandChecked(t *testing.T) {
	ring := []RingEntry{e(30, "C", "d", "r"), e(10, "A", "d", "r"), e(20, "B", "d", "r")}
	for _, c := range []struct {
		tok  int64
		rf   int
		want []string
	}{
		{15, 2, []string{"B", "C"}},
		{20, 2, []string{"B", "C"}},
		{30, 2, []string{"C", "A"}}, // wraps
		{35, 2, []string{"A", "B"}}, // above the largest token: owner is the smallest
		{5, 2, []string{"A", "B"}},  // below the smallest
		{10, 0, nil},
		{10, 9, []string{"A", "B", "C"}}, // rf > nodes
	} {
		if got := SimpleReplicas(ring, c.rf, c.tok); !reflect.DeepEqual(got, c.want) {
			t.Errorf("simple rf=%d tok=%d: got %v want %v", c.rf, c.tok, got, c.want)
		}
	}
	// vnodes: A owns two adjacent tokens, it must be listed once
	v := []RingEntry{e(10, "A", "d", "r"), e(20, "A", "d", "r"), e(30, "B", "d", "r")}
	if got := SimpleReplicas(v, 2, 10); !reflect.DeepEqual(got, []string{"A", "B"}) {
		t.Errorf("simple vnodes: %v", got)
	}
	if o, ok := Owner(v, 31); !ok || o.Node != "A" || o.Token != 10 {
		t.Errorf("owner wrap: %+v %v", o, ok)
	}
	if _, ok := Owner(nil, 1); ok {
		t.Errorf("owner of empty ring")
	}
}

func TestNTSHandChecked(t *testing.T) {
	// one DC, racks r1={A,B} r2={C,D}
	ring := []RingEntry{e(10, "A", "dc1", "r1"), e(20, "B", "dc1", "r1"), e(30, "C", "dc1", "r2"), e(40, "D", "dc1", "r2")}
	rf := map[string]int{"dc1": 3}
	// 2.x: A (new rack), B skipped, C (new rack, all racks used) then drain B
	if got := NTSReplicasSkipped(ring, rf, 10); !reflect.DeepEqual(got, []string{"A", "C", "B"}) {
		t.Errorf("skipped: %v", got)
	}
	// 4.x: one rack repeat acceptable (3-2): A, B (repeat), C
	if got := NTSReplicasRackRepeats(ring, rf, 10); !reflect.DeepEqual(got, []string{"A", "B", "C"}) {
		t.Errorf("repeats: %v", got)
	}
	rf2 := map[string]int{"dc1": 2}
	for _, f := range []func([]RingEntry, map[string]int, int64) []string{NTSReplicasSkipped, NTSReplicasRackRepeats} {
		if got := f(ring, rf2, 10); !reflect.DeepEqual(got, []string{"A", "C"}) {
			t.Errorf("rf2: %v", got)
		}
		if got := f(ring, rf2, 21); !reflect.DeepEqual(got, []string{"C", "A"}) {
			t.Errorf("rf2 from 21: %v", got)
		}
		// rf > nodes: everybody, once
		if got := f(ring, map[string]int{"dc1": 5}, 35); !SameSet(got, []string{"A", "B", "C", "D"}) || len(got) != 4 || got[0] != "D" {
			t.Errorf("rf5: %v", got)
		}
		// unknown DC and rf 0 take nothing and do not disturb the others
		if got := f(ring, map[string]int{"dc1": 1, "dc9": 2, "dc8": 0}, 45); !reflect.DeepEqual(got, []string{"A"}) {
			t.Errorf("unknown dc: %v", got)
		}
		if got := f(ring, map[string]int{"dc9": 2}, 10); len(got) != 0 {
			t.Errorf("only unknown dc: %v", got)
		}
	}
	// two DCs interleaved
	two := []RingEntry{e(10, "A", "dc1", "r1"), e(20, "X", "dc2", "r1"), e(30, "B", "dc1", "r1"), e(40, "Y", "dc2", "r1")}
	for _, f := range []func([]RingEntry, map[string]int, int64) []string{NTSReplicasSkipped, NTSReplicasRackRepeats} {
		if got := f(two, map[string]int{"dc1": 1, "dc2": 1}, 25); !reflect.DeepEqual(got, []string{"B", "Y"}) {
			t.Errorf("two dc: %v", got)
		}
		if got := f(two, map[string]int{"dc1": 1, "dc2": 1}, 41); !reflect.DeepEqual(got, []string{"A", "X"}) {
			t.Errorf("two dc wrap: %v", got)
		}
		// owner X is in a DC without replicas: walk passes over it
		if got := f(two, map[string]int{"dc1": 2}, 20); !reflect.DeepEqual(got, []string{"B", "A"}) {
			t.Errorf("owner dc rf0: %v", got)
		}
	}
	// vnodes, one rack: A owns adjacent tokens, rf 2 must give A and B (not A twice)
	v := []RingEntry{e(10, "A", "dc1", "r1"), e(20, "A", "dc1", "r1"), e(30, "B", "dc1", "r1"),
		e(40, "B", "dc1", "r1"), e(50, "C", "dc1", "r1"), e(60, "C", "dc1", "r1")}
	for _, f := range []func([]RingEntry, map[string]int, int64) []string{NTSReplicasSkipped, NTSReplicasRackRepeats} {
		if got := f(v, map[string]int{"dc1": 2}, 10); !reflect.DeepEqual(got, []string{"A", "B"}) {
			t.Errorf("vnodes: %v", got)
		}
	}
	// vnodes, two racks: A(r1) A(r1) B(r2) C(r1), rf 3: the second A is a skipped/repeat of a node already taken
	w := []RingEntry{e(10, "A", "dc1", "r1"), e(20, "A", "dc1", "r1"), e(30, "B", "dc1", "r2"), e(40, "C", "dc1", "r1")}
	for _, f := range []func([]RingEntry, map[string]int, int64) []string{NTSReplicasSkipped, NTSReplicasRackRepeats} {
		if got := f(w, map[string]int{"dc1": 3}, 10); !reflect.DeepEqual(got, []string{"A", "B", "C"}) {
			t.Errorf("vnodes two racks: %v", got)
		}
	}
	if EligibleNodes(two, map[string]int{"dc1": 2}) != 2 || EligibleNodes(two, nil) != 4 {
		t.Errorf("eligible")
	}
}

// The two NTS formulations must agree as sets on every small ring (exhaustive
// over a little family - the harness re-asserts it on every generated case).
func TestNTSFormulationsAgreeSmall(t *testing.T) {
	nodes := []struct{ n, dc, rack string }{{"A", "d1", "r1"}, {"B", "d1", "r1"}, {"C", "d1", "r2"}, {"D", "d2", "r1"}, {"E", "d2", "r2"}}
	// every assignment of 5 tokens to the 5 nodes
	n := 0
	for code := 0; code < 5*5*5*5*5; code++ {
		var ring []RingEntry
		c := code
		for tok := 0; tok < 5; tok++ {
			nd := nodes[c%5]
			c /= 5
			ring = append(ring, e(int64(tok*10), nd.n, nd.dc, nd.rack))
		}
		for r1 := 0; r1 <= 4; r1++ {
			for r2 := 0; r2 <= 3; r2++ {
				rf := map[string]int{"d1": r1, "d2": r2}
				for _, tk := range []int64{-1, 0, 25, 40, 41} {
					a, b := NTSReplicasSkipped(ring, rf, tk), NTSReplicasRackRepeats(ring, rf, tk)
					if !SameSet(a, b) || len(a) != len(b) {
						t.Fatalf("ring %v rf %v tok %d: skipped %v repeats %v", ring, rf, tk, a, b)
					}
					n++
				}
			}
		}
	}
	t.Logf("%d placements compared", n)
}
