// Package cqlspec is an implementation of the CQL native protocol (v1-v5 as far
// as gocql implements them) and of the Cassandra algorithms the driver must
// agree with, written from the protocol specification and from Cassandra's
// documented behaviour - not from gocql's sources.  It does not import gocql.
package cqlspec

// CompareTimeUUID is Cassandra's TimeUUIDType comparator (3.x/4.x
// TimeUUIDType.compareCustom): version-1 timestamps first (numerically), then
// the remaining eight bytes as *signed* bytes, lexicographically.
func CompareTimeUUID(a, b [16]byte) int {
	m1, m2 := reorderTimestampBytes(be64(a[0:8])), reorderTimestampBytes(be64(b[0:8]))
	if c := cmpI64(int64(m1), int64(m2)); c != 0 {
		return c
	}
	l1 := be64(a[8:16]) ^ 0x0080808080808080
	l2 := be64(b[8:16]) ^ 0x0080808080808080
	return cmpI64(int64(l1), int64(l2))
}

func reorderTimestampBytes(in uint64) uint64 {
	return (in << 48) | ((in << 16) & 0xFFFF00000000) | (in >> 32)
}

func be64(b []byte) uint64 {
	var v uint64
	for _, x := range b[:8] {
		v = v<<8 | uint64(x)
	}
	return v
}

func cmpI64(a, b int64) int {
	switch {
	case a < b:
		return -1
	case a > b:
		return 1
	}
	return 0
}
