package cqlspec

import (
	"fmt"
	"strings"
)

// Kind is a CQL data type id; the numeric values are the protocol's option ids
// ([option] in section 4.2.5.2 of the native protocol specifications).
type Kind int

const (
	Custom    Kind = 0x0000
	Ascii     Kind = 0x0001
	Bigint    Kind = 0x0002
	Blob      Kind = 0x0003
	Boolean   Kind = 0x0004
	Counter   Kind = 0x0005
	Decimal   Kind = 0x0006
	Double    Kind = 0x0007
	Float     Kind = 0x0008
	Int       Kind = 0x0009
	Text      Kind = 0x000A // v1-2 only
	Timestamp Kind = 0x000B
	UUID      Kind = 0x000C
	Varchar   Kind = 0x000D
	Varint    Kind = 0x000E
	TimeUUID  Kind = 0x000F
	Inet      Kind = 0x0010
	Date      Kind = 0x0011
	Time      Kind = 0x0012
	Smallint  Kind = 0x0013
	Tinyint   Kind = 0x0014
	Duration  Kind = 0x0015
	List      Kind = 0x0020
	Map       Kind = 0x0021
	Set       Kind = 0x0022
	UDT       Kind = 0x0030
	Tuple     Kind = 0x0031
)

var kindNames = map[Kind]string{Custom: "custom", Ascii: "ascii", Bigint: "bigint", Blob: "blob", Boolean: "boolean",
	Counter: "counter", Decimal: "decimal", Double: "double", Float: "float", Int: "int", Text: "text",
	Timestamp: "timestamp", UUID: "uuid", Varchar: "varchar", Varint: "varint", TimeUUID: "timeuuid", Inet: "inet",
	Date: "date", Time: "time", Smallint: "smallint", Tinyint: "tinyint", Duration: "duration", List: "list",
	Map: "map", Set: "set", UDT: "udt", Tuple: "tuple"}

func (k Kind) String() string {
	if s, ok := kindNames[k]; ok {
		return s
	}
	return fmt.Sprintf("kind(%#x)", int(k))
}

// Type is a CQL type tree. JSON-serialisable.
type Type struct {
	Kind     Kind     `json:"k"`
	Custom   string   `json:"custom,omitempty"` // class name for Kind == Custom
	Elems    []*Type  `json:"e,omitempty"`      // list/set: [elem]; map: [key,value]; tuple: elements; udt: field types
	Names    []string `json:"n,omitempty"`      // udt field names
	Keyspace string   `json:"ks,omitempty"`     // udt
	Name     string   `json:"name,omitempty"`   // udt
}

func (t *Type) String() string {
	switch t.Kind {
	case List, Set:
		return fmt.Sprintf("%s<%s>", t.Kind, t.Elems[0])
	case Map:
		return fmt.Sprintf("map<%s, %s>", t.Elems[0], t.Elems[1])
	case Tuple:
		var p []string
		for _, e := range t.Elems {
			p = append(p, e.String())
		}
		return "tuple<" + strings.Join(p, ", ") + ">"
	case UDT:
		var p []string
		for i, e := range t.Elems {
			p = append(p, t.Names[i]+":"+e.String())
		}
		return "udt " + t.Keyspace + "." + t.Name + "{" + strings.Join(p, ", ") + "}"
	case Custom:
		return "custom(" + t.Custom + ")"
	}
	return t.Kind.String()
}

// Depth is the nesting depth of the type tree (a scalar has depth 0).
func (t *Type) Depth() int {
	d := 0
	for _, e := range t.Elems {
		if x := e.Depth() + 1; x > d {
			d = x
		}
	}
	return d
}

// MinVersion is the lowest protocol version in which the type can appear.
func (t *Type) MinVersion() int {
	v := 1
	switch t.Kind {
	case UDT, Tuple:
		v = 3
	case Date, Time, Smallint, Tinyint:
		v = 4
	case Duration:
		v = 5
	}
	for _, e := range t.Elems {
		if x := e.MinVersion(); x > v {
			v = x
		}
	}
	return v
}

func Scalar(k Kind) *Type { return &Type{Kind: k} }
