package cqlspec

import (
	"encoding/hex"
	"fmt"
)

// ReqValue is one bound value of a request: [value] = [bytes] with -1 null and (v4+) -2 "not set".
type ReqValue struct {
	Name  string `json:"name,omitempty"`
	Null  bool   `json:"null,omitempty"`
	Unset bool   `json:"unset,omitempty"`
	Hex   string `json:"hex,omitempty"`
}

// QueryParams is <query_parameters> of QUERY / EXECUTE.
type QueryParams struct {
	Consistency int        `json:"consistency"`
	Flags       uint32     `json:"flags"`
	Values      []ReqValue `json:"values,omitempty"`
	HasValues   bool       `json:"has_values,omitempty"`
	Named       bool       `json:"named,omitempty"`
	SkipMeta    bool       `json:"skip_meta,omitempty"`
	HasPageSize bool       `json:"has_page_size,omitempty"`
	PageSize    int        `json:"page_size,omitempty"`
	HasState    bool       `json:"has_state,omitempty"`
	StateHex    string     `json:"state,omitempty"`
	HasSerial   bool       `json:"has_serial,omitempty"`
	Serial      int        `json:"serial,omitempty"`
	HasTS       bool       `json:"has_ts,omitempty"`
	TS          int64      `json:"ts,omitempty"`
	HasKeyspace bool       `json:"has_keyspace,omitempty"`
	Keyspace    string     `json:"keyspace,omitempty"`
}

type BatchEntry struct {
	Prepared  bool       `json:"prepared,omitempty"`
	Statement string     `json:"statement,omitempty"`
	IDHex     string     `json:"id,omitempty"`
	Values    []ReqValue `json:"values,omitempty"`
}

// Request is the logical content of a request frame.
type Request struct {
	Header  Header            `json:"header"`
	Payload map[string]string `json:"payload,omitempty"` // custom payload, values hex ("null" for a null [bytes])
	Kind    string            `json:"kind"`

	Options map[string]string `json:"options,omitempty"` // STARTUP
	Events  []string          `json:"events,omitempty"`  // REGISTER
	Token   *string           `json:"token,omitempty"`   // AUTH_RESPONSE: hex, nil pointer for null [bytes]

	Statement string       `json:"statement,omitempty"` // QUERY, PREPARE
	IDHex     string       `json:"id,omitempty"`        // EXECUTE
	Params    *QueryParams `json:"params,omitempty"`

	PrepareFlags    uint32 `json:"prepare_flags,omitempty"`
	PrepareKeyspace string `json:"prepare_keyspace,omitempty"`
	HasPrepareKS    bool   `json:"has_prepare_keyspace,omitempty"`

	BatchType   int          `json:"batch_type,omitempty"`
	Entries     []BatchEntry `json:"entries,omitempty"`
	Consistency int          `json:"batch_consistency,omitempty"`
	BatchFlags  uint32       `json:"batch_flags,omitempty"`
	HasSerial   bool         `json:"batch_has_serial,omitempty"`
	Serial      int          `json:"batch_serial,omitempty"`
	HasTS       bool         `json:"batch_has_ts,omitempty"`
	TS          int64        `json:"batch_ts,omitempty"`
}

// SplitFrames cuts a byte stream into complete frames; rest is what follows the last complete
// frame (a strict prefix of a frame, or empty).
func SplitFrames(stream []byte) (frames [][]byte, rest []byte, err error) {
	for len(stream) > 0 {
		h, n, err := ParseHeader(stream)
		if err == ErrShort {
			return frames, stream, nil
		}
		if err != nil {
			return frames, stream, err
		}
		if h.Length < 0 {
			return frames, stream, fmt.Errorf("negative frame length %d", h.Length)
		}
		if len(stream) < n+h.Length {
			return frames, stream, nil
		}
		frames = append(frames, stream[:n+h.Length])
		stream = stream[n+h.Length:]
	}
	return frames, nil, nil
}

// DecodeRequest decodes one complete request frame strictly: the header must be a request header
// whose length equals the body, only flags defined for the version may be set, and the body must be
// consumed exactly. decompress is used when the compression flag is set (nil: compressed frames are
// an error).
func DecodeRequest(frame []byte, decompress func([]byte) ([]byte, error)) (*Request, error) {
	h, n, err := ParseHeader(frame)
	if err != nil {
		return nil, fmt.Errorf("header: %v", err)
	}
	if h.Response {
		return nil, fmt.Errorf("direction bit says response")
	}
	if h.Length != len(frame)-n {
		return nil, fmt.Errorf("header length %d but %d body bytes follow", h.Length, len(frame)-n)
	}
	allowed := byte(FlagCompress | FlagTracing)
	if h.Version >= 4 {
		allowed |= FlagCustomPayload | FlagWarning
	}
	if h.Version >= 5 {
		allowed |= FlagBeta
	}
	if h.Flags&^allowed != 0 {
		return nil, fmt.Errorf("header flags %#x contain bits undefined in v%d", h.Flags, h.Version)
	}
	if h.Flags&FlagWarning != 0 {
		return nil, fmt.Errorf("warning flag on a request")
	}
	maxStream := 127
	if h.Version >= 3 {
		maxStream = 32767
	}
	if h.Stream < 0 || h.Stream > maxStream {
		return nil, fmt.Errorf("stream id %d outside 0..%d (negative ids are reserved for the server)", h.Stream, maxStream)
	}
	body := frame[n:]
	if h.Flags&FlagCompress != 0 {
		if h.Op == OpStartup || h.Op == OpOptions {
			return nil, fmt.Errorf("opcode %#x must never be compressed", h.Op)
		}
		if decompress == nil {
			return nil, fmt.Errorf("compressed frame but no compression negotiated")
		}
		body, err = decompress(body)
		if err != nil {
			return nil, fmt.Errorf("decompress: %v", err)
		}
	}
	r := &Reader{B: body}
	req := &Request{Header: h}
	if h.Flags&FlagCustomPayload != 0 {
		req.Payload = map[string]string{}
		for k, v := range r.BytesMap() {
			if v == nil {
				req.Payload[k] = "null"
			} else {
				req.Payload[k] = hex.EncodeToString(v)
			}
		}
	}
	switch h.Op {
	case OpStartup:
		req.Kind = "STARTUP"
		req.Options = r.StringMap()
	case OpOptions:
		req.Kind = "OPTIONS"
	case OpAuthResponse:
		req.Kind = "AUTH_RESPONSE"
		if h.Version < 2 {
			return nil, fmt.Errorf("AUTH_RESPONSE does not exist in v1")
		}
		if b := r.Bytes(); b != nil {
			s := hex.EncodeToString(b)
			req.Token = &s
		}
	case OpRegister:
		req.Kind = "REGISTER"
		req.Events = r.StringList()
	case OpQuery:
		req.Kind = "QUERY"
		req.Statement = r.LongString()
		req.Params = decodeQueryParams(r, h.Version)
	case OpPrepare:
		req.Kind = "PREPARE"
		req.Statement = r.LongString()
		if h.Version >= 5 {
			req.PrepareFlags = uint32(r.Int())
			if req.PrepareFlags&^0x01 != 0 {
				r.fail(fmt.Errorf("PREPARE flags %#x undefined", req.PrepareFlags))
			}
			if req.PrepareFlags&0x01 != 0 {
				req.HasPrepareKS = true
				req.PrepareKeyspace = r.String()
			}
		}
	case OpExecute:
		req.Kind = "EXECUTE"
		req.IDHex = hex.EncodeToString(r.ShortBytes())
		if h.Version == 1 {
			p := &QueryParams{}
			n := r.Short()
			p.HasValues = true
			for i := 0; i < n && r.Err == nil; i++ {
				p.Values = append(p.Values, decodeValue(r, h.Version))
			}
			p.Consistency = r.Short()
			req.Params = p
		} else {
			req.Params = decodeQueryParams(r, h.Version)
		}
	case OpBatch:
		req.Kind = "BATCH"
		if h.Version < 2 {
			return nil, fmt.Errorf("BATCH does not exist in v1")
		}
		req.BatchType = int(r.Byte())
		if req.BatchType > 2 {
			r.fail(fmt.Errorf("batch type %d undefined", req.BatchType))
		}
		n := r.Short()
		for i := 0; i < n && r.Err == nil; i++ {
			var e BatchEntry
			switch kind := r.Byte(); kind {
			case 0:
				e.Statement = r.LongString()
			case 1:
				e.Prepared = true
				e.IDHex = hex.EncodeToString(r.ShortBytes())
			default:
				r.fail(fmt.Errorf("batch entry kind %d undefined", kind))
			}
			m := r.Short()
			for j := 0; j < m && r.Err == nil; j++ {
				e.Values = append(e.Values, decodeValue(r, h.Version))
			}
			req.Entries = append(req.Entries, e)
		}
		req.Consistency = r.Short()
		if h.Version >= 3 {
			if h.Version >= 5 {
				req.BatchFlags = uint32(r.Int())
			} else {
				req.BatchFlags = uint32(r.Byte())
			}
			if req.BatchFlags&^0x30 != 0 {
				r.fail(fmt.Errorf("BATCH flags %#x undefined or unusable (0x40 names: CASSANDRA-10246)", req.BatchFlags))
			}
			if req.BatchFlags&0x10 != 0 {
				req.HasSerial = true
				req.Serial = r.Short()
			}
			if req.BatchFlags&0x20 != 0 {
				req.HasTS = true
				req.TS = r.Long()
			}
		}
	default:
		return nil, fmt.Errorf("opcode %#x is not a request the driver may send", h.Op)
	}
	if r.Err != nil {
		return nil, fmt.Errorf("%s body: %v", req.Kind, r.Err)
	}
	if r.Rest() != 0 {
		return nil, fmt.Errorf("%s body: %d trailing bytes", req.Kind, r.Rest())
	}
	return req, nil
}

func decodeValue(r *Reader, version int) ReqValue {
	n := r.Int()
	switch {
	case n == -1:
		return ReqValue{Null: true}
	case n == -2:
		if version < 4 {
			r.fail(fmt.Errorf("value length -2 (not set) does not exist in v%d", version))
		}
		return ReqValue{Unset: true}
	case n < 0:
		r.fail(fmt.Errorf("value length %d undefined", n))
		return ReqValue{}
	}
	return ReqValue{Hex: hex.EncodeToString(r.take(n))}
}

func decodeQueryParams(r *Reader, version int) *QueryParams {
	p := &QueryParams{Consistency: r.Short()}
	if version == 1 {
		return p
	}
	if version >= 5 {
		p.Flags = uint32(r.Int())
	} else {
		p.Flags = uint32(r.Byte())
	}
	allowed := uint32(0x1f)
	if version >= 3 {
		allowed |= 0x60
	}
	if version >= 5 {
		allowed |= 0x80
	}
	if p.Flags&^allowed != 0 {
		r.fail(fmt.Errorf("query flags %#x contain bits undefined in v%d", p.Flags, version))
		return p
	}
	p.Named = p.Flags&0x40 != 0
	p.SkipMeta = p.Flags&0x02 != 0
	if p.Flags&0x01 != 0 {
		p.HasValues = true
		n := r.Short()
		for i := 0; i < n && r.Err == nil; i++ {
			name := ""
			if p.Named {
				name = r.String()
			}
			v := decodeValue(r, version)
			v.Name = name
			p.Values = append(p.Values, v)
		}
	} else if p.Named {
		r.fail(fmt.Errorf("names flag without values flag"))
	}
	if p.Flags&0x04 != 0 {
		p.HasPageSize = true
		p.PageSize = r.Int()
	}
	if p.Flags&0x08 != 0 {
		p.HasState = true
		b := r.Bytes()
		if b == nil {
			r.fail(fmt.Errorf("null paging state"))
		}
		p.StateHex = hex.EncodeToString(b)
	}
	if p.Flags&0x10 != 0 {
		p.HasSerial = true
		p.Serial = r.Short()
	}
	if p.Flags&0x20 != 0 {
		p.HasTS = true
		p.TS = r.Long()
	}
	if p.Flags&0x80 != 0 {
		p.HasKeyspace = true
		p.Keyspace = r.String()
	}
	return p
}
