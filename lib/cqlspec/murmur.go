// Partition tokens as Cassandra computes them, and the routing-key layout.
//
// Written from Cassandra's Java sources (org.apache.cassandra.utils.MurmurHash,
// dht.Murmur3Partitioner, dht.RandomPartitioner / FBUtilities.hashToBigInteger,
// db.marshal.CompositeType) and NOT from the driver: all arithmetic is done on
// uint64 (two's complement wrap-around is what Java's long does), the tail is a
// loop instead of a fall-through switch, and the places where Java's semantics
// differ from canonical MurmurHash3 are spelled out:
//
//   - the 16-byte blocks are read little-endian with each byte masked (& 0xff):
//     unsigned, as in canonical MurmurHash3;
//   - the 1..15 tail bytes are read as `(long) key.get(i)`: a Java byte is signed,
//     so a byte >= 0x80 is SIGN-EXTENDED before it is shifted and xor-ed in
//     (canonical MurmurHash3 uses uint8_t here - this is Cassandra's famous
//     deviation and the reason the tokens differ for non-ASCII keys);
//   - Murmur3Partitioner.getToken normalises Long.MIN_VALUE to Long.MAX_VALUE
//     (MIN_VALUE is reserved for the partitioner's minimum token).
package cqlspec

import (
	"crypto/md5"
	"math"
	"math/big"
)

const (
	mm3C1 uint64 = 0x87c37b91114253d5
	mm3C2 uint64 = 0x4cf5ad432745937f
	mm3F1 uint64 = 0xff51afd7ed558ccd
	mm3F2 uint64 = 0xc4ceb9fe1a85ec53
	mm3A  uint64 = 0x52dce729
	mm3B  uint64 = 0x38495ab5
)

func mm3Rotl(x uint64, r uint) uint64 { return x<<r | x>>(64-r) }
func mm3Rotr(x uint64, r uint) uint64 { return x>>r | x<<(64-r) }

func mm3Fmix(k uint64) uint64 {
	k ^= k >> 33 // Java: k >>> 33
	k *= mm3F1
	k ^= k >> 33
	k *= mm3F2
	k ^= k >> 33
	return k
}

func mm3MixK1(k uint64) uint64 { return mm3Rotl(k*mm3C1, 31) * mm3C2 }
func mm3MixK2(k uint64) uint64 { return mm3Rotl(k*mm3C2, 33) * mm3C1 }

// javaByteToLong is `(long) b` for a Java byte: sign extension.
func javaByteToLong(b byte) uint64 { return uint64(int64(int8(b))) }

// MurmurHash3X64128 is MurmurHash.hash3_x64_128(key, 0, len(key), seed) of
// Cassandra: both 64-bit halves of the result, as bit patterns.
func MurmurHash3X64128(key []byte, seed uint64) (uint64, uint64) {
	h1, h2 := seed, seed
	n := len(key) / 16
	for b := 0; b < n; b++ {
		var k1, k2 uint64
		for j := 0; j < 8; j++ { // getBlock: ((long) key.get(..) & 0xff) << 8j
			k1 |= uint64(key[b*16+j]) << (8 * uint(j))
			k2 |= uint64(key[b*16+8+j]) << (8 * uint(j))
		}
		h1 ^= mm3MixK1(k1)
		h1 = mm3Rotl(h1, 27) + h2
		h1 = h1*5 + mm3A
		h2 ^= mm3MixK2(k2)
		h2 = mm3Rotl(h2, 31) + h1
		h2 = h2*5 + mm3B
	}
	tail := key[n*16:]
	if len(tail) > 8 {
		var k2 uint64
		for j := 8; j < len(tail); j++ {
			k2 ^= javaByteToLong(tail[j]) << (8 * uint(j-8))
		}
		h2 ^= mm3MixK2(k2)
	}
	if len(tail) > 0 {
		var k1 uint64
		for j := 0; j < len(tail) && j < 8; j++ {
			k1 ^= javaByteToLong(tail[j]) << (8 * uint(j))
		}
		h1 ^= mm3MixK1(k1)
	}
	h1 ^= uint64(len(key))
	h2 ^= uint64(len(key))
	h1 += h2
	h2 += h1
	h1 = mm3Fmix(h1)
	h2 = mm3Fmix(h2)
	h1 += h2
	h2 += h1
	return h1, h2
}

// Murmur3RawH1 is hash[0] of Murmur3Partitioner.getHash(key) before normalisation.
func Murmur3RawH1(key []byte) int64 {
	h1, _ := MurmurHash3X64128(key, 0)
	return int64(h1)
}

// Murmur3Token is the token Murmur3Partitioner.getToken(key) assigns to a
// (non-empty) partition key: hash[0], with Long.MIN_VALUE mapped to Long.MAX_VALUE.
func Murmur3Token(key []byte) int64 {
	h := Murmur3RawH1(key)
	if h == math.MinInt64 {
		return math.MaxInt64
	}
	return h
}

func mm3Inv(x uint64) uint64 { // multiplicative inverse of an odd x modulo 2^64
	inv := x
	for i := 0; i < 6; i++ {
		inv *= 2 - x*inv
	}
	return inv
}

func mm3FmixInv(k uint64) uint64 {
	k ^= k >> 33 // x ^= x>>s is an involution for s >= 32
	k *= mm3Inv(mm3F2)
	k ^= k >> 33
	k *= mm3Inv(mm3F1)
	k ^= k >> 33
	return k
}

// Murmur3Preimage16 returns the unique 16-byte key whose hash3_x64_128 (seed 0)
// is exactly (h1, h2).  Every step of the hash is a bijection on 64-bit words, so
// a one-block input can be solved for; this is how keys with extreme tokens
// (Long.MIN_VALUE, Long.MAX_VALUE, 0, ...) are constructed instead of searched.
func Murmur3Preimage16(h1, h2 uint64) []byte {
	h2 -= h1
	h1 -= h2
	h1 = mm3FmixInv(h1)
	h2 = mm3FmixInv(h2)
	h2 -= h1
	h1 -= h2
	h1 ^= 16
	h2 ^= 16
	// h2 = (rotl(mixK2(k2),31) + h1)*5 + B ; h1 = rotl(mixK1(k1),27)*5 + A
	i5 := mm3Inv(5)
	m2 := mm3Rotr((h2-mm3B)*i5-h1, 31)
	m1 := mm3Rotr((h1-mm3A)*i5, 27)
	k2 := mm3Rotr(m2*mm3Inv(mm3C1), 33) * mm3Inv(mm3C2)
	k1 := mm3Rotr(m1*mm3Inv(mm3C2), 31) * mm3Inv(mm3C1)
	out := make([]byte, 16)
	for j := 0; j < 8; j++ {
		out[j] = byte(k1 >> (8 * uint(j)))
		out[8+j] = byte(k2 >> (8 * uint(j)))
	}
	return out
}

// RandomToken is RandomPartitioner.getToken(key) for a non-empty key:
// new BigInteger(md5(key)).abs() - the digest read as a SIGNED big-endian
// two's-complement number, then its absolute value (range 0 .. 2^127).
func RandomToken(key []byte) *big.Int {
	d := md5.Sum(key)
	v := new(big.Int).SetBytes(d[:])
	if d[0]&0x80 != 0 { // negative in two's complement: value = unsigned - 2^128
		v.Sub(v, new(big.Int).Lsh(big.NewInt(1), 128))
	}
	return v.Abs(v)
}

// CompositeKey is CompositeType's serialisation of a multi-column partition key:
// for every component, in partition-key order, a 2-byte big-endian length, the
// component's serialised bytes, and one end-of-component byte 0.
func CompositeKey(components [][]byte) []byte {
	var out []byte
	for _, c := range components {
		out = append(out, byte(len(c)>>8), byte(len(c)))
		out = append(out, c...)
		out = append(out, 0)
	}
	return out
}

// RoutingKey is the partition key Cassandra hashes: the single component's bytes
// themselves for a one-column partition key, CompositeKey otherwise.
func RoutingKey(components [][]byte) []byte {
	if len(components) == 1 {
		return append([]byte{}, components[0]...)
	}
	return CompositeKey(components)
}
