package cqlspec

import (
	"bytes"
	"encoding/hex"
	"errors"
	"fmt"
	"math/big"
)

// Value is a semantic CQL value, independent of any Go carrier type.
// JSON-serialisable so that it can live in replay files.
//
//	integers (tinyint..bigint, counter, varint)   Int    decimal string
//	time (ns since midnight), timestamp (ms since epoch), date (days since epoch, may be negative): Int
//	float / double                                 Bits   raw IEEE-754 bits
//	boolean                                        Bool
//	ascii/text/varchar/blob, uuid/timeuuid (16 bytes), inet (4|16 bytes): Hex
//	decimal                                        Int = unscaled, Scale
//	duration                                       Months, Days, Nanos
//	list/set/tuple/udt                             Elems in order; map: k0,v0,k1,v1,...
//
// Null is the protocol's null ([bytes] length -1); Empty is a zero-length value
// of a type whose regular encoding is not empty (Cassandra accepts it for most
// scalar types).
type Value struct {
	Null   bool    `json:"null,omitempty"`
	Empty  bool    `json:"empty,omitempty"`
	Int    string  `json:"int,omitempty"`
	Bits   uint64  `json:"bits,omitempty"`
	Bool   bool    `json:"bool,omitempty"`
	Hex    string  `json:"hex,omitempty"`
	Scale  int32   `json:"scale,omitempty"`
	Months int32   `json:"months,omitempty"`
	Days   int32   `json:"days,omitempty"`
	Nanos  int64   `json:"nanos,omitempty"`
	Elems  []Value `json:"elems,omitempty"`
}

func NullValue() Value          { return Value{Null: true} }
func IntValue(n *big.Int) Value { return Value{Int: n.String()} }
func I64Value(n int64) Value    { return Value{Int: big.NewInt(n).String()} }
func BytesValue(b []byte) Value { return Value{Hex: hex.EncodeToString(b)} }

func (v Value) Big() *big.Int {
	n, ok := new(big.Int).SetString(v.Int, 10)
	if !ok {
		return new(big.Int)
	}
	return n
}

func (v Value) RawBytes() []byte {
	b, _ := hex.DecodeString(v.Hex)
	if b == nil {
		b = []byte{}
	}
	return b
}

var ErrShort = errors.New("cqlspec: not enough bytes")

func be(n uint64, width int) []byte {
	b := make([]byte, width)
	for i := width - 1; i >= 0; i-- {
		b[i] = byte(n)
		n >>= 8
	}
	return b
}

// twosComplement returns the minimal-length big-endian two's complement form of n
// (at least one byte) - the encoding of varint and of decimal's unscaled value
// (Java BigInteger.toByteArray()).
func twosComplement(n *big.Int) []byte {
	if n.Sign() >= 0 {
		b := n.Bytes()
		if len(b) == 0 || b[0]&0x80 != 0 {
			b = append([]byte{0}, b...)
		}
		return b
	}
	// smallest k with -2^(8k-1) <= n
	k := 1
	for {
		lim := new(big.Int).Lsh(big.NewInt(1), uint(8*k-1))
		lim.Neg(lim)
		if n.Cmp(lim) >= 0 {
			break
		}
		k++
	}
	mod := new(big.Int).Lsh(big.NewInt(1), uint(8*k))
	b := new(big.Int).Add(n, mod).Bytes()
	for len(b) < k {
		b = append([]byte{0}, b...)
	}
	return b
}

func fromTwosComplement(b []byte) *big.Int {
	n := new(big.Int).SetBytes(b)
	if len(b) > 0 && b[0]&0x80 != 0 {
		n.Sub(n, new(big.Int).Lsh(big.NewInt(1), uint(8*len(b))))
	}
	return n
}

func fixedWidth(k Kind) int {
	switch k {
	case Tinyint, Boolean:
		return 1
	case Smallint:
		return 2
	case Int, Float, Date:
		return 4
	case Bigint, Counter, Timestamp, Time, Double:
		return 8
	case UUID, TimeUUID:
		return 16
	}
	return 0
}

// zigzag vint (section "vint" of the v5 specification, used by duration)
func encVint(v int64) []byte {
	u := uint64(v<<1) ^ uint64(v>>63)
	// number of extra bytes: value must fit in 7*(n+1) bits for n < 8 extra bytes, 64 bits for 8
	extra := 0
	for extra < 8 && u >= uint64(1)<<uint(7*(extra+1)) {
		extra++
	}
	out := make([]byte, extra+1)
	x := u
	for i := extra; i >= 1; i-- {
		out[i] = byte(x)
		x >>= 8
	}
	if extra < 8 {
		out[0] = byte(x) | byte(0xff<<uint(8-extra))
	} else {
		out[0] = 0xff
	}
	return out
}

func decVint(b []byte) (int64, int, error) {
	if len(b) == 0 {
		return 0, 0, ErrShort
	}
	extra := 0
	for extra < 8 && b[0]&(0x80>>uint(extra)) != 0 {
		extra++
	}
	if len(b) < 1+extra {
		return 0, 0, ErrShort
	}
	var u uint64
	if extra < 8 {
		u = uint64(b[0] & (0xff >> uint(extra)))
	}
	for i := 1; i <= extra; i++ {
		u = u<<8 | uint64(b[i])
	}
	return int64(u>>1) ^ -int64(u&1), 1 + extra, nil
}

// collection length / element length fields
func encLen(n int, proto int) []byte {
	if proto >= 3 {
		return be(uint64(uint32(int32(n))), 4)
	}
	return be(uint64(uint16(n)), 2)
}

func decLen(b []byte, proto int) (int, []byte, error) {
	if proto >= 3 {
		if len(b) < 4 {
			return 0, nil, ErrShort
		}
		return int(int32(uint32(b[0])<<24 | uint32(b[1])<<16 | uint32(b[2])<<8 | uint32(b[3]))), b[4:], nil
	}
	if len(b) < 2 {
		return 0, nil, ErrShort
	}
	return int(b[0])<<8 | int(b[1]), b[2:], nil
}

// Encodable reports whether v can be expressed for t in the given protocol
// version (v1-2 collections cannot hold null elements and are limited to 65535
// elements of 65535 bytes).
func Encodable(t *Type, v Value, proto int) bool {
	if v.Null || v.Empty {
		return true
	}
	switch t.Kind {
	case List, Set, Map:
		if n := len(v.Elems); proto < 3 && ((t.Kind == Map && n > 65535*2) || (t.Kind != Map && n > 65535)) {
			return false
		}
		for i, e := range v.Elems {
			et := t.Elems[0]
			if t.Kind == Map {
				et = t.Elems[i%2]
			}
			if proto < 3 && e.Null {
				return false
			}
			if !Encodable(et, e, proto) {
				return false
			}
			if proto < 3 {
				if b := Encode(et, e, proto); len(b) > 65535 {
					return false
				}
			}
		}
	case Tuple, UDT:
		for i, e := range v.Elems {
			if i < len(t.Elems) && !Encodable(t.Elems[i], e, proto) {
				return false
			}
		}
	}
	return true
}

// Encode returns the serialized form of v for type t (section 6 of the
// specification); nil for null.  Collection framing depends on proto.
func Encode(t *Type, v Value, proto int) []byte {
	if v.Null {
		return nil
	}
	if v.Empty {
		return []byte{}
	}
	switch t.Kind {
	case Ascii, Text, Varchar, Blob, Custom:
		return v.RawBytes()
	case Boolean:
		if v.Bool {
			return []byte{1}
		}
		return []byte{0}
	case Tinyint, Smallint, Int, Bigint, Counter, Timestamp, Time:
		w := fixedWidth(t.Kind)
		n := v.Big()
		mod := new(big.Int).Lsh(big.NewInt(1), uint(8*w))
		n.Mod(n, mod) // two's complement in w bytes
		b := n.Bytes()
		for len(b) < w {
			b = append([]byte{0}, b...)
		}
		return b
	case Date:
		// unsigned 32-bit, epoch at 2^31; Int holds days since 1970-01-01 (may be negative)
		n := v.Big()
		n.Add(n, big.NewInt(1<<31))
		return be(n.Uint64(), 4)
	case Float:
		return be(v.Bits&0xffffffff, 4)
	case Double:
		return be(v.Bits, 8)
	case Varint:
		return twosComplement(v.Big())
	case Decimal:
		return append(be(uint64(uint32(v.Scale)), 4), twosComplement(v.Big())...)
	case UUID, TimeUUID, Inet:
		return v.RawBytes()
	case Duration:
		out := encVint(int64(v.Months))
		out = append(out, encVint(int64(v.Days))...)
		return append(out, encVint(v.Nanos)...)
	case List, Set:
		out := encLen(len(v.Elems), proto)
		for _, e := range v.Elems {
			out = appendElem(out, t.Elems[0], e, proto, proto)
		}
		return out
	case Map:
		out := encLen(len(v.Elems)/2, proto)
		for i, e := range v.Elems {
			out = appendElem(out, t.Elems[i%2], e, proto, proto)
		}
		return out
	case Tuple, UDT:
		// fields are [bytes] (4-byte length) whatever the protocol version
		var out []byte
		for i, e := range v.Elems {
			out = appendElem(out, t.Elems[i], e, proto, 3)
		}
		return out
	}
	panic(fmt.Sprintf("cqlspec.Encode: unknown kind %v", t.Kind))
}

func appendElem(out []byte, t *Type, e Value, proto, lenProto int) []byte {
	b := Encode(t, e, proto)
	if b == nil {
		return append(out, encLen(-1, lenProto)...)
	}
	out = append(out, encLen(len(b), lenProto)...)
	return append(out, b...)
}

// Decode is the strict inverse of Encode: it fails on any byte string that is not
// a complete, exact serialization for t.
func Decode(t *Type, b []byte, proto int) (Value, error) {
	if b == nil {
		return Value{Null: true}, nil
	}
	if len(b) == 0 {
		switch t.Kind {
		case Ascii, Text, Varchar, Blob, Custom:
			return Value{Hex: ""}, nil
		case Tuple, UDT:
			// no fields present at all
		default:
			return Value{Empty: true}, nil
		}
	}
	switch t.Kind {
	case Ascii, Text, Varchar, Blob, Custom:
		return BytesValue(b), nil
	case Boolean:
		if len(b) != 1 {
			return Value{}, fmt.Errorf("boolean of %d bytes", len(b))
		}
		return Value{Bool: b[0] != 0}, nil
	case Tinyint, Smallint, Int, Bigint, Counter, Timestamp, Time:
		if len(b) != fixedWidth(t.Kind) {
			return Value{}, fmt.Errorf("%v of %d bytes", t.Kind, len(b))
		}
		return IntValue(fromTwosComplement(b)), nil
	case Date:
		if len(b) != 4 {
			return Value{}, fmt.Errorf("date of %d bytes", len(b))
		}
		n := new(big.Int).SetBytes(b)
		n.Sub(n, big.NewInt(1<<31))
		return IntValue(n), nil
	case Float:
		if len(b) != 4 {
			return Value{}, fmt.Errorf("float of %d bytes", len(b))
		}
		return Value{Bits: be64pad(b)}, nil
	case Double:
		if len(b) != 8 {
			return Value{}, fmt.Errorf("double of %d bytes", len(b))
		}
		return Value{Bits: be64pad(b)}, nil
	case Varint:
		return IntValue(fromTwosComplement(b)), nil
	case Decimal:
		if len(b) < 5 {
			return Value{}, fmt.Errorf("decimal of %d bytes", len(b))
		}
		v := IntValue(fromTwosComplement(b[4:]))
		v.Scale = int32(uint32(be64pad(b[:4])))
		return v, nil
	case UUID, TimeUUID:
		if len(b) != 16 {
			return Value{}, fmt.Errorf("uuid of %d bytes", len(b))
		}
		return BytesValue(b), nil
	case Inet:
		if len(b) != 4 && len(b) != 16 {
			return Value{}, fmt.Errorf("inet of %d bytes", len(b))
		}
		return BytesValue(b), nil
	case Duration:
		m, n1, err := decVint(b)
		if err != nil {
			return Value{}, err
		}
		d, n2, err := decVint(b[n1:])
		if err != nil {
			return Value{}, err
		}
		ns, n3, err := decVint(b[n1+n2:])
		if err != nil {
			return Value{}, err
		}
		if n1+n2+n3 != len(b) {
			return Value{}, fmt.Errorf("duration: %d trailing bytes", len(b)-n1-n2-n3)
		}
		if int64(int32(m)) != m || int64(int32(d)) != d {
			return Value{}, fmt.Errorf("duration: months/days out of 32-bit range")
		}
		return Value{Months: int32(m), Days: int32(d), Nanos: ns}, nil
	case List, Set, Map:
		n, rest, err := decLen(b, proto)
		if err != nil {
			return Value{}, err
		}
		if n < 0 {
			return Value{}, fmt.Errorf("negative collection size %d", n)
		}
		per := 1
		if t.Kind == Map {
			per = 2
		}
		out := Value{Elems: []Value{}}
		for i := 0; i < n*per; i++ {
			et := t.Elems[0]
			if t.Kind == Map {
				et = t.Elems[i%2]
			}
			var e Value
			e, rest, err = decodeElem(et, rest, proto, proto)
			if err != nil {
				return Value{}, fmt.Errorf("element %d: %v", i, err)
			}
			out.Elems = append(out.Elems, e)
		}
		if len(rest) != 0 {
			return Value{}, fmt.Errorf("%d trailing bytes after collection", len(rest))
		}
		return out, nil
	case Tuple, UDT:
		out := Value{Elems: []Value{}}
		rest := b
		for i := range t.Elems {
			if len(rest) == 0 && t.Kind == UDT {
				// trailing UDT fields may be absent (type altered after the value was written): null
				out.Elems = append(out.Elems, Value{Null: true})
				continue
			}
			var e Value
			var err error
			e, rest, err = decodeElem(t.Elems[i], rest, proto, 3)
			if err != nil {
				return Value{}, fmt.Errorf("field %d: %v", i, err)
			}
			out.Elems = append(out.Elems, e)
		}
		if len(rest) != 0 {
			return Value{}, fmt.Errorf("%d trailing bytes after tuple/udt", len(rest))
		}
		return out, nil
	}
	return Value{}, fmt.Errorf("cqlspec.Decode: unknown kind %v", t.Kind)
}

func decodeElem(t *Type, b []byte, proto, lenProto int) (Value, []byte, error) {
	n, rest, err := decLen(b, lenProto)
	if err != nil {
		return Value{}, nil, err
	}
	if n < 0 {
		return Value{Null: true}, rest, nil
	}
	if len(rest) < n {
		return Value{}, nil, ErrShort
	}
	v, err := Decode(t, rest[:n:n], proto)
	return v, rest[n:], err
}

func be64pad(b []byte) uint64 {
	var v uint64
	for _, x := range b {
		v = v<<8 | uint64(x)
	}
	return v
}

// Equal compares two values of type t semantically (floats by bits, decimals by
// (unscaled, scale), sets and maps as ordered sequences).
func Equal(t *Type, a, b Value) bool {
	if a.Null != b.Null || a.Empty != b.Empty {
		return false
	}
	if a.Null || a.Empty {
		return true
	}
	switch t.Kind {
	case Ascii, Text, Varchar, Blob, Custom, UUID, TimeUUID, Inet:
		return bytes.Equal(a.RawBytes(), b.RawBytes())
	case Boolean:
		return a.Bool == b.Bool
	case Tinyint, Smallint, Int, Bigint, Counter, Timestamp, Time, Date, Varint:
		return a.Big().Cmp(b.Big()) == 0
	case Float:
		return a.Bits&0xffffffff == b.Bits&0xffffffff
	case Double:
		return a.Bits == b.Bits
	case Decimal:
		return a.Scale == b.Scale && a.Big().Cmp(b.Big()) == 0
	case Duration:
		return a.Months == b.Months && a.Days == b.Days && a.Nanos == b.Nanos
	case List, Set, Map, Tuple, UDT:
		if len(a.Elems) != len(b.Elems) {
			return false
		}
		for i := range a.Elems {
			et := t.Elems[0]
			switch t.Kind {
			case Map:
				et = t.Elems[i%2]
			case Tuple, UDT:
				et = t.Elems[i]
			}
			if !Equal(et, a.Elems[i], b.Elems[i]) {
				return false
			}
		}
		return true
	}
	return false
}
