package cqlspec

import (
	"encoding/hex"
	"math/big"
	"testing"
)

func TestVarintVectors(t *testing.T) {
	// vectors from the protocol specification, section 6 (varint)
	for _, c := range []struct {
		n   int64
		hex string
	}{{0, "00"}, {1, "01"}, {127, "7f"}, {128, "0080"}, {129, "0081"}, {-1, "ff"}, {-128, "80"}, {-129, "ff7f"}, {32767, "7fff"}, {-32768, "8000"}, {-32769, "ff7fff"}} {
		got := hex.EncodeToString(Encode(Scalar(Varint), I64Value(c.n), 4))
		if got != c.hex {
			t.Errorf("varint %d = %s, want %s", c.n, got, c.hex)
		}
		v, err := Decode(Scalar(Varint), mustHex(c.hex), 4)
		if err != nil || v.Big().Cmp(big.NewInt(c.n)) != 0 {
			t.Errorf("decode %s = %v %v", c.hex, v, err)
		}
	}
}

func mustHex(s string) []byte { b, _ := hex.DecodeString(s); return b }

func TestVint(t *testing.T) {
	for _, c := range []struct {
		n   int64
		hex string
	}{{0, "00"}, {1, "02"}, {-1, "01"}, {63, "7e"}, {64, "8080"}, {-64, "7f"}, {-65, "8081"}, {8191, "bffe"}, {8192, "c04000"},
		{1<<62 - 1, "ff7ffffffffffffffe"}, {-1 << 63, "ffffffffffffffffff"}, {1<<63 - 1, "fffffffffffffffffe"}} {
		got := hex.EncodeToString(encVint(c.n))
		if got != c.hex {
			t.Errorf("vint %d = %s, want %s", c.n, got, c.hex)
		}
		n, used, err := decVint(mustHex(c.hex))
		if err != nil || n != c.n || used != len(c.hex)/2 {
			t.Errorf("decVint %s = %d,%d,%v", c.hex, n, used, err)
		}
	}
	for n := int64(-70000); n < 70000; n += 7 {
		m, _, err := decVint(encVint(n))
		if err != nil || m != n {
			t.Fatalf("vint round trip %d -> %d %v", n, m, err)
		}
	}
}

func TestDateAndCollections(t *testing.T) {
	if got := hex.EncodeToString(Encode(Scalar(Date), I64Value(0), 4)); got != "80000000" {
		t.Errorf("date epoch = %s", got)
	}
	if got := hex.EncodeToString(Encode(Scalar(Date), I64Value(-1), 4)); got != "7fffffff" {
		t.Errorf("date -1 = %s", got)
	}
	lt := &Type{Kind: List, Elems: []*Type{Scalar(Int)}}
	v := Value{Elems: []Value{I64Value(1), NullValue()}}
	if got := hex.EncodeToString(Encode(lt, v, 4)); got != "000000020000000400000001ffffffff" {
		t.Errorf("list v4 = %s", got)
	}
	v2 := Value{Elems: []Value{I64Value(1)}}
	if got := hex.EncodeToString(Encode(lt, v2, 2)); got != "0001000400000001" {
		t.Errorf("list v2 = %s", got)
	}
	d, err := Decode(lt, Encode(lt, v, 4), 4)
	if err != nil || !Equal(lt, d, v) {
		t.Errorf("list round trip %v %v", d, err)
	}
}
