// Package vx is the glue between a property (draw a Case, run it against the
// real code, judge it with an oracle) and rapid on one side, vstats / replay
// files on the other.  A Case is always a JSON-serialisable value: rapid only
// *draws* it, so a shrunk failure can be re-run with no library involved.
package vx

import (
	"encoding/json"
	"fmt"
	"io/ioutil"
	"os"
	"regexp"
	"runtime/debug"
	"strings"
	"testing"
	"time"

	"pgregory.net/rapid"
	"verif.local/vstats"
)

// KnownErr is returned by an oracle when the failure belongs to a class listed
// in known_findings.jsonl; if it is not listed (or listed as fixed) it is an
// ordinary violation.
type KnownErr struct {
	ID   string
	What string
}

func (e *KnownErr) Error() string { return "[" + e.ID + "] " + e.What }

func Known(id, format string, a ...interface{}) error {
	return &KnownErr{ID: id, What: fmt.Sprintf(format, a...)}
}

type Prop struct {
	ID   string // property id, e.g. C19
	Part string // test function name
	Rule string // generation + non-triviality rule, for the evidence file
	Draw func(t *rapid.T) interface{}
	New  func() interface{} // fresh pointer to a Case, for replay decoding
	Run  func(c interface{}, k *vstats.Case) error
}

// timeBudget recognises verdicts that rest on a time budget alone ("X did not return within N s"). A budget
// that ran out says the machine or the code was slow; only a second run of the same case that ends the same
// way makes it a verdict (a hang of the code under test comes back every time).
var timeBudget = regexp.MustCompile(`(?i)watchdog|did not return within|\(hang\)`)

func safeRun(p Prop, c interface{}, k *vstats.Case) error {
	err := safeRunOnce(p, c, k)
	if err == nil {
		return nil
	}
	if _, known := err.(*KnownErr); known || !timeBudget.MatchString(strings.SplitN(err.Error(), "\n", 2)[0]) || strings.HasPrefix(err.Error(), "panic:") {
		return err
	}
	time.Sleep(time.Second)
	err2 := safeRunOnce(p, c, k)
	if err2 == nil {
		k.Class("time budget ran out once, a second run of the case passed (counted, not judged)")
	}
	return err2
}

func safeRunOnce(p Prop, c interface{}, k *vstats.Case) (err error) {
	defer func() {
		if r := recover(); r != nil {
			// rapid accepts a shrink step only if re-running it fails with the very same message:
			// goroutine numbers, argument values and pc offsets must not be part of it
			err = fmt.Errorf("panic: %v\n%s", r, stableStack(debug.Stack()))
		}
	}()
	return p.Run(c, k)
}

// stableStack reduces a stack dump to function names and file:line pairs of the panicking goroutine.
func stableStack(b []byte) string {
	var out []string
	for i, l := range strings.Split(string(b), "\n") {
		if i == 0 || l == "" {
			continue // "goroutine N [running]:"
		}
		if strings.HasPrefix(l, "\t") {
			if j := strings.Index(l, " +0x"); j >= 0 {
				l = l[:j]
			}
			out = append(out, l)
			continue
		}
		if j := strings.LastIndex(l, "("); j > 0 {
			l = l[:j] // drop the argument values
		}
		out = append(out, l)
		if len(out) > 60 {
			break
		}
	}
	return strings.Join(out, "\n")
}

// Main is the TestMain body of every harness package.
func Main(m *testing.M) {
	code := m.Run()
	vstats.Flush()
	os.Exit(code)
}

// Check runs one property part.
func Check(t *testing.T, p Prop) {
	col := vstats.New(p.ID, p.Part, p.Rule)
	if rp := os.Getenv("VX_REPLAY"); rp != "" {
		b, err := ioutil.ReadFile(rp)
		if err != nil {
			t.Fatalf("replay: %v", err)
		}
		var f struct {
			Property string          `json:"property"`
			Part     string          `json:"part"`
			Case     json.RawMessage `json:"case"`
		}
		if err := json.Unmarshal(b, &f); err != nil {
			t.Fatalf("replay: %v", err)
		}
		if f.Part != p.Part {
			t.Skip("replay is for another part")
		}
		c := p.New()
		if err := json.Unmarshal(f.Case, c); err != nil {
			t.Fatalf("replay: decode case: %v", err)
		}
		k := col.Begin(c)
		err = safeRun(p, c, k)
		k.End()
		if ke, ok := err.(*KnownErr); ok && vstats.IsKnown(ke.ID) {
			k.Known(ke.ID, ke.What)
			return
		}
		if err != nil {
			col.Violation(k.Enc(), err.Error())
			t.Fatalf("VXFAIL %s/%s: %v", p.ID, p.Part, err)
		}
		return
	}
	rapid.Check(t, func(rt *rapid.T) {
		c := p.Draw(rt)
		k := col.Begin(c)
		err := safeRun(p, c, k)
		k.End()
		if err == nil {
			return
		}
		if ke, ok := err.(*KnownErr); ok && vstats.IsKnown(ke.ID) {
			k.Known(ke.ID, ke.What)
			return
		}
		col.Violation(k.Enc(), err.Error())
		rt.Fatalf("VXFAIL %s/%s: %v", p.ID, p.Part, err)
	})
}

// Scale returns n scaled by $VX_SCALE (a float; default 1), at least 1.
func Scale(n int) int {
	var f float64 = 1
	if s := os.Getenv("VX_SCALE"); s != "" {
		fmt.Sscanf(s, "%g", &f)
	}
	r := int(float64(n) * f)
	if r < 1 {
		r = 1
	}
	return r
}

// Tier is "quick" or "thorough".
func Tier() string {
	if os.Getenv("VERIF_TIER") == "thorough" {
		return "thorough"
	}
	return "quick"
}
