//go:build verif && go1.21 && (appengine || s390x)

package murmur

const vxC09Build = "appengine"
