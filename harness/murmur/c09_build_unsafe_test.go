//go:build verif && go1.21 && !appengine && !s390x

package murmur

// which getBlock this binary was linked with (mirrors the build lines of
// murmur_unsafe.go / murmur_appengine.go)
const vxC09Build = "unsafe"
