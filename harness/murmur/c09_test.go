//go:build verif && go1.21

// C09 (part 1) - Murmur3H1 equals h1 of Cassandra's MurmurHash.hash3_x64_128.
// Differential against verif.local/cqlspec over byte strings stratified by
// (number of full 16-byte blocks) x (tail length), for both getBlock variants
// (murmur_unsafe.go in the default build, murmur_appengine.go with -tags appengine).
package murmur

import (
	"bytes"
	"encoding/hex"
	"fmt"
	"testing"

	"pgregory.net/rapid"
	"verif.local/cqlspec"
	"verif.local/vstats"
	"verif.local/vx"
)

type vxC09Key struct {
	Key  string `json:"key"`  // hex
	Off  int    `json:"off"`  // the key is handed over as buf[off:off+n] of a larger buffer (alignment)
	Mode string `json:"mode"` // how the bytes were drawn (label only)
}

var vxC09Extremes = []uint64{1 << 63, 1<<63 - 1, 1<<63 + 1, 0, 1, ^uint64(0), 1 << 62, 1 << 32, 1<<32 - 1}

func vxC09Bits(t *rapid.T, n int, label string) int {
	v := 0
	for i := 0; i < n; i++ {
		v <<= 1
		if rapid.Bool().Draw(t, label) {
			v |= 1
		}
	}
	return v
}

func vxC09DrawKey(t *rapid.T) *vxC09Key {
	c := &vxC09Key{Off: rapid.IntRange(0, 15).Draw(t, "off")}
	mode := rapid.IntRange(0, 19).Draw(t, "mode")
	if mode == 19 {
		// one-block keys whose h1 is an extreme value, solved for instead of searched
		h1 := rapid.SampledFrom(vxC09Extremes).Draw(t, "h1")
		h2 := rapid.Uint64().Draw(t, "h2")
		c.Mode = "preimage"
		c.Key = hex.EncodeToString(cqlspec.Murmur3Preimage16(h1, h2))
		return c
	}
	// rapid's integer ranges favour small values; four fair bits give every tail length the same weight
	blocks := vxC09Bits(t, 3, "blocks") % 6
	tail := vxC09Bits(t, 4, "tail")
	n := blocks*16 + tail
	b := make([]byte, n)
	switch {
	case mode < 8:
		c.Mode = "high"
		for i := range b {
			b[i] = byte(rapid.IntRange(0x80, 0xff).Draw(t, "b"))
		}
	case mode < 12:
		c.Mode = "uniform"
		for i := range b {
			b[i] = rapid.Byte().Draw(t, "b")
		}
	case mode < 14:
		c.Mode = "boundary"
		for i := range b {
			b[i] = rapid.SampledFrom([]byte{0x00, 0x7f, 0x80, 0xff, 0x01, 0xfe}).Draw(t, "b")
		}
	case mode < 17:
		// zeros (or 0x01s) with one or two high bytes: isolates one position of the tail / a block
		c.Mode = "single"
		fill := rapid.SampledFrom([]byte{0x00, 0x01, 0x7f}).Draw(t, "fill")
		for i := range b {
			b[i] = fill
		}
		if n > 0 {
			for j := rapid.IntRange(1, 2).Draw(t, "nhigh"); j > 0; j-- {
				// biased to the tail, where the sign extension happens
				var p int
				if tail > 0 && rapid.IntRange(0, 3).Draw(t, "intail") > 0 {
					p = blocks*16 + rapid.IntRange(0, tail-1).Draw(t, "pos")
				} else {
					p = rapid.IntRange(0, n-1).Draw(t, "pos")
				}
				b[p] = byte(rapid.IntRange(0x80, 0xff).Draw(t, "hb"))
			}
		}
	default:
		c.Mode = "ascii"
		for i := range b {
			b[i] = byte(rapid.IntRange(0x20, 0x7e).Draw(t, "b"))
		}
	}
	c.Key = hex.EncodeToString(b)
	return c
}

func vxC09RunKey(ci interface{}, k *vstats.Case) error {
	c := ci.(*vxC09Key)
	key, err := hex.DecodeString(c.Key)
	if err != nil || c.Off < 0 || c.Off > 64 {
		return nil
	}
	n := len(key)
	tail := key[n/16*16:]
	high := false
	for _, x := range tail {
		if x >= 0x80 {
			high = true
		}
	}
	k.Class("mode=" + c.Mode)
	k.Class(fmt.Sprintf("blocks=%d", n/16))
	k.Class(fmt.Sprintf("tail=%d", n%16))
	k.Class("build=" + vxC09Build)
	if high {
		k.Class("tail-has-high-byte")
	}
	if n >= 16 && len(tail) > 0 && high {
		k.NonTrivial()
	}
	buf := make([]byte, c.Off+n+3)
	for i := range buf {
		buf[i] = 0xa5
	}
	copy(buf[c.Off:], key)
	in := buf[c.Off : c.Off+n : c.Off+n]
	got := Murmur3H1(in)
	want := cqlspec.Murmur3RawH1(key)
	if got != want {
		return fmt.Errorf("Murmur3H1(%s) [%d blocks + %d tail bytes, %s build] = %d, Cassandra's hash3_x64_128 h1 = %d",
			c.Key, n/16, n%16, vxC09Build, got, want)
	}
	if !bytes.Equal(buf[c.Off:c.Off+n], key) {
		return fmt.Errorf("Murmur3H1 modified its input %s -> %x", c.Key, buf[c.Off:c.Off+n])
	}
	return nil
}

const vxC09Rule = "key = (0..5 full 16-byte blocks) x (tail 0..15 bytes, every tail length equally likely); bytes all >=0x80 (40%), uniform, boundary values, a constant fill with 1-2 high bytes at drawn positions (biased to the tail), ASCII; 5% one-block keys solved for an extreme h1 (Long.MIN_VALUE, MAX_VALUE, 0, -1, ...); the slice starts at a drawn offset 0..15 of a larger buffer. Non-trivial = at least one full block AND a non-empty tail containing a byte >= 0x80 (both loops and the sign extension take part); distinct by (bytes, offset)"

func vxC09Murmur(t *testing.T, part, build string) {
	if vxC09Build != build {
		t.Fatalf("harness error: part %s must run in a binary built for the %q variant, this one is %q (checks.json tags)", part, build, vxC09Build)
	}
	vx.Check(t, vx.Prop{ID: "C09", Part: part, Rule: vxC09Rule,
		Draw: func(t *rapid.T) interface{} { return vxC09DrawKey(t) },
		New:  func() interface{} { return &vxC09Key{} },
		Run:  vxC09RunKey})
}

// default build: getBlock of murmur_unsafe.go
func TestVxC09MurmurUnsafe(t *testing.T) { vxC09Murmur(t, "TestVxC09MurmurUnsafe", "unsafe") }

// -tags appengine: getBlock of murmur_appengine.go
func TestVxC09MurmurAppengine(t *testing.T) {
	vxC09Murmur(t, "TestVxC09MurmurAppengine", "appengine")
}
