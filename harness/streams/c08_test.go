//go:build verif && go1.21

// C08 - stream ids are unique while in use, never 0 or out of range, and all get used.
//
// API under test: New, (*IDGenerator).GetStream, Clear, Available, NumStreams.
// Parts:
//
//	TestVxC08Scheduled   the harness owns the order of the allocator's atomic steps (vsched)
//	TestVxC08Exhaustive  every schedule of a finite family of tiny configurations
//	TestVxC08Sequential  single-goroutine histories against a set model
//	TestVxC08Sweep       use all ids, fail, release some, get exactly those back
//	TestVxC08Parallel    un-scheduled real goroutines (meant for -race)
//
// The only white-box accesses are the addresses of the allocator's words (to name them in
// traces and to pre-register them with the scheduler); no assertion reads internal state.
package streams

import (
	"encoding/json"
	"fmt"
	"io/ioutil"
	"os"
	"runtime"
	"sort"
	"strings"
	"sync"
	realatomic "sync/atomic"
	"testing"
	"time"
	"unsafe"

	"pgregory.net/rapid"
	"verif.local/vsched"
	"verif.local/vstats"
	"verif.local/vx"
)

// ---------------------------------------------------------------------------------------
// shared

type vxC08Op struct {
	K   string `json:"k"`   // "get" | "clear" (one of my ids) | "reclear" (an id I released) | "avail"
	Sel int    `json:"sel"` // which of my ids (index modulo the list length at that moment)
}

func vxC08Cap(proto int) int {
	// the property's statement: 1..127 for v1-2, 1..32767 for v3+
	if proto > 2 {
		return 32768
	}
	return 128
}

// vxC08Fill creates an allocator and acquires every id; returns an error if the ids are
// not exactly 1..cap-1.
func vxC08Fill(proto int) (*IDGenerator, int, error) {
	s := New(proto)
	cp := vxC08Cap(proto)
	if s.NumStreams != cp {
		return nil, 0, fmt.Errorf("New(%d).NumStreams = %d, want %d", proto, s.NumStreams, cp)
	}
	seen := make([]bool, cp)
	for i := 0; i < cp-1; i++ {
		id, ok := s.GetStream()
		if !ok {
			return nil, 0, fmt.Errorf("fill: GetStream #%d of %d failed although %d ids were never handed out", i+1, cp-1, cp-1-i)
		}
		if id < 1 || id > cp-1 {
			return nil, 0, fmt.Errorf("fill: GetStream #%d returned id %d outside [1,%d]", i+1, id, cp-1)
		}
		if seen[id] {
			return nil, 0, fmt.Errorf("fill: GetStream #%d returned id %d which is already handed out", i+1, id)
		}
		seen[id] = true
	}
	if a := s.Available(); a != 0 {
		return nil, 0, fmt.Errorf("fill: Available() = %d after all %d ids were handed out", a, cp-1)
	}
	return s, cp, nil
}

var vxC08Tmpl = map[int]*IDGenerator{}

// vxC08Filled returns a private copy of an allocator that was filled through the API
// (once per capacity and process; TestVxC08Sweep/Sequential judge the fill itself).  The
// copy is the only place where the harness relies on the representation: the struct is
// copied and its one reference field, the bitset slice, duplicated.
func vxC08Filled(proto int) (*IDGenerator, int, error) {
	cp := vxC08Cap(proto)
	t := vxC08Tmpl[cp]
	if t == nil {
		var err error
		if t, _, err = vxC08Fill(proto); err != nil {
			return nil, 0, err
		}
		vxC08Tmpl[cp] = t
	}
	g := *t
	g.streams = append([]uint64(nil), t.streams...)
	return &g, cp, nil
}

// vxC08Drain acquires until GetStream fails; every id must be in range and outside held;
// the number of ids obtained must equal want.
func vxC08Drain(s *IDGenerator, cp int, held []bool, want int, when string) error {
	got := make([]bool, cp)
	ngot := 0
	for i := 0; i <= cp; i++ {
		id, ok := s.GetStream()
		if !ok {
			break
		}
		if id < 1 || id > cp-1 {
			return fmt.Errorf("%s: drain: GetStream returned id %d outside [1,%d]", when, id, cp-1)
		}
		if held[id] || got[id] {
			return fmt.Errorf("%s: drain: GetStream returned id %d which is currently handed out", when, id)
		}
		got[id] = true
		ngot++
	}
	if ngot != want {
		return fmt.Errorf("%s: drain: %d ids could be acquired before GetStream failed, but %d ids were free", when, ngot, want)
	}
	if a := s.Available(); a != 0 {
		return fmt.Errorf("%s: drain: Available() = %d with every id handed out", when, a)
	}
	return nil
}

// ---------------------------------------------------------------------------------------
// scheduled part

type vxC08Sched struct {
	Proto   int         `json:"proto"`
	Rot     int         `json:"rot"`  // failing GetStream calls on the full allocator before freeing (moves the start word)
	Free    []int       `json:"free"` // ids released (unscheduled) after the complete fill
	Held    [][]int     `json:"held"` // per worker: ids it owns when the scheduled phase starts
	Progs   [][]vxC08Op `json:"progs"`
	Choices []int       `json:"choices"`
	Auto    bool        `json:"auto"` // vsched.Config.AutoColdLoads
}

type vxC08Call struct {
	w, idx   int
	kind     string // get, clear, reclear, avail, skip
	id       int    // argument of clear/reclear, result of get
	ok       bool   // result of get / clear / reclear
	val      int    // result of avail
	now      int
	inv, ret int // time line: 2*t = just before step t, so ret = 2*last+2
	steps    int
}

type vxC08Holding struct {
	id, owner        int // owner -1 = environment (never released)
	from, to         int // held from the get's return to the clear's invocation
	getInv, clearRet int // the id may be marked in use anywhere in [getInv, clearRet]
}

const vxInf = int(^uint(0) >> 2)

func vxC08FmtTrace(tr []vsched.Step, max int) string {
	var b strings.Builder
	if len(tr) > max {
		fmt.Fprintf(&b, "...(%d earlier steps) ", len(tr)-max)
		tr = tr[len(tr)-max:]
	}
	for _, s := range tr {
		b.WriteString(s.String())
		b.WriteByte(' ')
	}
	return b.String()
}

type vxC08Out struct {
	res      *vsched.Result
	excluded string
	fails    int // failed GetStream calls
	gets     int
	staleBit int // stale CAS on a bitset word
	staleOff int
	reclears int
	raced    int // releases of one id that overlapped
}

// vxC08RunSched executes one scheduled case and judges it.
func vxC08RunSched(c *vxC08Sched) (*vxC08Out, error) {
	out := &vxC08Out{}
	s, cp, err := vxC08Filled(c.Proto)
	if err != nil {
		return out, err
	}
	for i := 0; i < c.Rot; i++ {
		if id, ok := s.GetStream(); ok {
			return out, fmt.Errorf("setup: GetStream returned (%d,true) with every id handed out", id)
		}
	}
	owner := map[int]int{} // id -> worker, for ids not held by the environment
	for _, id := range c.Free {
		if id < 1 || id > cp-1 || owner[id] != 0 {
			return out, nil // malformed replay file
		}
		owner[id] = -1
		if !s.Clear(id) {
			return out, fmt.Errorf("setup: Clear(%d) = false for an id that is handed out", id)
		}
	}
	if a := s.Available(); a != len(c.Free) {
		return out, fmt.Errorf("setup: Available() = %d after releasing %d of all ids", a, len(c.Free))
	}
	nw := len(c.Progs)
	var holds []*vxC08Holding
	cur := make([]map[int]*vxC08Holding, nw) // per worker: id -> open holding
	for w := 0; w < nw; w++ {
		cur[w] = map[int]*vxC08Holding{}
		if w < len(c.Held) {
			for _, id := range c.Held[w] {
				if id < 1 || id > cp-1 || owner[id] != 0 {
					return out, nil
				}
				owner[id] = w + 1
				h := &vxC08Holding{id: id, owner: w, from: -1, to: vxInf, getInv: -1, clearRet: vxInf}
				holds = append(holds, h)
				cur[w][id] = h
			}
		}
	}
	h0 := cp - 1 - len(c.Free)

	addrs := []unsafe.Pointer{unsafe.Pointer(&s.offset), unsafe.Pointer(&s.inuseStreams)}
	for i := range s.streams {
		addrs = append(addrs, unsafe.Pointer(&s.streams[i]))
	}
	calls := make([][]*vxC08Call, nw)
	// ids released by any worker (one worker runs at a time under the scheduler: a plain slice will do); a
	// "reclear" may pick an id another worker released or is releasing just now - two releases of one id racing
	var releasedAll []int
	res := vsched.Run(vsched.Config{Workers: nw, Choices: c.Choices, AutoColdLoads: c.Auto, MaxSteps: 400000, Addrs: addrs},
		func(w *vsched.Worker) {
			var mine, released []int
			if w.ID < len(c.Held) {
				mine = append(mine, c.Held[w.ID]...)
			}
			for i, op := range c.Progs[w.ID] {
				cl := &vxC08Call{w: w.ID, idx: i, kind: op.K, inv: -1, now: w.Now()}
				calls[w.ID] = append(calls[w.ID], cl)
				w.Call = i
				sel := op.Sel
				if sel < 0 {
					sel = -sel
				}
				switch op.K {
				case "get":
					cl.id, cl.ok = s.GetStream()
					if cl.ok {
						mine = append(mine, cl.id)
					}
				case "clear":
					if len(mine) == 0 {
						cl.kind = "skip"
						continue
					}
					j := sel % len(mine)
					cl.id = mine[j]
					mine = append(mine[:j], mine[j+1:]...)
					released = append(released, cl.id)
					releasedAll = append(releasedAll, cl.id)
					cl.ok = s.Clear(cl.id)
				case "reclear":
					// an id this worker released and does not hold again
					var cand []int
					pool := released
					if op.Sel < 0 || sel >= 2 {
						pool = releasedAll
					}
					for _, id := range pool {
						again := false
						for _, m := range mine {
							again = again || m == id
						}
						if !again {
							cand = append(cand, id)
						}
					}
					if len(cand) == 0 {
						cl.kind = "skip"
						continue
					}
					cl.id = cand[len(cand)-1-sel%len(cand)]
					cl.ok = s.Clear(cl.id)
				case "avail":
					cl.val = s.Available()
				default:
					cl.kind = "skip"
				}
			}
		})
	out.res = res
	tail := func() string { return "\ntrace: " + vxC08FmtTrace(res.Trace, 60) }
	if len(res.Panics) > 0 {
		p := res.Panics[0]
		return out, fmt.Errorf("worker %d panicked: %s\n%s%s", p.W, p.Value, p.Stack, tail())
	}
	if res.Err != nil {
		return out, fmt.Errorf("the calls did not terminate under a finite schedule: %v", res.Err)
	}
	// place the calls on the time line
	for t, st := range res.Trace {
		if st.W >= nw || st.Call >= len(calls[st.W]) {
			return out, fmt.Errorf("harness: trace step %v has no call", st)
		}
		cl := calls[st.W][st.Call]
		if cl.inv < 0 {
			cl.inv = 2 * t
		}
		cl.ret = 2*t + 2
		cl.steps++
	}
	var all []*vxC08Call
	for w := range calls {
		for _, cl := range calls[w] {
			if cl.inv < 0 {
				cl.inv, cl.ret = 2*cl.now, 2*cl.now
			}
			if cl.kind != "skip" {
				all = append(all, cl)
			}
		}
	}
	sort.SliceStable(all, func(i, j int) bool { return all[i].inv < all[j].inv })
	desc := func(cl *vxC08Call) string {
		switch cl.kind {
		case "get":
			return fmt.Sprintf("worker %d call %d GetStream() = (%d,%v) [steps %d..%d]", cl.w, cl.idx, cl.id, cl.ok, cl.inv/2, cl.ret/2-1)
		case "avail":
			return fmt.Sprintf("worker %d call %d Available() = %d [step %d]", cl.w, cl.idx, cl.val, cl.inv/2)
		}
		return fmt.Sprintf("worker %d call %d Clear(%d) = %v [steps %d..%d]", cl.w, cl.idx, cl.id, cl.ok, cl.inv/2, cl.ret/2-1)
	}

	// build the holdings in order of the owners' programs (results of get drive the model)
	var late error
	for w := range calls {
		for _, cl := range calls[w] {
			switch cl.kind {
			case "get":
				out.gets++
				if !cl.ok {
					out.fails++
					continue
				}
				if cl.id < 1 || cl.id > cp-1 {
					return out, fmt.Errorf("%s: id outside [1,%d]%s", desc(cl), cp-1, tail())
				}
				h := &vxC08Holding{id: cl.id, owner: w, from: cl.ret, to: vxInf, getInv: cl.inv, clearRet: vxInf}
				holds = append(holds, h)
				cur[w][cl.id] = h
			case "clear":
				h := cur[w][cl.id]
				if h == nil {
					// the worker was handed this id twice and releases it the second time: either a
					// schedule excluded below, or the uniqueness check reports the overlap
					if late == nil {
						late = fmt.Errorf("%s: the caller released an id it was handed twice, and no other check explained it%s", desc(cl), tail())
					}
					continue
				}
				h.to, h.clearRet = cl.inv, cl.ret
				delete(cur[w], cl.id)
			case "reclear":
				out.reclears++
			}
		}
	}
	byID := map[int][]*vxC08Holding{}
	for _, h := range holds {
		byID[h.id] = append(byID[h.id], h)
	}
	// Domain: releasing an id one does not own while somebody else may own it is a caller
	// error (conn.go releases each acquired id once); such schedules are not judged.
	for _, cl := range all {
		if cl.kind != "reclear" {
			continue
		}
		for _, h := range byID[cl.id] {
			// (overlapping the owner's own Clear call is in the domain: two releases of one id racing)
			if h.getInv < cl.ret && cl.inv < h.to {
				out.excluded = "reclear-raced-with-reacquire"
				return out, nil
			}
		}
		// ... and so is a release that races with the owner's release while the id is acquired again before both
		// have returned: the slower of the two hits the new holder's id
		for _, h := range byID[cl.id] {
			if h.to == vxInf || !(h.to < cl.ret && cl.inv < h.clearRet) {
				continue
			}
			lo, hi := cl.inv, cl.ret
			if h.to < lo {
				lo = h.to
			}
			if h.clearRet > hi {
				hi = h.clearRet
			}
			for _, h2 := range byID[cl.id] {
				if h2 != h && h2.getInv >= lo && h2.getInv < hi {
					out.excluded = "racing-releases-with-reacquire"
					return out, nil
				}
			}
		}
	}
	// uniqueness, range
	for id, hs := range byID {
		if owner[id] == 0 {
			for _, h := range hs {
				return out, fmt.Errorf("id %d was handed to worker %d (call returning at step %d) while it is held since the fill and never released%s", id, h.owner, h.from/2-1, tail())
			}
		}
		for i := 0; i < len(hs); i++ {
			for j := 0; j < len(hs); j++ {
				a, b := hs[i], hs[j]
				if i != j && a.from <= b.from && b.from < a.to {
					until := "and never releases it"
					if a.to != vxInf {
						until = fmt.Sprintf("until it invokes Clear at step %d", a.to/2)
					}
					since := "since the start"
					if a.from >= 0 {
						since = fmt.Sprintf("since its GetStream returned after step %d", a.from/2-1)
					}
					return out, fmt.Errorf("id %d handed out twice: worker %d holds it %s %s, yet worker %d's GetStream returned it after step %d%s",
						id, a.owner, since, until, b.owner, b.from/2-1, tail())
				}
			}
		}
	}
	// results of clear / reclear
	for _, cl := range all {
		// the other releases of the same id that overlap this call
		var racing []*vxC08Call
		for _, o := range all {
			// (for a clear: the overlapping releases by workers that do not hold the id; for a reclear: the owner's
			// clear it overlaps. Two "clear" calls that overlap belong to two successive holdings of the id.)
			if o != cl && (o.kind == "clear" || o.kind == "reclear") && o.kind != cl.kind && o.id == cl.id && o.inv < cl.ret && cl.inv < o.ret {
				racing = append(racing, o)
			}
		}
		if cl.kind == "clear" && len(racing) > 0 {
			// Domain: if the id is acquired again while the releases are still in progress, the slower release hits
			// the new holder's id - a caller error (an id released by somebody who does not hold it), not judged
			lo, hi := cl.inv, cl.ret
			for _, o := range racing {
				if o.inv < lo {
					lo = o.inv
				}
				if o.ret > hi {
					hi = o.ret
				}
			}
			for _, h := range byID[cl.id] {
				if h.getInv >= lo && h.getInv < hi {
					out.excluded = "racing-releases-with-reacquire"
					return out, nil
				}
			}
		}
		if cl.kind == "clear" {
			trues := 0
			if cl.ok {
				trues++
			}
			for _, o := range racing {
				if o.ok {
					trues++
				}
			}
			if len(racing) > 0 {
				out.raced++
			}
			if trues != 1 {
				if len(racing) == 0 {
					return out, fmt.Errorf("%s: false although the caller holds the id%s", desc(cl), tail())
				}
				return out, fmt.Errorf("%s raced with %d other release(s) of the same id: %d of them reported that the id was in use, exactly one must%s", desc(cl), len(racing), trues, tail())
			}
		}
		if cl.kind == "reclear" && cl.ok {
			ownerRacing := false
			for _, o := range racing {
				ownerRacing = ownerRacing || o.kind == "clear"
			}
			if !ownerRacing {
				return out, fmt.Errorf("%s: true although the id was already released and nobody acquired it since%s", desc(cl), tail())
			}
		}
	}
	// failing get: illegal if some id was free during the entire call
	ids := make([]int, 0, len(owner))
	for id := range owner {
		ids = append(ids, id)
	}
	sort.Ints(ids)
	for _, cl := range all {
		if cl.kind != "get" || cl.ok {
			continue
		}
		for _, id := range ids {
			free := true
			for _, h := range byID[id] {
				if !(h.clearRet <= cl.inv || h.getInv >= cl.ret) {
					free = false
					break
				}
			}
			if free {
				return out, fmt.Errorf("%s: reported exhaustion although id %d was free during the entire call%s", desc(cl), id, tail())
			}
		}
	}
	// Available during the run
	for _, cl := range all {
		if cl.kind != "avail" {
			continue
		}
		if cl.val > cp-1 {
			return out, fmt.Errorf("%s: outside [0,%d]%s", desc(cl), cp-1, tail())
		}
		lo, hi := h0, h0 // bounds of the number of ids handed out at some moment of the call
		for _, o := range all {
			switch {
			case o.kind == "get" && o.ok:
				if o.ret <= cl.inv {
					lo++
				}
				if o.inv < cl.ret {
					hi++
				}
			case (o.kind == "clear" || o.kind == "reclear") && o.ok:
				// (the release that took effect: of two racing releases of one id, the one that reported "in use")
				if o.inv < cl.ret {
					lo--
				}
				if o.ret <= cl.inv {
					hi--
				}
			}
		}
		if cl.val < cp-1-hi || cl.val > cp-1-lo {
			return out, fmt.Errorf("%s: between %d and %d ids were handed out during the call, so it must be in [%d,%d]%s", desc(cl), lo, hi, cp-1-hi, cp-1-lo, tail())
		}
		if cl.val < 0 {
			// confirmed defect of /repo: Clear resets the bit first and decrements the counter
			// later; a GetStream that re-acquires the id in between increments the counter
			// first, so the counter exceeds the number of ids. Only this explanation (a release
			// in flight during the call, value within the lag) is matched.
			return out, vx.Known("C08-available-negative", "%s: negative although at most %d ids exist (a concurrent Clear has reset its bit but not yet decremented the counter, and the id was re-acquired)%s", desc(cl), cp-1, tail())
		}
	}
	// quiescence
	held := map[int]bool{}
	for _, hs := range byID {
		for _, h := range hs {
			if h.to == vxInf {
				held[h.id] = true
			}
		}
	}
	nheld := cp - 1 - len(owner) + len(held)
	if a := s.Available(); a != cp-1-nheld {
		return out, fmt.Errorf("at quiescence Available() = %d but %d of %d ids are handed out (want %d)%s", a, nheld, cp-1, cp-1-nheld, tail())
	}
	// ids of the environment are all handed out; the drain must hand out exactly the others
	got := map[int]bool{}
	for {
		id, ok := s.GetStream()
		if !ok {
			break
		}
		if _, mine := owner[id]; !mine || held[id] || got[id] || id < 1 || id > cp-1 {
			return out, fmt.Errorf("after the run: GetStream returned id %d which is handed out or out of range%s", id, tail())
		}
		got[id] = true
	}
	if len(got) != len(owner)-len(held) {
		return out, fmt.Errorf("after the run: %d ids could be acquired before GetStream failed, but %d were free%s", len(got), len(owner)-len(held), tail())
	}
	if late != nil {
		return out, late
	}
	for _, st := range res.Stale {
		if st.Addr >= 2 {
			out.staleBit++
		} else {
			out.staleOff++
		}
	}
	return out, nil
}

func vxC08Catch(f func()) (pan interface{}) {
	defer func() { pan = recover() }()
	f()
	return nil
}

func vxC08Bucket(n int) string {
	switch {
	case n == 0:
		return "0"
	case n <= 2:
		return "1-2"
	case n <= 5:
		return "3-5"
	case n <= 10:
		return "6-10"
	}
	return ">10"
}

func vxC08Label(c *vxC08Sched, o *vxC08Out, k *vstats.Case) {
	k.Class(fmt.Sprintf("cap=%d", vxC08Cap(c.Proto)))
	k.Class(fmt.Sprintf("workers=%d", len(c.Progs)))
	if o.excluded != "" {
		k.Excluded(o.excluded)
		k.Class("excluded")
		return
	}
	if o.res == nil {
		return
	}
	k.Class("preemptions=" + vxC08Bucket(o.res.Preemptions))
	k.Class("stale-cas-bits=" + vxC08Bucket(o.staleBit))
	k.Class("stale-cas-offset=" + vxC08Bucket(o.staleOff))
	if o.fails > 0 {
		k.Class("get-failed")
	}
	if o.gets > len(c.Free) {
		k.Class("more-gets-than-free")
	}
	if o.reclears > 0 {
		k.Class("reclear-judged")
	}
	if o.raced > 0 {
		k.Class("two releases of one id overlapped")
	}
	words := map[int]bool{}
	for _, id := range c.Free {
		words[id/64] = true
	}
	k.Class(fmt.Sprintf("free-ids=%d/words=%d", len(c.Free), len(words)))
	if len(o.res.Stale) > 0 {
		k.NonTrivial()
	}
}

func vxC08DrawOps(t *rapid.T, n int, label string) []vxC08Op {
	ops := make([]vxC08Op, n)
	for i := range ops {
		r := rapid.IntRange(0, 19).Draw(t, label+"_k")
		switch {
		case r < 9:
			ops[i].K = "get"
		case r < 15:
			ops[i].K = "clear"
		case r < 18:
			ops[i].K = "reclear"
		default:
			ops[i].K = "avail"
		}
		if ops[i].K == "clear" || ops[i].K == "reclear" {
			ops[i].Sel = rapid.IntRange(0, 3).Draw(t, label+"_sel")
		}
	}
	return ops
}

func vxC08DrawSched(t *rapid.T) *vxC08Sched {
	c := &vxC08Sched{Auto: true}
	c.Proto = rapid.SampledFrom([]int{1, 2, 3, 4, 5}).Draw(t, "proto")
	cp := vxC08Cap(c.Proto)
	nb := cp / 64
	// the words that will have free / worker-owned ids
	var words []int
	switch rapid.IntRange(0, 3).Draw(t, "wordsel") {
	case 0:
		words = []int{0} // the word with the reserved id
	case 1:
		words = []int{nb - 1}
	case 2:
		words = []int{rapid.IntRange(0, nb-1).Draw(t, "word")}
	default:
		w := rapid.IntRange(0, nb-1).Draw(t, "word")
		words = []int{w, (w + rapid.SampledFrom([]int{1, 1, nb - 1, nb / 2}).Draw(t, "gap")) % nb}
	}
	used := map[int]bool{0: true}
	pickID := func(label string) int {
		for try := 0; ; try++ {
			w := words[rapid.IntRange(0, len(words)-1).Draw(t, label+"_w")]
			var pos int
			switch rapid.IntRange(0, 2).Draw(t, label+"_p") {
			case 0:
				pos = rapid.IntRange(0, 3).Draw(t, label+"_lo")
			case 1:
				pos = rapid.IntRange(60, 63).Draw(t, label+"_hi")
			default:
				pos = rapid.IntRange(0, 63).Draw(t, label+"_any")
			}
			id := w*64 + pos
			for used[id] { // construction, not rejection: next unused id
				id = (id + 1) % cp
			}
			used[id] = true
			return id
		}
	}
	nfree := rapid.SampledFrom([]int{0, 1, 1, 2, 2, 3, 3, 4, 5, 6, 8}).Draw(t, "nfree")
	for i := 0; i < nfree; i++ {
		c.Free = append(c.Free, pickID("free"))
	}
	nw := rapid.IntRange(2, 4).Draw(t, "workers")
	for w := 0; w < nw; w++ {
		var h []int
		for i, n := 0, rapid.IntRange(0, 2).Draw(t, "nheld"); i < n; i++ {
			h = append(h, pickID("held"))
		}
		c.Held = append(c.Held, h)
		c.Progs = append(c.Progs, vxC08DrawOps(t, rapid.IntRange(1, 6).Draw(t, "nops"), "op"))
	}
	// start word of the first scheduled GetStream: after the fill and r failing calls the
	// scan starts r words further; aim near the words of interest most of the time
	if rapid.IntRange(0, 3).Draw(t, "rotmode") == 0 {
		c.Rot = rapid.IntRange(0, nb-1).Draw(t, "rot")
	} else {
		// after the fill the next scan starts at word nb-1
		d := rapid.IntRange(0, 3).Draw(t, "dist")
		c.Rot = ((words[0]-d-(nb-1))%nb + 2*nb) % nb
	}
	// the schedule: mostly "continue", a few preemptions (PCT-like)
	npre := rapid.IntRange(0, 12).Draw(t, "npre") + rapid.IntRange(0, 1).Draw(t, "npre1")
	for i := 0; i < npre; i++ {
		gap := rapid.IntRange(0, 8).Draw(t, "gap")
		for j := 0; j < gap; j++ {
			c.Choices = append(c.Choices, 0)
		}
		c.Choices = append(c.Choices, rapid.IntRange(1, 3).Draw(t, "to"))
	}
	return c
}

const vxC08Rule = "both capacities (New(1..5)); complete fill through the API, r failing calls to move the scan start, then 0-4 ids released in 1-2 chosen words " +
	"(word 0 / last / any; first or last bits) and 0-2 ids owned per worker in the same words; 2-4 workers x 1-6 ops (get / clear mine / clear again / Available); " +
	"the order of all atomic steps is decided by the case's choice list. Non-trivial = at least one compare-and-swap issued after its worker was preempted since its load of the same word " +
	"by a worker that changed that word; distinct by the whole case (state, programs, choices)"

func TestVxC08Scheduled(t *testing.T) {
	// one worker runs at a time anyway; a single P makes the token hand-over a goroutine
	// switch instead of a thread wake-up
	defer runtime.GOMAXPROCS(runtime.GOMAXPROCS(1))
	vx.Check(t, vx.Prop{ID: "C08", Part: "TestVxC08Scheduled", Rule: vxC08Rule,
		Draw: func(t *rapid.T) interface{} { return vxC08DrawSched(t) },
		New:  func() interface{} { return &vxC08Sched{} },
		Run: func(ci interface{}, k *vstats.Case) error {
			c := ci.(*vxC08Sched)
			o, err := vxC08RunSched(c)
			if err != nil {
				return err
			}
			vxC08Label(c, o, k)
			return nil
		}})
}

// ---------------------------------------------------------------------------------------
// complete enumeration of a finite family

// The family: capacity 128; two ids free; two workers owning one id each; every pair of
// 2-op programs over {get, clear, avail} where "clear" releases the worker's id or, if it
// holds none, releases again the id it released before; three placements of the free and
// owned ids.  For each member EVERY interleaving of the atomic steps is executed (every
// atomic operation is a decision point, no pruning).
func vxC08Family() []*vxC08Sched {
	type place struct {
		rot  int
		free []int
		held [][]int
	}
	places := []place{
		{0, []int{126, 127}, [][]int{{124}, {125}}}, // the last two ids of the last word, scan starts there
		{1, []int{63, 64}, [][]int{{62}, {65}}},     // last id of word 0 and first of word 1
		{0, []int{1, 127}, [][]int{{2}, {126}}},     // next to the reserved id, and the very last id
	}
	kinds := []string{"get", "clear", "avail"}
	var fam []*vxC08Sched
	for _, p := range places {
		for a := 0; a < 9; a++ {
			for b := 0; b < 9; b++ {
				mk := func(x int) []vxC08Op {
					var ops []vxC08Op
					for _, k := range []string{kinds[x/3], kinds[x%3]} {
						ops = append(ops, vxC08Op{K: k})
					}
					// clear with nothing left to clear = clear again
					n := 1
					for i := range ops {
						if ops[i].K == "clear" {
							if n == 0 {
								ops[i].K = "reclear"
							} else {
								n--
							}
						} else if ops[i].K == "get" {
							n++ // may fail, then a later clear is skipped; fine
						}
					}
					return ops
				}
				fam = append(fam, &vxC08Sched{Proto: 2, Rot: p.rot, Free: p.free, Held: p.held,
					Progs: [][]vxC08Op{mk(a), mk(b)}})
			}
		}
	}
	return fam
}

func vxC08MaxGets(m *vxC08Sched) int {
	gets := 0
	for _, p := range m.Progs {
		g := 0
		for _, o := range p {
			if o.K == "get" {
				g++
			}
		}
		if g > gets {
			gets = g
		}
	}
	return gets
}

func vxC08Weight(m *vxC08Sched) float64 {
	var n [2]int
	for w, p := range m.Progs {
		for _, o := range p {
			switch o.K {
			case "get":
				n[w] += 6
			case "clear":
				n[w] += 3
			default:
				n[w]++
			}
		}
	}
	r := 1.0
	for i := 1; i <= n[0]; i++ {
		r = r * float64(n[1]+i) / float64(i)
	}
	return r
}

func vxC08ProgName(p []vxC08Op) string {
	s := ""
	for _, o := range p {
		s += o.K[:1]
	}
	return s
}

func TestVxC08Exhaustive(t *testing.T) {
	const part = "TestVxC08Exhaustive"
	defer runtime.GOMAXPROCS(runtime.GOMAXPROCS(1))
	col := vstats.New("C08", part, "every schedule (each atomic operation is a decision point, nothing pruned) of every member of a finite family: capacity 128, "+
		"3 placements of 2 free ids and one owned id per worker x all pairs of 2-op programs over {get, clear/clear-again, avail}; "+
		"quick tier enumerates the members with at most one get per worker, thorough all 243. Non-trivial = stale compare-and-swap as in TestVxC08Scheduled; distinct by (member, choices)")
	judge := func(c *vxC08Sched) error {
		k := col.Begin(c)
		o, err := vxC08RunSched(c)
		if err == nil {
			vxC08Label(c, o, k)
		}
		k.End()
		if err != nil {
			col.Violation(k.Enc(), err.Error())
		}
		return err
	}
	if rp := os.Getenv("VX_REPLAY"); rp != "" {
		b, err := ioutil.ReadFile(rp)
		if err != nil {
			t.Fatalf("replay: %v", err)
		}
		var f struct {
			Part string          `json:"part"`
			Case json.RawMessage `json:"case"`
		}
		if err := json.Unmarshal(b, &f); err != nil || f.Part != part {
			t.Skip("replay is for another part")
		}
		c := &vxC08Sched{}
		if err := json.Unmarshal(f.Case, c); err != nil {
			t.Fatalf("replay: %v", err)
		}
		if err := judge(c); err != nil {
			t.Fatalf("VXFAIL C08/%s: %v", part, err)
		}
		return
	}
	fam := vxC08Family()
	// members are dealt round-robin to the processes of this part (checks.json: shards /
	// quick_shards and the matching env entries)
	shard, nshard := 0, 1
	fmt.Sscanf(os.Getenv("VX_SHARD"), "%d", &shard)
	fmt.Sscanf(os.Getenv("VX_C08_NSHARD_"+strings.ToUpper(vx.Tier())), "%d", &nshard)
	if nshard < 1 || shard < 0 || shard >= nshard {
		t.Fatalf("harness: shard %d of %d", shard, nshard)
	}
	// balance by an estimate of the number of interleavings: C(a+b, a) for a and b atomic steps
	var sel []*vxC08Sched
	for _, m := range fam {
		if vx.Tier() == "quick" && vxC08MaxGets(m) > 1 {
			continue
		}
		sel = append(sel, m)
	}
	sort.SliceStable(sel, func(i, j int) bool { return vxC08Weight(sel[i]) > vxC08Weight(sel[j]) })
	load := make([]float64, nshard)
	var my []*vxC08Sched
	for _, m := range sel {
		best := 0
		for i := range load {
			if load[i] < load[best] {
				best = i
			}
		}
		load[best] += vxC08Weight(m)
		if best == shard {
			my = append(my, m)
		}
	}
	members, schedules := 0, 0
	for _, m := range my {
		members++
		var ferr error
		n, done, _ := vsched.Explore(func(ch []int) *vsched.Result {
			c := *m
			c.Choices = append([]int(nil), ch...)
			k := col.Begin(&c)
			o, err := vxC08RunSched(&c)
			if err == nil && o.res == nil {
				err = fmt.Errorf("harness: family member was not executed")
			}
			if err == nil {
				vxC08Label(&c, o, k)
			}
			k.End()
			if err != nil {
				col.Violation(k.Enc(), err.Error())
				ferr = err
				return &vsched.Result{Err: err}
			}
			return o.res
		}, func([]int, *vsched.Result) error { return nil }, 0)
		schedules += n
		col.Count("member:"+vxC08ProgName(m.Progs[0])+"|"+vxC08ProgName(m.Progs[1]), int64(n))
		if ferr != nil {
			t.Fatalf("VXFAIL C08/%s: %v", part, ferr)
		}
		if !done {
			t.Fatalf("harness: enumeration of a family member stopped early")
		}
	}
	col.SetExtra(fmt.Sprintf("shard%d_of_%d", shard, nshard), map[string]int{"family_members": members, "schedules": schedules})
	col.SetExhaustive(true)
}

// ---------------------------------------------------------------------------------------
// sequential histories against a set model

type vxC08Seq struct {
	Proto   int       `json:"proto"`
	Prefill int       `json:"prefill"` // ids acquired before the history starts
	Ops     []vxC08Op `json:"ops"`     // get | clear (held[sel]) | reclear (released[sel]) | clearany (id 1+sel%(cap-1)) | avail
	Drain   bool      `json:"drain"`
}

func vxC08RunSeq(c *vxC08Seq, k *vstats.Case) error {
	cp := vxC08Cap(c.Proto)
	s := New(c.Proto)
	if s.NumStreams != cp {
		return fmt.Errorf("New(%d).NumStreams = %d, want %d", c.Proto, s.NumStreams, cp)
	}
	held := make([]bool, cp)
	nheld := 0
	var order, released []int // order: held ids in acquisition order (with holes removed lazily)
	acquire := func(when string) (bool, error) {
		id, ok := s.GetStream()
		if !ok {
			if nheld != cp-1 {
				return false, fmt.Errorf("%s: GetStream failed with %d of %d ids handed out", when, nheld, cp-1)
			}
			return false, nil
		}
		if id < 1 || id > cp-1 {
			return false, fmt.Errorf("%s: GetStream returned id %d outside [1,%d]", when, id, cp-1)
		}
		if held[id] {
			return false, fmt.Errorf("%s: GetStream returned id %d which is handed out", when, id)
		}
		held[id] = true
		nheld++
		order = append(order, id)
		return true, nil
	}
	avail := func(when string) error {
		if a := s.Available(); a != cp-1-nheld {
			return fmt.Errorf("%s: Available() = %d with %d of %d ids handed out", when, a, nheld, cp-1)
		}
		return nil
	}
	pre := c.Prefill
	if pre < 0 {
		pre = 0
	}
	if pre > cp {
		pre = cp
	}
	for i := 0; i < pre; i++ {
		if _, err := acquire(fmt.Sprintf("prefill %d", i)); err != nil {
			return err
		}
	}
	if err := avail("after prefill"); err != nil {
		return err
	}
	failed, reclears, boundary, outside := 0, 0, false, 0
	for i, op := range c.Ops {
		when := fmt.Sprintf("op %d (%s)", i, op.K)
		sel := op.Sel
		if sel < 0 {
			sel = -sel
		}
		switch op.K {
		case "get":
			if nheld >= cp-2 {
				boundary = true
			}
			ok, err := acquire(when)
			if err != nil {
				return err
			}
			if !ok {
				failed++
			}
		case "clear":
			// compact order
			j := 0
			for _, id := range order {
				if held[id] {
					order[j] = id
					j++
				}
			}
			order = order[:j]
			if len(order) == 0 {
				continue
			}
			// index from the end: recently acquired ids are as likely as old ones with small sel
			var id int
			if sel%2 == 0 {
				id = order[(sel/2)%len(order)]
			} else {
				id = order[len(order)-1-(sel/2)%len(order)]
			}
			if !s.Clear(id) {
				return fmt.Errorf("%s: Clear(%d) = false for an id that is handed out", when, id)
			}
			held[id] = false
			nheld--
			released = append(released, id)
		case "reclear":
			if len(released) == 0 {
				continue
			}
			id := released[len(released)-1-sel%len(released)]
			if held[id] {
				continue // acquired again meanwhile: not a double release
			}
			reclears++
			if s.Clear(id) {
				return fmt.Errorf("%s: Clear(%d) = true for an id that was released already", when, id)
			}
		case "clearany":
			id := 1 + sel%(cp-1)
			if sel%7 == 6 {
				// an id the generator never hands out: below the range or at / beyond its end (the reserved id 0
				// is left alone: /repo's own TestClearStreams clears it) - released, it reports "not in use"
				out := []int{-1, -64, -65, cp, cp + 1, cp + 63, -cp}[(sel/7)%7]
				var got bool
				if pan := vxC08Catch(func() { got = s.Clear(out) }); pan != nil {
					return fmt.Errorf("%s: Clear(%d) panicked: %v (ids are 1..%d)", when, out, pan, cp-1)
				}
				if got {
					return fmt.Errorf("%s: Clear(%d) = true for an id outside 1..%d", when, out, cp-1)
				}
				outside++
				if err := avail("after " + when); err != nil {
					return err
				}
				continue
			}
			want := held[id]
			if got := s.Clear(id); got != want {
				return fmt.Errorf("%s: Clear(%d) = %v, handed out = %v", when, id, got, want)
			}
			if want {
				held[id] = false
				nheld--
				released = append(released, id)
			} else {
				reclears++
			}
		}
		if err := avail("after " + when); err != nil {
			return err
		}
	}
	if c.Drain {
		if err := vxC08Drain(s, cp, held, cp-1-nheld, "after the history"); err != nil {
			return err
		}
		k.Class("drained")
	}
	k.Class(fmt.Sprintf("cap=%d", cp))
	if failed > 0 {
		k.Class("get-failed-when-full")
	}
	if reclears > 0 {
		k.Class("double-release")
	}
	if outside > 0 {
		k.Class("release of an id outside the range")
	}
	if boundary {
		k.Class("near-exhaustion")
	}
	if len(c.Ops) >= 4 && (reclears > 0 || boundary) {
		k.NonTrivial()
	}
	return nil
}

func TestVxC08Sequential(t *testing.T) {
	vx.Check(t, vx.Prop{ID: "C08", Part: "TestVxC08Sequential",
		Rule: "both capacities; prefill level 0 / few / all-but-few / all; up to 60 ops (get, release a held id, release again, release an arbitrary id in range, Available) judged against a set model after every op; " +
			"optionally drained to exhaustion afterwards. Non-trivial = at least 4 ops and (a double release or a get within 2 ids of exhaustion); distinct by the whole history",
		Draw: func(t *rapid.T) interface{} {
			c := &vxC08Seq{Proto: rapid.SampledFrom([]int{1, 2, 3, 4, 5}).Draw(t, "proto")}
			cp := vxC08Cap(c.Proto)
			switch rapid.IntRange(0, 4).Draw(t, "level") {
			case 0:
				c.Prefill = 0
			case 1:
				c.Prefill = rapid.IntRange(0, 130).Draw(t, "few")
			case 2, 3:
				c.Prefill = cp - 1 - rapid.IntRange(0, 5).Draw(t, "left")
			default:
				c.Prefill = rapid.IntRange(0, cp-1).Draw(t, "any")
			}
			n := rapid.IntRange(1, 60).Draw(t, "n")
			for i := 0; i < n; i++ {
				r := rapid.IntRange(0, 19).Draw(t, "k")
				var op vxC08Op
				switch {
				case r < 8:
					op.K = "get"
				case r < 13:
					op.K = "clear"
					op.Sel = rapid.IntRange(0, 9).Draw(t, "sel")
				case r < 16:
					op.K = "reclear"
					op.Sel = rapid.IntRange(0, 5).Draw(t, "sel")
				case r < 18:
					op.K = "clearany"
					if rapid.Bool().Draw(t, "edge") {
						op.Sel = rapid.SampledFrom([]int{0, 1, 62, 63, 64, cp - 3, cp - 2}).Draw(t, "edgeid")
					} else {
						op.Sel = rapid.IntRange(0, cp-2).Draw(t, "anyid")
					}
				default:
					op.K = "avail"
				}
				c.Ops = append(c.Ops, op)
			}
			c.Drain = cp == 128 || rapid.IntRange(0, 3).Draw(t, "drain") == 0
			return c
		},
		New: func() interface{} { return &vxC08Seq{} },
		Run: func(ci interface{}, k *vstats.Case) error { return vxC08RunSeq(ci.(*vxC08Seq), k) },
	})
}

// ---------------------------------------------------------------------------------------
// use all ids, then fail; release a set, get exactly that set back

type vxC08SweepCase struct {
	Proto   int   `json:"proto"`
	Churn   int   `json:"churn"`   // get+clear pairs before the sweep (moves the scan start)
	Fails   int   `json:"fails"`   // GetStream calls on the full allocator
	Release []int `json:"release"` // ids released afterwards (taken modulo the range, duplicates dropped)
}

func TestVxC08Sweep(t *testing.T) {
	vx.Check(t, vx.Prop{ID: "C08", Part: "TestVxC08Sweep",
		Rule: "both capacities; c get+release pairs, then cap-1 gets must return every id of 1..cap-1 once, the next f gets must fail, a drawn set R of ids is released and |R| gets must return exactly R, then fail again. " +
			"Non-trivial = R non-empty; distinct by (capacity, c, f, R)",
		Draw: func(t *rapid.T) interface{} {
			c := &vxC08SweepCase{Proto: rapid.SampledFrom([]int{1, 2, 3, 4, 5}).Draw(t, "proto")}
			cp := vxC08Cap(c.Proto)
			c.Churn = rapid.IntRange(0, cp/64+2).Draw(t, "churn")
			c.Fails = rapid.IntRange(1, 3).Draw(t, "fails")
			n := rapid.IntRange(0, 12).Draw(t, "nrel")
			base := rapid.IntRange(1, cp-1).Draw(t, "base")
			for i := 0; i < n; i++ {
				if rapid.Bool().Draw(t, "near") {
					c.Release = append(c.Release, 1+(base-1+rapid.IntRange(-2, 66).Draw(t, "d")+cp-1)%(cp-1))
				} else {
					c.Release = append(c.Release, rapid.SampledFrom([]int{1, 63, 64, cp - 65, cp - 64, cp - 2, cp - 1}).Draw(t, "edge"))
				}
			}
			return c
		},
		New: func() interface{} { return &vxC08SweepCase{} },
		Run: func(ci interface{}, k *vstats.Case) error {
			c := ci.(*vxC08SweepCase)
			cp := vxC08Cap(c.Proto)
			s := New(c.Proto)
			for i := 0; i < c.Churn; i++ {
				id, ok := s.GetStream()
				if !ok || id < 1 || id > cp-1 {
					return fmt.Errorf("churn %d: GetStream() = (%d,%v) on an empty allocator", i, id, ok)
				}
				if !s.Clear(id) {
					return fmt.Errorf("churn %d: Clear(%d) = false", i, id)
				}
			}
			if err := vxC08Drain(s, cp, make([]bool, cp), cp-1, "sweep"); err != nil {
				return err
			}
			for i := 0; i < c.Fails; i++ {
				if id, ok := s.GetStream(); ok {
					return fmt.Errorf("GetStream() = (%d,true) with every id handed out", id)
				}
			}
			held := make([]bool, cp)
			nheld := cp - 1
			for id := 1; id < cp; id++ {
				held[id] = true
			}
			for _, r := range c.Release {
				id := 1 + ((r-1)%(cp-1)+(cp-1))%(cp-1)
				want := held[id]
				if got := s.Clear(id); got != want {
					return fmt.Errorf("Clear(%d) = %v, handed out = %v", id, got, want)
				}
				if want {
					held[id] = false
					nheld--
				}
				if a := s.Available(); a != cp-1-nheld {
					return fmt.Errorf("Available() = %d with %d of %d ids handed out", a, nheld, cp-1)
				}
			}
			if err := vxC08Drain(s, cp, held, cp-1-nheld, "after release"); err != nil {
				return err
			}
			k.Class(fmt.Sprintf("cap=%d", cp))
			k.Class("released=" + vxC08Bucket(cp-1-nheld))
			if nheld < cp-1 {
				k.NonTrivial()
			}
			return nil
		}})
}

// ---------------------------------------------------------------------------------------
// real parallelism (no scheduler, Hook == nil): the schedule is whatever the runtime does,
// so this part is not a pure function of the case; it exists for the race detector and
// for interleavings at machine speed.

type vxC08Par struct {
	Proto    int         `json:"proto"`
	Free     int         `json:"free"`      // ids free when the goroutines start
	GetsOnly bool        `json:"gets_only"` // phase without releases: failures are judgeable
	Progs    [][]vxC08Op `json:"progs"`     // get | clear | avail
	Rep      int         `json:"rep"`       // each program is repeated
}

func vxC08RunPar(c *vxC08Par, k *vstats.Case) error {
	cp := vxC08Cap(c.Proto)
	s := New(c.Proto)
	free := c.Free
	if free < 0 {
		free = 0
	}
	if free > cp-1 {
		free = cp - 1
	}
	env := make([]bool, cp)
	for i := 0; i < cp-1-free; i++ {
		id, ok := s.GetStream()
		if !ok || id < 1 || id > cp-1 || env[id] {
			return fmt.Errorf("prefill %d: GetStream() = (%d,%v)", i, id, ok)
		}
		env[id] = true
	}
	owner := make([]int32, cp)
	for id, e := range env {
		if e {
			owner[id] = -1
		}
	}
	nw := len(c.Progs)
	errs := make([]error, nw)
	heldBy := make([][]int, nw)
	var okGets, failGets int64
	start := make(chan struct{})
	var wg sync.WaitGroup
	for w := 0; w < nw; w++ {
		wg.Add(1)
		go func(w int) {
			defer wg.Done()
			defer func() {
				if r := recover(); r != nil && errs[w] == nil {
					errs[w] = fmt.Errorf("worker %d panicked: %v", w, r)
				}
			}()
			var mine []int
			<-start
			for rep := 0; rep < c.Rep && errs[w] == nil; rep++ {
				for i, op := range c.Progs[w] {
					switch {
					case op.K == "get":
						id, ok := s.GetStream()
						if !ok {
							realatomic.AddInt64(&failGets, 1)
							continue
						}
						realatomic.AddInt64(&okGets, 1)
						if id < 1 || id > cp-1 {
							errs[w] = fmt.Errorf("worker %d op %d: GetStream returned id %d outside [1,%d]", w, i, id, cp-1)
							return
						}
						if !realatomic.CompareAndSwapInt32(&owner[id], 0, int32(w+1)) {
							errs[w] = fmt.Errorf("worker %d op %d: GetStream returned id %d which is held by %d (-1 = since the prefill)", w, i, id, realatomic.LoadInt32(&owner[id])-1)
							return
						}
						mine = append(mine, id)
					case op.K == "clear" && !c.GetsOnly:
						if len(mine) == 0 {
							continue
						}
						sel := op.Sel
						if sel < 0 {
							sel = -sel
						}
						j := sel % len(mine)
						id := mine[j]
						mine = append(mine[:j], mine[j+1:]...)
						realatomic.StoreInt32(&owner[id], 0) // no longer mine from the invocation on
						if !s.Clear(id) {
							errs[w] = fmt.Errorf("worker %d op %d: Clear(%d) = false for an id the caller holds", w, i, id)
							return
						}
					case op.K == "avail":
						a := s.Available()
						if a < 0 && a >= -(nw-1) && !c.GetsOnly {
							// see C08-available-negative in vxC08RunSched: one lagging decrement per other goroutine at most
							errs[w] = vx.Known("C08-available-negative", "worker %d op %d: Available() = %d is negative while other goroutines release and acquire (capacity %d)", w, i, a, cp)
							return
						}
						if a < 0 || a > cp-1 {
							errs[w] = fmt.Errorf("worker %d op %d: Available() = %d outside [0,%d]", w, i, a, cp-1)
							return
						}
					}
				}
			}
			heldBy[w] = mine
		}(w)
	}
	close(start)
	fin := make(chan struct{})
	go func() { wg.Wait(); close(fin) }()
	select {
	case <-fin:
	case <-time.After(120 * time.Second):
		// the calls are non-blocking by contract (GetStream reports exhaustion instead of
		// waiting); the whole case normally takes milliseconds
		return fmt.Errorf("GetStream/Clear/Available calls of %d goroutines did not return within 120 s", nw)
	}
	for _, e := range errs {
		if e != nil {
			return e
		}
	}
	held := env
	nheld := cp - 1 - free
	for _, m := range heldBy {
		for _, id := range m {
			if held[id] {
				return fmt.Errorf("id %d is held twice at quiescence", id)
			}
			held[id] = true
			nheld++
		}
	}
	if a := s.Available(); a != cp-1-nheld {
		return fmt.Errorf("at quiescence Available() = %d with %d of %d ids handed out", a, nheld, cp-1)
	}
	if c.GetsOnly && failGets > 0 && nheld != cp-1 {
		// no id was released during the phase, so an id free now was free during every call
		return fmt.Errorf("%d GetStream calls reported exhaustion in a phase without releases, yet %d ids are still free", failGets, cp-1-nheld)
	}
	if err := vxC08Drain(s, cp, held, cp-1-nheld, "after the goroutines"); err != nil {
		return err
	}
	k.Class(fmt.Sprintf("cap=%d", cp))
	k.Class(fmt.Sprintf("goroutines=%d", nw))
	if c.GetsOnly {
		k.Class("gets-only")
	}
	if failGets > 0 {
		k.Class("get-failed")
	}
	if okGets > int64(free) || failGets > 0 {
		k.Class("exhaustion-reached")
		k.NonTrivial()
	}
	return nil
}

func TestVxC08Parallel(t *testing.T) {
	vx.Check(t, vx.Prop{ID: "C08", Part: "TestVxC08Parallel",
		Rule: "un-scheduled: 2-8 goroutines x (1-8 ops repeated 1-200 times) over get / release mine / Available, 0..3*goroutines ids free at the start (or many), optional phase without releases; " +
			"uniqueness through an ownership table updated with the test's own atomics. Non-trivial = more successful gets than ids initially free, or a failed get (ids were reused or exhaustion was met); distinct by the whole case; " +
			"the executed interleaving is the runtime's, not part of the case",
		Draw: func(t *rapid.T) interface{} {
			c := &vxC08Par{Proto: rapid.SampledFrom([]int{1, 2, 3, 4, 5}).Draw(t, "proto")}
			nw := rapid.IntRange(2, 8).Draw(t, "g")
			c.GetsOnly = rapid.IntRange(0, 3).Draw(t, "getsonly") == 0
			c.Rep = rapid.SampledFrom([]int{1, 5, 20, 50, 200}).Draw(t, "rep")
			if rapid.IntRange(0, 5).Draw(t, "roomy") == 0 {
				c.Free = rapid.IntRange(0, vxC08Cap(c.Proto)-1).Draw(t, "freeany")
			} else {
				c.Free = rapid.IntRange(0, 3*nw).Draw(t, "free")
			}
			for w := 0; w < nw; w++ {
				n := rapid.IntRange(1, 8).Draw(t, "nops")
				var p []vxC08Op
				for i := 0; i < n; i++ {
					r := rapid.IntRange(0, 9).Draw(t, "k")
					switch {
					case r < 5 || c.GetsOnly && r < 9:
						p = append(p, vxC08Op{K: "get"})
					case r < 9:
						p = append(p, vxC08Op{K: "clear", Sel: rapid.IntRange(0, 3).Draw(t, "sel")})
					default:
						p = append(p, vxC08Op{K: "avail"})
					}
				}
				c.Progs = append(c.Progs, p)
			}
			return c
		},
		New: func() interface{} { return &vxC08Par{} },
		Run: func(ci interface{}, k *vstats.Case) error { return vxC08RunPar(ci.(*vxC08Par), k) },
	})
}

// ---------------------------------------------------------------------------------------
// C06 ("streams are never leaked") at the allocator: the same owned schedules, judged for C06.
// A released id must become available again and an id in use must never be handed to a second
// request, whatever the interleaving of GetStream / Clear on one bitmap word.

func TestVxC06Streams(t *testing.T) {
	defer runtime.GOMAXPROCS(runtime.GOMAXPROCS(1))
	vx.Check(t, vx.Prop{ID: "C06", Part: "TestVxC06Streams", Rule: "stream allocator under owned schedules - " + vxC08Rule,
		Draw: func(t *rapid.T) interface{} { return vxC08DrawSched(t) },
		New:  func() interface{} { return &vxC08Sched{} },
		Run: func(ci interface{}, k *vstats.Case) error {
			c := ci.(*vxC08Sched)
			o, err := vxC08RunSched(c)
			if err != nil {
				return err
			}
			vxC08Label(c, o, k)
			return nil
		}})
}
