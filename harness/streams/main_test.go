//go:build verif && go1.21

package streams

import (
	"testing"

	"verif.local/vx"
)

func TestMain(m *testing.M) { vx.Main(m) }
