//go:build verif && go1.21

// C06 - every request ends exactly once; closing never hangs; streams are never leaked.
// A pre-drawn history of steps runs against a real Session with one pool connection to a scripted
// node: submit callers, answer some, cancel some, cut the connection at a frame boundary / inside a
// response header / inside a response body, fail or stall the driver's writes, close the client-side
// connection, close the session. White-box only to find the pool's *Conn (Session.pool.hostConnPools,
// hostConnPool.conns, Conn.conn) for AvailableStreams() and Close().
package gocql

import (
	"context"
	"errors"
	"fmt"
	"runtime"
	"strings"
	"sync"
	"testing"
	"time"

	"pgregory.net/rapid"
	"verif.local/cqlspec"
	"verif.local/vnode"
	"verif.local/vstats"
	"verif.local/vx"
)

type vxC06Step struct {
	Op    string `json:"op"`              // submit answer cancel nodecut connclose check
	N     int    `json:"n,omitempty"`     // submit: callers; answer/cancel: how many
	Key   int    `json:"key,omitempty"`   // selects which outstanding callers (rotation)
	Mode  int    `json:"mode,omitempty"`  // nodecut: 0 between frames, 1 inside a header, 2 inside a body; answer: 1 = ERROR frames, 2 = rows in a frame stamped with another protocol version, 3 = rows in a frame whose body cannot be decoded; submit: 1 = with a custom payload (a frame-build failure below protocol 4)
}

type vxC06Case struct {
	Proto      int             `json:"proto"`
	TimeoutMs  int             `json:"timeout_ms,omitempty"` // >0: the driver's own request timer (unanswered callers time out)
	TOLimit    int             `json:"timeout_limit,omitempty"` // >0: the (deprecated, global) TimeoutLimit: the connection is closed after that many timeouts
	Coalesce   bool            `json:"coalesce"`
	Writes     []vnode.WriteRule `json:"writes,omitempty"` // fault plan of the (first) pool connection
	WriteTO    int             `json:"write_timeout_ms,omitempty"`
	Steps      []vxC06Step     `json:"steps"`
	CloseTwice bool            `json:"close_twice"`
}

func vxDrawC06(t *rapid.T) *vxC06Case {
	c := &vxC06Case{Proto: rapid.IntRange(1, 5).Draw(t, "proto"), Coalesce: rapid.Bool().Draw(t, "coalesce"), CloseTwice: rapid.Bool().Draw(t, "twice")}
	if rapid.IntRange(0, 4).Draw(t, "timer") == 0 {
		c.TimeoutMs = 150
		if rapid.Bool().Draw(t, "tolimit") {
			c.TOLimit = rapid.IntRange(1, 3).Draw(t, "limit")
		}
	}
	if rapid.IntRange(0, 2).Draw(t, "wfault") == 0 {
		n := rapid.IntRange(1, 2).Draw(t, "nrules")
		for i := 0; i < n; i++ {
			// the first 2-4 writes of a pool connection are its handshake (OPTIONS, STARTUP); later ones carry requests
			r := vnode.WriteRule{Nth: rapid.IntRange(0, 12).Draw(t, "nth"), Accept: rapid.SampledFrom([]int{-1, 0, 1, 5, 9, 20}).Draw(t, "accept"),
				Err: rapid.SampledFrom([]string{"reset", "reset", "timeout", "stall"}).Draw(t, "werr"), Close: rapid.Bool().Draw(t, "wclose")}
			c.Writes = append(c.Writes, r)
		}
		c.WriteTO = rapid.SampledFrom([]int{30, 80, 200}).Draw(t, "wto")
	}
	ns := rapid.IntRange(2, 14).Draw(t, "steps")
	for i := 0; i < ns; i++ {
		st := vxC06Step{Op: rapid.SampledFrom([]string{"submit", "submit", "submit", "submit", "answer", "answer", "answer", "answer", "cancel", "cancel", "nodecut", "connclose", "check", "check", "wait"}).Draw(t, "op"),
			Key: rapid.IntRange(0, 100).Draw(t, "key")}
		switch st.Op {
		case "submit":
			st.N = rapid.IntRange(1, 8).Draw(t, "n")
			if rapid.IntRange(0, 5).Draw(t, "payload") == 0 {
				st.Mode = 1
			}
			if rapid.IntRange(0, 40).Draw(t, "many") == 0 {
				st.N = rapid.IntRange(120, 135).Draw(t, "nmany")
			}
		case "answer":
			st.N = rapid.IntRange(1, 10).Draw(t, "n")
			st.Mode = []int{0, 0, 0, 1, 2, 3}[rapid.IntRange(0, 5).Draw(t, "amode")]
		case "cancel":
			st.N = rapid.IntRange(1, 4).Draw(t, "n")
		case "nodecut":
			st.Mode = rapid.IntRange(0, 2).Draw(t, "cutmode")
		}
		c.Steps = append(c.Steps, st)
	}
	return c
}

type vxC06Caller struct {
	tok      string
	cancel   context.CancelFunc
	done     chan struct{}
	got      string
	err      error
	returns  int32
	answered bool // an answer (row or error frame) was sent for it
	asErr    bool
	wrongVer bool // its answer was stamped with another protocol version
	undecod  bool // its answer had a body that cannot be decoded (compression flag, nothing negotiated)
	canceled bool
	doomed   bool // its connection was cut/closed, or the session was closed, while it was outstanding
	buildFails bool // its frame cannot be built (custom payload below protocol 4): must end with an error, nothing sent
}

// vxPoolConns lists the open pool connections of the session (white-box).
func vxPoolConns(s *Session) []*Conn {
	var out []*Conn
	s.pool.mu.RLock()
	pools := make([]*hostConnPool, 0, len(s.pool.hostConnPools))
	for _, p := range s.pool.hostConnPools {
		pools = append(pools, p)
	}
	s.pool.mu.RUnlock()
	for _, p := range pools {
		p.mu.RLock()
		out = append(out, p.conns...)
		p.mu.RUnlock()
	}
	return out
}

func vxGoroutineDump() string {
	buf := make([]byte, 4<<20)
	n := runtime.Stack(buf, true)
	idle := []string{"(*Conn).heartBeat(", "(*controlConn).heartBeat(", "(*eventDebouncer).flusher(", "(*refreshDebouncer).flusher(", "(*writeCoalescer).writeFlusherImpl("}
	var keep, rest []string
	for _, g := range strings.Split(string(buf[:n]), "\n\n") {
		if !strings.Contains(g, "gocql.(*") || strings.Contains(g, "vxGoroutineDump") {
			continue
		}
		lines := strings.Split(g, "\n")
		if len(lines) > 13 {
			lines = lines[:13]
		}
		txt := strings.Join(lines, "\n")
		isIdle := false
		if len(lines) > 1 {
			for _, m := range idle {
				if strings.Contains(lines[1], m) {
					isIdle = true
				}
			}
		}
		if isIdle {
			rest = append(rest, txt)
		} else {
			keep = append(keep, txt)
		}
	}
	if len(keep) > 10 {
		keep = keep[:10]
	}
	return fmt.Sprintf("%s\n-- (%d more goroutines idle in heartbeat/flusher loops)", strings.Join(keep, "\n--\n"), len(rest))
}

func vxRunC06(c *vxC06Case, k *vstats.Case) error {
	if c.Proto < 1 || c.Proto > 5 {
		return nil
	}
	TimeoutLimit = int64(c.TOLimit) // package-level knob of the driver; cases run one at a time
	defer func() { TimeoutLimit = 0 }()
	cl := vnode.NewCluster(vxSpecs(1, 1))
	node := cl.Nodes()[0]
	mon := &vxC01Monitor{outstanding: map[int]map[int]string{}, held: map[string]*vxC01Held{}, arrived: make(chan string, 8192), maxStream: 127}
	if c.Proto >= 3 {
		mon.maxStream = 32767
	}
	node.Handler = mon.onRequest
	cl.PlanFor = func(addr string, nth int) vnode.Plan {
		if nth == 1 { // dial 0 is the control connection, dial 1 the first pool connection
			return vnode.Plan{Writes: c.Writes}
		}
		return vnode.Plan{}
	}
	s, err := vxClusterConfig(cl, c.Proto, func(cfg *ClusterConfig) {
		cfg.Timeout = 30 * time.Second
		if c.TimeoutMs > 0 {
			cfg.Timeout = time.Duration(c.TimeoutMs) * time.Millisecond
		}
		cfg.WriteTimeout = 2 * time.Second // a stalled write ends at its deadline: keep it far below the 12 s watchdogs
		if c.WriteTO > 0 {
			cfg.WriteTimeout = time.Duration(c.WriteTO) * time.Millisecond
		}
		if !c.Coalesce {
			cfg.WriteCoalesceWaitTime = 0
		}
	}).CreateSession()
	if err != nil {
		// a write fault during the pool connection's handshake may legitimately make session creation fail
		if len(c.Writes) > 0 {
			k.Class("create-session-failed-under-write-fault")
			return nil
		}
		return fmt.Errorf("harness: CreateSession: %v", err)
	}
	closed := false
	closeSession := func() error {
		if closed {
			return nil
		}
		closed = true
		done := make(chan struct{})
		go func() { s.Close(); close(done) }()
		select {
		case <-done:
			return nil
		case <-time.After(15 * time.Second):
			return fmt.Errorf("Session.Close did not return within 15 s:\n%s", vxGoroutineDump())
		}
	}
	defer closeSession()

	var mu sync.Mutex
	var callers []*vxC06Caller
	seq := 0
	faults, cuts := 0, 0
	outstanding := func() []*vxC06Caller {
		var out []*vxC06Caller
		for _, cr := range callers {
			select {
			case <-cr.done:
			default:
				out = append(out, cr)
			}
		}
		return out
	}
	// drain arrivals without blocking
	drain := func(d time.Duration) {
		t := time.After(d)
		for {
			select {
			case <-mon.arrived:
			case <-t:
				return
			}
		}
	}
	waitReturned := func(who []*vxC06Caller, why string) error {
		deadline := time.After(12 * time.Second)
		for _, cr := range who {
			select {
			case <-cr.done:
			case <-deadline:
				return fmt.Errorf("caller of %s did not return within 12 s after %s:\n%s", cr.tok, why, vxGoroutineDump())
			}
		}
		return nil
	}
	// waitDecided: after a connection was cut, every outstanding caller returns - except one whose request
	// was submitted so late that it travelled on the replacement connection and is held there by the node
	// (submit steps start their callers asynchronously).
	waitDecided := func(who []*vxC06Caller, why string) error {
		deadline := time.Now().Add(12 * time.Second)
		for _, cr := range who {
			for {
				select {
				case <-cr.done:
				default:
					if mon.isHeld(cr.tok) {
						break
					}
					if time.Now().After(deadline) {
						return fmt.Errorf("caller of %s did not return within 12 s after %s:\n%s", cr.tok, why, vxGoroutineDump())
					}
					time.Sleep(500 * time.Microsecond)
					mon.dropClosed()
					continue
				}
				break
			}
		}
		return nil
	}
	markDoomed := func() {
		for _, cr := range outstanding() {
			cr.doomed = true
		}
	}

	for si, st := range c.Steps {
		switch st.Op {
		case "submit":
			for i := 0; i < st.N; i++ {
				seq++
				ctx, cancel := context.WithCancel(context.Background())
				cr := &vxC06Caller{tok: fmt.Sprintf("tok_%d", seq), cancel: cancel, done: make(chan struct{})}
				callers = append(callers, cr)
				withPayload := st.Mode == 1
				cr.buildFails = withPayload && c.Proto < 4
				go func() {
					q := s.Query("LIST " + cr.tok).WithContext(ctx)
					if withPayload {
						q = q.CustomPayload(map[string][]byte{"k": {1}})
					}
					iter := q.Iter()
					var got string
					iter.Scan(&got)
					err := iter.Close()
					mu.Lock()
					cr.got, cr.err = got, err
					cr.returns++
					mu.Unlock()
					close(cr.done)
				}()
			}
			drain(3 * time.Millisecond)
		case "answer":
			drain(2 * time.Millisecond)
			mon.mu.Lock()
			var toks []string
			for tok := range mon.held {
				toks = append(toks, tok)
			}
			mon.mu.Unlock()
			if len(toks) == 0 {
				continue
			}
			for i := 1; i < len(toks); i++ {
				for j := i; j > 0 && toks[j] < toks[j-1]; j-- {
					toks[j], toks[j-1] = toks[j-1], toks[j]
				}
			}
			var who []*vxC06Caller
			for i := 0; i < st.N && i < len(toks); i++ {
				tok := toks[(st.Key+i*7)%len(toks)]
				for _, cr := range callers {
					if cr.tok == tok && !cr.answered {
						cr.answered, cr.asErr, cr.wrongVer, cr.undecod = true, st.Mode == 1, st.Mode == 2, st.Mode == 3
						if mon.answerMode(tok, st.Mode) {
							who = append(who, cr)
						}
					}
				}
			}
			if err := waitReturned(who, fmt.Sprintf("step %d sent their answers", si)); err != nil {
				return err
			}
		case "cancel":
			out := outstanding()
			var who []*vxC06Caller
			for i := 0; i < st.N && i < len(out); i++ {
				cr := out[(st.Key+i*5)%len(out)]
				cr.canceled = true
				cr.cancel()
				who = append(who, cr)
			}
			if err := waitReturned(who, fmt.Sprintf("step %d cancelled their contexts", si)); err != nil {
				return err
			}
		case "nodecut":
			cuts++
			drain(2 * time.Millisecond)
			markDoomed()
			for _, sc := range node.Conns() {
				if sc.ID == 1 || sc.C.Closed() { // keep the control connection
					continue
				}
				full, _ := (&cqlspec.Response{Version: c.Proto, Stream: 1, Kind: "ROWS", Meta: &cqlspec.Metadata{Columns: []cqlspec.Column{{Keyspace: "k", Table: "t", Name: "tok", Type: cqlspec.Scalar(cqlspec.Varchar)}}},
					Rows: [][]cqlspec.Value{{cqlspec.BytesValue([]byte("partial-frame-nobody-asked-for"))}}}).Frame(nil)
				switch st.Mode {
				case 1:
					sc.SendRaw(full[:3])
				case 2:
					sc.SendRaw(full[:cqlspec.HeaderSize(c.Proto)+5])
				}
				sc.Close()
			}
			mon.dropClosed()
			if err := waitDecided(outstanding(), fmt.Sprintf("step %d cut their connection (mode %d)", si, st.Mode)); err != nil {
				return err
			}
		case "connclose":
			cuts++
			drain(2 * time.Millisecond)
			markDoomed()
			for _, pc := range vxPoolConns(s) {
				done := make(chan struct{})
				go func() { pc.Close(); close(done) }()
				select {
				case <-done:
				case <-time.After(12 * time.Second):
					return fmt.Errorf("step %d: Conn.Close did not return within 12 s:\n%s", si, vxGoroutineDump())
				}
			}
			mon.dropClosed()
			if err := waitDecided(outstanding(), fmt.Sprintf("step %d closed their connection", si)); err != nil {
				return err
			}
		case "wait":
			if c.TimeoutMs > 0 {
				// let the driver's timer abandon whatever is unanswered
				if err := waitReturned(outstanding(), fmt.Sprintf("step %d waited for the %d ms request timeout", si, c.TimeoutMs)); err != nil {
					return err
				}
			}
		case "check":
			// quiescent point: nobody in flight => available streams = all minus those the node still owes an answer
			if len(outstanding()) > 0 {
				continue
			}
			if err := vxCheckStreams(s, node, mon, c.Proto, si); err != nil {
				return err
			}
		}
		mon.mu.Lock()
		v := append([]string{}, mon.violations...)
		mon.mu.Unlock()
		if len(v) > 0 {
			return fmt.Errorf("step %d: wire monitor: %s", si, v[0])
		}
		for _, sc := range node.Conns() {
			for _, w := range sc.Client.Writes() {
				if w.Err != "" {
					faults++
				}
			}
		}
	}
	// final: everything still outstanding is decided by closing the session
	rest := outstanding()
	for _, cr := range rest {
		cr.doomed = true
	}
	if err := closeSession(); err != nil {
		return err
	}
	if c.CloseTwice {
		done := make(chan struct{})
		go func() { s.Close(); close(done) }()
		select {
		case <-done:
		case <-time.After(10 * time.Second):
			return fmt.Errorf("second Session.Close did not return within 10 s")
		}
	}
	if err := waitReturned(rest, "Session.Close"); err != nil {
		return err
	}
	// a query after Close fails at once
	t0 := time.Now()
	if err := s.Query("LIST after_close").Exec(); err == nil || time.Since(t0) > 5*time.Second {
		return fmt.Errorf("query after Session.Close: err=%v after %v", err, time.Since(t0))
	}
	// judge outcomes
	multi := 0
	for _, cr := range callers {
		mu.Lock()
		got, err, returns := cr.got, cr.err, cr.returns
		mu.Unlock()
		if returns != 1 {
			return fmt.Errorf("caller of %s returned %d times", cr.tok, returns)
		}
		if got != "" && got != cr.tok {
			return fmt.Errorf("caller of %s received the row of %s", cr.tok, got)
		}
		if cr.buildFails && err == nil {
			return fmt.Errorf("caller of %s asked for a custom payload on protocol %d and got success", cr.tok, c.Proto)
		}
		switch {
		case cr.buildFails:
			k.Class("outcome=frame-build-refused")
		case cr.wrongVer && err != nil && !errors.Is(err, context.Canceled):
			// a response of another protocol version: refusing it is the code's convention (accepting the
			// row would be as good); what is judged is one return and the stream (check steps)
			k.Class("outcome=wrong-version-answer-refused")
		case cr.undecod && err != nil && !errors.Is(err, context.Canceled):
			// the answer could not be decoded: the caller is told so (its own error, or its connection's if the
			// driver gives the connection up); what is judged is one return and the stream (check steps)
			k.Class("outcome=undecodable-answer-refused")
		case cr.undecod && err == nil:
			return fmt.Errorf("caller of %s was answered with a frame whose body cannot be decoded and got success (row %q)", cr.tok, got)
		case err == nil:
			if cr.wrongVer {
				k.Class("outcome=wrong-version-answer-accepted")
			}
			if got != cr.tok || !cr.answered || cr.asErr {
				return fmt.Errorf("caller of %s returned success (row %q) but answered=%v asErr=%v", cr.tok, got, cr.answered, cr.asErr)
			}
			k.Class("outcome=own-row")
		case strings.Contains(err.Error(), "err for "):
			if !strings.Contains(err.Error(), "err for "+cr.tok) || !cr.answered || !cr.asErr {
				return fmt.Errorf("caller of %s got error frame %v (answered=%v asErr=%v)", cr.tok, err, cr.answered, cr.asErr)
			}
			k.Class("outcome=own-error-frame")
		case errors.Is(err, context.Canceled):
			if !cr.canceled {
				return fmt.Errorf("caller of %s got context.Canceled but was never cancelled", cr.tok)
			}
			k.Class("outcome=ctx")
		default:
			// connection-level outcome: legal only if something happened to its connection / the session,
			// a write fault was planned, or no stream / connection was available
			legal := cr.doomed || len(c.Writes) > 0 || errors.Is(err, ErrNoStreams) || errors.Is(err, ErrNoConnections) || cuts > 0 ||
				(c.TimeoutMs > 0 && errors.Is(err, ErrTimeoutNoResponse)) || c.TOLimit > 0
			if !legal {
				return fmt.Errorf("caller of %s got %v although nothing happened to its connection", cr.tok, err)
			}
			k.Class("outcome=" + vxErrClass(err))
		}
	}
	if st := len(callers); st >= 2 && (cuts > 0 || faults > 0 || len(c.Writes) > 0) {
		multi = 1
	}
	cancels := 0
	for _, cr := range callers {
		if cr.canceled {
			cancels++
		}
	}
	if len(callers) >= 2 && (multi == 1 || cancels > 0) {
		k.NonTrivial()
	}
	k.Class(fmt.Sprintf("v%d", c.Proto))
	return nil
}

// vxCheckStreams: with nobody in flight, every open pool connection has all its stream ids available
// except those of requests the node received and has not answered.
func vxCheckStreams(s *Session, node *vnode.Node, mon *vxC01Monitor, proto int, step int) error {
	total := 128
	if proto >= 3 {
		total = 32768
	}
	deadline := time.Now().Add(3 * time.Second)
	var last string
	for {
		ok := true
		for _, pc := range vxPoolConns(s) {
			if pc.Closed() {
				continue
			}
			mc, isMem := pc.conn.(*vnode.Conn)
			if !isMem {
				continue
			}
			owed := -1
			for _, sc := range node.Conns() {
				if sc.Client == mc {
					mon.mu.Lock()
					owed = len(mon.outstanding[sc.ID])
					mon.mu.Unlock()
				}
			}
			if owed < 0 {
				continue
			}
			av := pc.AvailableStreams()
			if av != total-1-owed {
				ok = false
				last = fmt.Sprintf("connection has %d streams available, expected %d (= %d - 1 reserved - %d unanswered at the node)", av, total-1-owed, total, owed)
			}
			if av < 0 || av > total-1 {
				return fmt.Errorf("step %d: AvailableStreams() = %d outside 0..%d", step, av, total-1)
			}
		}
		if ok {
			return nil
		}
		if time.Now().After(deadline) {
			return fmt.Errorf("step %d: with no request in flight for 3 s: %s", step, last)
		}
		time.Sleep(5 * time.Millisecond)
	}
}

func TestVxC06Lifecycle(t *testing.T) {
	vx.Check(t, vx.Prop{
		ID: "C06", Part: "TestVxC06Lifecycle",
		Rule: "protocol 1..5, one pool connection (coalescing on/off), optional write-fault plan (k-th write reset / partial / timeout / stalled until the write deadline), 2..14 steps of: submit 1..8 (sometimes 120..135) callers, answer some outstanding (rows or ERROR frames), cancel some, node cuts the connection between frames / inside a response header / inside a response body, client-side Conn.Close, quiescent stream check; finally Session.Close (once or twice) and a query after it; oracle: every caller returns exactly once with an outcome legal for its history within 12 s of the deciding event, Close returns, available streams = all - unanswered at every quiescent point; non-trivial = >= 2 callers together with a cancel, a cut/close or a write fault; distinct by the whole history",
		Draw: func(t *rapid.T) interface{} { return vxDrawC06(t) },
		New:  func() interface{} { return &vxC06Case{} },
		Run: func(ci interface{}, k *vstats.Case) error {
			return vxRunC06(ci.(*vxC06Case), k)
		},
	})
}
