//go:build verif && go1.21

// C02 - Marshal then Unmarshal gives back the value (no silent loss of precision).
// C12 - Encoded values are the CQL specification's encoding, byte for byte.
// Public API only (Marshal, Unmarshal, TypeInfo implementations); value layer in vxvalues_test.go.
package gocql

import (
	"math"
	"math/big"
	"time"
	"bytes"
	"fmt"
	"reflect"
	"testing"

	"pgregory.net/rapid"
	"verif.local/cqlspec"
	"verif.local/vstats"
	"verif.local/vx"
)

type vxValCase struct {
	Proto   int            `json:"proto"`
	Type    *cqlspec.Type  `json:"type"`
	Value   cqlspec.Value  `json:"value"`
	Choices []int          `json:"choices"`
	Dirty   *cqlspec.Value `json:"dirty,omitempty"` // another value of the same type, decoded into every destination first (a destination that was used before)
	TZ      int            `json:"tz,omitempty"`    // the process's local time zone during the case, minutes east of UTC (values must not depend on it)
}

// vxSetLocal sets time.Local for the duration of a case (every part runs its cases one at a time).
func vxSetLocal(minutes int) func() {
	if minutes == 0 {
		return func() {}
	}
	old := time.Local
	time.Local = time.FixedZone("vx", minutes*60)
	return func() { time.Local = old }
}

func vxDrawValCase(t *rapid.T) *vxValCase {
	proto := rapid.IntRange(1, 5).Draw(t, "proto")
	ty := vxDrawType(t, rapid.IntRange(0, 3).Draw(t, "depth"), false)
	c := &vxValCase{Proto: proto, Type: ty, Value: vxDrawValue(t, ty, true, proto), Choices: vxDrawChoices(t, 40)}
	if rapid.IntRange(0, 2).Draw(t, "dirty") == 0 {
		d := vxDrawValue(t, ty, true, proto)
		c.Dirty = &d
	}
	c.TZ = rapid.SampledFrom([]int{0, 0, 0, 540, -300, -30, -660, 765}).Draw(t, "tz")
	return c
}

func vxValid(ty *cqlspec.Type, v cqlspec.Value) bool {
	if ty == nil {
		return false
	}
	if v.Null {
		return true
	}
	switch ty.Kind {
	case cqlspec.List, cqlspec.Set:
		if len(ty.Elems) != 1 {
			return false
		}
		for _, e := range v.Elems {
			if !vxValid(ty.Elems[0], e) {
				return false
			}
		}
	case cqlspec.Map:
		if len(ty.Elems) != 2 || len(v.Elems)%2 != 0 {
			return false
		}
		for i, e := range v.Elems {
			if !vxValid(ty.Elems[i%2], e) {
				return false
			}
		}
	case cqlspec.Tuple, cqlspec.UDT:
		if len(v.Elems) != len(ty.Elems) || (ty.Kind == cqlspec.UDT && len(ty.Names) != len(ty.Elems)) {
			return false
		}
		for i, e := range v.Elems {
			if !vxValid(ty.Elems[i], e) {
				return false
			}
		}
	}
	return true
}

// vxClassify labels the case and decides non-triviality: boundary values, nesting depth >= 2, or a
// named / pointer / big carrier.
func vxClassify(k *vstats.Case, c *vxValCase, src reflect.Type) {
	k.Class("kind=" + c.Type.Kind.String())
	k.Class(fmt.Sprintf("proto=%d", c.Proto))
	d := c.Type.Depth()
	k.Class(fmt.Sprintf("depth=%d", d))
	nt := d >= 2
	if src != nil {
		s := src.String()
		if bytes.Contains([]byte(s), []byte("Vx")) {
			k.Class("carrier=named")
			nt = true
		}
		if bytes.Contains([]byte(s), []byte("*")) {
			k.Class("carrier=pointer")
			nt = true
		}
		if bytes.Contains([]byte(s), []byte("big.Int")) || bytes.Contains([]byte(s), []byte("inf.Dec")) {
			k.Class("carrier=big")
			nt = true
		}
		if bytes.Contains([]byte(s), []byte("uint")) {
			k.Class("carrier=unsigned")
		}
		if bytes.Contains([]byte(s), []byte("struct {")) && !bytes.Contains([]byte(s), []byte("struct {}")) {
			k.Class("carrier=struct")
		}
		if bytes.Contains([]byte(s), []byte("struct {}")) {
			k.Class("carrier=set-as-map")
		}
	}
	if c.Value.Null {
		k.Class("top=null")
	}
	if vxBoundary(c.Type, c.Value) {
		k.Class("boundary")
		nt = true
	}
	if nt {
		k.NonTrivial()
	}
}

func vxBoundary(ty *cqlspec.Type, v cqlspec.Value) bool {
	if v.Null {
		return false
	}
	switch ty.Kind {
	case cqlspec.Tinyint, cqlspec.Smallint, cqlspec.Int, cqlspec.Bigint, cqlspec.Counter, cqlspec.Timestamp, cqlspec.Time, cqlspec.Date, cqlspec.Varint:
		n := v.Big()
		if n.Sign() < 0 {
			return true
		}
		bl := n.BitLen()
		return bl%8 == 0 || bl%8 == 7 || bl == 0
	case cqlspec.Float, cqlspec.Double:
		return v.Bits>>63 == 1 || v.Bits == 0
	case cqlspec.Decimal:
		return v.Scale < 0 || v.Big().Sign() < 0
	case cqlspec.Duration:
		return v.Months < 0 || v.Days < 0 || v.Nanos < 0
	}
	for i, e := range v.Elems {
		et := ty.Elems[0]
		switch ty.Kind {
		case cqlspec.Map:
			et = ty.Elems[i%2]
		case cqlspec.Tuple, cqlspec.UDT:
			et = ty.Elems[i]
		}
		if e.Null || vxBoundary(et, e) {
			return true
		}
	}
	return false
}

func vxContainsGoMap(t reflect.Type, seen int) bool {
	if seen > 12 {
		return false
	}
	switch t.Kind() {
	case reflect.Map:
		if t == vxTStrIfaceMap {
			return true // values are interfaces: may hide maps
		}
		return true
	case reflect.Ptr, reflect.Slice, reflect.Array:
		return vxContainsGoMap(t.Elem(), seen+1)
	case reflect.Struct:
		for i := 0; i < t.NumField(); i++ {
			if vxContainsGoMap(t.Field(i).Type, seen+1) {
				return true
			}
		}
	case reflect.Interface:
		return true
	}
	return false
}

// vxCanon sorts set elements and map entries by their spec encoding, recursively, so that values
// written from unordered Go maps can be compared.
func vxCanon(ty *cqlspec.Type, v cqlspec.Value, proto int) cqlspec.Value {
	if v.Null || len(v.Elems) == 0 {
		return v
	}
	out := v
	out.Elems = make([]cqlspec.Value, len(v.Elems))
	for i, e := range v.Elems {
		et := ty.Elems[0]
		switch ty.Kind {
		case cqlspec.Map:
			et = ty.Elems[i%2]
		case cqlspec.Tuple, cqlspec.UDT:
			et = ty.Elems[i]
		}
		out.Elems[i] = vxCanon(et, e, proto)
	}
	step := 0
	switch ty.Kind {
	case cqlspec.Set, cqlspec.List:
		step = 1
	case cqlspec.Map:
		step = 2
	}
	if step > 0 {
		n := len(out.Elems) / step
		keys := make([]string, n)
		for i := 0; i < n; i++ {
			keys[i] = string(cqlspec.Encode(ty.Elems[0], out.Elems[i*step], proto))
		}
		// insertion sort of groups
		for i := 1; i < n; i++ {
			for j := i; j > 0 && keys[j] < keys[j-1]; j-- {
				keys[j], keys[j-1] = keys[j-1], keys[j]
				for s := 0; s < step; s++ {
					out.Elems[j*step+s], out.Elems[(j-1)*step+s] = out.Elems[(j-1)*step+s], out.Elems[j*step+s]
				}
			}
		}
	}
	return out
}

// vxKnownFor maps carrier flags to listed-finding ids (only consulted when a mismatch occurred).
func vxKnownFor(ch *vxCh, what string) error {
	switch {
	case ch.flags["bigint_from_bigInt"]:
		return vx.Known("C12-bigint-from-bigInt", "big.Int written into a 64-bit column as minimal-length bytes: %s", what)
	case ch.flags["date_pre1970_inside_day"]:
		return vx.Known("C12-date-pre1970-floor", "instant inside a day before 1970 lands on the following day: %s", what)
	case ch.flags["duration_named_int64"]:
		return vx.Known("C12-duration-named-int64", "named int64 written into a duration column as 8 raw bytes: %s", what)
	}
	return nil
}

func vxSafeMarshal(info TypeInfo, v interface{}) (b []byte, err error, pan interface{}) {
	defer func() {
		if r := recover(); r != nil {
			pan = r
		}
	}()
	b, err = Marshal(info, v)
	return
}

func vxSafeUnmarshal(info TypeInfo, b []byte, dst interface{}) (err error, pan interface{}) {
	defer func() {
		if r := recover(); r != nil {
			pan = r
		}
	}()
	err = Unmarshal(info, b, dst)
	return
}

// ---------------------------------------------------------------------------------------------

// vxNullInCollection: some list/set/map inside v holds a null element.
func vxNullInCollection(ty *cqlspec.Type, v cqlspec.Value) bool {
	if v.Null {
		return false
	}
	switch ty.Kind {
	case cqlspec.List, cqlspec.Set, cqlspec.Map:
		for i, e := range v.Elems {
			et := ty.Elems[0]
			if ty.Kind == cqlspec.Map {
				et = ty.Elems[i%2]
			}
			if e.Null || vxNullInCollection(et, e) {
				return true
			}
		}
	case cqlspec.Tuple, cqlspec.UDT:
		for i, e := range v.Elems {
			if i < len(ty.Elems) && vxNullInCollection(ty.Elems[i], e) {
				return true
			}
		}
	}
	return false
}

func TestVxC02RoundTrip(t *testing.T) {
	vx.Check(t, vx.Prop{
		ID: "C02", Part: "TestVxC02RoundTrip",
		Rule: "(CQL type tree to depth 3 over 21 scalars + list/set/map/tuple/UDT, boundary-biased value, protocol 1..5, documented Go carrier chosen per node incl. named types, pointers, big.Int, set-as-map, structs); oracle: Marshal errs or its bytes Unmarshal into the same Go type and into a second documented target type able to hold the value, giving the value back; non-trivial = boundary value or depth >= 2 or named/pointer/big carrier; distinct by the whole case",
		Draw: func(t *rapid.T) interface{} { return vxDrawValCase(t) },
		New:  func() interface{} { return &vxValCase{} },
		Run: func(ci interface{}, k *vstats.Case) error {
			c := ci.(*vxValCase)
			defer vxSetLocal(c.TZ)()
			if c.TZ != 0 {
				k.Class("local time zone other than UTC")
			}
			if c.Proto < 1 || c.Proto > 5 || !vxValid(c.Type, c.Value) {
				k.Class("invalid-case")
				return nil
			}
			oversize := false
			if !cqlspec.Encodable(c.Type, c.Value, c.Proto) {
				if vxNullInCollection(c.Type, c.Value) {
					k.Class("invalid-case") // the v1-2 framing has no null collection elements
					return nil
				}
				// more than 65535 elements, or an element longer than 65535 bytes, in the 16-bit collection framing
				// of protocol 1-2: "encoding either fails or ..." - it has to fail, the framing cannot say it
				oversize = true
				k.Class("too large for the v1-2 collection framing")
			}
			ch := &vxCh{c: c.Choices}
			info := vxTypeInfo(c.Type, byte(c.Proto))
			if err := vxNullZeroCheck(c, info, k); err != nil {
				return err
			}
			if err := vxNaNKeyCheck(c, info, k); err != nil {
				return err
			}
			if err := vxStructShapesCheck(c, info, k); err != nil {
				return err
			}
			if err := vxCrossedTagsCheck(c, info, k); err != nil {
				return err
			}
			var src interface{}
			var srcT reflect.Type
			if c.Value.Null && ch.next(2) == 0 {
				src = nil // plain nil
			} else {
				srcT = vxPick(c.Type, []cqlspec.Value{c.Value}, ch, vxSrc, false)
				rv, err := vxToGo(c.Type, c.Value, srcT, ch)
				if err != nil {
					return fmt.Errorf("harness error: %v", err)
				}
				if ch.next(6) == 0 { // pointer-to-pointer at the top
					p := reflect.New(srcT)
					p.Elem().Set(rv)
					rv, srcT = p, p.Type()
				}
				src = rv.Interface()
			}
			vxClassify(k, c, srcT)
			b, err, pan := vxSafeMarshal(info, src)
			if pan != nil {
				return fmt.Errorf("Marshal(%v, %T) panicked: %v", c.Type, src, pan)
			}
			if err != nil {
				k.Class("marshal-refused")
				return nil
			}
			if oversize {
				return fmt.Errorf("Marshal(%v, %T) succeeded (%d bytes) for a value that the 16-bit collection framing of protocol %d cannot represent (an element count or element length above 65535)", c.Type, src, len(b), c.Proto)
			}
			// (1) same Go type
			if srcT != nil {
				holder := srcT
				for holder.Kind() == reflect.Ptr && holder.Elem().Kind() == reflect.Ptr {
					holder = holder.Elem()
				}
				if err := vxDecodeInto(info, c, b, holder, k, ch, "same-type"); err != nil {
					return err
				}
			}
			// (2) another documented target able to hold the value
			dstT := vxPick(c.Type, []cqlspec.Value{c.Value}, ch, vxDst, false)
			if err := vxDecodeInto(info, c, b, dstT, k, ch, "other-type"); err != nil {
				return err
			}
			// (2b) a tuple may also be scanned into a list of destinations, one per element
			if c.Type.Kind == cqlspec.Tuple && !c.Value.Null {
				dests := make([]interface{}, len(c.Type.Elems))
				holders := make([]reflect.Value, len(c.Type.Elems))
				for i, et := range c.Type.Elems {
					ht := vxPick(et, []cqlspec.Value{c.Value.Elems[i]}, ch, vxDst, false)
					holders[i] = reflect.New(ht)
					dests[i] = holders[i].Interface()
				}
				err, pan := vxSafeUnmarshal(info, b, dests)
				if pan != nil {
					return fmt.Errorf("tuple-destinations: Unmarshal(%v, %x, []interface{} of pointers) panicked: %v", c.Type, b, pan)
				}
				if err != nil {
					k.Class("tuple-destinations:decode-refused")
				} else {
					k.Class("tuple-destinations:decoded")
					for i, et := range c.Type.Elems {
						if err := vxCompare(et, c.Value.Elems[i], holders[i].Elem(), fmt.Sprintf("value.%d", i)); err != nil {
							msg := fmt.Sprintf("tuple-destinations: %v (bytes %x): %v", c.Type, b, err)
							if ke := vxKnownFor(ch, msg); ke != nil {
								return ke
							}
							return fmt.Errorf("%s", msg)
						}
					}
				}
			}
			// (3) the driver's own default target
			if vxDefaultCanHold(c.Type, c.Value) {
				if err := vxDecodeInto(info, c, b, vxDefaultGoType(c.Type), k, ch, "default-type"); err != nil {
					return err
				}
			}
			return nil
		},
	})
}

// vxCrossedTags: field Af is written to the UDT field Bf and the other way round.
type vxCrossedTags struct {
	Af interface{} `cql:"Bf"`
	Bf interface{} `cql:"Af"`
}

// vxCrossedTagsCheck: a struct whose cql tags cross its field names - the tag decides which field a UDT field is
// written from (UDT field names Af, Bf: quoted identifiers that equal the names of exported Go fields).
func vxCrossedTagsCheck(c *vxValCase, info TypeInfo, k *vstats.Case) error {
	if c.Type.Kind != cqlspec.UDT || len(c.Type.Names) != 2 || c.Type.Names[0] != "Af" || c.Type.Names[1] != "Bf" || c.Value.Null || len(c.Value.Elems) != 2 {
		return nil
	}
	var vals [2]interface{}
	for i := 0; i < 2; i++ {
		if c.Value.Elems[i].Null {
			continue
		}
		gt := vxPick(c.Type.Elems[i], []cqlspec.Value{c.Value.Elems[i]}, &vxCh{c: c.Choices}, vxSrc, false)
		rv, err := vxToGo(c.Type.Elems[i], c.Value.Elems[i], gt, &vxCh{c: c.Choices})
		if err != nil {
			return nil
		}
		vals[i] = rv.Interface()
	}
	crossed := vxCrossedTags{Af: vals[1], Bf: vals[0]}
	got, merr, pan := vxSafeMarshal(info, crossed)
	if pan != nil {
		return fmt.Errorf("Marshal(%v, struct with crossed tags) panicked: %v", c.Type, pan)
	}
	if merr != nil {
		return nil
	}
	k.Class("udt from a struct whose tags cross its field names")
	if want := cqlspec.Encode(c.Type, c.Value, c.Proto); !bytes.Equal(got, want) {
		dv, derr := cqlspec.Decode(c.Type, got, c.Proto)
		if derr != nil || !cqlspec.Equal(c.Type, vxCanon(c.Type, dv, c.Proto), vxCanon(c.Type, c.Value, c.Proto)) {
			return fmt.Errorf("Marshal(%v, struct{Af `cql:\"Bf\"`; Bf `cql:\"Af\"`} holding for Af %+v and for Bf %+v) = %x, the specification's encoding is %x", c.Type, crossed.Bf, crossed.Af, got, want)
		}
	}
	return nil
}

// vxNullZeroCheck: "If value is a pointer to pointer, it is set to nil if the CQL value is null. Otherwise, nulls are
// unmarshalled as zero value." (doc comment of Unmarshal) - for every documented destination type of a scalar type.
func vxNullZeroCheck(c *vxValCase, info TypeInfo, k *vstats.Case) error {
	switch c.Type.Kind {
	case cqlspec.List, cqlspec.Set, cqlspec.Map, cqlspec.Tuple, cqlspec.UDT, cqlspec.Custom:
		return nil
	}
	for _, gt := range vxScalarCandidates(c.Type.Kind, vxDst) {
		if gt.Kind() == reflect.Interface {
			continue
		}
		// a destination that was used before: whatever it holds, a null leaves the zero value
		p := reflect.New(gt)
		if !c.Value.Null {
			if rv, err := vxToGo(c.Type, c.Value, gt, &vxCh{c: c.Choices}); err == nil && rv.Type() == gt {
				p.Elem().Set(rv)
			}
		}
		err, pan := vxSafeUnmarshal(info, nil, p.Interface())
		if pan != nil {
			return fmt.Errorf("Unmarshal(%v, null, *%v) panicked: %v", c.Type, gt, pan)
		}
		if err != nil {
			return fmt.Errorf("Unmarshal(%v, null, *%v) = %v; documented: nulls are unmarshalled as zero value", c.Type, gt, err)
		}
		el := p.Elem()
		zero := el.IsZero()
		if !zero && (el.Kind() == reflect.Slice || el.Kind() == reflect.Map) && el.Len() == 0 {
			zero = true
		}
		if !zero {
			if bi, ok := el.Interface().(big.Int); ok && bi.Sign() == 0 {
				zero = true
			}
		}
		if !zero && el.Kind() == reflect.String {
			zero = true // a number read into a string: the digits of zero
		}
		if !zero {
			return fmt.Errorf("Unmarshal(%v, null, *%v) left %v in the destination; documented: nulls are unmarshalled as zero value", c.Type, gt, el.Interface())
		}
	}
	k.Class("null into every documented scalar destination")
	return nil
}

// vxNaNKeyCheck: a Go map can hold NaN keys (every NaN is a key of its own, and no lookup finds it again); writing
// such a map as a CQL map with float / double keys either fails with an error or writes every entry.
func vxNaNKeyCheck(c *vxValCase, info TypeInfo, k *vstats.Case) error {
	if c.Type.Kind != cqlspec.Map || (c.Type.Elems[0].Kind != cqlspec.Double && c.Type.Elems[0].Kind != cqlspec.Float) || c.Value.Null || len(c.Value.Elems) < 2 {
		return nil
	}
	vt := vxPick(c.Type.Elems[1], []cqlspec.Value{c.Value.Elems[1]}, &vxCh{c: c.Choices}, vxSrc, false)
	val, err := vxToGo(c.Type.Elems[1], c.Value.Elems[1], vt, &vxCh{c: c.Choices})
	if err != nil {
		return nil
	}
	kt := reflect.TypeOf(float64(0))
	nan := reflect.ValueOf(math.NaN())
	if c.Type.Elems[0].Kind == cqlspec.Float {
		kt = reflect.TypeOf(float32(0))
		nan = reflect.ValueOf(float32(math.NaN()))
	}
	m := reflect.MakeMap(reflect.MapOf(kt, vt))
	m.SetMapIndex(nan, val)
	m.SetMapIndex(nan, val) // a second entry: NaN != NaN
	out, merr, pan := vxSafeMarshal(info, m.Interface())
	if pan != nil {
		return fmt.Errorf("Marshal(%v, map with two NaN keys) panicked: %v", c.Type, pan)
	}
	if merr != nil {
		return nil
	}
	k.Class("map with NaN keys written")
	dv, derr := cqlspec.Decode(c.Type, out, c.Proto)
	if derr != nil || len(dv.Elems) != 4 {
		return fmt.Errorf("Marshal(%v, map with two NaN keys) = %x: decodes to %d key/value cells (%v), want 4", c.Type, out, len(dv.Elems), derr)
	}
	for i := 1; i < 4; i += 2 {
		if !cqlspec.Equal(c.Type.Elems[1], vxCanon(c.Type.Elems[1], dv.Elems[i], c.Proto), vxCanon(c.Type.Elems[1], c.Value.Elems[1], c.Proto)) {
			return fmt.Errorf("Marshal(%v, map with two NaN keys) = %x: the value of entry %d is not the one that was put there", c.Type, out, i/2)
		}
	}
	return nil
}

// VxEmbInner is embedded in vxEmbOuter: its field Af is a field of vxEmbOuter for every purpose of the language.
type VxEmbInner struct {
	Af interface{}
}

// vxEmbOuter: the UDT field Af is a field promoted from an embedded struct.
type vxEmbOuter struct {
	VxEmbInner
	Bf interface{}
}

// vxEmbPtrOuter: the embedded struct is held by a pointer, which may be nil - then the struct has no field Af to
// write (null) or to read into (skipped, as for every UDT field the destination does not declare).
type vxEmbPtrOuter struct {
	*VxEmbInner
	Bf interface{}
}

// vxTagFirst: the UDT field Af is named by a tag; a later field that happens to be called Af is not that field.
type vxTagFirst struct {
	P  interface{} `cql:"Af"`
	Af interface{}
	Bf interface{}
}

// vxStructShapesCheck: UDT values written from structs of other shapes than the generated ones (a field promoted
// from an embedded struct; a tag that names the UDT field although another Go field has that name).
func vxStructShapesCheck(c *vxValCase, info TypeInfo, k *vstats.Case) error {
	if c.Type.Kind != cqlspec.UDT || len(c.Type.Names) != 2 || c.Type.Names[0] != "Af" || c.Type.Names[1] != "Bf" || c.Value.Null || len(c.Value.Elems) != 2 {
		return nil
	}
	var vals [2]interface{}
	for i := 0; i < 2; i++ {
		if c.Value.Elems[i].Null {
			continue
		}
		gt := vxPick(c.Type.Elems[i], []cqlspec.Value{c.Value.Elems[i]}, &vxCh{c: c.Choices}, vxSrc, false)
		rv, err := vxToGo(c.Type.Elems[i], c.Value.Elems[i], gt, &vxCh{c: c.Choices})
		if err != nil {
			return nil
		}
		vals[i] = rv.Interface()
	}
	// a nil embedded pointer: no panic on either route
	if out, merr, pan := vxSafeMarshal(info, vxEmbPtrOuter{Bf: vals[1]}); pan != nil {
		return fmt.Errorf("Marshal(%v, struct{*VxEmbInner (nil); Bf}) panicked: %v", c.Type, pan)
	} else if merr == nil {
		k.Class("udt from a struct with a nil embedded pointer")
		dv, derr := cqlspec.Decode(c.Type, out, c.Proto)
		if derr != nil || len(dv.Elems) != 2 || !dv.Elems[0].Null || !cqlspec.Equal(c.Type.Elems[1], vxCanon(c.Type.Elems[1], dv.Elems[1], c.Proto), vxCanon(c.Type.Elems[1], c.Value.Elems[1], c.Proto)) {
			return fmt.Errorf("Marshal(%v, struct{*VxEmbInner (nil); Bf: %+v}) = %x, want Af null and Bf as given (%v)", c.Type, vals[1], out, derr)
		}
	}
	if _, pan := vxSafeUnmarshal(info, cqlspec.Encode(c.Type, c.Value, c.Proto), &vxEmbPtrOuter{}); pan != nil {
		return fmt.Errorf("Unmarshal(%v, *struct{*VxEmbInner (nil); Bf}) panicked: %v", c.Type, pan)
	}
	want := cqlspec.Encode(c.Type, c.Value, c.Proto)
	for _, sh := range []struct {
		name string
		v    interface{}
	}{
		{"struct{VxEmbInner{Af}; Bf}", vxEmbOuter{VxEmbInner: VxEmbInner{Af: vals[0]}, Bf: vals[1]}},
		{"*struct{VxEmbInner{Af}; Bf}", &vxEmbOuter{VxEmbInner: VxEmbInner{Af: vals[0]}, Bf: vals[1]}},
		{"struct{P `cql:\"Af\"`; Af; Bf}", vxTagFirst{P: vals[0], Af: nil, Bf: vals[1]}},
	} {
		got, merr, pan := vxSafeMarshal(info, sh.v)
		if pan != nil {
			return fmt.Errorf("Marshal(%v, %s) panicked: %v", c.Type, sh.name, pan)
		}
		if merr != nil {
			continue
		}
		k.Class("udt from " + sh.name)
		if !bytes.Equal(got, want) {
			dv, derr := cqlspec.Decode(c.Type, got, c.Proto)
			if derr != nil || !cqlspec.Equal(c.Type, vxCanon(c.Type, dv, c.Proto), vxCanon(c.Type, c.Value, c.Proto)) {
				return fmt.Errorf("Marshal(%v, %s holding for the UDT field Af %+v and for Bf %+v) = %x, the specification's encoding is %x", c.Type, sh.name, vals[0], vals[1], got, want)
			}
		}
	}
	return nil
}

func vxDecodeInto(info TypeInfo, c *vxValCase, b []byte, holder reflect.Type, k *vstats.Case, ch *vxCh, tag string) error {
	p := reflect.New(holder)
	if c.Dirty != nil && vxValid(c.Type, *c.Dirty) && cqlspec.Encodable(c.Type, *c.Dirty, c.Proto) {
		// the destination has been used before (the usual `for iter.Scan(&x)` loop): whatever it holds,
		// the value read now must be the one in the bytes
		if _, pan := vxSafeUnmarshal(info, cqlspec.Encode(c.Type, *c.Dirty, c.Proto), p.Interface()); pan != nil {
			return fmt.Errorf("%s: Unmarshal(%v, *%v) of the earlier value panicked: %v", tag, c.Type, holder, pan)
		}
		tag += "(used destination)"
	}
	err, pan := vxSafeUnmarshal(info, b, p.Interface())
	if pan != nil {
		return fmt.Errorf("%s: Unmarshal(%v, %x, *%v) panicked: %v", tag, c.Type, b, holder, pan)
	}
	if err != nil {
		k.Class(tag + ":decode-refused")
		return nil
	}
	k.Class(tag + ":decoded")
	if err := vxCompare(c.Type, c.Value, p.Elem(), "value"); err != nil {
		msg := fmt.Sprintf("%s: %v (type %v, bytes %x, holder %v): %v", tag, c.Type, c.Type, b, holder, err)
		if ke := vxKnownFor(ch, msg); ke != nil {
			return ke
		}
		return fmt.Errorf("%s", msg)
	}
	return nil
}

// ---------------------------------------------------------------------------------------------

func TestVxC12Encode(t *testing.T) {
	vx.Check(t, vx.Prop{
		ID: "C12", Part: "TestVxC12Encode",
		Rule: "same generator as C02; oracle: Marshal(T, carrier(V)) == cqlspec.Encode(T, V) byte for byte (collections written from unordered Go maps compared as multisets of encoded elements), and Marshal must not fail for a value the carrier holds naturally; non-trivial as C02",
		Draw: func(t *rapid.T) interface{} { return vxDrawValCase(t) },
		New:  func() interface{} { return &vxValCase{} },
		Run: func(ci interface{}, k *vstats.Case) error {
			c := ci.(*vxValCase)
			defer vxSetLocal(c.TZ)()
			if c.TZ != 0 {
				k.Class("local time zone other than UTC")
			}
			if c.Proto < 1 || c.Proto > 5 || !vxValid(c.Type, c.Value) || !cqlspec.Encodable(c.Type, c.Value, c.Proto) {
				k.Class("invalid-case")
				return nil
			}
			ch := &vxCh{c: c.Choices}
			info := vxTypeInfo(c.Type, byte(c.Proto))
			if err := vxNullZeroCheck(c, info, k); err != nil {
				return err
			}
			if err := vxNaNKeyCheck(c, info, k); err != nil {
				return err
			}
			if err := vxStructShapesCheck(c, info, k); err != nil {
				return err
			}
			if err := vxCrossedTagsCheck(c, info, k); err != nil {
				return err
			}
			var src interface{}
			var srcT reflect.Type
			if c.Value.Null && ch.next(2) == 0 {
				src = nil
			} else {
				srcT = vxPick(c.Type, []cqlspec.Value{c.Value}, ch, vxSrc, false)
				rv, err := vxToGo(c.Type, c.Value, srcT, ch)
				if err != nil {
					return fmt.Errorf("harness error: %v", err)
				}
				src = rv.Interface()
			}
			vxClassify(k, c, srcT)
			want := cqlspec.Encode(c.Type, c.Value, c.Proto)
			got, err, pan := vxSafeMarshal(info, src)
			if pan != nil {
				return fmt.Errorf("Marshal(%v, %T) panicked: %v", c.Type, src, pan)
			}
			if err != nil {
				k.Class("marshal-refused")
				if vxNatural(c.Type, c.Value, srcT) {
					return fmt.Errorf("Marshal(%v, %T %+v) failed for a value the carrier holds naturally: %v", c.Type, src, src, err)
				}
				return nil
			}
			if (got == nil) != (want == nil) {
				msg := fmt.Sprintf("Marshal(%v, %T): null-ness differs: got %x (nil=%v), specification %x (nil=%v)", c.Type, src, got, got == nil, want, want == nil)
				if ke := vxKnownFor(ch, msg); ke != nil {
					return ke
				}
				return fmt.Errorf("%s", msg)
			}
			if bytes.Equal(got, want) {
				k.Class("bytes-equal")
				return nil
			}
			if srcT != nil && vxContainsGoMap(srcT, 0) {
				dv, derr := cqlspec.Decode(c.Type, got, c.Proto)
				if derr == nil && cqlspec.Equal(c.Type, vxCanon(c.Type, dv, c.Proto), vxCanon(c.Type, c.Value, c.Proto)) && len(got) == len(want) {
					k.Class("equal-as-multiset")
					return nil
				}
			}
			msg := fmt.Sprintf("Marshal(%v, %T %+v) = %x, the specification's encoding of %+v is %x", c.Type, src, src, got, c.Value, want)
			if ke := vxKnownFor(ch, msg); ke != nil {
				return ke
			}
			return fmt.Errorf("%s", msg)
		},
	})
}

// vxNatural: every scalar in v is held by its carrier without the unsigned bit-pattern convention
// and without a string carrier beyond int64 - the cases where Marshal has no excuse to fail.
func vxNatural(ty *cqlspec.Type, v cqlspec.Value, gt reflect.Type) bool {
	if gt == nil {
		return true
	}
	for gt.Kind() == reflect.Ptr {
		gt = gt.Elem()
	}
	if v.Null {
		return true
	}
	switch ty.Kind {
	case cqlspec.List, cqlspec.Set:
		if gt.Kind() == reflect.Map {
			for _, e := range v.Elems {
				if !vxNatural(ty.Elems[0], e, gt.Key()) {
					return false
				}
			}
			return true
		}
		for _, e := range v.Elems {
			if !vxNatural(ty.Elems[0], e, gt.Elem()) {
				return false
			}
		}
		return true
	case cqlspec.Map:
		for i, e := range v.Elems {
			et := gt.Key()
			if i%2 == 1 {
				et = gt.Elem()
			}
			if !vxNatural(ty.Elems[i%2], e, et) {
				return false
			}
		}
		return true
	case cqlspec.Tuple, cqlspec.UDT:
		if gt.Kind() != reflect.Struct {
			return false // interface-typed elements: carriers not visible here; do not insist
		}
		for i, e := range v.Elems {
			if !vxNatural(ty.Elems[i], e, gt.Field(i).Type) {
				return false
			}
		}
		return true
	case cqlspec.Duration:
		return gt != vxTString // time.ParseDuration has limits of its own
	}
	if ty.Kind == cqlspec.Varint && vxIsUnsigned(gt.Kind()) && gt != vxTUint64 && !v.Big().IsInt64() {
		// only uint64 itself is accepted above MaxInt64 for varint; uint and named unsigned types are
		// refused with an error (a refusal, not a wrong encoding - counted as marshal-refused)
		return false
	}
	_, nat := vxScalarHolds(ty.Kind, v, gt, vxSrc)
	return nat
}

func TestVxC12Decode(t *testing.T) {
	vx.Check(t, vx.Prop{
		ID: "C12", Part: "TestVxC12Decode",
		Rule: "same generator; the specification's encoding of V (lib/cqlspec) is given to Unmarshal with the driver's default target and with a drawn documented target able to hold V; oracle: the default target must decode without error to V, the drawn target may refuse but must not decode to another value; non-trivial as C02",
		Draw: func(t *rapid.T) interface{} { return vxDrawValCase(t) },
		New:  func() interface{} { return &vxValCase{} },
		Run: func(ci interface{}, k *vstats.Case) error {
			c := ci.(*vxValCase)
			defer vxSetLocal(c.TZ)()
			if c.TZ != 0 {
				k.Class("local time zone other than UTC")
			}
			if c.Proto < 1 || c.Proto > 5 || !vxValid(c.Type, c.Value) || !cqlspec.Encodable(c.Type, c.Value, c.Proto) {
				k.Class("invalid-case")
				return nil
			}
			ch := &vxCh{c: c.Choices}
			info := vxTypeInfo(c.Type, byte(c.Proto))
			b := cqlspec.Encode(c.Type, c.Value, c.Proto)
			def := vxDefaultGoType(c.Type)
			vxClassify(k, c, def)
			p := reflect.New(def)
			err, pan := vxSafeUnmarshal(info, b, p.Interface())
			if pan != nil {
				return fmt.Errorf("Unmarshal(%v, %x, *%v) panicked: %v", c.Type, b, def, pan)
			}
			if err != nil {
				if vxDefaultCanHold(c.Type, c.Value) {
					return fmt.Errorf("Unmarshal(%v, %x, *%v) refused a specification-conformant encoding of %+v: %v", c.Type, b, def, c.Value, err)
				}
				k.Class("default-refused-out-of-range")
			} else if !vxDefaultCanHold(c.Type, c.Value) {
				k.Class("default-convention-zero-time")
			} else if err := vxCompare(c.Type, c.Value, p.Elem(), "value"); err != nil {
				return fmt.Errorf("Unmarshal(%v, %x, *%v): %v", c.Type, b, def, err)
			}
			// pointer-to-default: null must become nil
			pp := reflect.New(reflect.PtrTo(def))
			err, pan = vxSafeUnmarshal(info, b, pp.Interface())
			if pan != nil {
				return fmt.Errorf("Unmarshal(%v, %x, **%v) panicked: %v", c.Type, b, def, pan)
			}
			if err == nil {
				if c.Value.Null != pp.Elem().IsNil() {
					return fmt.Errorf("Unmarshal(%v, %x, **%v): null=%v but pointer nil=%v", c.Type, b, def, c.Value.Null, pp.Elem().IsNil())
				}
				if !c.Value.Null && vxDefaultCanHold(c.Type, c.Value) {
					if err := vxCompare(c.Type, c.Value, pp.Elem().Elem(), "value"); err != nil {
						return fmt.Errorf("Unmarshal(%v, %x, **%v): %v", c.Type, b, def, err)
					}
				}
			}
			dstT := vxPick(c.Type, []cqlspec.Value{c.Value}, ch, vxDst, false)
			if err := vxDecodeInto(info, c, b, dstT, k, ch, "drawn-target"); err != nil {
				return err
			}
			if c.Type.Kind == cqlspec.UDT && len(c.Type.Elems) >= 2 && !c.Value.Null && len(c.Value.Elems) == len(c.Type.Elems) && c.Proto >= 3 {
				// a value written before the last fields were added to the type ends early: those fields are null.
				// Decoded into a destination that held the full value before.
				drop := 1 + ch.next(len(c.Type.Elems)-1)
				short := cqlspec.Value{Elems: append([]cqlspec.Value{}, c.Value.Elems...)}
				cut := 0
				for i := len(short.Elems) - drop; i < len(short.Elems); i++ {
					short.Elems[i] = cqlspec.NullValue()
					cut += 4
				}
				sb := cqlspec.Encode(c.Type, short, c.Proto)
				if len(sb) >= cut {
					full := c.Value
					c2 := &vxValCase{Proto: c.Proto, Type: c.Type, Value: short, Dirty: &full}
					holder := vxPick(c.Type, []cqlspec.Value{short, full}, ch, vxDst, false)
					k.Class("udt value that ends before its type's last fields")
					return vxDecodeInto(info, c2, sb[:len(sb)-cut], holder, k, ch, "short-udt")
				}
			}
			return nil
		},
	})
}

// vxDefaultCanHold: the driver's default Go types are int for CQL int etc.; all of them hold the
// column's full range except that a null inet has no *net.IP... (default for inet is string) - so: always,
// save for values that the default representation documents as a convention (zero time = empty).
func vxDefaultCanHold(ty *cqlspec.Type, v cqlspec.Value) bool {
	if v.Null {
		return true
	}
	switch ty.Kind {
	case cqlspec.Timestamp:
		return v.Big().Int64() != vxZeroTimeMs
	case cqlspec.Date:
		return v.Big().Int64()*vxMsPerDay != vxZeroTimeMs
	}
	for i, e := range v.Elems {
		et := ty.Elems[0]
		switch ty.Kind {
		case cqlspec.Map:
			et = ty.Elems[i%2]
		case cqlspec.Tuple, cqlspec.UDT:
			et = ty.Elems[i]
		}
		if !vxDefaultCanHold(et, e) {
			return false
		}
	}
	return true
}
