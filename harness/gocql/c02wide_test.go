//go:build verif && go1.21

// C02, second part: Go values WIDER than the column. The value-first generator of TestVxC02RoundTrip
// draws a CQL value and then a Go carrier able to hold it, so it never hands Marshal a Go value that
// does not fit the column (int64 70000 for a smallint). The statement quantifies over every Go value
// of a supported Go type: encoding either fails or the bytes decode to an equal value. Here the Go
// value is drawn over the carrier's whole range and the only oracle is the round trip into the same
// Go type (public API only).
package gocql

import (
	"fmt"
	"math/big"
	"reflect"
	"testing"

	"pgregory.net/rapid"
	"verif.local/vstats"
	"verif.local/vx"
)

type vxWideInt64 int64
type vxWideUint32 uint32
type vxWideInt16 int16

type vxWideCase struct {
	Kind    string `json:"kind"`    // tinyint smallint int bigint counter varint
	Carrier string `json:"carrier"` // Go type name
	Val     string `json:"val"`     // decimal
	Ptr     bool   `json:"ptr"`     // pass a pointer to the value
}

var vxWideKinds = map[string]Type{"tinyint": TypeTinyInt, "smallint": TypeSmallInt, "int": TypeInt, "bigint": TypeBigInt, "counter": TypeCounter, "varint": TypeVarint}

var vxWideCarriers = map[string]reflect.Type{
	"int": reflect.TypeOf(int(0)), "int8": reflect.TypeOf(int8(0)), "int16": reflect.TypeOf(int16(0)), "int32": reflect.TypeOf(int32(0)), "int64": reflect.TypeOf(int64(0)),
	"uint": reflect.TypeOf(uint(0)), "uint8": reflect.TypeOf(uint8(0)), "uint16": reflect.TypeOf(uint16(0)), "uint32": reflect.TypeOf(uint32(0)), "uint64": reflect.TypeOf(uint64(0)),
	"named-int64": reflect.TypeOf(vxWideInt64(0)), "named-uint32": reflect.TypeOf(vxWideUint32(0)), "named-int16": reflect.TypeOf(vxWideInt16(0)),
	"string": reflect.TypeOf(""), "big.Int": reflect.TypeOf(big.Int{}),
}

func vxWideNames(m interface{}) []string {
	var out []string
	for _, k := range reflect.ValueOf(m).MapKeys() {
		out = append(out, k.String())
	}
	for i := 1; i < len(out); i++ {
		for j := i; j > 0 && out[j] < out[j-1]; j-- {
			out[j], out[j-1] = out[j-1], out[j]
		}
	}
	return out
}

// vxWideFits: the decimal value lies in the carrier's range (strings and big.Int hold anything).
func vxWideFits(n *big.Int, gt reflect.Type) bool {
	switch gt.Kind() {
	case reflect.String, reflect.Struct:
		return true
	}
	min, max := vxIntRange(gt)
	return n.Cmp(min) >= 0 && n.Cmp(max) <= 0
}

func TestVxC02Wide(t *testing.T) {
	kinds, carriers := vxWideNames(vxWideKinds), vxWideNames(vxWideCarriers)
	vx.Check(t, vx.Prop{ID: "C02", Part: "TestVxC02Wide",
		Rule: "integer column kind (tinyint..varint) x Go carrier (every built-in integer type, three named ones, string, big.Int; by value or by pointer) x a value drawn over the CARRIER's range (bit length 0..70 then uniform, both signs, +-1 around every power of two, clamped to the carrier); oracle: Marshal fails, or Unmarshal into the same Go type succeeds and yields the same number; non-trivial = the value does not fit the column's signed width; distinct by the case",
		Draw: func(t *rapid.T) interface{} {
			c := &vxWideCase{Kind: rapid.SampledFrom(kinds).Draw(t, "kind"), Carrier: rapid.SampledFrom(carriers).Draw(t, "carrier"), Ptr: rapid.IntRange(0, 3).Draw(t, "ptr") == 0}
			bits := rapid.IntRange(0, 70).Draw(t, "bits")
			n := new(big.Int).Lsh(big.NewInt(1), uint(bits))
			switch rapid.IntRange(0, 3).Draw(t, "shape") {
			case 0:
				n.Sub(n, big.NewInt(1))
			case 1:
			case 2:
				n.Add(n, big.NewInt(1))
			default:
				lo := new(big.Int).Rsh(n, 1)
				span := new(big.Int).Sub(n, lo)
				r := new(big.Int).SetUint64(rapid.Uint64().Draw(t, "r"))
				if span.Sign() > 0 {
					r.Mod(r, span)
				}
				n = lo.Add(lo, r)
			}
			if rapid.Bool().Draw(t, "neg") {
				n.Neg(n)
			}
			gt := vxWideCarriers[c.Carrier]
			if !vxWideFits(n, gt) {
				min, max := vxIntRange(gt)
				if n.Cmp(min) < 0 {
					n = min
				} else {
					n = max
				}
			}
			c.Val = n.String()
			return c
		},
		New: func() interface{} { return &vxWideCase{} },
		Run: func(ci interface{}, k *vstats.Case) error {
			c := ci.(*vxWideCase)
			typ, ok := vxWideKinds[c.Kind]
			gt, ok2 := vxWideCarriers[c.Carrier]
			n, ok3 := new(big.Int).SetString(c.Val, 10)
			if !ok || !ok2 || !ok3 || !vxWideFits(n, gt) {
				return nil
			}
			info := NewNativeType(4, typ, "")
			src := reflect.New(gt)
			switch gt.Kind() {
			case reflect.String:
				src.Elem().SetString(n.String())
			case reflect.Struct:
				src.Elem().Set(reflect.ValueOf(*n))
			case reflect.Uint, reflect.Uint8, reflect.Uint16, reflect.Uint32, reflect.Uint64:
				src.Elem().SetUint(n.Uint64())
			default:
				src.Elem().SetInt(n.Int64())
			}
			width := map[string]int{"tinyint": 8, "smallint": 16, "int": 32, "bigint": 64, "counter": 64, "varint": 0}[c.Kind]
			fitsSigned := width == 0 || n.BitLen() < width
			k.Class("kind=" + c.Kind)
			k.Class("carrier=" + c.Carrier)
			if !fitsSigned {
				k.NonTrivial()
				k.Class("wider-than-column")
			}
			var arg interface{} = src.Elem().Interface()
			if c.Ptr || gt.Kind() == reflect.Struct {
				arg = src.Interface()
			}
			b, err, pan := vxSafeMarshal(info, arg)
			if pan != nil {
				return fmt.Errorf("Marshal(%s, %s %s) panicked: %v", c.Kind, c.Carrier, c.Val, pan)
			}
			if err != nil {
				k.Class("refused")
				if !fitsSigned {
					k.Class("wider-than-column:refused")
				}
				return nil
			}
			dst := reflect.New(gt)
			if err, pan := vxSafeUnmarshal(info, b, dst.Interface()); pan != nil {
				return fmt.Errorf("Unmarshal(%s, %x) into *%s panicked: %v", c.Kind, b, c.Carrier, pan)
			} else if err != nil {
				return fmt.Errorf("Marshal(%s, %s %s) gave %x, which Unmarshal refuses to read back into *%s: %v", c.Kind, c.Carrier, c.Val, b, c.Carrier, err)
			}
			got := new(big.Int)
			switch gt.Kind() {
			case reflect.String:
				if _, ok := got.SetString(dst.Elem().String(), 10); !ok {
					return fmt.Errorf("Marshal(%s, string %q) gave %x, read back as %q", c.Kind, c.Val, b, dst.Elem().String())
				}
			case reflect.Struct:
				bi := dst.Elem().Interface().(big.Int)
				got.Set(&bi)
			case reflect.Uint, reflect.Uint8, reflect.Uint16, reflect.Uint32, reflect.Uint64:
				got.SetUint64(dst.Elem().Uint())
			default:
				got.SetInt64(dst.Elem().Int())
			}
			if got.Cmp(n) != 0 {
				return fmt.Errorf("Marshal(%s, %s %s) succeeded with bytes %x, which read back into *%s as %s (silent change of value)", c.Kind, c.Carrier, c.Val, b, c.Carrier, got)
			}
			k.Class("round-trip")
			if !fitsSigned {
				k.Class("wider-than-column:round-trip (unsigned bit pattern)")
			}
			return nil
		}})
}
