//go:build verif && go1.21

package gocql

// C17, "Close returns ... while queries, refreshes and reconnects are in progress": the control node falls
// silent (it keeps its connections open but stops answering OPTIONS, system queries, or both), a heartbeat
// probe and/or a ring refresh is waiting on it, and the session is closed. With Timeout 0 nothing but Close
// itself can end those waits. Close must return, every connection must be closed at the nodes, the
// driver's goroutines must be gone, a refresh that was waiting must return, and new queries must fail.

import (
	"context"
	"fmt"
	"net"
	"strings"
	"sync"
	"sync/atomic"
	"testing"
	"time"

	"pgregory.net/rapid"
	"verif.local/cqlspec"
	"verif.local/vnode"
	"verif.local/vstats"
	"verif.local/vx"
)

type vxC17SilentCase struct {
	Proto     int    `json:"proto"`
	N         int    `json:"n"`
	TimeoutMs int    `json:"timeout_ms"` // ClusterConfig.Timeout; 0 = requests wait for ever
	Silent    string `json:"silent"`     // what the control node stops answering: "options", "queries", "both"
	Probe     bool   `json:"probe"`      // wait until the heartbeat's OPTIONS is outstanding before closing
	Refresh   bool   `json:"refresh"`    // a ring refresh is started (and its query outstanding, if queries are silenced) before closing
	Closers   int    `json:"closers"`    // concurrent calls of Close
}

func vxRunC17Silent(c *vxC17SilentCase, k *vstats.Case) error {
	if c.Proto < 1 || c.Proto > 5 || c.N < 1 || c.N > 3 || c.Closers < 1 || c.Closers > 3 ||
		(c.TimeoutMs != 0 && (c.TimeoutMs < 40 || c.TimeoutMs > 1000)) ||
		(c.Silent != "options" && c.Silent != "queries" && c.Silent != "both") {
		return nil
	}
	before := map[int]bool{}
	for _, g := range vxDriverGoroutines() {
		before[g.ID] = true
	}
	specs := vxSpecs(c.N, 1)
	cl := vnode.NewCluster(specs)
	var silent int32
	var heldOptions, heldQueries int32
	var ctlNode *vnode.Node
	var ctlKey atomic.Value
	intercept := func(rc *vnode.ReqCtx) bool {
		if atomic.LoadInt32(&silent) == 0 || rc.Node.Spec.Key() != ctlKey.Load().(string) {
			return false
		}
		switch rc.Req.Kind {
		case "OPTIONS":
			if c.Silent == "options" || c.Silent == "both" {
				atomic.AddInt32(&heldOptions, 1)
				return true
			}
		case "QUERY":
			if (c.Silent == "queries" || c.Silent == "both") && strings.Contains(rc.Req.Statement, "system.") {
				atomic.AddInt32(&heldQueries, 1)
				return true
			}
		}
		return false
	}
	for _, nd := range cl.Nodes() {
		nd.Intercept = intercept
	}
	s, err := vxClusterConfig(cl, c.Proto, func(cfg *ClusterConfig) {
		cfg.Timeout = time.Duration(c.TimeoutMs) * time.Millisecond
		cfg.ConnectTimeout = 300 * time.Millisecond
		cfg.PoolConfig.HostSelectionPolicy = RoundRobinHostPolicy()
	}).CreateSession()
	if err != nil {
		return fmt.Errorf("harness: CreateSession: %v", err)
	}
	closed := false
	defer func() {
		if !closed {
			go s.Close()
		}
	}()
	old := s.control.getConn()
	if old == nil {
		return fmt.Errorf("harness: no control connection after CreateSession")
	}
	for _, nd := range cl.Nodes() {
		for _, sc := range nd.Conns() {
			if net.Conn(sc.Client) == old.conn.conn {
				ctlNode = nd
			}
		}
	}
	if ctlNode == nil {
		return fmt.Errorf("harness: cannot find the node of the control connection")
	}
	ctlKey.Store(ctlNode.Spec.Key())
	atomic.StoreInt32(&silent, 1)

	refreshDone := make(chan error, 1)
	if c.Refresh {
		go func() { refreshDone <- s.refreshRing() }()
		if c.Silent != "options" {
			deadline := time.Now().Add(3 * time.Second)
			for atomic.LoadInt32(&heldQueries) == 0 && time.Now().Before(deadline) {
				time.Sleep(time.Millisecond)
			}
			if atomic.LoadInt32(&heldQueries) == 0 {
				return fmt.Errorf("harness: the ring refresh sent no system query to the control node within 3 s")
			}
		}
	}
	if c.Probe && c.Silent != "queries" {
		// the heartbeat's first probe goes out one second after the control connection was set up
		deadline := time.Now().Add(4 * time.Second)
		for atomic.LoadInt32(&heldOptions) == 0 && time.Now().Before(deadline) {
			time.Sleep(2 * time.Millisecond)
		}
		if atomic.LoadInt32(&heldOptions) == 0 {
			return fmt.Errorf("harness: no heartbeat probe reached the control node within 4 s")
		}
		k.NonTrivial()
		k.Class("closed while the heartbeat's probe is unanswered")
	}
	if c.Refresh && c.Silent != "options" {
		k.NonTrivial()
		k.Class("closed while a refresh query is unanswered")
	}
	k.Class(fmt.Sprintf("timeout=%dms silent=%s", c.TimeoutMs, c.Silent))

	var wg sync.WaitGroup
	ret := make(chan struct{})
	for i := 0; i < c.Closers; i++ {
		wg.Add(1)
		go func() { defer wg.Done(); s.Close() }()
	}
	closed = true
	go func() { wg.Wait(); close(ret) }()
	select {
	case <-ret:
	case <-time.After(6 * time.Second):
		stuck := ""
		for _, g := range vxGoroutines() {
			if g.has("(*controlConn).close") || g.has("(*Session).Close") {
				stuck += fmt.Sprintf(" [%s: %s]", g.State, strings.Join(g.Funcs, " < "))
			}
		}
		// unblock whatever waits so that the process can go on
		for _, nd := range cl.Nodes() {
			for _, sc := range nd.Conns() {
				sc.Close()
			}
		}
		select {
		case <-ret:
		case <-time.After(10 * time.Second):
		}
		return fmt.Errorf("Session.Close did not return within 6 s (Timeout %d ms, ConnectTimeout 300 ms; the control node stopped answering %s; heartbeat probes held %d, system queries held %d):%s",
			c.TimeoutMs, c.Silent, atomic.LoadInt32(&heldOptions), atomic.LoadInt32(&heldQueries), stuck)
	}
	if c.Refresh {
		select {
		case <-refreshDone:
		case <-time.After(5 * time.Second):
			for _, nd := range cl.Nodes() {
				for _, sc := range nd.Conns() {
					sc.Close()
				}
			}
			return fmt.Errorf("the session is closed, yet a ring refresh that was waiting for the silent control node did not return within 5 s")
		}
	}
	if err := s.Query("SELECT v FROM t").Exec(); err != ErrSessionClosed {
		return fmt.Errorf("query after Close: got %v, want %v", err, ErrSessionClosed)
	}
	// every connection is closed, the driver's goroutines are gone
	deadline := time.Now().Add(5 * time.Second)
	for {
		open := 0
		for _, nd := range cl.Nodes() {
			open += nd.OpenConns()
		}
		var left []vxGor
		for _, g := range vxDriverGoroutines() {
			if !before[g.ID] {
				left = append(left, g)
			}
		}
		if open == 0 && len(left) == 0 {
			break
		}
		if time.Now().After(deadline) {
			if open != 0 {
				return fmt.Errorf("5 s after Close returned the nodes still hold %d open connection(s)", open)
			}
			return fmt.Errorf("5 s after Close returned %d goroutine(s) of the driver are still there: %s", len(left), vxGorSummary(left))
		}
		time.Sleep(5 * time.Millisecond)
	}
	return nil
}

func TestVxC17CloseSilent(t *testing.T) {
	vx.Check(t, vx.Prop{
		ID: "C17", Part: "TestVxC17CloseSilent",
		Rule: "protocol 1..5, 1..3 nodes, Timeout 0 (requests wait for ever) or 40..1000 ms, ConnectTimeout 300 ms; after CreateSession the control node keeps its connections but stops answering OPTIONS, system queries, or both; optionally the case waits until the heartbeat's probe is outstanding and/or starts a ring refresh whose query is outstanding; then 1..3 goroutines call Close; oracle: every Close returns within 6 s, a waiting refresh returns, a query fails with ErrSessionClosed, within 5 s no connection is open at any node and no goroutine started by the driver is left; non-trivial = a probe or a refresh query was outstanding when Close was called; distinct by the case",
		Draw: func(t *rapid.T) interface{} {
			c := &vxC17SilentCase{Proto: rapid.IntRange(1, 5).Draw(t, "proto"), N: rapid.IntRange(1, 3).Draw(t, "n"),
				Silent:  rapid.SampledFrom([]string{"options", "queries", "both"}).Draw(t, "silent"),
				Probe:   rapid.IntRange(0, 2).Draw(t, "probe") == 0,
				Refresh: rapid.Bool().Draw(t, "refresh"),
				Closers: rapid.IntRange(1, 3).Draw(t, "closers")}
			if rapid.Bool().Draw(t, "forever") {
				c.TimeoutMs = 0
			} else {
				c.TimeoutMs = rapid.SampledFrom([]int{40, 150, 1000}).Draw(t, "timeout")
			}
			return c
		},
		New: func() interface{} { return &vxC17SilentCase{} },
		Run: func(ci interface{}, k *vstats.Case) error {
			return vxRunC17Silent(ci.(*vxC17SilentCase), k)
		},
	})
}

// ---------------------------------------------------------------------------------------------
// A session that cannot be created leaves nothing behind: NewSession starts its debouncers before it
// looks at the TLS options or dials anybody, and the caller gets no Session it could close.

type vxC17FailCase struct {
	Why    string `json:"why"`    // "ca-missing", "cert-only", "key-only", "ca-garbage", "refused", "auth-both"
	Proto  int    `json:"proto"`  // for "refused"
	Repeat int    `json:"repeat"` // attempts in a row
}

func vxRunC17Failed(c *vxC17FailCase, k *vstats.Case) error {
	if c.Repeat < 1 || c.Repeat > 6 || c.Proto < 1 || c.Proto > 5 {
		return nil
	}
	fx, err := vxC20Fixture()
	if err != nil {
		return fmt.Errorf("harness: fixture: %v", err)
	}
	before := map[int]bool{}
	for _, g := range vxDriverGoroutines() {
		before[g.ID] = true
	}
	for i := 0; i < c.Repeat; i++ {
		cl := vnode.NewCluster(vxSpecs(2, 1))
		cfg := vxClusterConfig(cl, c.Proto, func(cfg *ClusterConfig) { cfg.ConnectTimeout = 300 * time.Millisecond })
		switch c.Why {
		case "ca-missing":
			cfg.SslOpts = &SslOptions{CaPath: fx.missing}
		case "ca-garbage":
			cfg.SslOpts = &SslOptions{CaPath: fx.garbage}
		case "cert-only":
			cfg.SslOpts = &SslOptions{CertPath: fx.cliCert}
		case "key-only":
			cfg.SslOpts = &SslOptions{KeyPath: fx.cliKey}
		case "refused":
			for _, nd := range cl.Nodes() {
				nd.SetRefuse("refuse")
			}
		default:
			return nil
		}
		s, err := cfg.CreateSession()
		if err == nil {
			s.Close()
			return fmt.Errorf("harness: CreateSession succeeded although it cannot (%s)", c.Why)
		}
	}
	k.NonTrivial()
	k.Class("session not created: " + c.Why)
	deadline := time.Now().Add(5 * time.Second)
	for {
		var left []vxGor
		for _, g := range vxDriverGoroutines() {
			if !before[g.ID] {
				left = append(left, g)
			}
		}
		if len(left) == 0 {
			return nil
		}
		if time.Now().After(deadline) {
			return fmt.Errorf("%d attempt(s) to create a session failed (%s) and returned no Session; 5 s later %d goroutine(s) of the driver are still there: %s", c.Repeat, c.Why, len(left), vxGorSummary(left))
		}
		time.Sleep(5 * time.Millisecond)
	}
}

func TestVxC17FailedSession(t *testing.T) {
	vx.Check(t, vx.Prop{
		ID: "C17", Part: "TestVxC17FailedSession",
		Rule: "1..6 attempts in a row to create a session that cannot be created (CaPath missing or not PEM, CertPath without KeyPath and the reverse, every node refuses connections; protocol 1..5); oracle: CreateSession returns an error, and within 5 s no goroutine started by the driver is left (the caller holds no Session it could close); every case is non-trivial; distinct by the case",
		Draw: func(t *rapid.T) interface{} {
			return &vxC17FailCase{Why: rapid.SampledFrom([]string{"ca-missing", "ca-garbage", "cert-only", "key-only", "refused"}).Draw(t, "why"),
				Proto: rapid.IntRange(1, 5).Draw(t, "proto"), Repeat: rapid.IntRange(1, 6).Draw(t, "repeat")}
		},
		New: func() interface{} { return &vxC17FailCase{} },
		Run: func(ci interface{}, k *vstats.Case) error {
			return vxRunC17Failed(ci.(*vxC17FailCase), k)
		},
	})
}

// ---------------------------------------------------------------------------------------------
// A connection that dies between the end of its handshake and its insertion into the pool: the pool's
// error handler runs before the connection is in the pool, finds nothing to remove - and the connection
// must not be inserted afterwards as if it were alive. (A ConnectObserver runs in exactly that window.)

type vxC17DieCase struct {
	Proto    int   `json:"proto"`
	Hosts    int   `json:"hosts"`
	NumConns int   `json:"num_conns"`
	Kill     []int `json:"kill"` // which successful connects (counted over the session, 1-based) lose their connection in the window
}

type vxC17DieObs struct{ f func(ObservedConnect) }

func (o vxC17DieObs) ObserveConnect(c ObservedConnect) { o.f(c) }

func vxRunC17Die(c *vxC17DieCase, k *vstats.Case) error {
	if c.Proto < 1 || c.Proto > 5 || c.Hosts < 1 || c.Hosts > 3 || c.NumConns < 1 || c.NumConns > 3 || len(c.Kill) == 0 || len(c.Kill) > 3 {
		return nil
	}
	kill := map[int]bool{}
	for _, x := range c.Kill {
		if x < 2 || x > 12 {
			return nil // connect #1 is the control connection's: its loss before CreateSession returns fails the session
		}
		kill[x] = true
	}
	cl := vnode.NewCluster(vxSpecs(c.Hosts, 1))
	var mu sync.Mutex
	n, killed := 0, 0
	obs := vxC17DieObs{f: func(o ObservedConnect) {
		if o.Err != nil {
			return
		}
		mu.Lock()
		n++
		hit := kill[n]
		mu.Unlock()
		if !hit {
			return
		}
		// the newest connection of that node is the one just established
		nd := cl.Node(o.Host.ConnectAddress().String())
		if nd == nil {
			return
		}
		cs := nd.Conns()
		if len(cs) == 0 {
			return
		}
		cs[len(cs)-1].Close()
		mu.Lock()
		killed++
		mu.Unlock()
		time.Sleep(30 * time.Millisecond) // the driver's reader sees the end of the stream and reports the connection closed
	}}
	s, err := vxClusterConfig(cl, c.Proto, func(cfg *ClusterConfig) {
		cfg.NumConns = c.NumConns
		cfg.ConnectObserver = obs
		cfg.ConnectTimeout = time.Second
		// a connection lost in the window is a failed connect: if it was the pool's only one the host is marked
		// down, as after any failed connect, and comes back through the periodic reconnection
		cfg.ReconnectInterval = 200 * time.Millisecond
		cfg.PoolConfig.HostSelectionPolicy = RoundRobinHostPolicy()
	}).CreateSession()
	if err != nil {
		k.Class("die: CreateSession failed")
		return nil
	}
	defer s.Close()
	// queries keep coming (a pool that is short refills when it is picked)
	deadline := time.Now().Add(8 * time.Second)
	var last string
	for {
		qerr := s.Query("LIST x").Exec()
		good := true
		open := 0
		s.pool.mu.RLock()
		for _, p := range s.pool.hostConnPools {
			p.mu.RLock()
			for _, pc := range p.conns {
				if pc.Closed() {
					good = false
					last = fmt.Sprintf("the pool of %s holds a closed connection", p.host.ConnectAddress())
				} else {
					open++
				}
			}
			p.mu.RUnlock()
		}
		s.pool.mu.RUnlock()
		if open != c.Hosts*c.NumConns {
			good = false
			if last == "" || !strings.Contains(last, "closed connection") {
				last = fmt.Sprintf("%d open pool connections, want %d", open, c.Hosts*c.NumConns)
			}
		}
		if qerr != nil {
			good = false
			last += fmt.Sprintf("; query: %v", qerr)
		}
		if good {
			break
		}
		if time.Now().After(deadline) {
			mu.Lock()
			kd := killed
			mu.Unlock()
			return fmt.Errorf("%d connection(s) were closed by their node between the handshake and the insertion into the pool; 8 s of queries later: %s", kd, last)
		}
		last = ""
		time.Sleep(10 * time.Millisecond)
	}
	mu.Lock()
	kd := killed
	mu.Unlock()
	if kd > 0 {
		k.NonTrivial()
		k.Class(fmt.Sprintf("die: %d connection(s) lost before insertion", kd))
	} else {
		k.Class("die: nothing lost")
	}
	return nil
}

func TestVxC17DiesBeforePooled(t *testing.T) {
	vx.Check(t, vx.Prop{
		ID: "C17", Part: "TestVxC17DiesBeforePooled",
		Rule: "protocol 1..5, 1..3 hosts x 1..3 connections; 1..3 of the session's successful connects (the 2nd..12th) lose their connection inside the ConnectObserver, i.e. after the handshake and before the pool inserts it; queries keep coming, ReconnectInterval 200 ms (a host whose only connection was lost that way is marked down like after any failed connect); oracle: within 8 s every pool holds NumConns open connections, none of them closed, and a query succeeds; non-trivial = a connection was lost in the window; distinct by the case",
		Draw: func(t *rapid.T) interface{} {
			c := &vxC17DieCase{Proto: rapid.IntRange(1, 5).Draw(t, "proto"), Hosts: rapid.IntRange(1, 3).Draw(t, "hosts"), NumConns: rapid.IntRange(1, 3).Draw(t, "numconns")}
			seen := map[int]bool{}
			for i := rapid.IntRange(1, 3).Draw(t, "nkill"); i > 0; i-- {
				x := rapid.IntRange(2, 2+c.Hosts*c.NumConns+2).Draw(t, "kill")
				if !seen[x] {
					seen[x] = true
					c.Kill = append(c.Kill, x)
				}
			}
			return c
		},
		New: func() interface{} { return &vxC17DieCase{} },
		Run: func(ci interface{}, k *vstats.Case) error {
			return vxRunC17Die(ci.(*vxC17DieCase), k)
		},
	})
}

// ---------------------------------------------------------------------------------------------
// Close called by several goroutines while closing takes time (connections whose Close is slow, as a TLS
// connection's is towards a slow peer): whichever call returns, the session is closed at that moment.

type vxC17TwiceCase struct {
	Proto    int   `json:"proto"`
	Hosts    int   `json:"hosts"`
	NumConns int   `json:"num_conns"`
	DelayMs  int   `json:"delay_ms"` // time one connection's Close takes
	Stagger  []int `json:"stagger"`  // start of each Close call, ms after the first (2..3 calls)
}

type vxSlowDialer struct {
	cl    *vnode.Cluster
	delay time.Duration
	open  int32
}

type vxSlowConn struct {
	net.Conn
	d    *vxSlowDialer
	once sync.Once
}

func (d *vxSlowDialer) DialContext(ctx context.Context, network, addr string) (net.Conn, error) {
	c, err := d.cl.DialContext(ctx, network, addr)
	if err != nil {
		return nil, err
	}
	atomic.AddInt32(&d.open, 1)
	return &vxSlowConn{Conn: c, d: d}, nil
}

func (c *vxSlowConn) Close() error {
	time.Sleep(c.d.delay)
	err := c.Conn.Close()
	c.once.Do(func() { atomic.AddInt32(&c.d.open, -1) })
	return err
}

func vxRunC17Twice(c *vxC17TwiceCase, k *vstats.Case) error {
	if c.Proto < 1 || c.Proto > 5 || c.Hosts < 1 || c.Hosts > 2 || c.NumConns < 1 || c.NumConns > 2 || c.DelayMs < 10 || c.DelayMs > 300 || len(c.Stagger) < 2 || len(c.Stagger) > 3 {
		return nil
	}
	cl := vnode.NewCluster(vxSpecs(c.Hosts, 1))
	d := &vxSlowDialer{cl: cl, delay: time.Duration(c.DelayMs) * time.Millisecond}
	s, err := vxClusterConfig(cl, c.Proto, func(cfg *ClusterConfig) {
		cfg.NumConns = c.NumConns
		cfg.Dialer = d
		cfg.PoolConfig.HostSelectionPolicy = RoundRobinHostPolicy()
	}).CreateSession()
	if err != nil {
		return fmt.Errorf("harness: CreateSession: %v", err)
	}
	if err := s.Query("LIST x").Exec(); err != nil {
		s.Close()
		return fmt.Errorf("harness: query: %v", err)
	}
	type ret struct {
		i      int
		closed bool
		open   int32
		qerr   error
		qtook  time.Duration
		took   time.Duration
	}
	rets := make(chan ret, len(c.Stagger))
	for i, ms := range c.Stagger {
		go func(i, ms int) {
			time.Sleep(time.Duration(ms) * time.Millisecond)
			t0 := time.Now()
			s.Close()
			r := ret{i: i, took: time.Since(t0), closed: s.Closed(), open: atomic.LoadInt32(&d.open)}
			q0 := time.Now()
			r.qerr = s.Query("LIST y").Exec()
			r.qtook = time.Since(q0)
			rets <- r
		}(i, ms)
	}
	early := false
	for range c.Stagger {
		select {
		case r := <-rets:
			if r.took < time.Duration(c.DelayMs)*time.Millisecond/2 {
				early = true
			}
			if !r.closed || r.open != 0 {
				return fmt.Errorf("Close call %d (started %d ms after the first, one connection's Close takes %d ms) returned after %v: Session.Closed() = %v, %d connection(s) still open - another Close was still at work",
					r.i, c.Stagger[r.i], c.DelayMs, r.took.Round(time.Millisecond), r.closed, r.open)
			}
			if r.qerr != ErrSessionClosed {
				return fmt.Errorf("Close call %d returned; a query issued then failed with %v after %v, want %v at once", r.i, r.qerr, r.qtook.Round(time.Millisecond), ErrSessionClosed)
			}
		case <-time.After(20 * time.Second):
			return fmt.Errorf("a Close call did not return within 20 s")
		}
	}
	k.NonTrivial()
	if early {
		k.Class("twice: a call returned at once (the session was closed already)")
	} else {
		k.Class("twice: every call waited")
	}
	return nil
}

func TestVxC17CloseTwice(t *testing.T) {
	vx.Check(t, vx.Prop{
		ID: "C17", Part: "TestVxC17CloseTwice",
		Rule: "protocol 1..5, 1..2 hosts x 1..2 connections whose Close takes 10..300 ms; 2..3 goroutines call Session.Close, started 0..400 ms apart (inside and after the time the first call needs); oracle: when any of the calls returns, Session.Closed() is true, no connection is open any more and a query fails with ErrSessionClosed; every case is non-trivial; distinct by the case",
		Draw: func(t *rapid.T) interface{} {
			c := &vxC17TwiceCase{Proto: rapid.IntRange(1, 5).Draw(t, "proto"), Hosts: rapid.IntRange(1, 2).Draw(t, "hosts"), NumConns: rapid.IntRange(1, 2).Draw(t, "numconns"),
				DelayMs: rapid.SampledFrom([]int{20, 80, 200}).Draw(t, "delay")}
			c.Stagger = []int{0}
			for i := rapid.IntRange(1, 2).Draw(t, "more"); i > 0; i-- {
				c.Stagger = append(c.Stagger, rapid.SampledFrom([]int{0, 1, 10, 50, 120, 400}).Draw(t, "at"))
			}
			return c
		},
		New: func() interface{} { return &vxC17TwiceCase{} },
		Run: func(ci interface{}, k *vstats.Case) error { return vxRunC17Twice(ci.(*vxC17TwiceCase), k) },
	})
}

// ---------------------------------------------------------------------------------------------
// C06, quiet time after the handshake: the handshake reads its answers under ConnectTimeout; whatever deadline
// its last read left on the socket must not outlive it. A connection that is idle for longer than ConnectTimeout
// (and Timeout) after the handshake still answers the next request - also with Timeout 0, also when the last
// handshake frame had a body (AUTH_SUCCESS with a token, a compressed READY).

type vxC06IdleCase struct {
	Proto     int  `json:"proto"`
	Auth      bool `json:"auth"`
	TimeoutMs int  `json:"timeout_ms"` // 0: requests wait for ever
	ConnectMs int  `json:"connect_ms"`
	NumConns  int  `json:"num_conns"`
}

func vxRunC06Idle(c *vxC06IdleCase, k *vstats.Case) error {
	if c.Proto < 1 || c.Proto > 5 || c.NumConns < 1 || c.NumConns > 2 || c.ConnectMs < 50 || c.ConnectMs > 500 || c.TimeoutMs < 0 || c.TimeoutMs > 2000 || (c.Auth && c.Proto < 2) {
		return nil
	}
	cl := vnode.NewCluster(vxSpecs(1, 1))
	node := cl.Nodes()[0]
	if c.Auth {
		node.AuthClass = "org.apache.cassandra.auth.PasswordAuthenticator"
		node.RequireAuth = true
	}
	s, err := vxClusterConfig(cl, c.Proto, func(cfg *ClusterConfig) {
		cfg.NumConns = c.NumConns
		cfg.Timeout = time.Duration(c.TimeoutMs) * time.Millisecond
		cfg.ConnectTimeout = time.Duration(c.ConnectMs) * time.Millisecond
		if c.Auth {
			cfg.Authenticator = PasswordAuthenticator{Username: "cassandra", Password: "cassandra"}
		}
	}).CreateSession()
	if err != nil {
		return fmt.Errorf("harness: CreateSession: %v", err)
	}
	defer s.Close()
	for deadline := time.Now().Add(3 * time.Second); len(vxPoolConns(s)) < c.NumConns && time.Now().Before(deadline); {
		time.Sleep(time.Millisecond) // the pool fills in the background
	}
	if len(vxPoolConns(s)) != c.NumConns {
		return fmt.Errorf("harness: pool not filled")
	}
	conns0 := len(node.Conns())
	idle := time.Duration(c.ConnectMs)*time.Millisecond*3/2 + 30*time.Millisecond
	if t := time.Duration(c.TimeoutMs) * time.Millisecond * 3 / 2; t > idle && c.TimeoutMs <= 300 {
		idle = t
	}
	time.Sleep(idle)
	closed := 0
	for _, sc := range node.Conns() {
		if sc.Client.Closed() {
			closed++
		}
	}
	if closed > 0 || len(node.Conns()) != conns0 {
		return fmt.Errorf("%v after the handshake (ConnectTimeout %d ms, Timeout %d ms, authentication %v) and without any request, %d of %d connections were closed by the driver and %d new ones opened",
			idle, c.ConnectMs, c.TimeoutMs, c.Auth, closed, conns0, len(node.Conns())-conns0)
	}
	for i := 0; i < 2*c.NumConns; i++ {
		if err := s.Query("LIST x").Exec(); err != nil {
			return fmt.Errorf("%v after the handshake (ConnectTimeout %d ms, Timeout %d ms, authentication %v) query %d failed: %v", idle, c.ConnectMs, c.TimeoutMs, c.Auth, i, err)
		}
	}
	k.NonTrivial()
	k.Class(fmt.Sprintf("idle: auth=%v timeout0=%v", c.Auth, c.TimeoutMs == 0))
	return nil
}

func TestVxC06IdleAfterHandshake(t *testing.T) {
	vx.Check(t, vx.Prop{
		ID: "C06", Part: "TestVxC06IdleAfterHandshake",
		Rule: "protocol 1..5, password authentication or none, Timeout 0 / 60 / 300 / 2000 ms, ConnectTimeout 60..300 ms, 1..2 connections; after CreateSession nothing is sent for 1.5 ConnectTimeout (or 1.5 Timeout); oracle: the driver has closed no connection, and the following queries succeed; every case is non-trivial; distinct by the case",
		Draw: func(t *rapid.T) interface{} {
			c := &vxC06IdleCase{Proto: rapid.IntRange(1, 5).Draw(t, "proto"), Auth: rapid.Bool().Draw(t, "auth"),
				TimeoutMs: rapid.SampledFrom([]int{0, 0, 60, 300, 2000}).Draw(t, "timeout"), ConnectMs: rapid.SampledFrom([]int{60, 150, 300}).Draw(t, "connect"),
				NumConns: rapid.IntRange(1, 2).Draw(t, "numconns")}
			if c.Proto < 2 {
				c.Auth = false
			}
			return c
		},
		New: func() interface{} { return &vxC06IdleCase{} },
		Run: func(ci interface{}, k *vstats.Case) error { return vxRunC06Idle(ci.(*vxC06IdleCase), k) },
	})
}

// ---------------------------------------------------------------------------------------------
// A connection lost while the pool's fill is still connecting: the error handler's own fill() finds the filling
// flag set and returns; the running fill computed its count before the loss. The pool must be whole again
// without anybody asking (an idle session, a host no query is routed to).

type vxC17LostFillCase struct {
	Proto    int `json:"proto"`
	NumConns int `json:"num_conns"` // 2..4
	HoldMs   int `json:"hold_ms"`   // how long the handshake of the last connection is held
}

func vxRunC17LostFill(c *vxC17LostFillCase, k *vstats.Case) error {
	if c.Proto < 1 || c.Proto > 5 || c.NumConns < 2 || c.NumConns > 4 || c.HoldMs < 20 || c.HoldMs > 500 {
		return nil
	}
	cl := vnode.NewCluster(vxSpecs(1, 1))
	node := cl.Nodes()[0]
	var mu sync.Mutex
	startups := 0
	var heldRC *vnode.ReqCtx
	heldCh := make(chan struct{})
	node.Intercept = func(rc *vnode.ReqCtx) bool {
		if rc.Req.Kind != "STARTUP" {
			return false
		}
		mu.Lock()
		defer mu.Unlock()
		startups++
		// connection 1 is the control connection's; the pool's are 2 .. NumConns+1
		if startups == c.NumConns+1 && heldRC == nil {
			heldRC = rc
			close(heldCh)
			return true
		}
		return false
	}
	s, err := vxClusterConfig(cl, c.Proto, func(cfg *ClusterConfig) {
		cfg.NumConns = c.NumConns
		cfg.ConnectTimeout = 3 * time.Second
	}).CreateSession()
	if err != nil {
		return fmt.Errorf("harness: CreateSession: %v", err)
	}
	defer s.Close()
	select {
	case <-heldCh:
	case <-time.After(5 * time.Second):
		return fmt.Errorf("harness: the last pool connection never started its handshake")
	}
	// the fill is waiting for that handshake; meanwhile a connection that is already in the pool is lost
	var victim *Conn
	for deadline := time.Now().Add(3 * time.Second); victim == nil && time.Now().Before(deadline); time.Sleep(time.Millisecond) {
		if pcs := vxPoolConns(s); len(pcs) > 0 {
			victim = pcs[0]
		}
	}
	if victim == nil {
		return fmt.Errorf("harness: no pool connection yet")
	}
	for _, sc := range node.Conns() {
		if net.Conn(sc.Client) == victim.conn {
			sc.Close()
		}
	}
	time.Sleep(time.Duration(c.HoldMs) * time.Millisecond)
	mu.Lock()
	rc := heldRC
	mu.Unlock()
	rc.Reply(&cqlspec.Response{Kind: "READY"})
	// nobody asks anything
	deadline := time.Now().Add(4 * time.Second)
	for {
		open := 0
		for _, pc := range vxPoolConns(s) {
			if !pc.Closed() {
				open++
			}
		}
		if open == c.NumConns {
			break
		}
		if time.Now().After(deadline) {
			return fmt.Errorf("a pool connection was lost while the pool's fill was still connecting (the last handshake answered %d ms later); 4 s later, with no query issued, the pool holds %d of %d connections", c.HoldMs, open, c.NumConns)
		}
		time.Sleep(5 * time.Millisecond)
	}
	k.NonTrivial()
	k.Class(fmt.Sprintf("lost during fill: numconns=%d", c.NumConns))
	return nil
}

func TestVxC17LostDuringFill(t *testing.T) {
	vx.Check(t, vx.Prop{
		ID: "C17", Part: "TestVxC17LostDuringFill",
		Rule: "protocol 1..5, one host with 2..4 connections; the handshake of the pool's last connection is held by the node for 20..300 ms, meanwhile the node closes a connection that is already in the pool; no query is issued; oracle: within 4 s of the held handshake's answer the pool holds NumConns open connections; every case is non-trivial; distinct by the case",
		Draw: func(t *rapid.T) interface{} {
			return &vxC17LostFillCase{Proto: rapid.IntRange(1, 5).Draw(t, "proto"), NumConns: rapid.IntRange(2, 4).Draw(t, "numconns"), HoldMs: rapid.SampledFrom([]int{20, 100, 300}).Draw(t, "hold")}
		},
		New: func() interface{} { return &vxC17LostFillCase{} },
		Run: func(ci interface{}, k *vstats.Case) error { return vxRunC17LostFill(ci.(*vxC17LostFillCase), k) },
	})
}

// ---------------------------------------------------------------------------------------------
// C06, a connection that fails while one caller is inside a Write that does not return (the peer has stopped
// reading; with Timeout 0 there is no write deadline): closing the connection must not wait for that caller -
// it is the closing of the socket that frees it.

type vxC06BlockCase struct {
	Proto    int  `json:"proto"`
	Coalesce bool `json:"coalesce"`
	Others   int  `json:"others"` // requests already in flight (written, unanswered) when the Write blocks
}

type vxBlockDialer struct {
	cl    *vnode.Cluster
	mu    sync.Mutex
	conns []*vxBlockConn
}

type vxBlockConn struct {
	net.Conn
	armed   int32
	entered int32
	closed  chan struct{}
	once    sync.Once
}

func (d *vxBlockDialer) DialContext(ctx context.Context, network, addr string) (net.Conn, error) {
	c, err := d.cl.DialContext(ctx, network, addr)
	if err != nil {
		return nil, err
	}
	bc := &vxBlockConn{Conn: c, closed: make(chan struct{})}
	d.mu.Lock()
	d.conns = append(d.conns, bc)
	d.mu.Unlock()
	return bc, nil
}

func (c *vxBlockConn) Write(p []byte) (int, error) {
	if atomic.LoadInt32(&c.armed) == 1 {
		atomic.AddInt32(&c.entered, 1)
		<-c.closed // the peer has stopped reading: only closing the socket ends this Write
		return 0, net.ErrClosed
	}
	return c.Conn.Write(p)
}

func (c *vxBlockConn) Close() error {
	c.once.Do(func() { close(c.closed) })
	return c.Conn.Close()
}

func vxRunC06Block(c *vxC06BlockCase, k *vstats.Case) error {
	if c.Proto < 1 || c.Proto > 5 || c.Others < 0 || c.Others > 4 {
		return nil
	}
	cl := vnode.NewCluster(vxSpecs(1, 1))
	node := cl.Nodes()[0]
	node.Handler = func(rc *vnode.ReqCtx) {
		if rc.Req.Kind == "QUERY" && rc.Req.Statement == "LIST held" {
			return // never answered
		}
		rc.Reply(vxVoid())
	}
	d := &vxBlockDialer{cl: cl}
	s, err := vxClusterConfig(cl, c.Proto, func(cfg *ClusterConfig) {
		cfg.Dialer = d
		cfg.Timeout = 0
		cfg.WriteTimeout = 0
		cfg.ConnectTimeout = 2 * time.Second
		if c.Coalesce {
			cfg.WriteCoalesceWaitTime = 200 * time.Microsecond
		} else {
			cfg.WriteCoalesceWaitTime = 0
		}
	}).CreateSession()
	if err != nil {
		return fmt.Errorf("harness: CreateSession: %v", err)
	}
	closedSession := false
	defer func() {
		if !closedSession {
			go s.Close()
		}
	}()
	pcs := vxPoolConns(s)
	if len(pcs) != 1 {
		return fmt.Errorf("harness: %d pool connections", len(pcs))
	}
	bc, ok := pcs[0].conn.(*vxBlockConn)
	if !ok {
		return fmt.Errorf("harness: pool connection is a %T", pcs[0].conn)
	}
	var nodeSide *vnode.ServerConn
	for _, sc := range node.Conns() {
		if net.Conn(sc.Client) == bc.Conn {
			nodeSide = sc
		}
	}
	if nodeSide == nil {
		return fmt.Errorf("harness: node side of the pool connection not found")
	}
	results := make(chan error, c.Others+1)
	for i := 0; i < c.Others; i++ {
		go func() { results <- s.Query("LIST held").Exec() }()
	}
	for deadline := time.Now().Add(3 * time.Second); ; time.Sleep(time.Millisecond) {
		n := 0
		for _, l := range node.Log() {
			if l.Req != nil && l.Req.Kind == "QUERY" && l.Req.Statement == "LIST held" {
				n++
			}
		}
		if n >= c.Others {
			break
		}
		if time.Now().After(deadline) {
			return fmt.Errorf("harness: the held requests did not reach the node")
		}
	}
	atomic.StoreInt32(&bc.armed, 1)
	go func() { results <- s.Query("LIST blocked").Exec() }()
	for deadline := time.Now().Add(3 * time.Second); atomic.LoadInt32(&bc.entered) == 0; time.Sleep(time.Millisecond) {
		if time.Now().After(deadline) {
			return fmt.Errorf("harness: the blocked Write was not entered")
		}
	}
	// the node reports a protocol error on stream 0: the driver gives the connection up
	if err := nodeSide.Send(&cqlspec.Response{Kind: "ERROR", Version: c.Proto, Stream: 0, Code: cqlspec.ErrProtocol, Message: "vx: the node gives this connection up"}); err != nil {
		return fmt.Errorf("harness: send: %v", err)
	}
	for i := 0; i < c.Others+1; i++ {
		select {
		case err := <-results:
			if err == nil {
				return fmt.Errorf("a request on a connection the node gave up succeeded")
			}
		case <-time.After(5 * time.Second):
			select {
			case <-bc.closed:
				return fmt.Errorf("the node reported a protocol error on stream 0 while one caller was inside a Write that does not return; the socket was closed, yet %d of %d callers had not returned 5 s later", c.Others+1-i, c.Others+1)
			default:
			}
			// free the process before reporting
			bc.Close()
			return fmt.Errorf("the node reported a protocol error on stream 0 while one caller was inside a Write that does not return (Timeout 0: no write deadline); 5 s later the driver has not closed the socket and %d of %d callers have not returned - closing waits for the caller that only the closing can free", c.Others+1-i, c.Others+1)
		}
	}
	select {
	case <-bc.closed:
	case <-time.After(3 * time.Second):
		bc.Close()
		return fmt.Errorf("every caller returned, but the driver has not closed the socket of the connection the node gave up")
	}
	closedSession = true
	done := make(chan struct{})
	go func() { s.Close(); close(done) }()
	select {
	case <-done:
	case <-time.After(10 * time.Second):
		return fmt.Errorf("Session.Close did not return within 10 s (hang)")
	}
	k.NonTrivial()
	k.Class(fmt.Sprintf("blocked writer: coalesce=%v others=%d", c.Coalesce, c.Others))
	return nil
}

func TestVxC06BlockedWriter(t *testing.T) {
	vx.Check(t, vx.Prop{
		ID: "C06", Part: "TestVxC06BlockedWriter",
		Rule: "protocol 1..5, Timeout 0 and no write timeout, write coalescing on or off, 0..4 requests in flight; one more caller enters a Write that returns only when the socket is closed (a peer that has stopped reading); the node then reports a protocol error on stream 0; oracle: within 5 s every caller has returned with an error and the driver has closed the socket; Session.Close returns; every case is non-trivial; distinct by the case",
		Draw: func(t *rapid.T) interface{} {
			return &vxC06BlockCase{Proto: rapid.IntRange(1, 5).Draw(t, "proto"), Coalesce: rapid.Bool().Draw(t, "coalesce"), Others: rapid.IntRange(0, 4).Draw(t, "others")}
		},
		New: func() interface{} { return &vxC06BlockCase{} },
		Run: func(ci interface{}, k *vstats.Case) error { return vxRunC06Block(ci.(*vxC06BlockCase), k) },
	})
}
