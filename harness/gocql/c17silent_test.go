//go:build verif && go1.21

package gocql

// C17, "Close returns ... while queries, refreshes and reconnects are in progress": the control node falls
// silent (it keeps its connections open but stops answering OPTIONS, system queries, or both), a heartbeat
// probe and/or a ring refresh is waiting on it, and the session is closed. With Timeout 0 nothing but Close
// itself can end those waits. Close must return, every connection must be closed at the nodes, the
// driver's goroutines must be gone, a refresh that was waiting must return, and new queries must fail.

import (
	"fmt"
	"net"
	"strings"
	"sync"
	"sync/atomic"
	"testing"
	"time"

	"pgregory.net/rapid"
	"verif.local/vnode"
	"verif.local/vstats"
	"verif.local/vx"
)

type vxC17SilentCase struct {
	Proto     int    `json:"proto"`
	N         int    `json:"n"`
	TimeoutMs int    `json:"timeout_ms"` // ClusterConfig.Timeout; 0 = requests wait for ever
	Silent    string `json:"silent"`     // what the control node stops answering: "options", "queries", "both"
	Probe     bool   `json:"probe"`      // wait until the heartbeat's OPTIONS is outstanding before closing
	Refresh   bool   `json:"refresh"`    // a ring refresh is started (and its query outstanding, if queries are silenced) before closing
	Closers   int    `json:"closers"`    // concurrent calls of Close
}

func vxRunC17Silent(c *vxC17SilentCase, k *vstats.Case) error {
	if c.Proto < 1 || c.Proto > 5 || c.N < 1 || c.N > 3 || c.Closers < 1 || c.Closers > 3 ||
		(c.TimeoutMs != 0 && (c.TimeoutMs < 40 || c.TimeoutMs > 1000)) ||
		(c.Silent != "options" && c.Silent != "queries" && c.Silent != "both") {
		return nil
	}
	before := map[int]bool{}
	for _, g := range vxDriverGoroutines() {
		before[g.ID] = true
	}
	specs := vxSpecs(c.N, 1)
	cl := vnode.NewCluster(specs)
	var silent int32
	var heldOptions, heldQueries int32
	var ctlNode *vnode.Node
	var ctlKey atomic.Value
	intercept := func(rc *vnode.ReqCtx) bool {
		if atomic.LoadInt32(&silent) == 0 || rc.Node.Spec.Key() != ctlKey.Load().(string) {
			return false
		}
		switch rc.Req.Kind {
		case "OPTIONS":
			if c.Silent == "options" || c.Silent == "both" {
				atomic.AddInt32(&heldOptions, 1)
				return true
			}
		case "QUERY":
			if (c.Silent == "queries" || c.Silent == "both") && strings.Contains(rc.Req.Statement, "system.") {
				atomic.AddInt32(&heldQueries, 1)
				return true
			}
		}
		return false
	}
	for _, nd := range cl.Nodes() {
		nd.Intercept = intercept
	}
	s, err := vxClusterConfig(cl, c.Proto, func(cfg *ClusterConfig) {
		cfg.Timeout = time.Duration(c.TimeoutMs) * time.Millisecond
		cfg.ConnectTimeout = 300 * time.Millisecond
		cfg.PoolConfig.HostSelectionPolicy = RoundRobinHostPolicy()
	}).CreateSession()
	if err != nil {
		return fmt.Errorf("harness: CreateSession: %v", err)
	}
	closed := false
	defer func() {
		if !closed {
			go s.Close()
		}
	}()
	old := s.control.getConn()
	if old == nil {
		return fmt.Errorf("harness: no control connection after CreateSession")
	}
	for _, nd := range cl.Nodes() {
		for _, sc := range nd.Conns() {
			if net.Conn(sc.Client) == old.conn.conn {
				ctlNode = nd
			}
		}
	}
	if ctlNode == nil {
		return fmt.Errorf("harness: cannot find the node of the control connection")
	}
	ctlKey.Store(ctlNode.Spec.Key())
	atomic.StoreInt32(&silent, 1)

	refreshDone := make(chan error, 1)
	if c.Refresh {
		go func() { refreshDone <- s.refreshRing() }()
		if c.Silent != "options" {
			deadline := time.Now().Add(3 * time.Second)
			for atomic.LoadInt32(&heldQueries) == 0 && time.Now().Before(deadline) {
				time.Sleep(time.Millisecond)
			}
			if atomic.LoadInt32(&heldQueries) == 0 {
				return fmt.Errorf("harness: the ring refresh sent no system query to the control node within 3 s")
			}
		}
	}
	if c.Probe && c.Silent != "queries" {
		// the heartbeat's first probe goes out one second after the control connection was set up
		deadline := time.Now().Add(4 * time.Second)
		for atomic.LoadInt32(&heldOptions) == 0 && time.Now().Before(deadline) {
			time.Sleep(2 * time.Millisecond)
		}
		if atomic.LoadInt32(&heldOptions) == 0 {
			return fmt.Errorf("harness: no heartbeat probe reached the control node within 4 s")
		}
		k.NonTrivial()
		k.Class("closed while the heartbeat's probe is unanswered")
	}
	if c.Refresh && c.Silent != "options" {
		k.NonTrivial()
		k.Class("closed while a refresh query is unanswered")
	}
	k.Class(fmt.Sprintf("timeout=%dms silent=%s", c.TimeoutMs, c.Silent))

	var wg sync.WaitGroup
	ret := make(chan struct{})
	for i := 0; i < c.Closers; i++ {
		wg.Add(1)
		go func() { defer wg.Done(); s.Close() }()
	}
	closed = true
	go func() { wg.Wait(); close(ret) }()
	select {
	case <-ret:
	case <-time.After(6 * time.Second):
		stuck := ""
		for _, g := range vxGoroutines() {
			if g.has("(*controlConn).close") || g.has("(*Session).Close") {
				stuck += fmt.Sprintf(" [%s: %s]", g.State, strings.Join(g.Funcs, " < "))
			}
		}
		// unblock whatever waits so that the process can go on
		for _, nd := range cl.Nodes() {
			for _, sc := range nd.Conns() {
				sc.Close()
			}
		}
		select {
		case <-ret:
		case <-time.After(10 * time.Second):
		}
		return fmt.Errorf("Session.Close did not return within 6 s (Timeout %d ms, ConnectTimeout 300 ms; the control node stopped answering %s; heartbeat probes held %d, system queries held %d):%s",
			c.TimeoutMs, c.Silent, atomic.LoadInt32(&heldOptions), atomic.LoadInt32(&heldQueries), stuck)
	}
	if c.Refresh {
		select {
		case <-refreshDone:
		case <-time.After(5 * time.Second):
			for _, nd := range cl.Nodes() {
				for _, sc := range nd.Conns() {
					sc.Close()
				}
			}
			return fmt.Errorf("the session is closed, yet a ring refresh that was waiting for the silent control node did not return within 5 s")
		}
	}
	if err := s.Query("SELECT v FROM t").Exec(); err != ErrSessionClosed {
		return fmt.Errorf("query after Close: got %v, want %v", err, ErrSessionClosed)
	}
	// every connection is closed, the driver's goroutines are gone
	deadline := time.Now().Add(5 * time.Second)
	for {
		open := 0
		for _, nd := range cl.Nodes() {
			open += nd.OpenConns()
		}
		var left []vxGor
		for _, g := range vxDriverGoroutines() {
			if !before[g.ID] {
				left = append(left, g)
			}
		}
		if open == 0 && len(left) == 0 {
			break
		}
		if time.Now().After(deadline) {
			if open != 0 {
				return fmt.Errorf("5 s after Close returned the nodes still hold %d open connection(s)", open)
			}
			return fmt.Errorf("5 s after Close returned %d goroutine(s) of the driver are still there: %s", len(left), vxGorSummary(left))
		}
		time.Sleep(5 * time.Millisecond)
	}
	return nil
}

func TestVxC17CloseSilent(t *testing.T) {
	vx.Check(t, vx.Prop{
		ID: "C17", Part: "TestVxC17CloseSilent",
		Rule: "protocol 1..5, 1..3 nodes, Timeout 0 (requests wait for ever) or 40..1000 ms, ConnectTimeout 300 ms; after CreateSession the control node keeps its connections but stops answering OPTIONS, system queries, or both; optionally the case waits until the heartbeat's probe is outstanding and/or starts a ring refresh whose query is outstanding; then 1..3 goroutines call Close; oracle: every Close returns within 6 s, a waiting refresh returns, a query fails with ErrSessionClosed, within 5 s no connection is open at any node and no goroutine started by the driver is left; non-trivial = a probe or a refresh query was outstanding when Close was called; distinct by the case",
		Draw: func(t *rapid.T) interface{} {
			c := &vxC17SilentCase{Proto: rapid.IntRange(1, 5).Draw(t, "proto"), N: rapid.IntRange(1, 3).Draw(t, "n"),
				Silent:  rapid.SampledFrom([]string{"options", "queries", "both"}).Draw(t, "silent"),
				Probe:   rapid.IntRange(0, 2).Draw(t, "probe") == 0,
				Refresh: rapid.Bool().Draw(t, "refresh"),
				Closers: rapid.IntRange(1, 3).Draw(t, "closers")}
			if rapid.Bool().Draw(t, "forever") {
				c.TimeoutMs = 0
			} else {
				c.TimeoutMs = rapid.SampledFrom([]int{40, 150, 1000}).Draw(t, "timeout")
			}
			return c
		},
		New: func() interface{} { return &vxC17SilentCase{} },
		Run: func(ci interface{}, k *vstats.Case) error {
			return vxRunC17Silent(ci.(*vxC17SilentCase), k)
		},
	})
}
