//go:build verif && go1.21

package gocql

// C15 for queries bound to one connection (Conn.query: what the driver itself uses for system.local, system.peers,
// the schema tables): a paged result is read page after page on that connection - the paging state a node handed out
// is only good there - and every row arrives once, in order.

import (
	"context"
	"encoding/hex"
	"fmt"
	"sync"
	"testing"
	"time"

	"pgregory.net/rapid"
	"verif.local/cqlspec"
	"verif.local/vnode"
	"verif.local/vstats"
	"verif.local/vx"
)

type vxC15BoundCase struct {
	Proto    int   `json:"proto"`
	Hosts    int   `json:"hosts"`
	Which    int   `json:"which"` // which pool connection the query is bound to
	Pages    []int `json:"pages"` // rows per page
	Consumer int   `json:"consumer"` // 0 Scan 1 Scanner 2 SliceMap
}

func vxRunC15Bound(c *vxC15BoundCase, k *vstats.Case) error {
	if c.Proto < 2 || c.Proto > 5 || c.Hosts < 2 || c.Hosts > 4 || len(c.Pages) < 1 || len(c.Pages) > 6 {
		return nil
	}
	cl := vnode.NewCluster(vxSpecs(c.Hosts, 1))
	type arrival struct {
		conn, page int
	}
	var mu sync.Mutex
	var log []arrival
	for _, n := range cl.Nodes() {
		n.Handler = func(rc *vnode.ReqCtx) {
			if rc.Req.Kind != "QUERY" || rc.Req.Statement != "LIST bound" || rc.Req.Params == nil {
				rc.Reply(&cqlspec.Response{Kind: "VOID"})
				return
			}
			page := vxC13PPageOf(rc.Req.Params.StateHex)
			mu.Lock()
			log = append(log, arrival{conn: rc.Conn.ID, page: page})
			mu.Unlock()
			if page < 0 || page >= len(c.Pages) {
				rc.Reply(&cqlspec.Response{Kind: "ERROR", Code: cqlspec.ErrInvalid, Message: "c15b: unknown paging state"})
				return
			}
			var rows [][]cqlspec.Value
			for r := 0; r < c.Pages[page]; r++ {
				rows = append(rows, []cqlspec.Value{cqlspec.I64Value(int64(page)), cqlspec.I64Value(int64(r))})
			}
			resp := vnode.RowsResponse([]cqlspec.Column{{Keyspace: "ks", Table: "t", Name: "page", Type: cqlspec.Scalar(cqlspec.Int)},
				{Keyspace: "ks", Table: "t", Name: "r", Type: cqlspec.Scalar(cqlspec.Int)}}, rows)
			if page+1 < len(c.Pages) {
				resp.Meta.HasMore = true
				resp.Meta.StateHex = hex.EncodeToString([]byte(fmt.Sprintf("page%d", page+1)))
			}
			rc.Reply(resp)
		}
	}
	s, err := vxClusterConfig(cl, c.Proto, func(cfg *ClusterConfig) {
		cfg.PoolConfig.HostSelectionPolicy = RoundRobinHostPolicy()
	}).CreateSession()
	if err != nil {
		return fmt.Errorf("harness: CreateSession: %v", err)
	}
	defer s.Close()
	deadline := time.Now().Add(5 * time.Second)
	var conns []*Conn
	for time.Now().Before(deadline) {
		conns = vxPoolConns(s)
		if len(conns) >= c.Hosts {
			break
		}
		time.Sleep(time.Millisecond)
	}
	if len(conns) == 0 {
		return fmt.Errorf("harness: no pool connection")
	}
	conn := conns[c.Which%len(conns)]
	iter := conn.query(context.Background(), "LIST bound")
	var got [][2]int
	switch c.Consumer {
	case 1:
		sc := iter.Scanner()
		for sc.Next() {
			var p, r int
			if err := sc.Scan(&p, &r); err != nil {
				return fmt.Errorf("Scanner.Scan: %v", err)
			}
			got = append(got, [2]int{p, r})
		}
		err = sc.Err()
	case 2:
		var rows []map[string]interface{}
		rows, err = iter.SliceMap()
		for _, m := range rows {
			p, _ := m["page"].(int)
			r, _ := m["r"].(int)
			got = append(got, [2]int{p, r})
		}
	default:
		var p, r int
		for iter.Scan(&p, &r) {
			got = append(got, [2]int{p, r})
		}
		err = iter.Close()
	}
	var want [][2]int
	for p, n := range c.Pages {
		for r := 0; r < n; r++ {
			want = append(want, [2]int{p, r})
		}
	}
	mu.Lock()
	defer mu.Unlock()
	if err != nil {
		return fmt.Errorf("a query bound to one connection over %d pages ended with %v (requests conn/page: %v)", len(c.Pages), err, log)
	}
	if fmt.Sprint(got) != fmt.Sprint(want) {
		return fmt.Errorf("rows %v, want %v (requests conn/page: %v)", got, want, log)
	}
	if len(log) != len(c.Pages) {
		return fmt.Errorf("%d pages, %d requests (conn/page: %v)", len(c.Pages), len(log), log)
	}
	for i, a := range log {
		if a.page != i || a.conn != log[0].conn {
			return fmt.Errorf("the query is bound to one connection; its pages were requested as (connection, page) %v", log)
		}
	}
	k.Class(fmt.Sprintf("pages=%d hosts=%d", len(c.Pages), c.Hosts))
	if len(c.Pages) >= 2 {
		k.NonTrivial()
	}
	return nil
}

func TestVxC15BoundConn(t *testing.T) {
	vx.Check(t, vx.Prop{
		ID: "C15", Part: "TestVxC15BoundConn",
		Rule: "protocol 2..5, 2..4 hosts under a round-robin policy, a query bound to one pool connection (Conn.query, the route of the driver's own system and schema reads) over 1..6 pages of 0..4 rows, consumed by Scan / Scanner / SliceMap; oracle: every row once and in order, one request per page with the state the previous page carried, all on the connection the query is bound to; non-trivial = at least two pages; distinct by the case",
		Draw: func(t *rapid.T) interface{} {
			return &vxC15BoundCase{Proto: rapid.IntRange(2, 5).Draw(t, "proto"), Hosts: rapid.IntRange(2, 4).Draw(t, "hosts"), Which: rapid.IntRange(0, 7).Draw(t, "which"),
				Pages: rapid.SliceOfN(rapid.IntRange(0, 4), 1, 6).Draw(t, "pages"), Consumer: rapid.IntRange(0, 2).Draw(t, "consumer")}
		},
		New: func() interface{} { return &vxC15BoundCase{} },
		Run: func(ci interface{}, k *vstats.Case) error {
			return vxRunC15Bound(ci.(*vxC15BoundCase), k)
		},
	})
}
