//go:build verif && go1.21

package gocql

// C05: token strings are text the cluster reports (system.local / system.peers tokens). Whatever they are and
// whichever partitioner the cluster announces, building the token ring, looking a token up and picking hosts
// return - they do not panic (the ring is rebuilt on driver goroutines: a panic there kills the process).

import (
	"fmt"
	"strings"
	"testing"

	"pgregory.net/rapid"
	"verif.local/vstats"
	"verif.local/vx"
)

type vxC05TokCase struct {
	Part   string     `json:"partitioner"`
	Tokens [][]string `json:"tokens"` // per host
	Keys   []string   `json:"keys"`   // routing keys (hex) looked up afterwards
	RF     int        `json:"rf"`
}

var vxHostileTokens = []string{"", " ", "-", "+", "+5", " 12", "12 ", "1e3", "0x7f", "7f", "not-a-number", "١٢٣", "12\x00", "-0",
	"9223372036854775807", "9223372036854775808", "-9223372036854775808", "-9223372036854775809", "170141183460469231731687303715884105727",
	"170141183460469231731687303715884105728", "-1", "0", "1", "42", "99999999999999999999999999999999999999999999999999999999999999999999999999999999",
	"é", "\xff\xfe", "1,2", "[1]", "null"}

func TestVxC05Tokens(t *testing.T) {
	vx.Check(t, vx.Prop{
		ID: "C05", Part: "TestVxC05Tokens",
		Rule: "partitioner name {Murmur3, Random, ByteOrdered, OrderPreserving (full class names), unknown, empty} x 1..4 hosts with 0..3 token strings each, drawn from decimal numbers at and beyond the 64- and 127-bit limits, signs, blanks, hex, exponent notation, non-ASCII digits, invalid UTF-8, empty; then newTokenRing, GetHostForToken for 0..3 keys, and a token-aware policy (SetPartitioner, AddHosts, KeyspaceChanged with SimpleStrategy rf 1..3, Pick drained, RemoveHost); oracle: everything returns, nothing panics; non-trivial = a token that is not a decimal number; distinct by the case",
		Draw: func(t *rapid.T) interface{} {
			c := &vxC05TokCase{Part: rapid.SampledFrom([]string{"org.apache.cassandra.dht.Murmur3Partitioner", "org.apache.cassandra.dht.RandomPartitioner", "org.apache.cassandra.dht.RandomPartitioner",
				"org.apache.cassandra.dht.ByteOrderedPartitioner", "org.apache.cassandra.dht.OrderPreservingPartitioner", "RandomPartitioner", "x", ""}).Draw(t, "part"), RF: rapid.IntRange(1, 3).Draw(t, "rf")}
			tok := rapid.OneOf(rapid.SampledFrom(vxHostileTokens), rapid.SampledFrom(vxHostileTokens), rapid.StringMatching(`-?[0-9]{1,40}`), rapid.String())
			for h := rapid.IntRange(1, 4).Draw(t, "hosts"); h > 0; h-- {
				c.Tokens = append(c.Tokens, rapid.SliceOfN(tok, 0, 3).Draw(t, "tokens"))
			}
			c.Keys = rapid.SliceOfN(rapid.StringMatching(`([0-9a-f]{2}){0,20}`), 0, 3).Draw(t, "keys")
			return c
		},
		New: func() interface{} { return &vxC05TokCase{} },
		Run: func(ci interface{}, k *vstats.Case) error {
			c := ci.(*vxC05TokCase)
			if len(c.Tokens) == 0 || len(c.Tokens) > 8 {
				return nil
			}
			k.Class("partitioner=" + c.Part)
			var hosts []*HostInfo
			for i, toks := range c.Tokens {
				if len(toks) > 8 {
					return nil
				}
				for _, s := range toks {
					if strings.Trim(s, "0123456789") != "" && !(strings.HasPrefix(s, "-") && strings.Trim(s[1:], "0123456789") == "" && len(s) > 1) || s == "" {
						k.NonTrivial()
					}
				}
				h := &HostInfo{hostId: fmt.Sprintf("h%d", i), connectAddress: []byte{10, 0, 0, byte(i + 1)}, port: 9042, tokens: append([]string{}, toks...), state: NodeUp, dataCenter: "dc1", rack: "r1"}
				hosts = append(hosts, h)
			}
			try := func(what string, f func()) (err error) {
				defer func() {
					if r := recover(); r != nil {
						err = fmt.Errorf("%s panicked: %v (partitioner %q, tokens %q)\n%s", what, r, c.Part, c.Tokens, vxShortStack())
					}
				}()
				f()
				return nil
			}
			var keys [][]byte
			for _, kx := range c.Keys {
				b := make([]byte, len(kx)/2)
				fmt.Sscanf(kx, "%x", &b)
				keys = append(keys, b)
			}
			if err := try("newTokenRing / GetHostForToken", func() {
				ring, err := newTokenRing(c.Part, hosts)
				if err != nil || ring == nil {
					return
				}
				_ = ring.String()
				for _, key := range keys {
					ring.GetHostForToken(ring.partitioner.Hash(key))
				}
			}); err != nil {
				return err
			}
			return try("token-aware policy", func() {
				pol := TokenAwareHostPolicy(RoundRobinHostPolicy()).(*tokenAwareHostPolicy)
				pol.getKeyspaceName = func() string { return "ks" }
				ks := &KeyspaceMetadata{Name: "ks", StrategyClass: "SimpleStrategy", StrategyOptions: map[string]interface{}{"class": "SimpleStrategy", "replication_factor": c.RF}}
				pol.getKeyspaceMetadata = func(string) (*KeyspaceMetadata, error) { return ks, nil }
				pol.logger = nopLogger{}
				pol.SetPartitioner(c.Part)
				pol.AddHosts(hosts)
				pol.KeyspaceChanged(KeyspaceUpdateEvent{Keyspace: "ks"})
				for _, key := range keys {
					q := &Query{routingInfo: &queryRoutingInfo{}}
					q.getKeyspace = func() string { return "ks" }
					q.RoutingKey(key)
					it := pol.Pick(q)
					for i := 0; i < 10; i++ {
						if it() == nil {
							break
						}
					}
				}
				pol.RemoveHost(hosts[0])
				for _, key := range keys {
					q := &Query{routingInfo: &queryRoutingInfo{}}
					q.getKeyspace = func() string { return "ks" }
					q.RoutingKey(key)
					if it := pol.Pick(q); it != nil {
						it()
					}
				}
			})
		},
	})
}
