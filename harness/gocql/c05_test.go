//go:build verif && go1.21

// C05 - no bytes from the network can crash the application.
// Parts (a) frames: structure-aware mutation of well-formed responses, parsed and iterated;
// (b) column values: mutated / random bytes through Unmarshal; (e) schema type strings.
// The conversation-level part (c)/(d) lives with the session checks (vxnode).
// Internal identifiers used: readHeader, newFramer, framer.{readFrame,parseFrame}, resultRowsFrame,
// Iter{meta,framer,numRows}, parseType, getCassandraType, getTypeInfo, apacheToCassandraType, splitCompositeTypes.
package gocql

import (
	"net"
	"bytes"
	"encoding/hex"
	"fmt"
	"io/ioutil"
	"log"
	"reflect"
	"runtime"
	"runtime/debug"
	"strings"
	"testing"

	"pgregory.net/rapid"
	"verif.local/cqlspec"
	"verif.local/vstats"
	"verif.local/vx"
)

// vxMut is one mutation of a byte string.
type vxMut struct {
	Kind  string `json:"kind"`            // none trunc field flip splice random hdr
	Off   int    `json:"off,omitempty"`   // trunc: new length; splice: position (both taken modulo)
	Field int    `json:"field,omitempty"` // index into the field map (modulo)
	Val   int64  `json:"val,omitempty"`   // new value of the field
	Bits  []int  `json:"bits,omitempty"`  // flip: bit positions (modulo)
	Hex   string `json:"hex,omitempty"`   // splice / random: bytes
}

var vxHostileVals = []int64{-1, -2, 0, 1, 0x7f, 0x80, 0xff, 0x7fff, 0x8000, 0xffff, 0x10000, 0x7fffffff, 0x80000000, 0xfffffffe, 0xffffffff}

func vxDrawMut(t *rapid.T, delta bool) vxMut {
	m := vxMut{Kind: rapid.SampledFrom([]string{"trunc", "trunc", "field", "field", "field", "field", "flip", "splice", "random", "hdr", "none"}).Draw(t, "mut")}
	switch m.Kind {
	case "trunc", "splice":
		m.Off = rapid.IntRange(0, 1<<20).Draw(t, "off")
		if m.Kind == "splice" {
			m.Hex = hex.EncodeToString(vxDrawBytes(t, 12))
		}
	case "field":
		m.Field = rapid.IntRange(0, 1<<16).Draw(t, "field")
		m.Val = rapid.SampledFrom(vxHostileVals).Draw(t, "val")
		if rapid.IntRange(0, 2).Draw(t, "rel") == 0 {
			m.Val = int64(rapid.IntRange(-2, 2).Draw(t, "delta")) + 1<<40 // relative to the current value
		} else if rapid.IntRange(0, 2).Draw(t, "idx") == 0 {
			m.Val = int64(rapid.IntRange(0, 13).Draw(t, "typeidx")) // meaningful for type-id fields
		}
	case "flip":
		m.Bits = rapid.SliceOfN(rapid.IntRange(0, 1<<22), 1, 4).Draw(t, "bits")
	case "random":
		m.Hex = hex.EncodeToString(vxDrawBytes(t, 60))
	case "hdr":
		m.Off = rapid.IntRange(0, 8).Draw(t, "hoff")
		m.Val = int64(rapid.Byte().Draw(t, "hval"))
	}
	return m
}

// vxApplyMut mutates body (never in place); changed reports whether the result differs.
func vxApplyMut(body []byte, fields []cqlspec.Field, m vxMut) []byte {
	out := append([]byte{}, body...)
	switch m.Kind {
	case "trunc":
		if len(out) > 0 {
			out = out[:m.Off%len(out)]
		}
	case "field":
		if len(fields) == 0 {
			return out
		}
		f := fields[m.Field%len(fields)]
		if f.Off+f.Width > len(out) {
			return out
		}
		v := m.Val
		if f.Kind == "type-id" {
			// swap the type of a column / element / key for another one (well-formed id, wrong shape)
			ids := []int64{0x03, 0x0d, 0x09, 0x20, 0x21, 0x22, 0x30, 0x31, 0x00, 0x0e, 0x06, 0x10, 0x15, 0x7fff}
			i := v % int64(len(ids))
			if i < 0 {
				i = -i
			}
			v = ids[i]
		} else if v >= 1<<39 { // relative
			var cur int64
			for i := 0; i < f.Width; i++ {
				cur = cur<<8 | int64(out[f.Off+i])
			}
			v = cur + (v - 1<<40)
		}
		for i := f.Width - 1; i >= 0; i-- {
			out[f.Off+i] = byte(v)
			v >>= 8
		}
	case "flip":
		if len(out) > 0 {
			for _, b := range m.Bits {
				out[(b/8)%len(out)] ^= 1 << uint(b%8)
			}
		}
	case "splice":
		ins, _ := hex.DecodeString(m.Hex)
		p := 0
		if len(out) > 0 {
			p = m.Off % (len(out) + 1)
		}
		out = append(out[:p:p], append(ins, out[p:]...)...)
	case "random":
		out, _ = hex.DecodeString(m.Hex)
	}
	return out
}

type vxC05FrameCase struct {
	Resp     *cqlspec.Response `json:"resp"`
	Mut      vxMut             `json:"mut"`
	Consumer int               `json:"consumer"`
}

// vxAllocBound is the property's "not wildly out of proportion" for uncompressed input.
func vxAllocBound(n int) uint64 { return 1<<20 + 64*uint64(n) }

var vxNullLogger = log.New(ioutil.Discard, "", 0)

// vxParseAndIterate feeds a frame to the driver's reader and, for a rows result, iterates as many
// rows as the frame claims (bounded). Returns a description of what escaped, if anything.
func vxParseAndIterate(frameBytes []byte, proto int, comp Compressor, consumer int, maxRows int) (escaped string, stage string) {
	defer func() {
		if r := recover(); r != nil {
			escaped = fmt.Sprintf("panic: %v\n%s", r, vxShortStack())
		}
	}()
	stage = "header"
	rd := bytes.NewReader(frameBytes)
	head, err := readHeader(rd, make([]byte, 9))
	if err != nil {
		return "", "header-rejected"
	}
	stage = "read"
	fr := newFramer(comp, byte(proto))
	if err := fr.readFrame(rd, &head); err != nil {
		return "", "read-rejected"
	}
	stage = "parse"
	f, err := fr.parseFrame()
	if err != nil {
		return "", "parse-rejected"
	}
	stage = "parsed"
	x, ok := f.(*resultRowsFrame)
	if !ok {
		// an error frame must be usable as an error
		if e, ok := f.(error); ok {
			_ = e.Error()
		}
		_ = fmt.Sprintf("%v", f)
		return "", "parsed"
	}
	stage = "iterate"
	iter := &Iter{meta: x.meta, framer: fr, numRows: x.numRows}
	n := 0
	switch consumer {
	case 1:
		sc := iter.Scanner()
		for n < maxRows && sc.Next() {
			rd, err := iter.RowData()
			if err != nil {
				break
			}
			if err := sc.Scan(rd.Values...); err != nil {
				break
			}
			n++
		}
		if n < maxRows {
			_ = sc.Err()
		}
	case 2:
		for n < maxRows {
			m := map[string]interface{}{}
			if !iter.MapScan(m) {
				break
			}
			n++
		}
	case 3:
		if x.numRows <= maxRows {
			_, _ = iter.SliceMap()
		}
	default:
		for n < maxRows {
			rd, err := iter.RowData()
			if err != nil {
				break
			}
			if !iter.Scan(rd.Values...) {
				break
			}
			n++
		}
	}
	_ = iter.Close()
	return "", "iterated"
}

func vxShortStack() string {
	s := string(debug.Stack())
	var keep []string
	for _, l := range strings.Split(s, "\n") {
		if strings.Contains(l, "gocql") && !strings.Contains(l, "zz_verif") {
			keep = append(keep, strings.TrimSpace(l))
		}
		if len(keep) >= 8 {
			break
		}
	}
	return strings.Join(keep, "\n")
}

func vxMeasure(f func()) uint64 {
	var m0, m1 runtime.MemStats
	runtime.ReadMemStats(&m0)
	f()
	runtime.ReadMemStats(&m1)
	return m1.TotalAlloc - m0.TotalAlloc
}

// vxMeasureOver runs f and reports its allocation if it exceeds bound; an excess is confirmed by
// measuring a second run (an allocation driven by the input is repeatable, a burst from the runtime or
// from lazily initialised tables of the standard library is not - such bursts of ~2 MB were observed
// about once per 10^5 cases in long runs).
func vxMeasureOver(bound uint64, f func()) (uint64, bool) {
	a := vxMeasure(f)
	if a <= bound {
		return a, false
	}
	b := vxMeasure(f)
	if b <= bound {
		return b, false
	}
	if b < a {
		a = b
	}
	return a, true
}

func TestVxC05Frames(t *testing.T) {
	vx.Check(t, vx.Prop{
		ID: "C05", Part: "TestVxC05Frames",
		Rule: "a well-formed response of C04's generator (uncompressed), then one mutation guided by the encoder's field map: truncation at an offset, a length/count field set to a hostile constant (-1,-2,0,0x7fff,0xffff,0x7fffffff,0x80000000,...) or to its value +-2, bit flips, splice, random body, a header byte overwritten (opcode/flags/version/stream/length); the frame goes through readHeader/readFrame/parseFrame and, if it parses as rows, through Scan/Scanner/MapScan/SliceMap for the claimed row count (capped); oracle: nothing panics, allocation <= 1 MiB + 64 x input; non-trivial = the mutated frame differs from the well-formed one and passes the header reader; distinct by the whole case",
		Draw: func(t *rapid.T) interface{} {
			return &vxC05FrameCase{Resp: vxDrawResponse(t), Mut: vxDrawMut(t, true), Consumer: rapid.IntRange(0, 3).Draw(t, "consumer")}
		},
		New: func() interface{} { return &vxC05FrameCase{} },
		Run: func(ci interface{}, k *vstats.Case) error {
			c := ci.(*vxC05FrameCase)
			r := c.Resp
			if r == nil || r.Version < 1 || r.Version > 5 {
				return nil
			}
			r.Compress = false
			body, fields := r.Body()
			mut := vxApplyMut(body, fields, c.Mut)
			frameBytes, _ := r.FrameWithBody(mut, nil)
			if c.Mut.Kind == "hdr" && len(frameBytes) > 0 {
				off := c.Mut.Off % cqlspec.HeaderSize(r.Version)
				frameBytes[off] = byte(c.Mut.Val)
			}
			orig, _ := r.FrameWithBody(body, nil)
			changed := !bytes.Equal(orig, frameBytes)
			k.Class("mut=" + c.Mut.Kind)
			k.Class("kind=" + r.Kind)
			var escaped, stage string
			bound := vxAllocBound(len(frameBytes))
			if h, _, err := cqlspec.ParseHeader(frameBytes); err == nil && h.Length > 0 {
				// the body buffer is sized by the length the header announces (the driver caps it at
				// 256 MiB): allocation proportional to the *announced* frame is accepted, see DESIGN.md
				bound += uint64(h.Length)
			}
			alloc, over := vxMeasureOver(bound, func() {
				escaped, stage = vxParseAndIterate(frameBytes, r.Version, nil, c.Consumer, len(r.Rows)+3)
			})
			k.Class("stage=" + stage)
			if changed && stage != "header-rejected" {
				k.NonTrivial()
			}
			if escaped != "" {
				return fmt.Errorf("%s v%d frame (%d bytes, mutation %+v) at stage %s: %s", r.Kind, r.Version, len(frameBytes), c.Mut, stage, escaped)
			}
			if over {
				return fmt.Errorf("%s v%d frame of %d bytes (mutation %+v) made the driver allocate %d bytes (bound %d) at stage %s", r.Kind, r.Version, len(frameBytes), c.Mut, alloc, bound, stage)
			}
			return nil
		},
	})
}

// TestVxC05Truncations enumerates every truncation offset of well-formed frames.
func TestVxC05Truncations(t *testing.T) {
	vx.Check(t, vx.Prop{
		ID: "C05", Part: "TestVxC05Truncations",
		Rule: "a well-formed response (C04's generator) cut at EVERY offset of its body (bodies <= 600 bytes; otherwise 600 evenly spread offsets), each cut parsed and iterated; oracle as TestVxC05Frames; non-trivial = body longer than 8 bytes; distinct by the response",
		Draw: func(t *rapid.T) interface{} {
			return &vxC05FrameCase{Resp: vxDrawResponse(t), Consumer: rapid.IntRange(0, 3).Draw(t, "consumer")}
		},
		New: func() interface{} { return &vxC05FrameCase{} },
		Run: func(ci interface{}, k *vstats.Case) error {
			c := ci.(*vxC05FrameCase)
			r := c.Resp
			if r == nil || r.Version < 1 || r.Version > 5 {
				return nil
			}
			r.Compress = false
			body, _ := r.Body()
			if len(body) > 8 {
				k.NonTrivial()
			}
			k.Class("kind=" + r.Kind)
			step := 1
			if len(body) > 600 {
				step = len(body)/600 + 1
			}
			for n := 0; n < len(body); n += step {
				frameBytes, _ := r.FrameWithBody(body[:n:n], nil)
				escaped, stage := vxParseAndIterate(frameBytes, r.Version, nil, c.Consumer, len(r.Rows)+3)
				if escaped != "" {
					return fmt.Errorf("%s v%d body cut to %d of %d bytes, stage %s: %s", r.Kind, r.Version, n, len(body), stage, escaped)
				}
			}
			k.Class(fmt.Sprintf("cuts~%d", (len(body)/step/50)*50))
			return nil
		},
	})
}

// ---- (b) Unmarshal ---------------------------------------------------------------------------

type vxC05ValCase struct {
	Proto   int           `json:"proto"`
	Type    *cqlspec.Type `json:"type"`
	Value   cqlspec.Value `json:"value"`
	Mut     vxMut         `json:"mut"`
	Choices []int         `json:"choices"`
}

func TestVxC05Unmarshal(t *testing.T) {
	vx.Check(t, vx.Prop{
		ID: "C05", Part: "TestVxC05Unmarshal",
		Rule: "(type tree to depth 3, the specification's encoding of a drawn value, one mutation: truncation, every collection/element length overwritten by a hostile constant, bit flips, splice, random bytes) given to Unmarshal with the default target, a pointer to it, and a drawn documented target; oracle: returns (value or error), no panic, allocation <= 1 MiB + 64 x input; non-trivial = the bytes differ from the well-formed encoding; distinct by the whole case",
		Draw: func(t *rapid.T) interface{} {
			proto := rapid.IntRange(1, 5).Draw(t, "proto")
			ty := vxDrawType(t, rapid.IntRange(0, 3).Draw(t, "depth"), false)
			return &vxC05ValCase{Proto: proto, Type: ty, Value: vxDrawValue(t, ty, false, proto), Mut: vxDrawMut(t, false), Choices: vxDrawChoices(t, 16)}
		},
		New: func() interface{} { return &vxC05ValCase{} },
		Run: func(ci interface{}, k *vstats.Case) error {
			c := ci.(*vxC05ValCase)
			if c.Proto < 1 || c.Proto > 5 || !vxValid(c.Type, c.Value) || !cqlspec.Encodable(c.Type, c.Value, c.Proto) {
				return nil
			}
			good := cqlspec.Encode(c.Type, c.Value, c.Proto)
			fields := vxValueFields(c.Type, c.Value, c.Proto)
			data := vxApplyMut(good, fields, c.Mut)
			k.Class("mut=" + c.Mut.Kind)
			k.Class("kind=" + c.Type.Kind.String())
			if !bytes.Equal(good, data) {
				k.NonTrivial()
			}
			info := vxTypeInfo(c.Type, byte(c.Proto))
			ch := &vxCh{c: c.Choices}
			def := vxDefaultGoType(c.Type)
			targets := []reflect.Type{def, reflect.PtrTo(def), vxPick(c.Type, []cqlspec.Value{c.Value}, ch, vxDst, false)}
			if c.Type.Kind == cqlspec.UDT {
				// an application struct that has unexported fields named like fields of the type (reflect.StructOf cannot
				// build such a type, hence a fixed one: the generator names UDT fields af, bf, cf, ...)
				targets = append(targets, reflect.TypeOf(vxUnexportedDest{}))
				k.Class("udt into a struct with unexported fields of the same names")
			}
			if c.Type.Kind == cqlspec.Tuple {
				// application types that cannot hold the tuple: a struct with unexported fields, too few scan targets
				targets = append(targets, reflect.TypeOf(vxUnexportedTuple{}))
				short := make([]interface{}, len(c.Type.Elems)/2)
				for i := range short {
					short[i] = new(interface{})
				}
				if _, pan := vxSafeUnmarshal(info, append([]byte{}, data...), short); pan != nil {
					return fmt.Errorf("Unmarshal(%v, %x, []interface{} of %d targets) panicked: %v", c.Type, data, len(short), pan)
				}
				if pan := vxCatchPanic(func() { Marshal(info, vxUnexportedTuple{}) }); pan != nil {
					return fmt.Errorf("Marshal(%v, struct with unexported fields) panicked: %v", c.Type, pan)
				}
				k.Class("tuple into / from Go values that cannot hold it")
			}
			if c.Type.Kind == cqlspec.Inet {
				// a net.IP of any length: refused or written as the 4 / 16 address bytes, never as something else
				ip := net.IP(append([]byte{}, data...))
				var out []byte
				var merr error
				if pan := vxCatchPanic(func() { out, merr = Marshal(info, ip) }); pan != nil {
					return fmt.Errorf("Marshal(inet, net.IP of %d bytes) panicked: %v", len(ip), pan)
				}
				if merr == nil && len(ip) != 0 && len(out) != 4 && len(out) != 16 {
					return fmt.Errorf("Marshal(inet, net.IP %x of %d bytes) = %x without an error", []byte(ip), len(ip), out)
				}
				// no address - nil or empty, Go code does not tell the two apart - is null
				for _, none := range []net.IP{nil, {}, ip[:0]} {
					o, e := Marshal(info, none)
					if e != nil || o != nil {
						return fmt.Errorf("Marshal(inet, net.IP of no bytes (nil: %v)) = %x, %v; want null without an error", none == nil, o, e)
					}
				}
				k.Class("inet from a net.IP of any length")
			}
			for _, tt := range targets {
				var pan interface{}
				alloc, over := vxMeasureOver(vxAllocBound(len(data)), func() {
					_, pan = vxSafeUnmarshal(info, append([]byte{}, data...), reflect.New(tt).Interface())
				})
				if pan != nil {
					return fmt.Errorf("Unmarshal(%v, %x, *%v) panicked: %v", c.Type, data, tt, pan)
				}
				if over {
					return fmt.Errorf("Unmarshal(%v, %x (%d bytes), *%v) allocated %d bytes (bound %d)", c.Type, data[:vxMinInt(len(data), 40)], len(data), tt, alloc, vxAllocBound(len(data)))
				}
			}
			return nil
		},
	})
}

type vxUnexportedTuple struct {
	a int
	B string
	c []byte
}

func vxCatchPanic(f func()) (pan interface{}) {
	defer func() { pan = recover() }()
	f()
	return nil
}

type vxUnexportedDest struct {
	af int
	bf string
	Cf interface{} `cql:"cf"`
	df []byte
}

// vxValueFields lists the length / count fields of the specification's encoding of v.
func vxValueFields(ty *cqlspec.Type, v cqlspec.Value, proto int) []cqlspec.Field {
	var out []cqlspec.Field
	var walk func(ty *cqlspec.Type, v cqlspec.Value, base int)
	walk = func(ty *cqlspec.Type, v cqlspec.Value, base int) {
		if v.Null || v.Empty {
			return
		}
		w := 4
		if proto < 3 {
			w = 2
		}
		off := base
		elem := func(et *cqlspec.Type, e cqlspec.Value, lw int) {
			out = append(out, cqlspec.Field{Off: off, Width: lw, Kind: "elem-len"})
			off += lw
			b := cqlspec.Encode(et, e, proto)
			walk(et, e, off)
			off += len(b)
		}
		switch ty.Kind {
		case cqlspec.List, cqlspec.Set:
			out = append(out, cqlspec.Field{Off: off, Width: w, Kind: "count"})
			off += w
			for _, e := range v.Elems {
				elem(ty.Elems[0], e, w)
			}
		case cqlspec.Map:
			out = append(out, cqlspec.Field{Off: off, Width: w, Kind: "count"})
			off += w
			for i, e := range v.Elems {
				elem(ty.Elems[i%2], e, w)
			}
		case cqlspec.Tuple, cqlspec.UDT:
			for i, e := range v.Elems {
				elem(ty.Elems[i], e, 4)
			}
		}
	}
	walk(ty, v, 0)
	return out
}

// ---- (e) schema type strings -------------------------------------------------------------------

type vxC05TypeStr struct {
	S string `json:"s"`
}

func vxDrawTypeString(t *rapid.T, depth int, java bool) string {
	leafCQL := []string{"int", "text", "bigint", "uuid", "timestamp", "blob", "date", "duration", "x", ""}
	leafJava := []string{"Int32Type", "UTF8Type", "LongType", "UUIDType", "TimestampType", "BytesType", "org.apache.cassandra.db.marshal.Int32Type", "org.apache.cassandra.db.marshal.UTF8Type", "X"}
	if depth <= 0 || rapid.IntRange(0, 2).Draw(t, "leaf") == 0 {
		if java {
			return rapid.SampledFrom(leafJava).Draw(t, "jl")
		}
		return rapid.SampledFrom(leafCQL).Draw(t, "cl")
	}
	sub := func() string { return vxDrawTypeString(t, depth-1, java) }
	if java {
		p := rapid.SampledFrom([]string{"", "org.apache.cassandra.db.marshal."}).Draw(t, "pfx")
		switch rapid.IntRange(0, 6).Draw(t, "jk") {
		case 0:
			return p + "ListType(" + sub() + ")"
		case 1:
			return p + "SetType(" + sub() + ")"
		case 2:
			return p + "MapType(" + sub() + "," + sub() + ")"
		case 3:
			return p + "ReversedType(" + sub() + ")"
		case 4:
			n := rapid.IntRange(0, 3).Draw(t, "nc")
			parts := []string{}
			for i := 0; i < n; i++ {
				parts = append(parts, sub())
			}
			return p + "CompositeType(" + strings.Join(parts, ",") + ")"
		case 5:
			return p + "ColumnToCollectionType(6162:" + p + "ListType(" + sub() + "))"
		default:
			return p + "FrozenType(" + sub() + ")"
		}
	}
	switch rapid.IntRange(0, 4).Draw(t, "ck") {
	case 0:
		return "list<" + sub() + ">"
	case 1:
		return "set<" + sub() + ">"
	case 2:
		return "map<" + sub() + ", " + sub() + ">"
	case 3:
		n := rapid.IntRange(0, 3).Draw(t, "nt")
		parts := []string{}
		for i := 0; i < n; i++ {
			parts = append(parts, sub())
		}
		return "tuple<" + strings.Join(parts, ", ") + ">"
	default:
		return "frozen<" + sub() + ">"
	}
}

func TestVxC05TypeStrings(t *testing.T) {
	vx.Check(t, vx.Prop{
		ID: "C05", Part: "TestVxC05TypeStrings",
		Rule: "schema type descriptions: grammar-generated nested CQL (list<..>, map<..>, tuple<..>, frozen<..>) and Java marshal class definitions (CompositeType(..), ReversedType(..), ColumnToCollectionType(hex:..), ...), then 0..3 edits (delete/insert/replace of ( ) < > , : and letters, truncation) or random strings; through parseType, getCassandraType, getTypeInfo, apacheToCassandraType, splitCompositeTypes; oracle: each returns, nothing panics; non-trivial = at least one edit or nesting; distinct by string",
		Draw: func(t *rapid.T) interface{} {
			var s string
			if rapid.IntRange(0, 9).Draw(t, "rnd") == 0 {
				s = rapid.String().Draw(t, "s")
			} else {
				s = vxDrawTypeString(t, rapid.IntRange(0, 3).Draw(t, "depth"), rapid.Bool().Draw(t, "java"))
				for i := rapid.IntRange(0, 3).Draw(t, "edits"); i > 0; i-- {
					r := []rune(s)
					alphabet := []rune("()<>,: aT0\x00é")
					pos := 0
					if len(r) > 0 {
						pos = rapid.IntRange(0, len(r)-1).Draw(t, "pos")
					}
					switch rapid.IntRange(0, 3).Draw(t, "edit") {
					case 0:
						if len(r) > 0 {
							r = append(r[:pos:pos], r[pos+1:]...)
						}
					case 1:
						r = append(r[:pos:pos], append([]rune{rapid.SampledFrom(alphabet).Draw(t, "ins")}, r[pos:]...)...)
					case 2:
						if len(r) > 0 {
							r[pos] = rapid.SampledFrom(alphabet).Draw(t, "rep")
						}
					default:
						r = r[:pos]
					}
					s = string(r)
				}
			}
			return &vxC05TypeStr{S: s}
		},
		New: func() interface{} { return &vxC05TypeStr{} },
		Run: func(ci interface{}, k *vstats.Case) error {
			c := ci.(*vxC05TypeStr)
			if strings.ContainsAny(c.S, "(<") {
				k.NonTrivial()
			}
			try := func(name string, f func()) (err error) {
				defer func() {
					if r := recover(); r != nil {
						err = fmt.Errorf("%s(%q) panicked: %v\n%s", name, c.S, r, vxShortStack())
					}
				}()
				f()
				return nil
			}
			for _, e := range []error{
				try("parseType", func() { _ = parseType(c.S, vxNullLogger) }),
				try("getCassandraType", func() { _ = getCassandraType(c.S, vxNullLogger) }),
				try("getTypeInfo", func() { _ = getTypeInfo(c.S, vxNullLogger) }),
				try("apacheToCassandraType", func() { _ = apacheToCassandraType(c.S) }),
				try("splitCompositeTypes", func() { _ = splitCompositeTypes(c.S) }),
			} {
				if e != nil {
					return e
				}
			}
			return nil
		},
	})
}
