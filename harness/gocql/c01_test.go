//go:build verif && go1.21

// C01 - every response reaches the request that caused it, and only that one.
// Black-box: a real Session (public API: ClusterConfig, Query.WithContext, Iter.Scan, StreamObserver)
// on one pool connection to a scripted node (lib/vnode) that decides when and in which order each
// request is answered; the node-side wire monitor decides the stream-id reuse clause exactly.
package gocql

import (
	"context"
	"errors"
	"fmt"
	"strings"
	"sync"
	"testing"
	"time"

	"pgregory.net/rapid"
	"verif.local/cqlspec"
	"verif.local/vnode"
	"verif.local/vstats"
	"verif.local/vx"
)

const (
	vxFateAnswer  = 0 // answered (in the drawn order)
	vxFateLate    = 1 // caller abandons (cancel or timeout) first; the answer is sent during a later phase
	vxFateNever   = 2 // caller abandons; never answered
	vxFateError   = 3 // answered with an ERROR frame carrying the token
	vxFateLateErr = 4 // abandoned, later answered with an ERROR frame
	vxFateEarly   = 5 // context cancelled a drawn delay after the call started (possibly before / while the frame is written); answered late if the request did reach the node
)

type vxC01Phase struct {
	Fates []int `json:"fates"` // one per caller
	Order []int `json:"order"` // keys deciding the answer order of this phase's answers and of released late answers
	Early []int `json:"early,omitempty"` // fate 5: microseconds between the start of the call and its cancellation (indexed like Fates)
	Stray int   `json:"stray,omitempty"` // >0: before this phase's answers the node sends that many unsolicited frames (a body of 30 bytes each, one write) on stream ids no request holds
}

type vxC01Case struct {
	Proto     int          `json:"proto"`
	Coalesce  bool         `json:"coalesce"`
	ByTimeout bool         `json:"by_timeout"` // abandon through the driver's own timer instead of context cancellation
	Chunks    []int        `json:"chunks,omitempty"`
	WriteDelayUs int       `json:"write_delay_us,omitempty"` // every write of the driver takes this long (slow link)
	Phases    []vxC01Phase `json:"phases"`
}

func vxDrawC01(t *rapid.T) *vxC01Case {
	c := &vxC01Case{Proto: rapid.IntRange(1, 5).Draw(t, "proto"), Coalesce: rapid.Bool().Draw(t, "coalesce"),
		ByTimeout: rapid.IntRange(0, 7).Draw(t, "bytimeout") == 0}
	if rapid.Bool().Draw(t, "chunked") {
		c.Chunks = rapid.SliceOfN(rapid.IntRange(1, 40), 1, 5).Draw(t, "chunks")
	}
	c.WriteDelayUs = rapid.SampledFrom([]int{0, 0, 0, 200, 1000}).Draw(t, "write_delay_us")
	early := rapid.IntRange(0, 2).Draw(t, "early_cancels") == 0
	np := rapid.IntRange(1, 4).Draw(t, "phases")
	for p := 0; p < np; p++ {
		n := rapid.IntRange(1, 12).Draw(t, "callers")
		if rapid.IntRange(0, 11).Draw(t, "many") == 0 {
			n = rapid.IntRange(100, 140).Draw(t, "manycallers") // reaches exhaustion of 7-bit ids
		}
		ph := vxC01Phase{}
		for i := 0; i < n; i++ {
			fates := []int{0, 0, 0, 0, 1, 1, 2, 3, 4}
			if early {
				fates = []int{0, 0, 0, 1, 2, 3, 4, 5, 5, 5}
			}
			ph.Fates = append(ph.Fates, rapid.SampledFrom(fates).Draw(t, "fate"))
			ph.Order = append(ph.Order, rapid.IntRange(0, 1000).Draw(t, "order"))
			if early {
				ph.Early = append(ph.Early, rapid.SampledFrom([]int{0, 20, 100, 250, 600, 1500}).Draw(t, "early_us"))
			}
		}
		if n < 100 && rapid.IntRange(0, 5).Draw(t, "stray") == 0 {
			ph.Stray = rapid.IntRange(1, 3).Draw(t, "stray_n")
		}
		c.Phases = append(c.Phases, ph)
	}
	return c
}

// vxC01Obs is the StreamObserver: per stream exactly one of Finished / Abandoned.
type vxC01Obs struct {
	mu                           sync.Mutex
	started, finished, abandoned int
	bad                          []string
}

type vxC01ObsCtx struct {
	o    *vxC01Obs
	mu   sync.Mutex
	s, e int
}

func (o *vxC01Obs) StreamContext(ctx context.Context) StreamObserverContext { return &vxC01ObsCtx{o: o} }
func (c *vxC01ObsCtx) StreamStarted(ObservedStream) {
	c.mu.Lock()
	c.s++
	c.mu.Unlock()
	c.o.mu.Lock()
	c.o.started++
	c.o.mu.Unlock()
}
func (c *vxC01ObsCtx) end(kind string) {
	c.mu.Lock()
	c.e++
	s, e := c.s, c.e
	c.mu.Unlock()
	c.o.mu.Lock()
	if kind == "finished" {
		c.o.finished++
	} else {
		c.o.abandoned++
	}
	if e > s || e > 1 {
		c.o.bad = append(c.o.bad, fmt.Sprintf("stream %s with %d starts and %d ends", kind, s, e))
	}
	c.o.mu.Unlock()
}
func (c *vxC01ObsCtx) StreamAbandoned(ObservedStream) { c.end("abandoned") }
func (c *vxC01ObsCtx) StreamFinished(ObservedStream)  { c.end("finished") }

type vxC01Held struct {
	rc    *vnode.ReqCtx
	token string
}

// vxC01Monitor is the node-side wire monitor: per connection, which stream ids are awaiting an answer.
type vxC01Monitor struct {
	mu          sync.Mutex
	outstanding map[int]map[int]string // conn id -> stream -> token
	held        map[string]*vxC01Held  // token -> request
	violations  []string
	arrived     chan string
	maxStream   int
}

func (m *vxC01Monitor) onRequest(rc *vnode.ReqCtx) {
	if rc.Req.Kind != "QUERY" || !strings.HasPrefix(rc.Req.Statement, "LIST tok_") {
		rc.Reply(&cqlspec.Response{Kind: "VOID"})
		return
	}
	tok := strings.TrimPrefix(rc.Req.Statement, "LIST ")
	st := rc.Req.Header.Stream
	m.mu.Lock()
	byStream := m.outstanding[rc.Conn.ID]
	if byStream == nil {
		byStream = map[int]string{}
		m.outstanding[rc.Conn.ID] = byStream
	}
	if prev, busy := byStream[st]; busy {
		m.violations = append(m.violations, fmt.Sprintf("request %s arrived on connection %d with stream id %d while %s, sent earlier with the same id, is still unanswered", tok, rc.Conn.ID, st, prev))
	}
	if st < 1 || st > m.maxStream {
		m.violations = append(m.violations, fmt.Sprintf("request %s uses stream id %d outside 1..%d", tok, st, m.maxStream))
	}
	byStream[st] = tok
	m.held[tok] = &vxC01Held{rc: rc, token: tok}
	m.mu.Unlock()
	m.arrived <- tok
}

// dropClosed forgets the requests held on connections that are closed at either end (their callers are
// decided by the closure); requests that arrived on a connection still open stay held.
func (m *vxC01Monitor) dropClosed() {
	m.mu.Lock()
	defer m.mu.Unlock()
	for tok, h := range m.held {
		if h.rc.Conn.C.Closed() || h.rc.Conn.Client.Closed() {
			delete(m.held, tok)
			delete(m.outstanding, h.rc.Conn.ID)
		}
	}
}

func (m *vxC01Monitor) isHeld(tok string) bool {
	m.mu.Lock()
	defer m.mu.Unlock()
	h := m.held[tok]
	return h != nil && !h.rc.Conn.C.Closed() && !h.rc.Conn.Client.Closed()
}

// answer sends the reply for token (marking the id free *before* the bytes leave).
func (m *vxC01Monitor) answer(tok string, asError bool) bool {
	mode := 0
	if asError {
		mode = 1
	}
	return m.answerMode(tok, mode)
}

// answerMode: 0 the token's row, 1 an ERROR frame naming the token, 2 the token's row in a well-formed
// frame stamped with another protocol version of the same header layout (4<->3, 5->4, 2<->1), 3 the token's row in
// a frame whose body cannot be decoded (compression flag without negotiated compression).
func (m *vxC01Monitor) answerMode(tok string, mode int) bool {
	asError := mode == 1
	m.mu.Lock()
	h := m.held[tok]
	if h == nil {
		m.mu.Unlock()
		return false
	}
	delete(m.held, tok)
	delete(m.outstanding[h.rc.Conn.ID], h.rc.Req.Header.Stream)
	m.mu.Unlock()
	if asError {
		h.rc.Reply(&cqlspec.Response{Kind: "ERROR", Code: cqlspec.ErrInvalid, Message: "err for " + tok})
		return true
	}
	rows := vnode.RowsResponse([]cqlspec.Column{{Keyspace: "ks", Table: "t", Name: "tok", Type: cqlspec.Scalar(cqlspec.Varchar)}},
		[][]cqlspec.Value{{cqlspec.BytesValue([]byte(tok))}})
	if mode == 3 {
		// the token's row in a frame whose header claims a compressed body although no compression was negotiated
		// (or, on a compressing connection, a body that is not a block of the algorithm): the body cannot be decoded
		r := *rows
		r.Stream, r.Version = h.rc.Req.Header.Stream, h.rc.Req.Header.Version
		if b, err := r.Frame(nil); err == nil && len(b) > 1 {
			b[1] |= cqlspec.FlagCompress
			h.rc.Conn.SendRaw(b)
		}
		return true
	}
	if mode == 2 {
		r := *rows
		r.Stream = h.rc.Req.Header.Stream
		r.Version = map[int]int{1: 2, 2: 1, 3: 4, 4: 3, 5: 4}[h.rc.Req.Header.Version]
		h.rc.Conn.Send(&r)
		return true
	}
	h.rc.Reply(rows)
	return true
}

type vxC01Result struct {
	tok string
	got string
	err error
}

func vxRunC01(c *vxC01Case, k *vstats.Case) error {
	if c.Proto < 1 || c.Proto > 5 || len(c.Phases) == 0 {
		return nil
	}
	cl := vnode.NewCluster(vxSpecs(1, 1))
	mon := &vxC01Monitor{outstanding: map[int]map[int]string{}, held: map[string]*vxC01Held{}, arrived: make(chan string, 4096), maxStream: 127}
	if c.Proto >= 3 {
		mon.maxStream = 32767
	}
	cl.Nodes()[0].Handler = mon.onRequest
	if len(c.Chunks) > 0 || c.WriteDelayUs > 0 {
		cl.PlanFor = func(addr string, nth int) vnode.Plan {
			return vnode.Plan{ReadChunks: c.Chunks, WriteDelayUs: c.WriteDelayUs}
		}
	}
	obs := &vxC01Obs{}
	timeout := 20 * time.Second
	if c.ByTimeout {
		timeout = 120 * time.Millisecond
	}
	var s *Session
	var err error
	for try := 0; try < 6; try++ {
		s, err = vxClusterConfig(cl, c.Proto, func(cfg *ClusterConfig) {
			cfg.Timeout = timeout
			cfg.StreamObserver = obs
			if !c.Coalesce {
				cfg.WriteCoalesceWaitTime = 0
			}
		}).CreateSession()
		// with the 120 ms timer a loaded machine can make the handshake itself time out: that is no finding
		if err == nil || !c.ByTimeout || !strings.Contains(err.Error(), "timeout") {
			break
		}
		obs = &vxC01Obs{}
	}
	if err != nil {
		return fmt.Errorf("harness: CreateSession: %v", err)
	}
	defer s.Close()

	var pendingLate []string          // tokens abandoned earlier whose answers are still to be sent
	lateAsErr := map[string]bool{}    // which of them are answered with an ERROR frame
	reorderings, lateAfterNewer := 0, 0
	earlyCancels, earlyArrived := 0, 0
	strays := 0
	for pi, ph := range c.Phases {
		n := len(ph.Fates)
		results := make(chan vxC01Result, n)
		cancels := make([]context.CancelFunc, n)
		toks := make([]string, n)
		for i := 0; i < n; i++ {
			toks[i] = fmt.Sprintf("tok_%d_%d", pi, i)
			ctx, cancel := context.WithCancel(context.Background())
			cancels[i] = cancel
			if ph.Fates[i] == vxFateEarly {
				d := 0
				if i < len(ph.Early) {
					d = ph.Early[i]
				}
				earlyCancels++
				time.AfterFunc(time.Duration(d)*time.Microsecond, cancel)
			}
			go func(tok string, ctx context.Context) {
				var got string
				iter := s.Query("LIST " + tok).WithContext(ctx).Iter()
				iter.Scan(&got)
				results <- vxC01Result{tok: tok, got: got, err: iter.Close()}
			}(toks[i], ctx)
		}
		// wait until every request reached the node or its caller already returned (no stream / etc.)
		arrived := map[string]bool{}
		done := map[string]vxC01Result{}
		deadline := time.After(15 * time.Second)
		seenBoth := func() int {
			k := len(arrived)
			for tok := range done {
				if !arrived[tok] {
					k++
				}
			}
			return k
		}
		for seenBoth() < n {
			select {
			case tok := <-mon.arrived:
				if strings.HasPrefix(tok, fmt.Sprintf("tok_%d_", pi)) {
					arrived[tok] = true
				} else {
					// the request of a caller cancelled early in an earlier phase reached the node only now
					pendingLate = append(pendingLate, tok)
				}
			case r := <-results:
				done[r.tok] = r
			case <-deadline:
				return fmt.Errorf("phase %d: after 15 s only %d of %d requests had reached the node or returned (hang)", pi, len(arrived)+len(done), n)
			}
		}
		if len(pendingLate) > 0 && len(arrived) > 0 {
			lateAfterNewer += len(pendingLate)
		}
		// abandon the callers whose fate says so
		abandoned := map[string]bool{}
		for i, f := range ph.Fates {
			if (f == vxFateLate || f == vxFateNever || f == vxFateLateErr || f == vxFateEarly) && arrived[toks[i]] {
				abandoned[toks[i]] = true
				if !c.ByTimeout {
					cancels[i]()
				}
			}
		}
		// ... and wait for them to return before anything is answered (so the answer really is late).
		// When the driver's own timer does the abandoning, the other callers are answered first (they
		// share the timer), and the abandoned ones are awaited afterwards; their answers are deferred to
		// a later phase either way.
		waitAbandoned := func() error {
			waitAbandon := time.After(15 * time.Second)
			for {
				missing := 0
				for tok := range abandoned {
					if _, ok := done[tok]; !ok {
						missing++
					}
				}
				if missing == 0 {
					return nil
				}
				select {
				case r := <-results:
					done[r.tok] = r
				case <-waitAbandon:
					return fmt.Errorf("phase %d: %d abandoned callers did not return within 15 s (hang)", pi, missing)
				}
			}
		}
		if !c.ByTimeout {
			if err := waitAbandoned(); err != nil {
				return err
			}
		}
		// answers of this phase: normal/error fates of this phase plus the late ones of earlier phases, in drawn order
		type ans struct {
			tok   string
			asErr bool
			key   int
		}
		var answers []ans
		for i, f := range ph.Fates {
			if !arrived[toks[i]] {
				continue
			}
			switch f {
			case vxFateAnswer:
				answers = append(answers, ans{toks[i], false, ph.Order[i]})
			case vxFateError:
				answers = append(answers, ans{toks[i], true, ph.Order[i]})
			}
		}
		for j, tok := range pendingLate {
			answers = append(answers, ans{tok, lateAsErr[tok], ph.Order[j%n] + j})
		}
		pendingLate = nil
		for i := 1; i < len(answers); i++ {
			for j := i; j > 0 && answers[j].key < answers[j-1].key; j-- {
				answers[j], answers[j-1] = answers[j-1], answers[j]
			}
		}
		for i := 1; i < len(answers); i++ {
			if answers[i].tok < answers[i-1].tok {
				reorderings++
			}
		}
		if ph.Stray > 0 && len(answers) > 0 {
			// duplicate / stray answers on ids nobody waits on (the top of the id range: with fewer than a hundred
			// callers those ids are not handed out): the driver discards them, the answers behind them stay in step
			mon.mu.Lock()
			h := mon.held[answers[0].tok]
			mon.mu.Unlock()
			if h != nil {
				for j := 0; j < ph.Stray; j++ {
					stray := *vnode.RowsResponse([]cqlspec.Column{{Keyspace: "ks", Table: "t", Name: "tok", Type: cqlspec.Scalar(cqlspec.Varchar)}},
						[][]cqlspec.Value{{cqlspec.BytesValue([]byte("stray-frame-nobody-asked-for"))}})
					stray.Version, stray.Stream = h.rc.Req.Header.Version, mon.maxStream-1-j
					h.rc.Conn.Send(&stray)
				}
				strays += ph.Stray
			}
		}
		for _, a := range answers {
			mon.answer(a.tok, a.asErr)
		}
		if c.ByTimeout {
			if err := waitAbandoned(); err != nil {
				return err
			}
		}
		for i, f := range ph.Fates {
			if arrived[toks[i]] && (f == vxFateLate || f == vxFateLateErr) {
				pendingLate = append(pendingLate, toks[i])
				lateAsErr[toks[i]] = f == vxFateLateErr
			}
		}
		// collect the remaining callers
		collect := time.After(15 * time.Second)
		for len(done) < n {
			select {
			case r := <-results:
				done[r.tok] = r
			case <-collect:
				return fmt.Errorf("phase %d: %d of %d callers did not return within 15 s although every answer was sent (hang)", pi, n-len(done), n)
			}
		}
		for i := range cancels {
			cancels[i]()
		}
		// a caller cancelled early may have returned while its frame was still on its way: give the (slow)
		// link time to deliver it, then hold whatever arrived for a late answer
		hasEarly := false
		for i, f := range ph.Fates {
			if f == vxFateEarly && !arrived[toks[i]] {
				hasEarly = true
			}
		}
		if hasEarly {
			time.Sleep(time.Duration(c.WriteDelayUs)*time.Microsecond + 1500*time.Microsecond)
		drainArrivals:
			for {
				select {
				case tok := <-mon.arrived:
					if strings.HasPrefix(tok, fmt.Sprintf("tok_%d_", pi)) {
						arrived[tok] = true
					} else {
						pendingLate = append(pendingLate, tok)
					}
				default:
					break drainArrivals
				}
			}
		}
		for i, f := range ph.Fates {
			if f == vxFateEarly && arrived[toks[i]] {
				earlyArrived++
				pendingLate = append(pendingLate, toks[i])
				lateAsErr[toks[i]] = ph.Order[i]%2 == 1
			}
		}
		// judge every caller of this phase
		for i, f := range ph.Fates {
			r := done[toks[i]]
			if r.got != "" && r.got != r.tok {
				return fmt.Errorf("phase %d: caller of %s received the row of %s", pi, r.tok, r.got)
			}
			if r.err != nil && strings.Contains(r.err.Error(), "err for ") && !strings.Contains(r.err.Error(), "err for "+r.tok) {
				return fmt.Errorf("phase %d: caller of %s received the error frame of another request: %v", pi, r.tok, r.err)
			}
			if !arrived[toks[i]] {
				if r.err == nil {
					return fmt.Errorf("phase %d: caller of %s succeeded although its request never reached the node", pi, r.tok)
				}
				k.Class("refused:" + vxErrClass(r.err))
				continue
			}
			timedOut := errors.Is(r.err, ErrTimeoutNoResponse)
			switch f {
			case vxFateAnswer:
				if r.err == nil && r.got != r.tok {
					return fmt.Errorf("phase %d: caller of %s got no row and no error", pi, r.tok)
				}
				if r.err != nil && !(c.ByTimeout && timedOut) {
					return fmt.Errorf("phase %d: caller of %s, answered with its row, got error %v", pi, r.tok, r.err)
				}
			case vxFateError:
				if r.err == nil || !(strings.Contains(r.err.Error(), "err for "+r.tok) || (c.ByTimeout && timedOut)) {
					return fmt.Errorf("phase %d: caller of %s, answered with an ERROR frame, got row %q err %v", pi, r.tok, r.got, r.err)
				}
			default:
				if r.err == nil || r.got != "" {
					return fmt.Errorf("phase %d: caller of %s was abandoned before any answer was sent but got row %q err %v", pi, r.tok, r.got, r.err)
				}
				if f == vxFateEarly && errors.Is(r.err, context.Canceled) {
					break
				}
				if c.ByTimeout && !timedOut || !c.ByTimeout && !errors.Is(r.err, context.Canceled) {
					return fmt.Errorf("phase %d: abandoned caller of %s got %v", pi, r.tok, r.err)
				}
			}
		}
		mon.mu.Lock()
		v := append([]string{}, mon.violations...)
		mon.mu.Unlock()
		if len(v) > 0 {
			return fmt.Errorf("phase %d: wire monitor: %s", pi, v[0])
		}
	}
	// late answers of the last phase are released now, with nobody waiting
	for _, tok := range pendingLate {
		mon.answer(tok, lateAsErr[tok])
	}
	s.Close()
	time.Sleep(2 * time.Millisecond)
	obs.mu.Lock()
	defer obs.mu.Unlock()
	if len(obs.bad) > 0 {
		return fmt.Errorf("stream observer: %s", obs.bad[0])
	}
	if reorderings > 0 || lateAfterNewer > 0 {
		k.NonTrivial()
	}
	if lateAfterNewer > 0 {
		k.Class("late-answer-after-newer-requests")
	}
	if earlyCancels > 0 {
		k.Class("early-cancel")
	}
	if earlyArrived > 0 {
		k.Class("early-cancel-request-still-reached-node")
	}
	if c.WriteDelayUs > 0 {
		k.Class("slow-writes")
	}
	if reorderings > 0 {
		k.Class("answers-reordered")
	}
	if strays > 0 {
		k.Class("unsolicited frames on unused stream ids")
	}
	k.Class(fmt.Sprintf("v%d", c.Proto))
	return nil
}

func vxErrClass(err error) string {
	switch {
	case err == nil:
		return "nil"
	case errors.Is(err, ErrNoStreams):
		return "no-streams"
	case errors.Is(err, ErrNoConnections):
		return "no-connections"
	case errors.Is(err, ErrTimeoutNoResponse):
		return "timeout"
	case errors.Is(err, context.Canceled):
		return "canceled"
	case errors.Is(err, ErrConnectionClosed):
		return "conn-closed"
	}
	s := err.Error()
	if len(s) > 40 {
		s = s[:40]
	}
	return s
}

func TestVxC01Routing(t *testing.T) {
	vx.Check(t, vx.Prop{
		ID: "C01", Part: "TestVxC01Routing",
		Rule: "protocol 1..5, one pool connection (coalescing on/off, reads chunked), 1..4 phases of 1..12 (sometimes 100..140) concurrent callers with unique tokens; per caller a fate: answered / ERROR frame / abandoned (context cancel, or the driver's own 120 ms timer in 1/8 of cases) and answered during a later phase / never answered / cancelled 0-1500 us after the call started (before, while or after its frame is written; writes take 0, 200 or 1000 us) and answered late if the request still reached the node; answers of a phase (and released late answers) sent in a drawn order; oracle: own row or own error only, node-side wire monitor (no stream id reused while unanswered, ids in range), stream observer balanced; non-trivial = answers out of request order or a late answer released after newer requests were issued; distinct by the whole plan",
		Draw: func(t *rapid.T) interface{} { return vxDrawC01(t) },
		New:  func() interface{} { return &vxC01Case{} },
		Run: func(ci interface{}, k *vstats.Case) error {
			return vxRunC01(ci.(*vxC01Case), k)
		},
	})
}
