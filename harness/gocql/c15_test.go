//go:build verif && go1.21

// C15 - paged iteration yields every row exactly once, in order, and then stops.
//
// A real Session (public API: Query / PageSize / Prefetch / PageState / NoSkipMetadata,
// Iter.Scan / Scanner / MapScan / SliceMap) talks to lib/vnode. The node's Handler serves a
// generated result in 1..8 pages of 0..30 rows; page k carries the more-pages flag and paging
// state vxC15State(k) (except the last). Every request is decoded by lib/cqlspec at the node.
//
// Oracle (see DESIGN.md C15): rows delivered = concatenation of the pages; follow-up request =
// first request + exactly the previous page's state; no request after the last page; a failed
// page fetch ends the iteration with that error after all earlier rows; manual paging = one
// request per Iter and Iter.PageState() = next state.
// Secondary assertion grounded in the doc comment of Query.Prefetch ("If there are only
// p*pageSize rows remaining, the next page will be requested automatically"): the request for
// page k+1 is never at the node before the consumer has started the call that leaves at most
// ceil(p*pageSize) rows of page k (one-sided, true for every timing).
package gocql

import (
	"bytes"
	"encoding/hex"
	"encoding/json"
	"errors"
	"fmt"
	"math"
	"sync"
	"sync/atomic"
	"testing"
	"time"

	"pgregory.net/rapid"
	"verif.local/cqlspec"
	"verif.local/vnode"
	"verif.local/vstats"
	"verif.local/vx"
)

type vxC15Case struct {
	Proto      int     `json:"proto"` // 2..5 (paging does not exist in v1)
	Nodes      int     `json:"nodes"`
	Pages      []int   `json:"pages"` // rows per page
	Salt       int     `json:"salt"`
	PageSize   int     `json:"page_size"` // >= rows of every page
	PSVia      string  `json:"ps_via"`    // query | session | cfg | default (5000)
	Prefetch   float64 `json:"prefetch"`
	PFVia      string  `json:"pf_via"` // query | session | default (0.25)
	Prepared   bool    `json:"prepared"`
	NVals      int     `json:"nvals"` // bound values (prepared only)
	CfgNoSkip  bool    `json:"cfg_no_skip"`
	QryNoSkip  bool    `json:"qry_no_skip"`
	GlobalSpec bool    `json:"global_spec"`
	Compress   bool    `json:"compress"`
	Coalesce   bool    `json:"coalesce"` // keep the driver's write coalescing (adds a timer to every request)
	Consumer   string  `json:"consumer"` // scan | scanner | mapscan | slicemap
	MapPtrs    bool    `json:"map_ptrs"`
	Cons       int     `json:"cons"`    // index into vxC15Cons
	Serial     int     `json:"serial"`  // 0 unset, 8 SERIAL, 9 LOCAL_SERIAL
	TSMode     string  `json:"ts_mode"` // default | off | explicit
	TS         int64   `json:"ts"`
	Payload    bool    `json:"payload"` // custom payload (v4+)
	Spec       bool    `json:"spec"`    // idempotent query with a speculative-execution policy (never fires: 10 s delay) - the executor's other route
	Fault      string  `json:"fault"`   // "" | error | close | unprepared | nostate (page FaultAt says there are more pages and carries an empty paging state)
	FaultAt    int     `json:"fault_at"`
	ErrCode    int     `json:"err_code"`
	Holds      []int   `json:"holds"`  // Holds[j]: -1 none; r: reply for page j is withheld until the consumer got r rows of page j-1
	Pauses     int     `json:"pauses"` // bit k: consumer waits briefly at the last position where request k+1 would be too early
	Manual     bool    `json:"manual"`
	Start      int     `json:"start"` // manual: -1 = empty state, s = state of page s
	NilStart   bool    `json:"nil_start"`
	Loop       bool    `json:"loop"` // manual: follow PageState() until it is empty
}

// dyadic values (and 1e-9): (1-p)*rows is computed exactly, so the documented threshold is unambiguous
var vxC15Prefetches = []float64{0, 1e-9, 0.125, 0.25, 0.5, 0.75, 1}
var vxC15Cons = []Consistency{One, Two, Three, Quorum, All, LocalQuorum, EachQuorum, LocalOne}
var vxC15ErrCodes = []int{cqlspec.ErrServer, cqlspec.ErrUnavailable, cqlspec.ErrOverloaded, cqlspec.ErrBootstrapping,
	cqlspec.ErrTruncate, cqlspec.ErrReadTimeout, cqlspec.ErrReadFailure, cqlspec.ErrSyntax, cqlspec.ErrUnauthorized,
	cqlspec.ErrInvalid, cqlspec.ErrConfig}

func vxC15DrawPages(t *rapid.T) []int {
	np := rapid.IntRange(1, 8).Draw(t, "npages")
	rows := rapid.OneOf(rapid.IntRange(0, 3), rapid.IntRange(0, 30), rapid.IntRange(25, 30))
	pages := make([]int, np)
	switch rapid.SampledFrom([]string{"free", "free", "full", "sparse"}).Draw(t, "shape") {
	case "free":
		for i := range pages {
			pages[i] = rows.Draw(t, "rows")
		}
	case "full": // what Cassandra does without filtering: full pages, then a shorter (possibly empty) one
		ps := rapid.IntRange(1, 30).Draw(t, "full")
		for i := range pages {
			pages[i] = ps
		}
		pages[np-1] = rapid.IntRange(0, ps).Draw(t, "lastrows")
	default:
		for i := range pages {
			if rapid.Bool().Draw(t, "empty") {
				pages[i] = 0
			} else {
				pages[i] = rows.Draw(t, "rows")
			}
		}
	}
	return pages
}

func vxC15Draw(t *rapid.T, manual bool) *vxC15Case {
	c := &vxC15Case{Manual: manual}
	c.Proto = rapid.IntRange(2, 5).Draw(t, "proto")
	c.Nodes = rapid.SampledFrom([]int{1, 1, 2}).Draw(t, "nodes")
	c.Pages = vxC15DrawPages(t)
	np := len(c.Pages)
	c.Salt = rapid.IntRange(0, 1<<20).Draw(t, "salt")
	max := 1
	for _, n := range c.Pages {
		if n > max {
			max = n
		}
	}
	c.PSVia = rapid.SampledFrom([]string{"query", "query", "session", "cfg", "default"}).Draw(t, "psvia")
	if c.PSVia == "default" {
		c.PageSize = 5000
	} else if rapid.Bool().Draw(t, "tight") {
		c.PageSize = max
	} else {
		c.PageSize = max + rapid.IntRange(1, 100).Draw(t, "slack")
	}
	c.PFVia = rapid.SampledFrom([]string{"query", "query", "query", "session", "default"}).Draw(t, "pfvia")
	if c.PFVia == "default" {
		c.Prefetch = 0.25
	} else {
		c.Prefetch = rapid.SampledFrom(vxC15Prefetches).Draw(t, "prefetch")
	}
	c.Prepared = rapid.Bool().Draw(t, "prepared")
	if c.Prepared {
		c.NVals = rapid.IntRange(0, 3).Draw(t, "nvals")
		c.CfgNoSkip = rapid.IntRange(0, 3).Draw(t, "cfgnoskip") == 0
		c.QryNoSkip = rapid.IntRange(0, 3).Draw(t, "qrynoskip") == 0
	}
	c.GlobalSpec = rapid.Bool().Draw(t, "global")
	c.Compress = rapid.IntRange(0, 3).Draw(t, "compress") == 0
	c.Coalesce = rapid.IntRange(0, 3).Draw(t, "coalesce") == 0
	c.Consumer = rapid.SampledFrom([]string{"scan", "scanner", "mapscan", "slicemap"}).Draw(t, "consumer")
	c.MapPtrs = rapid.Bool().Draw(t, "mapptrs")
	c.Cons = rapid.IntRange(0, len(vxC15Cons)-1).Draw(t, "cons")
	c.Serial = rapid.SampledFrom([]int{0, 0, 8, 9}).Draw(t, "serial")
	c.TSMode = rapid.SampledFrom([]string{"default", "off", "explicit"}).Draw(t, "tsmode")
	if c.TSMode == "explicit" {
		c.TS = int64(rapid.IntRange(1, 1<<40).Draw(t, "ts"))
	}
	c.Payload = c.Proto >= 4 && rapid.IntRange(0, 3).Draw(t, "payload") == 0
	c.Spec = rapid.IntRange(0, 3).Draw(t, "spec") == 0
	faults := []string{"", "", "", "error", "close"}
	if c.Prepared {
		faults = append(faults, "unprepared")
	}
	if !manual && np >= 2 {
		faults = append(faults, "nostate")
	}
	c.Fault = rapid.SampledFrom(faults).Draw(t, "fault")
	if c.Fault == "nostate" {
		c.FaultAt = rapid.IntRange(0, np-2).Draw(t, "faultat")
	} else if c.Fault != "" {
		c.FaultAt = rapid.IntRange(0, np-1).Draw(t, "faultat")
		if c.Fault == "error" {
			c.ErrCode = rapid.SampledFrom(vxC15ErrCodes).Draw(t, "errcode")
		}
	}
	c.Holds = make([]int, np)
	for j := range c.Holds {
		c.Holds[j] = -1
	}
	if manual {
		c.Start = rapid.IntRange(-1, np-2).Draw(t, "start")
		c.NilStart = rapid.Bool().Draw(t, "nilstart")
		c.Loop = rapid.Bool().Draw(t, "loop")
		if c.Fault != "" && c.FaultAt <= c.Start { // the fault page must be reachable
			c.FaultAt = c.Start + 1
		}
		return c
	}
	if c.Consumer != "slicemap" { // SliceMap gives the harness no hook between rows
		holdMode := rapid.IntRange(0, 2).Draw(t, "holdmode") // none / some / all
		for j := 1; j < np; j++ {
			if holdMode == 2 || (holdMode == 1 && rapid.Bool().Draw(t, "hold")) {
				c.Holds[j] = rapid.IntRange(0, c.Pages[j-1]).Draw(t, "holdrow")
			}
		}
		switch rapid.IntRange(0, 2).Draw(t, "pausemode") {
		case 1:
			c.Pauses = rapid.IntRange(0, 255).Draw(t, "pauses")
		case 2:
			c.Pauses = 255
		}
	}
	return c
}

// ---- the scripted result ----------------------------------------------------------------

func vxC15State(salt, k int) []byte {
	b := []byte("state-" + itoa(k) + "-")
	x := uint32(salt*2654435761 + k*40503 + 17)
	n := 1 + int(x%9)
	for i := 0; i < n; i++ {
		x = x*1664525 + 1013904223
		b = append(b, byte(x>>24)) // arbitrary bytes: 0x00, 0xff, non-UTF-8 included
	}
	return b
}

func vxC15Text(salt, page, idx int) string {
	x := uint32(salt*31 + page*1009 + idx*7919)
	n := int(x % 23)
	if x%5 == 0 {
		n = 0 // empty strings too
	}
	s := "r" + itoa(page) + "." + itoa(idx) + ":"
	for i := 0; i < n; i++ {
		x = x*1103515245 + 12345
		s += string(rune('a' + (x>>16)%26))
	}
	if x%5 == 0 {
		return ""
	}
	return s
}

type vxC15Row struct {
	ID  int
	Txt string
}

func vxC15PageRows(c *vxC15Case, page int) []vxC15Row {
	out := make([]vxC15Row, 0, c.Pages[page])
	for i := 0; i < c.Pages[page]; i++ {
		out = append(out, vxC15Row{ID: page*100 + i, Txt: vxC15Text(c.Salt, page, i)})
	}
	return out
}

func (c *vxC15Case) vxStmt() string {
	if !c.Prepared {
		return "LIST rows_" + itoa(c.Salt)
	}
	s := "SELECT id, txt FROM ks.t"
	for i := 0; i < c.NVals; i++ {
		if i == 0 {
			s += " WHERE"
		} else {
			s += " AND"
		}
		s += " p" + itoa(i) + " = ?"
	}
	return s
}

func (c *vxC15Case) vxValues() []interface{} {
	var v []interface{}
	for i := 0; i < c.NVals; i++ {
		if i%2 == 0 {
			v = append(v, c.Salt+i)
		} else {
			v = append(v, "v"+itoa(c.Salt%1000)+"-"+itoa(i))
		}
	}
	return v
}

func (c *vxC15Case) vxSkipExpected() bool { return c.Prepared && !c.CfgNoSkip && !c.QryNoSkip }

// vxNeed: rows of page k the consumer must have been handed before the request for page k+1 may
// exist, by the documented threshold (rows remaining <= p*pageSize), i.e. N - ceil(p*pageSize).
func (c *vxC15Case) vxNeed(k int) int {
	n := c.Pages[k] - int(math.Ceil(c.Prefetch*float64(c.PageSize)))
	if n < 0 {
		n = 0
	}
	return n
}

type vxC15Seen struct {
	Req     *cqlspec.Request
	Page    int   // page the paging state asks for (-1: a state the server never issued)
	T       int64 // consumer calls started when the request arrived
	Node    string
	Outcome string // rows | error | close | unprepared | badstate | overrun
}

type vxC15Env struct {
	c        *vxC15Case
	cols     []cqlspec.Column
	bind     []cqlspec.Column
	idHex    string
	stateIdx map[string]int // hex(state of page k) -> k
	cum      []int          // rows before page k

	mu        sync.Mutex
	reqs      []*vxC15Seen
	prepares  int
	prepared  map[string]bool // node ip + id
	faultDone bool
	anomalies []string

	gates    []chan struct{}
	gateOnce []sync.Once
	arrived  []chan struct{}
	arrOnce  []sync.Once
	started  int64 // consumer calls started (atomic)
	returned int   // rows handed to the consumer (consumer-owned)
	waitMiss []int // expired waits per page (consumer-owned)
}

func vxC15NewEnv(c *vxC15Case) *vxC15Env {
	e := &vxC15Env{c: c, stateIdx: map[string]int{}, prepared: map[string]bool{}}
	e.cols = []cqlspec.Column{{Keyspace: "ks", Table: "t", Name: "id", Type: cqlspec.Scalar(cqlspec.Int)},
		{Keyspace: "ks", Table: "t", Name: "txt", Type: cqlspec.Scalar(cqlspec.Varchar)}}
	for i := 0; i < c.NVals; i++ {
		k := cqlspec.Int
		if i%2 == 1 {
			k = cqlspec.Varchar
		}
		e.bind = append(e.bind, cqlspec.Column{Keyspace: "ks", Table: "t", Name: "p" + itoa(i), Type: cqlspec.Scalar(k)})
	}
	e.idHex = hex.EncodeToString([]byte("id-" + itoa(c.Salt) + "-" + itoa(c.NVals) + "-0123456"))
	sum := 0
	for k, n := range c.Pages {
		e.cum = append(e.cum, sum)
		sum += n
		if k < len(c.Pages)-1 {
			e.stateIdx[hex.EncodeToString(vxC15State(c.Salt, k))] = k
		}
		e.arrived = append(e.arrived, make(chan struct{}))
		var g chan struct{}
		if c.Holds[k] >= 0 && k >= 1 {
			g = make(chan struct{})
		}
		e.gates = append(e.gates, g)
	}
	e.cum = append(e.cum, sum)
	e.gateOnce = make([]sync.Once, len(c.Pages))
	e.waitMiss = make([]int, len(c.Pages))
	e.arrOnce = make([]sync.Once, len(c.Pages))
	return e
}

func (e *vxC15Env) anomaly(format string, a ...interface{}) {
	e.mu.Lock()
	e.anomalies = append(e.anomalies, fmt.Sprintf(format, a...))
	e.mu.Unlock()
}

func (e *vxC15Env) meta(page int, noMeta bool) *cqlspec.Metadata {
	m := &cqlspec.Metadata{Columns: e.cols, NoMetadata: noMeta}
	if e.c.GlobalSpec {
		m.GlobalSpec, m.Keyspace, m.Table = true, "ks", "t"
	}
	if page >= 0 && page < len(e.c.Pages)-1 {
		m.HasMore = true
		m.StateHex = hex.EncodeToString(vxC15State(e.c.Salt, page))
		if e.c.Fault == "nostate" && page == e.c.FaultAt {
			m.StateHex = "" // more pages announced, nothing to ask for them with
		}
	}
	return m
}

func (e *vxC15Env) errorResponse() *cqlspec.Response {
	c := e.c
	r := &cqlspec.Response{Kind: "ERROR", Code: c.ErrCode, Message: "vxC15 page " + itoa(c.FaultAt) + " failed"}
	switch c.ErrCode {
	case cqlspec.ErrUnavailable:
		r.Consistency, r.Required, r.Alive = 1, 2, 1
	case cqlspec.ErrReadTimeout:
		r.Consistency, r.Received, r.BlockFor, r.DataPresent = 1, 1, 2, 1
	case cqlspec.ErrReadFailure:
		r.Consistency, r.Received, r.BlockFor, r.NumFailures, r.DataPresent = 1, 0, 2, 1, 0
		r.Reasons = []cqlspec.FailureReason{{AddrHex: "0a000001", Code: 1}}
	}
	return r
}

func (e *vxC15Env) handle(rc *vnode.ReqCtx) {
	req := rc.Req
	c := e.c
	node := rc.Node.Spec.IP
	switch req.Kind {
	case "PREPARE":
		e.mu.Lock()
		e.prepares++
		e.prepared[node+"/"+e.idHex] = true
		e.mu.Unlock()
		if req.Statement != c.vxStmt() {
			e.anomaly("PREPARE of %q, the query's statement is %q", req.Statement, c.vxStmt())
		}
		bm := &cqlspec.Metadata{Columns: e.bind}
		if bm.Columns == nil {
			bm.Columns = []cqlspec.Column{}
		}
		rc.Reply(&cqlspec.Response{Kind: "PREPARED", PreparedIDHex: e.idHex, Meta: bm, ResultMeta: e.meta(-1, false)})
	case "QUERY", "EXECUTE":
		if req.Statement == vxC15Barrier {
			rc.Reply(vxVoid())
			return
		}
		seen := &vxC15Seen{Req: req, T: atomic.LoadInt64(&e.started), Node: node}
		if req.Params != nil && req.Params.HasState {
			if k, ok := e.stateIdx[req.Params.StateHex]; ok {
				seen.Page = k + 1
			} else {
				seen.Page = -1
			}
		}
		e.mu.Lock()
		switch {
		case seen.Page < 0:
			seen.Outcome = "badstate"
		case len(e.reqs) > 3*len(c.Pages)+8:
			seen.Outcome = "overrun" // a driver that keeps asking is stopped; the sequence check reports it
		case req.Kind == "EXECUTE" && !e.prepared[node+"/"+req.IDHex]:
			seen.Outcome = "unprepared" // what Cassandra answers to an id it does not know
		case c.Fault != "" && c.Fault != "nostate" && c.FaultAt == seen.Page && !e.faultDone:
			e.faultDone = true
			seen.Outcome = c.Fault
			if c.Fault == "unprepared" {
				delete(e.prepared, node+"/"+req.IDHex)
			}
		default:
			seen.Outcome = "rows"
		}
		e.reqs = append(e.reqs, seen)
		e.mu.Unlock()
		if seen.Page >= 0 {
			p := seen.Page
			e.arrOnce[p].Do(func() { close(e.arrived[p]) })
		}
		reply := func() {
			switch seen.Outcome {
			case "badstate":
				rc.Reply(&cqlspec.Response{Kind: "ERROR", Code: cqlspec.ErrProtocol, Message: "Invalid value for the paging state"})
			case "unprepared":
				rc.Reply(&cqlspec.Response{Kind: "ERROR", Code: cqlspec.ErrUnprepared, Message: "Prepared query with ID " + req.IDHex + " not found", UnpreparedIDHex: req.IDHex})
			case "overrun":
				rc.Reply(&cqlspec.Response{Kind: "ERROR", Code: cqlspec.ErrServer, Message: "vxC15: more requests than the result has pages"})
			case "error":
				rc.Reply(e.errorResponse())
			case "close":
				rc.Conn.Close()
			default:
				noMeta := req.Kind == "EXECUTE" && req.Params.SkipMeta
				var rows [][]cqlspec.Value
				for _, r := range vxC15PageRows(c, seen.Page) {
					rows = append(rows, []cqlspec.Value{cqlspec.I64Value(int64(r.ID)), cqlspec.BytesValue([]byte(r.Txt))})
				}
				rc.Reply(&cqlspec.Response{Kind: "ROWS", Meta: e.meta(seen.Page, noMeta), Rows: rows})
			}
		}
		if seen.Page >= 1 && e.gates[seen.Page] != nil && seen.Outcome != "unprepared" {
			g := e.gates[seen.Page]
			go func() { <-g; reply() }()
			return
		}
		reply()
	default:
		e.anomaly("unexpected %s request", req.Kind)
		rc.Reply(vxVoid())
	}
}

// before is called by the consumer before every call into the iterator.
func (e *vxC15Env) before() {
	for j, g := range e.gates {
		if g != nil && e.returned >= e.cum[j-1]+e.c.Holds[j] {
			e.gateOnce[j].Do(func() { close(g) })
		}
	}
	atomic.AddInt64(&e.started, 1)
}

// vxC15Trigger is where a threshold relative to the rows of the page (rather than to the page size)
// lies; used to place waits only.
func vxC15Trigger(p float64, n int) int {
	pos := int((1 - p) * float64(n))
	if pos < 1 {
		pos = 1
	}
	return pos
}

// after is called when a call handed a row to the consumer. For pages whose Pauses bit is set the
// consumer is slowed down around the prefetch threshold so that both orders of "request for the
// next page reaches the node" and "consumer goes on" are exercised. Stimulus only: no verdict
// depends on whether a wait expired.
func (e *vxC15Env) after() {
	e.returned++
	t := e.returned // = calls started: every call so far handed out a row
	k := 0
	for k+1 < len(e.c.Pages) && e.cum[k+1] < t {
		k++
	}
	if k+1 >= len(e.c.Pages) || e.c.Pauses&(1<<uint(k)) == 0 {
		return
	}
	local, need := t-e.cum[k], e.c.vxNeed(k)
	d := time.Millisecond
	if e.c.Coalesce {
		d = 3 * time.Millisecond // the coalescing timer alone may take more than 1 ms
	}
	wait := func() bool {
		select {
		case <-e.arrived[k+1]:
			return true
		case <-time.After(d):
			return false
		}
	}
	switch {
	case need >= 1 && local == need:
		// the call that may trigger the prefetch of page k+1 has not started yet: give a premature
		// request the time to reach the node
		wait()
	case local < e.c.Pages[k] && (local == vxC15Trigger(e.c.Prefetch, e.c.Pages[k])+1 || (local > need && e.waitMiss[k] < 1)):
		// the prefetch may be under way: let it reach the node while rows of page k are left
		if !wait() {
			e.waitMiss[k]++
		}
	}
}

func (e *vxC15Env) openAllGates() {
	for j, g := range e.gates {
		if g != nil {
			g := g
			e.gateOnce[j].Do(func() { close(g) })
		}
	}
}

// ---- the consumers ----------------------------------------------------------------------

type vxC15Result struct {
	rows    []vxC15Row
	err     error // Close() / Err() / SliceMap error
	scanErr error // an error of Scanner.Scan or a value of the wrong Go type
}

func vxC15Consume(e *vxC15Env, iter *Iter, consumer string, mapPtrs bool) (res vxC15Result) {
	switch consumer {
	case "scan":
		for {
			var id int
			var txt string
			e.before()
			if !iter.Scan(&id, &txt) {
				break
			}
			res.rows = append(res.rows, vxC15Row{id, txt})
			e.after()
		}
		res.err = iter.Close()
	case "scanner":
		sc := iter.Scanner()
		for {
			e.before()
			if !sc.Next() {
				break
			}
			var id int
			var txt string
			if err := sc.Scan(&id, &txt); err != nil && res.scanErr == nil {
				res.scanErr = err
			}
			res.rows = append(res.rows, vxC15Row{id, txt})
			e.after()
		}
		res.err = sc.Err()
	case "mapscan":
		for {
			m := map[string]interface{}{}
			var id int
			var txt string
			if mapPtrs {
				m["id"], m["txt"] = &id, &txt
			}
			e.before()
			if !iter.MapScan(m) {
				break
			}
			r, err := vxC15RowOfMap(m)
			if err != nil && res.scanErr == nil {
				res.scanErr = err
			}
			res.rows = append(res.rows, r)
			e.after()
		}
		res.err = iter.Close()
	default: // slicemap
		e.before()
		ms, err := iter.SliceMap()
		for _, m := range ms {
			r, merr := vxC15RowOfMap(m)
			if merr != nil && res.scanErr == nil {
				res.scanErr = merr
			}
			res.rows = append(res.rows, r)
		}
		res.err = err
		if cerr := iter.Close(); err == nil {
			res.err = cerr
		} else if cerr == nil {
			res.scanErr = fmt.Errorf("SliceMap returned %v but Close() returned nil", err)
		}
	}
	return res
}

func vxC15RowOfMap(m map[string]interface{}) (vxC15Row, error) {
	id, ok1 := m["id"].(int)
	txt, ok2 := m["txt"].(string)
	if !ok1 || !ok2 || len(m) != 2 {
		return vxC15Row{id, txt}, fmt.Errorf("row map %#v: want exactly id (int) and txt (string)", m)
	}
	return vxC15Row{id, txt}, nil
}

// ---- one run ----------------------------------------------------------------------------

var vxC15ErrWatchdog = errors.New("vxC15 watchdog")

const vxC15Barrier = "LIST vxbarrier"

func (c *vxC15Case) vxQuery(s *Session) *Query {
	q := s.Query(c.vxStmt(), c.vxValues()...)
	q.Consistency(vxC15Cons[c.Cons])
	if c.Serial != 0 {
		q.SerialConsistency(SerialConsistency(c.Serial))
	}
	if c.PSVia == "query" {
		q.PageSize(c.PageSize)
	}
	if c.PFVia == "query" {
		q.Prefetch(c.Prefetch)
	}
	if c.QryNoSkip {
		q.NoSkipMetadata()
	}
	if c.Spec {
		q.Idempotent(true).SetSpeculativeExecutionPolicy(&SimpleSpeculativeExecution{NumAttempts: 1, TimeoutDelay: 10 * time.Second})
	}
	switch c.TSMode {
	case "off":
		q.DefaultTimestamp(false)
	case "explicit":
		q.WithTimestamp(c.TS)
	}
	if c.Payload {
		q.CustomPayload(map[string][]byte{"vx": []byte("payload-" + itoa(c.Salt)), "empty": {}})
	}
	return q
}

type vxC15Iteration struct {
	startPage int // page this Iter is expected to begin with
	res       vxC15Result
	stateA    []byte // Iter.PageState() before consuming (manual)
	stateB    []byte // ... after consuming, before Close (manual)
	reqsAfter int    // user requests seen when the consumer had finished
}

func vxC15Once(c *vxC15Case) (*vxC15Env, []vxC15Iteration, error) {
	e := vxC15NewEnv(c)
	cl := vnode.NewCluster(vxSpecs(c.Nodes, 1))
	for _, n := range cl.Nodes() {
		n.Handler = e.handle
		n.CompressResponses = c.Compress
	}
	cfg := vxClusterConfig(cl, c.Proto, func(cfg *ClusterConfig) {
		cfg.Timeout = 20 * time.Second // a held page is released by the consumer, never by a clock
		cfg.ConnectTimeout = 20 * time.Second
		cfg.DisableSkipMetadata = c.CfgNoSkip
		if c.PSVia == "cfg" {
			cfg.PageSize = c.PageSize
		}
		if c.Compress {
			cfg.Compressor = SnappyCompressor{}
		}
		if !c.Coalesce {
			cfg.WriteCoalesceWaitTime = 0
		}
	})
	// session set-up pages through system.local / system.peers itself: keep it under a watchdog too
	type created struct {
		s   *Session
		err error
	}
	cch := make(chan created, 1)
	go func() {
		s, err := cfg.CreateSession()
		cch <- created{s, err}
	}()
	var s *Session
	select {
	case cr := <-cch:
		if cr.err != nil {
			return e, nil, fmt.Errorf("harness: CreateSession: %v", cr.err)
		}
		s = cr.s
	case <-time.After(30 * time.Second):
		return e, nil, vxC15ErrWatchdog
	}
	defer s.Close()
	defer e.openAllGates()
	if c.PSVia == "session" {
		s.SetPageSize(c.PageSize)
	}
	if c.PFVia == "session" {
		s.SetPrefetch(c.Prefetch)
	}

	var its []vxC15Iteration
	done := make(chan struct{})
	go func() {
		defer close(done)
		if !c.Manual {
			iter := c.vxQuery(s).Iter()
			it := vxC15Iteration{res: vxC15Consume(e, iter, c.Consumer, c.MapPtrs)}
			it.reqsAfter = e.userReqs()
			its = append(its, it)
			return
		}
		var state []byte
		if c.Start >= 0 {
			state = vxC15State(c.Salt, c.Start)
		} else if !c.NilStart {
			state = []byte{}
		}
		page := c.Start + 1
		for {
			iter := c.vxQuery(s).PageState(state).Iter()
			it := vxC15Iteration{startPage: page, stateA: append([]byte{}, iter.PageState()...)}
			it.res = vxC15Consume(e, iter, c.Consumer, c.MapPtrs)
			it.stateB = append([]byte{}, iter.PageState()...)
			it.reqsAfter = e.userReqs()
			its = append(its, it)
			// iter was closed by the consumer; PageState() stays readable (the documented loop reads it before)
			state = it.stateA
			page++
			if !c.Loop || len(state) == 0 || it.res.err != nil || len(its) > len(c.Pages)+2 {
				return
			}
		}
	}()
	select {
	case <-done:
	case <-time.After(30 * time.Second):
		e.openAllGates()
		return e, nil, vxC15ErrWatchdog
	}
	// one more round trip per node, so that a request sent behind the consumer's back has a chance to be seen
	for i := 0; i < c.Nodes; i++ {
		_ = s.Query(vxC15Barrier).Exec()
	}
	return e, its, nil
}

func (e *vxC15Env) userReqs() int {
	e.mu.Lock()
	defer e.mu.Unlock()
	n := 0
	for _, r := range e.reqs {
		if r.Outcome != "unprepared" { // an UNPREPARED answer makes the driver send the request again
			n++
		}
	}
	return n
}

// ---- the oracle -------------------------------------------------------------------------

// vxC15Norm is the request without what may legitimately differ between pages: stream id, body
// length, the paging state (and its flag bit) and a driver-generated timestamp.
func vxC15Norm(c *vxC15Case, r *cqlspec.Request) string {
	cp := *r
	cp.Header.Stream, cp.Header.Length = 0, 0
	if r.Params != nil {
		p := *r.Params
		p.HasState, p.StateHex = false, ""
		p.Flags &^= 0x08
		if c.TSMode != "explicit" {
			p.TS = 0
		}
		cp.Params = &p
	}
	b, _ := json.Marshal(&cp)
	return string(b)
}

func vxC15RowsDiff(got, want []vxC15Row) string {
	for i := 0; i < len(got) && i < len(want); i++ {
		if got[i] != want[i] {
			return fmt.Sprintf("row #%d is (page %d, index %d, %q), want (page %d, index %d, %q)", i,
				got[i].ID/100, got[i].ID%100, got[i].Txt, want[i].ID/100, want[i].ID%100, want[i].Txt)
		}
	}
	if len(got) < len(want) {
		w := want[len(got)]
		return fmt.Sprintf("%d rows delivered, %d expected: iteration ended before (page %d, index %d)", len(got), len(want), w.ID/100, w.ID%100)
	}
	if len(got) > len(want) {
		g := got[len(want)]
		return fmt.Sprintf("%d rows delivered, %d expected: extra row (page %d, index %d, %q)", len(got), len(want), g.ID/100, g.ID%100, g.Txt)
	}
	return ""
}

func (c *vxC15Case) vxCheckErr(what string, err error, faultHere bool) error {
	if !faultHere || c.Fault == "unprepared" {
		if err != nil {
			return fmt.Errorf("%s: no page failed but the iteration reports %v", what, err)
		}
		return nil
	}
	if err == nil {
		return fmt.Errorf("%s: the fetch of page %d failed (%s) but the iteration ended normally (nil error)", what, c.FaultAt, c.Fault)
	}
	if c.Fault == "error" {
		re, ok := err.(RequestError)
		if !ok || re.Code() != c.ErrCode || re.Message() != "vxC15 page "+itoa(c.FaultAt)+" failed" {
			return fmt.Errorf("%s: page %d failed with server error %#x but the iteration reports %T %v", what, c.FaultAt, c.ErrCode, err, err)
		}
	}
	return nil
}

func vxC15Judge(c *vxC15Case, e *vxC15Env, its []vxC15Iteration) error {
	e.mu.Lock()
	reqs := append([]*vxC15Seen{}, e.reqs...)
	anomalies := append([]string{}, e.anomalies...)
	e.mu.Unlock()
	if len(anomalies) > 0 {
		return fmt.Errorf("node: %s", anomalies[0])
	}
	user := reqs
	last := len(c.Pages) - 1

	// 1. the request sequence
	var served []*vxC15Seen
	for i, r := range user {
		if r.Page < 0 {
			return fmt.Errorf("request #%d carries paging state %s, which no page of this result carried", i, r.Req.Params.StateHex)
		}
		if r.Outcome != "unprepared" {
			served = append(served, r)
		}
	}
	var expect []int // pages that must have been requested, in order
	switch {
	case !c.Manual:
		end := last
		if c.Fault == "error" || c.Fault == "close" || c.Fault == "nostate" {
			end = c.FaultAt
		}
		for p := 0; p <= end; p++ {
			expect = append(expect, p)
		}
	default:
		for _, it := range its {
			expect = append(expect, it.startPage)
		}
	}
	for i := 0; i < len(served) || i < len(expect); i++ {
		switch {
		case i >= len(expect):
			prev := "none"
			if i > 0 {
				prev = "page " + itoa(served[i-1].Page)
			}
			return fmt.Errorf("request #%d asks for page %d (state %q) after the iteration was complete (previous request: %s; last page is %d, fault %q at %d)",
				i, served[i].Page, served[i].Req.Params.StateHex, prev, last, c.Fault, c.FaultAt)
		case i >= len(served):
			return fmt.Errorf("page %d was never requested (%d requests seen)", expect[i], len(served))
		case served[i].Page != expect[i]:
			return fmt.Errorf("request #%d asks for page %d (paging state %q), expected the request for page %d", i, served[i].Page, served[i].Req.Params.StateHex, expect[i])
		}
	}
	if len(user) > 0 {
		first := user[0].Req
		want := "QUERY"
		if c.Prepared {
			want = "EXECUTE"
		}
		if first.Kind != want {
			return fmt.Errorf("first request is %s, want %s", first.Kind, want)
		}
		if c.Prepared && first.IDHex != e.idHex {
			return fmt.Errorf("EXECUTE of id %s, prepared id is %s", first.IDHex, e.idHex)
		}
		if !c.Prepared && first.Statement != c.vxStmt() {
			return fmt.Errorf("QUERY %q, want %q", first.Statement, c.vxStmt())
		}
		p := first.Params
		if !p.HasPageSize || p.PageSize != c.PageSize {
			return fmt.Errorf("first request: page size present=%v %d, the query's page size is %d", p.HasPageSize, p.PageSize, c.PageSize)
		}
		if p.SkipMeta != c.vxSkipExpected() {
			return fmt.Errorf("first request: skip_metadata=%v, want %v (prepared=%v DisableSkipMetadata=%v NoSkipMetadata=%v)", p.SkipMeta, c.vxSkipExpected(), c.Prepared, c.CfgNoSkip, c.QryNoSkip)
		}
		n0 := vxC15Norm(c, first)
		for i, r := range user[1:] {
			if n := vxC15Norm(c, r.Req); n != n0 {
				return fmt.Errorf("request #%d (page %d) differs from the first request in more than the paging state:\n first: %s\n this:  %s", i+1, r.Page, n0, n)
			}
		}
	}
	// re-execution after UNPREPARED: the same request again, after a PREPARE
	for i, r := range user {
		if r.Outcome == "unprepared" && (i+1 >= len(user) || user[i+1].Page != r.Page) {
			return fmt.Errorf("request #%d (page %d) was answered UNPREPARED and was not executed again", i, r.Page)
		}
	}

	// 2. rows and errors per iteration
	for n, it := range its {
		what := "iteration"
		var want []vxC15Row
		faultHere := false
		if !c.Manual {
			end := last
			if c.Fault == "error" || c.Fault == "close" {
				end, faultHere = c.FaultAt-1, true
			}
			if c.Fault == "nostate" {
				// the rows of the page itself are good; what follows cannot be asked for, and a request
				// without a state would be the first page again
				end, faultHere = c.FaultAt, true
			}
			for p := 0; p <= end; p++ {
				want = append(want, vxC15PageRows(c, p)...)
			}
		} else {
			what = fmt.Sprintf("manual iteration %d (page %d)", n, it.startPage)
			faultHere = (c.Fault == "error" || c.Fault == "close") && c.FaultAt == it.startPage
			if !faultHere && it.startPage <= last {
				want = vxC15PageRows(c, it.startPage)
			}
		}
		if it.res.scanErr != nil {
			return fmt.Errorf("%s: %v", what, it.res.scanErr)
		}
		if c.Consumer == "slicemap" && faultHere {
			// SliceMap returns (nil, err) by contract; the rows are not handed out
			if len(it.res.rows) > len(want) {
				return fmt.Errorf("%s: SliceMap returned %d rows, at most %d exist before the failed page", what, len(it.res.rows), len(want))
			}
			want = want[:len(it.res.rows)]
		}
		if d := vxC15RowsDiff(it.res.rows, want); d != "" {
			extra := ""
			if it.res.err != nil {
				extra = fmt.Sprintf(" (iteration error: %v)", it.res.err)
			}
			return fmt.Errorf("%s: %s%s", what, d, extra)
		}
		if err := c.vxCheckErr(what, it.res.err, faultHere); err != nil {
			return err
		}
		if c.Manual {
			var wantState []byte
			if it.startPage < last && !faultHere {
				wantState = vxC15State(c.Salt, it.startPage)
			}
			if !bytes.Equal(it.stateA, wantState) {
				return fmt.Errorf("%s: Iter.PageState() = %q, the page carried %q", what, it.stateA, wantState)
			}
			if !bytes.Equal(it.stateB, wantState) {
				return fmt.Errorf("%s: Iter.PageState() = %q after the page was consumed, the page carried %q", what, it.stateB, wantState)
			}
			if it.reqsAfter != n+1 {
				return fmt.Errorf("%s: %d requests seen after %d manual iterations (PageState() must fetch exactly one page)", what, it.reqsAfter, n+1)
			}
		}
	}
	if c.Manual {
		if c.Loop && c.Fault != "error" && c.Fault != "close" && len(its) != last-c.Start {
			return fmt.Errorf("manual loop from page %d made %d iterations, the result has %d pages left", c.Start+1, len(its), last-c.Start)
		}
		return nil
	}

	// 3. prefetch: never before the documented threshold
	if c.Consumer != "slicemap" {
		for _, r := range user {
			if r.Page < 1 {
				continue
			}
			k := r.Page - 1
			if bound := int64(e.cum[k] + c.vxNeed(k) + 1); r.T < bound {
				return fmt.Errorf("prefetch: the request for page %d reached the node when the consumer had started %d calls; page %d has %d rows (rows %d..), page size %d, prefetch %g: "+
					"the next page may be requested once at most ceil(p*pageSize)=%d rows remain, i.e. not before call %d",
					r.Page, r.T, k, c.Pages[k], e.cum[k], c.PageSize, c.Prefetch, int(math.Ceil(c.Prefetch*float64(c.PageSize))), bound)
			}
		}
	}
	return nil
}

func vxC15Classes(c *vxC15Case, k *vstats.Case) {
	np := len(c.Pages)
	k.Class("pages=" + itoa(np))
	empty, lastEmpty, inside := false, c.Pages[np-1] == 0, false
	for i, n := range c.Pages {
		if n == 0 {
			empty = true
		}
		if i < np-1 && n >= 2 {
			if pos := int((1 - c.Prefetch) * float64(n)); pos >= 1 && pos <= n-1 {
				inside = true
			}
		}
	}
	if empty {
		k.Class("has-empty-page")
	}
	if lastEmpty {
		k.Class("last-page-empty")
	}
	if inside {
		k.Class("threshold-inside-page")
	}
	k.Class("consumer=" + c.Consumer)
	k.Class(fmt.Sprintf("prefetch=%g", c.Prefetch))
	k.Class("proto=" + itoa(c.Proto))
	switch {
	case !c.Prepared:
		k.Class("stmt=unprepared")
	case c.vxSkipExpected():
		k.Class("stmt=prepared-skipmeta")
	default:
		k.Class("stmt=prepared-fullmeta")
	}
	if c.Fault != "" {
		pos := "middle"
		if c.FaultAt == 0 {
			pos = "first"
		} else if c.FaultAt == np-1 {
			pos = "last"
		}
		k.Class("fault=" + c.Fault + "@" + pos)
	} else {
		k.Class("fault=none")
	}
	held := 0
	for _, h := range c.Holds {
		if h >= 0 {
			held++
		}
	}
	if held > 0 {
		k.Class("held-pages")
	}
	if c.Manual {
		if c.Loop {
			k.Class("manual=loop")
		} else {
			k.Class("manual=single")
		}
	}
	if (np >= 3 && empty) || inside {
		k.NonTrivial()
	}
}

// vxC15Observed labels what the schedule of this run exercised.
func vxC15Observed(c *vxC15Case, e *vxC15Env, k *vstats.Case) {
	if c.Manual || c.Consumer == "slicemap" {
		return
	}
	e.mu.Lock()
	defer e.mu.Unlock()
	early, heldMid := false, false
	for _, r := range e.reqs {
		if r.Page >= 1 && r.Page < len(e.cum) && int(r.T) <= e.cum[r.Page] && c.Pages[r.Page-1] > 0 {
			early = true // asked for while rows of the previous page were still to be handed out
			if c.Holds[r.Page] > int(r.T)-e.cum[r.Page-1] {
				heldMid = true // ... and answered later, while the consumer was inside that page
			}
		}
	}
	if early {
		k.Class("obs:prefetch-in-flight-while-consuming")
	}
	if heldMid {
		k.Class("obs:held-reply-released-mid-page")
	}
}

func vxC15Run(ci interface{}, k *vstats.Case) error {
	c := ci.(*vxC15Case)
	vxC15Classes(c, k)
	e, its, err := vxC15Once(c)
	if err == vxC15ErrWatchdog {
		// "and then stops": confirm once before calling a hang
		k.Class("watchdog-rerun")
		e, its, err = vxC15Once(c)
		if err == vxC15ErrWatchdog {
			return fmt.Errorf("the iteration (or the session set-up that pages through system.local) did not finish within 30 s, twice")
		}
	}
	if err != nil {
		return err
	}
	vxC15Observed(c, e, k)
	return vxC15Judge(c, e, its)
}

const vxC15Rule = "1..8 pages x 0..30 rows (free / full pages + short last / half of the pages empty), page size >= rows per page set on query, session, config or default, " +
	"prefetch in {0,1e-9,.125,.25,.5,.75,1}, protocol 2..5, 1..2 nodes, prepared (0..3 values, skip_metadata unless disabled in config or query) or unprepared, " +
	"consumer Scan/Scanner/MapScan/SliceMap, fault none/ERROR/connection close/UNPREPARED at a drawn page, replies withheld until the consumer reached a drawn row; " +
	"non-trivial: >=3 pages with an empty page, or a prefetch threshold strictly inside a non-last page; distinct: different case encodings"

func TestVxC15Auto(t *testing.T) {
	vx.Check(t, vx.Prop{ID: "C15", Part: "TestVxC15Auto", Rule: vxC15Rule,
		Draw: func(t *rapid.T) interface{} { return vxC15Draw(t, false) },
		New:  func() interface{} { return &vxC15Case{} },
		Run:  vxC15Run})
}

func TestVxC15Manual(t *testing.T) {
	vx.Check(t, vx.Prop{ID: "C15", Part: "TestVxC15Manual", Rule: "manual paging: Query.PageState(x) with x empty/nil or the state of a drawn page, single Iter or the documented loop over PageState(); otherwise as TestVxC15Auto. " + vxC15Rule,
		Draw: func(t *rapid.T) interface{} { return vxC15Draw(t, true) },
		New:  func() interface{} { return &vxC15Case{} },
		Run:  vxC15Run})
}
