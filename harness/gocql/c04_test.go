//go:build verif && go1.21

// C04 - well-formed server responses are decoded to exactly what the server said.
// White-box route: bytes from lib/cqlspec's response encoder go through readHeader, framer.readFrame
// and framer.parseFrame; rows are consumed through an Iter built the way conn.go builds it
// (Iter{meta, framer, numRows}) with Scan / Scanner / MapScan / SliceMap.
// Internal identifiers used: readHeader, newFramer, framer.{readFrame,parseFrame,traceID,customPayload,buf,header},
// frameHeader.warnings, the frame structs of frame.go, errorFrame, Iter{meta,framer,numRows}, resultMetadata, preparedMetadata.
package gocql

import (
	"bytes"
	"encoding/hex"
	"fmt"
	"net"
	"reflect"
	"testing"

	"github.com/golang/snappy"
	"pgregory.net/rapid"
	"verif.local/cqlspec"
	"verif.local/vstats"
	"verif.local/vx"
)

type vxC04Case struct {
	Resp     *cqlspec.Response `json:"resp"`
	Codec    string            `json:"codec"`    // "", "snappy", "lz4" (lz4 = lib/cqlspec's framing behind the Compressor interface)
	Consumer int               `json:"consumer"` // 0 Scan, 1 Scanner, 2 MapScan, 3 SliceMap
}

// vxLZ4 is an independent LZ4 codec (lib/cqlspec) behind the public Compressor interface.
type vxLZ4 struct{}

func (vxLZ4) Name() string                      { return "lz4" }
func (vxLZ4) Encode(b []byte) ([]byte, error)   { return cqlspec.CassandraLZ4Encode(b, true), nil }
func (vxLZ4) Decode(b []byte) ([]byte, error)   { return cqlspec.CassandraLZ4Decode(b, 64<<20) }

func vxCodec(name string) (Compressor, func([]byte) ([]byte, error)) {
	switch name {
	case "snappy":
		return SnappyCompressor{}, func(b []byte) ([]byte, error) { return snappy.Encode(nil, b), nil }
	case "lz4":
		return vxLZ4{}, func(b []byte) ([]byte, error) { return cqlspec.CassandraLZ4Encode(b, false), nil }
	}
	return nil, nil
}

var vxCustomClasses = map[string]cqlspec.Kind{
	"org.apache.cassandra.db.marshal.Int32Type": cqlspec.Int, "org.apache.cassandra.db.marshal.UTF8Type": cqlspec.Varchar,
	"org.apache.cassandra.db.marshal.LongType": cqlspec.Bigint, "org.apache.cassandra.db.marshal.BooleanType": cqlspec.Boolean,
	"org.apache.cassandra.db.marshal.UUIDType": cqlspec.UUID, "org.apache.cassandra.db.marshal.BytesType": cqlspec.Blob,
}

// classes a column of kind custom (option id 0x0000, a class name and nothing else) may name: Cassandra's
// marshal classes of scalar types (the driver reports those as the scalar type), classes nobody knows, and
// the bare names of the parametrised marshal classes (still only a name: no element types follow)
var vxCustomDrawn = []string{
	"org.apache.cassandra.db.marshal.Int32Type", "org.apache.cassandra.db.marshal.UTF8Type", "org.apache.cassandra.db.marshal.LongType",
	"org.apache.cassandra.db.marshal.BooleanType", "org.apache.cassandra.db.marshal.UUIDType", "org.apache.cassandra.db.marshal.BytesType",
	"com.example.cassandra.MyType", "", "org.apache.cassandra.db.marshal.DynamicCompositeType(a=>org.apache.cassandra.db.marshal.UTF8Type)",
	"org.apache.cassandra.db.marshal.ListType", "org.apache.cassandra.db.marshal.SetType", "org.apache.cassandra.db.marshal.MapType", "org.apache.cassandra.db.marshal.TupleType",
}

// vxEffType: the type whose encoding the cells of a column carry. For a custom column naming a scalar marshal
// class that is the scalar; any other custom column has opaque bytes (second result false).
func vxEffType(ty *cqlspec.Type) (*cqlspec.Type, bool) {
	if ty.Kind != cqlspec.Custom {
		return ty, true
	}
	if k, ok := vxCustomClasses[ty.Custom]; ok {
		return cqlspec.Scalar(k), true
	}
	return ty, false
}

// vxEffCell converts the raw cell of a custom column into the value of its effective type.
func vxEffCell(ty *cqlspec.Type, cell cqlspec.Value, proto int) cqlspec.Value {
	et, known := vxEffType(ty)
	if ty.Kind != cqlspec.Custom || !known || cell.Null {
		return cell
	}
	v, err := cqlspec.Decode(et, cell.RawBytes(), proto)
	if err != nil {
		return cell
	}
	return v
}

// vxPlainColumns rewrites custom columns as the type their cells carry (blob for a class nobody knows): for
// checks whose subject is not the column type.
func vxPlainColumns(r *cqlspec.Response) {
	for _, m := range []*cqlspec.Metadata{r.Meta, r.ResultMeta} {
		if m == nil {
			continue
		}
		for ci := range m.Columns {
			ty := m.Columns[ci].Type
			if ty.Kind != cqlspec.Custom {
				continue
			}
			et, known := vxEffType(ty)
			if !known {
				et = cqlspec.Scalar(cqlspec.Blob)
			}
			if m == r.Meta {
				for _, row := range r.Rows {
					if ci < len(row) {
						row[ci] = vxEffCell(ty, row[ci], r.Version)
					}
				}
			}
			m.Columns[ci].Type = et
		}
	}
}

func vxHasOpaqueColumn(m *cqlspec.Metadata) bool {
	for _, c := range m.Columns {
		if _, known := vxEffType(c.Type); !known {
			return true
		}
	}
	return false
}

func vxDrawIdent(t *rapid.T, label string) string {
	return rapid.OneOf(rapid.StringMatching(`[a-z][a-z0-9_]{0,10}`), rapid.StringN(0, 8, -1)).Draw(t, label)
}

// vxDrawColType draws a column type legal in the given protocol version.
func vxDrawColType(t *rapid.T, version int) *cqlspec.Type {
	if rapid.IntRange(0, 11).Draw(t, "customcol") == 0 {
		return &cqlspec.Type{Kind: cqlspec.Custom, Custom: rapid.SampledFrom(vxCustomDrawn).Draw(t, "class")}
	}
	for try := 0; ; try++ {
		ty := vxDrawType(t, rapid.IntRange(0, 2).Draw(t, "depth"), false)
		if vxTypeFits(ty, version) {
			return ty
		}
		if try > 20 {
			return cqlspec.Scalar(cqlspec.Int)
		}
	}
}

func vxTypeFits(ty *cqlspec.Type, version int) bool {
	if ty.MinVersion() > version {
		return false
	}
	if ty.Kind == cqlspec.Text && version >= 3 {
		return false
	}
	for _, e := range ty.Elems {
		if !vxTypeFits(e, version) {
			return false
		}
	}
	return true
}

func vxDrawMetadata(t *rapid.T, version int, maxCols int, prepared bool) *cqlspec.Metadata {
	m := &cqlspec.Metadata{Columns: []cqlspec.Column{}}
	n := rapid.IntRange(0, maxCols).Draw(t, "ncols")
	m.GlobalSpec = rapid.Bool().Draw(t, "global")
	if m.GlobalSpec {
		m.Keyspace, m.Table = vxDrawIdent(t, "gks"), vxDrawIdent(t, "gtable")
	}
	// one result in sixteen is wide: many columns with the shortest names there are (a, b, ..., aa, ab, ...) and
	// plain types - column counts around the driver's own thresholds included
	wide := rapid.IntRange(0, 15).Draw(t, "wide") == 0
	if wide {
		n = rapid.SampledFrom([]int{9, 12, 26, 40, 300, 999, 1000, 1001, 1100}).Draw(t, "wide_ncols")
	}
	for i := 0; i < n; i++ {
		c := cqlspec.Column{Name: fmt.Sprintf("c%d_%s", i, vxDrawIdent(t, "cname")), Type: vxDrawColType(t, version)}
		if wide {
			c.Name, c.Type = vxShortName(i), cqlspec.Scalar(rapid.SampledFrom([]cqlspec.Kind{cqlspec.Int, cqlspec.Int, cqlspec.Varchar, cqlspec.Boolean}).Draw(t, "wide_type"))
		}
		if m.GlobalSpec {
			c.Keyspace, c.Table = m.Keyspace, m.Table
		} else {
			c.Keyspace, c.Table = vxDrawIdent(t, "cks"), vxDrawIdent(t, "ctable")
		}
		m.Columns = append(m.Columns, c)
	}
	if !prepared && rapid.IntRange(0, 2).Draw(t, "more") == 0 {
		m.HasMore = true
		m.StateHex = hex.EncodeToString(vxDrawBytes(t, 20))
	}
	if prepared && version >= 4 && n > 0 {
		for i := rapid.IntRange(0, 3).Draw(t, "npk"); i > 0; i-- {
			m.PKIndexes = append(m.PKIndexes, rapid.IntRange(0, n-1).Draw(t, "pk"))
		}
	}
	return m
}

// vxShortName: a, b, ..., z, aa, ab, ...
func vxShortName(i int) string {
	s := ""
	for {
		s = string(rune('a'+i%26)) + s
		i = i/26 - 1
		if i < 0 {
			return s
		}
	}
}

func vxDrawResponse(t *rapid.T) *cqlspec.Response {
	v := rapid.IntRange(1, 5).Draw(t, "version")
	maxStream := 127
	if v >= 3 {
		maxStream = 32767
	}
	r := &cqlspec.Response{Version: v, Stream: rapid.IntRange(-1, maxStream).Draw(t, "stream")}
	kinds := []string{"READY", "AUTHENTICATE", "SUPPORTED", "ERROR", "ERROR", "VOID", "ROWS", "ROWS", "ROWS", "SET_KEYSPACE", "PREPARED", "PREPARED", "SCHEMA_CHANGE", "EVENT"}
	if v >= 2 {
		kinds = append(kinds, "AUTH_CHALLENGE", "AUTH_SUCCESS")
	}
	r.Kind = rapid.SampledFrom(kinds).Draw(t, "kind")
	if rapid.IntRange(0, 3).Draw(t, "trace") == 0 {
		b := make([]byte, 16)
		for i := range b {
			b[i] = rapid.Byte().Draw(t, "tr")
		}
		r.TraceHex = hex.EncodeToString(b)
	}
	if v >= 4 && rapid.IntRange(0, 3).Draw(t, "warn") == 0 {
		r.Warnings = rapid.SliceOfN(rapid.String(), 0, 3).Draw(t, "warnings")
		if r.Warnings == nil {
			r.Warnings = []string{}
		}
	}
	if v >= 4 && rapid.IntRange(0, 3).Draw(t, "payload") == 0 {
		r.HasPayload = true
		r.Payload = map[string]string{}
		for i := rapid.IntRange(0, 3).Draw(t, "npay"); i > 0; i-- {
			val := hex.EncodeToString(vxDrawBytes(t, 10))
			if rapid.IntRange(0, 4).Draw(t, "pnull") == 0 {
				val = "null"
			}
			r.Payload[rapid.StringMatching(`[a-z]{1,5}`).Draw(t, "pk")] = val
		}
	}
	tok := func() *string {
		switch rapid.IntRange(0, 2).Draw(t, "tok") {
		case 0:
			return nil
		case 1:
			s := ""
			return &s
		}
		s := hex.EncodeToString(vxDrawBytes(t, 30))
		return &s
	}
	change := func() {
		r.Change = rapid.SampledFrom([]string{"CREATED", "UPDATED", "DROPPED"}).Draw(t, "change")
		r.ChKeyspace = vxDrawIdent(t, "chks")
		if v <= 2 {
			r.ChObject = rapid.OneOf(rapid.Just(""), rapid.StringMatching(`[a-z]{1,8}`)).Draw(t, "chobj")
			if r.ChObject == "" {
				r.Target = "KEYSPACE"
			} else {
				r.Target = "TABLE"
			}
			return
		}
		targets := []string{"KEYSPACE", "TABLE", "TYPE"}
		if v >= 4 {
			targets = append(targets, "FUNCTION", "AGGREGATE")
		}
		r.Target = rapid.SampledFrom(targets).Draw(t, "target")
		if r.Target != "KEYSPACE" {
			r.ChObject = vxDrawIdent(t, "chobj")
		}
		if r.Target == "FUNCTION" || r.Target == "AGGREGATE" {
			r.ChArgs = rapid.SliceOfN(rapid.SampledFrom([]string{"int", "text", "list<int>", ""}), 0, 3).Draw(t, "chargs")
		}
	}
	switch r.Kind {
	case "AUTHENTICATE":
		r.Class = rapid.OneOf(rapid.Just("org.apache.cassandra.auth.PasswordAuthenticator"), rapid.String()).Draw(t, "class")
	case "AUTH_CHALLENGE", "AUTH_SUCCESS":
		r.TokenHex = tok()
	case "SUPPORTED":
		r.Supported = map[string][]string{}
		for i := rapid.IntRange(0, 3).Draw(t, "nsup"); i > 0; i-- {
			r.Supported[rapid.SampledFrom([]string{"COMPRESSION", "CQL_VERSION", "PROTOCOL_VERSIONS", "X"}).Draw(t, "supk")] =
				rapid.SliceOfN(rapid.SampledFrom([]string{"snappy", "lz4", "3.4.5", "4/v4", ""}), 0, 3).Draw(t, "supv")
		}
	case "ERROR":
		r.Code = rapid.SampledFrom(cqlspec.AllErrorCodes).Draw(t, "code")
		r.Message = rapid.String().Draw(t, "msg")
		r.Consistency = rapid.SampledFrom([]int{0, 1, 4, 6, 10}).Draw(t, "cl")
		r.Required, r.Alive = rapid.IntRange(0, 9).Draw(t, "req"), rapid.IntRange(0, 9).Draw(t, "alive")
		r.Received, r.BlockFor = rapid.IntRange(0, 9).Draw(t, "recv"), rapid.IntRange(0, 9).Draw(t, "block")
		r.NumFailures = rapid.IntRange(0, 5).Draw(t, "nfail")
		r.DataPresent = byte(rapid.IntRange(0, 1).Draw(t, "dp"))
		r.WriteType = rapid.SampledFrom([]string{"SIMPLE", "BATCH", "CAS", "COUNTER", ""}).Draw(t, "wt")
		r.ErrKeyspace, r.ErrTable, r.Function = vxDrawIdent(t, "eks"), vxDrawIdent(t, "etable"), vxDrawIdent(t, "efn")
		r.ArgTypes = rapid.SliceOfN(rapid.SampledFrom([]string{"int", "text"}), 0, 3).Draw(t, "eargs")
		r.UnpreparedIDHex = hex.EncodeToString(vxDrawBytes(t, 16))
		if v >= 5 && (r.Code == cqlspec.ErrReadFailure || r.Code == cqlspec.ErrWriteFailure) {
			seen := map[string]bool{}
			for i := rapid.IntRange(0, 3).Draw(t, "nreasons"); i > 0; i-- {
				n := 4
				if rapid.Bool().Draw(t, "v6") {
					n = 16
				}
				a := make([]byte, n)
				for j := range a {
					a[j] = rapid.Byte().Draw(t, "ra")
				}
				if n == 16 && isV4Mapped(a) {
					a[0] = 0x20
				}
				h := hex.EncodeToString(a)
				if seen[h] {
					continue
				}
				seen[h] = true
				r.Reasons = append(r.Reasons, cqlspec.FailureReason{AddrHex: h, Code: rapid.IntRange(0, 0xffff).Draw(t, "rcode")})
			}
		}
	case "ROWS":
		r.Meta = vxDrawMetadata(t, v, 6, false)
		nrows := rapid.IntRange(0, 6).Draw(t, "nrows")
		if rapid.IntRange(0, 9).Draw(t, "manyrows") == 0 {
			nrows = rapid.IntRange(7, 40).Draw(t, "nrows2")
		}
		if len(r.Meta.Columns) > 50 && nrows > 2 {
			nrows = 2
		}
		if len(r.Meta.Columns) == 0 {
			nrows = 0 // rows of no columns: nothing a server sends, and the driver refuses the frame (see DESIGN 9.4)
		}
		for i := 0; i < nrows; i++ {
			row := make([]cqlspec.Value, len(r.Meta.Columns))
			for j, c := range r.Meta.Columns {
				et, known := vxEffType(c.Type)
				var val cqlspec.Value
				if known {
					val = vxDrawValue(t, et, true, v)
				}
				if !known {
					val = cqlspec.BytesValue(vxDrawBytes(t, 12)) // opaque bytes
					if rapid.IntRange(0, 4).Draw(t, "nullcustom") == 0 {
						val = cqlspec.NullValue()
					}
				} else if !vxDefaultCanHold(et, val) || !cqlspec.Encodable(et, val, v) {
					val = cqlspec.NullValue()
				} else if c.Type.Kind == cqlspec.Custom && !val.Null {
					val = cqlspec.BytesValue(cqlspec.Encode(et, val, v)) // the cell carries the scalar's encoding
				}
				row[j] = val
			}
			r.Rows = append(r.Rows, row)
		}
	case "SET_KEYSPACE":
		r.Keyspace = vxDrawIdent(t, "ks")
	case "PREPARED":
		r.PreparedIDHex = hex.EncodeToString(vxDrawBytes(t, 20))
		r.Meta = vxDrawMetadata(t, v, 5, true)
		r.ResultMeta = vxDrawMetadata(t, v, 5, false)
		if rapid.IntRange(0, 4).Draw(t, "nores") == 0 {
			r.ResultMeta = &cqlspec.Metadata{Columns: []cqlspec.Column{}, NoMetadata: rapid.Bool().Draw(t, "nometa")}
		}
	case "SCHEMA_CHANGE":
		change()
	case "EVENT":
		r.Stream = -1
		r.EventType = rapid.SampledFrom([]string{"TOPOLOGY_CHANGE", "STATUS_CHANGE", "SCHEMA_CHANGE"}).Draw(t, "evt")
		switch r.EventType {
		case "TOPOLOGY_CHANGE":
			r.Change = rapid.SampledFrom([]string{"NEW_NODE", "REMOVED_NODE", "MOVED_NODE"}).Draw(t, "ch")
		case "STATUS_CHANGE":
			r.Change = rapid.SampledFrom([]string{"UP", "DOWN"}).Draw(t, "ch")
		default:
			change()
		}
		if r.EventType != "SCHEMA_CHANGE" {
			n := 4
			if rapid.Bool().Draw(t, "v6") {
				n = 16
			}
			a := make([]byte, n)
			for j := range a {
				a[j] = rapid.Byte().Draw(t, "ea")
			}
			r.AddrHex = hex.EncodeToString(a)
			r.Port = rapid.IntRange(0, 65535).Draw(t, "port")
		}
	}
	return r
}

// vxTypeMatches compares the driver's TypeInfo with the type tree the frame encodes.
func vxTypeMatches(ti TypeInfo, ty *cqlspec.Type, proto int) error {
	want := ty.Kind
	if ty.Kind == cqlspec.Custom {
		if k, ok := vxCustomClasses[ty.Custom]; ok {
			want = k
		}
		if ti.Custom() != ty.Custom {
			return fmt.Errorf("custom class %q, want %q", ti.Custom(), ty.Custom)
		}
	}
	if int(ti.Type()) != int(want) {
		return fmt.Errorf("type %v, want %v", ti.Type(), want)
	}
	if int(ti.Version()) != proto {
		return fmt.Errorf("type %v carries protocol version %d, want %d", ti.Type(), ti.Version(), proto)
	}
	switch ty.Kind {
	case cqlspec.List, cqlspec.Set:
		c, ok := ti.(CollectionType)
		if !ok {
			return fmt.Errorf("%v is %T", ty, ti)
		}
		return vxTypeMatches(c.Elem, ty.Elems[0], proto)
	case cqlspec.Map:
		c, ok := ti.(CollectionType)
		if !ok {
			return fmt.Errorf("%v is %T", ty, ti)
		}
		if err := vxTypeMatches(c.Key, ty.Elems[0], proto); err != nil {
			return err
		}
		return vxTypeMatches(c.Elem, ty.Elems[1], proto)
	case cqlspec.Tuple:
		c, ok := ti.(TupleTypeInfo)
		if !ok || len(c.Elems) != len(ty.Elems) {
			return fmt.Errorf("%v is %T %v", ty, ti, ti)
		}
		for i := range ty.Elems {
			if err := vxTypeMatches(c.Elems[i], ty.Elems[i], proto); err != nil {
				return err
			}
		}
	case cqlspec.UDT:
		c, ok := ti.(UDTTypeInfo)
		if !ok || len(c.Elements) != len(ty.Elems) || c.KeySpace != ty.Keyspace || c.Name != ty.Name {
			return fmt.Errorf("%v is %T %v", ty, ti, ti)
		}
		for i := range ty.Elems {
			if c.Elements[i].Name != ty.Names[i] {
				return fmt.Errorf("udt field %d named %q, want %q", i, c.Elements[i].Name, ty.Names[i])
			}
			if err := vxTypeMatches(c.Elements[i].Type, ty.Elems[i], proto); err != nil {
				return err
			}
		}
	}
	return nil
}

func vxColumnsMatch(got []ColumnInfo, m *cqlspec.Metadata, proto int) error {
	if m.NoMetadata {
		if len(got) != 0 {
			return fmt.Errorf("%d columns decoded from a no-metadata result", len(got))
		}
		return nil
	}
	if len(got) != len(m.Columns) {
		return fmt.Errorf("%d columns, want %d", len(got), len(m.Columns))
	}
	for i, c := range m.Columns {
		g := got[i]
		if g.Keyspace != c.Keyspace || g.Table != c.Table || g.Name != c.Name {
			return fmt.Errorf("column %d is %s.%s.%s, want %s.%s.%s", i, g.Keyspace, g.Table, g.Name, c.Keyspace, c.Table, c.Name)
		}
		if err := vxTypeMatches(g.TypeInfo, c.Type, proto); err != nil {
			return fmt.Errorf("column %d (%v): %v", i, c.Type, err)
		}
	}
	return nil
}

func vxMetaMatch(got resultMetadata, m *cqlspec.Metadata, proto int) error {
	if got.colCount != len(m.Columns) {
		return fmt.Errorf("column count %d, want %d", got.colCount, len(m.Columns))
	}
	if m.HasMore != got.morePages() {
		return fmt.Errorf("more-pages %v, want %v", got.morePages(), m.HasMore)
	}
	if m.HasMore && hex.EncodeToString(got.pagingState) != m.StateHex {
		return fmt.Errorf("paging state %x, want %s", got.pagingState, m.StateHex)
	}
	if !m.HasMore && len(got.pagingState) != 0 {
		return fmt.Errorf("paging state %x without the more-pages flag", got.pagingState)
	}
	return vxColumnsMatch(got.columns, m, proto)
}

func vxStrs(a []string) []string {
	if a == nil {
		return []string{}
	}
	return a
}

// vxCheckFrame compares the parsed frame (everything except rows) with the response.
func vxCheckFrame(f frame, fr *framer, r *cqlspec.Response) error {
	if err := vxCheckFlags(fr, r); err != nil {
		return err
	}
	return vxCheckFrameKind(f, r)
}

// vxCheckFlags compares what the header flags carried (trace id, warnings, custom payload).
func vxCheckFlags(fr *framer, r *cqlspec.Response) error {
	if r.TraceHex != "" {
		if hex.EncodeToString(fr.traceID) != r.TraceHex {
			return fmt.Errorf("trace id %x, want %s", fr.traceID, r.TraceHex)
		}
	} else if len(fr.traceID) != 0 {
		return fmt.Errorf("trace id %x on an untraced response", fr.traceID)
	}
	if r.Warnings != nil {
		if !reflect.DeepEqual(vxStrs(fr.header.warnings), r.Warnings) {
			return fmt.Errorf("warnings %q, want %q", fr.header.warnings, r.Warnings)
		}
	} else if len(fr.header.warnings) != 0 {
		return fmt.Errorf("warnings %q on a response without the warning flag", fr.header.warnings)
	}
	if r.HasPayload {
		if len(fr.customPayload) != len(r.Payload) {
			return fmt.Errorf("custom payload %v, want %v", fr.customPayload, r.Payload)
		}
		for k, v := range r.Payload {
			g, ok := fr.customPayload[k]
			if !ok || (v == "null") != (g == nil) || (v != "null" && hex.EncodeToString(g) != v) {
				return fmt.Errorf("custom payload key %q is %x (present %v), want %s", k, g, ok, v)
			}
		}
	} else if len(fr.customPayload) != 0 {
		return fmt.Errorf("custom payload %v on a response without the flag", fr.customPayload)
	}
	return nil
}

// vxCheckFrameKind compares the parsed frame's kind-specific content with the response.
func vxCheckFrameKind(f frame, r *cqlspec.Response) error {
	h := f.Header()
	if _, isRows := f.(*resultRowsFrame); !isRows { // the rows frame does not keep a header copy
		if h.stream != r.Stream || int(h.version.version()) != r.Version || !h.version.response() {
			return fmt.Errorf("header version %v stream %d, want v%d stream %d", h.version, h.stream, r.Version, r.Stream)
		}
	}
	errFields := func(e RequestError) error {
		if e.Code() != r.Code || e.Message() != r.Message {
			return fmt.Errorf("error code %#x message %q, want %#x %q", e.Code(), e.Message(), r.Code, r.Message)
		}
		return nil
	}
	switch r.Kind {
	case "READY":
		if _, ok := f.(*readyFrame); !ok {
			return fmt.Errorf("READY parsed as %T", f)
		}
	case "AUTHENTICATE":
		x, ok := f.(*authenticateFrame)
		if !ok || x.class != r.Class {
			return fmt.Errorf("AUTHENTICATE(%q) parsed as %T %v", r.Class, f, f)
		}
	case "AUTH_CHALLENGE", "AUTH_SUCCESS":
		var data []byte
		switch x := f.(type) {
		case *authChallengeFrame:
			if r.Kind != "AUTH_CHALLENGE" {
				return fmt.Errorf("%s parsed as %T", r.Kind, f)
			}
			data = x.data
		case *authSuccessFrame:
			if r.Kind != "AUTH_SUCCESS" {
				return fmt.Errorf("%s parsed as %T", r.Kind, f)
			}
			data = x.data
		default:
			return fmt.Errorf("%s parsed as %T", r.Kind, f)
		}
		if (r.TokenHex == nil) != (data == nil) || (r.TokenHex != nil && hex.EncodeToString(data) != *r.TokenHex) {
			return fmt.Errorf("%s token %x (nil %v), want %v", r.Kind, data, data == nil, r.TokenHex)
		}
	case "SUPPORTED":
		x, ok := f.(*supportedFrame)
		if !ok {
			return fmt.Errorf("SUPPORTED parsed as %T", f)
		}
		if len(x.supported) != len(r.Supported) {
			return fmt.Errorf("supported %v, want %v", x.supported, r.Supported)
		}
		for k, v := range r.Supported {
			if !reflect.DeepEqual(vxStrs(x.supported[k]), vxStrs(v)) {
				return fmt.Errorf("supported[%q] = %q, want %q", k, x.supported[k], v)
			}
		}
	case "ERROR":
		e, ok := f.(RequestError)
		if !ok {
			return fmt.Errorf("ERROR %#x parsed as %T, not a RequestError", r.Code, f)
		}
		if _, ok := f.(error); !ok {
			return fmt.Errorf("ERROR %#x parsed as %T, which is not an error", r.Code, f)
		}
		if err := errFields(e); err != nil {
			return err
		}
		mism := func(what string, got, want interface{}) error {
			return fmt.Errorf("ERROR %#x: %s %v, want %v", r.Code, what, got, want)
		}
		reasons := func(m ErrorMap, n int) error {
			if r.Version >= 5 {
				if len(m) != len(r.Reasons) || n != len(r.Reasons) {
					return mism("reason map / numfailures", fmt.Sprint(m, n), r.Reasons)
				}
				for _, fr := range r.Reasons {
					b, _ := hex.DecodeString(fr.AddrHex)
					ip := netIPString(b)
					if c, ok := m[ip]; !ok || int(c) != fr.Code {
						return mism("reason for "+ip, c, fr.Code)
					}
				}
				return nil
			}
			if n != r.NumFailures {
				return mism("numfailures", n, r.NumFailures)
			}
			return nil
		}
		switch r.Code {
		case cqlspec.ErrUnavailable:
			x, ok := f.(*RequestErrUnavailable)
			if !ok || int(x.Consistency) != r.Consistency || x.Required != r.Required || x.Alive != r.Alive {
				return mism("unavailable", f, r)
			}
		case cqlspec.ErrWriteTimeout:
			x, ok := f.(*RequestErrWriteTimeout)
			if !ok || int(x.Consistency) != r.Consistency || x.Received != r.Received || x.BlockFor != r.BlockFor || x.WriteType != r.WriteType {
				return mism("write timeout", f, r)
			}
		case cqlspec.ErrReadTimeout:
			x, ok := f.(*RequestErrReadTimeout)
			if !ok || int(x.Consistency) != r.Consistency || x.Received != r.Received || x.BlockFor != r.BlockFor || x.DataPresent != r.DataPresent {
				return mism("read timeout", f, r)
			}
		case cqlspec.ErrReadFailure:
			x, ok := f.(*RequestErrReadFailure)
			if !ok || int(x.Consistency) != r.Consistency || x.Received != r.Received || x.BlockFor != r.BlockFor || x.DataPresent != (r.DataPresent != 0) {
				return mism("read failure", f, r)
			}
			return reasons(x.ErrorMap, x.NumFailures)
		case cqlspec.ErrWriteFailure:
			x, ok := f.(*RequestErrWriteFailure)
			if !ok || int(x.Consistency) != r.Consistency || x.Received != r.Received || x.BlockFor != r.BlockFor || x.WriteType != r.WriteType {
				return mism("write failure", f, r)
			}
			return reasons(x.ErrorMap, x.NumFailures)
		case cqlspec.ErrFunctionFailure:
			x, ok := f.(*RequestErrFunctionFailure)
			if !ok || x.Keyspace != r.ErrKeyspace || x.Function != r.Function || !reflect.DeepEqual(vxStrs(x.ArgTypes), vxStrs(r.ArgTypes)) {
				return mism("function failure", f, r)
			}
		case cqlspec.ErrCASWriteUnknown:
			x, ok := f.(*RequestErrCASWriteUnknown)
			if !ok || int(x.Consistency) != r.Consistency || x.Received != r.Received || x.BlockFor != r.BlockFor {
				return mism("cas write unknown", f, r)
			}
		case cqlspec.ErrAlreadyExists:
			x, ok := f.(*RequestErrAlreadyExists)
			if !ok || x.Keyspace != r.ErrKeyspace || x.Table != r.ErrTable {
				return mism("already exists", f, r)
			}
		case cqlspec.ErrUnprepared:
			x, ok := f.(*RequestErrUnprepared)
			if !ok || hex.EncodeToString(x.StatementId) != r.UnpreparedIDHex {
				return mism("unprepared", f, r)
			}
		case cqlspec.ErrCDCWriteFailure:
			if _, ok := f.(*RequestErrCDCWriteFailure); !ok {
				return mism("cdc write failure", f, r)
			}
		}
	case "VOID":
		if _, ok := f.(*resultVoidFrame); !ok {
			return fmt.Errorf("VOID parsed as %T", f)
		}
	case "SET_KEYSPACE":
		x, ok := f.(*resultKeyspaceFrame)
		if !ok || x.keyspace != r.Keyspace {
			return fmt.Errorf("SET_KEYSPACE(%q) parsed as %T %v", r.Keyspace, f, f)
		}
	case "PREPARED":
		x, ok := f.(*resultPreparedFrame)
		if !ok {
			return fmt.Errorf("PREPARED parsed as %T", f)
		}
		if hex.EncodeToString(x.preparedID) != r.PreparedIDHex {
			return fmt.Errorf("prepared id %x, want %s", x.preparedID, r.PreparedIDHex)
		}
		if err := vxMetaMatch(x.reqMeta.resultMetadata, r.Meta, r.Version); err != nil {
			return fmt.Errorf("bind metadata: %v", err)
		}
		if r.Version >= 4 {
			if len(x.reqMeta.pkeyColumns) != len(r.Meta.PKIndexes) {
				return fmt.Errorf("pk indexes %v, want %v", x.reqMeta.pkeyColumns, r.Meta.PKIndexes)
			}
			for i, p := range r.Meta.PKIndexes {
				if x.reqMeta.pkeyColumns[i] != p {
					return fmt.Errorf("pk indexes %v, want %v", x.reqMeta.pkeyColumns, r.Meta.PKIndexes)
				}
			}
		}
		if r.Meta.GlobalSpec && (x.reqMeta.keyspace != r.Meta.Keyspace || x.reqMeta.table != r.Meta.Table) {
			return fmt.Errorf("bind metadata table %s.%s, want %s.%s", x.reqMeta.keyspace, x.reqMeta.table, r.Meta.Keyspace, r.Meta.Table)
		}
		if r.Version >= 2 {
			if err := vxMetaMatch(x.respMeta, r.ResultMeta, r.Version); err != nil {
				return fmt.Errorf("result metadata: %v", err)
			}
		}
	case "SCHEMA_CHANGE", "EVENT":
		if r.Kind == "EVENT" && r.EventType != "SCHEMA_CHANGE" {
			var change string
			var host []byte
			var port int
			switch x := f.(type) {
			case *topologyChangeEventFrame:
				if r.EventType != "TOPOLOGY_CHANGE" {
					return fmt.Errorf("%s parsed as %T", r.EventType, f)
				}
				change, host, port = x.change, x.host, x.port
			case *statusChangeEventFrame:
				if r.EventType != "STATUS_CHANGE" {
					return fmt.Errorf("%s parsed as %T", r.EventType, f)
				}
				change, host, port = x.change, x.host, x.port
			default:
				return fmt.Errorf("%s parsed as %T", r.EventType, f)
			}
			if change != r.Change || hex.EncodeToString(host) != r.AddrHex || port != r.Port {
				return fmt.Errorf("%s %s %x:%d, want %s %s:%d", r.EventType, change, host, port, r.Change, r.AddrHex, r.Port)
			}
			return nil
		}
		var change, ks, obj string
		var args []string
		target := ""
		switch x := f.(type) {
		case *schemaChangeKeyspace:
			target, change, ks = "KEYSPACE", x.change, x.keyspace
		case *schemaChangeTable:
			target, change, ks, obj = "TABLE", x.change, x.keyspace, x.object
		case *schemaChangeType:
			target, change, ks, obj = "TYPE", x.change, x.keyspace, x.object
		case *schemaChangeFunction:
			target, change, ks, obj, args = "FUNCTION", x.change, x.keyspace, x.name, x.args
		case *schemaChangeAggregate:
			target, change, ks, obj, args = "AGGREGATE", x.change, x.keyspace, x.name, x.args
		default:
			return fmt.Errorf("schema change parsed as %T", f)
		}
		if target != r.Target || change != r.Change || ks != r.ChKeyspace || obj != r.ChObject || !reflect.DeepEqual(vxStrs(args), vxStrs(r.ChArgs)) {
			return fmt.Errorf("schema change %s %s %s.%s%v, want %s %s %s.%s%v", target, change, ks, obj, args, r.Target, r.Change, r.ChKeyspace, r.ChObject, r.ChArgs)
		}
	}
	return nil
}

func netIPString(b []byte) string { return net.IP(b).String() }

// vxRowHolders builds the destination list Scan expects (tuples expanded) and remembers, per
// destination, which (type, column index, tuple element index) it belongs to.
type vxDest struct {
	col, elem int // elem -1: whole column
	ty        *cqlspec.Type
	ptr       reflect.Value
}

func vxRowHolders(m *cqlspec.Metadata) []vxDest {
	var out []vxDest
	for i, c := range m.Columns {
		if c.Type.Kind == cqlspec.Tuple {
			for j, e := range c.Type.Elems {
				out = append(out, vxDest{col: i, elem: j, ty: e, ptr: reflect.New(vxDefaultGoType(e))})
			}
			continue
		}
		et, known := vxEffType(c.Type)
		if !known {
			// a custom type nobody knows: the driver has no Go type for it; Scan skips a column whose
			// destination is nil
			out = append(out, vxDest{col: i, elem: -1, ty: c.Type})
			continue
		}
		out = append(out, vxDest{col: i, elem: -1, ty: et, ptr: reflect.New(vxDefaultGoType(et))})
	}
	return out
}

// vxSkipSome: every third row is scanned with nil in some positions ("use nil as a dest value to skip the
// corresponding column"; a tuple column takes one destination per element, each of which may be nil); what is
// skipped is a function of the row index and the position only. The other destinations must still receive
// their own cells.
func vxSkipSome(dests []vxDest, row int, k *vstats.Case) []vxDest {
	if row%3 != 2 {
		return dests
	}
	out := append([]vxDest{}, dests...)
	skipped, inTuple := false, false
	for j := range out {
		if (row/3+j)%3 == 0 && out[j].ptr.IsValid() {
			out[j].ptr = reflect.Value{}
			skipped = true
			inTuple = inTuple || out[j].elem >= 0
		}
	}
	if k != nil && skipped {
		k.Class("row scanned with some nil destinations")
		if inTuple {
			k.Class("nil destination for a tuple element")
		}
	}
	return out
}

// vxDestArgs turns the holders into Scan arguments (nil for opaque columns).
func vxDestArgs(dests []vxDest) []interface{} {
	args := make([]interface{}, len(dests))
	for j, d := range dests {
		if d.ptr.IsValid() {
			args[j] = d.ptr.Interface()
		}
	}
	return args
}

func vxCellFor(d vxDest, row []cqlspec.Value) cqlspec.Value {
	cell := row[d.col]
	if d.elem < 0 {
		return cell
	}
	if cell.Null {
		return cqlspec.NullValue()
	}
	return cell.Elems[d.elem]
}

func TestVxC04Responses(t *testing.T) {
	vx.Check(t, vx.Prop{
		ID: "C04", Part: "TestVxC04Responses",
		Rule: "abstract response (every kind x version 1..5; header flags tracing/warning(v4+)/custom payload(v4+)/compression with snappy or an independent lz4; metadata flag combinations; 0..6 columns of type trees to depth 2; 0..40 rows with null cells; every ERROR code incl. v5 reason maps; EVENT and SCHEMA_CHANGE variants) encoded by lib/cqlspec -> readHeader/readFrame/parseFrame -> field-by-field comparison; rows through Scan, Scanner, MapScan (empty map, or pre-filled with the caller's destination pointers) or SliceMap; body must be consumed exactly; non-trivial = a header flag, or nesting depth >= 2, or >= 2 rows with a null cell, or a tuple column; distinct by the whole case",
		Draw: func(t *rapid.T) interface{} {
			return &vxC04Case{Resp: vxDrawResponse(t), Codec: rapid.SampledFrom([]string{"", "", "snappy", "lz4"}).Draw(t, "codec"), Consumer: rapid.IntRange(0, 4).Draw(t, "consumer")}
		},
		New: func() interface{} { return &vxC04Case{} },
		Run: func(ci interface{}, k *vstats.Case) error {
			c := ci.(*vxC04Case)
			r := c.Resp
			if r == nil || r.Version < 1 || r.Version > 5 {
				return nil
			}
			comp, compress := vxCodec(c.Codec)
			r.Compress = comp != nil
			k.Class("kind=" + r.Kind)
			k.Class(fmt.Sprintf("v%d", r.Version))
			k.Class("codec=" + c.Codec)
			nt := r.TraceHex != "" || r.Warnings != nil || r.HasPayload || r.Compress
			if r.Kind == "ROWS" {
				nulls := 0
				for _, row := range r.Rows {
					for _, cell := range row {
						if cell.Null {
							nulls++
							break
						}
					}
				}
				if nulls >= 2 {
					nt = true
				}
				for _, col := range r.Meta.Columns {
					if col.Type.Depth() >= 2 || col.Type.Kind == cqlspec.Tuple {
						nt = true
						k.Class("deep-or-tuple-column")
					}
				}
				k.Class(fmt.Sprintf("consumer=%d", c.Consumer))
			}
			if nt {
				k.NonTrivial()
			}
			frameBytes, err := r.Frame(compress)
			if err != nil {
				return fmt.Errorf("harness: %v", err)
			}
			rd := bytes.NewReader(frameBytes)
			head, err := readHeader(rd, make([]byte, 9))
			if err != nil {
				return fmt.Errorf("readHeader refused a well-formed %s header % x: %v", r.Kind, frameBytes[:9], err)
			}
			if head.stream != r.Stream || int(head.version.version()) != r.Version || int(head.op) != int(r.Opcode()) || head.length != len(frameBytes)-cqlspec.HeaderSize(r.Version) {
				return fmt.Errorf("readHeader: %v, want v%d stream %d op %#x length %d", head, r.Version, r.Stream, r.Opcode(), len(frameBytes)-cqlspec.HeaderSize(r.Version))
			}
			fr := newFramer(comp, byte(r.Version))
			if err := fr.readFrame(rd, &head); err != nil {
				return fmt.Errorf("readFrame refused a well-formed %s frame: %v", r.Kind, err)
			}
			if rd.Len() != 0 {
				return fmt.Errorf("readFrame left %d bytes of the frame unread", rd.Len())
			}
			f, err := fr.parseFrame()
			if err != nil {
				return fmt.Errorf("parseFrame refused a well-formed %s v%d frame: %v", r.Kind, r.Version, err)
			}
			if r.Kind != "ROWS" {
				if err := vxCheckFrame(f, fr, r); err != nil {
					return fmt.Errorf("%s v%d: %v", r.Kind, r.Version, err)
				}
				if len(fr.buf) != 0 {
					return fmt.Errorf("%s v%d: %d bytes of the body were not consumed", r.Kind, r.Version, len(fr.buf))
				}
				return nil
			}
			x, ok := f.(*resultRowsFrame)
			if !ok {
				return fmt.Errorf("ROWS parsed as %T", f)
			}
			if err := vxCheckFrame(f, fr, r); err != nil {
				return fmt.Errorf("ROWS v%d: %v", r.Version, err)
			}
			if err := vxMetaMatch(x.meta, r.Meta, r.Version); err != nil {
				return fmt.Errorf("ROWS v%d metadata: %v", r.Version, err)
			}
			if x.numRows != len(r.Rows) {
				return fmt.Errorf("row count %d, want %d", x.numRows, len(r.Rows))
			}
			iter := &Iter{meta: x.meta, framer: fr, numRows: x.numRows} // as conn.go executeQuery builds it
			if err := vxConsumeRows(iter, r, c.Consumer, k); err != nil {
				return fmt.Errorf("ROWS v%d (%d cols, %d rows, consumer %d): %v", r.Version, len(r.Meta.Columns), len(r.Rows), c.Consumer, err)
			}
			if len(fr.buf) != 0 {
				return fmt.Errorf("ROWS v%d: %d bytes of the body left after reading every row", r.Version, len(fr.buf))
			}
			return nil
		},
	})
}

// vxCmpDestRow compares scan destinations with row rowIdx of r.
func vxCmpDestRow(r *cqlspec.Response, rowIdx int, dests []vxDest) error {
	for _, d := range dests {
		if !d.ptr.IsValid() {
			continue
		}
		cell := vxCellFor(d, r.Rows[rowIdx])
		if d.elem < 0 {
			cell = vxEffCell(r.Meta.Columns[d.col].Type, cell, r.Version)
		}
		if err := vxCompare(d.ty, cell, d.ptr.Elem(), fmt.Sprintf("row %d col %d", rowIdx, d.col)); err != nil {
			return err
		}
	}
	return nil
}
// MapScan/SliceMap copy slices (rowMap), which turns the nil slice of a null collection/blob into an
// empty one; len()==0 either way, and Cassandra itself does not distinguish empty from null collections
func vxNullAsEmpty(cell cqlspec.Value, v interface{}) bool {
	rv := reflect.ValueOf(v)
	return cell.Null && rv.IsValid() && rv.Kind() == reflect.Slice && rv.Len() == 0
}
// vxCmpMapRow compares a MapScan / SliceMap row with row rowIdx of r.
func vxCmpMapRow(r *cqlspec.Response, rowIdx int, m map[string]interface{}) error {
	want := 0
	for ci, c := range r.Meta.Columns {
		if c.Type.Kind == cqlspec.Tuple {
			for j, e := range c.Type.Elems {
				want++
				v, ok := m[TupleColumnName(c.Name, j)]
				if !ok {
					return fmt.Errorf("row %d: key %q missing", rowIdx, TupleColumnName(c.Name, j))
				}
				if vxNullAsEmpty(vxCellFor(vxDest{col: ci, elem: j}, r.Rows[rowIdx]), v) {
					continue
				}
				if err := vxCompare(e, vxCellFor(vxDest{col: ci, elem: j}, r.Rows[rowIdx]), reflect.ValueOf(&v).Elem(), fmt.Sprintf("row %d %s[%d]", rowIdx, c.Name, j)); err != nil {
					return err
				}
			}
			continue
		}
		want++
		v, ok := m[c.Name]
		if !ok {
			return fmt.Errorf("row %d: key %q missing", rowIdx, c.Name)
		}
		if vxNullAsEmpty(r.Rows[rowIdx][ci], v) {
			continue
		}
		et, _ := vxEffType(c.Type)
		if err := vxCompare(et, vxEffCell(c.Type, r.Rows[rowIdx][ci], r.Version), reflect.ValueOf(&v).Elem(), fmt.Sprintf("row %d %s", rowIdx, c.Name)); err != nil {
			return err
		}
	}
	if len(m) != want {
		return fmt.Errorf("row %d: map has %d keys, want %d", rowIdx, len(m), want)
	}
	return nil
}

// vxConsumeRows reads all rows through the chosen API and compares every cell. Public API only.
func vxConsumeRows(iter *Iter, r *cqlspec.Response, consumer int, k *vstats.Case) error {
	if got := hex.EncodeToString(iter.PageState()); r.Meta.HasMore && got != r.Meta.StateHex {
		return fmt.Errorf("PageState() = %s, want %s", got, r.Meta.StateHex)
	}
	if r.Warnings != nil && !reflect.DeepEqual(vxStrs(iter.Warnings()), r.Warnings) {
		return fmt.Errorf("Warnings() = %q, want %q", iter.Warnings(), r.Warnings)
	}
	if r.HasPayload && len(iter.GetCustomPayload()) != len(r.Payload) {
		return fmt.Errorf("GetCustomPayload() = %v, want %v", iter.GetCustomPayload(), r.Payload)
	}
	if err := vxColumnsMatch(iter.Columns(), r.Meta, r.Version); err != nil {
		return fmt.Errorf("Columns(): %v", err)
	}
	if iter.NumRows() != len(r.Rows) {
		return fmt.Errorf("NumRows() = %d, want %d", iter.NumRows(), len(r.Rows))
	}
	names := map[string]bool{}
	for _, c := range r.Meta.Columns {
		names[c.Name] = true
	}
	uniqueNames := len(names) == len(r.Meta.Columns)
	if (consumer == 2 || consumer == 3) && !uniqueNames {
		consumer = 0
	}
	cmpDest := func(rowIdx int, dests []vxDest) error { return vxCmpDestRow(r, rowIdx, dests) }
	cmpMap := func(rowIdx int, m map[string]interface{}) error { return vxCmpMapRow(r, rowIdx, m) }
	if vxHasOpaqueColumn(r.Meta) {
		// the driver has no Go type for an unknown custom class: MapScan / SliceMap cannot build a row;
		// Scan and Scanner skip the column when its destination is nil
		consumer %= 2
		if k != nil {
			k.Class("opaque custom column (scanned with a nil destination)")
		}
	}
	switch consumer {
	case 0:
		// the usual loop scans every row into the same variables: do that for results with an even row count
		shared := vxRowHolders(r.Meta)
		for i := range r.Rows {
			dests := shared
			if len(r.Rows)%2 == 1 {
				dests = vxRowHolders(r.Meta)
			}
			dests = vxSkipSome(dests, i, k)
			args := vxDestArgs(dests)
			if !iter.Scan(args...) {
				return fmt.Errorf("Scan returned false at row %d of %d: %v", i, len(r.Rows), iter.Close())
			}
			if err := cmpDest(i, dests); err != nil {
				return err
			}
		}
		if iter.Scan(make([]interface{}, len(vxRowHolders(r.Meta)))...) {
			return fmt.Errorf("Scan returned a row after the last one")
		}
	case 1:
		sc := iter.Scanner()
		sharedSc := vxRowHolders(r.Meta)
		for i := range r.Rows {
			if !sc.Next() {
				return fmt.Errorf("Scanner.Next false at row %d of %d: %v", i, len(r.Rows), sc.Err())
			}
			dests := sharedSc
			if len(r.Rows)%2 == 1 {
				dests = vxRowHolders(r.Meta)
			}
			dests = vxSkipSome(dests, i, k)
			args := vxDestArgs(dests)
			if i == 1 && len(r.Rows) >= 3 && len(args) > 0 {
				// "the row is invalidated until the next call to Next": a Scan that fails (one destination too few)
				// costs this row only, the rows behind it are still delivered
				// (either too few destinations, or a first destination no CQL value fits into)
				var serr error
				if len(r.Rows)%2 == 0 {
					serr = sc.Scan(args[:len(args)-1]...)
					if serr == nil {
						return fmt.Errorf("Scanner.Scan row %d with %d destinations for %d columns returned no error", i, len(args)-1, len(args))
					}
				} else {
					bad := append([]interface{}{}, args...)
					for j := range bad {
						if bad[j] != nil {
							bad[j] = new(chan int)
							break
						}
					}
					serr = sc.Scan(bad...)
				}
				if k != nil && serr != nil {
					k.Class("a failed Scanner.Scan in the middle of the rows")
				}
				continue
			}
			if err := sc.Scan(args...); err != nil {
				return fmt.Errorf("Scanner.Scan row %d: %v", i, err)
			}
			if err := cmpDest(i, dests); err != nil {
				return fmt.Errorf("Scanner: %v", err)
			}
		}
		if sc.Next() {
			return fmt.Errorf("Scanner.Next true after the last row")
		}
		if err := sc.Err(); err != nil {
			return fmt.Errorf("Scanner.Err: %v", err)
		}
		return nil
	case 2:
		for i := range r.Rows {
			m := map[string]interface{}{}
			if !iter.MapScan(m) {
				return fmt.Errorf("MapScan false at row %d of %d: %v", i, len(r.Rows), iter.Close())
			}
			if err := cmpMap(i, m); err != nil {
				return fmt.Errorf("MapScan: %v", err)
			}
		}
		if iter.MapScan(map[string]interface{}{}) {
			return fmt.Errorf("MapScan returned a row after the last one")
		}
	case 4:
		// "You can also pass pointers in the map before each call": every second scan target gets the
		// caller's own destination, keyed by column name (tuple elements by TupleColumnName)
		for i := range r.Rows {
			dests := vxRowHolders(r.Meta)
			m := map[string]interface{}{}
			mine := map[int]bool{}
			for j, d := range dests {
				if (i+j)%2 == 0 && d.ptr.IsValid() {
					name := r.Meta.Columns[d.col].Name
					if d.elem >= 0 {
						name = TupleColumnName(name, d.elem)
					}
					m[name] = d.ptr.Interface()
					mine[j] = true
				}
			}
			if !iter.MapScan(m) {
				return fmt.Errorf("MapScan (pre-filled) false at row %d of %d: %v", i, len(r.Rows), iter.Close())
			}
			for j, d := range dests {
				if !mine[j] {
					continue
				}
				cell := vxCellFor(d, r.Rows[i])
				if d.elem < 0 {
					cell = vxEffCell(r.Meta.Columns[d.col].Type, cell, r.Version)
				}
				if err := vxCompare(d.ty, cell, d.ptr.Elem(), fmt.Sprintf("row %d col %d (caller's destination)", i, d.col)); err != nil {
					return fmt.Errorf("MapScan (pre-filled): %v", err)
				}
			}
			if err := cmpMap(i, m); err != nil {
				return fmt.Errorf("MapScan (pre-filled): %v", err)
			}
		}
		if iter.MapScan(map[string]interface{}{}) {
			return fmt.Errorf("MapScan returned a row after the last one")
		}
	case 3:
		rows, err := iter.SliceMap()
		if err != nil {
			return fmt.Errorf("SliceMap: %v", err)
		}
		if len(rows) != len(r.Rows) {
			return fmt.Errorf("SliceMap returned %d rows, want %d", len(rows), len(r.Rows))
		}
		for i, m := range rows {
			if err := cmpMap(i, m); err != nil {
				return fmt.Errorf("SliceMap: %v", err)
			}
		}
	}
	if err := iter.Close(); err != nil {
		return fmt.Errorf("Close: %v", err)
	}
	return nil
}
