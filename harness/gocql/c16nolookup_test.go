//go:build verif && go1.21

package gocql

// C16 with DisableInitialHostLookup: the session knows its contact points only (no system tables are read, so the
// hosts have neither peer nor broadcast address). One of them goes away; what the driver concludes from the failed
// connects must concern that host and no other.

import (
	"sync"
	"strings"
	"net"
	"errors"
	"context"
	"fmt"
	"testing"
	"time"

	"pgregory.net/rapid"
	"verif.local/vnode"
	"verif.local/vstats"
	"verif.local/vx"
)

type vxC16NoLookupCase struct {
	Proto    int `json:"proto"`
	N        int `json:"n"`
	NumConns int `json:"num_conns"`
	Gone     int `json:"gone"`   // index of the node that goes away
	Policy   int `json:"policy"` // 0 round robin, 1 token aware over round robin
}

func vxRunC16NoLookup(c *vxC16NoLookupCase, k *vstats.Case) error {
	if c.Proto < 1 || c.Proto > 5 || c.N < 2 || c.N > 4 || c.NumConns < 1 || c.NumConns > 2 || c.Gone < 0 || c.Gone >= c.N {
		return nil
	}
	specs := vxSpecs(c.N, 1)
	cl := vnode.NewCluster(specs)
	var ips []string
	for _, sp := range specs {
		ips = append(ips, sp.IP)
	}
	s, err := vxClusterConfig(cl, c.Proto, func(cfg *ClusterConfig) {
		cfg.Hosts = ips
		cfg.DisableInitialHostLookup = true
		cfg.NumConns = c.NumConns
		cfg.ReconnectInterval = 0
		if c.Policy == 1 {
			cfg.PoolConfig.HostSelectionPolicy = TokenAwareHostPolicy(RoundRobinHostPolicy())
		} else {
			cfg.PoolConfig.HostSelectionPolicy = RoundRobinHostPolicy()
		}
	}).CreateSession()
	if err != nil {
		return fmt.Errorf("harness: CreateSession: %v", err)
	}
	defer s.Close()
	gi := c.Gone
	if ch := s.control.getConn(); ch != nil && ch.host.ConnectAddress().String() == cl.Nodes()[gi].Spec.IP {
		// the loss of the control connection's node starts a ring refresh, which replaces the contact points
		// (random host ids) by the nodes the system tables describe, at the same addresses: the known finding
		// C16-addr-reuse-loses-new-owner, judged by TestVxC16History
		gi = (gi + 1) % c.N
	}
	gone := cl.Nodes()[gi]
	gone.SetRefuse("refuse")
	for _, sc := range gone.Conns() {
		sc.Close()
	}
	// queries keep coming: picks of the lost host start fills, which fail
	var lastErrs []error
	for i := 0; i < 80; i++ {
		err := s.Query("LIST x").Exec()
		if i >= 70 {
			lastErrs = append(lastErrs, err)
		}
		time.Sleep(8 * time.Millisecond)
	}
	// the control connection files its node a second time, under the host id the system tables name (the contact
	// points got random ids): judge per address
	served := map[string]bool{}
	downs := map[string]bool{}
	for _, h := range s.ring.allHosts() {
		a := h.ConnectAddress().String()
		if p, ok := s.pool.getPool(h); ok {
			if p.Size() > 0 && h.IsUp() {
				served[a] = true
			}
			if !h.IsUp() {
				downs[a] = true
			}
		}
	}
	for _, nd := range cl.Nodes() {
		if nd == gone {
			continue
		}
		if !served[nd.Spec.IP] {
			return fmt.Errorf("node %s went away (connections closed, new ones refused); the reachable node %s, which nobody reported down, has no host that is up with a pool of connections any more (a host of that address marked down: %v)", gone.Spec.IP, nd.Spec.IP, downs[nd.Spec.IP])
		}
	}
	for i, e := range lastErrs {
		if e != nil {
			return fmt.Errorf("node %s went away, %d reachable node(s) left; query %d of the last 10 failed: %v", gone.Spec.IP, c.N-1, i, e)
		}
	}
	k.NonTrivial()
	k.Class(fmt.Sprintf("no lookup: n=%d policy=%d", c.N, c.Policy))
	return nil
}

func TestVxC16NoLookup(t *testing.T) {
	vx.Check(t, vx.Prop{
		ID: "C16", Part: "TestVxC16NoLookup",
		Rule: "DisableInitialHostLookup, 2..4 contact points (hosts without peer or broadcast address), 1..2 connections, round-robin or token-aware policy, protocol 1..5; one node closes its connections and refuses new ones while 80 queries are issued; oracle: every other host stays up with a non-empty pool, and the last ten queries succeed; every case is non-trivial; distinct by the case",
		Draw: func(t *rapid.T) interface{} {
			c := &vxC16NoLookupCase{Proto: rapid.IntRange(1, 5).Draw(t, "proto"), N: rapid.IntRange(2, 4).Draw(t, "n"), NumConns: rapid.IntRange(1, 2).Draw(t, "numconns"), Policy: rapid.IntRange(0, 1).Draw(t, "policy")}
			c.Gone = rapid.IntRange(0, c.N-1).Draw(t, "gone")
			return c
		},
		New: func() interface{} { return &vxC16NoLookupCase{} },
		Run: func(ci interface{}, k *vstats.Case) error { return vxRunC16NoLookup(ci.(*vxC16NoLookupCase), k) },
	})
}

// ---------------------------------------------------------------------------------------------
// A pool that can be filled only in part (the node accepts one connection and refuses the others): the node was
// not reported down by anybody, it answers on the connection it has - it stays up and is offered.

type vxC16PartialCase struct {
	Proto    int `json:"proto"`
	N        int `json:"n"`
	NumConns int `json:"num_conns"` // 2..4
	Allow    int `json:"allow"`     // connections the target accepts (1 .. NumConns-1)
}

type vxLimitDialer struct {
	cl     *vnode.Cluster
	target string
	allow  int
	mu     sync.Mutex
	n      int
}

func (d *vxLimitDialer) DialContext(ctx context.Context, network, addr string) (net.Conn, error) {
	if strings.HasPrefix(addr, d.target+":") {
		d.mu.Lock()
		d.n++
		over := d.n > d.allow
		d.mu.Unlock()
		if over {
			return nil, &net.OpError{Op: "dial", Net: network, Err: errors.New("connection refused")}
		}
	}
	return d.cl.DialContext(ctx, network, addr)
}

func vxRunC16Partial(c *vxC16PartialCase, k *vstats.Case) error {
	if c.Proto < 1 || c.Proto > 5 || c.N < 2 || c.N > 3 || c.NumConns < 2 || c.NumConns > 4 || c.Allow < 1 || c.Allow >= c.NumConns {
		return nil
	}
	specs := vxSpecs(c.N, 1)
	cl := vnode.NewCluster(specs)
	target := specs[c.N-1].IP // the contact point (and the control connection) is node 0
	d := &vxLimitDialer{cl: cl, target: target, allow: c.Allow}
	s, err := vxClusterConfig(cl, c.Proto, func(cfg *ClusterConfig) {
		cfg.NumConns = c.NumConns
		cfg.Dialer = d
		cfg.ReconnectInterval = 0
		cfg.PoolConfig.HostSelectionPolicy = RoundRobinHostPolicy()
	}).CreateSession()
	if err != nil {
		return fmt.Errorf("harness: CreateSession: %v", err)
	}
	defer s.Close()
	var host *HostInfo
	for _, h := range s.ring.allHosts() {
		if h.ConnectAddress().String() == target {
			host = h
		}
	}
	if host == nil {
		return fmt.Errorf("harness: target not in the ring")
	}
	// let the fills come to rest (a failed fill waits 31..130 ms before it ends)
	time.Sleep(400 * time.Millisecond)
	for i := 0; i < 4*c.N; i++ {
		if err := s.Query("LIST x").Exec(); err != nil {
			return fmt.Errorf("node %s accepts %d of %d connections; query %d failed: %v", target, c.Allow, c.NumConns, i, err)
		}
	}
	time.Sleep(200 * time.Millisecond)
	p, ok := s.pool.getPool(host)
	size := -1
	if ok {
		size = p.Size()
	}
	offered := false
	it := s.policy.Pick(nil)
	for i := 0; i < 2*c.N; i++ {
		if sh := it(); sh != nil && sh.Info() == host {
			offered = true
		}
	}
	if !host.IsUp() || size < 1 || !offered {
		return fmt.Errorf("node %s accepted %d of the %d connections of its pool and refused the rest; nobody reported it down, yet the driver has it up=%v, pool size %d, offered by the policy=%v", target, c.Allow, c.NumConns, host.IsUp(), size, offered)
	}
	k.NonTrivial()
	k.Class(fmt.Sprintf("partial fill: %d of %d", c.Allow, c.NumConns))
	return nil
}

func TestVxC16PartialFill(t *testing.T) {
	vx.Check(t, vx.Prop{
		ID: "C16", Part: "TestVxC16PartialFill",
		Rule: "protocol 1..5, 2..3 nodes, 2..4 connections per host; one node (not the contact point) accepts 1..NumConns-1 connections and refuses the rest; queries are issued; oracle: the node stays up, keeps a pool of at least one connection and is offered by the policy, queries succeed; every case is non-trivial; distinct by the case",
		Draw: func(t *rapid.T) interface{} {
			c := &vxC16PartialCase{Proto: rapid.IntRange(1, 5).Draw(t, "proto"), N: rapid.IntRange(2, 3).Draw(t, "n"), NumConns: rapid.IntRange(2, 4).Draw(t, "numconns")}
			c.Allow = rapid.IntRange(1, c.NumConns-1).Draw(t, "allow")
			return c
		},
		New: func() interface{} { return &vxC16PartialCase{} },
		Run: func(ci interface{}, k *vstats.Case) error { return vxRunC16Partial(ci.(*vxC16PartialCase), k) },
	})
}

// ---------------------------------------------------------------------------------------------
// A Dialer / HostDialer whose connections are not TCP connections (a tunnel, a unix socket, net.Pipe): the
// address of the peer is then no *net.TCPAddr. The session must come up and follow the cluster all the same.

type vxNonTCPDialer struct{ cl *vnode.Cluster }

type vxNonTCPConn struct{ net.Conn }

type vxTunnelAddr string

func (a vxTunnelAddr) Network() string { return "tunnel" }
func (a vxTunnelAddr) String() string  { return string(a) }

func (c vxNonTCPConn) RemoteAddr() net.Addr { return vxTunnelAddr("tunnel:" + c.Conn.RemoteAddr().String()) }
func (c vxNonTCPConn) LocalAddr() net.Addr  { return vxTunnelAddr("tunnel:local") }

func (d *vxNonTCPDialer) DialContext(ctx context.Context, network, addr string) (net.Conn, error) {
	c, err := d.cl.DialContext(ctx, network, addr)
	if err != nil {
		return nil, err
	}
	return vxNonTCPConn{c}, nil
}

type vxC16TunnelCase struct {
	Proto int `json:"proto"`
	N     int `json:"n"`
}

func vxRunC16Tunnel(c *vxC16TunnelCase, k *vstats.Case) error {
	if c.Proto < 1 || c.Proto > 5 || c.N < 1 || c.N > 3 {
		return nil
	}
	specs := vxSpecs(c.N+1, 1)
	cl := vnode.NewCluster(specs[:c.N])
	s, err := vxClusterConfig(cl, c.Proto, func(cfg *ClusterConfig) {
		cfg.Dialer = &vxNonTCPDialer{cl: cl}
		cfg.PoolConfig.HostSelectionPolicy = RoundRobinHostPolicy()
	}).CreateSession()
	if err != nil {
		return fmt.Errorf("CreateSession over connections whose peer address is no *net.TCPAddr: %v", err)
	}
	defer s.Close()
	if got := len(s.ring.allHosts()); got != c.N {
		return fmt.Errorf("the ring has %d hosts, the cluster reports %d", got, c.N)
	}
	for i := 0; i < 2*c.N; i++ {
		if err := s.Query("LIST x").Exec(); err != nil {
			return fmt.Errorf("query %d: %v", i, err)
		}
	}
	// and the picture follows the cluster: a node joins
	cl.AddNode(specs[c.N])
	cl.SetTruth(specs)
	if err := s.refreshRing(); err != nil {
		return fmt.Errorf("refreshRing: %v", err)
	}
	if got := len(s.ring.allHosts()); got != c.N+1 {
		return fmt.Errorf("after a node joined the ring has %d hosts, the cluster reports %d", got, c.N+1)
	}
	k.NonTrivial()
	k.Class(fmt.Sprintf("non-TCP dialer: v%d n=%d", c.Proto, c.N))
	return nil
}

func TestVxC16NonTCPDialer(t *testing.T) {
	vx.Check(t, vx.Prop{
		ID: "C16", Part: "TestVxC16NonTCPDialer",
		Rule: "protocol 1..5, 1..3 nodes, a Dialer whose connections report a peer address that is no *net.TCPAddr; oracle: CreateSession succeeds without a panic, the ring holds the nodes the cluster reports, queries succeed, a node that joins is in the ring after a refresh; every case is non-trivial; distinct by the case",
		Draw: func(t *rapid.T) interface{} {
			return &vxC16TunnelCase{Proto: rapid.IntRange(1, 5).Draw(t, "proto"), N: rapid.IntRange(1, 3).Draw(t, "n")}
		},
		New: func() interface{} { return &vxC16TunnelCase{} },
		Run: func(ci interface{}, k *vstats.Case) error { return vxRunC16Tunnel(ci.(*vxC16TunnelCase), k) },
	})
}
