//go:build verif && go1.21

// C05 (f): the content of the schema tables (system_schema.* / system.schema_*) and SCHEMA_CHANGE
// events, through a real Session. The scripted node answers every schema query of the driver with
// rows generated from a schema description that is consistent first and then made odd in 0..3 places.
package gocql

import (
	"bytes"
	"encoding/json"
	"fmt"
	"math"
	"math/bits"
	"runtime"
	"runtime/debug"
	"sort"
	"strconv"
	"strings"
	"sync"
	"sync/atomic"
	"testing"
	"time"

	"pgregory.net/rapid"
	"verif.local/cqlspec"
	"verif.local/vnode"
	"verif.local/vstats"
	"verif.local/vx"
)

// ---- the case ------------------------------------------------------------------------------------

// vxSchCell is one cell of a schema table row in a readable form; the field that is used depends on
// the column's CQL type (text/blob/uuid: S, int: N, boolean: B, double: X, list/set<text>: L,
// map<text,text>: M as ordered pairs).
type vxSchCell struct {
	Null bool        `json:"null,omitempty"`
	S    string      `json:"s,omitempty"`
	N    int64       `json:"n,omitempty"`
	B    bool        `json:"b,omitempty"`
	X    float64     `json:"x,omitempty"`
	L    []string    `json:"l,omitempty"`
	M    [][2]string `json:"m,omitempty"`
}

// vxSchRow maps column name -> cell; a column the driver selects and the row does not have is null.
type vxSchRow map[string]vxSchCell

type vxSchRetype struct {
	Table  string `json:"table"` // FROM table
	Column string `json:"column"`
	Type   string `json:"type"` // the CQL type the node declares (and encodes) instead of the canonical one
}

type vxSchExpect struct {
	Table string   `json:"table"`
	PK    []string `json:"pk"`
	CK    []string `json:"ck"`
	CKOK  bool     `json:"ck_ok"` // clustering columns are checked (not for every legacy protocol-1 layout)
	Cols  []string `json:"cols"`
}

type vxSchEvent struct {
	Change   string   `json:"change"`
	Target   string   `json:"target"`
	Keyspace string   `json:"ks"`
	Object   string   `json:"object,omitempty"`
	Args     []string `json:"args,omitempty"`
}

type vxC05SchCase struct {
	Proto    int                   `json:"proto"`
	Version  string                `json:"version"` // release_version of the nodes
	UseKS    bool                  `json:"use_ks"`  // ClusterConfig.Keyspace = ks1
	Rows     map[string][]vxSchRow `json:"rows"`    // by FROM table (system_schema.columns, system.schema_columns, ...)
	Retype   []vxSchRetype         `json:"retype,omitempty"`
	Missing  []string              `json:"missing,omitempty"` // FROM tables the node does not have (ERROR Invalid, as a node of another version would)
	Oddities []string              `json:"oddities,omitempty"`
	Expect   []vxSchExpect         `json:"expect,omitempty"` // what a consistent description must compile to
	Types    []string              `json:"types,omitempty"`
	Funcs    []string              `json:"funcs,omitempty"`
	Aggs     []string              `json:"aggs,omitempty"`
	Views    []string              `json:"views,omitempty"`
	StmtTbl  string                `json:"stmt_table"` // table the prepared statement is about
	Binds    []string              `json:"binds"`      // its bound columns (all int)
	Events   []vxSchEvent          `json:"events"`
	Wait     bool                  `json:"wait"` // wait for the 1 s event debouncer
}

// canonical CQL types of the columns the driver selects (Cassandra 2.x / 3.x system tables)
var vxSchColTypes = map[string]map[string]string{
	"system_schema.keyspaces": {"keyspace_name": "text", "durable_writes": "boolean", "replication": "map<text,text>"},
	"system.schema_keyspaces": {"keyspace_name": "text", "durable_writes": "boolean", "strategy_class": "text", "strategy_options": "text"},
	"system_schema.tables":    {"table_name": "text"},
	"system_schema.views": {"view_name": "text", "base_table_id": "uuid", "base_table_name": "text", "bloom_filter_fp_chance": "double",
		"caching": "map<text,text>", "comment": "text", "compaction": "map<text,text>", "compression": "map<text,text>", "crc_check_chance": "double",
		"dclocal_read_repair_chance": "double", "default_time_to_live": "int", "extensions": "map<text,blob>", "gc_grace_seconds": "int", "id": "uuid",
		"include_all_columns": "boolean", "max_index_interval": "int", "memtable_flush_period_in_ms": "int", "min_index_interval": "int",
		"read_repair_chance": "double", "speculative_retry": "text"},
	"system.schema_columnfamilies": {"columnfamily_name": "text", "key_validator": "text", "comparator": "text", "default_validator": "text",
		"key_aliases": "text", "column_aliases": "text", "value_alias": "text"},
	"system.schema_columns": {"columnfamily_name": "text", "column_name": "text", "component_index": "int", "validator": "text", "index_name": "text",
		"index_type": "text", "index_options": "text", "type": "text"},
	"system_schema.columns":    {"table_name": "text", "column_name": "text", "clustering_order": "text", "type": "text", "kind": "text", "position": "int"},
	"system_schema.types":      {"type_name": "text", "field_names": "list<text>", "field_types": "list<text>"},
	"system.schema_usertypes":  {"type_name": "text", "field_names": "list<text>", "field_types": "list<text>"},
	"system_schema.functions":  {"function_name": "text", "argument_types": "list<text>", "argument_names": "list<text>", "body": "text", "called_on_null_input": "boolean", "language": "text", "return_type": "text"},
	"system.schema_functions":  {"function_name": "text", "argument_types": "list<text>", "argument_names": "list<text>", "body": "text", "called_on_null_input": "boolean", "language": "text", "return_type": "text"},
	"system_schema.aggregates": {"aggregate_name": "text", "argument_types": "list<text>", "final_func": "text", "initcond": "text", "return_type": "text", "state_func": "text", "state_type": "text"},
	"system.schema_aggregates": {"aggregate_name": "text", "argument_types": "list<text>", "final_func": "text", "initcond": "blob", "return_type": "text", "state_func": "text", "state_type": "text"},
}

var vxSchScalarKinds = map[string]cqlspec.Kind{"text": cqlspec.Varchar, "varchar": cqlspec.Varchar, "ascii": cqlspec.Ascii, "blob": cqlspec.Blob, "int": cqlspec.Int,
	"bigint": cqlspec.Bigint, "boolean": cqlspec.Boolean, "double": cqlspec.Double, "uuid": cqlspec.UUID}

// vxSchParseCQL parses the small type language of the tables above (scalars, list<>, set<>, map<,>).
func vxSchParseCQL(s string) *cqlspec.Type {
	s = strings.TrimSpace(s)
	for _, p := range []struct {
		pfx string
		k   cqlspec.Kind
	}{{"list<", cqlspec.List}, {"set<", cqlspec.Set}, {"map<", cqlspec.Map}} {
		if strings.HasPrefix(s, p.pfx) && strings.HasSuffix(s, ">") {
			inner := s[len(p.pfx) : len(s)-1]
			if p.k != cqlspec.Map {
				return &cqlspec.Type{Kind: p.k, Elems: []*cqlspec.Type{vxSchParseCQL(inner)}}
			}
			depth, cut := 0, -1
			for i, ch := range inner {
				if ch == '<' {
					depth++
				} else if ch == '>' {
					depth--
				} else if ch == ',' && depth == 0 {
					cut = i
					break
				}
			}
			if cut < 0 {
				return cqlspec.Scalar(cqlspec.Varchar)
			}
			return &cqlspec.Type{Kind: cqlspec.Map, Elems: []*cqlspec.Type{vxSchParseCQL(inner[:cut]), vxSchParseCQL(inner[cut+1:])}}
		}
	}
	if k, ok := vxSchScalarKinds[s]; ok {
		return cqlspec.Scalar(k)
	}
	return cqlspec.Scalar(cqlspec.Varchar)
}

func vxSchTextLike(k cqlspec.Kind) bool {
	return k == cqlspec.Varchar || k == cqlspec.Ascii || k == cqlspec.Blob || k == cqlspec.Text
}

// vxSchValue renders a cell whose canonical type is canon as a value of type eff (the same unless the
// case re-types the column): a deterministic conversion through the cell's textual form.
func vxSchValue(c vxSchCell, canon, eff *cqlspec.Type) cqlspec.Value {
	if c.Null {
		return cqlspec.NullValue()
	}
	var u string // textual form of the natural value
	switch {
	case vxSchTextLike(canon.Kind), canon.Kind == cqlspec.UUID:
		u = c.S
	case canon.Kind == cqlspec.Int, canon.Kind == cqlspec.Bigint:
		u = strconv.FormatInt(c.N, 10)
	case canon.Kind == cqlspec.Boolean:
		u = strconv.FormatBool(c.B)
	case canon.Kind == cqlspec.Double:
		u = strconv.FormatFloat(c.X, 'g', -1, 64)
	case canon.Kind == cqlspec.List, canon.Kind == cqlspec.Set:
		u = strings.Join(c.L, ",")
	case canon.Kind == cqlspec.Map:
		for i, kv := range c.M {
			if i > 0 {
				u += ","
			}
			u += kv[0] + ":" + kv[1]
		}
	}
	txt := func(s string) cqlspec.Value { return cqlspec.BytesValue([]byte(s)) }
	switch {
	case vxSchTextLike(eff.Kind):
		return txt(u)
	case eff.Kind == cqlspec.Int, eff.Kind == cqlspec.Bigint:
		if canon.Kind == cqlspec.Int || canon.Kind == cqlspec.Bigint {
			return cqlspec.I64Value(c.N)
		}
		if n, err := strconv.ParseInt(u, 10, 64); err == nil {
			return cqlspec.I64Value(n)
		}
		return cqlspec.I64Value(int64(len(u)))
	case eff.Kind == cqlspec.Boolean:
		if canon.Kind == cqlspec.Boolean {
			return cqlspec.Value{Bool: c.B}
		}
		return cqlspec.Value{Bool: u != ""}
	case eff.Kind == cqlspec.Double:
		if canon.Kind == cqlspec.Double {
			return cqlspec.Value{Bits: math.Float64bits(c.X)}
		}
		return cqlspec.Value{Bits: math.Float64bits(float64(len(u)))}
	case eff.Kind == cqlspec.UUID:
		b := make([]byte, 16)
		if canon.Kind == cqlspec.UUID {
			copy(b, mustUnhex(u))
		} else {
			copy(b, u)
		}
		return cqlspec.BytesValue(b)
	case eff.Kind == cqlspec.List, eff.Kind == cqlspec.Set:
		l := c.L
		if canon.Kind != cqlspec.List && canon.Kind != cqlspec.Set {
			l = []string{u}
		}
		v := cqlspec.Value{Elems: []cqlspec.Value{}}
		for _, e := range l {
			v.Elems = append(v.Elems, vxSchValue(vxSchCell{S: e}, cqlspec.Scalar(cqlspec.Varchar), eff.Elems[0]))
		}
		return v
	case eff.Kind == cqlspec.Map:
		m := c.M
		if canon.Kind != cqlspec.Map {
			m = [][2]string{{u, u}}
		}
		v := cqlspec.Value{Elems: []cqlspec.Value{}}
		for _, kv := range m {
			v.Elems = append(v.Elems, vxSchValue(vxSchCell{S: kv[0]}, cqlspec.Scalar(cqlspec.Varchar), eff.Elems[0]),
				vxSchValue(vxSchCell{S: kv[1]}, cqlspec.Scalar(cqlspec.Varchar), eff.Elems[1]))
		}
		return v
	}
	return cqlspec.NullValue()
}

// vxSchParseSelect extracts the selected columns and the FROM table of one of the driver's schema queries.
func vxSchParseSelect(stmt string) (cols []string, from string, ok bool) {
	lq := strings.ToLower(strings.Join(strings.Fields(stmt), " "))
	if !strings.HasPrefix(lq, "select ") {
		return nil, "", false
	}
	i := strings.Index(lq, " from ")
	if i < 0 {
		return nil, "", false
	}
	rest := strings.Fields(lq[i+6:])
	if len(rest) == 0 || !(strings.HasPrefix(rest[0], "system_schema.") || strings.HasPrefix(rest[0], "system.schema_")) {
		return nil, "", false
	}
	for _, c := range strings.Split(lq[7:i], ",") {
		cols = append(cols, strings.TrimSpace(c))
	}
	return cols, rest[0], true
}

func (c *vxC05SchCase) effType(from, col string) (canon, eff *cqlspec.Type) {
	cs := "text"
	if m, ok := vxSchColTypes[from]; ok {
		if s, ok := m[col]; ok {
			cs = s
		}
	}
	canon = vxSchParseCQL(cs)
	eff = canon
	for _, r := range c.Retype {
		if r.Table == from && r.Column == col {
			eff = vxSchParseCQL(r.Type)
		}
	}
	return
}

// rowsFor builds the metadata and the rows of the answer to SELECT cols FROM from.
func (c *vxC05SchCase) rowsFor(from string, cols []string) ([]cqlspec.Column, [][]cqlspec.Value) {
	ks, tbl := from, ""
	if i := strings.Index(from, "."); i >= 0 {
		ks, tbl = from[:i], from[i+1:]
	}
	meta := make([]cqlspec.Column, len(cols))
	canons := make([]*cqlspec.Type, len(cols))
	for i, col := range cols {
		canon, eff := c.effType(from, col)
		canons[i] = canon
		meta[i] = cqlspec.Column{Keyspace: ks, Table: tbl, Name: col, Type: eff}
	}
	var rows [][]cqlspec.Value
	for _, r := range c.Rows[from] {
		row := make([]cqlspec.Value, len(cols))
		for i, col := range cols {
			cell, ok := r[col]
			if !ok {
				cell = vxSchCell{Null: true}
			}
			row[i] = vxSchValue(cell, canons[i], meta[i].Type)
		}
		rows = append(rows, row)
	}
	return meta, rows
}

// ---- generation ----------------------------------------------------------------------------------

const vxSchP = "org.apache.cassandra.db.marshal."

var vxSchScalars = [][2]string{{"int", "Int32Type"}, {"text", "UTF8Type"}, {"bigint", "LongType"}, {"uuid", "UUIDType"}, {"timestamp", "TimestampType"},
	{"blob", "BytesType"}, {"boolean", "BooleanType"}, {"double", "DoubleType"}, {"timeuuid", "TimeUUIDType"}, {"varint", "IntegerType"},
	{"decimal", "DecimalType"}, {"inet", "InetAddressType"}, {"ascii", "AsciiType"}, {"float", "FloatType"}}

// vxSchDrawType draws a valid type in both notations: CQL (system_schema.*) and Java marshal class (system.schema_*).
func vxSchDrawType(t *rapid.T, depth int) (cql, java string) {
	if depth <= 0 || rapid.IntRange(0, 1).Draw(t, "scalar") == 0 {
		p := rapid.SampledFrom(vxSchScalars).Draw(t, "sc")
		return p[0], vxSchP + p[1]
	}
	switch rapid.IntRange(0, 5).Draw(t, "coll") {
	case 5:
		return "frozen<ut0>", vxSchP + "UserType(ks1,757430,6630:" + vxSchP + "Int32Type)"
	case 0:
		c, j := vxSchDrawType(t, depth-1)
		return "list<" + c + ">", vxSchP + "ListType(" + j + ")"
	case 1:
		c, j := vxSchDrawType(t, depth-1)
		return "set<" + c + ">", vxSchP + "SetType(" + j + ")"
	case 2:
		c1, j1 := vxSchDrawType(t, 0)
		c2, j2 := vxSchDrawType(t, depth-1)
		return "map<" + c1 + ", " + c2 + ">", vxSchP + "MapType(" + j1 + "," + j2 + ")"
	case 3:
		c, j := vxSchDrawType(t, depth-1)
		return "frozen<list<" + c + ">>", vxSchP + "FrozenType(" + vxSchP + "ListType(" + j + "))"
	default:
		c1, j1 := vxSchDrawType(t, depth-1)
		c2, j2 := vxSchDrawType(t, 0)
		return "frozen<tuple<" + c1 + ", " + c2 + ">>", vxSchP + "FrozenType(" + vxSchP + "TupleType(" + j1 + "," + j2 + "))"
	}
}

type vxSchColDesc struct {
	name, cql, java string
	desc            bool
}

type vxSchTblDesc struct {
	name                string
	compact             bool
	pk, ck, reg, static []vxSchColDesc
}

func vxSchJSONList(names []string) string {
	if names == nil {
		names = []string{}
	}
	b, _ := json.Marshal(names)
	return string(b)
}

func vxSchIsCollection(java string) bool {
	return strings.HasPrefix(java, vxSchP+"ListType(") || strings.HasPrefix(java, vxSchP+"SetType(") || strings.HasPrefix(java, vxSchP+"MapType(")
}

// the tables of one flavour
type vxSchNames struct {
	legacy                                    bool
	ks, tbl, col, typ, fn, agg, view          string
	tblName, colTbl, colPos, colType, colKind string
}

func vxSchNamesFor(legacy bool) vxSchNames {
	if legacy {
		return vxSchNames{legacy: true, ks: "system.schema_keyspaces", tbl: "system.schema_columnfamilies", col: "system.schema_columns", typ: "system.schema_usertypes",
			fn: "system.schema_functions", agg: "system.schema_aggregates", tblName: "columnfamily_name", colTbl: "columnfamily_name", colPos: "component_index",
			colType: "validator", colKind: "type"}
	}
	return vxSchNames{ks: "system_schema.keyspaces", tbl: "system_schema.tables", col: "system_schema.columns", typ: "system_schema.types", fn: "system_schema.functions",
		agg: "system_schema.aggregates", view: "system_schema.views", tblName: "table_name", colTbl: "table_name", colPos: "position", colType: "type", colKind: "kind"}
}

func vxSchLegacy(version string) bool {
	return strings.HasPrefix(version, "2.") || strings.HasPrefix(version, "1.")
}
func vxSchHasFuncs(proto int, version string) bool {
	return proto >= 2 && !strings.HasPrefix(version, "2.0") && !strings.HasPrefix(version, "2.1") && !strings.HasPrefix(version, "1.")
}

var vxSchVersions = map[int][]string{1: {"2.0.17", "2.1.20", "2.2.9"}, 2: {"2.1.20", "2.2.9"}, 3: {"2.1.20", "2.2.9", "3.11.4", "4.0.3"}, 4: {"2.2.9", "3.11.4", "4.0.3"}}

// vxSchUniform draws an index in [0,n) without rapid's bias towards small values (seven fair bits; shrinks to 0).
func vxSchUniform(t *rapid.T, n int, label string) int {
	if n <= 1 {
		return 0
	}
	v := 0
	for i := 0; i < 7; i++ {
		v <<= 1
		if rapid.Bool().Draw(t, label) {
			v |= 1
		}
	}
	return v % n
}

func vxSchDrawCols(t *rapid.T, prefix string, lo, hi, depth int) []vxSchColDesc {
	n := rapid.IntRange(lo, hi).Draw(t, "n"+prefix)
	var out []vxSchColDesc
	for i := 0; i < n; i++ {
		c, j := vxSchDrawType(t, depth)
		out = append(out, vxSchColDesc{name: prefix + itoa(i), cql: c, java: j})
	}
	return out
}

func vxSchDraw(t *rapid.T) *vxC05SchCase {
	c := &vxC05SchCase{Proto: []int{1, 2, 3, 3, 4, 4}[vxSchUniform(t, 6, "proto")], Rows: map[string][]vxSchRow{}}
	vs := vxSchVersions[c.Proto]
	c.Version = vs[vxSchUniform(t, len(vs), "version")]
	if c.Proto >= 3 && rapid.Bool().Draw(t, "modern") {
		c.Version = []string{"3.11.4", "4.0.3"}[vxSchUniform(t, 2, "modernversion")]
	}
	c.UseKS = rapid.Bool().Draw(t, "useks")
	legacy := vxSchLegacy(c.Version)
	nm := vxSchNamesFor(legacy)
	hasFuncs := vxSchHasFuncs(c.Proto, c.Version)
	add := func(tbl string, r vxSchRow) { c.Rows[tbl] = append(c.Rows[tbl], r) }

	// keyspace
	class := rapid.SampledFrom([]string{"org.apache.cassandra.locator.SimpleStrategy", "org.apache.cassandra.locator.NetworkTopologyStrategy", "org.apache.cassandra.locator.LocalStrategy"}).Draw(t, "class")
	var opts [][2]string
	switch {
	case strings.HasSuffix(class, "SimpleStrategy"):
		opts = [][2]string{{"replication_factor", itoa(rapid.IntRange(1, 3).Draw(t, "rf"))}}
	case strings.HasSuffix(class, "NetworkTopologyStrategy"):
		opts = [][2]string{{"dc1", itoa(rapid.IntRange(1, 3).Draw(t, "rf1"))}}
		if rapid.Bool().Draw(t, "dc2") {
			opts = append(opts, [2]string{"dc2", itoa(rapid.IntRange(1, 3).Draw(t, "rf2"))})
		}
	}
	durable := rapid.Bool().Draw(t, "durable")
	if legacy {
		m := map[string]string{}
		for _, kv := range opts {
			m[kv[0]] = kv[1]
		}
		b, _ := json.Marshal(m)
		add(nm.ks, vxSchRow{"durable_writes": {B: durable}, "strategy_class": {S: class}, "strategy_options": {S: string(b)}})
	} else {
		add(nm.ks, vxSchRow{"durable_writes": {B: durable}, "replication": {M: append([][2]string{{"class", class}}, opts...)}})
	}

	// tables
	nt := rapid.SampledFrom([]int{1, 0, 1, 2, 2, 3}).Draw(t, "ntables")
	var tables []vxSchTblDesc
	for i := 0; i < nt; i++ {
		td := vxSchTblDesc{name: "t" + itoa(i)}
		td.pk = vxSchDrawCols(t, "pk", 1, 3, 0)
		td.ck = vxSchDrawCols(t, "ck", 0, 3, 0)
		for j := range td.ck {
			td.ck[j].desc = rapid.IntRange(0, 2).Draw(t, "desc") == 0
		}
		td.compact = legacy && rapid.IntRange(0, 3).Draw(t, "compact") == 0
		if td.compact {
			if len(td.ck) == 0 {
				td.ck = vxSchDrawCols(t, "ck", 1, 2, 0)
			}
			td.reg = vxSchDrawCols(t, "v", 1, 1, 0)
		} else {
			td.reg = vxSchDrawCols(t, "r", 0, 3, 2)
			if len(td.ck) > 0 {
				td.static = vxSchDrawCols(t, "s", 0, 1, 1)
			}
		}
		tables = append(tables, td)
	}
	v1all := c.Proto == 1 && rapid.Bool().Draw(t, "v1all")
	for _, td := range tables {
		exp := vxSchExpect{Table: td.name, PK: []string{}, CK: []string{}, CKOK: true}
		for _, x := range td.pk {
			exp.PK = append(exp.PK, x.name)
			exp.Cols = append(exp.Cols, x.name)
		}
		for _, x := range td.ck {
			exp.CK = append(exp.CK, x.name)
			exp.Cols = append(exp.Cols, x.name)
		}
		for _, x := range append(append([]vxSchColDesc{}, td.reg...), td.static...) {
			exp.Cols = append(exp.Cols, x.name)
		}
		c.Expect = append(c.Expect, exp)
		if !legacy {
			add(nm.tbl, vxSchRow{"table_name": {S: td.name}})
			for i, x := range td.pk {
				add(nm.col, vxSchRow{"table_name": {S: td.name}, "column_name": {S: x.name}, "clustering_order": {S: "none"}, "type": {S: x.cql}, "kind": {S: "partition_key"}, "position": {N: int64(i)}})
			}
			for i, x := range td.ck {
				order := "asc"
				if x.desc {
					order = "desc"
				}
				add(nm.col, vxSchRow{"table_name": {S: td.name}, "column_name": {S: x.name}, "clustering_order": {S: order}, "type": {S: x.cql}, "kind": {S: "clustering"}, "position": {N: int64(i)}})
			}
			for _, x := range td.reg {
				add(nm.col, vxSchRow{"table_name": {S: td.name}, "column_name": {S: x.name}, "clustering_order": {S: "none"}, "type": {S: x.cql}, "kind": {S: "regular"}, "position": {N: -1}})
			}
			for _, x := range td.static {
				add(nm.col, vxSchRow{"table_name": {S: td.name}, "column_name": {S: x.name}, "clustering_order": {S: "none"}, "type": {S: x.cql}, "kind": {S: "static"}, "position": {N: -1}})
			}
			continue
		}
		// Cassandra 2.x layout
		kv := td.pk[0].java
		if len(td.pk) > 1 {
			var p []string
			for _, x := range td.pk {
				p = append(p, x.java)
			}
			kv = vxSchP + "CompositeType(" + strings.Join(p, ",") + ")"
		}
		ckJava := func(x vxSchColDesc) string {
			if x.desc {
				return vxSchP + "ReversedType(" + x.java + ")"
			}
			return x.java
		}
		var comp []string
		for _, x := range td.ck {
			comp = append(comp, ckJava(x))
		}
		var comparator string
		defaultValidator := vxSchP + "BytesType"
		valueAlias := vxSchCell{Null: true}
		if td.compact {
			comparator = comp[0]
			if len(comp) > 1 {
				comparator = vxSchP + "CompositeType(" + strings.Join(comp, ",") + ")"
			}
			defaultValidator = td.reg[0].java
			valueAlias = vxSchCell{S: td.reg[0].name}
		} else {
			comp = append(comp, vxSchP+"UTF8Type")
			var colls []string
			for _, x := range td.reg {
				if vxSchIsCollection(x.java) {
					colls = append(colls, hexOf([]byte(x.name))+":"+x.java)
				}
			}
			if len(colls) > 0 {
				comp = append(comp, vxSchP+"ColumnToCollectionType("+strings.Join(colls, ",")+")")
			}
			comparator = vxSchP + "CompositeType(" + strings.Join(comp, ",") + ")"
		}
		add(nm.tbl, vxSchRow{"columnfamily_name": {S: td.name}, "key_validator": {S: kv}, "comparator": {S: comparator}, "default_validator": {S: defaultValidator},
			"key_aliases": {S: vxSchJSONList(exp.PK)}, "column_aliases": {S: vxSchJSONList(exp.CK)}, "value_alias": valueAlias})
		idx := func(i, n int) vxSchCell {
			if n == 1 {
				return vxSchCell{Null: true}
			}
			return vxSchCell{N: int64(i)}
		}
		colRow := func(name, kind, validator string, ci vxSchCell) vxSchRow {
			return vxSchRow{"columnfamily_name": {S: td.name}, "column_name": {S: name}, "component_index": ci, "validator": {S: validator},
				"index_name": {Null: true}, "index_type": {Null: true}, "index_options": {Null: true}, "type": {S: kind}}
		}
		if c.Proto > 1 || v1all {
			for i, x := range td.pk {
				add(nm.col, colRow(x.name, "partition_key", x.java, idx(i, len(td.pk))))
			}
			for i, x := range td.ck {
				n := len(td.ck)
				if !td.compact {
					n = 2 // the comparator of a CQL3 table is always composite
				}
				add(nm.col, colRow(x.name, "clustering_key", ckJava(x), idx(i, n)))
			}
		}
		for _, x := range td.reg {
			ci := vxSchCell{N: int64(len(td.ck))}
			kind := "regular"
			if td.compact {
				ci = vxSchCell{Null: true}
				kind = "compact_value"
				if c.Proto == 1 && !v1all {
					continue // Cassandra 1.2 lists the value of a compact table through value_alias only
				}
			}
			r := colRow(x.name, kind, x.java, ci)
			if !td.compact && rapid.IntRange(0, 4).Draw(t, "index") == 0 {
				r["index_name"] = vxSchCell{S: td.name + "_" + x.name + "_idx"}
				r["index_type"] = vxSchCell{S: "COMPOSITES"}
				r["index_options"] = vxSchCell{S: "{}"}
			}
			add(nm.col, r)
		}
		for _, x := range td.static {
			add(nm.col, colRow(x.name, "static", x.java, vxSchCell{N: int64(len(td.ck))}))
		}
	}

	// user types
	if c.Proto >= 2 {
		for i, n := 0, rapid.IntRange(0, 2).Draw(t, "ntypes"); i < n; i++ {
			name := "ut" + itoa(i)
			var fn, ft []string
			for j, m := 0, rapid.IntRange(1, 3).Draw(t, "nfields"); j < m; j++ {
				cq, jv := vxSchDrawType(t, 1)
				fn = append(fn, "f"+itoa(j))
				if legacy {
					ft = append(ft, jv)
				} else {
					ft = append(ft, cq)
				}
			}
			add(nm.typ, vxSchRow{"type_name": {S: name}, "field_names": {L: fn}, "field_types": {L: ft}})
			c.Types = append(c.Types, name)
		}
	}
	// functions and aggregates
	if hasFuncs {
		ty := func(label string) string {
			cq, jv := vxSchDrawType(t, 1)
			if legacy {
				return jv
			}
			return cq
		}
		nf := rapid.IntRange(0, 3).Draw(t, "nfuncs")
		for i := 0; i < nf; i++ {
			name := "fn" + itoa(i)
			add(nm.fn, vxSchRow{"function_name": {S: name}, "argument_types": {L: []string{ty("a"), ty("b")}}, "argument_names": {L: []string{"a", "b"}},
				"body": {S: "return a;"}, "called_on_null_input": {B: rapid.Bool().Draw(t, "conull")}, "language": {S: "java"}, "return_type": {S: ty("r")}})
			c.Funcs = append(c.Funcs, name)
		}
		if nf > 0 {
			for i, n := 0, rapid.IntRange(0, 2).Draw(t, "naggs"); i < n; i++ {
				name := "ag" + itoa(i)
				add(nm.agg, vxSchRow{"aggregate_name": {S: name}, "argument_types": {L: []string{ty("a")}}, "final_func": {S: "fn" + itoa(rapid.IntRange(0, nf-1).Draw(t, "ff"))},
					"initcond": {S: "0"}, "return_type": {S: ty("r")}, "state_func": {S: "fn" + itoa(rapid.IntRange(0, nf-1).Draw(t, "sf"))}, "state_type": {S: ty("s")}})
				c.Aggs = append(c.Aggs, name)
			}
		}
	}
	// materialized views
	if !legacy && len(tables) > 0 {
		for i, n := 0, rapid.IntRange(0, 1).Draw(t, "nviews"); i < n; i++ {
			base := tables[rapid.IntRange(0, len(tables)-1).Draw(t, "base")]
			name := "mv" + itoa(i)
			add(nm.view, vxSchViewRow(name, base.name))
			exp := vxSchExpect{Table: name, PK: []string{}, CK: []string{}, CKOK: true}
			for j, x := range base.pk {
				add(nm.col, vxSchRow{"table_name": {S: name}, "column_name": {S: x.name}, "clustering_order": {S: "none"}, "type": {S: x.cql}, "kind": {S: "partition_key"}, "position": {N: int64(j)}})
				exp.PK = append(exp.PK, x.name)
				exp.Cols = append(exp.Cols, x.name)
			}
			for j, x := range base.ck {
				add(nm.col, vxSchRow{"table_name": {S: name}, "column_name": {S: x.name}, "clustering_order": {S: "asc"}, "type": {S: x.cql}, "kind": {S: "clustering"}, "position": {N: int64(j)}})
				exp.CK = append(exp.CK, x.name)
				exp.Cols = append(exp.Cols, x.name)
			}
			c.Expect = append(c.Expect, exp)
			c.Views = append(c.Views, name)
		}
	}

	// the prepared statement whose routing key needs the table metadata
	c.StmtTbl, c.Binds = "ghost", []string{"pk0"}
	if len(tables) > 0 && rapid.IntRange(0, 5).Draw(t, "stmtghost") > 0 {
		e := c.Expect[rapid.IntRange(0, len(tables)-1).Draw(t, "stmttbl")]
		c.StmtTbl, c.Binds = e.Table, append([]string{}, e.PK...)
		if rapid.IntRange(0, 3).Draw(t, "extra-bind") == 0 {
			c.Binds = append(c.Binds, "other")
		}
	}

	// oddities
	for i, n := 0, []int{0, 0, 1, 1, 1, 2, 2, 3}[vxSchUniform(t, 8, "noddities")]; i < n; i++ {
		if label := vxSchOddity(t, c, nm, hasFuncs); label != "" {
			c.Oddities = append(c.Oddities, label)
		}
	}

	// events
	for i, n := 0, rapid.IntRange(1, 6).Draw(t, "nevents"); i < n; i++ {
		ev := vxSchEvent{Change: rapid.SampledFrom([]string{"CREATED", "UPDATED", "DROPPED"}).Draw(t, "change"),
			Target:   rapid.SampledFrom([]string{"KEYSPACE", "KEYSPACE", "TABLE", "TYPE", "FUNCTION", "AGGREGATE"}).Draw(t, "target"),
			Keyspace: rapid.SampledFrom([]string{"ks1", "ks1", "ks1", "ks2", ""}).Draw(t, "evks")}
		if ev.Target != "KEYSPACE" {
			ev.Object = rapid.SampledFrom([]string{"t0", "t1", "ut0", "fn0", "ag0", "ghost"}).Draw(t, "evobj")
		}
		if ev.Target == "FUNCTION" || ev.Target == "AGGREGATE" {
			ev.Args = rapid.SampledFrom([][]string{{}, {"int"}, {"int", "text"}}).Draw(t, "evargs")
		}
		if c.Proto < 3 && ev.Target != "KEYSPACE" {
			ev.Target, ev.Args = "TABLE", nil // protocol 1-2 events only know keyspaces and tables
		}
		if c.Proto < 4 && (ev.Target == "FUNCTION" || ev.Target == "AGGREGATE") {
			ev.Target = "TYPE"
			ev.Args = nil
		}
		c.Events = append(c.Events, ev)
	}
	c.Wait = rapid.IntRange(0, 3).Draw(t, "wait") == 0
	return c
}

func vxSchViewRow(name, base string) vxSchRow {
	return vxSchRow{"view_name": {S: name}, "base_table_id": {S: "0a0b0c0d00001000800000000000aaaa"}, "base_table_name": {S: base}, "bloom_filter_fp_chance": {X: 0.01},
		"caching": {M: [][2]string{{"keys", "ALL"}, {"rows_per_partition", "NONE"}}}, "comment": {S: ""},
		"compaction":  {M: [][2]string{{"class", "org.apache.cassandra.db.compaction.SizeTieredCompactionStrategy"}}},
		"compression": {M: [][2]string{{"chunk_length_in_kb", "64"}}}, "crc_check_chance": {X: 1}, "dclocal_read_repair_chance": {X: 0.1},
		"default_time_to_live": {N: 0}, "extensions": {M: [][2]string{}}, "gc_grace_seconds": {N: 864000}, "id": {S: "0a0b0c0d00001000800000000000bbbb"},
		"include_all_columns": {B: false}, "max_index_interval": {N: 2048}, "memtable_flush_period_in_ms": {N: 0}, "min_index_interval": {N: 128},
		"read_repair_chance": {X: 0}, "speculative_retry": {S: "99PERCENTILE"}}
}

var vxSchOddRF = []string{"abc", "", "3/1", "-1", "0", "99999999999999999999", "9223372036854775807", "1152921504606846976", "4194304", " 2", "2.0"}

// vxSchOddTypeString draws a type description that is not one Cassandra would produce.
func vxSchOddTypeString(t *rapid.T, java bool) string {
	switch vxSchUniform(t, 8, "oddtype") {
	case 0:
		return ""
	case 1:
		n := rapid.SampledFrom([]int{20, 200}).Draw(t, "nest")
		if java {
			return strings.Repeat(vxSchP+"ListType(", n) + vxSchP + "Int32Type" + strings.Repeat(")", n)
		}
		return strings.Repeat("list<", n) + "int" + strings.Repeat(">", n)
	case 2:
		n := rapid.SampledFrom([]int{3, 150}).Draw(t, "open")
		if java {
			return strings.Repeat(vxSchP+"MapType(", n)
		}
		return strings.Repeat("map<", n)
	case 3, 4:
		return rapid.SampledFrom([]string{vxSchP + "CompositeType(" + vxSchP + "ColumnToCollectionType(6162:" + vxSchP + "ListType(" + vxSchP + "Int32Type)))",
			vxSchP + "CompositeType()", vxSchP + "ReversedType(" + vxSchP + "CompositeType(" + vxSchP + "Int32Type," + vxSchP + "UTF8Type))",
			vxSchP + "CompositeType(" + vxSchP + "ReversedType())", vxSchP + "ColumnToCollectionType(6162:" + vxSchP + "ListType(" + vxSchP + "Int32Type))",
			vxSchP + "ReversedType", vxSchP + "CompositeType(" + vxSchP + "Int32Type," + vxSchP + "Int32Type," + vxSchP + "Int32Type," + vxSchP + "Int32Type," + vxSchP + "Int32Type)",
			"frozen<", "map<int>", "tuple<>", "list<>", "frozen<>", "map<,>"}).Draw(t, "nasty")
	}
	s := vxDrawTypeString(t, rapid.IntRange(0, 3).Draw(t, "depth"), java)
	for i := rapid.IntRange(0, 2).Draw(t, "edits"); i > 0; i-- {
		r := []rune(s)
		alphabet := []rune("()<>,: aT0\x00é")
		pos := 0
		if len(r) > 0 {
			pos = rapid.IntRange(0, len(r)-1).Draw(t, "pos")
		}
		switch rapid.IntRange(0, 3).Draw(t, "edit") {
		case 0:
			if len(r) > 0 {
				r = append(r[:pos:pos], r[pos+1:]...)
			}
		case 1:
			r = append(r[:pos:pos], append([]rune{rapid.SampledFrom(alphabet).Draw(t, "ins")}, r[pos:]...)...)
		case 2:
			if len(r) > 0 {
				r[pos] = rapid.SampledFrom(alphabet).Draw(t, "rep")
			}
		default:
			r = r[:pos]
		}
		s = string(r)
	}
	return s
}

func vxSchCopyRow(r vxSchRow) vxSchRow {
	out := vxSchRow{}
	for k, v := range r {
		out[k] = v
	}
	return out
}

func vxSchSortedCols(r vxSchRow) []string {
	var out []string
	for k := range r {
		out = append(out, k)
	}
	sort.Strings(out)
	return out
}

// vxSchOddity applies one drawn oddity to the rows; it returns its label ("" when it does not apply to this schema).
func vxSchOddity(t *rapid.T, c *vxC05SchCase, nm vxSchNames, hasFuncs bool) string {
	kinds := []string{"pos-negative", "pos-duplicate", "pos-beyond", "pos-huge", "pos-min", "pk-missing", "kind-unknown", "type-odd", "null-cell", "retype",
		"col-orphan", "table-no-columns", "table-unconfigured", "list-length", "ks-options-odd", "ks-rf-odd", "ks-rf-odd", "ks-rows", "dup-row", "table-unlisted-only"}
	if hasFuncs {
		kinds = append(kinds, "agg-final-null", "agg-state-null", "agg-final-unlisted", "agg-state-unlisted", "agg-final-null", "agg-final-unlisted")
	}
	if nm.legacy {
		kinds = append(kinds, "keyvalidator-odd", "comparator-odd", "aliases-odd", "index-options-odd", "keyvalidator-odd", "comparator-odd")
	} else {
		kinds = append(kinds, "view-base-missing", "view-base-missing")
	}
	kind := kinds[vxSchUniform(t, len(kinds), "oddity")]
	pickRow := func(tbl, label string, pred func(vxSchRow) bool) int {
		var idx []int
		for i, r := range c.Rows[tbl] {
			if pred == nil || pred(r) {
				idx = append(idx, i)
			}
		}
		if len(idx) == 0 {
			return -1
		}
		return idx[rapid.IntRange(0, len(idx)-1).Draw(t, label)]
	}
	isKey := func(r vxSchRow) bool {
		k := r[nm.colKind].S
		return k == "partition_key" || k == "clustering" || k == "clustering_key"
	}
	setCell := func(tbl string, i int, col string, v vxSchCell) {
		r := vxSchCopyRow(c.Rows[tbl][i])
		r[col] = v
		c.Rows[tbl][i] = r
	}
	switch kind {
	case "pos-negative", "pos-duplicate", "pos-beyond", "pos-huge", "pos-min":
		i := pickRow(nm.col, "posrow", isKey)
		if i < 0 {
			return ""
		}
		var v int64
		switch kind {
		case "pos-negative":
			v = -1
		case "pos-duplicate":
			v = c.Rows[nm.col][i][nm.colPos].N + int64(rapid.SampledFrom([]int{-1, 1}).Draw(t, "dupdelta"))
		case "pos-beyond":
			v = c.Rows[nm.col][i][nm.colPos].N + int64(rapid.SampledFrom([]int{1, 2, 3, 7}).Draw(t, "beyond"))
		case "pos-huge":
			v = 1 << 23
		case "pos-min":
			v = -2147483648
		}
		setCell(nm.col, i, nm.colPos, vxSchCell{N: v})
	case "pk-missing":
		i := pickRow(nm.col, "pkrow", func(r vxSchRow) bool { return r[nm.colKind].S == "partition_key" })
		if i < 0 {
			return ""
		}
		c.Rows[nm.col] = append(append([]vxSchRow{}, c.Rows[nm.col][:i]...), c.Rows[nm.col][i+1:]...)
	case "kind-unknown":
		i := pickRow(nm.col, "kindrow", nil)
		if i < 0 {
			return ""
		}
		setCell(nm.col, i, nm.colKind, vxSchCell{S: rapid.SampledFrom([]string{"", "PARTITION_KEY", "foo", "clustering_key", "clustering", "compact_value", "partition_key"}).Draw(t, "kind")})
	case "type-odd":
		type slot struct {
			tbl, col string
			list     bool
		}
		slots := []slot{{nm.col, nm.colType, false}, {nm.typ, "field_types", true}, {nm.fn, "return_type", false}, {nm.fn, "argument_types", true},
			{nm.agg, "state_type", false}, {nm.agg, "return_type", false}, {nm.agg, "argument_types", true}, {nm.col, nm.colType, false}}
		var ok []slot
		for _, s := range slots {
			if len(c.Rows[s.tbl]) > 0 {
				ok = append(ok, s)
			}
		}
		if len(ok) == 0 {
			return ""
		}
		s := ok[vxSchUniform(t, len(ok), "slot")]
		i := pickRow(s.tbl, "typerow", nil)
		odd := vxSchOddTypeString(t, nm.legacy && rapid.IntRange(0, 7).Draw(t, "notation") > 0 || !nm.legacy && rapid.IntRange(0, 7).Draw(t, "notation") == 0)
		if s.list {
			l := append([]string{}, c.Rows[s.tbl][i][s.col].L...)
			if len(l) == 0 {
				l = []string{odd}
			} else {
				l[rapid.IntRange(0, len(l)-1).Draw(t, "elem")] = odd
			}
			setCell(s.tbl, i, s.col, vxSchCell{L: l})
		} else {
			setCell(s.tbl, i, s.col, vxSchCell{S: odd})
		}
	case "null-cell":
		var tbls []string
		for k, v := range c.Rows {
			if len(v) > 0 {
				tbls = append(tbls, k)
			}
		}
		if len(tbls) == 0 {
			return ""
		}
		sort.Strings(tbls)
		tbl := tbls[vxSchUniform(t, len(tbls), "nulltbl")]
		i := pickRow(tbl, "nullrow", nil)
		cols := vxSchSortedCols(c.Rows[tbl][i])
		col := cols[vxSchUniform(t, len(cols), "nullcol")]
		setCell(tbl, i, col, vxSchCell{Null: true})
		return "null-cell:" + col
	case "retype":
		opts := []vxSchRetype{{nm.col, nm.colPos, "text"}, {nm.col, nm.colPos, "bigint"}, {nm.col, nm.colPos, "blob"}, {nm.col, nm.colPos, "boolean"},
			{nm.col, nm.colKind, "int"}, {nm.col, nm.colKind, "blob"}, {nm.col, nm.colType, "list<text>"}, {nm.col, "column_name", "blob"}, {nm.col, "column_name", "int"},
			{nm.ks, "durable_writes", "text"}, {nm.ks, "durable_writes", "int"}, {nm.typ, "field_types", "text"}, {nm.typ, "field_types", "set<text>"},
			{nm.typ, "field_types", "map<text,text>"}, {nm.typ, "field_names", "list<int>"}, {nm.fn, "argument_types", "text"}, {nm.fn, "called_on_null_input", "text"},
			{nm.agg, "final_func", "int"}, {nm.agg, "initcond", "blob"}, {nm.agg, "initcond", "text"}, {nm.agg, "argument_types", "map<text,text>"}, {nm.tbl, nm.tblName, "int"},
			{nm.tbl, nm.tblName, "blob"}, {nm.tbl, nm.tblName, "list<text>"}}
		if nm.legacy {
			opts = append(opts, vxSchRetype{nm.ks, "strategy_options", "map<text,text>"}, vxSchRetype{nm.ks, "strategy_options", "blob"}, vxSchRetype{nm.tbl, "key_aliases", "list<text>"},
				vxSchRetype{nm.tbl, "key_validator", "int"}, vxSchRetype{nm.col, "index_options", "map<text,text>"})
		} else {
			opts = append(opts, vxSchRetype{nm.ks, "replication", "text"}, vxSchRetype{nm.ks, "replication", "list<text>"}, vxSchRetype{nm.ks, "replication", "map<text,int>"},
				vxSchRetype{nm.view, "view_name", "int"}, vxSchRetype{nm.view, "extensions", "map<text,text>"}, vxSchRetype{nm.view, "id", "text"}, vxSchRetype{nm.view, "base_table_id", "bigint"},
				vxSchRetype{nm.view, "caching", "text"}, vxSchRetype{nm.view, "bloom_filter_fp_chance", "int"}, vxSchRetype{nm.view, "gc_grace_seconds", "bigint"})
		}
		r := opts[vxSchUniform(t, len(opts), "retype")]
		c.Retype = append(c.Retype, r)
		return "retype:" + r.Column + "->" + r.Type
	case "list-length":
		// paired list columns (names / types) of different lengths
		type slot struct{ tbl, col string }
		var ok []slot
		for _, s := range []slot{{nm.typ, "field_names"}, {nm.typ, "field_types"}, {nm.fn, "argument_names"}, {nm.fn, "argument_types"}, {nm.agg, "argument_types"}} {
			if len(c.Rows[s.tbl]) > 0 {
				ok = append(ok, s)
			}
		}
		if len(ok) == 0 {
			return ""
		}
		s := ok[vxSchUniform(t, len(ok), "slot")]
		i := pickRow(s.tbl, "listrow", nil)
		l := append([]string{}, c.Rows[s.tbl][i][s.col].L...)
		switch rapid.IntRange(0, 2).Draw(t, "listedit") {
		case 0:
			l = []string{}
		case 1:
			if len(l) > 0 {
				l = l[:len(l)-1]
			}
		default:
			l = append(l, "int", "text")
		}
		setCell(s.tbl, i, s.col, vxSchCell{L: l})
		return "list-length:" + s.col
	case "table-unconfigured":
		all := []string{nm.ks, nm.tbl, nm.col, nm.typ, nm.fn, nm.agg}
		if !nm.legacy {
			all = append(all, nm.view)
		}
		m := all[vxSchUniform(t, len(all), "missing")]
		c.Missing = append(c.Missing, m)
		return "table-unconfigured:" + m
	case "col-orphan":
		i := pickRow(nm.col, "orphanrow", nil)
		if i < 0 {
			return ""
		}
		r := vxSchCopyRow(c.Rows[nm.col][i])
		r[nm.colTbl] = vxSchCell{S: "ghost"}
		c.Rows[nm.col] = append(c.Rows[nm.col], r)
	case "table-no-columns":
		i := pickRow(nm.tbl, "emptytbl", nil)
		if i < 0 {
			return ""
		}
		name := c.Rows[nm.tbl][i][nm.tblName].S
		var keep []vxSchRow
		for _, r := range c.Rows[nm.col] {
			if r[nm.colTbl].S != name {
				keep = append(keep, r)
			}
		}
		c.Rows[nm.col] = keep
	case "table-unlisted-only":
		i := pickRow(nm.tbl, "droptbl", nil)
		if i < 0 {
			return ""
		}
		c.Rows[nm.tbl] = append(append([]vxSchRow{}, c.Rows[nm.tbl][:i]...), c.Rows[nm.tbl][i+1:]...)
	case "ks-options-odd":
		if len(c.Rows[nm.ks]) == 0 {
			return ""
		}
		if nm.legacy {
			setCell(nm.ks, 0, "strategy_options", vxSchCell{S: rapid.SampledFrom([]string{"", "{", "null", "[]", `{"replication_factor":3}`, `{"replication_factor":null}`,
				`{"replication_factor":["1"]}`, `{"replication_factor":{"a":"b"}}`, `"x"`, `{"dc1":1.5,"dc2":true}`}).Draw(t, "opts")})
		} else {
			m := c.Rows[nm.ks][0]["replication"].M
			switch rapid.IntRange(0, 3).Draw(t, "repl") {
			case 0:
				if len(m) > 0 {
					m = m[1:] // no class
				}
			case 1:
				m = [][2]string{}
			case 2:
				rest := m
				if len(rest) > 0 {
					rest = rest[1:]
				}
				m = append([][2]string{{"class", rapid.SampledFrom([]string{"", "SimpleStrategy", "NetworkTopologyStrategy", "x.SimpleStrategyNetworkTopologyStrategy", "EverywhereStrategy"}).Draw(t, "cls")}}, rest...)
			default:
				m = append(append([][2]string{}, m...), [2]string{"class", "org.apache.cassandra.locator.NetworkTopologyStrategy"}, [2]string{"", ""})
			}
			setCell(nm.ks, 0, "replication", vxSchCell{M: m})
		}
	case "ks-rf-odd":
		if len(c.Rows[nm.ks]) == 0 {
			return ""
		}
		rf := vxSchOddRF[vxSchUniform(t, len(vxSchOddRF), "oddrf")]
		if nm.legacy {
			var m map[string]interface{}
			_ = json.Unmarshal([]byte(c.Rows[nm.ks][0]["strategy_options"].S), &m)
			if len(m) == 0 {
				return ""
			}
			var keys []string
			for k := range m {
				keys = append(keys, k)
			}
			sort.Strings(keys)
			m[rapid.SampledFrom(keys).Draw(t, "rfkey")] = rf
			b, _ := json.Marshal(m)
			setCell(nm.ks, 0, "strategy_options", vxSchCell{S: string(b)})
		} else {
			m := append([][2]string{}, c.Rows[nm.ks][0]["replication"].M...)
			if len(m) < 2 {
				return ""
			}
			m[rapid.IntRange(1, len(m)-1).Draw(t, "rfkey")][1] = rf
			setCell(nm.ks, 0, "replication", vxSchCell{M: m})
		}
		return "ks-rf-odd:" + rf
	case "ks-rows":
		if rapid.Bool().Draw(t, "nokeyspace") || len(c.Rows[nm.ks]) == 0 {
			c.Rows[nm.ks] = nil
			return "ks-rows:0"
		}
		c.Rows[nm.ks] = append(c.Rows[nm.ks], vxSchCopyRow(c.Rows[nm.ks][0]))
		return "ks-rows:2"
	case "dup-row":
		var tbls []string
		for k, v := range c.Rows {
			if len(v) > 0 && k != nm.ks {
				tbls = append(tbls, k)
			}
		}
		if len(tbls) == 0 {
			return ""
		}
		sort.Strings(tbls)
		tbl := rapid.SampledFrom(tbls).Draw(t, "duptbl")
		i := pickRow(tbl, "duprow", nil)
		c.Rows[tbl] = append(c.Rows[tbl], vxSchCopyRow(c.Rows[tbl][i]))
	case "agg-final-null", "agg-state-null", "agg-final-unlisted", "agg-state-unlisted":
		if len(c.Rows[nm.agg]) == 0 {
			// an aggregate (and, for the -null kinds, the function it uses) is added
			ty := "int"
			if nm.legacy {
				ty = vxSchP + "Int32Type"
			}
			if len(c.Rows[nm.fn]) == 0 && rapid.Bool().Draw(t, "addfn") {
				c.Rows[nm.fn] = append(c.Rows[nm.fn], vxSchRow{"function_name": {S: "fn0"}, "argument_types": {L: []string{ty, ty}}, "argument_names": {L: []string{"a", "b"}},
					"body": {S: "return a;"}, "called_on_null_input": {B: true}, "language": {S: "java"}, "return_type": {S: ty}})
			}
			c.Rows[nm.agg] = append(c.Rows[nm.agg], vxSchRow{"aggregate_name": {S: "ag0"}, "argument_types": {L: []string{ty}}, "final_func": {S: "fn0"},
				"initcond": {S: "0"}, "return_type": {S: ty}, "state_func": {S: "fn0"}, "state_type": {S: ty}})
		}
		i := pickRow(nm.agg, "aggrow", nil)
		col := "final_func"
		if strings.HasPrefix(kind, "agg-state") {
			col = "state_func"
		}
		v := vxSchCell{Null: true}
		if strings.HasSuffix(kind, "unlisted") {
			v = vxSchCell{S: rapid.SampledFrom([]string{"nosuchfn", "", "FN0"}).Draw(t, "fname")}
		}
		setCell(nm.agg, i, col, v)
	case "view-base-missing":
		if len(c.Rows[nm.view]) == 0 {
			c.Rows[nm.view] = append(c.Rows[nm.view], vxSchViewRow("mv0", "t0"))
		}
		i := pickRow(nm.view, "viewrow", nil)
		v := vxSchCell{S: "ghost"}
		if rapid.Bool().Draw(t, "basenull") {
			v = vxSchCell{Null: true}
		}
		setCell(nm.view, i, "base_table_name", v)
	case "keyvalidator-odd", "comparator-odd":
		i := pickRow(nm.tbl, "cfrow", nil)
		if i < 0 {
			return ""
		}
		col := "key_validator"
		if kind == "comparator-odd" {
			col = "comparator"
			if rapid.IntRange(0, 4).Draw(t, "defval") == 0 {
				col = "default_validator"
			}
		}
		var v string
		switch rapid.IntRange(0, 3).Draw(t, "kvodd") {
		case 0:
			v = vxSchP + "Int32Type" // fewer components than the columns say
		case 1:
			v = vxSchP + "CompositeType(" + vxSchP + "Int32Type)"
		case 2:
			v = vxSchP + "CompositeType(" + vxSchP + "ColumnToCollectionType(6162:" + vxSchP + "ListType(" + vxSchP + "Int32Type)))"
		default:
			v = vxSchOddTypeString(t, true)
		}
		setCell(nm.tbl, i, col, vxSchCell{S: v})
	case "aliases-odd":
		i := pickRow(nm.tbl, "cfrow", nil)
		if i < 0 {
			return ""
		}
		col := rapid.SampledFrom([]string{"key_aliases", "column_aliases", "value_alias"}).Draw(t, "aliascol")
		setCell(nm.tbl, i, col, vxSchCell{S: rapid.SampledFrom([]string{"", "null", "{}", "[", `[1,2]`, `["a","b","c","d","e","f"]`, `[]`, `[null]`, `"x"`, `["pk0","pk0"]`}).Draw(t, "alias")})
	case "index-options-odd":
		i := pickRow(nm.col, "idxrow", nil)
		if i < 0 {
			return ""
		}
		setCell(nm.col, i, "index_options", vxSchCell{S: rapid.SampledFrom([]string{"{", "null", "[]", `"x"`, `{"a":{"b":[1,2,{"c":null}]}}`, "1e999"}).Draw(t, "idxopts")})
	}
	return kind
}

// ---- the part ------------------------------------------------------------------------------------

type vxSchOutcome struct {
	what string
	err  error
}

type vxSchResult struct {
	out       []vxSchOutcome
	panicked  string
	md        *KeyspaceMetadata
	mdErr     error
	processed bool
	stmtErr   error
	rkey      []byte
	rkeyErr   error
	stmtRun   bool
}

// vxSchStack reduces a stack trace to the driver's function names, so that the same failure always has the same
// text (rapid only shrinks failures whose message is reproducible).
func vxSchStack(st string) string {
	var out []string
	for _, l := range strings.Split(st, "\n") {
		if strings.HasPrefix(l, "\t") || !strings.Contains(l, "gocql.") || strings.Contains(l, "TestVx") || strings.HasPrefix(l, "created by") {
			continue
		}
		if i := strings.LastIndex(l, "("); i > 0 {
			l = l[:i]
		}
		out = append(out, "\t"+l+"(..)")
	}
	return strings.Join(out, "\n")
}

// vxSchKnownID maps a panic inside the driver that the caller's goroutine met to the id of a confirmed defect.
func vxSchKnownID(p string) string {
	switch {
	case strings.Contains(p, "nil pointer dereference") && strings.Contains(p, "gocql.compileMetadata("):
		return "C05-schema-aggregate-func"
	case strings.Contains(p, "index out of range") && strings.Contains(p, "gocql.compileV2Metadata("):
		return "C05-schema-component-index"
	case strings.Contains(p, "gocql.compileV1Metadata("), strings.Contains(p, "index out of range") && strings.Contains(p, "gocql.compileMetadata("):
		return "C05-schema-empty-composite"
	case strings.Contains(p, "nil pointer dereference") && strings.Contains(p, "gocql.(*Session).routingKeyInfo("):
		return "C05-schema-partition-key-gap"
	case strings.Contains(p, "makeslice") && strings.Contains(p, "replicaMap("):
		return "C05-schema-replication-factor"
	}
	return ""
}

func TestVxC05Schema(t *testing.T) {
	vx.Check(t, vx.Prop{
		ID: "C05", Part: "TestVxC05Schema",
		Rule: "a real session (protocol 1..4; nodes report release_version 2.0/2.1/2.2 = system.schema_* tables or 3.11/4.0 = system_schema.*; token-aware policy; with or without a session keyspace) against scripted nodes that answer every schema query of the driver (PREPARE/EXECUTE of SELECT <cols> FROM <schema table>; the SELECT list is parsed so the rows carry exactly the requested columns) from a generated schema description: keyspace row, 0-3 tables (CQL3 and compact layouts, 1-3 partition key and 0-3 clustering columns, regular/static/collection columns, ReversedType/CompositeType/ColumnToCollectionType validators or CQL type strings), user types, functions, aggregates, materialized views - consistent first, then 0..3 drawn oddities (aggregate whose final/state function is null or unlisted; key column position negative/duplicate/beyond/huge; partition key column missing; unknown kind; malformed/empty/deeply nested type string; null cell; a column declared with another CQL type; columns of an unlisted table; table without columns; odd replication options and factors; 0 or 2 keyspace rows; duplicate rows; view without base table; odd key_validator/comparator/aliases/index_options JSON; name and type lists of different lengths; a schema table the node does not have). Driver side: CreateSession, KeyspaceMetadata twice, a prepared statement whose routing key needs the table's partition key, 1-6 SCHEMA_CHANGE events (CREATED/UPDATED/DROPPED x KEYSPACE/TABLE/TYPE/FUNCTION/AGGREGATE), in a quarter of the cases a wait for the 1 s event debouncer, KeyspaceMetadata again, Close. Oracle: every call returns a value or an error within 30 s; no panic in the caller's goroutine (recovered and reported) nor on a driver goroutine (the process dies and the persisted case is blamed); total allocation <= 16 MiB + 64 x bytes of the schema answers; with no oddity KeyspaceMetadata succeeds and reports the tables, partition keys, clustering columns, columns, types, functions, aggregates and views of the description, and the statement executes. Non-trivial = at least one oddity; distinct by the case",
		Draw: func(t *rapid.T) interface{} { return vxSchDraw(t) },
		New:  func() interface{} { return &vxC05SchCase{} },
		Run: func(ci interface{}, k *vstats.Case) error { return vxSchRunCase(ci.(*vxC05SchCase), k, nil) },
	})
}

// vxSchRunCase runs one schema case. rk (may be nil) receives what Query.GetRoutingKey returned for the
// prepared statement.
func vxSchRunCase(c *vxC05SchCase, k *vstats.Case, rk *vxSchRK) error {
			okVersion := false
			for _, v := range vxSchVersions[c.Proto] {
				okVersion = okVersion || v == c.Version
			}
			if !okVersion || len(c.Binds) < 1 || len(c.Binds) > 8 || len(c.Events) > 16 {
				return nil
			}
			legacy := vxSchLegacy(c.Version)
			k.Class(fmt.Sprintf("proto=%d", c.Proto))
			if legacy {
				k.Class("tables=legacy system.schema_*")
			} else {
				k.Class("tables=modern system_schema.*")
			}
			k.Class(fmt.Sprintf("oddities=%d", len(c.Oddities)))
			for _, o := range c.Oddities {
				k.Class("oddity=" + o)
			}
			if len(c.Oddities) > 0 {
				k.NonTrivial()
			}

			specs := vxSpecs(2, 2)
			for i := range specs {
				specs[i].Version = c.Version
			}
			cl := vnode.NewCluster(specs)
			var sentBytes, schemaQueries int64
			intercept := func(rc *vnode.ReqCtx) bool {
				var stmt string
				switch rc.Req.Kind {
				case "PREPARE", "QUERY":
					stmt = rc.Req.Statement
				case "EXECUTE":
					stmt = string(mustUnhex(rc.Req.IDHex))
				default:
					return false
				}
				cols, from, ok := vxSchParseSelect(stmt)
				if !ok {
					return false
				}
				for _, m := range c.Missing {
					if m == from {
						rc.Reply(&cqlspec.Response{Kind: "ERROR", Code: cqlspec.ErrInvalid, Message: "unconfigured table " + from})
						return true
					}
				}
				ks, tbl := from[:strings.Index(from, ".")], from[strings.Index(from, ".")+1:]
				meta, rows := c.rowsFor(from, cols)
				var resp *cqlspec.Response
				if rc.Req.Kind == "PREPARE" {
					bind := &cqlspec.Metadata{GlobalSpec: true, Keyspace: ks, Table: tbl, Columns: []cqlspec.Column{{Keyspace: ks, Table: tbl, Name: "keyspace_name", Type: cqlspec.Scalar(cqlspec.Varchar)}}}
					if rc.Req.Header.Version >= 4 {
						bind.PKIndexes = []int{0}
					}
					resp = &cqlspec.Response{Kind: "PREPARED", PreparedIDHex: hexOf([]byte(stmt)), Meta: bind, ResultMeta: &cqlspec.Metadata{GlobalSpec: true, Keyspace: ks, Table: tbl, Columns: meta}}
				} else {
					atomic.AddInt64(&schemaQueries, 1)
					m := &cqlspec.Metadata{GlobalSpec: true, Keyspace: ks, Table: tbl, Columns: meta}
					if rc.Req.Params != nil && rc.Req.Params.SkipMeta {
						m.NoMetadata = true
					}
					resp = &cqlspec.Response{Kind: "ROWS", Meta: m, Rows: rows}
				}
				resp.Version = rc.Req.Header.Version
				body, _ := resp.Body()
				atomic.AddInt64(&sentBytes, int64(len(body)))
				rc.Reply(resp)
				return true
			}
			handler := func(rc *vnode.ReqCtx) {
				resCols := []cqlspec.Column{{Keyspace: "ks1", Table: c.StmtTbl, Name: "v", Type: cqlspec.Scalar(cqlspec.Int)}}
				switch rc.Req.Kind {
				case "PREPARE":
					var bind []cqlspec.Column
					for _, b := range c.Binds {
						bind = append(bind, cqlspec.Column{Keyspace: "ks1", Table: c.StmtTbl, Name: b, Type: cqlspec.Scalar(cqlspec.Int)})
					}
					// no partition key indexes (legal in protocol 4: the driver then consults the table metadata, as it always does below 4)
					rc.Reply(&cqlspec.Response{Kind: "PREPARED", PreparedIDHex: hexOf([]byte(rc.Req.Statement)),
						Meta: &cqlspec.Metadata{GlobalSpec: true, Keyspace: "ks1", Table: c.StmtTbl, Columns: bind}, ResultMeta: &cqlspec.Metadata{Columns: resCols}})
				case "EXECUTE":
					m := &cqlspec.Metadata{Columns: resCols}
					if rc.Req.Params != nil && rc.Req.Params.SkipMeta {
						m.NoMetadata = true
					}
					rc.Reply(&cqlspec.Response{Kind: "ROWS", Meta: m, Rows: [][]cqlspec.Value{{cqlspec.I64Value(1)}}})
				default:
					rc.Reply(vxVoid())
				}
			}
			for _, n := range cl.Nodes() {
				n.Intercept = intercept
				n.Handler = handler
			}

			var m0, m1 runtime.MemStats
			runtime.ReadMemStats(&m0)
			done := make(chan *vxSchResult, 1)
			var sessMu sync.Mutex
			var sess *Session
			go func() {
				res := &vxSchResult{}
				defer func() {
					if r := recover(); r != nil {
						res.panicked = fmt.Sprintf("%v\n%s", r, vxSchStack(string(debug.Stack())))
					}
					done <- res
				}()
				note := func(what string, err error) { res.out = append(res.out, vxSchOutcome{what, err}) }
				s, err := vxClusterConfig(cl, c.Proto, func(cfg *ClusterConfig) {
					cfg.PoolConfig.HostSelectionPolicy = TokenAwareHostPolicy(RoundRobinHostPolicy())
					if c.UseKS {
						cfg.Keyspace = "ks1"
					}
				}).CreateSession()
				note("CreateSession", err)
				if err != nil {
					return
				}
				sessMu.Lock()
				sess = s
				sessMu.Unlock()
				res.md, res.mdErr = s.KeyspaceMetadata("ks1")
				note("KeyspaceMetadata", res.mdErr)
				_, err = s.KeyspaceMetadata("ks1")
				note("KeyspaceMetadata (again)", err)

				args := make([]interface{}, len(c.Binds))
				conds := make([]string, len(c.Binds))
				for i, b := range c.Binds {
					args[i] = 7 + i
					conds[i] = b + " = ?"
				}
				q := s.Query("SELECT v FROM "+c.StmtTbl+" WHERE "+strings.Join(conds, " AND "), args...)
				key, err := q.GetRoutingKey()
				note("GetRoutingKey", err)
				res.rkey, res.rkeyErr = key, err
				res.stmtErr = q.Exec()
				res.stmtRun = true
				note("prepared statement", res.stmtErr)

				q0 := atomic.LoadInt64(&schemaQueries)
				namesKS1 := false
				for _, ev := range c.Events {
					namesKS1 = namesKS1 || ev.Keyspace == "ks1"
					for _, n := range cl.Nodes() {
						n.SendEvent(&cqlspec.Response{EventType: "SCHEMA_CHANGE", Change: ev.Change, Target: ev.Target, ChKeyspace: ev.Keyspace, ChObject: ev.Object, ChArgs: ev.Args, Version: c.Proto})
					}
				}
				if c.Wait {
					time.Sleep(1150 * time.Millisecond)
					// let the event handler finish its queries (not an oracle: it only keeps its work inside this case)
					for i, last := 0, int64(-1); i < 60; i++ {
						n := int64(0)
						for _, l := range cl.AllLogs() {
							n = l.Seq
						}
						if n == last && i >= 2 {
							break
						}
						last = n
						time.Sleep(25 * time.Millisecond)
					}
				}
				_, err = s.KeyspaceMetadata("ks1")
				note("KeyspaceMetadata (after events)", err)
				res.processed = c.Wait && namesKS1 && res.mdErr == nil && atomic.LoadInt64(&schemaQueries) > q0
				if len(c.Oddities) == 0 && err != nil {
					res.mdErr = err
				}
				_, err = s.KeyspaceMetadata("ks2")
				note("KeyspaceMetadata (other keyspace)", err)
				s.Close()
				_, err = s.KeyspaceMetadata("ks1")
				note("KeyspaceMetadata (closed)", err)
			}()

			var res *vxSchResult
			select {
			case res = <-done:
			case <-time.After(30 * time.Second):
				return fmt.Errorf("the calls did not return within 30 s (oddities %v):\n%s", c.Oddities, vxGoroutineDump())
			}
			runtime.ReadMemStats(&m1)
			if rk != nil {
				rk.key, rk.err, rk.run = res.rkey, res.rkeyErr, res.stmtRun
			}
			if res.panicked != "" {
				// the session is abandoned; closing it may meet locks the panic left behind
				sessMu.Lock()
				s := sess
				sessMu.Unlock()
				if s != nil {
					closed := make(chan struct{})
					go func() {
						defer func() { recover(); close(closed) }()
						s.Close()
					}()
					select {
					case <-closed:
					case <-time.After(2 * time.Second):
					}
				}
				msg := fmt.Sprintf("panic in the caller's goroutine (oddities %v): %s", c.Oddities, res.panicked)
				if id := vxSchKnownID(res.panicked); id != "" {
					return vx.Known(id, "%s", msg)
				}
				return fmt.Errorf("%s", msg)
			}
			for _, o := range res.out {
				if strings.HasPrefix(o.what, "KeyspaceMetadata") && o.what != "KeyspaceMetadata" {
					continue
				}
				k.Class(fmt.Sprintf("%s:%s", o.what, vxShortErr(o.err)))
			}
			if res.mdErr == nil {
				k.Class("metadata-ok")
			} else {
				k.Class("metadata-error")
			}
			if res.processed {
				k.Class("events-processed")
			} else if c.Wait {
				k.Class("events-waited-for")
			}
			alloc := m1.TotalAlloc - m0.TotalAlloc
			bound := uint64(16<<20) + 64*uint64(atomic.LoadInt64(&sentBytes))
			switch {
			case alloc < 1<<20:
				k.Class("alloc<1MiB")
			case alloc < 4<<20:
				k.Class("alloc<4MiB")
			default:
				k.Class("alloc>=4MiB")
			}
			if alloc > bound {
				k.Class(fmt.Sprintf("alloc>bound (2^%d bytes)", bits.Len64(alloc)-1))
				what := fmt.Sprintf("more than 16 MiB + 64 x the bytes of the schema answers (%d KiB) were allocated; oddities %v", atomic.LoadInt64(&sentBytes)>>10, c.Oddities)
				for _, o := range c.Oddities {
					if o == "pos-huge" {
						return vx.Known("C05-schema-component-index", "%s", what)
					}
					if strings.HasPrefix(o, "ks-rf-odd:") {
						return vx.Known("C05-schema-replication-factor", "%s", what)
					}
				}
				return fmt.Errorf("%s", what)
			}
			if len(c.Oddities) > 0 {
				return nil
			}
			// a consistent description: the generator is sound only if the driver compiles it to what it says
			if res.mdErr != nil {
				return fmt.Errorf("harness or driver: KeyspaceMetadata of a consistent schema failed: %v", res.mdErr)
			}
			md := res.md
			wantTables := len(c.Expect)
			if len(md.Tables) != wantTables {
				return fmt.Errorf("consistent schema: %d tables reported, %d described", len(md.Tables), wantTables)
			}
			for _, e := range c.Expect {
				tm := md.Tables[e.Table]
				if tm == nil {
					return fmt.Errorf("consistent schema: table %s is not reported", e.Table)
				}
				names := func(cols []*ColumnMetadata) []string {
					out := []string{}
					for _, x := range cols {
						if x == nil {
							out = append(out, "<nil>")
						} else {
							out = append(out, x.Name)
						}
					}
					return out
				}
				if got := names(tm.PartitionKey); !reflectDeepEqualStrs(got, e.PK) {
					return fmt.Errorf("consistent schema: table %s partition key %v, described %v", e.Table, got, e.PK)
				}
				if got := names(tm.ClusteringColumns); e.CKOK && !reflectDeepEqualStrs(got, e.CK) {
					return fmt.Errorf("consistent schema: table %s clustering columns %v, described %v", e.Table, got, e.CK)
				}
				for _, col := range e.Cols {
					if cm := tm.Columns[col]; cm == nil || cm.Type == nil {
						return fmt.Errorf("consistent schema: table %s column %s is not reported (or has no type): %+v", e.Table, col, cm)
					}
				}
			}
			for _, n := range c.Types {
				if md.UserTypes[n] == nil {
					return fmt.Errorf("consistent schema: user type %s is not reported", n)
				}
			}
			// with a session keyspace the token-aware policy asks for the metadata while the session is still being
			// initialised, before Session.init derives hasAggregatesAndFunctions from the host's version: that
			// first (cached) answer has no functions and aggregates
			for _, n := range c.Funcs {
				if md.Functions[n] == nil && !c.UseKS {
					return fmt.Errorf("consistent schema: function %s is not reported", n)
				}
			}
			for _, n := range c.Aggs {
				if a := md.Aggregates[n]; !c.UseKS && (a == nil || a.StateFunc.Name == "" || a.FinalFunc.Name == "") {
					return fmt.Errorf("consistent schema: aggregate %s is not reported with its functions: %+v", n, a)
				}
			}
			for _, n := range c.Views {
				if v := md.MaterializedViews[n]; v == nil || v.BaseTable == nil {
					return fmt.Errorf("consistent schema: materialized view %s is not reported with its base table: %+v", n, v)
				}
			}
			if res.stmtRun && res.stmtErr != nil {
				return fmt.Errorf("consistent schema: the prepared statement on %s failed: %v", c.StmtTbl, res.stmtErr)
			}
			return nil
}

// vxSchRK is what Query.GetRoutingKey returned for the case's prepared statement.
type vxSchRK struct {
	key []byte
	err error
	run bool
}

// TestVxC09SchemaRoutingKey (C09): below protocol 4 - and in protocol 4 when PREPARED carries no
// partition-key indexes - the routing key is assembled from the table metadata read from the schema tables:
// the bound column named like the i-th partition key column supplies the i-th component. The schema cases
// of TestVxC05Schema without oddities are reused, with the statement's bound columns in a drawn order.
func TestVxC09SchemaRoutingKey(t *testing.T) {
	vx.Check(t, vx.Prop{ID: "C09", Part: "TestVxC09SchemaRoutingKey",
		Rule: "a consistent generated schema (TestVxC05Schema's generator without oddities: protocol 1..4, system.schema_* or system_schema.* tables, 1-3 partition key columns) and a prepared statement binding the partition key columns (int values 7, 8, ...) in a drawn order, possibly with one more bound column in between, with one key column left out, or with a column bound twice (the first binding counts); the PREPARED response carries no partition-key indexes, so the driver takes the key from the table metadata; oracle: GetRoutingKey() = the components in partition-key order (raw for one, len16|bytes|0 each otherwise), or no key when a key column is not bound; non-trivial = >= 2 key columns bound out of key order; distinct by the case",
		Draw: func(t *rapid.T) interface{} {
			var c *vxC05SchCase
			for try := 0; try < 40; try++ {
				c = vxSchDraw(t)
				if len(c.Oddities) == 0 && c.StmtTbl != "ghost" {
					break
				}
				c = nil
			}
			if c == nil {
				return &vxC05SchCase{}
			}
			c.Events, c.Wait = nil, false
			// bound columns: the key columns in a drawn order, sometimes one missing, sometimes an extra one
			var pk []string
			for _, e := range c.Expect {
				if e.Table == c.StmtTbl {
					pk = e.PK
				}
			}
			binds := append([]string{}, pk...)
			if len(binds) > 1 && rapid.IntRange(0, 1).Draw(t, "permute") == 0 {
				binds = rapid.Permutation(binds).Draw(t, "order")
			}
			if len(binds) > 1 && rapid.IntRange(0, 5).Draw(t, "drop") == 0 {
				binds = binds[1:]
			}
			if rapid.IntRange(0, 2).Draw(t, "extra") == 0 {
				pos := rapid.IntRange(0, len(binds)).Draw(t, "extrapos")
				binds = append(binds[:pos:pos], append([]string{"other"}, binds[pos:]...)...)
			}
			if len(pk) > 0 && rapid.IntRange(0, 3).Draw(t, "casetwin") == 0 {
				// a column whose name differs from a key column's in letter case only (quoted identifiers are case
				// sensitive: "ID" and id are two columns), bound first
				twin := strings.ToUpper(pk[rapid.IntRange(0, len(pk)-1).Draw(t, "twinof")])
				isKey := false
				for _, p := range pk {
					isKey = isKey || p == twin
				}
				if !isKey {
					binds = append([]string{twin}, binds...)
				}
			}
			if len(binds) > 0 && rapid.IntRange(0, 4).Draw(t, "dup") == 0 {
				// the same column bound twice (pk = ? AND pk = ?): the code documents "pick the first"
				binds = append(binds, binds[rapid.IntRange(0, len(binds)-1).Draw(t, "dupwhich")])
			}
			c.Binds = binds
			return c
		},
		New: func() interface{} { return &vxC05SchCase{} },
		Run: func(ci interface{}, k *vstats.Case) error {
			c := ci.(*vxC05SchCase)
			if len(c.Oddities) != 0 || c.StmtTbl == "" || c.StmtTbl == "ghost" || len(c.Binds) == 0 {
				return nil
			}
			var pk []string
			for _, e := range c.Expect {
				if e.Table == c.StmtTbl {
					pk = e.PK
				}
			}
			if len(pk) == 0 {
				return nil
			}
			rk := &vxSchRK{}
			if err := vxSchRunCase(c, k, rk); err != nil {
				return err
			}
			if !rk.run {
				return nil // session creation failed: reported by the C05 part, not a routing matter
			}
			// the value bound at position i is 7+i (int): component = 4 bytes big endian
			var comps [][]byte
			missing, outOfOrder, last := false, false, -1
			for _, name := range pk {
				at := -1
				for i, b := range c.Binds {
					if b == name {
						at = i
						break
					}
				}
				if at < 0 {
					missing = true
					break
				}
				if at < last {
					outOfOrder = true
				}
				last = at
				v := 7 + at
				comps = append(comps, []byte{byte(v >> 24), byte(v >> 16), byte(v >> 8), byte(v)})
			}
			k.Class(fmt.Sprintf("key-columns=%d", len(pk)))
			if missing {
				k.Class("a key column is not bound")
				if rk.err != nil || len(rk.key) != 0 {
					return fmt.Errorf("partition key %v, bound columns %v: GetRoutingKey() = %x, %v; want no key and no error", pk, c.Binds, rk.key, rk.err)
				}
				return nil
			}
			if outOfOrder {
				k.NonTrivial()
			}
			if rk.err != nil {
				return fmt.Errorf("partition key %v, bound columns %v: GetRoutingKey failed: %v", pk, c.Binds, rk.err)
			}
			if want := cqlspec.RoutingKey(comps); !bytes.Equal(rk.key, want) {
				return fmt.Errorf("partition key %v, bound columns %v (values 7, 8, ...): GetRoutingKey() = %x, want %x", pk, c.Binds, rk.key, want)
			}
			return nil
		}})
}
