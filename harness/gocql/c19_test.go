//go:build verif && go1.21

// C19 - UUIDs parse, print and carry time faithfully; generated time-UUIDs are unique.
// Public API only: ParseUUID, UUID.String, (Un)MarshalJSON/Text, UUIDFromTime, TimeUUIDWith,
// MinTimeUUID, MaxTimeUUID, RandomUUID, TimeUUID, UUID accessors.
package gocql

import (
	"encoding/hex"
	"encoding/json"
	"fmt"
	"regexp"
	"strings"
	"sync"
	"testing"
	"time"

	"pgregory.net/rapid"
	"verif.local/cqlspec"
	"verif.local/vstats"
	"verif.local/vx"
)

type vxC19RT struct {
	U    string `json:"u"`    // 32 hex digits
	Form int    `json:"form"` // 0 canonical, 1 no hyphens, 2 upper case, 3 upper no hyphens
}

var vxCanonUUID = regexp.MustCompile(`^[0-9a-f]{8}-[0-9a-f]{4}-[0-9a-f]{4}-[0-9a-f]{4}-[0-9a-f]{12}$`)

func vxDrawUUIDBytes(t *rapid.T, label string) []byte {
	b := make([]byte, 16)
	mode := rapid.IntRange(0, 3).Draw(t, label+"_mode")
	for i := range b {
		switch mode {
		case 0:
			b[i] = rapid.Byte().Draw(t, label)
		case 1:
			b[i] = rapid.SampledFrom([]byte{0x00, 0xff, 0x7f, 0x80, 0x0f, 0xf0, 0xa5}).Draw(t, label)
		case 2:
			b[i] = byte(rapid.IntRange(0xa0, 0xff).Draw(t, label))
		default:
			b[i] = byte(i*17) ^ rapid.Byte().Draw(t, label)
		}
	}
	return b
}

func vxC19Not(u UUID) UUID {
	for i := range u {
		u[i] = ^u[i]
	}
	return u
}

func TestVxC19RoundTrip(t *testing.T) {
	vx.Check(t, vx.Prop{
		ID: "C19", Part: "TestVxC19RoundTrip",
		Rule: "16 drawn bytes (uniform / boundary bytes / high nibbles) x textual form; parse, JSON and text round trips into fresh destinations and into destinations that already hold another UUID; non-trivial = the UUID has at least 8 distinct byte values (so a swapped or shifted nibble shows); distinct by (bytes, form)",
		Draw: func(t *rapid.T) interface{} {
			return &vxC19RT{U: hex.EncodeToString(vxDrawUUIDBytes(t, "b")), Form: rapid.IntRange(0, 3).Draw(t, "form")}
		},
		New: func() interface{} { return &vxC19RT{} },
		Run: func(ci interface{}, k *vstats.Case) error {
			c := ci.(*vxC19RT)
			raw, err := hex.DecodeString(c.U)
			if err != nil || len(raw) != 16 {
				return nil
			}
			var u UUID
			copy(u[:], raw)
			seen := map[byte]bool{}
			for _, x := range raw {
				seen[x] = true
			}
			if len(seen) >= 8 {
				k.NonTrivial()
			}
			k.Class(fmt.Sprintf("form=%d", c.Form))
			s := u.String()
			if !vxCanonUUID.MatchString(s) {
				return fmt.Errorf("String() = %q is not the canonical 8-4-4-4-12 lower-case form", s)
			}
			if strings.Replace(s, "-", "", -1) != c.U {
				return fmt.Errorf("String() = %q does not spell the bytes %s", s, c.U)
			}
			in := s
			switch c.Form {
			case 1:
				in = c.U
			case 2:
				in = strings.ToUpper(s)
			case 3:
				in = strings.ToUpper(c.U)
			}
			p, err := ParseUUID(in)
			if err != nil {
				return fmt.Errorf("ParseUUID(%q) rejected a valid form: %v", in, err)
			}
			if p != u {
				return fmt.Errorf("ParseUUID(%q) = %x, want %x", in, p[:], u[:])
			}
			if b2, err := UUIDFromBytes(u.Bytes()); err != nil || b2 != u {
				return fmt.Errorf("UUIDFromBytes(Bytes()) = %x, %v", b2[:], err)
			}
			// JSON and Text round trips, direct and through encoding/json
			jb, err := u.MarshalJSON()
			if err != nil {
				return fmt.Errorf("MarshalJSON: %v", err)
			}
			var uj UUID
			if err := uj.UnmarshalJSON(jb); err != nil || uj != u {
				return fmt.Errorf("UnmarshalJSON(MarshalJSON) = %x, %v; want %x", uj[:], err, u[:])
			}
			type wrap struct {
				A UUID
				M map[UUID]int
			}
			wb, err := json.Marshal(wrap{A: u, M: map[UUID]int{u: 1}})
			if err != nil {
				return fmt.Errorf("json.Marshal: %v", err)
			}
			var w wrap
			if err := json.Unmarshal(wb, &w); err != nil || w.A != u || w.M[u] != 1 {
				return fmt.Errorf("encoding/json round trip of %s: got %+v, %v", s, w, err)
			}
			tb, err := u.MarshalText()
			if err != nil {
				return fmt.Errorf("MarshalText: %v", err)
			}
			var ut UUID
			if err := ut.UnmarshalText(tb); err != nil || ut != u {
				return fmt.Errorf("UnmarshalText(MarshalText) = %x, %v", ut[:], err)
			}
			// destinations that hold another UUID already (a reused variable, a json.Decoder loop): all
			// bits set, and the bitwise complement of the value
			for _, old := range []UUID{{0xff, 0xff, 0xff, 0xff, 0xff, 0xff, 0xff, 0xff, 0xff, 0xff, 0xff, 0xff, 0xff, 0xff, 0xff, 0xff}, vxC19Not(u)} {
				d := old
				if err := d.UnmarshalJSON(jb); err != nil || d != u {
					return fmt.Errorf("UnmarshalJSON(%s) into a UUID holding %x = %x, %v; want %x", jb, old[:], d[:], err, u[:])
				}
				d = old
				if err := d.UnmarshalText(tb); err != nil || d != u {
					return fmt.Errorf("UnmarshalText(%s) into a UUID holding %x = %x, %v; want %x", tb, old[:], d[:], err, u[:])
				}
				w2 := wrap{A: old}
				if err := json.Unmarshal(wb, &w2); err != nil || w2.A != u {
					return fmt.Errorf("encoding/json into a struct whose UUID field holds %x: got %x, %v; want %x", old[:], w2.A[:], err, u[:])
				}
			}
			return nil
		},
	})
}

type vxC19Str struct {
	S     string `json:"s"`
	Edits int    `json:"edits"`
}

func vxDrawEdit(t *rapid.T, s string) string {
	r := []rune(s)
	alphabet := []rune("0123456789abcdefABCDEFgG-- {}xz:_١１é\x00")
	pos := 0
	if len(r) > 0 {
		pos = rapid.IntRange(0, len(r)).Draw(t, "pos")
	}
	switch rapid.IntRange(0, 3).Draw(t, "edit") {
	case 0: // insert
		c := vxDrawC19Char(t, alphabet, "ins")
		r = append(r[:pos:pos], append([]rune{c}, r[pos:]...)...)
	case 1: // delete
		if len(r) > 0 {
			if pos == len(r) {
				pos--
			}
			r = append(r[:pos:pos], r[pos+1:]...)
		}
	case 2: // replace
		if len(r) > 0 {
			if pos == len(r) {
				pos--
			}
			r[pos] = vxDrawC19Char(t, alphabet, "rep")
		}
	default: // move a hyphen / swap neighbours
		if len(r) > 1 {
			if pos >= len(r)-1 {
				pos = len(r) - 2
			}
			r[pos], r[pos+1] = r[pos+1], r[pos]
		}
	}
	return string(r)
}

// vxDrawC19Char: a character from the fixed alphabet, any ASCII byte (control characters included), or a
// valid character with one bit flipped (what a case fold, a mask or an off-by-one range test lets through).
func vxDrawC19Char(t *rapid.T, alphabet []rune, label string) rune {
	switch rapid.IntRange(0, 2).Draw(t, label+"_kind") {
	case 0:
		return rapid.SampledFrom(alphabet).Draw(t, label)
	case 1:
		return rune(rapid.IntRange(0, 127).Draw(t, label+"_ascii"))
	default:
		valid := "0123456789abcdefABCDEF-"
		c := valid[rapid.IntRange(0, len(valid)-1).Draw(t, label+"_base")]
		return rune(c ^ (1 << uint(rapid.IntRange(0, 6).Draw(t, label+"_bit"))))
	}
}

func TestVxC19Reject(t *testing.T) {
	vx.Check(t, vx.Prop{
		ID: "C19", Part: "TestVxC19Reject",
		Rule: "strings = valid forms with 0..3 edits (insert/delete/replace/swap; the new character is hex, non-hex, hyphen, a non-ASCII digit, any ASCII byte incl. control characters, or a valid character with one bit flipped) or random; oracle one-directional: accepted => exactly 32 hex digits besides hyphens and value = those digits; non-trivial = 1..3 edits from a valid form",
		Draw: func(t *rapid.T) interface{} {
			if rapid.IntRange(0, 9).Draw(t, "random") == 0 {
				return &vxC19Str{S: rapid.String().Draw(t, "s"), Edits: -1}
			}
			b := vxDrawUUIDBytes(t, "b")
			var u UUID
			copy(u[:], b)
			s := u.String()
			switch rapid.IntRange(0, 3).Draw(t, "form") {
			case 1:
				s = hex.EncodeToString(b)
			case 2:
				s = strings.ToUpper(s)
			case 3:
				s = "{" + s + "}"
			}
			n := rapid.IntRange(0, 3).Draw(t, "edits")
			for i := 0; i < n; i++ {
				s = vxDrawEdit(t, s)
			}
			return &vxC19Str{S: s, Edits: n}
		},
		New: func() interface{} { return &vxC19Str{} },
		Run: func(ci interface{}, k *vstats.Case) error {
			c := ci.(*vxC19Str)
			if c.Edits > 0 {
				k.NonTrivial()
			}
			u, err := ParseUUID(c.S)
			hexd := make([]byte, 0, 32)
			ok := true
			for _, r := range c.S {
				switch {
				case r == '-':
				case r >= '0' && r <= '9', r >= 'a' && r <= 'f', r >= 'A' && r <= 'F':
					hexd = append(hexd, byte(r))
				default:
					ok = false
				}
			}
			valid := ok && len(hexd) == 32
			if err != nil {
				k.Class("rejected")
				if u != (UUID{}) {
					return fmt.Errorf("ParseUUID(%q) returned an error and a non-zero UUID %x", c.S, u[:])
				}
				return nil
			}
			k.Class("accepted")
			if !valid {
				return fmt.Errorf("ParseUUID(%q) accepted a string that is not 32 hex digits plus hyphens (value %x)", c.S, u[:])
			}
			want, _ := hex.DecodeString(strings.ToLower(string(hexd)))
			if hex.EncodeToString(u[:]) != hex.EncodeToString(want) {
				return fmt.Errorf("ParseUUID(%q) = %x, digits say %x", c.S, u[:], want)
			}
			// JSON path must agree with ParseUUID on acceptance of quoted strings
			var uj UUID
			if e := uj.UnmarshalJSON([]byte(`"` + c.S + `"`)); e == nil && uj != u {
				return fmt.Errorf("UnmarshalJSON(%q) = %x, ParseUUID = %x", c.S, uj[:], u[:])
			}
			return nil
		},
	})
}

type vxC19Time struct {
	Ts      int64  `json:"ts"`       // 100ns ticks since 1582-10-15
	ExtraNs int    `json:"extra_ns"` // 0..99 sub-tick nanoseconds
	Clock   uint32 `json:"clock"`
	Node    string `json:"node"` // 12 hex digits
	ZoneSec int    `json:"zone_sec"`
}

var vxGregorian = time.Date(1582, time.October, 15, 0, 0, 0, 0, time.UTC).Unix()

func vxTickTime(ts int64, extra int) time.Time {
	return time.Unix(vxGregorian+ts/1e7, (ts%1e7)*100+int64(extra)).UTC()
}

func TestVxC19Time(t *testing.T) {
	vx.Check(t, vx.Prop{
		ID: "C19", Part: "TestVxC19Time",
		Rule: "timestamp = drawn bit length 0..60 then uniform below it (so each of time_low/mid/hi carries the top bits equally often), sub-tick ns 0..99, clock 0..2^32-1, 6 node bytes, a time zone; non-trivial = timestamp >= 2^48 (time_hi in use) or clock >= 2^14; distinct by all fields",
		Draw: func(t *rapid.T) interface{} {
			bits := rapid.IntRange(0, 60).Draw(t, "bits")
			var ts int64
			if bits > 0 {
				// top bit forced so that the magnitude really is `bits` wide
				ts = int64(rapid.Uint64().Draw(t, "ts")&((uint64(1)<<uint(bits))-1)) | int64(1)<<uint(bits-1)
			}
			node := make([]byte, 6)
			for i := range node {
				node[i] = rapid.SampledFrom([]byte{0, 0x7f, 0x80, 0xff, 0x01, 0x55}).Draw(t, "node")
				if rapid.Bool().Draw(t, "rnd") {
					node[i] = rapid.Byte().Draw(t, "nb")
				}
			}
			return &vxC19Time{
				Ts: ts, ExtraNs: rapid.IntRange(0, 99).Draw(t, "extra"),
				Clock:   rapid.OneOf(rapid.Uint32(), rapid.Uint32Range(0, 0x3fff), rapid.SampledFrom([]uint32{0, 0x3fff, 0x4000, 0x7f7f, 0x8080, 0xffff, 0xffffffff})).Draw(t, "clock"),
				Node:    hex.EncodeToString(node),
				ZoneSec: rapid.SampledFrom([]int{0, 3600, -5 * 3600, 12*3600 + 45*60, -11 * 3600}).Draw(t, "zone"),
			}
		},
		New: func() interface{} { return &vxC19Time{} },
		Run: func(ci interface{}, k *vstats.Case) error {
			c := ci.(*vxC19Time)
			if c.Ts < 0 || c.Ts >= 1<<60 || c.ExtraNs < 0 || c.ExtraNs > 99 {
				return nil
			}
			node, err := hex.DecodeString(c.Node)
			if err != nil || len(node) != 6 {
				return nil
			}
			if c.Ts >= 1<<48 || c.Clock >= 1<<14 {
				k.NonTrivial()
			}
			switch {
			case c.Ts < 1<<32:
				k.Class("ts<2^32")
			case c.Ts < 1<<48:
				k.Class("ts<2^48")
			default:
				k.Class("ts>=2^48")
			}
			tm := vxTickTime(c.Ts, c.ExtraNs).In(time.FixedZone("z", c.ZoneSec))
			want := vxTickTime(c.Ts, 0)

			u := UUIDFromTime(tm)
			if u.Version() != 1 || u[6]>>4 != 1 {
				return fmt.Errorf("UUIDFromTime(%v): version %d (byte6 %02x), want 1", tm, u.Version(), u[6])
			}
			if u.Variant() != VariantIETF || u[8]&0xc0 != 0x80 {
				return fmt.Errorf("UUIDFromTime(%v): variant %d (byte8 %02x), want RFC 4122", tm, u.Variant(), u[8])
			}
			if got := u.Time(); !got.Equal(want) {
				return fmt.Errorf("UUIDFromTime(%v).Time() = %v, want %v", tm, got, want)
			}
			if got := u.Timestamp(); got != c.Ts {
				return fmt.Errorf("UUIDFromTime(%v).Timestamp() = %d, want %d", tm, got, c.Ts)
			}
			// RFC 4122 field layout, independently: time_low | time_mid | ver+time_hi
			lay := uint64(u[0])<<24 | uint64(u[1])<<16 | uint64(u[2])<<8 | uint64(u[3]) |
				(uint64(u[4])<<8|uint64(u[5]))<<32 | (uint64(u[6]&0x0f)<<8|uint64(u[7]))<<48
			if int64(lay) != c.Ts {
				return fmt.Errorf("UUIDFromTime(%v) = %s: RFC 4122 timestamp fields hold %d, want %d", tm, u, lay, c.Ts)
			}

			w := TimeUUIDWith(c.Ts, c.Clock, node)
			if w.Version() != 1 || w.Variant() != VariantIETF {
				return fmt.Errorf("TimeUUIDWith: version %d variant %d", w.Version(), w.Variant())
			}
			if w.Timestamp() != c.Ts || !w.Time().Equal(want) {
				return fmt.Errorf("TimeUUIDWith(%d).Timestamp() = %d, Time() = %v", c.Ts, w.Timestamp(), w.Time())
			}
			if w.Clock() != c.Clock&0x3fff {
				return fmt.Errorf("TimeUUIDWith(clock=%#x).Clock() = %#x, want %#x", c.Clock, w.Clock(), c.Clock&0x3fff)
			}
			if hex.EncodeToString(w.Node()) != c.Node {
				return fmt.Errorf("TimeUUIDWith(node=%s).Node() = %x", c.Node, w.Node())
			}
			if p, err := ParseUUID(w.String()); err != nil || p != w {
				return fmt.Errorf("time UUID %s does not re-parse: %x %v", w, p[:], err)
			}

			// Min/Max bound every RFC 4122 version-1 UUID of that instant under Cassandra's order
			mn, mx := MinTimeUUID(tm), MaxTimeUUID(tm)
			for _, b := range []UUID{mn, mx} {
				if b.Version() != 1 || b.Variant() != VariantIETF || b.Timestamp() != c.Ts {
					return fmt.Errorf("Min/MaxTimeUUID(%v) = %s: version %d variant %d timestamp %d", tm, b, b.Version(), b.Variant(), b.Timestamp())
				}
			}
			for _, x := range []UUID{w, u} {
				if cqlspec.CompareTimeUUID(mn, x) > 0 {
					return fmt.Errorf("MinTimeUUID(%v) = %s sorts after %s of the same instant", tm, mn, x)
				}
				if cqlspec.CompareTimeUUID(mx, x) < 0 {
					return fmt.Errorf("MaxTimeUUID(%v) = %s sorts before %s of the same instant", tm, mx, x)
				}
			}
			if c.Ts+1 < 1<<60 {
				nx := MinTimeUUID(vxTickTime(c.Ts+1, 0))
				if cqlspec.CompareTimeUUID(mx, nx) >= 0 {
					return fmt.Errorf("MaxTimeUUID(t) = %s does not sort before MinTimeUUID(t+100ns) = %s", mx, nx)
				}
			}
			if c.Ts > 0 {
				pv := MaxTimeUUID(vxTickTime(c.Ts-1, 99))
				if cqlspec.CompareTimeUUID(pv, mn) >= 0 {
					return fmt.Errorf("MaxTimeUUID(t-100ns) = %s does not sort before MinTimeUUID(t) = %s", pv, mn)
				}
			}
			r, err := RandomUUID()
			if err != nil {
				return fmt.Errorf("RandomUUID: %v", err)
			}
			if r.Version() != 4 || r[6]>>4 != 4 || r.Variant() != VariantIETF || r[8]&0xc0 != 0x80 {
				return fmt.Errorf("RandomUUID() = %s: version %d variant %d", r, r.Version(), r.Variant())
			}
			if r.Time() != (time.Time{}) || r.Node() != nil {
				return fmt.Errorf("RandomUUID() = %s reports time-based fields", r)
			}
			return nil
		},
	})
}

type vxC19Conc struct {
	G int `json:"g"`
	K int `json:"k"`
}

func TestVxC19Concurrent(t *testing.T) {
	vx.Check(t, vx.Prop{
		ID: "C19", Part: "TestVxC19Concurrent",
		Rule: "G goroutines (1..16) each generating K (1..3000) TimeUUID() values released together; oracle: all G*K pairwise distinct, each version 1 / RFC 4122; non-trivial = G >= 2; distinct by (G,K)",
		Draw: func(t *rapid.T) interface{} {
			return &vxC19Conc{G: rapid.IntRange(1, 16).Draw(t, "g"), K: rapid.IntRange(1, 3000).Draw(t, "k")}
		},
		New: func() interface{} { return &vxC19Conc{} },
		Run: func(ci interface{}, k *vstats.Case) error {
			c := ci.(*vxC19Conc)
			if c.G < 1 || c.K < 1 || c.G > 64 || c.K > 100000 {
				return nil
			}
			if c.G >= 2 {
				k.NonTrivial()
			}
			out := make([][]UUID, c.G)
			var wg sync.WaitGroup
			start := make(chan struct{})
			for g := 0; g < c.G; g++ {
				wg.Add(1)
				go func(g int) {
					defer wg.Done()
					r := make([]UUID, c.K)
					<-start
					for i := range r {
						r[i] = TimeUUID()
					}
					out[g] = r
				}(g)
			}
			close(start)
			wg.Wait()
			seen := make(map[UUID]int, c.G*c.K)
			for g, r := range out {
				for i, u := range r {
					if u.Version() != 1 || u.Variant() != VariantIETF {
						return fmt.Errorf("TimeUUID() = %s: version %d variant %d", u, u.Version(), u.Variant())
					}
					if prev, dup := seen[u]; dup {
						return fmt.Errorf("TimeUUID() produced %s twice (goroutine %d item %d and goroutine %d)", u, g, i, prev)
					}
					seen[u] = g
				}
			}
			return nil
		},
	})
}
