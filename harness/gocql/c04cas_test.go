//go:build verif && go1.21

// The conditional-statement helpers: Query.ScanCAS / MapScanCAS and Session.ExecuteBatchCAS /
// MapExecuteBatchCAS read the first row of the answer, whose first column "[applied]" says whether the
// statement was applied and whose other columns are the existing values.
//
// TestVxC04CAS (C04): a well-formed conditional answer must be reported exactly (applied flag and every
// other cell of the first row, through each of the four helpers).
// TestVxC05CAS (C05): whatever arrives instead - no "[applied]" column, one of another type, a null flag,
// zero rows, a mutated or truncated body, another kind of response - the helpers return a value or an
// error; they never panic in the caller's goroutine.
package gocql

import (
	"fmt"
	"reflect"
	"sync"
	"testing"
	"time"

	"pgregory.net/rapid"
	"verif.local/cqlspec"
	"verif.local/vnode"
	"verif.local/vstats"
	"verif.local/vx"
)

type vxCASCase struct {
	Proto   int               `json:"proto"`
	Helper  int               `json:"helper"` // 0 ScanCAS 1 MapScanCAS 2 ExecuteBatchCAS 3 MapExecuteBatchCAS
	Resp    *cqlspec.Response `json:"resp"`   // ROWS for the C04 part; anything for the C05 part
	Mut     vxMut             `json:"mut"`
	Applied string            `json:"applied"` // first column: ok | absent | text | null | second
	Flags   []bool            `json:"flags"`   // the [applied] cell of each row
	Forever bool              `json:"forever,omitempty"` // batch helpers answered with UNPREPARED: the node says so every time (the batch sent nothing prepared, so nothing can be prepared again)
}

// vxCASShape puts the [applied] column the case describes in front of the generated columns.
func vxCASShape(c *vxCASCase) *cqlspec.Response {
	r := *c.Resp
	if r.Kind != "ROWS" || r.Meta == nil {
		return &r
	}
	m := *r.Meta
	m.HasMore, m.StateHex, m.NoMetadata = false, "", false
	// the helpers take the remaining columns by name / position: keep them scalar and uniquely named
	var cols []cqlspec.Column
	var keep []int
	for i, col := range m.Columns {
		if col.Type.Kind == cqlspec.Tuple || col.Name == "[applied]" {
			continue
		}
		col.Name = fmt.Sprintf("c%d", i)
		cols = append(cols, col)
		keep = append(keep, i)
	}
	var rows [][]cqlspec.Value
	for _, row := range r.Rows {
		var nr []cqlspec.Value
		for _, i := range keep {
			nr = append(nr, row[i])
		}
		rows = append(rows, nr)
	}
	ac := cqlspec.Column{Keyspace: "ks1", Table: "t", Name: "[applied]", Type: cqlspec.Scalar(cqlspec.Boolean)}
	if len(cols) > 0 {
		ac.Keyspace, ac.Table = cols[0].Keyspace, cols[0].Table
	}
	cell := func(i int) cqlspec.Value {
		f := i < len(c.Flags) && c.Flags[i]
		switch c.Applied {
		case "text":
			return cqlspec.BytesValue([]byte("true"))
		case "null":
			return cqlspec.NullValue()
		}
		return cqlspec.Value{Bool: f}
	}
	if c.Applied == "text" {
		ac.Type = cqlspec.Scalar(cqlspec.Varchar)
	}
	switch c.Applied {
	case "absent":
	case "second":
		if len(cols) > 0 {
			cols = append([]cqlspec.Column{cols[0], ac}, cols[1:]...)
			for i := range rows {
				rows[i] = append([]cqlspec.Value{rows[i][0], cell(i)}, rows[i][1:]...)
			}
		}
	default:
		cols = append([]cqlspec.Column{ac}, cols...)
		for i := range rows {
			rows[i] = append([]cqlspec.Value{cell(i)}, rows[i]...)
		}
	}
	m.Columns = cols
	r.Meta = &m
	r.Rows = rows
	return &r
}

type vxCASOut struct {
	applied bool
	err     error
	dests   []vxDest
	m       map[string]interface{}
	iter    *Iter
}

func vxCASRun(c *vxCASCase, r *cqlspec.Response, k *vstats.Case) (*vxCASOut, error) {
	cl := vnode.NewCluster(vxSpecs(1, 1))
	node := cl.Nodes()[0]
	var unprepMu sync.Mutex
	unprepared := 0
	node.Handler = func(rc *vnode.ReqCtx) {
		switch rc.Req.Kind {
		case "PREPARE":
			rc.Reply(&cqlspec.Response{Kind: "PREPARED", PreparedIDHex: "0a0b", Meta: &cqlspec.Metadata{Columns: []cqlspec.Column{}}, ResultMeta: &cqlspec.Metadata{Columns: []cqlspec.Column{}}})
		case "EXECUTE", "QUERY", "BATCH":
			out := *r
			if out.Kind == "ERROR" && out.Code == cqlspec.ErrUnprepared {
				// UNPREPARED makes the driver prepare and execute again (C14's subject): a node that says so
				// for ever keeps the driver busy for ever by design; say it once, then answer normally
				unprepMu.Lock()
				n := unprepared
				unprepared++
				unprepMu.Unlock()
				if n > 0 && !(c.Forever && c.Helper >= 2) {
					rc.Reply(vxVoid())
					return
				}
			}
			out.Version = rc.Req.Header.Version
			out.Stream = rc.Req.Header.Stream
			out.Compress = false
			if out.Version < 4 {
				out.Warnings, out.HasPayload, out.Payload = nil, false, nil
			}
			body, fields := out.Body()
			body = vxApplyMut(body, fields, c.Mut)
			b, _ := out.FrameWithBody(body, nil)
			rc.Conn.SendRaw(b)
		default:
			rc.Reply(vxVoid())
		}
	}
	s, err := vxClusterConfig(cl, c.Proto, func(cfg *ClusterConfig) {
		cfg.Timeout = 700 * time.Millisecond
	}).CreateSession()
	if err != nil {
		return nil, fmt.Errorf("harness: CreateSession: %v", err)
	}
	defer s.Close()
	out := &vxCASOut{}
	if r.Kind == "ROWS" && r.Meta != nil {
		// destinations for the columns after the first (the helpers put the flag in front themselves)
		all := vxRowHolders(r.Meta)
		if len(all) > 0 {
			out.dests = all[1:]
		}
	}
	args := make([]interface{}, len(out.dests))
	for i, d := range out.dests {
		args[i] = d.ptr.Interface()
	}
	done := make(chan interface{}, 1)
	go func() {
		defer func() {
			if p := recover(); p != nil {
				done <- p
			}
		}()
		switch c.Helper {
		case 0:
			out.applied, out.err = s.Query("UPDATE t SET v = 1 WHERE k = 1 IF v = 0").ScanCAS(args...)
		case 1:
			out.m = map[string]interface{}{}
			out.applied, out.err = s.Query("UPDATE t SET v = 1 WHERE k = 1 IF v = 0").MapScanCAS(out.m)
		case 2:
			b := s.NewBatch(LoggedBatch)
			b.Query("UPDATE t SET v = 1 WHERE k = 1 IF v = 0")
			out.applied, out.iter, out.err = s.ExecuteBatchCAS(b, args...)
		default:
			b := s.NewBatch(LoggedBatch)
			b.Query("UPDATE t SET v = 1 WHERE k = 1 IF v = 0")
			out.m = map[string]interface{}{}
			out.applied, out.iter, out.err = s.MapExecuteBatchCAS(b, out.m)
		}
		done <- nil
	}()
	select {
	case p := <-done:
		if p != nil {
			return nil, fmt.Errorf("%s panicked in the caller's goroutine: %v", []string{"Query.ScanCAS", "Query.MapScanCAS", "Session.ExecuteBatchCAS", "Session.MapExecuteBatchCAS"}[c.Helper], p)
		}
	case <-time.After(20 * time.Second):
		return nil, fmt.Errorf("the helper did not return within 20 s:\n%s", vxGoroutineDump())
	}
	if out.iter != nil {
		out.iter.Close()
	}
	return out, nil
}

func vxDrawCAS(t *rapid.T, odd bool) *vxCASCase {
	c := &vxCASCase{Proto: rapid.IntRange(1, 5).Draw(t, "proto"), Helper: rapid.IntRange(0, 3).Draw(t, "helper"), Applied: "ok", Mut: vxMut{Kind: "none"}}
	if c.Proto < 2 && c.Helper >= 2 {
		c.Proto = 2
	}
	want := "ROWS"
	if odd && rapid.IntRange(0, 4).Draw(t, "otherkind") == 0 {
		want = ""
	}
	for try := 0; try < 300; try++ {
		r := vxDrawResponse(t)
		if r.Kind == "EVENT" || (want != "" && r.Kind != want) {
			continue
		}
		vxPlainColumns(r)
		c.Resp = r
		break
	}
	if c.Resp == nil {
		c.Resp = vnode.RowsResponse([]cqlspec.Column{{Keyspace: "ks1", Table: "t", Name: "v", Type: cqlspec.Scalar(cqlspec.Int)}}, [][]cqlspec.Value{{cqlspec.NullValue()}})
	}
	// the generated values are encodable in the response's own version: the session uses that one
	if c.Resp.Version >= 1 && c.Resp.Version <= 5 {
		c.Proto = c.Resp.Version
	}
	if c.Proto < 2 && c.Helper >= 2 {
		c.Helper -= 2 // no batches in protocol 1
	}
	c.Resp.Version = c.Proto
	n := len(c.Resp.Rows)
	if !odd && n == 0 && c.Resp.Kind == "ROWS" {
		// a conditional statement is answered with exactly one row (more for a batch); add one of nulls
		row := make([]cqlspec.Value, len(c.Resp.Meta.Columns))
		for i := range row {
			row[i] = cqlspec.NullValue()
		}
		c.Resp.Rows = [][]cqlspec.Value{row}
		n = 1
	}
	for i := 0; i < n; i++ {
		c.Flags = append(c.Flags, rapid.Bool().Draw(t, "flag"))
	}
	if odd {
		c.Forever = rapid.Bool().Draw(t, "forever")
		c.Applied = rapid.SampledFrom([]string{"ok", "absent", "absent", "text", "null", "second"}).Draw(t, "applied")
		if rapid.IntRange(0, 2).Draw(t, "mutate") == 0 {
			c.Mut = vxDrawMut(t, true)
		}
	}
	return c
}

func TestVxC04CAS(t *testing.T) {
	vx.Check(t, vx.Prop{ID: "C04", Part: "TestVxC04CAS",
		Rule: "a real session (protocol 1..5) sends a conditional statement through Query.ScanCAS, Query.MapScanCAS, Session.ExecuteBatchCAS or Session.MapExecuteBatchCAS; the node answers with generated rows (C04's generator: 0..6 scalar or collection columns, 1..40 rows, null cells, header flags) behind a leading boolean column [applied]; oracle: the applied flag and every other cell of the first row as the helper reports them equal the frame; non-trivial = at least one column besides [applied]; distinct by the case",
		Draw: func(t *rapid.T) interface{} { return vxDrawCAS(t, false) },
		New:  func() interface{} { return &vxCASCase{} },
		Run: func(ci interface{}, k *vstats.Case) error {
			c := ci.(*vxCASCase)
			if c.Resp == nil || c.Resp.Kind != "ROWS" || c.Resp.Meta == nil || c.Proto < 1 || c.Proto > 5 || len(c.Resp.Rows) == 0 {
				return nil
			}
			c.Applied, c.Mut = "ok", vxMut{Kind: "none"}
			r := vxCASShape(c)
			r.Version = c.Proto
			k.Class(fmt.Sprintf("helper=%d", c.Helper))
			if len(r.Meta.Columns) > 1 {
				k.NonTrivial()
			}
			out, err := vxCASRun(c, r, k)
			if err != nil {
				return err
			}
			if out.err != nil {
				return fmt.Errorf("helper %d returned %v for a well-formed conditional answer (%d columns, %d rows)", c.Helper, out.err, len(r.Meta.Columns), len(r.Rows))
			}
			want := len(c.Flags) > 0 && c.Flags[0]
			if out.applied != want {
				return fmt.Errorf("helper %d: applied = %v, the first row's [applied] cell is %v", c.Helper, out.applied, want)
			}
			if c.Helper == 0 || c.Helper == 2 {
				for _, d := range out.dests {
					if err := vxCompare(d.ty, vxCellFor(d, r.Rows[0]), d.ptr.Elem(), fmt.Sprintf("row 0 col %d", d.col)); err != nil {
						return fmt.Errorf("helper %d: %v", c.Helper, err)
					}
				}
				return nil
			}
			if _, still := out.m["[applied]"]; still {
				return fmt.Errorf("helper %d left the [applied] key in the caller's map", c.Helper)
			}
			for ci, col := range r.Meta.Columns[1:] {
				v, ok := out.m[col.Name]
				if !ok {
					return fmt.Errorf("helper %d: key %q missing from the map", c.Helper, col.Name)
				}
				cell := r.Rows[0][ci+1]
				if rv := reflect.ValueOf(v); cell.Null && rv.IsValid() && rv.Kind() == reflect.Slice && rv.Len() == 0 {
					continue // rowMap copies slices: null collection/blob shown as empty (accepted, see DESIGN 9.3)
				}
				if err := vxCompare(col.Type, cell, reflect.ValueOf(&v).Elem(), "row 0 "+col.Name); err != nil {
					return fmt.Errorf("helper %d: %v", c.Helper, err)
				}
			}
			if len(out.m) != len(r.Meta.Columns)-1 {
				return fmt.Errorf("helper %d: map has %d keys, want %d", c.Helper, len(out.m), len(r.Meta.Columns)-1)
			}
			return nil
		}})
}

func TestVxC05CAS(t *testing.T) {
	vx.Check(t, vx.Prop{ID: "C05", Part: "TestVxC05CAS",
		Rule: "as TestVxC04CAS, but the answer is not what a conditional statement expects: [applied] absent, of type text, null, or in second place; zero rows; a response of another kind; or a mutated / truncated body (C05's mutations); oracle: the helper returns within the watchdog and does not panic; non-trivial = every case; distinct by the case",
		Draw: func(t *rapid.T) interface{} { return vxDrawCAS(t, true) },
		New:  func() interface{} { return &vxCASCase{} },
		Run: func(ci interface{}, k *vstats.Case) error {
			c := ci.(*vxCASCase)
			if c.Resp == nil || c.Proto < 1 || c.Proto > 5 {
				return nil
			}
			r := vxCASShape(c)
			r.Version = c.Proto
			k.Class(fmt.Sprintf("helper=%d", c.Helper))
			k.Class("kind=" + r.Kind)
			k.Class("applied=" + c.Applied)
			k.Class("mut=" + c.Mut.Kind)
			k.NonTrivial()
			out, err := vxCASRun(c, r, k)
			if err != nil {
				return err
			}
			if out.err != nil {
				k.Class("returned-error")
			} else {
				k.Class("returned-value")
			}
			return nil
		}})
}

// ---------------------------------------------------------------------------------------------
// Conditional statements executed WITHOUT the CAS helpers (Exec, Iter + MapScan, Scan). Cassandra prepares
// them with empty result metadata (the columns of the answer depend on whether the condition held), and, like
// for every rows result, leaves the metadata out of the answer when the EXECUTE asked it to.

type vxCondCase struct {
	Proto    int    `json:"proto"`
	Applied  bool   `json:"applied"`
	Extra    int    `json:"extra"`    // columns of the existing row returned when the condition did not hold
	Consumer string `json:"consumer"` // exec | mapscan | scan
	NoSkip   bool   `json:"no_skip"`  // Query.NoSkipMetadata()
	Twice    bool   `json:"twice"`    // the statement is executed a second time (prepared-statement cache hit)
}

func vxRunCond(c *vxCondCase, k *vstats.Case) error {
	if c.Proto < 1 || c.Proto > 5 || c.Extra < 0 || c.Extra > 3 {
		return nil
	}
	cols := []cqlspec.Column{{Keyspace: "ks1", Table: "t", Name: "[applied]", Type: cqlspec.Scalar(cqlspec.Boolean)}}
	row := []cqlspec.Value{{Bool: c.Applied}}
	if !c.Applied {
		for i := 0; i < c.Extra; i++ {
			cols = append(cols, cqlspec.Column{Keyspace: "ks1", Table: "t", Name: fmt.Sprintf("c%d", i), Type: cqlspec.Scalar(cqlspec.Int)})
			row = append(row, cqlspec.I64Value(int64(100+i)))
		}
	}
	cl := vnode.NewCluster(vxSpecs(1, 1))
	var mu sync.Mutex
	skipped := 0
	cl.Nodes()[0].Handler = func(rc *vnode.ReqCtx) {
		switch rc.Req.Kind {
		case "PREPARE":
			rc.Reply(&cqlspec.Response{Kind: "PREPARED", PreparedIDHex: "0c0d", Meta: &cqlspec.Metadata{Columns: []cqlspec.Column{}},
				ResultMeta: &cqlspec.Metadata{NoMetadata: true, Columns: []cqlspec.Column{}}})
		case "EXECUTE", "QUERY":
			m := &cqlspec.Metadata{Columns: cols}
			if rc.Req.Params != nil && rc.Req.Params.SkipMeta {
				m.NoMetadata = true
				mu.Lock()
				skipped++
				mu.Unlock()
			}
			rc.Reply(&cqlspec.Response{Kind: "ROWS", Meta: m, Rows: [][]cqlspec.Value{row}})
		default:
			rc.Reply(vxVoid())
		}
	}
	s, err := vxClusterConfig(cl, c.Proto, nil).CreateSession()
	if err != nil {
		return fmt.Errorf("harness: CreateSession: %v", err)
	}
	defer s.Close()
	runs := 1
	if c.Twice {
		runs = 2
	}
	for r := 0; r < runs; r++ {
		q := s.Query("UPDATE t SET v = 1 WHERE k = 1 IF v = 0")
		if c.NoSkip {
			q = q.NoSkipMetadata()
		}
		what := fmt.Sprintf("conditional UPDATE (applied=%v, %d columns in the answer, protocol %d, run %d)", c.Applied, len(cols), c.Proto, r)
		switch c.Consumer {
		case "exec":
			if err := q.Exec(); err != nil {
				return fmt.Errorf("%s: Exec reports %v although the node answered with a well-formed rows result", what, err)
			}
		case "mapscan":
			it := q.Iter()
			m := map[string]interface{}{}
			ok := it.MapScan(m)
			if err := it.Close(); err != nil {
				return fmt.Errorf("%s: Iter reports %v although the node answered with a well-formed rows result", what, err)
			}
			if !ok {
				return fmt.Errorf("%s: MapScan found no row, the node sent one", what)
			}
			if a, isb := m["[applied]"].(bool); !isb || a != c.Applied {
				return fmt.Errorf("%s: MapScan gives [applied]=%v (%T), the node sent %v; map %v", what, m["[applied]"], m["[applied]"], c.Applied, m)
			}
			for i := 1; i < len(cols); i++ {
				if v, isi := m[cols[i].Name].(int); !isi || v != 100+i-1 {
					return fmt.Errorf("%s: MapScan gives %s=%v, the node sent %d; map %v", what, cols[i].Name, m[cols[i].Name], 100+i-1, m)
				}
			}
		default:
			it := q.Iter()
			var applied bool
			ints := make([]int, len(cols)-1)
			args := []interface{}{&applied}
			for i := range ints {
				args = append(args, &ints[i])
			}
			ok := it.Scan(args...)
			if err := it.Close(); err != nil {
				return fmt.Errorf("%s: Iter reports %v although the node answered with a well-formed rows result", what, err)
			}
			if !ok {
				return fmt.Errorf("%s: Scan found no row, the node sent one", what)
			}
			if applied != c.Applied {
				return fmt.Errorf("%s: Scan gives [applied]=%v", what, applied)
			}
			for i, v := range ints {
				if v != 100+i {
					return fmt.Errorf("%s: Scan gives %s=%d, the node sent %d", what, cols[i+1].Name, v, 100+i)
				}
			}
		}
	}
	mu.Lock()
	sk := skipped
	mu.Unlock()
	k.NonTrivial()
	k.Class(fmt.Sprintf("conditional via %s, answers without metadata: %d", c.Consumer, sk))
	return nil
}

func TestVxC04Conditional(t *testing.T) {
	vx.Check(t, vx.Prop{
		ID: "C04", Part: "TestVxC04Conditional",
		Rule: "a conditional UPDATE executed without the CAS helpers (Exec, Iter+MapScan, Iter+Scan; once or twice; NoSkipMetadata or not), protocol 1..5; the node behaves like Cassandra: PREPARED carries empty result metadata (flag NO_METADATA, 0 columns), the rows answer has [applied] plus 0..3 columns of the existing row when the condition did not hold, and carries no metadata when the EXECUTE asked to skip it; oracle: no error for a well-formed answer, and the row read equals the row sent; every case is non-trivial; distinct by the case",
		Draw: func(t *rapid.T) interface{} {
			return &vxCondCase{Proto: rapid.IntRange(1, 5).Draw(t, "proto"), Applied: rapid.Bool().Draw(t, "applied"), Extra: rapid.IntRange(0, 3).Draw(t, "extra"),
				Consumer: rapid.SampledFrom([]string{"exec", "mapscan", "scan"}).Draw(t, "consumer"), NoSkip: rapid.Bool().Draw(t, "noskip"), Twice: rapid.Bool().Draw(t, "twice")}
		},
		New: func() interface{} { return &vxCondCase{} },
		Run: func(ci interface{}, k *vstats.Case) error { return vxRunCond(ci.(*vxCondCase), k) },
	})
}
