//go:build verif && go1.21

// Shared value layer for C02 / C12 (and C04, C09): CQL type trees and semantic values
// (lib/cqlspec), drawn by rapid; conversion of a semantic value into one of the Go carrier
// types the Marshal/Unmarshal doc comments list; structural comparison of a Go value that
// Unmarshal produced against the semantic value.
//
// Uses only gocql's public API (TypeInfo implementations, Marshal, Unmarshal, UUID, Duration).
package gocql

import (
	"bytes"
	"encoding/hex"
	"encoding/json"
	"fmt"
	"math"
	"math/big"
	"net"
	"reflect"
	"sort"
	"strconv"
	"time"

	"gopkg.in/inf.v0"
	"pgregory.net/rapid"
	"verif.local/cqlspec"
)

// ---- named carrier types ("named types" of the property) -------------------------------

type (
	VxInt8    int8
	VxInt16   int16
	VxInt32   int32
	VxInt64   int64
	VxInt     int
	VxUint8   uint8
	VxUint16  uint16
	VxUint32  uint32
	VxUint64  uint64
	VxUint    uint
	VxString  string
	VxBytes   []byte
	VxBool    bool
	VxFloat32 float32
	VxFloat64 float64
)

var (
	vxTInt8, vxTInt16, vxTInt32, vxTInt64, vxTInt           = reflect.TypeOf(int8(0)), reflect.TypeOf(int16(0)), reflect.TypeOf(int32(0)), reflect.TypeOf(int64(0)), reflect.TypeOf(int(0))
	vxTUint8, vxTUint16, vxTUint32, vxTUint64, vxTUint      = reflect.TypeOf(uint8(0)), reflect.TypeOf(uint16(0)), reflect.TypeOf(uint32(0)), reflect.TypeOf(uint64(0)), reflect.TypeOf(uint(0))
	vxTString, vxTBytes, vxTBool, vxTFloat32, vxTFloat64   = reflect.TypeOf(""), reflect.TypeOf([]byte(nil)), reflect.TypeOf(false), reflect.TypeOf(float32(0)), reflect.TypeOf(float64(0))
	vxTBigInt, vxTDec, vxTTime, vxTDur, vxTCQLDur          = reflect.TypeOf(big.Int{}), reflect.TypeOf(inf.Dec{}), reflect.TypeOf(time.Time{}), reflect.TypeOf(time.Duration(0)), reflect.TypeOf(Duration{})
	vxTUUID, vxTArr16, vxTIP, vxTIface, vxTEmpty           = reflect.TypeOf(UUID{}), reflect.TypeOf([16]byte{}), reflect.TypeOf(net.IP(nil)), reflect.TypeOf((*interface{})(nil)).Elem(), reflect.TypeOf(struct{}{})
	vxTIfaceSlice, vxTStrIfaceMap                          = reflect.TypeOf([]interface{}(nil)), reflect.TypeOf(map[string]interface{}(nil))
	vxNamedInts                                            = []reflect.Type{reflect.TypeOf(VxInt8(0)), reflect.TypeOf(VxInt16(0)), reflect.TypeOf(VxInt32(0)), reflect.TypeOf(VxInt64(0)), reflect.TypeOf(VxInt(0)), reflect.TypeOf(VxUint8(0)), reflect.TypeOf(VxUint16(0)), reflect.TypeOf(VxUint32(0)), reflect.TypeOf(VxUint64(0)), reflect.TypeOf(VxUint(0))}
	vxPlainInts                                            = []reflect.Type{vxTInt8, vxTInt16, vxTInt32, vxTInt64, vxTInt, vxTUint8, vxTUint16, vxTUint32, vxTUint64, vxTUint}
	vxTNamedString, vxTNamedBytes, vxTNamedBool            = reflect.TypeOf(VxString("")), reflect.TypeOf(VxBytes(nil)), reflect.TypeOf(VxBool(false))
	vxTNamedF32, vxTNamedF64, vxTNamedI64                  = reflect.TypeOf(VxFloat32(0)), reflect.TypeOf(VxFloat64(0)), reflect.TypeOf(VxInt64(0))
	vxZeroTimeMs                                     int64 = time.Time{}.UnixMilli()
)

const vxMsPerDay = 86400000

// ---- choices ------------------------------------------------------------------------------

// vxCh hands out the pre-drawn choices of a case; when they run out it answers 0, so a
// replayed (or shrunk) case is a pure function of the slice.
type vxCh struct {
	c     []int
	i     int
	flags map[string]bool // carrier features that matter for listed findings
}

func (c *vxCh) flag(s string) {
	if c.flags == nil {
		c.flags = map[string]bool{}
	}
	c.flags[s] = true
}

func (c *vxCh) next(n int) int {
	if n <= 1 {
		return 0
	}
	if c.i >= len(c.c) {
		return 0
	}
	v := c.c[c.i] % n
	if v < 0 {
		v = -v
	}
	c.i++
	return v
}

func vxDrawChoices(t *rapid.T, n int) []int {
	return rapid.SliceOfN(rapid.IntRange(0, 999), n, n).Draw(t, "choices")
}

// ---- type trees ---------------------------------------------------------------------------

var vxScalarKinds = []cqlspec.Kind{cqlspec.Ascii, cqlspec.Bigint, cqlspec.Blob, cqlspec.Boolean, cqlspec.Counter,
	cqlspec.Decimal, cqlspec.Double, cqlspec.Float, cqlspec.Int, cqlspec.Text, cqlspec.Timestamp, cqlspec.UUID,
	cqlspec.Varchar, cqlspec.Varint, cqlspec.TimeUUID, cqlspec.Inet, cqlspec.Date, cqlspec.Time, cqlspec.Smallint,
	cqlspec.Tinyint, cqlspec.Duration}

// kinds whose default Go representation is comparable, so that they can be map keys / set-as-map elements
var vxKeyKinds = []cqlspec.Kind{cqlspec.Ascii, cqlspec.Bigint, cqlspec.Boolean, cqlspec.Int, cqlspec.Text, cqlspec.UUID,
	cqlspec.Varchar, cqlspec.TimeUUID, cqlspec.Inet, cqlspec.Time, cqlspec.Smallint, cqlspec.Tinyint, cqlspec.Double, cqlspec.Float, cqlspec.Duration}

func vxDrawType(t *rapid.T, depth int, key bool) *cqlspec.Type {
	if key {
		return cqlspec.Scalar(rapid.SampledFrom(vxKeyKinds).Draw(t, "keykind"))
	}
	if depth <= 0 || rapid.IntRange(0, 9).Draw(t, "leaf") < 4 {
		return cqlspec.Scalar(rapid.SampledFrom(vxScalarKinds).Draw(t, "kind"))
	}
	switch rapid.IntRange(0, 4).Draw(t, "coll") {
	case 0:
		return &cqlspec.Type{Kind: cqlspec.List, Elems: []*cqlspec.Type{vxDrawType(t, depth-1, false)}}
	case 1:
		// sets: element kinds restricted like keys half of the time so that map[X]struct{} carriers apply
		return &cqlspec.Type{Kind: cqlspec.Set, Elems: []*cqlspec.Type{vxDrawType(t, depth-1, rapid.Bool().Draw(t, "setkey"))}}
	case 2:
		return &cqlspec.Type{Kind: cqlspec.Map, Elems: []*cqlspec.Type{vxDrawType(t, 0, true), vxDrawType(t, depth-1, false)}}
	case 3:
		n := rapid.IntRange(1, 4).Draw(t, "tuplen")
		tt := &cqlspec.Type{Kind: cqlspec.Tuple}
		for i := 0; i < n; i++ {
			tt.Elems = append(tt.Elems, vxDrawType(t, depth-1, false))
		}
		return tt
	default:
		n := rapid.IntRange(1, 4).Draw(t, "udtn")
		tt := &cqlspec.Type{Kind: cqlspec.UDT, Keyspace: "ks", Name: "u" + strconv.Itoa(n)}
		first := 'a'
		if rapid.IntRange(0, 3).Draw(t, "udtcaps") == 0 {
			first = 'A' // quoted, case-sensitive field names: Af, Bf, ... (they can equal the names of exported Go fields)
		}
		for i := 0; i < n; i++ {
			tt.Elems = append(tt.Elems, vxDrawType(t, depth-1, false))
			tt.Names = append(tt.Names, string(rune(int(first)+i))+"f")
		}
		return tt
	}
}

func vxTypeInfo(ty *cqlspec.Type, proto byte) TypeInfo {
	nt := NativeType{proto: proto, typ: Type(int(ty.Kind)), custom: ty.Custom}
	switch ty.Kind {
	case cqlspec.List, cqlspec.Set:
		return CollectionType{NativeType: nt, Elem: vxTypeInfo(ty.Elems[0], proto)}
	case cqlspec.Map:
		return CollectionType{NativeType: nt, Key: vxTypeInfo(ty.Elems[0], proto), Elem: vxTypeInfo(ty.Elems[1], proto)}
	case cqlspec.Tuple:
		ti := TupleTypeInfo{NativeType: nt}
		for _, e := range ty.Elems {
			ti.Elems = append(ti.Elems, vxTypeInfo(e, proto))
		}
		return ti
	case cqlspec.UDT:
		ui := UDTTypeInfo{NativeType: nt, KeySpace: ty.Keyspace, Name: ty.Name}
		for i, e := range ty.Elems {
			ui.Elements = append(ui.Elements, UDTField{Name: ty.Names[i], Type: vxTypeInfo(e, proto)})
		}
		return ui
	}
	return nt
}

// ---- semantic values ----------------------------------------------------------------------

func vxIntWidth(k cqlspec.Kind) int {
	switch k {
	case cqlspec.Tinyint:
		return 1
	case cqlspec.Smallint:
		return 2
	case cqlspec.Int:
		return 4
	case cqlspec.Bigint, cqlspec.Counter, cqlspec.Time, cqlspec.Timestamp:
		return 8
	}
	return 0
}

// vxDrawSigned draws an integer of `bits` bits (two's complement) with emphasis on boundaries.
func vxDrawSigned(t *rapid.T, bits int) *big.Int {
	one := big.NewInt(1)
	max := new(big.Int).Sub(new(big.Int).Lsh(one, uint(bits-1)), one)
	min := new(big.Int).Neg(new(big.Int).Lsh(one, uint(bits-1)))
	switch rapid.IntRange(0, 7).Draw(t, "intclass") {
	case 0:
		return new(big.Int).Add(min, big.NewInt(int64(rapid.IntRange(0, 2).Draw(t, "d"))))
	case 1:
		return new(big.Int).Sub(max, big.NewInt(int64(rapid.IntRange(0, 2).Draw(t, "d"))))
	case 2:
		return big.NewInt(int64(rapid.IntRange(-2, 2).Draw(t, "small")))
	case 3:
		// around an inner power-of-two / byte boundary
		k := rapid.IntRange(1, bits-1).Draw(t, "pow")
		n := new(big.Int).Lsh(one, uint(k))
		n.Add(n, big.NewInt(int64(rapid.IntRange(-2, 1).Draw(t, "d"))))
		if rapid.Bool().Draw(t, "neg") {
			n.Neg(n)
		}
		if n.Cmp(max) > 0 {
			return max
		}
		if n.Cmp(min) < 0 {
			return min
		}
		return n
	default:
		// uniform magnitude over a drawn bit length
		k := rapid.IntRange(0, bits-1).Draw(t, "blen")
		n := new(big.Int)
		for i := 0; i < (k+63)/64; i++ {
			n.Lsh(n, 64)
			n.Or(n, new(big.Int).SetUint64(rapid.Uint64().Draw(t, "w")))
		}
		n.And(n, new(big.Int).Sub(new(big.Int).Lsh(one, uint(k)), one))
		if k > 0 {
			n.SetBit(n, k-1, 1)
		}
		if rapid.Bool().Draw(t, "neg") {
			n.Neg(n)
			n.Sub(n, one)
		}
		return n
	}
}

func vxDrawBytes(t *rapid.T, max int) []byte {
	n := rapid.IntRange(0, max).Draw(t, "blen")
	if rapid.IntRange(0, 3).Draw(t, "short") > 0 && n > 6 {
		n = n % 7
	}
	b := make([]byte, n)
	for i := range b {
		b[i] = rapid.Byte().Draw(t, "b")
	}
	return b
}

// vxDrawValue draws a value of type ty. nullable: whether null is allowed at this position.
func vxDrawValue(t *rapid.T, ty *cqlspec.Type, nullable bool, proto int) cqlspec.Value {
	if nullable && rapid.IntRange(0, 9).Draw(t, "null") == 0 {
		return cqlspec.NullValue()
	}
	switch ty.Kind {
	case cqlspec.Ascii:
		b := vxDrawBytes(t, 40)
		for i := range b {
			b[i] &= 0x7f
		}
		return cqlspec.BytesValue(b)
	case cqlspec.Text, cqlspec.Varchar:
		return cqlspec.BytesValue([]byte(rapid.OneOf(rapid.String(), rapid.StringN(0, 3, -1), rapid.Just("")).Draw(t, "text")))
	case cqlspec.Blob:
		if rapid.IntRange(0, 60).Draw(t, "bigblob") == 0 {
			// around the 16-bit length boundaries of the v1-2 collection framing
			n := rapid.SampledFrom([]int{255, 256, 32767, 32768, 40000, 65535, 65536, 65539, 70000}).Draw(t, "biglen")
			b := make([]byte, n)
			b[0], b[n-1] = rapid.Byte().Draw(t, "b0"), rapid.Byte().Draw(t, "bn")
			return cqlspec.BytesValue(b)
		}
		return cqlspec.BytesValue(vxDrawBytes(t, 70))
	case cqlspec.Boolean:
		return cqlspec.Value{Bool: rapid.Bool().Draw(t, "bool")}
	case cqlspec.Tinyint, cqlspec.Smallint, cqlspec.Int, cqlspec.Bigint, cqlspec.Counter, cqlspec.Timestamp:
		return cqlspec.IntValue(vxDrawSigned(t, 8*vxIntWidth(ty.Kind)))
	case cqlspec.Time:
		if rapid.Bool().Draw(t, "valid") {
			return cqlspec.I64Value(rapid.Int64Range(0, 86399999999999).Draw(t, "ns"))
		}
		return cqlspec.IntValue(vxDrawSigned(t, 64))
	case cqlspec.Date:
		switch rapid.IntRange(0, 3).Draw(t, "dateclass") {
		case 0:
			return cqlspec.I64Value(int64(rapid.IntRange(-40000, 40000).Draw(t, "days")))
		case 1:
			return cqlspec.I64Value(int64(rapid.IntRange(-719162, 2932896).Draw(t, "days"))) // years 0001..9999
		default:
			return cqlspec.IntValue(vxDrawSigned(t, 32))
		}
	case cqlspec.Varint:
		return cqlspec.IntValue(vxDrawSigned(t, rapid.SampledFrom([]int{8, 16, 32, 64, 65, 72, 128, 200}).Draw(t, "vbits")))
	case cqlspec.Decimal:
		v := cqlspec.IntValue(vxDrawSigned(t, rapid.SampledFrom([]int{8, 32, 64, 65, 130}).Draw(t, "dbits")))
		v.Scale = int32(vxDrawSigned(t, 32).Int64())
		if rapid.Bool().Draw(t, "smallscale") {
			v.Scale = int32(rapid.IntRange(-5, 12).Draw(t, "scale"))
		}
		return v
	case cqlspec.Float:
		bits := uint64(rapid.Uint32().Draw(t, "f32"))
		switch rapid.IntRange(0, 5).Draw(t, "fclass") {
		case 0:
			bits = uint64(rapid.SampledFrom([]uint32{0, 0x80000000, 0x7f800000, 0xff800000, 0x7fc00000, 0x7f800001, 0xffc12345, 0x00000001, 0x7f7fffff, 0x3f800000}).Draw(t, "fspecial"))
		case 1:
			bits = uint64(math.Float32bits(float32(rapid.Float64().Draw(t, "fv"))))
		}
		return cqlspec.Value{Bits: bits}
	case cqlspec.Double:
		bits := rapid.Uint64().Draw(t, "f64")
		switch rapid.IntRange(0, 5).Draw(t, "fclass") {
		case 0:
			bits = rapid.SampledFrom([]uint64{0, 0x8000000000000000, 0x7ff0000000000000, 0xfff0000000000000, 0x7ff8000000000000, 0x7ff0000000000001, 0xfff8000000012345, 1, 0x7fefffffffffffff, 0x3ff0000000000000}).Draw(t, "dspecial")
		case 1:
			bits = math.Float64bits(rapid.Float64().Draw(t, "dv"))
		}
		return cqlspec.Value{Bits: bits}
	case cqlspec.UUID, cqlspec.TimeUUID:
		b := make([]byte, 16)
		for i := range b {
			b[i] = rapid.Byte().Draw(t, "u")
		}
		if ty.Kind == cqlspec.TimeUUID {
			b[6] = b[6]&0x0f | 0x10
			b[8] = b[8]&0x3f | 0x80
		}
		return cqlspec.BytesValue(b)
	case cqlspec.Inet:
		n := 4
		if rapid.Bool().Draw(t, "v6") {
			n = 16
		}
		b := make([]byte, n)
		for i := range b {
			b[i] = rapid.Byte().Draw(t, "ip")
		}
		if n == 16 {
			switch rapid.IntRange(0, 4).Draw(t, "v6class") {
			case 0: // IPv4-mapped: the canonical encoding of that address is the 4-byte form
				return cqlspec.BytesValue(b[12:])
			case 1:
				for i := 0; i < 12; i++ {
					b[i] = 0
				}
				if b[12] == 0 && b[13] == 0 { // keep it distinct from ::/96 special forms? no: any 16 bytes are legal
					b[0] = 0x20
				}
			}
			if isV4Mapped(b) {
				return cqlspec.BytesValue(b[12:])
			}
		}
		return cqlspec.BytesValue(b)
	case cqlspec.Duration:
		v := cqlspec.Value{}
		if rapid.IntRange(0, 2).Draw(t, "onlynanos") > 0 {
			v.Months = int32(vxDrawSigned(t, 32).Int64())
			v.Days = int32(vxDrawSigned(t, 32).Int64())
		}
		v.Nanos = vxDrawSigned(t, 64).Int64()
		return v
	case cqlspec.List, cqlspec.Set:
		n := rapid.IntRange(0, 4).Draw(t, "n")
		if ty.Kind == cqlspec.List && ty.Elems[0].Kind == cqlspec.Tinyint && rapid.IntRange(0, 50).Draw(t, "manyelems") == 0 {
			// element counts around the 16-bit boundaries
			m := rapid.SampledFrom([]int{255, 256, 32767, 32768, 65535, 65536, 65539}).Draw(t, "count")
			out := cqlspec.Value{Elems: make([]cqlspec.Value, m)}
			for i := range out.Elems {
				out.Elems[i] = cqlspec.I64Value(int64(int8(i)))
			}
			return out
		}
		out := cqlspec.Value{Elems: []cqlspec.Value{}}
		seen := map[string]bool{}
		for i := 0; i < n; i++ {
			e := vxDrawValue(t, ty.Elems[0], proto >= 3 && ty.Kind == cqlspec.List, proto)
			if ty.Kind == cqlspec.Set {
				k := vxKeyString(ty.Elems[0], e, proto)
				if seen[k] {
					continue
				}
				seen[k] = true
			}
			out.Elems = append(out.Elems, e)
		}
		return out
	case cqlspec.Map:
		n := rapid.IntRange(0, 4).Draw(t, "n")
		out := cqlspec.Value{Elems: []cqlspec.Value{}}
		seen := map[string]bool{}
		for i := 0; i < n; i++ {
			k := vxDrawValue(t, ty.Elems[0], false, proto)
			if vxHasNaN(ty.Elems[0], k) {
				// NaN can never be looked up again in a Go map (the only documented carrier of a CQL map)
				k.Bits = 0x3ff0000000000000 >> (32 * uint(btoi(ty.Elems[0].Kind == cqlspec.Float)))
				if ty.Elems[0].Kind == cqlspec.Float {
					k.Bits = 0x3f800000
				}
			}
			ks := vxKeyString(ty.Elems[0], k, proto)
			if seen[ks] {
				continue
			}
			seen[ks] = true
			out.Elems = append(out.Elems, k, vxDrawValue(t, ty.Elems[1], proto >= 3, proto))
		}
		return out
	case cqlspec.Tuple, cqlspec.UDT:
		out := cqlspec.Value{Elems: []cqlspec.Value{}}
		for _, e := range ty.Elems {
			out.Elems = append(out.Elems, vxDrawValue(t, e, true, proto))
		}
		return out
	}
	panic("vxDrawValue: kind " + ty.Kind.String())
}

func btoi(b bool) int {
	if b {
		return 1
	}
	return 0
}

func isV4Mapped(b []byte) bool {
	if len(b) != 16 {
		return false
	}
	for i := 0; i < 10; i++ {
		if b[i] != 0 {
			return false
		}
	}
	return b[10] == 0xff && b[11] == 0xff
}

// vxKeyString identifies a value for de-duplication of set elements / map keys. Go map carriers
// compare keys with ==, so +0/-0 and NaNs need care: floats are identified by numeric class.
func vxKeyString(ty *cqlspec.Type, v cqlspec.Value, proto int) string {
	switch ty.Kind {
	case cqlspec.Float:
		f := math.Float32frombits(uint32(v.Bits))
		if f != f {
			return "nan" // at most one NaN per set: NaN keys cannot be found again in a Go map
		}
		if f == 0 {
			return "zero"
		}
	case cqlspec.Double:
		f := math.Float64frombits(v.Bits)
		if f != f {
			return "nan"
		}
		if f == 0 {
			return "zero"
		}
	}
	return hex.EncodeToString(cqlspec.Encode(ty, v, proto)) + fmt.Sprint(v.Null)
}

func vxHasNaN(ty *cqlspec.Type, v cqlspec.Value) bool {
	if v.Null {
		return false
	}
	switch ty.Kind {
	case cqlspec.Float:
		f := math.Float32frombits(uint32(v.Bits))
		return f != f
	case cqlspec.Double:
		f := math.Float64frombits(v.Bits)
		return f != f
	}
	return false
}

// ---- carriers: which Go types can hold which values ---------------------------------------

const (
	vxSrc = 0 // value handed to Marshal
	vxDst = 1 // holder handed (by pointer) to Unmarshal
)

func vxIsUnsigned(k reflect.Kind) bool {
	return k >= reflect.Uint && k <= reflect.Uint64
}

func vxIntRange(gt reflect.Type) (min, max *big.Int) {
	bits := gt.Bits()
	one := big.NewInt(1)
	if vxIsUnsigned(gt.Kind()) {
		return new(big.Int), new(big.Int).Sub(new(big.Int).Lsh(one, uint(bits)), one)
	}
	return new(big.Int).Neg(new(big.Int).Lsh(one, uint(bits-1))), new(big.Int).Sub(new(big.Int).Lsh(one, uint(bits-1)), one)
}

// vxIntHolds: can Go integer type gt carry column value n of an integer column of width w bytes
// (w == 0: varint)?  natural = without the unsigned bit-pattern convention.
func vxIntHolds(n *big.Int, w int, gt reflect.Type) (holds, natural bool) {
	min, max := vxIntRange(gt)
	if n.Cmp(min) >= 0 && n.Cmp(max) <= 0 {
		return true, true
	}
	if vxIsUnsigned(gt.Kind()) && w > 0 && n.Sign() < 0 {
		// bit pattern of the column width, e.g. int column -1 <-> uint32(0xffffffff)
		p := new(big.Int).Add(n, new(big.Int).Lsh(big.NewInt(1), uint(8*w)))
		if p.Cmp(max) <= 0 {
			return true, false
		}
	}
	return false, false
}

// vxScalarCandidates lists the documented Go types for a scalar CQL kind in the given role.
func vxScalarCandidates(k cqlspec.Kind, role int) []reflect.Type {
	switch k {
	case cqlspec.Ascii, cqlspec.Text, cqlspec.Varchar, cqlspec.Blob:
		return []reflect.Type{vxTString, vxTBytes, vxTNamedString, vxTNamedBytes}
	case cqlspec.Boolean:
		return []reflect.Type{vxTBool, vxTNamedBool}
	case cqlspec.Tinyint, cqlspec.Smallint, cqlspec.Int:
		c := append(append([]reflect.Type{}, vxPlainInts...), vxNamedInts...)
		c = append(c, vxTString)
		if role == vxDst {
			c = append(c, vxTBigInt)
		}
		return c
	case cqlspec.Bigint, cqlspec.Counter, cqlspec.Varint:
		c := append(append([]reflect.Type{}, vxPlainInts...), vxNamedInts...)
		return append(c, vxTString, vxTBigInt)
	case cqlspec.Float:
		return []reflect.Type{vxTFloat32, vxTNamedF32}
	case cqlspec.Double:
		return []reflect.Type{vxTFloat64, vxTNamedF64}
	case cqlspec.Decimal:
		return []reflect.Type{vxTDec}
	case cqlspec.Time:
		return []reflect.Type{vxTInt64, vxTDur, vxTNamedI64}
	case cqlspec.Timestamp:
		return []reflect.Type{vxTInt64, vxTTime, vxTNamedI64}
	case cqlspec.Date:
		if role == vxDst {
			return []reflect.Type{vxTTime, vxTString}
		}
		return []reflect.Type{vxTInt64, vxTTime, vxTString}
	case cqlspec.Duration:
		if role == vxDst {
			return []reflect.Type{vxTCQLDur}
		}
		return []reflect.Type{vxTCQLDur, vxTInt64, vxTDur, vxTString, vxTNamedI64}
	case cqlspec.UUID, cqlspec.TimeUUID:
		if k == cqlspec.TimeUUID && role == vxDst {
			// "timeuuid | *time.Time | timestamp of the UUID" (Unmarshal only)
			return []reflect.Type{vxTUUID, vxTArr16, vxTBytes, vxTString, vxTTime}
		}
		return []reflect.Type{vxTUUID, vxTArr16, vxTBytes, vxTString}
	case cqlspec.Inet:
		return []reflect.Type{vxTIP, vxTString}
	}
	return nil
}

// vxCanonical is the Go type that can hold every value of the kind in the given role.
func vxCanonical(k cqlspec.Kind, role int) reflect.Type {
	switch k {
	case cqlspec.Ascii, cqlspec.Text, cqlspec.Varchar:
		return vxTString
	case cqlspec.Blob:
		return vxTBytes
	case cqlspec.Boolean:
		return vxTBool
	case cqlspec.Tinyint:
		return vxTInt8
	case cqlspec.Smallint:
		return vxTInt16
	case cqlspec.Int:
		return vxTInt32
	case cqlspec.Bigint, cqlspec.Counter, cqlspec.Time, cqlspec.Timestamp:
		return vxTInt64
	case cqlspec.Varint:
		return vxTBigInt
	case cqlspec.Float:
		return vxTFloat32
	case cqlspec.Double:
		return vxTFloat64
	case cqlspec.Decimal:
		return vxTDec
	case cqlspec.Date:
		if role == vxDst {
			return vxTTime
		}
		return vxTInt64
	case cqlspec.Duration:
		return vxTCQLDur
	case cqlspec.UUID, cqlspec.TimeUUID:
		return vxTUUID
	case cqlspec.Inet:
		return vxTIP
	}
	return nil
}

// vxScalarHolds: can Go type gt hold scalar value v of kind k (v not null)?
// natural=false marks the unsigned bit-pattern convention.
func vxScalarHolds(k cqlspec.Kind, v cqlspec.Value, gt reflect.Type, role int) (holds, natural bool) {
	switch k {
	case cqlspec.Tinyint, cqlspec.Smallint, cqlspec.Int, cqlspec.Bigint, cqlspec.Counter, cqlspec.Varint:
		n := v.Big()
		switch {
		case gt == vxTBigInt:
			return true, true
		case gt == vxTString:
			return n.IsInt64(), true
		case gt.Kind() >= reflect.Int && gt.Kind() <= reflect.Uint64:
			w := vxIntWidth(k)
			return vxIntHolds(n, w, gt)
		}
		return false, false
	case cqlspec.Timestamp:
		if gt == vxTTime {
			return v.Big().Int64() != vxZeroTimeMs, true // the zero time.Time means "empty", not year 1
		}
		return true, true
	case cqlspec.Date:
		d := v.Big().Int64()
		switch gt {
		case vxTTime:
			return d*vxMsPerDay != vxZeroTimeMs, true
		case vxTString:
			return d >= -719162 && d <= 2932896, true // years 0001..9999 for the 2006-01-02 layout
		}
		return true, true
	case cqlspec.Duration:
		if gt != vxTCQLDur {
			return v.Months == 0 && v.Days == 0, true
		}
		return true, true
	case cqlspec.Ascii, cqlspec.Text, cqlspec.Varchar, cqlspec.Blob, cqlspec.Boolean, cqlspec.Float, cqlspec.Double,
		cqlspec.Decimal, cqlspec.Time, cqlspec.UUID, cqlspec.TimeUUID, cqlspec.Inet:
		return true, true
	}
	return false, false
}

func vxComparable(gt reflect.Type) bool {
	switch gt.Kind() {
	case reflect.Slice, reflect.Map, reflect.Func:
		return false
	case reflect.Struct:
		return gt == vxTCQLDur || gt == vxTEmpty
	case reflect.Array:
		return vxComparable(gt.Elem())
	case reflect.Ptr, reflect.Interface:
		return false // pointer keys would compare by identity
	}
	return true
}

// vxPick chooses a Go type able to hold every value in vs (all of CQL type ty).
// key: the type must be usable as a Go map key. plain: only canonical types (used for holders that
// the driver fills through reflect.Set with its default types).
func vxPick(ty *cqlspec.Type, vs []cqlspec.Value, ch *vxCh, role int, key bool) reflect.Type {
	anyNull := false
	var nn []cqlspec.Value
	for _, v := range vs {
		if v.Null {
			anyNull = true
		} else {
			nn = append(nn, v)
		}
	}
	var base reflect.Type
	switch ty.Kind {
	case cqlspec.List, cqlspec.Set:
		var all []cqlspec.Value
		for _, v := range nn {
			all = append(all, v.Elems...)
		}
		form := ch.next(4)
		if ty.Kind == cqlspec.Set && role == vxSrc && form == 3 && !key && !anyNull {
			// set as map[X]struct{}: needs comparable, non-null, NaN-free elements
			ok := true
			for _, e := range all {
				if e.Null || vxHasNaN(ty.Elems[0], e) {
					ok = false
				}
			}
			if ok {
				et := vxPick(ty.Elems[0], all, ch, role, true)
				if vxComparable(et) {
					return reflect.MapOf(et, vxTEmpty) // never used for null: a nil map[X]struct{} is written as an empty set
				}
			}
		}
		et := vxPick(ty.Elems[0], all, ch, role, false)
		if form == 2 && len(nn) == 1 && !anyNull && !key {
			return reflect.ArrayOf(len(nn[0].Elems), et) // arrays cannot be null
		}
		return reflect.SliceOf(et) // nil slice <-> null
	case cqlspec.Map:
		var ks, xs []cqlspec.Value
		for _, v := range nn {
			for i := 0; i+1 < len(v.Elems); i += 2 {
				ks = append(ks, v.Elems[i])
				xs = append(xs, v.Elems[i+1])
			}
		}
		kt := vxPick(ty.Elems[0], ks, ch, role, true)
		return reflect.MapOf(kt, vxPick(ty.Elems[1], xs, ch, role, false))
	case cqlspec.Tuple:
		form := ch.next(4)
		if form == 0 || key {
			base = vxTIfaceSlice
			break
		}
		if form == 3 && vxHomogeneous(ty) {
			// "tuple | slice, array": a typed slice / array whose element type serves every position
			var all []cqlspec.Value
			for _, v := range nn {
				all = append(all, v.Elems...)
			}
			if anyNull {
				// a null tuple is read back as a tuple of nulls: the element type must be able to say null
				all = append(all, cqlspec.NullValue())
			}
			et := vxPick(ty.Elems[0], all, ch, role, false)
			if ch.next(2) == 0 {
				base = reflect.SliceOf(et)
			} else {
				base = reflect.ArrayOf(len(ty.Elems), et)
			}
			break
		}
		var fields []reflect.StructField
		for i, et := range ty.Elems {
			var col []cqlspec.Value
			for _, v := range nn {
				col = append(col, v.Elems[i])
			}
			var ft reflect.Type
			if role == vxDst {
				// the driver fills struct fields with its default Go type for the element (or a pointer to it)
				ft = vxDefaultGoType(et)
				if vxAnyNull(col) && ft.Kind() != reflect.Ptr && ft.Kind() != reflect.Slice && ft.Kind() != reflect.Map {
					ft = reflect.PtrTo(ft)
				} else if ch.next(3) == 0 && ft.Kind() != reflect.Ptr {
					ft = reflect.PtrTo(ft)
				}
			} else {
				ft = vxPick(et, col, ch, role, false)
			}
			fields = append(fields, reflect.StructField{Name: "F" + strconv.Itoa(i), Type: ft})
		}
		base = reflect.StructOf(fields)
	case cqlspec.UDT:
		form := ch.next(2)
		if form == 0 || key {
			base = vxTStrIfaceMap
			break
		}
		var fields []reflect.StructField
		for i, et := range ty.Elems {
			var col []cqlspec.Value
			for _, v := range nn {
				if i < len(v.Elems) {
					col = append(col, v.Elems[i])
				}
			}
			ft := vxPick(et, col, ch, role, false)
			fields = append(fields, reflect.StructField{Name: "U" + strconv.Itoa(i), Type: ft, Tag: reflect.StructTag(`cql:"` + ty.Names[i] + `"`)})
		}
		if role == vxDst && len(fields) > 1 && ch.next(3) == 0 {
			// a destination struct need not declare every field of the type: the others are skipped
			drop := ch.next(len(fields))
			fields = append(fields[:drop:drop], fields[drop+1:]...)
		}
		base = reflect.StructOf(fields)
	default:
		cands := vxScalarCandidates(ty.Kind, role)
		var ok []reflect.Type
		for _, c := range cands {
			if key && !vxComparable(c) {
				continue
			}
			good := true
			for _, v := range nn {
				if h, _ := vxScalarHolds(ty.Kind, v, c, role); !h {
					good = false
					break
				}
			}
			if good {
				ok = append(ok, c)
			}
		}
		if len(ok) == 0 {
			base = vxCanonical(ty.Kind, role) // callers needing a key check vxComparable themselves
		} else {
			base = ok[ch.next(len(ok))]
		}
	}
	if key {
		return base
	}
	// pointer wrapping: needed for null, otherwise sometimes
	switch base.Kind() {
	case reflect.Slice, reflect.Map:
		// nil slice / nil map are the documented null carriers of collections; a nil
		// map[string]interface{} for a UDT is *not* (it is a UDT without fields)
		if base != vxTBytes && base != vxTNamedBytes && base != vxTIP && !((ty.Kind == cqlspec.UDT || ty.Kind == cqlspec.Tuple) && role == vxSrc) {
			return base
		}
	}
	if anyNull || ch.next(5) == 0 {
		return reflect.PtrTo(base)
	}
	return base
}

// vxHomogeneous: a tuple with at least one element whose element types are all the same type tree.
func vxHomogeneous(ty *cqlspec.Type) bool {
	if len(ty.Elems) == 0 {
		return false
	}
	a, _ := json.Marshal(ty.Elems[0])
	for _, e := range ty.Elems[1:] {
		b, _ := json.Marshal(e)
		if !bytes.Equal(a, b) {
			return false
		}
	}
	return true
}

func vxAnyNull(vs []cqlspec.Value) bool {
	for _, v := range vs {
		if v.Null {
			return true
		}
	}
	return false
}

// vxDefaultGoType mirrors the documented defaults ("NewWithError") through the public API.
func vxDefaultGoType(ty *cqlspec.Type) reflect.Type {
	p, err := vxTypeInfo(ty, 4).NewWithError()
	if err != nil {
		panic(err)
	}
	return reflect.TypeOf(p).Elem()
}

// ---- semantic value -> Go value -----------------------------------------------------------

// vxToGo converts v (of CQL type ty) into a Go value of type gt. gt must have been picked for it.
// sub gives sub-precision noise for time.Time carriers (must be floored away by the driver).
func vxToGo(ty *cqlspec.Type, v cqlspec.Value, gt reflect.Type, ch *vxCh) (rv reflect.Value, err error) {
	if gt.Kind() == reflect.Ptr {
		if v.Null {
			return reflect.Zero(gt), nil
		}
		inner, err := vxToGo(ty, v, gt.Elem(), ch)
		if err != nil {
			return rv, err
		}
		p := reflect.New(gt.Elem())
		p.Elem().Set(inner)
		return p, nil
	}
	if v.Null {
		switch gt.Kind() {
		case reflect.Slice, reflect.Map, reflect.Interface:
			return reflect.Zero(gt), nil
		}
		return rv, fmt.Errorf("harness: type %v cannot hold null", gt)
	}
	switch ty.Kind {
	case cqlspec.List, cqlspec.Set:
		switch gt.Kind() {
		case reflect.Slice:
			s := reflect.MakeSlice(gt, len(v.Elems), len(v.Elems))
			for i, e := range v.Elems {
				x, err := vxToGo(ty.Elems[0], e, gt.Elem(), ch)
				if err != nil {
					return rv, err
				}
				s.Index(i).Set(x)
			}
			return s, nil
		case reflect.Array:
			a := reflect.New(gt).Elem()
			if a.Len() != len(v.Elems) {
				return rv, fmt.Errorf("harness: array length")
			}
			for i, e := range v.Elems {
				x, err := vxToGo(ty.Elems[0], e, gt.Elem(), ch)
				if err != nil {
					return rv, err
				}
				a.Index(i).Set(x)
			}
			return a, nil
		case reflect.Map:
			m := reflect.MakeMapWithSize(gt, len(v.Elems))
			for _, e := range v.Elems {
				x, err := vxToGo(ty.Elems[0], e, gt.Key(), ch)
				if err != nil {
					return rv, err
				}
				m.SetMapIndex(x, reflect.Zero(vxTEmpty))
			}
			if m.Len() != len(v.Elems) {
				return rv, fmt.Errorf("harness: set elements collapsed in a Go map")
			}
			return m, nil
		}
	case cqlspec.Map:
		m := reflect.MakeMapWithSize(gt, len(v.Elems)/2)
		for i := 0; i+1 < len(v.Elems); i += 2 {
			k, err := vxToGo(ty.Elems[0], v.Elems[i], gt.Key(), ch)
			if err != nil {
				return rv, err
			}
			x, err := vxToGo(ty.Elems[1], v.Elems[i+1], gt.Elem(), ch)
			if err != nil {
				return rv, err
			}
			m.SetMapIndex(k, x)
		}
		if m.Len() != len(v.Elems)/2 {
			return rv, fmt.Errorf("harness: map keys collapsed in a Go map")
		}
		return m, nil
	case cqlspec.Tuple:
		if gt == vxTIfaceSlice {
			s := make([]interface{}, len(v.Elems))
			for i, e := range v.Elems {
				et := vxPick(ty.Elems[i], []cqlspec.Value{e}, ch, vxSrc, false)
				if e.Null {
					// untyped nil, or a typed nil pointer / nil collection
					if ch.next(2) == 1 {
						if et.Kind() != reflect.Ptr && et.Kind() != reflect.Slice && et.Kind() != reflect.Map {
							et = reflect.PtrTo(et)
						}
						if !(ty.Elems[i].Kind == cqlspec.Set && et.Kind() == reflect.Map) {
							s[i] = reflect.Zero(et).Interface()
							continue
						}
					}
					s[i] = nil
					continue
				}
				x, err := vxToGo(ty.Elems[i], e, et, ch)
				if err != nil {
					return rv, err
				}
				s[i] = x.Interface()
			}
			return reflect.ValueOf(s), nil
		}
		if gt.Kind() == reflect.Slice || gt.Kind() == reflect.Array {
			var s reflect.Value
			if gt.Kind() == reflect.Slice {
				s = reflect.MakeSlice(gt, len(v.Elems), len(v.Elems))
			} else {
				s = reflect.New(gt).Elem()
			}
			for i, e := range v.Elems {
				x, err := vxToGo(ty.Elems[i], e, gt.Elem(), ch)
				if err != nil {
					return rv, err
				}
				s.Index(i).Set(x)
			}
			return s, nil
		}
		st := reflect.New(gt).Elem()
		for i, e := range v.Elems {
			x, err := vxToGo(ty.Elems[i], e, gt.Field(i).Type, ch)
			if err != nil {
				return rv, err
			}
			st.Field(i).Set(x)
		}
		return st, nil
	case cqlspec.UDT:
		if gt == vxTStrIfaceMap {
			m := map[string]interface{}{}
			for i, e := range v.Elems {
				if e.Null && ch.next(2) == 0 {
					continue // absent key = null field
				}
				if e.Null {
					m[ty.Names[i]] = nil
					continue
				}
				et := vxPick(ty.Elems[i], []cqlspec.Value{e}, ch, vxSrc, false)
				x, err := vxToGo(ty.Elems[i], e, et, ch)
				if err != nil {
					return rv, err
				}
				m[ty.Names[i]] = x.Interface()
			}
			return reflect.ValueOf(m), nil
		}
		st := reflect.New(gt).Elem()
		for i, e := range v.Elems {
			x, err := vxToGo(ty.Elems[i], e, gt.Field(i).Type, ch)
			if err != nil {
				return rv, err
			}
			st.Field(i).Set(x)
		}
		return st, nil
	}
	return vxScalarToGo(ty.Kind, v, gt, ch)
}

func vxScalarToGo(k cqlspec.Kind, v cqlspec.Value, gt reflect.Type, ch *vxCh) (reflect.Value, error) {
	out := reflect.New(gt).Elem()
	switch k {
	case cqlspec.Ascii, cqlspec.Text, cqlspec.Varchar, cqlspec.Blob:
		b := v.RawBytes()
		if gt.Kind() == reflect.String {
			out.SetString(string(b))
		} else {
			out.SetBytes(append([]byte{}, b...))
		}
		return out, nil
	case cqlspec.Boolean:
		out.SetBool(v.Bool)
		return out, nil
	case cqlspec.Tinyint, cqlspec.Smallint, cqlspec.Int, cqlspec.Bigint, cqlspec.Counter, cqlspec.Varint:
		n := v.Big()
		switch {
		case gt == vxTBigInt:
			if k != cqlspec.Varint {
				ch.flag("bigint_from_bigInt")
			}
			return reflect.ValueOf(*new(big.Int).Set(n)), nil
		case gt == vxTString:
			// decimal notation: zero padding does not change the number ("007", "-010")
			str := n.String()
			if pad := ch.next(4); pad == 0 && str != "0" {
				if str[0] == '-' {
					str = "-0" + str[1:]
				} else {
					str = "00" + str
				}
			}
			out.SetString(str)
		case vxIsUnsigned(gt.Kind()):
			if n.Sign() < 0 {
				n = new(big.Int).Add(n, new(big.Int).Lsh(big.NewInt(1), uint(8*vxIntWidth(k))))
			}
			out.SetUint(n.Uint64())
		default:
			out.SetInt(n.Int64())
		}
		return out, nil
	case cqlspec.Float:
		// bit-exact also for named float32 types (reflect.Convert between float32 kinds keeps NaN payloads)
		return reflect.ValueOf(math.Float32frombits(uint32(v.Bits))).Convert(gt), nil
	case cqlspec.Double:
		if gt == vxTFloat64 {
			return reflect.ValueOf(math.Float64frombits(v.Bits)), nil
		}
		out.SetFloat(math.Float64frombits(v.Bits))
		return out, nil
	case cqlspec.Decimal:
		return reflect.ValueOf(*inf.NewDecBig(v.Big(), inf.Scale(v.Scale))), nil
	case cqlspec.Time:
		out.SetInt(v.Big().Int64())
		return out, nil
	case cqlspec.Timestamp:
		ms := v.Big().Int64()
		if gt == vxTTime {
			sub := []int64{0, 0, 1, 999999, 500000}[ch.next(5)] // sub-millisecond noise: must be floored away
			tm := time.Unix(vxFloorDiv(ms, 1000), vxMod(ms, 1000)*1e6+sub)
			return reflect.ValueOf(tm.In(vxZone(ch))), nil
		}
		out.SetInt(ms)
		return out, nil
	case cqlspec.Date:
		d := v.Big().Int64()
		// a date carrier may point anywhere inside the day: the day is the floor
		off := []int64{0, 0, 0, 1, 43200000, 86399999}[ch.next(6)]
		if off != 0 && d < 0 && gt != vxTString {
			ch.flag("date_pre1970_inside_day")
		}
		switch gt {
		case vxTTime:
			if d*vxMsPerDay+off == vxZeroTimeMs {
				off = 0
			}
			return reflect.ValueOf(time.UnixMilli(d*vxMsPerDay + off).In(vxZone(ch))), nil
		case vxTString:
			out.SetString(time.UnixMilli(d * vxMsPerDay).UTC().Format("2006-01-02"))
		default:
			out.SetInt(d*vxMsPerDay + off)
		}
		return out, nil
	case cqlspec.Duration:
		switch {
		case gt == vxTCQLDur:
			return reflect.ValueOf(Duration{Months: v.Months, Days: v.Days, Nanoseconds: v.Nanos}), nil
		case gt == vxTString:
			out.SetString(time.Duration(v.Nanos).String())
		default:
			if gt == vxTNamedI64 {
				ch.flag("duration_named_int64")
			}
			out.SetInt(v.Nanos)
		}
		return out, nil
	case cqlspec.UUID, cqlspec.TimeUUID:
		b := v.RawBytes()
		switch gt {
		case vxTUUID, vxTArr16:
			reflect.Copy(out, reflect.ValueOf(b))
		case vxTBytes:
			out.SetBytes(append([]byte{}, b...))
		case vxTString:
			var u UUID
			copy(u[:], b)
			s := u.String()
			out.SetString(s)
		}
		return out, nil
	case cqlspec.Inet:
		b := v.RawBytes()
		ip := net.IP(append([]byte{}, b...))
		if gt == vxTIP {
			if len(b) == 4 && ch.next(2) == 1 {
				ip = ip.To16() // the 16-byte in-memory form of an IPv4 address
			}
			return reflect.ValueOf(ip), nil
		}
		out.SetString(ip.String())
		return out, nil
	}
	return out, fmt.Errorf("harness: vxScalarToGo kind %v", k)
}

func vxZone(ch *vxCh) *time.Location {
	switch ch.next(4) {
	case 1:
		return time.FixedZone("p", 5*3600+1800)
	case 2:
		return time.FixedZone("m", -11*3600)
	case 3:
		return time.Local
	}
	return time.UTC
}

func vxFloorDiv(a, b int64) int64 {
	q := a / b
	if a%b != 0 && (a < 0) != (b < 0) {
		q--
	}
	return q
}

func vxMod(a, b int64) int64 { return a - vxFloorDiv(a, b)*b }

// ---- Go value (as produced by Unmarshal) vs semantic value --------------------------------

// vxCompare checks that Go value rv represents want (CQL type ty). A null in a holder that
// cannot be nil must be the holder's zero value ("nulls are unmarshalled as zero value").
func vxCompare(ty *cqlspec.Type, want cqlspec.Value, rv reflect.Value, path string) error {
	for rv.Kind() == reflect.Ptr || rv.Kind() == reflect.Interface {
		if rv.IsNil() {
			if want.Null {
				return nil
			}
			return fmt.Errorf("%s: got nil, want a %v value", path, ty)
		}
		if want.Null && rv.Kind() == reflect.Ptr {
			return fmt.Errorf("%s: got non-nil pointer (%v) for a null %v", path, rv.Elem(), ty)
		}
		rv = rv.Elem()
	}
	if want.Null && ty.Kind == cqlspec.Tuple && (rv.Kind() == reflect.Slice && !rv.IsNil() || rv.Kind() == reflect.Array || rv.Kind() == reflect.Struct) {
		// a null tuple may be presented as a tuple of nulls (that is how the driver flattens tuple columns)
		all := cqlspec.Value{Elems: make([]cqlspec.Value, len(ty.Elems))}
		for i := range all.Elems {
			all.Elems[i] = cqlspec.NullValue()
		}
		want = all
	}
	if want.Null {
		switch rv.Kind() {
		case reflect.Slice:
			if rv.Type() == vxTBytes || rv.Type() == vxTNamedBytes || rv.Type() == vxTIP {
				if rv.Len() != 0 {
					return fmt.Errorf("%s: null %v read as %v", path, ty, rv)
				}
				return nil
			}
			if !rv.IsNil() {
				return fmt.Errorf("%s: null %v read as non-nil %v (len %d)", path, ty, rv.Type(), rv.Len())
			}
			return nil
		case reflect.Map:
			if !rv.IsNil() {
				return fmt.Errorf("%s: null %v read as non-nil map", path, ty)
			}
			return nil
		}
		if !vxIsZero(rv) {
			return fmt.Errorf("%s: null %v read as non-zero %v %v", path, ty, rv.Type(), rv)
		}
		return nil
	}
	switch ty.Kind {
	case cqlspec.List, cqlspec.Set:
		switch rv.Kind() {
		case reflect.Slice, reflect.Array:
			if rv.Kind() == reflect.Slice && rv.IsNil() {
				return fmt.Errorf("%s: non-null %v of %d elements read as nil slice", path, ty, len(want.Elems))
			}
			if rv.Len() != len(want.Elems) {
				return fmt.Errorf("%s: %d elements, want %d", path, rv.Len(), len(want.Elems))
			}
			if ty.Kind == cqlspec.Set {
				// a set has no client-side order (it may have been written from a Go map): multiset match
				used := make([]bool, rv.Len())
				for i, e := range want.Elems {
					found := false
					var first error
					for j := 0; j < rv.Len() && !found; j++ {
						if used[j] {
							continue
						}
						err := vxCompare(ty.Elems[0], e, rv.Index(j), fmt.Sprintf("%s[%d]", path, j))
						if err == nil {
							used[j], found = true, true
						} else if first == nil {
							first = err
						}
					}
					if !found {
						return fmt.Errorf("%s: set element #%d (%+v) not found in %v (%v)", path, i, e, rv, first)
					}
				}
				return nil
			}
			for i, e := range want.Elems {
				if err := vxCompare(ty.Elems[0], e, rv.Index(i), fmt.Sprintf("%s[%d]", path, i)); err != nil {
					return err
				}
			}
			return nil
		}
		return fmt.Errorf("%s: harness cannot compare %v with %v", path, ty, rv.Type())
	case cqlspec.Map:
		if rv.Kind() != reflect.Map {
			return fmt.Errorf("%s: harness cannot compare %v with %v", path, ty, rv.Type())
		}
		if rv.IsNil() {
			return fmt.Errorf("%s: non-null map read as nil", path)
		}
		if rv.Len() != len(want.Elems)/2 {
			return fmt.Errorf("%s: %d entries, want %d", path, rv.Len(), len(want.Elems)/2)
		}
		keys := rv.MapKeys()
		for i := 0; i+1 < len(want.Elems); i += 2 {
			found := false
			for _, k := range keys {
				if vxCompare(ty.Elems[0], want.Elems[i], k, path+".key") == nil {
					found = true
					if err := vxCompare(ty.Elems[1], want.Elems[i+1], rv.MapIndex(k), fmt.Sprintf("%s[key %d]", path, i/2)); err != nil {
						return err
					}
					break
				}
			}
			if !found {
				return fmt.Errorf("%s: key #%d (%+v) missing from %v", path, i/2, want.Elems[i], rv)
			}
		}
		return nil
	case cqlspec.Tuple:
		switch rv.Kind() {
		case reflect.Slice, reflect.Array:
			if rv.Len() != len(want.Elems) {
				return fmt.Errorf("%s: tuple of %d, want %d", path, rv.Len(), len(want.Elems))
			}
			for i, e := range want.Elems {
				if err := vxCompare(ty.Elems[i], e, rv.Index(i), fmt.Sprintf("%s.%d", path, i)); err != nil {
					return err
				}
			}
			return nil
		case reflect.Struct:
			for i, e := range want.Elems {
				if err := vxCompare(ty.Elems[i], e, rv.Field(i), fmt.Sprintf("%s.F%d", path, i)); err != nil {
					return err
				}
			}
			return nil
		}
		return fmt.Errorf("%s: harness cannot compare %v with %v", path, ty, rv.Type())
	case cqlspec.UDT:
		switch rv.Kind() {
		case reflect.Map:
			for i, e := range want.Elems {
				x := rv.MapIndex(reflect.ValueOf(ty.Names[i]))
				if !x.IsValid() && e.Null {
					continue // a field the value does not carry (it ends early) has no key: null
				}
				if !x.IsValid() {
					return fmt.Errorf("%s: field %q missing from map", path, ty.Names[i])
				}
				if err := vxCompare(ty.Elems[i], e, x, path+"."+ty.Names[i]); err != nil {
					return err
				}
			}
			return nil
		case reflect.Struct:
			for i, e := range want.Elems {
				f := rv.FieldByName("U" + strconv.Itoa(i))
				if !f.IsValid() {
					continue // the destination does not declare this field
				}
				if err := vxCompare(ty.Elems[i], e, f, path+"."+ty.Names[i]); err != nil {
					return err
				}
			}
			return nil
		}
		return fmt.Errorf("%s: harness cannot compare %v with %v", path, ty, rv.Type())
	}
	return vxCompareScalar(ty.Kind, want, rv, path)
}

func vxIsZero(rv reflect.Value) bool {
	switch rv.Type() {
	case vxTBigInt:
		b := rv.Interface().(big.Int)
		return b.Sign() == 0
	case vxTDec:
		d := rv.Interface().(inf.Dec)
		return d.Sign() == 0 && d.Scale() == 0
	case vxTTime:
		return rv.Interface().(time.Time).IsZero()
	}
	return rv.IsZero()
}

func vxCompareScalar(k cqlspec.Kind, want cqlspec.Value, rv reflect.Value, path string) error {
	gt := rv.Type()
	bad := func(got interface{}) error {
		return fmt.Errorf("%s: %v value %+v read back as %v %v", path, k, want, gt, got)
	}
	switch k {
	case cqlspec.Ascii, cqlspec.Text, cqlspec.Varchar, cqlspec.Blob:
		var got []byte
		if gt.Kind() == reflect.String {
			got = []byte(rv.String())
		} else {
			got = rv.Bytes()
		}
		if hex.EncodeToString(got) != want.Hex {
			return bad(hex.EncodeToString(got))
		}
		return nil
	case cqlspec.Boolean:
		if rv.Bool() != want.Bool {
			return bad(rv.Bool())
		}
		return nil
	case cqlspec.Tinyint, cqlspec.Smallint, cqlspec.Int, cqlspec.Bigint, cqlspec.Counter, cqlspec.Varint:
		n := want.Big()
		var got *big.Int
		switch {
		case gt == vxTBigInt:
			b := rv.Interface().(big.Int)
			got = &b
		case gt.Kind() == reflect.String:
			g, ok := new(big.Int).SetString(rv.String(), 10)
			if !ok {
				return bad(rv.String())
			}
			got = g
		case vxIsUnsigned(gt.Kind()):
			got = new(big.Int).SetUint64(rv.Uint())
			if w := vxIntWidth(k); w > 0 && n.Sign() < 0 {
				// bit-pattern convention for unsigned holders of fixed-width columns
				got.Sub(got, new(big.Int).Lsh(big.NewInt(1), uint(8*w)))
			}
		default:
			got = big.NewInt(rv.Int())
		}
		if got.Cmp(n) != 0 {
			return bad(got)
		}
		return nil
	case cqlspec.Float:
		got := math.Float32bits(rv.Convert(vxTFloat32).Interface().(float32))
		if got != uint32(want.Bits) {
			return bad(fmt.Sprintf("bits %#x", got))
		}
		return nil
	case cqlspec.Double:
		got := math.Float64bits(rv.Float())
		if got != want.Bits {
			return bad(fmt.Sprintf("bits %#x", got))
		}
		return nil
	case cqlspec.Decimal:
		d := rv.Interface().(inf.Dec)
		if d.UnscaledBig().Cmp(want.Big()) != 0 || int32(d.Scale()) != want.Scale {
			return bad(d.String())
		}
		return nil
	case cqlspec.Time:
		if rv.Int() != want.Big().Int64() {
			return bad(rv.Int())
		}
		return nil
	case cqlspec.Timestamp:
		ms := want.Big().Int64()
		if gt == vxTTime {
			tm := rv.Interface().(time.Time)
			if tm.UnixMilli() != ms || tm.Nanosecond()%1e6 != 0 {
				return bad(tm)
			}
			return nil
		}
		if rv.Int() != ms {
			return bad(rv.Int())
		}
		return nil
	case cqlspec.Date:
		d := want.Big().Int64()
		switch gt {
		case vxTTime:
			tm := rv.Interface().(time.Time)
			if tm.UnixMilli() != d*vxMsPerDay {
				return bad(tm)
			}
			if _, off := tm.Zone(); off != 0 {
				return bad(fmt.Sprintf("%v (not UTC)", tm))
			}
		case vxTString:
			if rv.String() != time.UnixMilli(d*vxMsPerDay).UTC().Format("2006-01-02") {
				return bad(rv.String())
			}
		default:
			return fmt.Errorf("%s: harness cannot compare date with %v", path, gt)
		}
		return nil
	case cqlspec.Duration:
		if gt != vxTCQLDur {
			return fmt.Errorf("%s: harness cannot compare duration with %v", path, gt)
		}
		d := rv.Interface().(Duration)
		if d.Months != want.Months || d.Days != want.Days || d.Nanoseconds != want.Nanos {
			return bad(d)
		}
		return nil
	case cqlspec.UUID, cqlspec.TimeUUID:
		var got string
		switch {
		case gt == vxTTime:
			// the 60-bit count of 100 ns ticks since 1582-10-15 (RFC 4122 field layout)
			wb, _ := hex.DecodeString(want.Hex)
			if len(wb) != 16 {
				return bad("harness: uuid of wrong length")
			}
			ts := int64(wb[0])<<24 | int64(wb[1])<<16 | int64(wb[2])<<8 | int64(wb[3]) | (int64(wb[4])<<8|int64(wb[5]))<<32 | (int64(wb[6]&0x0f)<<8|int64(wb[7]))<<48
			wt := vxTickTime(ts, 0)
			if gotT := rv.Interface().(time.Time); !gotT.Equal(wt) {
				return bad(gotT.UTC().Format(time.RFC3339Nano) + " (the UUID's timestamp is " + wt.Format(time.RFC3339Nano) + ")")
			}
			return nil
		case gt == vxTUUID || gt == vxTArr16:
			b := make([]byte, 16)
			reflect.Copy(reflect.ValueOf(b), rv)
			got = hex.EncodeToString(b)
		case gt.Kind() == reflect.Slice:
			got = hex.EncodeToString(rv.Bytes())
		case gt.Kind() == reflect.String:
			u, err := ParseUUID(rv.String())
			if err != nil {
				return bad(rv.String())
			}
			got = hex.EncodeToString(u[:])
			if rv.String() != u.String() {
				return bad(rv.String())
			}
		}
		if got != want.Hex {
			return bad(got)
		}
		return nil
	case cqlspec.Inet:
		w := net.IP(want.RawBytes())
		switch {
		case gt == vxTIP:
			ip := net.IP(rv.Bytes())
			if !ip.Equal(w) || (len(want.RawBytes()) == 16 && len(ip) != 16) {
				return bad(ip)
			}
		case gt.Kind() == reflect.String:
			ip := net.ParseIP(rv.String())
			if ip == nil || !ip.Equal(w) {
				return bad(rv.String())
			}
		}
		return nil
	}
	return fmt.Errorf("%s: harness cannot compare kind %v", path, k)
}

// vxSortedElems returns the spec encodings of the elements of an encoded list/set (or the
// key|value pairs of a map), sorted - for comparing collections written from unordered Go maps.
func vxSortedElems(ty *cqlspec.Type, b []byte, proto int) ([]string, error) {
	v, err := cqlspec.Decode(ty, b, proto)
	if err != nil {
		return nil, err
	}
	var out []string
	step := 1
	if ty.Kind == cqlspec.Map {
		step = 2
	}
	for i := 0; i+step-1 < len(v.Elems); i += step {
		s := ""
		for j := 0; j < step; j++ {
			et := ty.Elems[0]
			if ty.Kind == cqlspec.Map {
				et = ty.Elems[j]
			}
			e := cqlspec.Encode(et, v.Elems[i+j], proto)
			s += fmt.Sprintf("%d:%x|", len(e), e)
			if e == nil {
				s += "null|"
			}
		}
		out = append(out, s)
	}
	sort.Strings(out)
	return out, nil
}
