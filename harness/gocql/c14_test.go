//go:build verif && go1.21

// C14 - prepared statements: prepared once, failures not cached, re-prepared when lost.
//
// A real Session runs against lib/vnode. Every node keeps a prepared-statement table of its own:
// PREPARE is answered with a node-local, never reused id (or refused, or held back until the
// harness releases it), EXECUTE / BATCH entries are looked up in that table, and at drawn moments
// the node "forgets" ids and answers UNPREPARED. Each statement text carries a unique token
// (tok<i>) and every execution binds that token as its first value and the number of the
// operation as its second, so the node can tell which statement and which caller an EXECUTE
// belongs to without trusting the id.
//
// White-box access is used only for (a) the size sample of session.stmtsLRU and (b) putting the
// second connection of every pool into a second keyspace (Conn.UseKeyspace, an exported method),
// so that several keyspaces share one statement cache inside one Session.
package gocql

import (
	"context"
	"encoding/hex"
	"fmt"
	"regexp"
	"sort"
	"strconv"
	"strings"
	"sync"
	"sync/atomic"
	"testing"
	"time"

	"pgregory.net/rapid"
	"verif.local/cqlspec"
	"verif.local/vnode"
	"verif.local/vstats"
	"verif.local/vx"
)

const (
	vxC14Watchdog   = 20 * time.Second // expected latency of a round: milliseconds
	vxC14LateFlush  = 20 * time.Millisecond
	vxC14DefaultCap = 1000 // defaultMaxPreparedStmts, restated
)

type vxC14Stmt struct {
	Kind   string   `json:"kind"`   // select | insert | update | delete
	Extra  []string `json:"extra"`  // types of the bind columns after (tok<i> text, op int): "int" | "text"
	Res    []string `json:"res"`    // result columns of a select: "int" | "text"
	Global bool     `json:"global"` // PREPARED metadata uses the global table spec
	Wide   int      `json:"wide,omitempty"` // >0: a select with that many int result columns (instead of Res)
	Twin   int      `json:"twin,omitempty"` // >0: the text of this statement is that of statement Twin-1 with its token column in capitals - another statement for the server (another id), the same for whoever folds the case
}

// res: the result columns of a select.
func (s *vxC14Stmt) res() []string {
	if s.Wide <= 0 {
		return s.Res
	}
	out := make([]string, s.Wide)
	for i := range out {
		out[i] = "int"
	}
	return out
}

type vxC14Entry struct {
	Stmt  int  `json:"stmt"`
	NVals int  `json:"nvals"` // number of values bound; the statement's arity is the right number
	Bind  bool `json:"bind"`  // values come from a binding callback (Session.Bind / Batch.Bind)
	Plain bool `json:"plain"` // batch only: entry without values (goes unprepared)
}

type vxC14Op struct {
	Batch   bool         `json:"batch"`
	Logged  bool         `json:"logged"`
	Entries []vxC14Entry `json:"entries"` // exactly one entry for a query
	Cancel  bool         `json:"cancel,omitempty"` // rounds with held PREPAREs: this caller's context is cancelled while they are held
}

type vxC14Round struct {
	Ops    []vxC14Op `json:"ops"`     // one concurrent executor each
	Hold   bool      `json:"hold"`    // PREPAREs are held back until every executor has started
	HoldUS int       `json:"hold_us"` // ... plus this many microseconds
	Drop   bool      `json:"drop,omitempty"` // with Hold: while PREPAREs are unanswered the client closes its pool connections itself (what a DOWN event or RemoveHost does): no error travels with that close, only the connection's context ends
}

type vxC14Forget struct {
	At     int  `json:"at"`   // before the node's At-th EXECUTE/BATCH (0-based)
	Stmt   int  `json:"stmt"` // -1: every id
	Late   bool `json:"late"` // all UNPREPARED answers for an id but the first wait for the next PREPARE answer of that key
	Other  bool `json:"other,omitempty"` // the UNPREPARED answers name another id than the one sent (nothing can be prepared again: the execution fails with that error)
	LateUS int  `json:"late_us"`
}

type vxC14Script struct {
	Prepare []string      `json:"prepare"` // outcome of the n-th PREPARE at this node: "ok" | error name; "ok" beyond the list
	Forget  []vxC14Forget `json:"forget"`
}

type vxC14Case struct {
	Proto     int           `json:"proto"`
	Hosts     int           `json:"hosts"`
	Keyspaces int           `json:"keyspaces"` // 2: second connection of every pool is switched to ks2
	KsName    string        `json:"ks_name"`   // cfg.Keyspace when Keyspaces == 1 ("" = none)
	MaxStmts  int           `json:"max_stmts"` // 0: leave the default
	Stmts     []vxC14Stmt   `json:"stmts"`
	Rounds    []vxC14Round  `json:"rounds"`
	Nodes     []vxC14Script `json:"nodes"`
}

var vxC14ErrCodes = map[string]int{
	"invalid":      cqlspec.ErrInvalid,
	"syntax":       cqlspec.ErrSyntax,
	"unauthorized": cqlspec.ErrUnauthorized,
	"server":       cqlspec.ErrServer,
	"overloaded":   cqlspec.ErrOverloaded,
	"config":       cqlspec.ErrConfig,
}

func (s *vxC14Stmt) arity() int { return 2 + len(s.Extra) }

func (c *vxC14Case) text(i int) string {
	s := &c.Stmts[i]
	if b := s.Twin - 1; b >= 0 && b < i && c.Stmts[b].Twin == 0 {
		return strings.Replace(c.text(b), "tok"+strconv.Itoa(b), "TOK"+strconv.Itoa(b), -1)
	}
	tok := "tok" + strconv.Itoa(i)
	var cols []string
	cols = append(cols, tok, "op")
	for j := range s.Extra {
		cols = append(cols, "c"+strconv.Itoa(j))
	}
	conds := make([]string, len(cols))
	for j, n := range cols {
		conds[j] = n + " = ?"
	}
	switch s.Kind {
	case "select":
		var rv []string
		for j := range s.res() {
			rv = append(rv, "v"+strconv.Itoa(j))
		}
		return "SELECT " + strings.Join(rv, ", ") + " FROM t WHERE " + strings.Join(conds, " AND ")
	case "insert":
		q := strings.TrimSuffix(strings.Repeat("?, ", len(cols)), ", ")
		return "INSERT INTO t (" + strings.Join(cols, ", ") + ") VALUES (" + q + ")"
	case "update":
		return "UPDATE t SET x = 1 WHERE " + strings.Join(conds, " AND ")
	}
	return "DELETE FROM t WHERE " + strings.Join(conds, " AND ")
}

func vxC14Type(n string) *cqlspec.Type {
	if n == "int" {
		return cqlspec.Scalar(cqlspec.Int)
	}
	return cqlspec.Scalar(cqlspec.Varchar)
}

// bindCols / resCols are the metadata the node announces for statement i.
func (c *vxC14Case) bindCols(i int, ks string) []cqlspec.Column {
	s := &c.Stmts[i]
	cols := []cqlspec.Column{{Keyspace: ks, Table: "t", Name: "tok" + strconv.Itoa(i), Type: vxC14Type("text")},
		{Keyspace: ks, Table: "t", Name: "op", Type: vxC14Type("int")}}
	for j, t := range s.Extra {
		cols = append(cols, cqlspec.Column{Keyspace: ks, Table: "t", Name: "c" + strconv.Itoa(j), Type: vxC14Type(t)})
	}
	return cols
}

func (c *vxC14Case) resCols(i int, ks string) []cqlspec.Column {
	s := &c.Stmts[i]
	cols := []cqlspec.Column{}
	if s.Kind != "select" {
		return cols
	}
	for j, t := range s.res() {
		cols = append(cols, cqlspec.Column{Keyspace: ks, Table: "t", Name: "v" + strconv.Itoa(j), Type: vxC14Type(t)})
	}
	return cols
}

// values are the Go values an operation binds: the right ones first, padded with ints.
func (c *vxC14Case) values(stmt, op, n int) []interface{} {
	s := &c.Stmts[stmt]
	all := []interface{}{"tok" + strconv.Itoa(stmt), op}
	for j, t := range s.Extra {
		if t == "int" {
			all = append(all, op*4+j)
		} else {
			all = append(all, "x"+strconv.Itoa(j)+"."+strconv.Itoa(op))
		}
	}
	for len(all) < n {
		all = append(all, 7)
	}
	return all[:n]
}

// wireValue is the encoding the node expects for value j of operation op on statement stmt.
func (c *vxC14Case) wireValue(stmt, op, j int) []byte {
	s := &c.Stmts[stmt]
	be := func(n int) []byte { return []byte{byte(n >> 24), byte(n >> 16), byte(n >> 8), byte(n)} }
	switch {
	case j == 0:
		return []byte("tok" + strconv.Itoa(stmt))
	case j == 1:
		return be(op)
	case s.Extra[j-2] == "int":
		return be(op*4 + j - 2)
	}
	return []byte("x" + strconv.Itoa(j-2) + "." + strconv.Itoa(op))
}

func (c *vxC14Case) plainText(op int) string {
	return "INSERT INTO plain (a) VALUES (" + strconv.Itoa(op) + ")"
}

func (c *vxC14Case) ksOf(conn int) string {
	if c.Keyspaces == 2 {
		return "ks" + strconv.Itoa(conn+1)
	}
	return c.KsName
}

func (c *vxC14Case) capacity() int {
	if c.MaxStmts > 0 {
		return c.MaxStmts
	}
	return vxC14DefaultCap
}

func (c *vxC14Case) wrong(op *vxC14Op) bool {
	for _, e := range op.Entries {
		if !e.Plain && e.NVals != c.Stmts[e.Stmt].arity() {
			return true
		}
	}
	return false
}

// sane repairs a case decoded from a (possibly hand-edited) replay file so that Run cannot index out of range.
func (c *vxC14Case) sane() bool {
	texts := map[string]bool{}
	for i := range c.Stmts {
		if c.Stmts[i].Twin < 0 || c.Stmts[i].Twin > i || texts[c.text(i)] {
			return false
		}
		texts[c.text(i)] = true
	}
	if c.Proto < 1 || c.Proto > 5 || c.Hosts < 1 || c.Hosts > 2 || c.Keyspaces < 1 || c.Keyspaces > 2 || len(c.Stmts) == 0 || len(c.Nodes) < c.Hosts {
		return false
	}
	for _, r := range c.Rounds {
		for _, op := range r.Ops {
			if len(op.Entries) == 0 || (op.Batch && c.Proto < 2) {
				return false
			}
			for _, e := range op.Entries {
				if e.Stmt < 0 || e.Stmt >= len(c.Stmts) || e.NVals < 0 || e.NVals > 12 {
					return false
				}
			}
		}
	}
	for _, n := range c.Nodes {
		for _, f := range n.Forget {
			if f.Stmt >= len(c.Stmts) {
				return false
			}
		}
		for _, p := range n.Prepare {
			if _, ok := vxC14ErrCodes[p]; !ok && p != "ok" && p != "close" && p != "wrongkind" {
				return false
			}
		}
	}
	return true
}

// ---------------------------------------------------------------------------------------------
// the nodes' side

type vxC14ID struct {
	hex       string
	node      int
	ks        string
	stmt      int
	forgotten bool
	late      bool
	lateUS    int
	unprep    int // UNPREPARED answers given for this id
	other     bool
}

type vxC14Prep struct {
	node, stmt, round, nth int
	ks                     string
	fail                   bool
	marker                 string
	closed                 bool // the node dropped the connection instead of answering (transport-level failure)
	orphan                 bool // the client had closed the connection before the node read this request (a pool closed under a PREPARE that was on its way): the answer reaches nobody
}

type vxC14Exec struct {
	node   int
	ks     string
	answer string // ok | unprepared | bad
}

type vxC14NodeSt struct {
	nPrep, nExec, nextID int
	late                 map[string][]func() // key -> UNPREPARED answers waiting for the next PREPARE answer
}

type vxC14World struct {
	c *vxC14Case

	mu     sync.Mutex
	round  int
	hold   bool
	held   []func()
	nodes  []*vxC14NodeSt
	ids    map[string]*vxC14ID // ids are unique over the whole cluster
	viol   []string
	preps  []*vxC14Prep
	execs  map[int][]vxC14Exec // by operation
	queued int                 // UNPREPARED answers that were held back
	done   bool
	closeRounds map[int]bool   // rounds in which a node dropped a connection on PREPARE
}

func vxC14ConnErr(e string) bool {
	// not "context canceled": a caller whose context lives is told that the connection went away, not that
	// somebody cancelled (the executor would take that for the caller giving up and try no other host)
	for _, m := range []string{"EOF", "closed", "connection", "no hosts", "broken pipe", "reset"} {
		if strings.Contains(e, m) {
			return true
		}
	}
	return false
}

var vxC14TokRe = regexp.MustCompile(`\btok(\d+)\b`)

func (w *vxC14World) violate(format string, a ...interface{}) {
	if !w.done {
		w.viol = append(w.viol, fmt.Sprintf(format, a...))
	}
}

func vxC14Key(node int, ks string, stmt int) string {
	return strconv.Itoa(node) + "|" + ks + "|" + strconv.Itoa(stmt)
}

func vxC14Bad(msg string) *cqlspec.Response {
	return &cqlspec.Response{Kind: "ERROR", Code: cqlspec.ErrInvalid, Message: "vxC14 node refuses: " + msg}
}

func (w *vxC14World) handle(ni int, rc *vnode.ReqCtx) {
	switch rc.Req.Kind {
	case "PREPARE":
		w.onPrepare(ni, rc)
	case "EXECUTE":
		w.onExecute(ni, rc)
	case "BATCH":
		w.onBatch(ni, rc)
	default:
		w.mu.Lock()
		w.violate("node %d: statement sent as plain %s, not prepared: %q", ni, rc.Req.Kind, rc.Req.Statement)
		w.mu.Unlock()
		rc.Reply(vxVoid())
	}
}

func (w *vxC14World) onPrepare(ni int, rc *vnode.ReqCtx) {
	c := w.c
	w.mu.Lock()
	n := w.nodes[ni]
	nth := n.nPrep
	n.nPrep++
	ks := rc.Conn.Keyspace
	stmt := -1
	for i := range c.Stmts {
		if c.text(i) == rc.Req.Statement {
			stmt = i
		}
	}
	if stmt < 0 || stmt >= len(c.Stmts) || c.text(stmt) != rc.Req.Statement {
		w.violate("node %d: PREPARE of a statement nobody executed: %q", ni, rc.Req.Statement)
		w.mu.Unlock()
		rc.Reply(vxC14Bad("unknown statement"))
		return
	}
	if rc.Req.HasPrepareKS && rc.Req.PrepareKeyspace != ks {
		w.violate("node %d: PREPARE names keyspace %q on a connection that is in %q", ni, rc.Req.PrepareKeyspace, ks)
	}
	outcome := "ok"
	if nth < len(c.Nodes[ni].Prepare) {
		outcome = c.Nodes[ni].Prepare[nth]
	}
	ev := &vxC14Prep{node: ni, stmt: stmt, round: w.round, nth: nth, ks: ks, orphan: rc.Conn.Client.Closed()}
	w.preps = append(w.preps, ev)
	var resp *cqlspec.Response
	if outcome == "close" && c.Keyspaces == 1 {
		// transport-level failure of the PREPARE: the node drops the connection without answering
		ev.fail, ev.closed = true, true
		if w.closeRounds == nil {
			w.closeRounds = map[int]bool{}
		}
		w.closeRounds[w.round] = true
		w.mu.Unlock()
		rc.Conn.Close()
		return
	}
	if outcome == "close" {
		outcome = "ok"
	}
	if outcome == "wrongkind" {
		// a well-formed frame that is no answer to PREPARE (a set-keyspace result): a failed PREPARE like the refusals
		ev.fail = true
		ev.marker = fmt.Sprintf("vxc14_wrongkind_n%d_p%d", ni, nth)
		resp = &cqlspec.Response{Kind: "SET_KEYSPACE", Keyspace: ev.marker}
	} else if outcome != "ok" {
		ev.fail = true
		ev.marker = fmt.Sprintf("vxC14-refused-n%d-p%d;", ni, nth)
		resp = &cqlspec.Response{Kind: "ERROR", Code: vxC14ErrCodes[outcome], Message: ev.marker}
	} else {
		n.nextID++
		id := &vxC14ID{hex: hex.EncodeToString([]byte(fmt.Sprintf("n%d#%05d", ni, n.nextID))), node: ni, ks: ks, stmt: stmt}
		w.ids[id.hex] = id
		mks := ks
		if mks == "" {
			mks = "ksx"
		}
		bm := &cqlspec.Metadata{Columns: c.bindCols(stmt, mks)}
		rm := &cqlspec.Metadata{Columns: c.resCols(stmt, mks)}
		if c.Stmts[stmt].Global {
			bm.GlobalSpec, bm.Keyspace, bm.Table = true, mks, "t"
			if len(rm.Columns) > 0 {
				rm.GlobalSpec, rm.Keyspace, rm.Table = true, mks, "t"
			}
		}
		if c.Proto >= 4 {
			bm.PKIndexes = []int{0}
		}
		resp = &cqlspec.Response{Kind: "PREPARED", PreparedIDHex: id.hex, Meta: bm, ResultMeta: rm}
	}
	key := vxC14Key(ni, ks, stmt)
	reply := func() {
		rc.Reply(resp)
		w.flushLate(ni, key)
	}
	if w.hold {
		w.held = append(w.held, reply)
		w.mu.Unlock()
		return
	}
	w.mu.Unlock()
	reply()
}

// flushLate sends the UNPREPARED answers that were waiting for a PREPARE answer of key.
func (w *vxC14World) flushLate(ni int, key string) {
	w.mu.Lock()
	q := w.nodes[ni].late[key]
	delete(w.nodes[ni].late, key)
	w.mu.Unlock()
	for _, f := range q {
		f()
	}
}

func (w *vxC14World) release() {
	w.mu.Lock()
	w.hold = false
	h := w.held
	w.held = nil
	w.mu.Unlock()
	for _, f := range h {
		f()
	}
}

func (w *vxC14World) applyForgets(ni int) {
	n := w.nodes[ni]
	idx := n.nExec
	n.nExec++
	for _, f := range w.c.Nodes[ni].Forget {
		if f.At != idx {
			continue
		}
		for _, id := range w.ids {
			if id.node == ni && !id.forgotten && (f.Stmt < 0 || f.Stmt == id.stmt) {
				id.forgotten, id.late, id.lateUS = true, f.Late && !f.Other, f.LateUS
				id.other = id.other || f.Other
			}
		}
	}
}

// checkEntry judges one EXECUTE / prepared BATCH entry against the node's own table (w.mu held).
func (w *vxC14World) checkEntry(ni int, ks, idHex string, vals []cqlspec.ReqValue, what string) (id *vxC14ID, op int, ok bool) {
	c := w.c
	raw := func(v cqlspec.ReqValue) []byte {
		b, _ := hex.DecodeString(v.Hex)
		return b
	}
	id = w.ids[idHex]
	idb, _ := hex.DecodeString(idHex)
	if id == nil {
		w.violate("node %d: %s carries id %q which no node ever issued", ni, what, idb)
		return nil, 0, false
	}
	if id.node != ni {
		w.violate("node %d: %s carries id %q which node %d issued (for tok%d in keyspace %q)", ni, what, idb, id.node, id.stmt, id.ks)
		return nil, 0, false
	}
	if id.ks != ks {
		w.violate("node %d: %s on a connection in keyspace %q carries id %q that was prepared in keyspace %q", ni, what, ks, idb, id.ks)
		return nil, 0, false
	}
	ar := c.Stmts[id.stmt].arity()
	if len(vals) != ar {
		w.violate("node %d: %s with id %q (tok%d, arity %d) carries %d values", ni, what, idb, id.stmt, ar, len(vals))
		return nil, 0, false
	}
	for j, v := range vals {
		if v.Null || v.Unset || v.Name != "" {
			w.violate("node %d: %s value %d is null/unset/named", ni, what, j)
			return nil, 0, false
		}
	}
	if tok := string(raw(vals[0])); tok != "tok"+strconv.Itoa(id.stmt) {
		w.violate("node %d: %s binds token %q but its id %q was issued for tok%d", ni, what, tok, idb, id.stmt)
		return nil, 0, false
	}
	ob := raw(vals[1])
	if len(ob) != 4 {
		w.violate("node %d: %s value 1 (int) has %d bytes", ni, what, len(ob))
		return nil, 0, false
	}
	op = int(ob[0])<<24 | int(ob[1])<<16 | int(ob[2])<<8 | int(ob[3])
	for j := 2; j < ar; j++ {
		if want := c.wireValue(id.stmt, op, j); string(raw(vals[j])) != string(want) {
			w.violate("node %d: %s (tok%d, op %d) value %d is % x, the statement's bind metadata (%s) gives % x", ni, what, id.stmt, op, j, raw(vals[j]), c.Stmts[id.stmt].Extra[j-2], want)
			return nil, 0, false
		}
	}
	return id, op, true
}

func vxC14UnprepAnswer(id *vxC14ID) string {
	if id.other {
		return "unprepared-other"
	}
	return "unprepared"
}

// unprepared answers rc with UNPREPARED for id - at once, or (late mode, not the first answer for this
// id) when the next PREPARE of the same key has been answered, at the latest after vxC14LateFlush.
func (w *vxC14World) unprepared(ni int, rc *vnode.ReqCtx, id *vxC14ID) func() {
	resp := &cqlspec.Response{Kind: "ERROR", Code: cqlspec.ErrUnprepared, Message: "vxC14 unprepared", UnpreparedIDHex: id.hex}
	if id.other {
		resp.UnpreparedIDHex = "ffee" + id.hex
	}
	first := id.unprep == 0
	id.unprep++
	if !id.late || first {
		return func() { rc.Reply(resp) }
	}
	w.queued++
	key := vxC14Key(ni, id.ks, id.stmt)
	var once sync.Once
	us := id.lateUS
	send := func() {
		once.Do(func() {
			if us > 0 {
				time.Sleep(time.Duration(us) * time.Microsecond)
			}
			rc.Reply(resp)
		})
	}
	n := w.nodes[ni]
	n.late[key] = append(n.late[key], func() { go send() })
	return func() { time.AfterFunc(vxC14LateFlush, send) }
}

func (w *vxC14World) onExecute(ni int, rc *vnode.ReqCtx) {
	c := w.c
	w.mu.Lock()
	w.applyForgets(ni)
	ks := rc.Conn.Keyspace
	var vals []cqlspec.ReqValue
	if rc.Req.Params != nil {
		vals = rc.Req.Params.Values
		if rc.Req.Params.HasKeyspace && rc.Req.Params.Keyspace != ks {
			w.violate("node %d: EXECUTE names keyspace %q on a connection that is in %q", ni, rc.Req.Params.Keyspace, ks)
		}
	}
	id, op, ok := w.checkEntry(ni, ks, rc.Req.IDHex, vals, "EXECUTE")
	if !ok {
		w.mu.Unlock()
		rc.Reply(vxC14Bad("bad execute"))
		return
	}
	if id.forgotten {
		w.execs[op] = append(w.execs[op], vxC14Exec{node: ni, ks: ks, answer: vxC14UnprepAnswer(id)})
		f := w.unprepared(ni, rc, id)
		w.mu.Unlock()
		f()
		return
	}
	w.execs[op] = append(w.execs[op], vxC14Exec{node: ni, ks: ks, answer: "ok"})
	w.mu.Unlock()
	s := &c.Stmts[id.stmt]
	if s.Kind != "select" {
		rc.Reply(vxVoid())
		return
	}
	mks := ks
	if mks == "" {
		mks = "ksx"
	}
	meta := &cqlspec.Metadata{Columns: c.resCols(id.stmt, mks)}
	if rc.Req.Params != nil && rc.Req.Params.SkipMeta {
		meta.NoMetadata = true
	}
	var row []cqlspec.Value
	for j, t := range s.res() {
		if t == "int" {
			row = append(row, cqlspec.I64Value(int64(op*8+j)))
		} else {
			row = append(row, cqlspec.BytesValue([]byte(vxC14ResText(id.stmt, op, j))))
		}
	}
	rc.Reply(&cqlspec.Response{Kind: "ROWS", Meta: meta, Rows: [][]cqlspec.Value{row}})
}

func vxC14ResText(stmt, op, j int) string {
	return "r" + strconv.Itoa(stmt) + "." + strconv.Itoa(op) + "." + strconv.Itoa(j)
}

var vxC14PlainRe = regexp.MustCompile(`^INSERT INTO plain \(a\) VALUES \((\d+)\)$`)

func (w *vxC14World) onBatch(ni int, rc *vnode.ReqCtx) {
	w.mu.Lock()
	w.applyForgets(ni)
	ks := rc.Conn.Keyspace
	op := -1
	var lost *vxC14ID
	for i, e := range rc.Req.Entries {
		if !e.Prepared {
			m := vxC14PlainRe.FindStringSubmatch(e.Statement)
			if m == nil || len(e.Values) != 0 {
				w.violate("node %d: BATCH entry %d is the unprepared statement %q with %d values", ni, i, e.Statement, len(e.Values))
				w.mu.Unlock()
				rc.Reply(vxC14Bad("bad batch entry"))
				return
			}
			if op < 0 {
				op, _ = strconv.Atoi(m[1])
			}
			continue
		}
		id, eop, ok := w.checkEntry(ni, ks, e.IDHex, e.Values, fmt.Sprintf("BATCH entry %d", i))
		if !ok {
			w.mu.Unlock()
			rc.Reply(vxC14Bad("bad batch entry"))
			return
		}
		op = eop
		if id.forgotten && lost == nil {
			lost = id
		}
	}
	if lost != nil {
		w.execs[op] = append(w.execs[op], vxC14Exec{node: ni, ks: ks, answer: vxC14UnprepAnswer(lost)})
		f := w.unprepared(ni, rc, lost)
		w.mu.Unlock()
		f()
		return
	}
	w.execs[op] = append(w.execs[op], vxC14Exec{node: ni, ks: ks, answer: "ok"})
	w.mu.Unlock()
	rc.Reply(vxVoid())
}

// ---------------------------------------------------------------------------------------------
// the callers' side

type vxC14Res struct {
	err   string
	panic string
	bad   string // a complaint of the binding callback or of the row check
	v1    string // protocol 1 only: the rows of a prepared SELECT came back without columns (known class)
}

func vxC14TypeName(t TypeInfo) string {
	switch t.Type() {
	case TypeInt:
		return "int"
	case TypeVarchar, TypeText:
		return "text"
	}
	return t.Type().String()
}

// binding returns the callback of a Bind entry: it compares what the driver says about the prepared
// statement with the statement's own metadata, then hands out the values.
func (w *vxC14World) binding(e vxC14Entry, op int, res *vxC14Res) func(*QueryInfo) ([]interface{}, error) {
	c := w.c
	return func(qi *QueryInfo) ([]interface{}, error) {
		want := c.bindCols(e.Stmt, "")
		if len(qi.Args) != len(want) {
			res.bad = fmt.Sprintf("binding callback of tok%d got %d bind columns, the statement has %d", e.Stmt, len(qi.Args), len(want))
		} else {
			for j := range want {
				if qi.Args[j].Name != want[j].Name || vxC14TypeName(qi.Args[j].TypeInfo) != vxC14TypeName(vxC14TI(want[j].Type)) {
					res.bad = fmt.Sprintf("binding callback of tok%d: bind column %d is %s %v, the statement has %s %v", e.Stmt, j, qi.Args[j].Name, qi.Args[j].TypeInfo, want[j].Name, want[j].Type)
				}
			}
		}
		if c.Proto >= 2 {
			wr := c.resCols(e.Stmt, "")
			if len(qi.Rval) != len(wr) {
				res.bad = fmt.Sprintf("binding callback of tok%d got %d result columns, the statement has %d", e.Stmt, len(qi.Rval), len(wr))
			} else {
				for j := range wr {
					if qi.Rval[j].Name != wr[j].Name || vxC14TypeName(qi.Rval[j].TypeInfo) != vxC14TypeName(vxC14TI(wr[j].Type)) {
						res.bad = fmt.Sprintf("binding callback of tok%d: result column %d is %s %v, the statement has %s %v", e.Stmt, j, qi.Rval[j].Name, qi.Rval[j].TypeInfo, wr[j].Name, wr[j].Type)
					}
				}
			}
		}
		w.mu.Lock()
		id := w.ids[hex.EncodeToString(qi.Id)]
		w.mu.Unlock()
		if id == nil || id.stmt != e.Stmt {
			res.bad = fmt.Sprintf("binding callback of tok%d was given id %q which was not issued for that statement", e.Stmt, qi.Id)
		}
		return c.values(e.Stmt, op, e.NVals), nil
	}
}

func vxC14TI(t *cqlspec.Type) TypeInfo {
	if t.Kind == cqlspec.Int {
		return NativeType{typ: TypeInt}
	}
	return NativeType{typ: TypeVarchar}
}

// anyGaveUp: did any caller cancel its context in that round or an earlier one?
func (c *vxC14Case) anyGaveUp(round int) bool {
	for ri := 0; ri <= round && ri < len(c.Rounds); ri++ {
		for _, op := range c.Rounds[ri].Ops {
			if c.Rounds[ri].Hold && op.Cancel {
				return true
			}
		}
	}
	return false
}

// gaveUp: did a caller using stmt cancel its context in that round or an earlier one? (The PREPARE such a
// caller started is on its own from then on: it may reach the node, and be answered, rounds later.)
func (c *vxC14Case) gaveUp(round, stmt int) bool {
	for ri := 0; ri <= round && ri < len(c.Rounds); ri++ {
		if !c.Rounds[ri].Hold {
			continue
		}
		for _, op := range c.Rounds[ri].Ops {
			if !op.Cancel {
				continue
			}
			for _, e := range op.Entries {
				if !e.Plain && e.Stmt == stmt {
					return true
				}
			}
		}
	}
	return false
}

func (w *vxC14World) runOp(ctx context.Context, s *Session, op *vxC14Op, opID int, res *vxC14Res) {
	defer func() {
		if r := recover(); r != nil {
			res.panic = fmt.Sprint(r)
		}
	}()
	c := w.c
	if op.Batch {
		bt := UnloggedBatch
		if op.Logged {
			bt = LoggedBatch
		}
		b := s.NewBatch(bt)
		for _, e := range op.Entries {
			switch {
			case e.Plain:
				b.Query(c.plainText(opID))
			case e.Bind:
				b.Bind(c.text(e.Stmt), w.binding(e, opID, res))
			default:
				b.Query(c.text(e.Stmt), c.values(e.Stmt, opID, e.NVals)...)
			}
		}
		if err := s.ExecuteBatch(b.WithContext(ctx)); err != nil {
			res.err = err.Error()
		}
		return
	}
	e := op.Entries[0]
	var q *Query
	if e.Bind {
		q = s.Bind(c.text(e.Stmt), w.binding(e, opID, res))
	} else {
		q = s.Query(c.text(e.Stmt), c.values(e.Stmt, opID, e.NVals)...)
	}
	q = q.WithContext(ctx)
	st := &c.Stmts[e.Stmt]
	if st.Kind != "select" {
		if err := q.Exec(); err != nil {
			res.err = err.Error()
		}
		return
	}
	iter := q.Iter()
	rows, err := iter.SliceMap()
	if cerr := iter.Close(); err == nil {
		err = cerr
	}
	if err != nil {
		res.err = err.Error()
		return
	}
	if c.Proto == 1 && len(rows) == 1 && len(rows[0]) == 0 && len(iter.Columns()) == 0 {
		res.v1 = fmt.Sprintf("protocol 1: SELECT tok%d (op %d) was executed, the ROWS answer carried %d column(s), the caller got a row without columns", e.Stmt, opID, len(st.res()))
		return
	}
	if len(rows) != 1 || len(rows[0]) != len(st.res()) {
		res.bad = fmt.Sprintf("select tok%d (op %d) returned %v, want one row of %d columns", e.Stmt, opID, rows, len(st.res()))
		return
	}
	for j, t := range st.res() {
		var want interface{} = vxC14ResText(e.Stmt, opID, j)
		if t == "int" {
			want = opID*8 + j
		}
		if got := rows[0]["v"+strconv.Itoa(j)]; got != want {
			res.bad = fmt.Sprintf("select tok%d (op %d) column v%d = %#v, want %#v (row %v)", e.Stmt, opID, j, got, want, rows[0])
		}
	}
}

// vxC14Pools waits until every host has its connections and returns them.
func vxC14Pools(s *Session, hosts, conns int) ([][]*Conn, error) {
	deadline := time.Now().Add(vxC14Watchdog)
	for {
		var out [][]*Conn
		s.pool.mu.RLock()
		var keys []string
		for k := range s.pool.hostConnPools {
			keys = append(keys, k)
		}
		sort.Strings(keys)
		for _, k := range keys {
			p := s.pool.hostConnPools[k]
			p.mu.RLock()
			if len(p.conns) == conns {
				out = append(out, append([]*Conn{}, p.conns...))
			}
			p.mu.RUnlock()
		}
		s.pool.mu.RUnlock()
		if len(out) == hosts {
			return out, nil
		}
		if time.Now().After(deadline) {
			return nil, fmt.Errorf("pools not filled: %d of %d hosts have %d connections", len(out), hosts, conns)
		}
		time.Sleep(200 * time.Microsecond)
	}
}

type vxC14Hung struct{ what string }

func (e *vxC14Hung) Error() string { return e.what }

// vxC14Run runs one case and judges it. A *vxC14Hung error means the watchdog expired.
func vxC14Run(c *vxC14Case, k *vstats.Case) error {
	cl := vnode.NewCluster(vxSpecs(c.Hosts, 2))
	w := &vxC14World{c: c, ids: map[string]*vxC14ID{}, execs: map[int][]vxC14Exec{}}
	for i, n := range cl.Nodes() {
		i := i
		w.nodes = append(w.nodes, &vxC14NodeSt{late: map[string][]func(){}})
		n.Handler = func(rc *vnode.ReqCtx) { w.handle(i, rc) }
	}
	s, err := vxClusterConfig(cl, c.Proto, func(cfg *ClusterConfig) {
		cfg.NumConns = c.Keyspaces
		cfg.Keyspace = c.ksOf(0)
		if c.MaxStmts > 0 {
			cfg.MaxPreparedStmts = c.MaxStmts
		}
		cfg.Timeout = 10 * time.Second
	}).CreateSession()
	if err != nil {
		return fmt.Errorf("harness: CreateSession: %v", err)
	}
	defer s.Close()
	pools, err := vxC14Pools(s, c.Hosts, c.Keyspaces)
	if err != nil {
		return fmt.Errorf("harness: %v", err)
	}
	if c.Keyspaces == 2 {
		for _, p := range pools {
			if err := p[1].UseKeyspace("ks2"); err != nil {
				return fmt.Errorf("harness: UseKeyspace: %v", err)
			}
		}
	}

	capN := c.capacity()
	var over int64 // largest cache length seen above the capacity
	sample := func() {
		s.stmtsLRU.mu.Lock()
		n := s.stmtsLRU.lru.Len()
		s.stmtsLRU.mu.Unlock()
		if n > capN {
			for {
				old := atomic.LoadInt64(&over)
				if int64(n) <= old || atomic.CompareAndSwapInt64(&over, old, int64(n)) {
					break
				}
			}
		}
	}
	stopSampler := make(chan struct{})
	samplerDone := make(chan struct{})
	go func() {
		defer close(samplerDone)
		for {
			select {
			case <-stopSampler:
				return
			default:
			}
			sample()
			time.Sleep(50 * time.Microsecond)
		}
	}()
	stop := func() {
		close(stopSampler)
		select {
		case <-samplerDone:
		case <-time.After(2 * time.Second):
			// the sampler waits for the cache's mutex: somebody holds it for good (reported by the watchdog)
		}
	}

	type opRef struct {
		round int
		op    *vxC14Op
		res   *vxC14Res
	}
	ops := map[int]*opRef{}
	var order []int
	next := 1
	for ri := range c.Rounds {
		r := &c.Rounds[ri]
		w.mu.Lock()
		w.round = ri
		w.hold = r.Hold
		w.mu.Unlock()
		var started int64
		var wg sync.WaitGroup
		var cancels []context.CancelFunc
		for oi := range r.Ops {
			id := next
			next++
			ref := &opRef{round: ri, op: &r.Ops[oi], res: &vxC14Res{}}
			ops[id] = ref
			order = append(order, id)
			wg.Add(1)
			ctx := context.Background()
			if r.Hold && ref.op.Cancel {
				var cancel context.CancelFunc
				ctx, cancel = context.WithCancel(ctx)
				cancels = append(cancels, cancel)
			}
			go func() {
				defer wg.Done()
				atomic.AddInt64(&started, 1)
				w.runOp(ctx, s, ref.op, id, ref.res)
			}()
		}
		if r.Hold {
			go func(n int64, us int, cancels []context.CancelFunc) {
				for atomic.LoadInt64(&started) < n {
					time.Sleep(20 * time.Microsecond)
				}
				time.Sleep(time.Duration(us) * time.Microsecond)
				if r.Drop && c.Keyspaces == 1 {
					for i := 0; i < 100; i++ {
						w.mu.Lock()
						nh := len(w.held)
						w.mu.Unlock()
						if nh > 0 {
							break
						}
						time.Sleep(20 * time.Microsecond)
					}
					w.mu.Lock()
					if w.closeRounds == nil {
						w.closeRounds = map[int]bool{}
					}
					w.closeRounds[ri] = true
					w.mu.Unlock()
					// the way a DOWN event or a RemoveHost closes them: the pool goes, and a new one is made
					for _, h := range s.ring.allHosts() {
						s.pool.removeHost(h.HostID())
					}
					for _, h := range s.ring.allHosts() {
						s.pool.addHost(h)
					}
					time.Sleep(time.Duration(us+100) * time.Microsecond)
				}
				if len(cancels) > 0 {
					// some callers give up while the PREPAREs are unanswered: wait (briefly) until one is held
					for i := 0; i < 100; i++ {
						w.mu.Lock()
						nh := len(w.held)
						w.mu.Unlock()
						if nh > 0 {
							break
						}
						time.Sleep(20 * time.Microsecond)
					}
					for _, cancel := range cancels {
						cancel()
					}
					time.Sleep(time.Duration(us+100) * time.Microsecond)
				}
				w.release()
			}(int64(len(r.Ops)), r.HoldUS, cancels)
		}
		joined := make(chan struct{})
		go func() { wg.Wait(); close(joined) }()
		watchdog := time.After(vxC14Watchdog)
		lastFree := time.Now()
	wait:
		for {
			select {
			case <-joined:
				break wait
			case <-time.After(50 * time.Millisecond):
				// the cache's mutex guards a few map operations; nobody holds it for seconds unless it waits for
				// something while holding it - and whoever needs the mutex to let that happen waits for ever
				if s.stmtsLRU.mu.TryLock() {
					s.stmtsLRU.mu.Unlock()
					lastFree = time.Now()
				} else if time.Since(lastFree) > 3*time.Second {
					w.mu.Lock()
					w.done = true
					w.mu.Unlock()
					w.release()
					stop()
					var who []string
					for _, g := range vxGoroutines() {
						for _, f := range g.Funcs {
							if strings.Contains(f, "(*preparedLRU)") {
								who = append(who, fmt.Sprintf("%s [%s]", strings.TrimPrefix(f, vxPkgPath+"."), g.State))
								break
							}
						}
					}
					sort.Strings(who)
					return fmt.Errorf("round %d: the mutex of the prepared-statement cache has been held for 3 s while executors are blocked (deadlock): %s", ri, strings.Join(who, ", "))
				}
			case <-watchdog:
				w.mu.Lock()
				w.done = true
				w.mu.Unlock()
				w.release()
				stop()
				return &vxC14Hung{what: fmt.Sprintf("round %d: executors still blocked after %v", ri, vxC14Watchdog)}
			}
		}
		sample()
		w.mu.Lock()
		closedNow := w.closeRounds[ri] || (len(w.closeRounds) > 0 && c.anyGaveUp(ri))
		w.mu.Unlock()
		if closedNow {
			// let the pools replace the dropped connections before the next round starts, so that a
			// connection-level error in a later round cannot be blamed on the refill
			deadline := time.Now().Add(5 * time.Second)
			for time.Now().Before(deadline) {
				open := 0
				for _, pc := range vxPoolConns(s) {
					if !pc.Closed() {
						open++
					}
				}
				if open >= c.Hosts*c.Keyspaces {
					break
				}
				time.Sleep(2 * time.Millisecond)
			}
		}
	}
	stop()
	w.mu.Lock()
	w.done = true
	w.mu.Unlock()
	// everything below reads w without further synchronisation needs: all executors have returned and
	// late timers only send replies

	w.mu.Lock()
	defer w.mu.Unlock()

	// ---- statistics
	k.Class(fmt.Sprintf("proto=%d", c.Proto))
	k.Class(fmt.Sprintf("hosts=%d,keyspaces=%d", c.Hosts, c.Keyspaces))
	if c.MaxStmts == 0 {
		k.Class("cap=default")
	} else {
		k.Class(fmt.Sprintf("cap=%d", c.MaxStmts))
	}
	keys := map[string]bool{}
	prepN, failN, unprepN := map[string]int{}, map[string]int{}, map[string]int{}
	anyFail := false
	for _, p := range w.preps {
		key := vxC14Key(p.node, p.ks, p.stmt)
		keys[key] = true
		prepN[key]++
		if p.fail {
			failN[key]++
			anyFail = true
		}
	}
	anyUnprep := false
	for _, id := range w.ids {
		if id.unprep > 0 {
			unprepN[vxC14Key(id.node, id.ks, id.stmt)]++
			anyUnprep = true
		}
	}
	noEvict := len(keys) <= capN
	if noEvict {
		k.Class("eviction=impossible")
	} else {
		k.Class("eviction=possible")
	}
	racing, maxK, anyWrong, anyBatch := false, 0, false, false
	for _, r := range c.Rounds {
		if len(r.Ops) > maxK {
			maxK = len(r.Ops)
		}
		cnt := map[int]int{}
		for i := range r.Ops {
			seen := map[int]bool{}
			for _, e := range r.Ops[i].Entries {
				if !e.Plain && !seen[e.Stmt] {
					seen[e.Stmt] = true
					cnt[e.Stmt]++
				}
			}
			if c.wrong(&r.Ops[i]) {
				anyWrong = true
			}
			if r.Ops[i].Batch {
				anyBatch = true
			}
		}
		for _, n := range cnt {
			if n >= 2 {
				racing = true
			}
		}
	}
	switch {
	case maxK == 1:
		k.Class("executors=1")
	case maxK <= 4:
		k.Class("executors=2-4")
	case maxK <= 8:
		k.Class("executors=5-8")
	default:
		k.Class("executors=9-16")
	}
	if racing {
		k.Class("racing-on-one-statement")
	}
	if anyFail {
		k.Class("prepare-failed")
	}
	for _, p := range w.preps {
		if strings.HasPrefix(p.marker, "vxc14_wrongkind") {
			k.Class("prepare answered with a frame of another kind")
			break
		}
	}
	if anyUnprep {
		k.Class("unprepared-answered")
	}
	if w.queued > 0 {
		k.Class("unprepared-answered-late")
	}
	if anyWrong {
		k.Class("wrong-arity")
	}
	if anyBatch {
		k.Class("batch")
	}
	if racing || anyFail || anyUnprep {
		k.NonTrivial()
	}

	// ---- oracle
	if len(w.viol) > 0 {
		return fmt.Errorf("%s (and %d more complaints of the nodes)", w.viol[0], len(w.viol)-1)
	}
	if o := atomic.LoadInt64(&over); o > 0 {
		return fmt.Errorf("statement cache held %d entries, configured MaxPreparedStmts is %d", o, capN)
	}
	reported := map[string]int{}
	knownV1 := ""
	for _, id := range order {
		ref := ops[id]
		res := ref.res
		var names []string
		for _, e := range ref.op.Entries {
			if e.Plain {
				names = append(names, "plain")
			} else {
				names = append(names, fmt.Sprintf("tok%d/%d values", e.Stmt, e.NVals))
			}
		}
		what := fmt.Sprintf("op %d (round %d, %s)", id, ref.round, strings.Join(names, ", "))
		if res.panic != "" {
			return fmt.Errorf("%s panicked in the caller: %s", what, res.panic)
		}
		if res.bad != "" {
			return fmt.Errorf("%s: %s", what, res.bad)
		}
		if res.v1 != "" && knownV1 == "" {
			knownV1 = res.v1
		}
		ex := w.execs[id]
		// which scripted PREPARE refusals explain the error?
		explained := false
		for _, p := range w.preps {
			if p.fail && !p.closed && strings.Contains(res.err, p.marker) {
				reported[p.marker]++
				uses := false
				for _, e := range ref.op.Entries {
					if !e.Plain && e.Stmt == p.stmt {
						uses = true
					}
				}
				if !uses {
					return fmt.Errorf("%s failed with the refusal of a PREPARE of tok%d, a statement it does not use: %s", what, p.stmt, res.err)
				}
				if p.round != ref.round && !(p.round < ref.round && c.gaveUp(p.round, p.stmt)) {
					// (a caller that gave up in the PREPARE's round may have left it unanswered beyond the round's
					// end: who joins it later shares its answer - that is no remembered failure)
					return fmt.Errorf("%s failed with the refusal of a PREPARE answered in round %d - a failed PREPARE was remembered: %s", what, p.round, res.err)
				}
				explained = true
			}
		}
		if c.wrong(ref.op) {
			if res.err == "" {
				return fmt.Errorf("%s binds a wrong number of values and succeeded", what)
			}
			if len(ex) != 0 {
				return fmt.Errorf("%s binds a wrong number of values and was sent to a node %d times", what, len(ex))
			}
			k.Class("outcome=arity-error")
			continue
		}
		if res.err != "" && !explained && c.Rounds[ref.round].Hold && ref.op.Cancel && strings.Contains(res.err, context.Canceled.Error()) {
			// this caller gave up itself (whether or not a node had executed it by then)
			k.Class("outcome=cancelled-by-its-caller")
			continue
		}
		boundary := ref.round > 0 && w.closeRounds[ref.round-1] && c.anyGaveUp(ref.round-1) // see "connection-lost-as-the-round-began" below
		if res.err != "" && !explained && strings.Contains(res.err, context.Canceled.Error()) && !w.closeRounds[ref.round] && !boundary && !ref.op.Cancel {
			return fmt.Errorf("%s never cancelled its context and no connection was dropped in its round, yet it failed with %q (another caller's cancellation was reported to it)", what, res.err)
		}
		if res.err != "" && !explained && ref.round > 0 && w.closeRounds[ref.round-1] && c.anyGaveUp(ref.round-1) && vxC14ConnErr(res.err) {
			// the PREPARE of a caller that gave up reached its node as the previous round ended and the node dropped
			// the connection on it: this round began on a connection already going down
			k.Class("outcome=connection-lost-as-the-round-began")
			continue
		}
		if res.err != "" && !explained && w.closeRounds[ref.round] && vxC14ConnErr(res.err) {
			// a node dropped a connection while answering a PREPARE in this very round
			k.Class("outcome=connection-lost-this-round")
			continue
		}
		if res.err != "" && !explained && len(w.closeRounds) > 0 && len(ex) == 0 &&
			(strings.Contains(res.err, "no hosts available") || strings.Contains(res.err, "no connections")) {
			// a connection was dropped in an earlier round and the pool has no connection (yet, or - the host
			// having been marked down - any more): the statement went nowhere; this is not the error of a PREPARE
			earlier := false
			for r := range w.closeRounds {
				earlier = earlier || r <= ref.round
			}
			if earlier {
				k.Class("outcome=no-connection-after-an-earlier-drop")
				continue
			}
		}
		if n := len(ex); n > 0 && ex[n-1].answer == "unprepared-other" && !c.wrong(ref.op) {
			// the node said it does not know an id that was never sent: nothing to prepare again
			if res.err == "" || !strings.Contains(res.err, "vxC14 unprepared") {
				return fmt.Errorf("%s was answered UNPREPARED naming an id it did not send; the caller got %q, want that error", what, res.err)
			}
			k.Class("outcome=unprepared-names-another-id")
			continue
		}
		if res.err != "" {
			if !explained {
				if vxC14ConnErr(res.err) && len(w.closeRounds) > 0 {
					return fmt.Errorf("%s failed with a connection-level error (%s) although no connection was dropped in its round (connections were dropped in rounds %v): a failed PREPARE was remembered", what, res.err, w.closeRounds)
				}
				return fmt.Errorf("%s binds the right number of values and failed: %s", what, res.err)
			}
			for _, e := range ex {
				if e.answer != "unprepared" {
					return fmt.Errorf("%s failed (%s) although a node executed it", what, res.err)
				}
			}
			k.Class("outcome=prepare-error")
			continue
		}
		if len(ex) == 0 || ex[len(ex)-1].answer != "ok" {
			return fmt.Errorf("%s succeeded but no node executed it (answers %v)", what, ex)
		}
		for _, e := range ex[:len(ex)-1] {
			if e.answer != "unprepared" {
				return fmt.Errorf("%s was executed more than once (answers %v)", what, ex)
			}
		}
		if len(ex) > 1 {
			k.Class("outcome=ok-after-unprepared")
		} else {
			k.Class("outcome=ok")
		}
	}
	maxRep := 0
	for _, p := range w.preps {
		if p.fail && !p.closed {
			if reported[p.marker] == 0 && (w.closeRounds[p.round] || p.orphan) {
				continue // the refusal may have been lost with a connection dropped in the same round (or before the node read the request)
			}
			if reported[p.marker] == 0 && c.gaveUp(p.round, p.stmt) {
				continue // the only caller that waited for it may have given up before the answer
			}
			if reported[p.marker] == 0 {
				return fmt.Errorf("node %d refused PREPARE #%d (tok%d, round %d) but no caller got that error", p.node, p.nth, p.stmt, p.round)
			}
			if reported[p.marker] > maxRep {
				maxRep = reported[p.marker]
			}
		}
	}
	if maxRep >= 2 {
		k.Class("one-refusal-failed-several-waiters")
	}
	if noEvict && len(w.closeRounds) == 0 { // a dropped connection also kills other PREPAREs in flight on it: no bound then
		ks := make([]string, 0, len(keys))
		for key := range keys {
			ks = append(ks, key)
		}
		sort.Strings(ks)
		for _, key := range ks {
			if limit := 1 + failN[key] + unprepN[key]; prepN[key] > limit {
				return fmt.Errorf("key node|keyspace|stmt = %s was prepared %d times; no eviction was possible (%d keys, capacity %d), %d PREPAREs failed and %d ids were answered UNPREPARED, so at most %d PREPAREs are justified",
					key, prepN[key], len(keys), capN, failN[key], unprepN[key], limit)
			}
		}
	}
	if knownV1 != "" {
		return vx.Known("C14-v1-result-metadata", "%s", knownV1)
	}
	return nil
}

// ---------------------------------------------------------------------------------------------
// generator

func vxC14Draw(t *rapid.T) *vxC14Case {
	c := &vxC14Case{}
	c.Proto = rapid.SampledFrom([]int{1, 2, 3, 3, 4, 4, 4, 5}).Draw(t, "proto")
	c.Hosts = rapid.IntRange(1, 2).Draw(t, "hosts")
	c.Keyspaces = rapid.IntRange(1, 2).Draw(t, "keyspaces")
	c.KsName = rapid.SampledFrom([]string{"", "ks1"}).Draw(t, "ksname")
	c.MaxStmts = rapid.SampledFrom([]int{0, 0, 0, 1, 1, 2, 3}).Draw(t, "cap")
	typ := rapid.SampledFrom([]string{"int", "text"})
	ns := rapid.IntRange(1, 4).Draw(t, "nstmts")
	var dml []int
	for i := 0; i < ns; i++ {
		st := vxC14Stmt{Kind: rapid.SampledFrom([]string{"select", "select", "insert", "update", "delete"}).Draw(t, "kind"),
			Extra: rapid.SliceOfN(typ, 0, 3).Draw(t, "extra"), Global: rapid.Bool().Draw(t, "global")}
		if st.Kind == "select" {
			st.Res = rapid.SliceOfN(typ, 1, 3).Draw(t, "res")
			if rapid.IntRange(0, 11).Draw(t, "wide") == 0 {
				st.Wide = rapid.SampledFrom([]int{40, 999, 1000, 1001}).Draw(t, "wide_n")
			}
		}
		if i > 0 && rapid.IntRange(0, 4).Draw(t, "twin") == 0 {
			b, taken := rapid.IntRange(0, i-1).Draw(t, "twin_of"), false
			for _, o := range c.Stmts {
				taken = taken || o.Twin == b+1 // one twin per statement: texts stay distinct
			}
			if c.Stmts[b].Twin == 0 && !taken {
				st = c.Stmts[b] // same kind and columns: only the letter case of the text differs
				st.Twin = b + 1
			}
		}
		if st.Kind != "select" {
			dml = append(dml, i)
		}
		c.Stmts = append(c.Stmts, st)
	}
	nvals := func(stmt int, zeroOK bool) int {
		ar := c.Stmts[stmt].arity()
		switch rapid.IntRange(0, 29).Draw(t, "arity") {
		case 0:
			return ar - 1
		case 1:
			return ar + 1
		case 2:
			if zeroOK {
				return 0
			}
			return 1
		}
		return ar
	}
	nr := rapid.IntRange(1, 4).Draw(t, "rounds")
	for r := 0; r < nr; r++ {
		rd := vxC14Round{Hold: rapid.Bool().Draw(t, "hold"), HoldUS: rapid.SampledFrom([]int{0, 50, 200, 1000}).Draw(t, "hold_us")}
		rd.Drop = rd.Hold && rapid.IntRange(0, 5).Draw(t, "drop") == 0
		k := rapid.SampledFrom([]int{1, 2, 2, 3, 4, 6, 8, 12, 16}).Draw(t, "executors")
		focus := rapid.IntRange(0, ns-1).Draw(t, "focus")
		pick := func() int {
			if rapid.IntRange(0, 9).Draw(t, "onfocus") < 7 {
				return focus
			}
			return rapid.IntRange(0, ns-1).Draw(t, "stmt")
		}
		for i := 0; i < k; i++ {
			op := vxC14Op{}
			if c.Proto >= 2 && len(dml) > 0 && rapid.IntRange(0, 3).Draw(t, "batch") == 0 {
				op.Batch = true
				op.Logged = rapid.Bool().Draw(t, "logged")
				ne := rapid.IntRange(1, 3).Draw(t, "entries")
				for j := 0; j < ne; j++ {
					e := vxC14Entry{}
					if rapid.IntRange(0, 5).Draw(t, "plain") == 0 {
						e.Plain = true
					} else {
						e.Stmt = pick()
						if c.Stmts[e.Stmt].Kind == "select" {
							e.Stmt = dml[rapid.IntRange(0, len(dml)-1).Draw(t, "dml")]
						}
						e.Bind = rapid.Bool().Draw(t, "bind")
						e.NVals = nvals(e.Stmt, e.Bind)
					}
					op.Entries = append(op.Entries, e)
				}
			} else {
				e := vxC14Entry{Stmt: pick(), Bind: rapid.Bool().Draw(t, "bind")}
				e.NVals = nvals(e.Stmt, true)
				op.Entries = []vxC14Entry{e}
			}
			if rd.Hold && k >= 2 && rapid.IntRange(0, 3).Draw(t, "cancel") == 0 {
				op.Cancel = true
			}
			rd.Ops = append(rd.Ops, op)
		}
		c.Rounds = append(c.Rounds, rd)
	}
	outcome := rapid.SampledFrom([]string{"ok", "ok", "ok", "ok", "invalid", "syntax", "unauthorized", "server", "overloaded", "config", "close", "wrongkind"})
	for h := 0; h < c.Hosts; h++ {
		sc := vxC14Script{Prepare: rapid.SliceOfN(outcome, 0, 6).Draw(t, "prepare")}
		nf := rapid.IntRange(0, 3).Draw(t, "forgets")
		for i := 0; i < nf; i++ {
			sc.Forget = append(sc.Forget, vxC14Forget{At: rapid.IntRange(0, 24).Draw(t, "at"), Stmt: rapid.IntRange(-1, ns-1).Draw(t, "fstmt"),
				Late: rapid.Bool().Draw(t, "late"), LateUS: rapid.SampledFrom([]int{0, 50, 300}).Draw(t, "late_us"), Other: rapid.IntRange(0, 7).Draw(t, "other_id") == 0})
		}
		c.Nodes = append(c.Nodes, sc)
	}
	return c
}

func TestVxC14Prepared(t *testing.T) {
	vx.Check(t, vx.Prop{ID: "C14", Part: "TestVxC14Prepared",
		Rule: "1..2 hosts x 1..2 keyspaces (second pool connection switched to ks2) x 1..4 token-carrying statements x protocol 1..5, cache capacity default/1/2/3, 1..4 rounds of 1..16 concurrent executors (queries and batches, plain or callback binding, right/wrong value counts), per node a PREPARE outcome list (ok / six error codes), PREPAREs optionally held until all executors started, ids forgotten before the n-th EXECUTE (UNPREPARED at once or after the re-PREPARE was answered); non-trivial = two executors of one round share a statement, or an UNPREPARED was answered, or a PREPARE was refused; distinct by the whole case",
		Draw: func(t *rapid.T) interface{} { return vxC14Draw(t) },
		New:  func() interface{} { return &vxC14Case{} },
		Run: func(ci interface{}, k *vstats.Case) error {
			c := ci.(*vxC14Case)
			if !c.sane() {
				return nil
			}
			err := vxC14Run(c, k)
			if h, ok := err.(*vxC14Hung); ok {
				// a watchdog expiry alone is no verdict: run the same case once more
				k.Class("watchdog-expired-once")
				err = vxC14Run(c, k)
				if h2, ok := err.(*vxC14Hung); ok {
					return fmt.Errorf("executors hang (twice): %s; %s", h.what, h2.what)
				}
			}
			return err
		}})
}

// ---------------------------------------------------------------------------------------------
// Bound-value count when the bind metadata contains tuple columns. One '?' is one bind column is one
// bound value, whatever the column's type; the node announces the columns, the caller binds a drawn
// number of values (tuple values are bound as []interface{}).

type vxC14TCol struct {
	Tuple []string `json:"tuple,omitempty"` // element types of a tuple column (1..3); empty: scalar
	Type  string   `json:"type,omitempty"`  // scalar type
}

type vxC14TCase struct {
	Proto int         `json:"proto"`
	Cols  []vxC14TCol `json:"cols"`
	NVals int         `json:"nvals"` // values bound: the first min(NVals, len(Cols)) are right for their column, the rest are ints
	Batch bool        `json:"batch"`
	Bind  bool        `json:"bind"`
}

func (c *vxC14TCase) colType(i int) *cqlspec.Type {
	col := c.Cols[i]
	if len(col.Tuple) == 0 {
		return vxC14Type(col.Type)
	}
	t := &cqlspec.Type{Kind: cqlspec.Tuple}
	for _, e := range col.Tuple {
		t.Elems = append(t.Elems, vxC14Type(e))
	}
	return t
}

// value returns the Go value bound for column i and its semantic value.
func (c *vxC14TCase) value(i int) (interface{}, cqlspec.Value) {
	sc := func(t string, n int) (interface{}, cqlspec.Value) {
		if t == "int" {
			return 100 + n, cqlspec.I64Value(int64(100 + n))
		}
		s := "s" + strconv.Itoa(n)
		return s, cqlspec.BytesValue([]byte(s))
	}
	col := c.Cols[i]
	if len(col.Tuple) == 0 {
		return sc(col.Type, i*10)
	}
	var gv []interface{}
	var sv cqlspec.Value
	for j, e := range col.Tuple {
		g, v := sc(e, i*10+j+1)
		gv = append(gv, g)
		sv.Elems = append(sv.Elems, v)
	}
	return gv, sv
}

func TestVxC14TupleBind(t *testing.T) {
	typ := rapid.SampledFrom([]string{"int", "text"})
	vx.Check(t, vx.Prop{ID: "C14", Part: "TestVxC14TupleBind",
		Rule: "protocol 3..5, 1..4 bind columns of type int / text / tuple<1..3 of int|text> with at least one tuple, query or single-entry batch, plain or callback binding; bound values: as many as columns (right), or the number of columns counting every tuple element, or one less / one more; non-trivial = some tuple has two or more elements; distinct by the whole case",
		Draw: func(t *rapid.T) interface{} {
			c := &vxC14TCase{Proto: rapid.IntRange(3, 5).Draw(t, "proto"), Batch: rapid.Bool().Draw(t, "batch"), Bind: rapid.Bool().Draw(t, "bind")}
			n := rapid.IntRange(1, 4).Draw(t, "cols")
			tup := rapid.IntRange(0, n-1).Draw(t, "tuple_at")
			flat := 0
			for i := 0; i < n; i++ {
				if i == tup || rapid.IntRange(0, 3).Draw(t, "is_tuple") == 0 {
					el := rapid.SliceOfN(typ, 1, 3).Draw(t, "elems")
					c.Cols = append(c.Cols, vxC14TCol{Tuple: el})
					flat += len(el)
				} else {
					c.Cols = append(c.Cols, vxC14TCol{Type: typ.Draw(t, "type")})
					flat++
				}
			}
			c.NVals = rapid.SampledFrom([]int{n, n, n, flat, flat, n - 1, n + 1, flat + 1}).Draw(t, "nvals")
			if c.NVals == 0 && c.Batch && !c.Bind {
				c.NVals = n // a batch entry without values is not prepared at all
			}
			return c
		},
		New: func() interface{} { return &vxC14TCase{} },
		Run: func(ci interface{}, k *vstats.Case) error {
			c := ci.(*vxC14TCase)
			if c.Proto < 3 || c.Proto > 5 || len(c.Cols) == 0 || c.NVals < 0 || c.NVals > 16 || (c.NVals == 0 && c.Batch && !c.Bind) {
				return nil
			}
			flat, multi := 0, false
			for _, col := range c.Cols {
				if len(col.Tuple) == 0 {
					if col.Type != "int" && col.Type != "text" {
						return nil
					}
					flat++
				} else {
					flat += len(col.Tuple)
					if len(col.Tuple) > 3 {
						return nil
					}
					if len(col.Tuple) >= 2 {
						multi = true
					}
				}
			}
			n := len(c.Cols)
			switch {
			case c.NVals == n:
				k.Class("values=columns")
			case c.NVals == flat:
				k.Class("values=columns-counting-tuple-elements")
			default:
				k.Class("values=other")
			}
			if multi {
				k.NonTrivial()
			}
			stmt := "INSERT INTO t (" + strings.TrimSuffix(strings.Repeat("c, ", n), ", ") + ") VALUES (" + strings.TrimSuffix(strings.Repeat("?, ", n), ", ") + ")"
			cl := vnode.NewCluster(vxSpecs(1, 2))
			var mu sync.Mutex
			var sent [][]cqlspec.ReqValue
			cl.Nodes()[0].Handler = func(rc *vnode.ReqCtx) {
				switch rc.Req.Kind {
				case "PREPARE":
					m := &cqlspec.Metadata{}
					for i := range c.Cols {
						m.Columns = append(m.Columns, cqlspec.Column{Keyspace: "ks", Table: "t", Name: "c" + strconv.Itoa(i), Type: c.colType(i)})
					}
					rc.Reply(&cqlspec.Response{Kind: "PREPARED", PreparedIDHex: "c14a", Meta: m, ResultMeta: &cqlspec.Metadata{Columns: []cqlspec.Column{}}})
					return
				case "EXECUTE":
					mu.Lock()
					sent = append(sent, rc.Req.Params.Values)
					mu.Unlock()
				case "BATCH":
					mu.Lock()
					for _, e := range rc.Req.Entries {
						sent = append(sent, e.Values)
					}
					mu.Unlock()
				}
				rc.Reply(vxVoid())
			}
			s, err := vxClusterConfig(cl, c.Proto, nil).CreateSession()
			if err != nil {
				return fmt.Errorf("harness: CreateSession: %v", err)
			}
			defer s.Close()
			var vals []interface{}
			for i := 0; i < c.NVals; i++ {
				if i < n {
					g, _ := c.value(i)
					vals = append(vals, g)
				} else {
					vals = append(vals, 7)
				}
			}
			binding := func(*QueryInfo) ([]interface{}, error) { return vals, nil }
			var execErr error
			panicked := ""
			func() {
				defer func() {
					if r := recover(); r != nil {
						panicked = fmt.Sprint(r)
					}
				}()
				switch {
				case c.Batch:
					b := s.NewBatch(UnloggedBatch)
					if c.Bind {
						b.Bind(stmt, binding)
					} else {
						b.Query(stmt, vals...)
					}
					execErr = s.ExecuteBatch(b)
				case c.Bind:
					execErr = s.Bind(stmt, binding).Exec()
				default:
					execErr = s.Query(stmt, vals...).Exec()
				}
			}()
			mu.Lock()
			defer mu.Unlock()
			known := func(format string, a ...interface{}) error {
				// one root cause: conn.go compares len(values) with preparedMetadata.actualColCount (which
				// counts a tuple column once per element) and then indexes request.columns by value index
				if multi {
					return vx.Known("C14-tuple-bind-count", format, a...)
				}
				return fmt.Errorf(format, a...)
			}
			what := fmt.Sprintf("%d bind columns %v, %d values bound", n, c.Cols, c.NVals)
			if panicked != "" {
				if !strings.Contains(panicked, "index out of range") {
					return fmt.Errorf("%s: panic in the caller: %s", what, panicked)
				}
				return known("%s: panic in the caller: %s", what, panicked)
			}
			if c.NVals != n {
				if execErr == nil || len(sent) > 0 {
					return known("%s: wrong number of values, err = %v, %d executions on the wire", what, execErr, len(sent))
				}
				return nil
			}
			if execErr != nil {
				if !strings.Contains(execErr.Error(), "values send got") {
					return fmt.Errorf("%s: the right number of values failed: %v", what, execErr)
				}
				return known("%s: the right number of values was refused: %v", what, execErr)
			}
			if len(sent) != 1 || len(sent[0]) != n {
				return fmt.Errorf("%s: wire carries %d executions, first with %d values", what, len(sent), len(sent[0]))
			}
			for i := 0; i < n; i++ {
				_, sv := c.value(i)
				want := hex.EncodeToString(cqlspec.Encode(c.colType(i), sv, c.Proto))
				if sent[0][i].Hex != want || sent[0][i].Null || sent[0][i].Unset {
					return fmt.Errorf("%s: value %d on the wire is %+v, want %s", what, i, sent[0][i], want)
				}
			}
			return nil
		}})
}
