//go:build verif && go1.21

// C07 - frames are written whole: concurrent requests never interleave bytes on the wire.
//
// Two levels.
//
//   TestVxC07Writers  the two contextWriter implementations alone (deadlineContextWriter and the
//                     coalescer built by newWriteCoalescer) over an in-memory connection whose
//                     Write calls are cut, failed or stalled by lib/vnode's fault plan.
//   TestVxC07Conn     a real Session over lib/vnode with concurrent LIST queries on one pool
//                     connection and the same faults on that connection.
//
// Which clause of the property is decided where:
//
//   - the stream is a concatenation of whole frames, each once and contiguous: both levels;
//   - (n, err) of writeContext: n is exactly the number of bytes of the frame that reached the
//     wire, n < len(p) => err != nil, err == nil => whole frame on the wire: writer level
//     (contract stated on the contextWriter interface in conn.go);
//   - a context that ended before writing began leaves no bytes and reports n == 0: writer level
//     (pre-cancelled contexts, contexts cancelled while certainly queued behind a stalled Write)
//     and conn level (queries cancelled while queued behind a stalled Write);
//   - a torn frame is the last thing on the wire ("after a partial write no further frame is
//     written") and the connection ends up closed: conn level only. The writers themselves do
//     not promise it (they keep serving queued callers after a failed Write); Conn.exec does,
//     by calling closeWithError on every write error other than a not-started cancellation.
//     At writer level a frame following a torn one is therefore only counted (class
//     "torn-then-more"), never judged.
//
// The transport is observed twice: lib/vnode's memconn records every Write that reaches it
// (Client.Writes(), the bytes the server end got), and vxC07Tap, a thin net.Conn wrapper in
// front of it, records every Write call the driver makes together with the number of
// SetWriteDeadline calls seen so far (one per flush of the coalescer, one per Write of the
// direct writer) - that is how "a flush that carried >= 2 frames" is counted. In chunk mode
// the tap forwards one driver Write as several memconn Writes with a scheduler yield between
// them, modelling a transport whose Write is not atomic with respect to concurrent Writes
// (io.Writer promises no such atomicity): overlapping Write calls then really interleave.
package gocql

import (
	"bytes"
	"context"
	"errors"
	"fmt"
	"net"
	"runtime"
	"sort"
	"strings"
	"sync"
	"sync/atomic"
	"testing"
	"time"

	"pgregory.net/rapid"
	"verif.local/cqlspec"
	"verif.local/vnode"
	"verif.local/vstats"
	"verif.local/vx"
)

const (
	vxC07KnownPre   = "C07-precancelled-ctx-written"
	vxC07KnownAfter = "C07-frame-after-partial-write"
	vxC07Watchdog   = 10 * time.Second
	vxC07CloseWait  = 5 * time.Second // expected: microseconds (closeWithError runs in the caller of the failed write)
)

// ---- the tap ------------------------------------------------------------------------------------

// vxC07Seg is one Write call as the driver made it.
type vxC07Seg struct {
	Data     []byte
	Accepted int
	Err      string
	Flush    int // SetWriteDeadline calls seen before this Write was entered
}

type vxC07Tap struct {
	*vnode.Conn
	chunk    []int
	mu       sync.Mutex
	segs     []vxC07Seg
	dlSeq    int
	nWrites  int
	overlaps int
	inflight int32
	watchNth  int
	watchCh   chan struct{} // closed when Write #watchNth is entered
	watchDone bool          // Write #watchNth has returned
}

// StallHolds reports whether Write #watchNth was entered and has not returned yet.
func (t *vxC07Tap) StallHolds() bool {
	t.mu.Lock()
	defer t.mu.Unlock()
	return t.nWrites > t.watchNth && t.watchNth >= 0 && !t.watchDone
}

func vxC07NewTap(c *vnode.Conn, chunk []int, watchNth int) *vxC07Tap {
	return &vxC07Tap{Conn: c, chunk: chunk, watchNth: watchNth, watchCh: make(chan struct{})}
}

func (t *vxC07Tap) SetWriteDeadline(d time.Time) error {
	t.mu.Lock()
	t.dlSeq++
	t.mu.Unlock()
	return t.Conn.SetWriteDeadline(d)
}

func (t *vxC07Tap) Write(p []byte) (int, error) {
	over := atomic.AddInt32(&t.inflight, 1) > 1
	defer atomic.AddInt32(&t.inflight, -1)
	t.mu.Lock()
	idx := t.nWrites
	t.nWrites++
	flush := t.dlSeq
	if over {
		t.overlaps++
	}
	if idx == t.watchNth {
		close(t.watchCh)
	}
	t.mu.Unlock()

	var n int
	var err error
	if len(t.chunk) == 0 {
		n, err = t.Conn.Write(p)
	} else {
		// at most ~64 pieces per Write
		floor := len(p) / 64
		for j := 0; n < len(p); j++ {
			sz := t.chunk[j%len(t.chunk)]
			if sz < floor {
				sz = floor
			}
			if sz < 1 {
				sz = 1
			}
			if sz > len(p)-n {
				sz = len(p) - n
			}
			var m int
			m, err = t.Conn.Write(p[n : n+sz])
			n += m
			if err != nil {
				break
			}
			runtime.Gosched()
		}
	}
	seg := vxC07Seg{Data: append([]byte{}, p...), Accepted: n, Flush: flush}
	if err != nil {
		seg.Err = err.Error()
	}
	t.mu.Lock()
	t.segs = append(t.segs, seg)
	if idx == t.watchNth {
		t.watchDone = true
	}
	t.mu.Unlock()
	return n, err
}

func (t *vxC07Tap) Segs() ([]vxC07Seg, int) {
	t.mu.Lock()
	defer t.mu.Unlock()
	return append([]vxC07Seg{}, t.segs...), t.overlaps
}

// Snapshot returns the tap's record and memconn's wire bytes taken at a moment when no Write call
// is in progress (a connection dialled around Session.Close may still be written to).
func (t *vxC07Tap) Snapshot() (segs []vxC07Seg, overlaps int, wire []byte, err error) {
	deadline := time.Now().Add(vxC07Watchdog)
	for {
		t.mu.Lock()
		entered := t.nWrites
		t.mu.Unlock()
		if atomic.LoadInt32(&t.inflight) == 0 {
			segs, overlaps = t.Segs()
			wire = vxC07WireBytes(t.Conn)
			t.mu.Lock()
			same := t.nWrites == entered && len(t.segs) == len(segs) && len(segs) == entered
			t.mu.Unlock()
			if same && atomic.LoadInt32(&t.inflight) == 0 {
				return segs, overlaps, wire, nil
			}
		}
		if time.Now().After(deadline) {
			return nil, 0, nil, fmt.Errorf("harness: a Write call on the connection is still in progress after %v", vxC07Watchdog)
		}
		time.Sleep(100 * time.Microsecond)
	}
}

// vxC07WireBytes is what the server end of c received: the accepted part of every memconn Write.
func vxC07WireBytes(c *vnode.Conn) []byte {
	var out []byte
	for _, w := range c.Writes() {
		out = append(out, w.Data[:w.Accepted]...)
	}
	return out
}

// ---- the wire oracle ----------------------------------------------------------------------------

type vxC07Wire struct {
	Complete        [][]byte // complete frames before any torn frame, wire order
	Torn            []byte   // bytes of the first torn frame that got out (nil: none)
	TornOf          []byte   // the frame they are a strict prefix of
	TornErr         string   // error the transport gave for that Write
	After           [][]byte // complete frames that followed the torn one
	BytesAfterTorn  int      // bytes accepted by Writes after the torn one
	OfferedAfter    int      // frames offered by Write calls after the torn one (accepted or not)
	MoreTorn        int      // further torn frames after the first
	CutInside       bool     // some Write was cut strictly inside a frame
	MultiFlush      bool     // some flush (same SetWriteDeadline epoch) carried >= 2 frames
	MaxFlush        int
	Reordered       bool // Write calls overlapped; the wire holds their pieces in another order
	ZeroFail        int // Writes that failed with nothing accepted
	Offered         [][]byte
	OfferedAccepted []int // bytes of Offered[i] that reached the wire
}

// vxC07Reorder explains wire as the accepted pieces of segs in another order (greedy, longest
// piece first; frames are unique, so pieces of different Writes differ within their first bytes
// unless one is a short torn prefix). nil: no such order.
func vxC07Reorder(segs []vxC07Seg, wire []byte) []vxC07Seg {
	used := make([]bool, len(segs))
	var out []vxC07Seg
	pos := 0
	for pos < len(wire) {
		best := -1
		for i, s := range segs {
			if used[i] || s.Accepted == 0 || !bytes.HasPrefix(wire[pos:], s.Data[:s.Accepted]) {
				continue
			}
			if best < 0 || s.Accepted > segs[best].Accepted {
				best = i
			}
		}
		if best < 0 {
			return nil
		}
		used[best] = true
		out = append(out, segs[best])
		pos += segs[best].Accepted
	}
	for i, s := range segs {
		if !used[i] {
			if s.Accepted > 0 {
				return nil
			}
			out = append(out, s)
		}
	}
	return out
}

func vxC07FirstDiff(a, b []byte) int {
	n := len(a)
	if len(b) < n {
		n = len(b)
	}
	for i := 0; i < n; i++ {
		if a[i] != b[i] {
			return i
		}
	}
	return n
}

// vxC07Analyse judges the byte stream of one connection. segs: the driver's Write calls in the
// order they returned; wire: the bytes the peer received. countFlush: SetWriteDeadline is called
// (write timeout > 0), so Flush numbers delimit flushes.
func vxC07Analyse(segs []vxC07Seg, overlaps int, wire []byte, countFlush bool) (*vxC07Wire, error) {
	w := &vxC07Wire{}
	var cat []byte
	for _, s := range segs {
		if s.Accepted < 0 || s.Accepted > len(s.Data) {
			return nil, fmt.Errorf("harness: Write record with accepted=%d of %d", s.Accepted, len(s.Data))
		}
		cat = append(cat, s.Data[:s.Accepted]...)
	}
	if !bytes.Equal(cat, wire) && overlaps > 0 {
		// Write calls overlapped in time, so the order in which they returned need not be the order
		// in which the transport took their bytes. If the wire is the accepted pieces in some other
		// order, nothing is interleaved on this transport: judge the stream in wire order.
		if re := vxC07Reorder(segs, wire); re != nil {
			segs, cat = re, wire
			w.Reordered = true
		}
	}
	if !bytes.Equal(cat, wire) {
		d := vxC07FirstDiff(cat, wire)
		return nil, fmt.Errorf("the bytes on the wire (%d) are not the driver's Write calls one after the other (%d bytes): first difference at offset %d; %d Write calls were entered while another Write was in progress - frames interleaved",
			len(wire), len(cat), d, overlaps)
	}
	perFlush := map[int]int{}
	torn := false
	for i, s := range segs {
		frames, rest, err := cqlspec.SplitFrames(s.Data)
		if err != nil || len(rest) > 0 || len(frames) == 0 {
			return nil, fmt.Errorf("Write call #%d offered %d bytes that are not a sequence of whole frames (frames=%d rest=%d err=%v): % x",
				i, len(s.Data), len(frames), len(rest), err, vxC07Head(s.Data, 24))
		}
		if s.Accepted < len(s.Data) && s.Err == "" {
			return nil, fmt.Errorf("harness: short Write (%d of %d) without error", s.Accepted, len(s.Data))
		}
		if s.Accepted == 0 && s.Err != "" {
			w.ZeroFail++
		}
		perFlush[s.Flush] += len(frames)
		acc := s.Accepted
		if torn {
			w.BytesAfterTorn += s.Accepted
			w.OfferedAfter += len(frames)
		}
		for _, f := range frames {
			w.Offered = append(w.Offered, f)
			switch {
			case acc >= len(f):
				w.OfferedAccepted = append(w.OfferedAccepted, len(f))
				acc -= len(f)
				if torn {
					w.After = append(w.After, f)
				} else {
					w.Complete = append(w.Complete, f)
				}
			case acc > 0:
				w.OfferedAccepted = append(w.OfferedAccepted, acc)
				w.CutInside = true
				if torn {
					w.MoreTorn++
				} else {
					torn = true
					w.Torn, w.TornOf, w.TornErr = f[:acc], f, s.Err
				}
				acc = 0
			default:
				w.OfferedAccepted = append(w.OfferedAccepted, 0)
			}
		}
	}
	if countFlush {
		for _, n := range perFlush {
			if n > w.MaxFlush {
				w.MaxFlush = n
			}
		}
		w.MultiFlush = w.MaxFlush >= 2
	}
	// the independent reading of the stream: complete frames, then at most a strict prefix
	if w.BytesAfterTorn == 0 {
		fr, rest, err := cqlspec.SplitFrames(wire)
		if err != nil {
			return nil, fmt.Errorf("the wire does not parse as frames: %v", err)
		}
		if len(fr) != len(w.Complete) {
			return nil, fmt.Errorf("the wire holds %d complete frames, the Write calls account for %d", len(fr), len(w.Complete))
		}
		for i := range fr {
			if !bytes.Equal(fr[i], w.Complete[i]) {
				return nil, fmt.Errorf("complete frame #%d on the wire is not the frame the driver offered", i)
			}
		}
		if !bytes.Equal(rest, w.Torn) {
			return nil, fmt.Errorf("the wire ends with %d bytes of an incomplete frame, the Write calls account for %d", len(rest), len(w.Torn))
		}
		if len(rest) > 0 && w.TornErr == "" {
			return nil, fmt.Errorf("the wire ends inside a frame although no Write failed")
		}
	}
	return w, nil
}

func vxC07Head(b []byte, n int) []byte {
	if len(b) > n {
		return b[:n]
	}
	return b
}

func vxC07Wait(ch <-chan struct{}, d time.Duration) bool {
	t := time.NewTimer(d)
	defer t.Stop()
	select {
	case <-ch:
		return true
	case <-t.C:
		return false
	}
}

// ---- frames -------------------------------------------------------------------------------------

func vxC07Pad(tok, n int) string {
	b := make([]byte, n)
	for j := range b {
		b[j] = byte('a' + (tok*7+j)%26)
	}
	return string(b)
}

// vxC07Frame builds a request frame of exactly `size` bytes for stream `stream`: a QUERY whose
// statement is "LIST tok<stream> <pad>", or a header-only OPTIONS when size is too small for that.
func vxC07Frame(proto, stream, size int) []byte {
	prefix := "LIST tok" + itoa(stream) + " "
	flagsLen := 1
	if proto == 1 {
		flagsLen = 0
	} else if proto >= 5 {
		flagsLen = 4
	}
	hs := cqlspec.HeaderSize(proto)
	minQ := hs + 4 + len(prefix) + 2 + flagsLen
	if size < minQ {
		return cqlspec.Header{Version: proto, Stream: stream, Op: cqlspec.OpOptions}.Bytes()
	}
	var w cqlspec.W
	w.LongString(prefix + vxC07Pad(stream, size-minQ))
	w.Short(1)
	switch flagsLen {
	case 1:
		w.Byte(0)
	case 4:
		w.Int(0)
	}
	return append(cqlspec.Header{Version: proto, Stream: stream, Op: cqlspec.OpQuery, Length: len(w.B)}.Bytes(), w.B...)
}

// ---- writer level -------------------------------------------------------------------------------

type vxC07WFrame struct {
	Size   int    `json:"size"`
	Cancel string `json:"cancel,omitempty"` // "", "pre", "racy", "queued"
	Spin   int    `json:"spin,omitempty"`   // scheduler yields before a racy / queued cancel
	Late   bool   `json:"late,omitempty"`   // submitted alone after every other caller has returned and an idle pause longer than the coalescing window
}

type vxC07Fault struct {
	Kind   string `json:"kind"` // none, cutat, rule, stall-deadline, stall-release
	CutAt  int    `json:"cut_at,omitempty"`
	Nth    int    `json:"nth,omitempty"`
	Accept int    `json:"accept,omitempty"`
	Err    string `json:"err,omitempty"` // reset, timeout
	Close  bool   `json:"close,omitempty"`
}

type vxC07WCase struct {
	Proto     int           `json:"proto"`
	Writer    string        `json:"writer"` // direct, coalesce
	WindowUS  int           `json:"window_us"`
	TimeoutMS int           `json:"timeout_ms"`
	Frames    []vxC07WFrame `json:"frames"`
	Fault     vxC07Fault    `json:"fault"`
	Chunk     []int         `json:"chunk,omitempty"`
	Sweep     string        `json:"sweep,omitempty"` // "", cutat, reset, timeout: every offset of every frame
}

func vxC07DrawSize(t *rapid.T, label string) int {
	switch rapid.SampledFrom([]string{"hdr", "small", "small", "medium", "medium", "large"}).Draw(t, label+"_class") {
	case "hdr":
		return 9
	case "small":
		return rapid.IntRange(10, 200).Draw(t, label)
	case "medium":
		return rapid.IntRange(201, 6000).Draw(t, label)
	}
	return rapid.IntRange(16<<10, 70<<10).Draw(t, label)
}

func vxC07DrawChunk(t *rapid.T) []int {
	return rapid.SliceOfN(rapid.SampledFrom([]int{1, 2, 3, 7, 8, 9, 64, 1000, 4096}), 1, 3).Draw(t, "chunk")
}

func vxC07DrawAccept(t *rapid.T, sizes []int, hs int) int {
	min, max := sizes[0], sizes[0]
	for _, s := range sizes {
		if s < min {
			min = s
		}
		if s > max {
			max = s
		}
	}
	switch rapid.IntRange(0, 3).Draw(t, "accept_mode") {
	case 0:
		return rapid.IntRange(0, min-1).Draw(t, "accept")
	case 1:
		return rapid.SampledFrom([]int{0, 1, hs - 1, hs, hs + 1, hs + 4}).Draw(t, "accept")
	}
	return rapid.IntRange(0, max-1).Draw(t, "accept")
}

func vxC07DrawW(t *rapid.T) *vxC07WCase {
	c := &vxC07WCase{Proto: rapid.IntRange(1, 5).Draw(t, "proto")}
	hs := cqlspec.HeaderSize(c.Proto)
	c.Writer = rapid.SampledFrom([]string{"direct", "coalesce", "coalesce"}).Draw(t, "writer")
	if c.Writer == "coalesce" {
		c.WindowUS = rapid.SampledFrom([]int{0, 50, 50, 2000}).Draw(t, "window")
	}
	if rapid.IntRange(0, 11).Draw(t, "sweep") == 0 {
		c.Sweep = rapid.SampledFrom([]string{"cutat", "cutat", "reset", "timeout"}).Draw(t, "sweep_kind")
		if c.WindowUS > 50 {
			c.WindowUS = 50
		}
		c.TimeoutMS = rapid.SampledFrom([]int{0, 3000}).Draw(t, "timeout")
		n := rapid.IntRange(2, 3).Draw(t, "n")
		for i := 0; i < n; i++ {
			c.Frames = append(c.Frames, vxC07WFrame{Size: rapid.SampledFrom([]int{9, 24, 25, 31, 40}).Draw(t, "size")})
		}
		c.Fault.Kind = "none"
		return c
	}
	if rapid.IntRange(0, 39).Draw(t, "crowd") == 0 {
		// a crowd: more than a thousand small frames queued within one (long) coalescing window
		c.Writer, c.WindowUS, c.TimeoutMS = "coalesce", 50000, 3000
		if c.Proto < 3 {
			c.Proto = 3 // the frames are told apart by their stream id
		}
		for i, n := 0, rapid.SampledFrom([]int{600, 1024, 1025, 1100, 1500}).Draw(t, "crowd_n"); i < n; i++ {
			c.Frames = append(c.Frames, vxC07WFrame{Size: 9 + i%5})
		}
		c.Fault.Kind = "none"
		return c
	}
	n := rapid.SampledFrom([]int{1, 2, 2, 2, 3, 3, 4, 5, 6, 8, 10, 12}).Draw(t, "n")
	c.Fault.Kind = rapid.SampledFrom([]string{"none", "cutat", "cutat", "rule", "rule", "rule", "stall-deadline", "stall-release", "stall-release"}).Draw(t, "fault")
	var sizes []int
	total := 0
	for i := 0; i < n; i++ {
		f := vxC07WFrame{Size: vxC07DrawSize(t, "size")}
		// (rapid favours small integers: the favoured values mean "no cancellation")
		switch rapid.IntRange(0, 19).Draw(t, "cancel") {
		case 19:
			f.Cancel = "pre"
		case 17, 18:
			f.Cancel = "racy"
			f.Spin = rapid.IntRange(0, 200).Draw(t, "spin")
		case 13, 14, 15, 16:
			if c.Fault.Kind == "stall-release" {
				f.Cancel = "queued"
				f.Spin = rapid.IntRange(0, 200).Draw(t, "spin")
			}
		}
		c.Frames = append(c.Frames, f)
		l := len(vxC07Frame(c.Proto, i, f.Size))
		sizes = append(sizes, l)
		total += l
	}
	c.TimeoutMS = rapid.SampledFrom([]int{0, 3000}).Draw(t, "timeout")
	switch c.Fault.Kind {
	case "cutat":
		// a byte offset inside (or at the edge of) a drawn frame of the batch
		j := rapid.IntRange(0, n-1).Draw(t, "cut_frame")
		base := 0
		for i := 0; i < j; i++ {
			base += sizes[i]
		}
		off := rapid.IntRange(1, sizes[j]).Draw(t, "cut_off")
		if rapid.Bool().Draw(t, "cut_near_header") && sizes[j] > hs+1 {
			off = rapid.IntRange(1, hs+1).Draw(t, "cut_off_h")
		}
		c.Fault.CutAt = base + off
		if c.Fault.CutAt >= total {
			c.Fault.CutAt = total - 1
		}
		if c.Fault.CutAt < 1 {
			c.Fault.CutAt = 1
		}
	case "rule":
		c.Fault.Nth = rapid.IntRange(0, n-1).Draw(t, "nth")
		c.Fault.Accept = vxC07DrawAccept(t, sizes, hs)
		c.Fault.Err = rapid.SampledFrom([]string{"reset", "timeout"}).Draw(t, "err")
		c.Fault.Close = rapid.Bool().Draw(t, "close")
	case "stall-deadline":
		c.TimeoutMS = rapid.IntRange(5, 15).Draw(t, "stall_ms")
		c.Fault.Nth = rapid.IntRange(0, vxC07Min(2, n-1)).Draw(t, "nth")
		c.Fault.Accept = vxC07DrawAccept(t, sizes, hs)
		if rapid.IntRange(0, 4).Draw(t, "accept_all") == 0 {
			c.Fault.Accept = -1
		}
	case "stall-release":
		c.Fault.Nth = rapid.IntRange(0, vxC07Min(1, n-1)).Draw(t, "nth")
		if c.TimeoutMS > 0 {
			c.TimeoutMS = 60000 // far beyond the watchdogs: only the harness ends this stall
		}
	}
	if (c.Fault.Kind == "none" || c.Fault.Kind == "cutat") && rapid.IntRange(0, 3).Draw(t, "chunked") == 0 {
		c.Chunk = vxC07DrawChunk(t)
	}
	for i := rapid.SampledFrom([]int{0, 0, 1, 2, 3}).Draw(t, "late"); i > 0; i-- {
		c.Frames = append(c.Frames, vxC07WFrame{Size: rapid.SampledFrom([]int{9, 30, 200}).Draw(t, "late_size"), Late: true})
	}
	return c
}

func vxC07Min(a, b int) int {
	if a < b {
		return a
	}
	return b
}

func (f vxC07Fault) plan() vnode.Plan {
	switch f.Kind {
	case "cutat":
		return vnode.Plan{CutAt: f.CutAt}
	case "rule":
		return vnode.Plan{Writes: []vnode.WriteRule{{Nth: f.Nth, Accept: f.Accept, Err: f.Err, Close: f.Close}}}
	case "stall-deadline":
		return vnode.Plan{Writes: []vnode.WriteRule{{Nth: f.Nth, Accept: f.Accept, Err: "stall"}}}
	case "stall-release":
		return vnode.Plan{Writes: []vnode.WriteRule{{Nth: f.Nth, Accept: -1, Err: "stall"}}}
	}
	return vnode.Plan{}
}

type vxC07WRes struct {
	N   int
	Err error
}

type vxC07WOut struct {
	wire       *vxC07Wire
	known      error
	stalled    bool
	certain    int // writers cancelled while certainly queued
	ctxRefused int // writers that returned a context error
	late       bool
}

func vxC07IsCtxErr(err error) bool {
	return errors.Is(err, context.Canceled) || errors.Is(err, context.DeadlineExceeded)
}

// vxC07RunWriters runs one batch of concurrent writeContext calls through a fresh writer over a
// fresh connection and judges it.
// vxC07Unconfirmed counts watchdog expiries that a second run of the same case did not repeat (a stalled
// machine, not a hang: a hang of the code under test comes back every time).
var vxC07Unconfirmed int32

// vxC07RunWriters runs the case; a verdict that rests on a watchdog alone counts only if a second run of the
// same case ends the same way.
func vxC07RunWriters(c *vxC07WCase, fault vxC07Fault) (*vxC07WOut, error) {
	o, err := vxC07RunWritersOnce(c, fault)
	if err != nil && strings.HasPrefix(err.Error(), "watchdog:") {
		time.Sleep(2 * time.Second)
		o2, err2 := vxC07RunWritersOnce(c, fault)
		if err2 != nil && strings.HasPrefix(err2.Error(), "watchdog:") {
			return o2, fmt.Errorf("%v (twice)", err2)
		}
		atomic.AddInt32(&vxC07Unconfirmed, 1)
		return o2, err2
	}
	return o, err
}

func vxC07RunWritersOnce(c *vxC07WCase, fault vxC07Fault) (*vxC07WOut, error) {
	out := &vxC07WOut{}
	n := len(c.Frames)
	frames := make([][]byte, n)
	pristine := make([][]byte, n)
	for i, f := range c.Frames {
		frames[i] = vxC07Frame(c.Proto, i, f.Size)
		pristine[i] = vxC07Frame(c.Proto, i, f.Size)
		if _, err := cqlspec.DecodeRequest(frames[i], nil); err != nil {
			return nil, fmt.Errorf("harness: generated frame %d does not decode: %v", i, err)
		}
	}
	client, server := vnode.Pipe(&net.TCPAddr{IP: net.IPv4(127, 0, 0, 1), Port: 40001}, &net.TCPAddr{IP: net.IPv4(10, 0, 0, 1), Port: 9042}, fault.plan())
	stallKind := fault.Kind == "stall-deadline" || fault.Kind == "stall-release"
	watch := -1
	if stallKind {
		watch = fault.Nth
	}
	tap := vxC07NewTap(client, c.Chunk, watch)
	var got []byte
	drained := make(chan struct{})
	go func() {
		defer close(drained)
		buf := make([]byte, 64<<10)
		for {
			m, err := server.Read(buf)
			got = append(got, buf[:m]...)
			if err != nil {
				return
			}
		}
	}()

	timeout := time.Duration(c.TimeoutMS) * time.Millisecond
	quit := make(chan struct{})
	var w contextWriter
	if c.Writer == "direct" {
		w = &deadlineContextWriter{w: tap, timeout: timeout, semaphore: make(chan struct{}, 1), quit: quit}
	} else {
		w = newWriteCoalescer(tap, timeout, time.Duration(c.WindowUS)*time.Microsecond, quit)
	}

	res := make([]vxC07WRes, n)
	done := make([]chan struct{}, n)
	cancels := make([]context.CancelFunc, n)
	launch := func(i int, mode string) {
		ctx, cancel := context.WithCancel(context.Background())
		cancels[i] = cancel
		done[i] = make(chan struct{})
		switch mode {
		case "pre":
			cancel()
		case "racy":
			spin := c.Frames[i].Spin
			go func() {
				for s := 0; s < spin; s++ {
					runtime.Gosched()
				}
				cancel()
			}()
		}
		go func() {
			defer close(done[i])
			m, err := w.writeContext(ctx, frames[i])
			res[i] = vxC07WRes{N: m, Err: err}
		}()
	}
	var stage1, stage2 []int
	var late []int
	for i, f := range c.Frames {
		if f.Late {
			late = append(late, i)
		} else if f.Cancel == "queued" && fault.Kind == "stall-release" {
			stage2 = append(stage2, i)
		} else {
			stage1 = append(stage1, i)
		}
	}
	for _, i := range stage1 {
		mode := c.Frames[i].Cancel
		if mode == "queued" {
			mode = "racy"
		}
		launch(i, mode)
	}
	stage1Done := make(chan struct{})
	go func() {
		for _, i := range stage1 {
			<-done[i]
		}
		close(stage1Done)
	}()
	certain := map[int]bool{}
	var hang error
	if stallKind {
		wd := time.NewTimer(vxC07Watchdog)
		select {
		case <-tap.watchCh:
			out.stalled = true
		case <-stage1Done:
		case <-wd.C:
			hang = fmt.Errorf("watchdog: neither the stalled Write was entered nor did the writers return within %v", vxC07Watchdog)
		}
		wd.Stop()
	}
	if fault.Kind == "stall-release" {
		if out.stalled && hang == nil {
			// The stalled Write holds the writer (semaphore / flusher goroutine) until Release below:
			// whatever these callers do, their frames cannot have started to be written when their
			// context ends. They must come back with n == 0 while the stall still holds.
			for _, i := range stage2 {
				launch(i, "")
			}
			for _, i := range stage2 {
				for s := 0; s < c.Frames[i].Spin; s++ {
					runtime.Gosched()
				}
				cancels[i]()
			}
			for _, i := range stage2 {
				if !vxC07Wait(done[i], vxC07Watchdog) {
					hang = fmt.Errorf("writer %d, cancelled while queued behind a stalled Write, did not return within %v", i, vxC07Watchdog)
					break
				}
				// judged only if the stalled Write is still in progress now: then the writer was held
				// during this caller's whole life (no wall-clock assumption)
				if tap.StallHolds() {
					certain[i] = true
				}
			}
		} else {
			for _, i := range stage2 {
				launch(i, "racy")
			}
		}
		client.Release()
	}
	if hang == nil {
		for i := range done {
			if done[i] != nil && !vxC07Wait(done[i], vxC07Watchdog) {
				hang = fmt.Errorf("watchdog: writeContext of writer %d did not return within %v", i, vxC07Watchdog)
				break
			}
		}
	}
	client.Release()
	// the late callers: one at a time, each after an idle pause longer than the coalescing window (whatever
	// happened before - a failed flush, refused callers - has settled by then)
	for _, i := range late {
		if hang != nil {
			break
		}
		time.Sleep(time.Duration(c.WindowUS)*time.Microsecond + 400*time.Microsecond)
		launch(i, "")
		if !vxC07Wait(done[i], vxC07Watchdog) {
			hang = fmt.Errorf("watchdog: writeContext of late writer %d did not return within %v", i, vxC07Watchdog)
		}
	}
	close(quit)
	tap.Close()
	for _, cf := range cancels {
		if cf != nil {
			cf()
		}
	}
	if !vxC07Wait(drained, vxC07Watchdog) {
		return nil, fmt.Errorf("harness: server end did not see the connection close")
	}
	if hang != nil {
		return nil, hang
	}
	out.certain = len(certain)

	for i := range frames {
		if !bytes.Equal(frames[i], pristine[i]) {
			return nil, fmt.Errorf("writeContext modified the caller's buffer of writer %d", i)
		}
	}
	segs, overlaps := tap.Segs()
	// (memconn appends to the pipe and to its record in two steps: with overlapping Write calls the
	// record's order is not authoritative, what the server end read is)
	if mem := vxC07WireBytes(client); !bytes.Equal(mem, got) && overlaps == 0 {
		return nil, fmt.Errorf("harness: server end read %d bytes, memconn recorded %d accepted", len(got), len(mem))
	}
	wire, err := vxC07Analyse(segs, overlaps, got, c.TimeoutMS > 0)
	if err != nil {
		return nil, err
	}
	out.wire = wire
	if wire.Torn != nil && wire.BytesAfterTorn > 0 {
		// both writers keep the first Write error ("after it nothing more is written")
		return nil, fmt.Errorf("%s writer: %d of %d bytes of a frame were written (transport error %q), then %d more bytes (%d complete frames) were written: the peer reads them as the rest of the torn frame",
			c.Writer, len(wire.Torn), len(wire.TornOf), wire.TornErr, wire.BytesAfterTorn, len(wire.After))
	}
	if len(late) > 0 {
		out.late = true
	}
	// whose frame is which
	onWire := make([]int, n)
	offered := make([]int, n)
	for j, f := range wire.Offered {
		h, _, err := cqlspec.ParseHeader(f)
		if err != nil || h.Stream < 0 || h.Stream >= n || !bytes.Equal(f, pristine[h.Stream]) {
			return nil, fmt.Errorf("a Write call offered a %d-byte frame that no caller submitted: % x", len(f), vxC07Head(f, 24))
		}
		offered[h.Stream]++
		if offered[h.Stream] > 1 {
			return nil, fmt.Errorf("the frame of writer %d was offered to the connection %d times", h.Stream, offered[h.Stream])
		}
		onWire[h.Stream] = wire.OfferedAccepted[j]
	}
	for i, r := range res {
		p := pristine[i]
		b := onWire[i]
		if r.N < 0 || r.N > len(p) {
			return nil, fmt.Errorf("writer %d: writeContext returned n=%d for a %d-byte frame", i, r.N, len(p))
		}
		if r.Err == nil && b != len(p) {
			return nil, fmt.Errorf("writer %d was told its write succeeded (n=%d, err=nil) but only %d of %d bytes of its frame are on the wire", i, r.N, b, len(p))
		}
		if r.N < len(p) && r.Err == nil {
			return nil, fmt.Errorf("writer %d: writeContext returned n=%d < %d with a nil error", i, r.N, len(p))
		}
		if r.N != b {
			return nil, fmt.Errorf("writer %d: writeContext returned n=%d (err=%v) but %d of %d bytes of its frame reached the wire", i, r.N, r.Err, b, len(p))
		}
		if vxC07IsCtxErr(r.Err) {
			out.ctxRefused++
			if r.N != 0 || b != 0 {
				return nil, fmt.Errorf("writer %d got the context error %v with n=%d and %d bytes of its frame on the wire", i, r.Err, r.N, b)
			}
		}
		if c.Frames[i].Cancel == "pre" || certain[i] {
			how := "was cancelled before writeContext was called"
			if certain[i] {
				how = "was cancelled while its caller was queued behind a stalled Write"
			}
			if !vxC07IsCtxErr(r.Err) || r.N != 0 || b != 0 {
				msg := fmt.Sprintf("the context of writer %d %s, yet writeContext returned n=%d err=%v and %d of %d bytes of its frame are on the wire (want n=0, ctx.Err(), no bytes)",
					i, how, r.N, r.Err, b, len(p))
				// narrow: the writer accepted (took the semaphore for / enqueued) a frame whose context
				// had already ended - both select cases were ready - and then treated it like any
				// other frame; (n, err) is consistent with the wire (checked above). quit is only
				// closed after every caller returned, so a non-context result means "accepted".
				if c.Frames[i].Cancel == "pre" && !vxC07IsCtxErr(r.Err) {
					if out.known == nil {
						out.known = vx.Known(vxC07KnownPre, "%s", msg)
					}
					continue
				}
				return nil, errors.New(msg)
			}
		}
	}
	return out, nil
}

func TestVxC07Writers(t *testing.T) {
	vx.Check(t, vx.Prop{
		ID: "C07", Part: "TestVxC07Writers",
		Rule: "1..12 concurrent writeContext calls (one real CQL request frame each, 8 B..70 KiB, protocol 1..5, contexts live / cancelled before the call / cancelled concurrently / cancelled while queued behind a stalled Write) through deadlineContextWriter or newWriteCoalescer (window 0 / 50 us / 2 ms; write timeout none / 3 s / 5..15 ms) over a memconn whose plan cuts the stream at a byte offset, fails the k-th Write after a drawn number of bytes (reset / timeout, closing or not), or stalls it until the write deadline or until released; 1 case in 12 enumerates EVERY cut offset (or every (k-th Write, accepted bytes) pair) of a 2..3 frame batch. Non-trivial = at least 2 writers and (a Write cut strictly inside a frame, or a flush - one SetWriteDeadline epoch in the tap's per-Write record - that carried at least 2 frames). Distinct by the whole drawn case",
		Draw: func(t *rapid.T) interface{} { return vxC07DrawW(t) },
		New:  func() interface{} { return &vxC07WCase{} },
		Run: func(ci interface{}, k *vstats.Case) error {
			c := ci.(*vxC07WCase)
			if len(c.Frames) == 0 || c.Proto < 1 || c.Proto > 5 {
				return nil
			}
			defer func() {
				if atomic.SwapInt32(&vxC07Unconfirmed, 0) > 0 {
					k.Class("unconfirmed-watchdog (a second run of the case did not repeat it)")
				}
			}()
			wr := c.Writer
			if wr == "coalesce" {
				wr = fmt.Sprintf("coalesce/%dus", c.WindowUS)
			}
			var known error
			nt := false
			note := func(o *vxC07WOut) {
				if o.known != nil && known == nil {
					known = o.known
				}
				if len(c.Frames) >= 2 && (o.wire.CutInside || o.wire.MultiFlush) {
					nt = true
				}
			}
			if c.Sweep != "" {
				k.Class("sweep " + c.Sweep + " " + wr)
				total, max := 0, 0
				for i, f := range c.Frames {
					l := len(vxC07Frame(c.Proto, i, f.Size))
					total += l
					if l > max {
						max = l
					}
				}
				var faults []vxC07Fault
				if c.Sweep == "cutat" {
					for cut := 1; cut < total; cut++ {
						faults = append(faults, vxC07Fault{Kind: "cutat", CutAt: cut})
					}
				} else {
					for nth := 0; nth < len(c.Frames); nth++ {
						for acc := 0; acc < max; acc++ {
							faults = append(faults, vxC07Fault{Kind: "rule", Nth: nth, Accept: acc, Err: c.Sweep})
						}
					}
				}
				for _, f := range faults {
					o, err := vxC07RunWriters(c, f)
					if err != nil {
						return fmt.Errorf("sweep fault %+v: %v", f, err)
					}
					note(o)
				}
			} else {
				o, err := vxC07RunWriters(c, c.Fault)
				if err != nil {
					return err
				}
				note(o)
				k.Class(wr + " " + c.Fault.Kind)
				if len(c.Frames) >= 600 {
					k.Class(fmt.Sprintf("crowd of %d writers, largest flush %d frames", len(c.Frames), o.wire.MaxFlush))
				}
				if o.late && (o.wire.Torn != nil || o.wire.ZeroFail > 0) {
					k.Class("late callers after a failed Write and an idle window")
				}
				if o.wire.Torn != nil {
					if o.wire.BytesAfterTorn > 0 {
						k.Class("wire: torn-then-more")
					} else {
						k.Class("wire: torn frame last")
					}
				} else if o.wire.ZeroFail > 0 {
					k.Class("wire: failed Write, nothing torn")
				} else {
					k.Class("wire: whole frames only")
				}
				if o.wire.MultiFlush {
					k.Class(fmt.Sprintf("flush of >=2 frames (max %d)", vxC07Min(o.wire.MaxFlush, 4)))
				}
				if o.wire.Reordered {
					k.Class("overlapping Write calls, wire still whole")
				}
				if o.certain > 0 {
					k.Class("cancelled while certainly queued")
				}
				if o.ctxRefused > 0 {
					k.Class("some writer got ctx error")
				}
				if c.Chunk != nil {
					k.Class("chunked transport")
				}
			}
			switch n := len(c.Frames); {
			case n == 1:
				k.Class("writers=1")
			case n <= 3:
				k.Class("writers=2..3")
			default:
				k.Class("writers=4..12")
			}
			if nt {
				k.NonTrivial()
			}
			return known
		},
	})
}

// ---- conn / session level -----------------------------------------------------------------------

type vxC07Q struct {
	Size   int    `json:"size"`             // bytes of padding in the statement
	Cancel string `json:"cancel,omitempty"` // "", "racy", "queued"
	Spin   int    `json:"spin,omitempty"`
	Wave   int    `json:"wave,omitempty"` // 0: first concurrent batch, 1: second batch after the first returned
}

type vxC07CCase struct {
	Proto          int        `json:"proto"`
	CoalesceUS     int        `json:"coalesce_us"` // 0: no coalescing (deadlineContextWriter)
	WriteTimeoutMS int        `json:"write_timeout_ms"`
	Queries        []vxC07Q   `json:"queries"`
	Fault          vxC07Fault `json:"fault"` // Nth counts the pool connection's Writes after its handshake, CutAt its bytes after the handshake
	Chunk          []int      `json:"chunk,omitempty"`
}

// vxC07Dialer wraps every connection of the scripted cluster in a tap.
type vxC07Dialer struct {
	cl       *vnode.Cluster
	mu       sync.Mutex
	taps     []*vxC07Tap
	chunk    []int
	watchNth int
}

func (d *vxC07Dialer) DialContext(ctx context.Context, network, addr string) (net.Conn, error) {
	d.mu.Lock()
	defer d.mu.Unlock()
	c, err := d.cl.DialContext(ctx, network, addr)
	if err != nil {
		return nil, err
	}
	vc, ok := c.(*vnode.Conn)
	if !ok {
		return nil, fmt.Errorf("harness: vnode returned %T", c)
	}
	var tap *vxC07Tap
	if len(d.taps) == 1 {
		tap = vxC07NewTap(vc, d.chunk, d.watchNth)
	} else {
		tap = vxC07NewTap(vc, nil, -1)
	}
	d.taps = append(d.taps, tap)
	return tap, nil
}

func (d *vxC07Dialer) Taps() []*vxC07Tap {
	d.mu.Lock()
	defer d.mu.Unlock()
	return append([]*vxC07Tap{}, d.taps...)
}

func vxC07Stmt(i, size int) string { return "LIST tok" + itoa(i) + " " + vxC07Pad(i, size) }

// vxC07Handshake measures, once per protocol version, how many Writes and bytes the driver spends
// on a pool connection before the first user query (OPTIONS + STARTUP): fault plans are fixed at
// dial time, so they have to be expressed in absolute numbers.
var (
	vxC07HsMu sync.Mutex
	vxC07Hs   = map[int][2]int{}
)

func vxC07Handshake(proto int) (writes, nbytes int, err error) {
	vxC07HsMu.Lock()
	defer vxC07HsMu.Unlock()
	if v, ok := vxC07Hs[proto]; ok {
		return v[0], v[1], nil
	}
	cl := vnode.NewCluster(vxSpecs(1, 1))
	d := &vxC07Dialer{cl: cl, watchNth: -1}
	s, err := vxClusterConfig(cl, proto, func(cfg *ClusterConfig) { cfg.Dialer = d }).CreateSession()
	if err != nil {
		return 0, 0, fmt.Errorf("harness: calibration session: %v", err)
	}
	defer s.Close()
	if err := s.Query("LIST warm").Exec(); err != nil {
		return 0, 0, fmt.Errorf("harness: calibration query: %v", err)
	}
	taps := d.Taps()
	if len(taps) < 2 {
		return 0, 0, fmt.Errorf("harness: calibration saw %d connections", len(taps))
	}
	segs, _ := taps[1].Segs()
	for i, sg := range segs {
		r, derr := cqlspec.DecodeRequest(sg.Data, nil)
		if derr == nil && r.Kind == "QUERY" && r.Statement == "LIST warm" {
			vxC07Hs[proto] = [2]int{i, nbytes}
			return i, nbytes, nil
		}
		nbytes += sg.Accepted
	}
	return 0, 0, fmt.Errorf("harness: calibration query not found on the second connection (%d writes)", len(segs))
}

func vxC07DrawC(t *rapid.T) *vxC07CCase {
	c := &vxC07CCase{Proto: rapid.IntRange(1, 5).Draw(t, "proto")}
	hs := cqlspec.HeaderSize(c.Proto)
	c.CoalesceUS = rapid.SampledFrom([]int{0, 0, 50, 200, 2000}).Draw(t, "coalesce")
	c.WriteTimeoutMS = 3000
	c.Fault.Kind = rapid.SampledFrom([]string{"none", "cutat", "cutat", "rule", "rule", "rule", "stall-deadline", "stall-release", "stall-release"}).Draw(t, "fault")
	n := rapid.SampledFrom([]int{2, 2, 3, 3, 4, 5, 6, 8, 10, 12}).Draw(t, "n")
	var sizes []int
	for i := 0; i < n; i++ {
		q := vxC07Q{}
		switch rapid.SampledFrom([]string{"tiny", "small", "small", "medium", "large"}).Draw(t, "size_class") {
		case "tiny":
			q.Size = 0
		case "small":
			q.Size = rapid.IntRange(1, 150).Draw(t, "size")
		case "medium":
			q.Size = rapid.IntRange(151, 6000).Draw(t, "size")
		default:
			q.Size = rapid.IntRange(16<<10, 70<<10).Draw(t, "size")
		}
		switch rapid.IntRange(0, 19).Draw(t, "cancel") {
		case 18, 19:
			q.Cancel = "racy"
			q.Spin = rapid.IntRange(0, 400).Draw(t, "spin")
		case 13, 14, 15, 16, 17:
			if c.Fault.Kind == "stall-release" {
				q.Cancel = "queued"
				q.Spin = rapid.IntRange(0, 200).Draw(t, "spin")
			}
		}
		sizes = append(sizes, q.Size+hs+24)
		c.Queries = append(c.Queries, q)
	}
	extra := rapid.IntRange(0, 3).Draw(t, "wave1")
	for i := 0; i < extra; i++ {
		c.Queries = append(c.Queries, vxC07Q{Size: rapid.IntRange(0, 300).Draw(t, "size1"), Wave: 1})
	}
	switch c.Fault.Kind {
	case "cutat":
		j := rapid.IntRange(0, n-1).Draw(t, "cut_frame")
		base := 0
		for i := 0; i < j; i++ {
			base += sizes[i]
		}
		off := rapid.IntRange(1, sizes[j]).Draw(t, "cut_off")
		if rapid.Bool().Draw(t, "cut_near_header") {
			off = rapid.IntRange(1, hs+1).Draw(t, "cut_off_h")
		}
		c.Fault.CutAt = base + off
	case "rule":
		c.Fault.Nth = rapid.IntRange(0, n-1).Draw(t, "nth")
		c.Fault.Accept = vxC07DrawAccept(t, sizes, hs)
		c.Fault.Err = rapid.SampledFrom([]string{"reset", "timeout", "ctxdeadline"}).Draw(t, "err")
		c.Fault.Close = rapid.Bool().Draw(t, "close")
	case "stall-deadline":
		c.WriteTimeoutMS = rapid.IntRange(5, 15).Draw(t, "stall_ms")
		c.Fault.Nth = rapid.IntRange(0, vxC07Min(2, n-1)).Draw(t, "nth")
		c.Fault.Accept = vxC07DrawAccept(t, sizes, hs)
	case "stall-release":
		c.Fault.Nth = rapid.IntRange(0, vxC07Min(1, n-1)).Draw(t, "nth")
		c.WriteTimeoutMS = 60000 // far beyond the watchdogs: only the harness ends this stall
	}
	if (c.Fault.Kind == "none" || c.Fault.Kind == "cutat") && rapid.IntRange(0, 3).Draw(t, "chunked") == 0 {
		c.Chunk = vxC07DrawChunk(t)
	}
	return c
}

type vxC07COut struct {
	nt      bool
	classes []string
	known   error
}

func vxC07RunConn(c *vxC07CCase) (*vxC07COut, error) {
	o, err := vxC07RunConnOnce(c)
	if err != nil && strings.HasPrefix(err.Error(), "watchdog:") {
		time.Sleep(2 * time.Second)
		o2, err2 := vxC07RunConnOnce(c)
		if err2 != nil && strings.HasPrefix(err2.Error(), "watchdog:") {
			return o2, fmt.Errorf("%v (twice)", err2)
		}
		atomic.AddInt32(&vxC07Unconfirmed, 1)
		return o2, err2
	}
	return o, err
}

func vxC07RunConnOnce(c *vxC07CCase) (*vxC07COut, error) {
	out := &vxC07COut{}
	hsWrites, hsBytes, err := vxC07Handshake(c.Proto)
	if err != nil {
		return nil, err
	}
	fault := c.Fault
	fault.Nth += hsWrites
	if fault.Kind == "cutat" {
		fault.CutAt += hsBytes
	}
	stallKind := fault.Kind == "stall-deadline" || fault.Kind == "stall-release"
	cl := vnode.NewCluster(vxSpecs(1, 1))
	node := cl.Nodes()[0]
	cl.PlanFor = func(addr string, nth int) vnode.Plan {
		if nth == 1 {
			return fault.plan()
		}
		return vnode.Plan{}
	}
	d := &vxC07Dialer{cl: cl, chunk: c.Chunk, watchNth: -1}
	if stallKind {
		d.watchNth = fault.Nth
	}
	s, err := vxClusterConfig(cl, c.Proto, func(cfg *ClusterConfig) {
		cfg.Dialer = d
		cfg.WriteCoalesceWaitTime = time.Duration(c.CoalesceUS) * time.Microsecond
		cfg.WriteTimeout = time.Duration(c.WriteTimeoutMS) * time.Millisecond
		if cfg.WriteTimeout > cfg.Timeout {
			cfg.Timeout = cfg.WriteTimeout // "WriteTimeout should be lower than or equal to Timeout"
		}
	}).CreateSession()
	if err != nil {
		return nil, fmt.Errorf("harness: CreateSession: %v", err)
	}
	closed := false
	defer func() {
		if !closed {
			s.Close()
		}
	}()
	// the pool connection is the second dial
	deadline := time.Now().Add(vxC07Watchdog)
	for len(d.Taps()) < 2 || s.pool.Size() < 1 {
		if time.Now().After(deadline) {
			return nil, fmt.Errorf("harness: no pool connection after %v", vxC07Watchdog)
		}
		time.Sleep(200 * time.Microsecond)
	}
	pool := d.Taps()[1]

	nq := len(c.Queries)
	errs := make([]error, nq)
	done := make([]chan struct{}, nq)
	cancels := make([]context.CancelFunc, nq)
	launch := func(i int, mode string) {
		ctx, cancel := context.WithCancel(context.Background())
		cancels[i] = cancel
		done[i] = make(chan struct{})
		if mode == "racy" {
			spin := c.Queries[i].Spin
			go func() {
				for x := 0; x < spin; x++ {
					runtime.Gosched()
				}
				cancel()
			}()
		}
		stmt := vxC07Stmt(i, c.Queries[i].Size)
		go func() {
			defer close(done[i])
			errs[i] = s.Query(stmt).WithContext(ctx).Exec()
		}()
	}
	defer func() {
		for _, cf := range cancels {
			if cf != nil {
				cf()
			}
		}
	}()
	var stage1, stage2, wave1 []int
	for i, q := range c.Queries {
		switch {
		case q.Wave == 1:
			wave1 = append(wave1, i)
		case q.Cancel == "queued" && fault.Kind == "stall-release":
			stage2 = append(stage2, i)
		default:
			stage1 = append(stage1, i)
		}
	}
	for _, i := range stage1 {
		mode := c.Queries[i].Cancel
		if mode == "queued" {
			mode = "racy"
		}
		launch(i, mode)
	}
	stage1Done := make(chan struct{})
	go func() {
		for _, i := range stage1 {
			<-done[i]
		}
		close(stage1Done)
	}()
	certain := map[int]bool{}
	stalled := false
	if stallKind {
		wd := time.NewTimer(vxC07Watchdog)
		select {
		case <-pool.watchCh:
			stalled = true
		case <-stage1Done:
		case <-wd.C:
			wd.Stop()
			pool.Conn.Release()
			return nil, fmt.Errorf("watchdog: neither the stalled Write was entered nor did the queries return within %v", vxC07Watchdog)
		}
		wd.Stop()
	}
	if fault.Kind == "stall-release" {
		if stalled {
			for _, i := range stage2 {
				launch(i, "")
			}
			for _, i := range stage2 {
				for x := 0; x < c.Queries[i].Spin; x++ {
					runtime.Gosched()
				}
				cancels[i]()
			}
			for _, i := range stage2 {
				if !vxC07Wait(done[i], vxC07Watchdog) {
					pool.Conn.Release()
					return nil, fmt.Errorf("query %d, cancelled while queued behind a stalled Write, did not return within %v", i, vxC07Watchdog)
				}
				if pool.StallHolds() {
					certain[i] = true
				}
			}
		} else {
			for _, i := range stage2 {
				launch(i, "racy")
			}
		}
		pool.Conn.Release()
	}
	for i := range done {
		if done[i] != nil && !vxC07Wait(done[i], vxC07Watchdog) {
			pool.Conn.Release()
			return nil, fmt.Errorf("watchdog: query %d did not return within %v", i, vxC07Watchdog)
		}
	}
	// a partial write must leave the connection closed (by the transport's fault or by the driver)
	segs, _ := pool.Segs()
	tornSeen := false
	for _, sg := range segs {
		if sg.Accepted > 0 && sg.Accepted < len(sg.Data) {
			tornSeen = true
		}
	}
	if tornSeen {
		deadline := time.Now().Add(vxC07CloseWait)
		for !pool.Conn.Closed() {
			if time.Now().After(deadline) {
				return nil, fmt.Errorf("a Write on the pool connection was cut inside a frame, but the driver still has the connection open %v later", vxC07CloseWait)
			}
			time.Sleep(200 * time.Microsecond)
		}
		out.classes = append(out.classes, "partial write -> connection closed")
	}
	for _, i := range wave1 {
		launch(i, "")
	}
	for _, i := range wave1 {
		if !vxC07Wait(done[i], vxC07Watchdog) {
			return nil, fmt.Errorf("watchdog: second-wave query %d did not return within %v", i, vxC07Watchdog)
		}
	}
	s.Close()
	closed = true
	d.mu.Lock() // dials are serialised under d.mu: a consistent snapshot
	conns := node.Conns()
	taps := append([]*vxC07Tap{}, d.taps...)
	d.mu.Unlock()
	if len(conns) != len(taps) {
		return nil, fmt.Errorf("harness: %d server connections, %d taps", len(conns), len(taps))
	}
	for _, sc := range conns {
		deadline := time.Now().Add(vxC07Watchdog)
		for !sc.C.Closed() {
			if time.Now().After(deadline) {
				return nil, fmt.Errorf("harness: node still serving connection %d after Session.Close", sc.ID)
			}
			time.Sleep(200 * time.Microsecond)
		}
	}

	// ---- judge every connection ----
	stmtIdx := map[string]int{}
	for i, q := range c.Queries {
		stmtIdx[vxC07Stmt(i, q.Size)] = i
	}
	whole := make([]int, nq)  // complete frames of query i on any wire
	pieces := make([]int, nq) // torn pieces / late frames of query i
	logs := node.Log()
	for j, sc := range conns {
		if sc.Client != taps[j].Conn {
			return nil, fmt.Errorf("harness: tap %d is not connection %d", j, sc.ID)
		}
		segs, overlaps, wireBytes, err := taps[j].Snapshot()
		if err != nil {
			return nil, err
		}
		wire, err := vxC07Analyse(segs, overlaps, wireBytes, true)
		if err != nil {
			return nil, fmt.Errorf("connection #%d: %v", j, err)
		}
		ident := func(f []byte) (int, error) {
			r, err := cqlspec.DecodeRequest(f, nil)
			if err != nil {
				return -1, fmt.Errorf("connection #%d: a frame the driver offered does not decode: %v (% x)", j, err, vxC07Head(f, 24))
			}
			if r.Kind == "QUERY" && strings.HasPrefix(r.Statement, "LIST tok") {
				i, ok := stmtIdx[r.Statement]
				if !ok {
					return -1, fmt.Errorf("connection #%d: QUERY with a statement nobody issued: %.60q (%d bytes)", j, r.Statement, len(r.Statement))
				}
				return i, nil
			}
			return -1, nil
		}
		for _, f := range wire.Complete {
			i, err := ident(f)
			if err != nil {
				return nil, err
			}
			if i >= 0 {
				whole[i]++
			}
		}
		for _, f := range wire.After {
			i, err := ident(f)
			if err != nil {
				return nil, err
			}
			if i >= 0 {
				pieces[i]++
			}
		}
		if wire.TornOf != nil {
			i, err := ident(wire.TornOf)
			if err != nil {
				return nil, err
			}
			if i >= 0 {
				pieces[i]++
			}
		}
		if j == 1 {
			if len(segs) < hsWrites {
				return nil, fmt.Errorf("harness: pool connection made %d writes, handshake is %d", len(segs), hsWrites)
			}
			if wire.CutInside || wire.MultiFlush {
				out.nt = true
			}
			if wire.MultiFlush {
				out.classes = append(out.classes, "flush of >=2 frames")
			}
			if wire.Reordered {
				out.classes = append(out.classes, "overlapping Write calls, wire still whole")
			}
			switch {
			case wire.Torn != nil && wire.BytesAfterTorn > 0:
				out.classes = append(out.classes, "wire: torn-then-more")
			case wire.Torn != nil:
				out.classes = append(out.classes, "wire: torn frame last")
			case wire.ZeroFail > 0:
				out.classes = append(out.classes, "wire: failed Write, nothing torn")
			default:
				out.classes = append(out.classes, "wire: whole frames only")
			}
			if wire.Torn != nil && wire.OfferedAfter > 0 && wire.BytesAfterTorn == 0 {
				out.classes = append(out.classes, "frames offered to the dead connection after the partial write (none accepted)")
			}
		}
		if wire.Torn != nil && wire.BytesAfterTorn > 0 {
			msg := fmt.Sprintf("connection #%d: %d of %d bytes of a frame were written (transport error %q), then %d more bytes (%d complete frames) were written on the same connection: the peer reads them as the rest of the torn frame",
				j, len(wire.Torn), len(wire.TornOf), wire.TornErr, wire.BytesAfterTorn, len(wire.After))
			nonClosing := j == 1 && (fault.Kind == "stall-deadline" || (fault.Kind == "rule" && !fault.Close))
			if !nonClosing {
				return nil, errors.New(msg)
			}
			if out.known == nil {
				out.known = vx.Known(vxC07KnownAfter, "%s", msg)
			}
			continue
		}
		// what the node decoded is what the wire carried
		var mine [][]byte
		for _, l := range logs {
			if l.ConnID == sc.ID {
				if l.Err != "" {
					return nil, fmt.Errorf("connection #%d: the node could not decode a request: %s", j, l.Err)
				}
				mine = append(mine, l.Raw)
			}
		}
		if len(mine) != len(wire.Complete) {
			return nil, fmt.Errorf("connection #%d: %d complete frames on the wire, the node logged %d requests", j, len(wire.Complete), len(mine))
		}
		for x := range mine {
			if !bytes.Equal(mine[x], wire.Complete[x]) {
				return nil, fmt.Errorf("connection #%d: request #%d the node read differs from frame #%d on the wire", j, x, x)
			}
		}
	}
	if out.known != nil {
		// the peer has read frames as the body of a torn one: what it answers to whom from here
		// on is arbitrary, the per-query outcomes say nothing
		return out, nil
	}
	nOK, nCtx := 0, 0
	for i := range c.Queries {
		if whole[i]+pieces[i] > 1 {
			return nil, fmt.Errorf("query %d: its frame appears %d times complete and %d times torn/late on the wire (no retry policy is configured)", i, whole[i], pieces[i])
		}
		if errs[i] == nil {
			nOK++
			if whole[i] != 1 {
				return nil, fmt.Errorf("query %d returned a response, but its frame is complete on the wire %d times", i, whole[i])
			}
		}
		if vxC07IsCtxErr(errs[i]) {
			nCtx++
		}
		if certain[i] {
			if errs[i] == nil || whole[i]+pieces[i] != 0 {
				return nil, fmt.Errorf("query %d was cancelled while queued behind a stalled Write (and returned before the stall was released) yet err=%v and its frame is on the wire (%d complete, %d torn)", i, errs[i], whole[i], pieces[i])
			}
		}
	}
	if len(certain) > 0 {
		out.classes = append(out.classes, "cancelled while certainly queued")
	}
	switch {
	case nOK == nq:
		out.classes = append(out.classes, "queries: all answered")
	case nOK == 0:
		out.classes = append(out.classes, "queries: none answered")
	default:
		out.classes = append(out.classes, "queries: some answered")
	}
	if nCtx > 0 {
		out.classes = append(out.classes, "some query got ctx error")
	}
	if len(conns) > 2 {
		out.classes = append(out.classes, "reconnected")
	}
	return out, nil
}

func TestVxC07Conn(t *testing.T) {
	vx.Check(t, vx.Prop{
		ID: "C07", Part: "TestVxC07Conn",
		Rule: "a real Session (protocol 1..5, NumConns=1, no retry policy) over a one-node lib/vnode cluster; 2..12 concurrent LIST tok<i> queries (statements 10 B..70 KiB, contexts live / cancelled concurrently / cancelled while queued behind a stalled Write) on the single pool connection, then 0..3 more queries; coalescing off / 50 us / 200 us / 2 ms; the pool connection (second dial) carries a fault plan positioned after its handshake: cut at a byte offset, k-th Write fails after a drawn number of bytes (reset / timeout, closing or not), stall until the write deadline (5..15 ms) or until released; optional chunked transport. Non-trivial = (always >= 2 concurrent queries) a Write of the pool connection cut strictly inside a frame, or one flush (SetWriteDeadline epoch in the per-Write record) carrying >= 2 frames. Distinct by the whole drawn case",
		Draw: func(t *rapid.T) interface{} { return vxC07DrawC(t) },
		New:  func() interface{} { return &vxC07CCase{} },
		Run: func(ci interface{}, k *vstats.Case) error {
			c := ci.(*vxC07CCase)
			if len(c.Queries) < 1 || c.Proto < 1 || c.Proto > 5 {
				return nil
			}
			defer func() {
				if atomic.SwapInt32(&vxC07Unconfirmed, 0) > 0 {
					k.Class("unconfirmed-watchdog (a second run of the case did not repeat it)")
				}
			}()
			o, err := vxC07RunConn(c)
			if err != nil {
				return err
			}
			co := "direct"
			if c.CoalesceUS > 0 {
				co = fmt.Sprintf("coalesce/%dus", c.CoalesceUS)
			}
			k.Class(co + " " + c.Fault.Kind)
			sort.Strings(o.classes)
			for _, cl := range o.classes {
				k.Class(cl)
			}
			if c.Chunk != nil {
				k.Class("chunked transport")
			}
			if o.nt {
				k.NonTrivial()
			}
			return o.known
		},
	})
}
