//go:build verif && go1.21

package gocql

// C16, order of status events: UP and DOWN events for one node pushed back to back. The last one is the
// node's status.

import (
	"fmt"
	"net"
	"testing"
	"time"

	"pgregory.net/rapid"
	"verif.local/cqlspec"
	"verif.local/vnode"
	"verif.local/vstats"
	"verif.local/vx"
)

type vxC16OrderCase struct {
	Proto  int      `json:"proto"`
	N      int      `json:"n"`
	Target int      `json:"target"` // among the nodes that do not carry the control connection
	Seq    []string `json:"seq"`    // UP / DOWN, 2..5 events
}

func vxRunC16Order(c *vxC16OrderCase, k *vstats.Case) error {
	if c.Proto < 2 || c.Proto > 5 || c.N < 2 || c.N > 3 || len(c.Seq) < 2 || len(c.Seq) > 5 {
		return nil
	}
	for _, e := range c.Seq {
		if e != "UP" && e != "DOWN" {
			return nil
		}
	}
	specs := vxSpecs(c.N, 1)
	cl := vnode.NewCluster(specs)
	s, err := vxClusterConfig(cl, c.Proto, func(cfg *ClusterConfig) {
		cfg.PoolConfig.HostSelectionPolicy = RoundRobinHostPolicy()
	}).CreateSession()
	if err != nil {
		return fmt.Errorf("harness: CreateSession: %v", err)
	}
	defer s.Close()
	ch := s.control.getConn()
	if ch == nil {
		return fmt.Errorf("harness: no control connection")
	}
	var ctl *vnode.Node
	var others []*vnode.Node
	for _, nd := range cl.Nodes() {
		if nd.Spec.IP == ch.host.ConnectAddress().String() {
			ctl = nd
		} else {
			others = append(others, nd)
		}
	}
	if ctl == nil || len(others) == 0 {
		return fmt.Errorf("harness: control node not found")
	}
	target := others[c.Target%len(others)]
	ip := net.ParseIP(target.Spec.IP).To4()
	for _, e := range c.Seq {
		if n := ctl.SendEvent(&cqlspec.Response{EventType: "STATUS_CHANGE", Change: e, AddrHex: fmt.Sprintf("%x", []byte(ip)), Port: 9042}); n != 1 {
			return fmt.Errorf("harness: %d registered connections, want 1", n)
		}
	}
	last := c.Seq[len(c.Seq)-1]
	mixed := false
	for _, e := range c.Seq {
		if e != last {
			mixed = true
		}
	}
	if mixed {
		k.NonTrivial()
	}
	k.Class("last=" + last)
	var host *HostInfo
	for _, h := range s.ring.allHosts() {
		if h.ConnectAddress().Equal(ip) {
			host = h
		}
	}
	if host == nil {
		return fmt.Errorf("harness: target host not in the ring")
	}
	offered := func() bool {
		it := s.policy.Pick(nil)
		for i := 0; i < 2*c.N; i++ {
			sh := it()
			if sh == nil {
				break
			}
			if sh.Info() == host {
				return true
			}
		}
		return false
	}
	// the debouncer hands the burst over one second after its last event
	time.Sleep(1300 * time.Millisecond)
	deadline := time.Now().Add(4 * time.Second)
	for {
		up, off := host.IsUp(), offered()
		if last == "DOWN" && !up && !off {
			// stays so (nobody reconnects: ReconnectInterval is 0)
			time.Sleep(300 * time.Millisecond)
			if host.IsUp() || offered() {
				return fmt.Errorf("events %v for %s: the node was down and came back without any further event", c.Seq, target.Spec.IP)
			}
			return nil
		}
		if last == "UP" && up && off {
			return nil
		}
		if time.Now().After(deadline) {
			return fmt.Errorf("events %v for %s were pushed back to back; the last says %s, but %v later the driver has the node up=%v and offers it for queries=%v", c.Seq, target.Spec.IP, last, 5300*time.Millisecond, up, off)
		}
		time.Sleep(10 * time.Millisecond)
	}
}

func TestVxC16EventOrder(t *testing.T) {
	vx.Check(t, vx.Prop{
		ID: "C16", Part: "TestVxC16EventOrder",
		Rule: "protocol 2..5, 2..3 nodes; 2..5 STATUS_CHANGE events (UP / DOWN) for one node that does not carry the control connection, pushed back to back; oracle: once the debouncer has handed the burst over, the node's status is the last one reported - down and not offered by the policy (and staying so), or up and offered - within 5.3 s; non-trivial = the burst holds both kinds; distinct by the case",
		Draw: func(t *rapid.T) interface{} {
			c := &vxC16OrderCase{Proto: rapid.IntRange(2, 5).Draw(t, "proto"), N: rapid.IntRange(2, 3).Draw(t, "n"), Target: rapid.IntRange(0, 1).Draw(t, "target")}
			for i := rapid.IntRange(2, 5).Draw(t, "len"); i > 0; i-- {
				c.Seq = append(c.Seq, rapid.SampledFrom([]string{"UP", "DOWN"}).Draw(t, "ev"))
			}
			return c
		},
		New: func() interface{} { return &vxC16OrderCase{} },
		Run: func(ci interface{}, k *vstats.Case) error { return vxRunC16Order(ci.(*vxC16OrderCase), k) },
	})
}
