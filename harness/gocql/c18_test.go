//go:build verif && go1.21

package gocql

// C18 (codec half for snappy, and the framer half): SnappyCompressor is
// transparent and interoperates with a peer built directly on golang/snappy and
// with a library-free snappy codec (verif.local/cqlspec); request frames are
// compressed exactly when their header flag says so, OPTIONS and STARTUP never;
// a flagged response on a framer without compressor, or a corrupt compressed
// response body, is an error and not a panic.
//
// The negotiation half (SUPPORTED / STARTUP over a scripted node) lives elsewhere.

import (
	"bytes"
	"encoding/binary"
	"errors"
	"fmt"
	"os"
	"runtime"
	"sort"
	"testing"

	"github.com/golang/snappy"
	"pgregory.net/rapid"
	"verif.local/cqlspec"
	"verif.local/vgen"
	"verif.local/vstats"
	"verif.local/vx"
)

const vxC18MaxDeclared = 16 << 20

func vxC18Eq(a, b []byte) bool { return len(a) == len(b) && bytes.Equal(a, b) }

func vxC18Diff(a, b []byte) string {
	n := len(a)
	if len(b) < n {
		n = len(b)
	}
	for i := 0; i < n; i++ {
		if a[i] != b[i] {
			return fmt.Sprintf("len %d vs %d, first difference at %d", len(a), len(b), i)
		}
	}
	return fmt.Sprintf("len %d vs %d, common prefix equal", len(a), len(b))
}

func vxC18Min(a, b int) int {
	if a < b {
		return a
	}
	return b
}

// ---- snappy: transparency and interoperability ----------------------------------------

var vxC18SnappyPeerEncoders = []string{"lib", "spec-literal", "spec-greedy"}

func vxC18SnappyPeerEncode(mode string, x []byte) []byte {
	switch mode {
	case "spec-literal":
		return cqlspec.SnappyEncode(x, false)
	case "spec-greedy":
		return cqlspec.SnappyEncode(x, true)
	}
	return snappy.Encode(nil, x)
}

type vxC18SnRTCase struct {
	Body vgen.BodySpec `json:"body"`
}

func TestVxC18SnappyRoundTrip(t *testing.T) {
	vx.Check(t, vx.Prop{ID: "C18", Part: "TestVxC18SnappyRoundTrip",
		Rule: "body = shape(random|zeros|repeat|lowentropy|text|rows|mixed|farmatch) x size 0..1MiB (classes and +-3 around codec boundaries incl. snappy's 64KiB blocks) x seed; " +
			"non-trivial: size >= 8 and the driver's output is shorter than the input; distinct = distinct (shape,size,seed,p)",
		Draw: func(t *rapid.T) interface{} { return &vxC18SnRTCase{Body: vgen.DrawBody(t, 1<<20, "b")} },
		New:  func() interface{} { return &vxC18SnRTCase{} },
		Run: func(ci interface{}, k *vstats.Case) error {
			c := ci.(*vxC18SnRTCase)
			x := c.Body.Bytes()
			orig := append([]byte(nil), x...)
			k.Class("shape=" + c.Body.Kind)
			k.Class("size=" + vgen.SizeClass(len(x)))
			var z SnappyCompressor
			enc, err := z.Encode(x)
			if err != nil {
				return fmt.Errorf("Encode(%d bytes) failed: %v", len(x), err)
			}
			if !vxC18Eq(x, orig) {
				return fmt.Errorf("Encode modified its input")
			}
			if len(x) >= 8 && len(enc) < len(x) {
				k.NonTrivial()
				k.Class("compressible")
			} else if len(x) >= 8 {
				k.Class("incompressible")
			}
			if n, w := binary.Uvarint(enc); w <= 0 || n != uint64(len(x)) {
				return fmt.Errorf("Encode(%d bytes): block does not start with the uvarint of the uncompressed length (got %d, width %d)", len(x), n, w)
			}
			got, err := snappy.Decode(nil, enc)
			if err != nil {
				return fmt.Errorf("peer (golang/snappy) cannot decode driver output for %d bytes: %v", len(x), err)
			}
			if !vxC18Eq(got, x) {
				return fmt.Errorf("peer decodes driver output to different bytes: %s", vxC18Diff(got, x))
			}
			got, err = cqlspec.SnappyDecode(enc, vxC18MaxDeclared)
			if err != nil {
				return fmt.Errorf("independent snappy decoder cannot decode driver output for %d bytes: %v", len(x), err)
			}
			if !vxC18Eq(got, x) {
				return fmt.Errorf("independent decoder decodes driver output to different bytes: %s", vxC18Diff(got, x))
			}
			encCopy := append([]byte(nil), enc...)
			dec, err := z.Decode(enc)
			if err != nil {
				return fmt.Errorf("Decode(Encode(x)) failed for %d bytes: %v", len(x), err)
			}
			if !vxC18Eq(dec, x) {
				return fmt.Errorf("Decode(Encode(x)) != x: %s", vxC18Diff(dec, x))
			}
			if !vxC18Eq(enc, encCopy) {
				return fmt.Errorf("Decode modified its input")
			}
			for _, mode := range vxC18SnappyPeerEncoders {
				pe := vxC18SnappyPeerEncode(mode, x)
				if chk, err := snappy.Decode(nil, pe); err != nil || !vxC18Eq(chk, x) {
					return fmt.Errorf("harness: peer encoding %s is not a valid snappy block per golang/snappy: %v", mode, err)
				}
				dec, err := z.Decode(pe)
				if err != nil {
					return fmt.Errorf("driver cannot decode a valid body from peer %s (%d -> %d bytes): %v", mode, len(x), len(pe), err)
				}
				if !vxC18Eq(dec, x) {
					return fmt.Errorf("driver decodes peer %s body to different bytes: %s", mode, vxC18Diff(dec, x))
				}
			}
			return nil
		}})
}

// ---- snappy: corrupt bodies -------------------------------------------------------------

type vxC18Mut struct {
	Mut string `json:"mut"`
	A   int    `json:"a"`
	B   int    `json:"b"`
	C   int    `json:"c"`
}

var vxC18Muts = []string{"trunc", "truncAll", "flip", "flip", "flipAll", "prefix", "prefix", "append", "none"}

func vxC18DrawMut(t *rapid.T, muts []string) vxC18Mut {
	m := vxC18Mut{Mut: rapid.SampledFrom(muts).Draw(t, "mut")}
	switch m.Mut {
	case "trunc":
		m.A = int(rapid.Uint32().Draw(t, "a"))
		if rapid.Bool().Draw(t, "nearEnd") {
			m.A = -1 - rapid.IntRange(0, 12).Draw(t, "fromEnd")
		}
	case "flip":
		m.A = int(rapid.Uint32().Draw(t, "a"))
		if rapid.Bool().Draw(t, "head") {
			m.A = rapid.IntRange(0, 8*8).Draw(t, "aHead")
		}
		m.B = rapid.SampledFrom([]int{-1, -1, 0, 1}).Draw(t, "more")
	case "prefix":
		m.A = rapid.IntRange(0, 6).Draw(t, "mode")
		switch m.A {
		case 0:
			m.B = rapid.SampledFrom([]int{-8, -5, -4, -3, -2, -1, 1, 2, 3, 4, 5, 8, 64, 255, 256, 4096, 65536}).Draw(t, "delta")
		case 5:
			m.B = int(rapid.Uint32Range(0, vxC18MaxDeclared).Draw(t, "abs"))
		case 6:
			m.B = int(rapid.Uint32Range(0, 0x7fffffff).Draw(t, "hugeLow"))
		}
	case "append":
		m.B = rapid.IntRange(0, 15).Draw(t, "extra")
		m.C = int(rapid.Uint32().Draw(t, "garbageSeed"))
	}
	return m
}

// vxC18SnappyReprefix replaces the uvarint length header of a snappy block.
func vxC18SnappyReprefix(enc []byte, n uint64) []byte {
	_, w := binary.Uvarint(enc)
	if w <= 0 {
		w = 0
	}
	var tmp [binary.MaxVarintLen64]byte
	out := append([]byte(nil), tmp[:binary.PutUvarint(tmp[:], n)]...)
	return append(out, enc[w:]...)
}

// vxC18Apply returns the list of corrupted variants (one, or all offsets for the
// *All mutations on small inputs) with a description each. real is the
// uncompressed length, lenCodec tells how the declared length is stored.
func vxC18Apply(enc []byte, real int, m vxC18Mut, reprefix func([]byte, uint64) []byte, k *vstats.Case) (ins [][]byte, ctx []string, measure bool) {
	add := func(b []byte, f string, a ...interface{}) {
		ins = append(ins, b)
		ctx = append(ctx, fmt.Sprintf(f, a...))
	}
	measure = true
	switch m.Mut {
	case "none":
		add(enc, "unmodified")
	case "trunc", "truncAll":
		if m.Mut == "truncAll" && len(enc) <= 600 {
			k.NonTrivial()
			measure = false
			for n := 0; n < len(enc); n++ {
				add(enc[:n:n], "truncated to %d of %d bytes", n, len(enc))
			}
			return
		}
		n := 0
		if m.A < 0 {
			if n = len(enc) + m.A; n < 0 {
				n = 0
			}
		} else {
			n = m.A % (len(enc) + 1)
		}
		if n < len(enc) {
			k.NonTrivial()
		}
		add(enc[:n:n], "truncated to %d of %d bytes", n, len(enc))
	case "flip", "flipAll":
		if len(enc) == 0 {
			add(enc, "unmodified (empty)")
			return
		}
		if m.Mut == "flipAll" && len(enc) <= 160 {
			k.NonTrivial()
			measure = false
			for bit := 0; bit < 8*len(enc); bit++ {
				c := append([]byte(nil), enc...)
				c[bit/8] ^= 1 << uint(bit%8)
				add(c, "bit %d of %d bytes flipped", bit, len(enc))
			}
			return
		}
		c := append([]byte(nil), enc...)
		nb := 8 * len(c)
		bits := []int{m.A % nb}
		for i := 0; i <= m.B && m.B >= 0; i++ {
			bits = append(bits, (m.A/7+i*131+5)%nb)
		}
		for _, b := range bits {
			c[b/8] ^= 1 << uint(b%8)
		}
		if !vxC18Eq(c, enc) {
			k.NonTrivial()
		}
		add(c, "bits %v of %d bytes flipped", bits, len(enc))
	case "prefix":
		var p int64
		switch m.A {
		case 0:
			p = int64(real) + int64(m.B)
		case 1:
			p = 0
		case 2:
			p = int64(len(enc))
		case 3:
			p = 2*int64(real) + 1
		case 4:
			p = vxC18MaxDeclared
		case 5:
			p = int64(m.B)
		case 6:
			p = 0x80000000 + int64(m.B)
		}
		if p < 0 {
			p = 0
		}
		switch {
		case p == int64(real):
			k.Class("prefix=real")
		case p > vxC18MaxDeclared:
			k.Class("prefix=huge")
			k.NonTrivial()
		case p > int64(real):
			k.Class("prefix=overstates")
			k.NonTrivial()
		default:
			k.Class("prefix=understates")
			k.NonTrivial()
		}
		add(reprefix(enc, uint64(p)), "declared length rewritten from %d to %d", real, p)
	case "append":
		g := make([]byte, 1+m.B)
		r := vgen.SplitMix(uint64(m.C))
		r.Fill(g)
		k.NonTrivial()
		add(append(append([]byte(nil), enc...), g...), "%d garbage bytes appended", len(g))
	default:
		add(enc, "unmodified (unknown mutation %q)", m.Mut)
	}
	return
}

// vxC18SnappyDeclared: declared length of a block, ok=false if there is no valid header.
func vxC18SnappyDeclared(in []byte) (uint64, bool) {
	n, w := binary.Uvarint(in)
	return n, w > 0
}

func vxC18JudgeSnappy(in []byte, measure bool) (class string, err error) {
	decl, ok := vxC18SnappyDeclared(in)
	if ok && decl > vxC18MaxDeclared {
		return "excluded", nil
	}
	inCopy := append([]byte(nil), in...)
	var m0, m1 runtime.MemStats
	if measure {
		runtime.ReadMemStats(&m0)
	}
	var out []byte
	var derr error
	func() {
		defer func() {
			if r := recover(); r != nil {
				err = fmt.Errorf("Decode panicked on % x...(%d bytes): %v", in[:vxC18Min(len(in), 24)], len(in), r)
			}
		}()
		out, derr = SnappyCompressor{}.Decode(in)
	}()
	if err != nil {
		return "panic", err
	}
	if measure {
		runtime.ReadMemStats(&m1)
		if !ok {
			decl = 0
		}
		if d, lim := m1.TotalAlloc-m0.TotalAlloc, decl+4*uint64(len(in))+(256<<10); d > lim {
			return "alloc", fmt.Errorf("Decode of %d bytes declaring %d allocated %d bytes (bound %d)", len(in), decl, d, lim)
		}
	}
	if !vxC18Eq(in, inCopy) {
		return "mutated", fmt.Errorf("Decode modified its input")
	}
	pOut, pErr := snappy.Decode(nil, in)
	sOut, sErr := cqlspec.SnappyDecode(in, vxC18MaxDeclared)
	switch {
	case pErr == nil && sErr == nil && !vxC18Eq(pOut, sOut):
		// two decoders that both accept must agree on the content: this is a harness/peer fault line
		return "refs", fmt.Errorf("harness: golang/snappy and the independent decoder both accept % x...(%d bytes) but decode it differently: %s", in[:vxC18Min(len(in), 24)], len(in), vxC18Diff(pOut, sOut))
	case (pErr == nil) != (sErr == nil):
		class = "refs-disagree"
		if os.Getenv("VX_DEBUG") != "" {
			fmt.Fprintf(os.Stderr, "VXDEBUG snappy refs-disagree in=% x (%d) lib=%v spec=%v\n", in[:vxC18Min(len(in), 40)], len(in), pErr, sErr)
		}
	}
	if pErr == nil {
		if derr != nil {
			return "peer-ok", fmt.Errorf("driver rejects a body the peer decodes (%d bytes -> %d): %v", len(in), len(pOut), derr)
		}
		if !vxC18Eq(out, pOut) {
			return "peer-ok", fmt.Errorf("driver and peer decode the same body differently: %s", vxC18Diff(out, pOut))
		}
		if class == "" {
			class = "peer-ok"
		}
		return class, nil
	}
	if derr == nil {
		return "driver-accepts-corrupt", fmt.Errorf("peer rejects the body (%v) but Decode returned %d bytes and no error; input % x... (%d bytes)", pErr, len(out), in[:vxC18Min(len(in), 24)], len(in))
	}
	if class == "" {
		class = "both-reject"
	}
	return class, nil
}

type vxC18SnCorruptCase struct {
	Body vgen.BodySpec `json:"body"`
	Enc  string        `json:"enc"` // driver | lib | spec-literal | spec-greedy | raw
	Raw  []byte        `json:"raw,omitempty"`
	M    vxC18Mut      `json:"m"`
}

func TestVxC18SnappyCorrupt(t *testing.T) {
	vx.Check(t, vx.Prop{ID: "C18", Part: "TestVxC18SnappyCorrupt",
		Rule: "valid snappy body from the driver or one of three peer encoders (sizes mostly <=600, some to 1MiB), then one corruption: truncate at one/every offset, flip 1-3 bits / every single bit, " +
			"rewrite the uvarint length (real+-d, 0, compressed length, 2x, 16MiB, any <=16MiB, >=2^31 [excluded, counted]), append garbage; or raw inputs of 0..40 bytes; " +
			"non-trivial: the evaluated input differs from a valid encoding; distinct = distinct case",
		Draw: func(t *rapid.T) interface{} {
			c := &vxC18SnCorruptCase{}
			if rapid.IntRange(0, 9).Draw(t, "rawQ") == 0 {
				c.Enc = "raw"
				n := rapid.SampledFrom([]int{0, 1, 2, 3, 4, 5, 6, 8, 12, 40}).Draw(t, "rawLen")
				c.Raw = rapid.SliceOfN(rapid.Byte(), n, n).Draw(t, "raw")
				if n > 0 && rapid.Bool().Draw(t, "smallLen") {
					c.Raw[0] &= 0x7f // one-byte length header
				}
				c.M.Mut = "none"
				return c
			}
			c.Enc = rapid.SampledFrom(append([]string{"driver", "driver"}, vxC18SnappyPeerEncoders...)).Draw(t, "enc")
			max := 600
			switch rapid.IntRange(0, 9).Draw(t, "sizeQ") {
			case 0, 1:
				max = 70000
			case 2:
				max = 1 << 20
			}
			c.Body = vgen.DrawBody(t, max, "b")
			c.M = vxC18DrawMut(t, vxC18Muts)
			return c
		},
		New: func() interface{} { return &vxC18SnCorruptCase{} },
		Run: func(ci interface{}, k *vstats.Case) error {
			c := ci.(*vxC18SnCorruptCase)
			var enc []byte
			real := 0
			if c.Enc == "raw" {
				enc = append([]byte(nil), c.Raw...)
				k.Class("mut=raw")
				k.NonTrivial()
			} else {
				x := c.Body.Bytes()
				real = len(x)
				if c.Enc == "driver" {
					var err error
					if enc, err = (SnappyCompressor{}).Encode(x); err != nil {
						return fmt.Errorf("Encode failed: %v", err)
					}
				} else {
					enc = vxC18SnappyPeerEncode(c.Enc, x)
				}
				k.Class("mut=" + c.M.Mut)
			}
			ins, ctx, measure := vxC18Apply(enc, real, c.M, vxC18SnappyReprefix, k)
			var first error
			for i, in := range ins {
				class, err := vxC18JudgeSnappy(in, measure)
				if class == "excluded" {
					k.Excluded("declared-length-above-16MiB")
				}
				k.Class("verdict=" + class)
				if err != nil && first == nil {
					first = fmt.Errorf("%s: %v", ctx[i], err)
				}
			}
			return first
		}})
}

// capped probe, not part of the check:  VX_PROBE=1 <binary> -test.run TestVxC18SnappyHugeLengthProbe -test.v
func TestVxC18SnappyHugeLengthProbe(t *testing.T) {
	if os.Getenv("VX_PROBE") == "" {
		t.Skip("probe only")
	}
	for _, p := range []uint64{64 << 20, 256 << 20, 1 << 30, 0x80000000, 0xffffffff} {
		in := vxC18SnappyReprefix([]byte{1, 0, 'a'}, p)
		var m0, m1 runtime.MemStats
		runtime.ReadMemStats(&m0)
		out, err := SnappyCompressor{}.Decode(in)
		runtime.ReadMemStats(&m1)
		t.Logf("declared %#x, %d-byte input: allocated %d MiB, returned %d bytes, err=%v", p, len(in), (m1.TotalAlloc-m0.TotalAlloc)>>20, len(out), err)
	}
}

// ---- framer: requests ---------------------------------------------------------------------

// vxC18Fake is a second Compressor so that the framer rules are checked
// independently of snappy: 'VXF' + 4-byte length + bytes xor 0x5a.
type vxC18Fake struct{}

func (vxC18Fake) Name() string { return "vxfake" }
func (vxC18Fake) Encode(b []byte) ([]byte, error) {
	out := make([]byte, 7, 7+len(b))
	copy(out, "VXF")
	binary.BigEndian.PutUint32(out[3:], uint32(len(b)))
	for _, c := range b {
		out = append(out, c^0x5a)
	}
	return out, nil
}
func (vxC18Fake) Decode(b []byte) ([]byte, error) { return vxC18FakeDecode(b) }

func vxC18FakeDecode(b []byte) ([]byte, error) {
	if len(b) < 7 || string(b[:3]) != "VXF" || int(binary.BigEndian.Uint32(b[3:])) != len(b)-7 {
		return nil, errors.New("vxfake: corrupt body")
	}
	out := make([]byte, 0, len(b)-7)
	for _, c := range b[7:] {
		out = append(out, c^0x5a)
	}
	return out, nil
}

func vxC18Compressor(name string) Compressor {
	switch name {
	case "snappy":
		return SnappyCompressor{}
	case "vxfake":
		return vxC18Fake{}
	}
	return nil
}

// vxC18PeerDecode: how the other side of the connection would decompress.
func vxC18PeerDecode(name string, b []byte) ([]byte, error) {
	switch name {
	case "snappy":
		if n, ok := vxC18SnappyDeclared(b); ok && n > 64<<20 {
			return nil, errors.New("peer: declared length above the harness limit")
		}
		return snappy.Decode(nil, b)
	case "vxfake":
		return vxC18FakeDecode(b)
	}
	return nil, errors.New("no such codec")
}

func vxC18PeerEncode(name, mode string, b []byte) []byte {
	if name == "snappy" {
		return vxC18SnappyPeerEncode(mode, b)
	}
	out, _ := vxC18Fake{}.Encode(b)
	return out
}

type vxC18ReqCase struct {
	Version int             `json:"version"`
	Comp    string          `json:"comp"`
	Kind    string          `json:"kind"`
	Stream  int             `json:"stream"`
	Trace   bool            `json:"trace"`
	Payload bool            `json:"payload"` // one custom payload entry (v4+, query/prepare/execute/batch)
	Big     vgen.BodySpec   `json:"big"`     // statement text / auth token / paging state
	Vals    []vgen.BodySpec `json:"vals"`
	Opt     int             `json:"opt"` // bit set of optional request fields
	N       int             `json:"n"`   // batch statements, startup options, register events
}

var vxC18ReqKinds = []string{"query", "prepare", "execute", "batch", "options", "startup", "register", "authResponse"}

// opcodes as listed in the native protocol specification, section 2.4
var vxC18Opcodes = map[string]byte{"startup": 0x01, "options": 0x05, "query": 0x07, "prepare": 0x09, "execute": 0x0A, "register": 0x0B, "batch": 0x0D, "authResponse": 0x0F}

func vxC18QueryValues(c *vxC18ReqCase) []queryValues {
	var vs []queryValues
	named := c.Opt&1 != 0 && c.Version >= 3 && c.Kind != "batch"
	for i, v := range c.Vals {
		q := queryValues{value: v.Bytes()}
		if v.P%7 == 0 {
			q.value = nil // null
		}
		if c.Version >= 4 && v.P%11 == 0 {
			q.isUnset = true
		}
		if named {
			q.name = fmt.Sprintf("v%d", i)
		}
		vs = append(vs, q)
	}
	return vs
}

func vxC18Params(c *vxC18ReqCase) queryParams {
	p := queryParams{consistency: Consistency(c.Opt >> 12 & 7), values: vxC18QueryValues(c)}
	if c.Opt&2 != 0 {
		p.skipMeta = true
	}
	if c.Opt&4 != 0 {
		p.pageSize = 1 + c.N*100
	}
	if c.Opt&8 != 0 {
		p.pagingState = vgen.Body("random", 1+c.N, c.Big.Seed, 0)
	}
	if c.Opt&16 != 0 {
		p.serialConsistency = LocalSerial
	}
	if c.Opt&32 != 0 && c.Version >= 3 {
		p.defaultTimestamp = true
		p.defaultTimestampValue = 1 + int64(c.Big.Seed>>8) // never 0: 0 means "use the wall clock"
	}
	if c.Opt&64 != 0 && c.Version >= 5 {
		p.keyspace = "ks1"
	}
	return p
}

func vxC18Builder(c *vxC18ReqCase) (frameBuilder, map[string]string) {
	var payload map[string][]byte
	if c.Payload && c.Version >= 4 {
		payload = map[string][]byte{"vx-key": vgen.Body("text", 1+c.N, c.Big.Seed, 0)}
	}
	big := c.Big.Bytes()
	switch c.Kind {
	case "query":
		return &writeQueryFrame{statement: string(big), params: vxC18Params(c), customPayload: payload}, nil
	case "prepare":
		w := &writePrepareFrame{statement: string(big), customPayload: payload}
		if c.Opt&64 != 0 && c.Version >= 5 {
			w.keyspace = "ks1"
		}
		return w, nil
	case "execute":
		id := vgen.Body("random", 16, c.Big.Seed, 0)
		p := vxC18Params(c)
		if len(p.pagingState) > 0 {
			p.pagingState = big // the large field of an EXECUTE
		} else if len(p.values) > 0 && !p.values[0].isUnset {
			p.values[0].value = big
		}
		return &writeExecuteFrame{preparedID: id, params: p, customPayload: payload}, nil
	case "batch":
		w := &writeBatchFrame{typ: BatchType(c.Opt >> 8 & 3), consistency: Consistency(c.Opt >> 12 & 7), customPayload: payload}
		for i := 0; i < 1+c.N; i++ {
			st := batchStatment{values: vxC18QueryValues(c)}
			if (c.Opt>>uint(16+i))&1 != 0 {
				st.preparedID = vgen.Body("random", 16, c.Big.Seed+uint64(i), 0)
			} else if i == 0 {
				st.statement = string(big)
			} else {
				st.statement = string(vgen.Body("text", 20+i, c.Big.Seed+uint64(i), 0))
			}
			w.statements = append(w.statements, st)
		}
		if c.Version >= 3 {
			if c.Opt&16 != 0 {
				w.serialConsistency = Serial
			}
			if c.Opt&32 != 0 {
				w.defaultTimestamp = true
				w.defaultTimestampValue = 1 + int64(c.Big.Seed>>8)
			}
		}
		return w, nil
	case "options":
		return &writeOptionsFrame{}, nil
	case "startup":
		opts := map[string]string{"CQL_VERSION": "3.0.0"}
		if c.Opt&1 != 0 {
			opts["COMPRESSION"] = c.Comp
		}
		for i := 0; i < c.N; i++ {
			opts[fmt.Sprintf("OPT_%d", i)] = string(vgen.Body("text", i*7, c.Big.Seed+uint64(i), 0))
		}
		if c.Opt&2 != 0 {
			opts["BIG"] = string(big[:vxC18Min(len(big), 60000)])
		}
		return &writeStartupFrame{opts: opts}, opts
	case "register":
		ev := []string{"TOPOLOGY_CHANGE", "STATUS_CHANGE", "SCHEMA_CHANGE"}[:c.N%4]
		return &writeRegisterFrame{events: ev}, nil
	case "authResponse":
		return &writeAuthResponseFrame{data: big}, nil
	}
	return nil, nil
}

type vxC18Head struct {
	version, flags, op byte
	stream             int
	length             int
	body               []byte
}

// vxC18Split parses a frame per the protocol specification's header layout.
func vxC18Split(b []byte, version int) (h vxC18Head, err error) {
	hs := 9
	if version < 3 {
		hs = 8
	}
	if len(b) < hs {
		return h, fmt.Errorf("frame of %d bytes is shorter than its %d byte header", len(b), hs)
	}
	h.version, h.flags = b[0], b[1]
	if version < 3 {
		h.stream, h.op = int(int8(b[2])), b[3]
	} else {
		h.stream, h.op = int(int16(binary.BigEndian.Uint16(b[2:]))), b[4]
	}
	h.length = int(int32(binary.BigEndian.Uint32(b[hs-4:])))
	h.body = b[hs:]
	if h.length != len(h.body) {
		return h, fmt.Errorf("header length field %d, but %d body bytes follow", h.length, len(h.body))
	}
	return h, nil
}

// vxC18StringMap parses a [string map] body.
func vxC18StringMap(b []byte) (map[string]string, error) {
	rd := func(n int) ([]byte, error) {
		if len(b) < n {
			return nil, errors.New("short string map")
		}
		x := b[:n]
		b = b[n:]
		return x, nil
	}
	x, err := rd(2)
	if err != nil {
		return nil, err
	}
	m := map[string]string{}
	for i := int(binary.BigEndian.Uint16(x)); i > 0; i-- {
		var kv [2]string
		for j := range kv {
			if x, err = rd(2); err != nil {
				return nil, err
			}
			if x, err = rd(int(binary.BigEndian.Uint16(x))); err != nil {
				return nil, err
			}
			kv[j] = string(x)
		}
		m[kv[0]] = kv[1]
	}
	if len(b) != 0 {
		return nil, errors.New("trailing bytes after string map")
	}
	return m, nil
}

func vxC18MapString(m map[string]string) string {
	ks := make([]string, 0, len(m))
	for k := range m {
		ks = append(ks, k)
	}
	sort.Strings(ks)
	s := ""
	for _, k := range ks {
		s += fmt.Sprintf("%q=%q;", k, m[k])
	}
	return s
}

func vxC18Build(c *vxC18ReqCase, comp Compressor) (wire []byte, err error) {
	f := newFramer(comp, byte(c.Version))
	if c.Trace {
		f.trace()
	}
	b, _ := vxC18Builder(c)
	if err := b.buildFrame(f, c.Stream); err != nil {
		return nil, err
	}
	var w bytes.Buffer
	if err := f.writeTo(&w); err != nil {
		return nil, err
	}
	return w.Bytes(), nil
}

func TestVxC18FramerRequests(t *testing.T) {
	vx.Check(t, vx.Prop{ID: "C18", Part: "TestVxC18FramerRequests",
		Rule: "protocol 1..5 x compressor(snappy | a second test codec) x request kind(query|prepare|execute|batch|options|startup|register|authResponse) x stream x tracing x custom payload x optional fields x " +
			"statement/token body 0..1MiB x 0..4 bound values; each frame is built twice (no compressor / compressor) through newFramer+buildFrame+writeTo; " +
			"non-trivial: the compressor-built frame carries the compression flag (or is OPTIONS/STARTUP, where it must not); distinct = distinct case",
		Draw: func(t *rapid.T) interface{} {
			c := &vxC18ReqCase{
				Version: rapid.IntRange(1, 5).Draw(t, "version"),
				Comp:    rapid.SampledFrom([]string{"snappy", "snappy", "vxfake"}).Draw(t, "comp"),
				Kind:    rapid.SampledFrom(vxC18ReqKinds).Draw(t, "kind"),
				Trace:   rapid.Bool().Draw(t, "trace"),
				Payload: rapid.Bool().Draw(t, "payload"),
				Opt:     int(rapid.Uint32Range(0, 1<<20-1).Draw(t, "opt")),
				N:       rapid.IntRange(0, 5).Draw(t, "n"),
			}
			if c.Version < 3 {
				c.Stream = rapid.IntRange(0, 127).Draw(t, "stream")
			} else {
				c.Stream = rapid.SampledFrom([]int{0, 1, 127, 128, 255, 256, 32767}).Draw(t, "streamB")
				if rapid.Bool().Draw(t, "anyStream") {
					c.Stream = rapid.IntRange(0, 32767).Draw(t, "stream")
				}
			}
			max := 5000
			switch rapid.IntRange(0, 9).Draw(t, "sizeQ") {
			case 0, 1:
				max = 200000
			case 2:
				max = 1 << 20
			}
			if c.Kind == "execute" || c.Kind == "authResponse" {
				c.Big = vgen.DrawBody(t, max, "big")
			} else {
				c.Big = vgen.BodySpec{Kind: rapid.SampledFrom([]string{"text", "text", "mixed", "repeat", "random"}).Draw(t, "bigKind"),
					Size: vgen.DrawSize(t, max, "bigSize"), Seed: rapid.Uint64().Draw(t, "bigSeed"), P: rapid.IntRange(0, 1000).Draw(t, "bigP")}
			}
			nv := rapid.IntRange(0, 4).Draw(t, "nvals")
			for i := 0; i < nv; i++ {
				c.Vals = append(c.Vals, vgen.DrawBody(t, 300, fmt.Sprintf("v%d", i)))
			}
			return c
		},
		New: func() interface{} { return &vxC18ReqCase{} },
		Run: func(ci interface{}, k *vstats.Case) error {
			c := ci.(*vxC18ReqCase)
			comp := vxC18Compressor(c.Comp)
			if comp == nil || c.Version < 1 || c.Version > 5 || vxC18Opcodes[c.Kind] == 0 {
				return fmt.Errorf("harness: bad case")
			}
			k.Class("kind=" + c.Kind)
			k.Class(fmt.Sprintf("v%d", c.Version))
			plain, err := vxC18Build(c, nil)
			if err != nil {
				return fmt.Errorf("building the %s frame without compressor failed: %v", c.Kind, err)
			}
			wire, err := vxC18Build(c, comp)
			if err != nil {
				return fmt.Errorf("building the %s frame with %s failed: %v", c.Kind, c.Comp, err)
			}
			h0, err := vxC18Split(plain, c.Version)
			if err != nil {
				return fmt.Errorf("%s frame without compressor: %v", c.Kind, err)
			}
			h1, err := vxC18Split(wire, c.Version)
			if err != nil {
				return fmt.Errorf("%s frame with %s: %v", c.Kind, c.Comp, err)
			}
			k.Class("bodysize=" + vgen.SizeClass(len(h0.body)))
			if h0.flags&0x01 != 0 {
				return fmt.Errorf("%s frame built without compressor carries the compression flag (flags %#x)", c.Kind, h0.flags)
			}
			if h1.version != byte(c.Version) || h1.op != vxC18Opcodes[c.Kind] || h1.stream != c.Stream {
				return fmt.Errorf("%s frame header: version %#x op %#x stream %d, expected %#x %#x %d", c.Kind, h1.version, h1.op, h1.stream, c.Version, vxC18Opcodes[c.Kind], c.Stream)
			}
			if h1.flags&^0x01 != h0.flags || h0.version != h1.version || h0.op != h1.op || h0.stream != h1.stream {
				return fmt.Errorf("%s frame: headers differ beyond the compression flag: flags %#x vs %#x", c.Kind, h0.flags, h1.flags)
			}
			_, opts := vxC18Builder(c)
			sameBody := func(b []byte) error {
				if c.Kind == "startup" { // written from a Go map: compare as maps
					m0, err := vxC18StringMap(h0.body)
					if err != nil {
						return fmt.Errorf("uncompressed STARTUP body is not a string map: %v", err)
					}
					if vxC18MapString(m0) != vxC18MapString(opts) {
						return fmt.Errorf("STARTUP body %s, options were %s", vxC18MapString(m0), vxC18MapString(opts))
					}
					m1, err := vxC18StringMap(b)
					if err != nil {
						return fmt.Errorf("body is not a plain string map: %v", err)
					}
					if vxC18MapString(m1) != vxC18MapString(m0) {
						return fmt.Errorf("string maps differ")
					}
					return nil
				}
				if !vxC18Eq(b, h0.body) {
					return fmt.Errorf("bodies differ: %s", vxC18Diff(b, h0.body))
				}
				return nil
			}
			flagged := h1.flags&0x01 != 0
			if c.Kind == "options" || c.Kind == "startup" {
				if flagged {
					return fmt.Errorf("%s frame carries the compression flag (compressor %s configured)", c.Kind, c.Comp)
				}
				if err := sameBody(h1.body); err != nil {
					return fmt.Errorf("%s frame with compressor %s configured must stay uncompressed: %v", c.Kind, c.Comp, err)
				}
				k.NonTrivial()
				k.Class("never-compressed-kind")
			} else if flagged {
				dec, err := vxC18PeerDecode(c.Comp, h1.body)
				if err != nil {
					return fmt.Errorf("%s frame is flagged compressed but the peer's %s decoder rejects its %d byte body: %v", c.Kind, c.Comp, len(h1.body), err)
				}
				if err := sameBody(dec); err != nil {
					return fmt.Errorf("%s frame: decompressed body is not the body built without compressor: %v", c.Kind, err)
				}
				k.NonTrivial()
				k.Class("flagged+compressed")
			} else {
				if err := sameBody(h1.body); err != nil {
					return fmt.Errorf("%s frame is not flagged compressed but its body is not the plain body: %v", c.Kind, err)
				}
				k.Class("unflagged+plain")
			}
			// the driver's own reading side accepts the frame it wrote
			r := bytes.NewReader(wire)
			var hb [9]byte
			head, err := readHeader(r, hb[:])
			if err != nil {
				return fmt.Errorf("readHeader on the driver's own %s frame: %v", c.Kind, err)
			}
			fr := newFramer(comp, byte(c.Version))
			if err := fr.readFrame(r, &head); err != nil {
				return fmt.Errorf("readFrame on the driver's own %s frame: %v", c.Kind, err)
			}
			if err := sameBody(fr.buf); err != nil {
				return fmt.Errorf("%s frame read back by a framer with %s: %v", c.Kind, c.Comp, err)
			}
			if r.Len() != 0 {
				return fmt.Errorf("readFrame left %d bytes of the frame unread", r.Len())
			}
			return nil
		}})
}

// ---- framer: responses ------------------------------------------------------------------------

type vxC18RespCase struct {
	Version int           `json:"version"`
	Comp    string        `json:"comp"`  // compressor of the reading framer: none | snappy | vxfake
	Codec   string        `json:"codec"` // codec the peer used for the body: snappy | vxfake
	Mode    string        `json:"mode"`  // peer encoder variant
	Flagged bool          `json:"flagged"`
	Flags   int           `json:"flags"` // other header flags (tracing 0x02, payload 0x04, warning 0x08)
	Op      int           `json:"op"`
	Stream  int           `json:"stream"`
	Body    vgen.BodySpec `json:"body"`
	M       vxC18Mut      `json:"m"`
}

func vxC18FakeReprefix(enc []byte, n uint64) []byte {
	out := append([]byte(nil), enc...)
	if len(out) >= 7 {
		binary.BigEndian.PutUint32(out[3:], uint32(n))
	}
	return out
}

func TestVxC18FramerResponses(t *testing.T) {
	vx.Check(t, vx.Prop{ID: "C18", Part: "TestVxC18FramerResponses",
		Rule: "response frame (protocol 1..5, opcode READY/RESULT/ERROR/SUPPORTED/EVENT..., other header flags, body 0..1MiB) whose body the peer compressed (flagged) or not, optionally corrupted " +
			"(truncate, bit flips, declared length, appended garbage), read by readHeader+readFrame of a framer with no / the same / another compressor; " +
			"non-trivial: flagged frame (reader without compressor, or corrupted body, or compressible body >= 64 bytes); distinct = distinct case",
		Draw: func(t *rapid.T) interface{} {
			c := &vxC18RespCase{
				Version: rapid.IntRange(1, 5).Draw(t, "version"),
				Comp:    rapid.SampledFrom([]string{"none", "snappy", "snappy", "vxfake"}).Draw(t, "comp"),
				Flagged: rapid.IntRange(0, 4).Draw(t, "flaggedQ") != 0,
				Flags:   rapid.SampledFrom([]int{0, 0, 2, 4, 8, 14}).Draw(t, "flags"),
				Op:      rapid.SampledFrom([]int{0x02, 0x08, 0x08, 0x00, 0x06, 0x0C, 0x03, 0x10, 0x0E}).Draw(t, "op"),
			}
			if c.Comp == "none" {
				c.Codec = rapid.SampledFrom([]string{"snappy", "vxfake"}).Draw(t, "codec")
			} else if rapid.IntRange(0, 7).Draw(t, "otherCodecQ") == 0 {
				c.Codec = map[string]string{"snappy": "vxfake", "vxfake": "snappy"}[c.Comp]
			} else {
				c.Codec = c.Comp
			}
			c.Mode = rapid.SampledFrom(vxC18SnappyPeerEncoders).Draw(t, "mode")
			if c.Version < 3 {
				c.Stream = rapid.IntRange(-1, 127).Draw(t, "stream")
			} else {
				c.Stream = rapid.IntRange(-1, 32767).Draw(t, "stream")
			}
			max := 2000
			switch rapid.IntRange(0, 9).Draw(t, "sizeQ") {
			case 0, 1:
				max = 200000
			case 2:
				max = 1 << 20
			}
			c.Body = vgen.DrawBody(t, max, "b")
			if c.Op == 0x02 {
				c.Body.Size = 0 // READY has an empty body
			}
			c.M.Mut = "none"
			if c.Flagged && rapid.Bool().Draw(t, "corrupt") {
				c.M = vxC18DrawMut(t, []string{"trunc", "flip", "flip", "prefix", "append"})
			}
			return c
		},
		New: func() interface{} { return &vxC18RespCase{} },
		Run: func(ci interface{}, k *vstats.Case) error {
			c := ci.(*vxC18RespCase)
			if c.Version < 1 || c.Version > 5 || (c.Codec != "snappy" && c.Codec != "vxfake") {
				return fmt.Errorf("harness: bad case")
			}
			x := c.Body.Bytes()
			body := x
			corrupted := false
			if c.Flagged {
				enc := vxC18PeerEncode(c.Codec, c.Mode, x)
				re := vxC18SnappyReprefix
				if c.Codec == "vxfake" {
					re = vxC18FakeReprefix
				}
				ins, _, _ := vxC18Apply(enc, len(x), c.M, re, &vstats.Case{})
				body = ins[0]
				corrupted = !vxC18Eq(body, enc)
				if c.Codec == "snappy" {
					if n, ok := vxC18SnappyDeclared(body); ok && n > vxC18MaxDeclared {
						k.Excluded("declared-length-above-16MiB")
						return nil
					}
				}
			}
			// wire bytes per the specification's header layout
			var wire []byte
			flags := byte(c.Flags)
			if c.Flagged {
				flags |= 0x01
			}
			wire = append(wire, byte(c.Version)|0x80, flags)
			if c.Version < 3 {
				wire = append(wire, byte(int8(c.Stream)))
			} else {
				wire = append(wire, byte(uint16(int16(c.Stream))>>8), byte(c.Stream))
			}
			wire = append(wire, byte(c.Op), 0, 0, 0, 0)
			binary.BigEndian.PutUint32(wire[len(wire)-4:], uint32(len(body)))
			wire = append(wire, body...)

			r := bytes.NewReader(wire)
			var hb [9]byte
			head, err := readHeader(r, hb[:])
			if err != nil {
				return fmt.Errorf("readHeader rejects a well-formed v%d response header: %v", c.Version, err)
			}
			if head.stream != c.Stream || int(head.op) != c.Op || head.length != len(body) || head.flags != flags {
				return fmt.Errorf("readHeader: stream %d op %#x length %d flags %#x, sent %d %#x %d %#x", head.stream, int(head.op), head.length, head.flags, c.Stream, c.Op, len(body), flags)
			}
			fr := newFramer(vxC18Compressor(c.Comp), byte(c.Version))
			var rerr error
			func() {
				defer func() {
					if p := recover(); p != nil {
						err = fmt.Errorf("readFrame panicked (reader compressor %s, body codec %s, flagged %v, %s): %v", c.Comp, c.Codec, c.Flagged, c.M.Mut, p)
					}
				}()
				rerr = fr.readFrame(r, &head)
			}()
			if err != nil {
				return err
			}
			switch {
			case !c.Flagged:
				k.Class("unflagged")
				if rerr != nil {
					return fmt.Errorf("uncompressed response rejected by a framer with compressor %s: %v", c.Comp, rerr)
				}
				if !vxC18Eq(fr.buf, x) {
					return fmt.Errorf("uncompressed response body altered by a framer with compressor %s: %s", c.Comp, vxC18Diff(fr.buf, x))
				}
			case c.Comp == "none":
				k.Class("flagged,no-compressor")
				k.NonTrivial()
				if rerr == nil {
					return fmt.Errorf("response with the compression flag accepted by a framer without compressor (body %d bytes handed on as %d)", len(body), len(fr.buf))
				}
			default:
				want, perr := vxC18PeerDecode(c.Comp, body) // what the codec negotiated for this connection makes of the body
				switch {
				case c.Comp != c.Codec:
					k.Class("flagged,other-codec")
				case corrupted:
					k.Class("flagged,corrupt:" + c.M.Mut)
				default:
					k.Class("flagged,intact")
					if perr != nil || !vxC18Eq(want, x) {
						return fmt.Errorf("harness: peer cannot decode its own encoding: %v", perr)
					}
				}
				if corrupted || c.Comp != c.Codec || (len(x) >= 64 && len(body) < len(x)) {
					k.NonTrivial()
				}
				if perr != nil {
					k.Class("peer-rejects")
					if rerr == nil {
						return fmt.Errorf("corrupt compressed response body (%s; %v) accepted: readFrame returned no error and a %d byte body", c.M.Mut, perr, len(fr.buf))
					}
					return nil
				}
				k.Class("peer-accepts")
				if rerr != nil {
					return fmt.Errorf("compressed response (%s, %d -> %d bytes) rejected: %v", c.Comp, len(x), len(body), rerr)
				}
				if !vxC18Eq(fr.buf, want) {
					return fmt.Errorf("compressed response decoded differently from the peer: %s", vxC18Diff(fr.buf, want))
				}
				if c.Op == 0x02 && !corrupted && c.Comp == c.Codec && c.Flags == 0 { // a compressed READY (empty body) is what follows a STARTUP with COMPRESSION
					f, err := fr.parseFrame()
					if err != nil {
						return fmt.Errorf("compressed READY does not parse: %v", err)
					}
					if _, ok := f.(*readyFrame); !ok {
						return fmt.Errorf("compressed READY parsed as %T", f)
					}
				}
			}
			if r.Len() != 0 {
				return fmt.Errorf("readFrame left %d bytes of the frame unread", r.Len())
			}
			return nil
		}})
}
