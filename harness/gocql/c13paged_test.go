//go:build verif && go1.21

package gocql

// Retry policies and automatic paging: the request for every page is a request of its own; what the policy
// allows (and decides) for it depends on the attempts made for that page, not on the pages fetched before.

import (
	"encoding/hex"
	"fmt"
	"strings"
	"sync"
	"testing"
	"time"

	"pgregory.net/rapid"
	"verif.local/cqlspec"
	"verif.local/vnode"
	"verif.local/vstats"
	"verif.local/vx"
)

type vxC13PErr struct {
	Code int `json:"code"` // ReadTimeout | Unavailable (alive 1) | Overloaded
}

type vxC13PCase struct {
	Proto    int           `json:"proto"`
	Rows     []int         `json:"rows"`   // rows per page
	Errs     [][]vxC13PErr `json:"errs"`   // per page: the answers before the page itself is served
	Policy   vxC13Policy   `json:"policy"` // simple | down | table (table: decisions Retry)
	Prefetch int           `json:"prefetch"` // per cent
	Spec     int           `json:"spec,omitempty"` // >0: a speculative execution policy with that many attempts and a delay (5 s) that never elapses here
	Cons     int           `json:"cons"`
}

type vxC13PArrival struct {
	page, host, cons, attemptsSeen int
}

// vxC13PTable: Attempt(q) = Attempt[q.Attempts()-1], always "retry on the same host"; records what it was asked.
type vxC13PTable struct {
	mu      sync.Mutex
	attempt []bool
	asked   []int
}

func (p *vxC13PTable) Attempt(q RetryableQuery) bool {
	p.mu.Lock()
	defer p.mu.Unlock()
	n := q.Attempts()
	p.asked = append(p.asked, n)
	return n >= 1 && n <= len(p.attempt) && p.attempt[n-1]
}
func (p *vxC13PTable) GetRetryType(error) RetryType { return Retry }

func vxC13PPageOf(state string) int {
	if state == "" {
		return 0
	}
	b, _ := hex.DecodeString(state)
	n := 0
	fmt.Sscanf(string(b), "page%d", &n)
	return n
}

// expected decisions of the policy for one page: how many requests reach servers, and how the j-th retry is sent
func (c *vxC13PCase) allowed(attempts int) bool {
	switch c.Policy.Kind {
	case "simple":
		return attempts <= c.Policy.N
	case "down":
		return attempts <= len(c.Policy.Levels)
	case "table":
		return attempts >= 1 && attempts <= len(c.Policy.Attempt) && c.Policy.Attempt[attempts-1]
	}
	return false
}

func (c *vxC13PCase) sameHost(code int) bool {
	switch c.Policy.Kind {
	case "simple":
		return false
	case "down":
		return code == cqlspec.ErrReadTimeout || code == cqlspec.ErrUnavailable
	}
	return true
}

func vxRunC13Paged(c *vxC13PCase, k *vstats.Case) error {
	if c.Proto < 2 || c.Proto > 5 || len(c.Rows) == 0 || len(c.Errs) != len(c.Rows) {
		return nil
	}
	const nhosts = 3
	cl := vnode.NewCluster(vxSpecs(nhosts, 1))
	var mu sync.Mutex
	var log []vxC13PArrival
	arrivals := make([]int, len(c.Rows))
	for hi, n := range cl.Nodes() {
		hi := hi
		n.Handler = func(rc *vnode.ReqCtx) {
			if rc.Req.Kind != "QUERY" || !strings.HasPrefix(rc.Req.Statement, "LIST paged") || rc.Req.Params == nil {
				rc.Reply(&cqlspec.Response{Kind: "VOID"})
				return
			}
			page := vxC13PPageOf(rc.Req.Params.StateHex)
			if page < 0 || page >= len(c.Rows) {
				rc.Reply(&cqlspec.Response{Kind: "ERROR", Code: cqlspec.ErrInvalid, Message: "c13p: unknown paging state"})
				return
			}
			mu.Lock()
			a := arrivals[page]
			arrivals[page]++
			log = append(log, vxC13PArrival{page: page, host: hi, cons: rc.Req.Params.Consistency})
			mu.Unlock()
			if a < len(c.Errs[page]) {
				code := c.Errs[page][a].Code
				rc.Reply(&cqlspec.Response{Kind: "ERROR", Code: code, Message: fmt.Sprintf("c13p-page%d-answer%d;", page, a), Consistency: rc.Req.Params.Consistency,
					Required: 2, Alive: 1, Received: 1, BlockFor: 2, DataPresent: 1})
				return
			}
			var rows [][]cqlspec.Value
			for r := 0; r < c.Rows[page]; r++ {
				rows = append(rows, []cqlspec.Value{cqlspec.I64Value(int64(page)), cqlspec.I64Value(int64(r))})
			}
			resp := vnode.RowsResponse([]cqlspec.Column{{Keyspace: "ks", Table: "t", Name: "page", Type: cqlspec.Scalar(cqlspec.Int)},
				{Keyspace: "ks", Table: "t", Name: "r", Type: cqlspec.Scalar(cqlspec.Int)}}, rows)
			if page+1 < len(c.Rows) {
				resp.Meta.HasMore = true
				resp.Meta.StateHex = hex.EncodeToString([]byte(fmt.Sprintf("page%d", page+1)))
			}
			rc.Reply(resp)
		}
	}
	var table *vxC13PTable
	var pol RetryPolicy
	switch c.Policy.Kind {
	case "simple":
		pol = &SimpleRetryPolicy{NumRetries: c.Policy.N}
	case "down":
		var lv []Consistency
		for _, l := range c.Policy.Levels {
			lv = append(lv, Consistency(l))
		}
		pol = &DowngradingConsistencyRetryPolicy{ConsistencyLevelsToTry: lv}
	case "table":
		table = &vxC13PTable{attempt: c.Policy.Attempt}
		pol = table
	default:
		return nil
	}
	s, err := vxClusterConfig(cl, c.Proto, func(cfg *ClusterConfig) {
		cfg.PoolConfig.HostSelectionPolicy = RoundRobinHostPolicy()
		cfg.Timeout = 10 * time.Second
		if c.Policy.Via == "cluster" {
			cfg.RetryPolicy = pol
		}
	}).CreateSession()
	if err != nil {
		return fmt.Errorf("harness: CreateSession: %v", err)
	}
	defer s.Close()
	deadline := time.Now().Add(5 * time.Second)
	for time.Now().Before(deadline) {
		up := 0
		for _, h := range s.ring.allHosts() {
			if p, ok := s.pool.getPool(h); ok && h.IsUp() && p.Size() > 0 {
				up++
			}
		}
		if up == nhosts {
			break
		}
		time.Sleep(time.Millisecond)
	}
	q := s.Query("LIST paged").Consistency(Consistency(c.Cons)).Idempotent(true).PageSize(5).Prefetch(float64(c.Prefetch) / 100)
	if c.Policy.Via != "cluster" {
		q = q.RetryPolicy(pol)
	}
	if c.Spec > 0 {
		q = q.SetSpeculativeExecutionPolicy(&SimpleSpeculativeExecution{NumAttempts: c.Spec, TimeoutDelay: 5 * time.Second})
		k.Class("with a speculative execution policy (never firing)")
	}
	type res struct {
		rows [][2]int
		err  error
	}
	done := make(chan res, 1)
	go func() {
		var out res
		iter := q.Iter()
		var p, r int
		for iter.Scan(&p, &r) {
			out.rows = append(out.rows, [2]int{p, r})
		}
		out.err = iter.Close()
		done <- out
	}()
	var got res
	select {
	case got = <-done:
	case <-time.After(20 * time.Second):
		return fmt.Errorf("the iteration did not end within 20 s (hang)")
	}
	// a page fetched ahead may still be on its way when the iteration has ended with the rows asked for; the
	// node's log is complete once nothing arrives any more
	time.Sleep(2 * time.Millisecond)
	mu.Lock()
	defer mu.Unlock()

	// ---- reference: every page is a request of its own
	failedPage := -1
	var wantErr string
	retriedLater := false
	byPage := make([][]vxC13PArrival, len(c.Rows))
	for _, a := range log {
		byPage[a.page] = append(byPage[a.page], a)
	}
	for page := range c.Rows {
		want, offered := 1, 1
		for a := 0; a < len(c.Errs[page]); a++ {
			// answer a was an error: attempts made so far for this page = a+1
			if !c.allowed(a + 1) {
				failedPage, wantErr = page, fmt.Sprintf("c13p-page%d-answer%d;", page, a)
				break
			}
			if !c.sameHost(c.Errs[page][a].Code) {
				if offered >= nhosts {
					// every host was offered once: nothing left to retry on
					failedPage, wantErr = page, fmt.Sprintf("c13p-page%d-answer%d;", page, a)
					break
				}
				offered++
			}
			want++
			if page > 0 {
				retriedLater = true
			}
		}
		gotN := len(byPage[page])
		if gotN != want {
			return fmt.Errorf("page %d: %d answers were errors %v and the policy %+v allows a retry while attempts <= its bound, so %d requests for this page should reach servers; %d did (all arrivals page/host/consistency: %v; the iteration ended with %v)",
				page, len(c.Errs[page]), c.Errs[page], c.Policy, want, gotN, log, got.err)
		}
		for j := 1; j < gotN; j++ {
			prev, cur := byPage[page][j-1], byPage[page][j]
			same := c.sameHost(c.Errs[page][j-1].Code)
			if same && cur.host != prev.host {
				return fmt.Errorf("page %d: retry %d went to host %d, the policy said retry on the same host (%d)", page, j, cur.host, prev.host)
			}
			if !same && cur.host == prev.host {
				return fmt.Errorf("page %d: retry %d went to host %d again, the policy said retry on the next host", page, j, cur.host)
			}
			if c.Policy.Kind == "down" && cur.cons != c.Policy.Levels[j-1] {
				return fmt.Errorf("page %d: retry %d was sent at consistency %d, the downgrading policy's level for a request's retry %d is %d (levels %v)", page, j, cur.cons, j, c.Policy.Levels[j-1], c.Policy.Levels)
			}
		}
		if failedPage >= 0 {
			break
		}
	}
	if failedPage >= 0 {
		for page := failedPage + 1; page < len(c.Rows); page++ {
			if len(byPage[page]) > 0 {
				return fmt.Errorf("page %d was requested although the request for page %d failed", page, failedPage)
			}
		}
	}
	var wantRows [][2]int
	for page := range c.Rows {
		if page == failedPage {
			break
		}
		for r := 0; r < c.Rows[page]; r++ {
			wantRows = append(wantRows, [2]int{page, r})
		}
	}
	if fmt.Sprint(got.rows) != fmt.Sprint(wantRows) {
		return fmt.Errorf("rows %v, want %v (failed page %d, error %v)", got.rows, wantRows, failedPage, got.err)
	}
	if failedPage < 0 && got.err != nil {
		return fmt.Errorf("every page was served within what the policy %+v allows, yet the iteration ended with %v (arrivals %v)", c.Policy, got.err, log)
	}
	if failedPage >= 0 && (got.err == nil || !strings.Contains(got.err.Error(), wantErr)) {
		return fmt.Errorf("page %d failed for good with %q; the iteration ended with %v", failedPage, wantErr, got.err)
	}
	if table != nil {
		// the decision function is asked with the attempts of the request at hand: 1, 2, ... for every page
		var want []int
		for page := range c.Rows {
			for a := 0; a < len(c.Errs[page]); a++ {
				want = append(want, a+1)
				if !c.allowed(a + 1) {
					break
				}
			}
			if page == failedPage {
				break
			}
		}
		if fmt.Sprint(table.asked) != fmt.Sprint(want) {
			return fmt.Errorf("the policy's Attempt saw Attempts() = %v over the iteration; the requests' own attempt counts were %v", table.asked, want)
		}
	}
	k.Class("policy=" + c.Policy.Kind + " via " + c.Policy.Via)
	k.Class(fmt.Sprintf("pages=%d", len(c.Rows)))
	if failedPage >= 0 {
		k.Class(fmt.Sprintf("failed at page %d", failedPage))
	}
	if retriedLater {
		k.Class("a later page was retried")
		k.NonTrivial()
	}
	return nil
}

func vxDrawC13Paged(t *rapid.T) *vxC13PCase {
	c := &vxC13PCase{Proto: rapid.IntRange(2, 5).Draw(t, "proto"), Prefetch: rapid.SampledFrom([]int{0, 25, 100}).Draw(t, "prefetch"),
		Cons: rapid.SampledFrom([]int{int(Quorum), int(All), int(One)}).Draw(t, "cons")}
	c.Spec = rapid.SampledFrom([]int{0, 0, 1, 2}).Draw(t, "spec")
	np := rapid.IntRange(1, 4).Draw(t, "pages")
	c.Policy.Kind = rapid.SampledFrom([]string{"simple", "down", "table"}).Draw(t, "policy")
	c.Policy.Via = rapid.SampledFrom([]string{"query", "cluster"}).Draw(t, "via")
	switch c.Policy.Kind {
	case "simple":
		c.Policy.N = rapid.IntRange(0, 3).Draw(t, "n")
	case "down":
		c.Policy.Levels = rapid.SliceOfN(rapid.SampledFrom([]int{int(Two), int(One), int(LocalOne), int(Three)}), 1, 3).Draw(t, "levels")
	case "table":
		c.Policy.Attempt = rapid.SliceOfN(rapid.SampledFrom([]bool{true, true, true, false}), 0, 4).Draw(t, "attempt")
	}
	codes := []int{cqlspec.ErrReadTimeout, cqlspec.ErrUnavailable, cqlspec.ErrOverloaded}
	for p := 0; p < np; p++ {
		c.Rows = append(c.Rows, rapid.IntRange(1, 4).Draw(t, "rows"))
		var errs []vxC13PErr
		for i := rapid.SampledFrom([]int{0, 0, 1, 1, 2, 3}).Draw(t, "nerr"); i > 0; i-- {
			errs = append(errs, vxC13PErr{Code: rapid.SampledFrom(codes).Draw(t, "code")})
		}
		c.Errs = append(c.Errs, errs)
	}
	return c
}

func TestVxC13Paged(t *testing.T) {
	vx.Check(t, vx.Prop{
		ID: "C13", Part: "TestVxC13Paged",
		Rule: "protocol 2..5, three hosts offered round robin, an idempotent query over 1..4 pages (1..4 rows each, prefetch 0/25/100 %), per page 0..3 error answers (read timeout, unavailable, overloaded) before the page is served, retry policy simple{0..3} / downgrading{1..3 levels} / a decision table over Attempts() (same host), set on the query or cluster-wide; oracle: every page is a request of its own - requests per page, host of each retry, consistency of each downgraded retry, the attempt counts the policy is asked with, the rows delivered and the final error are those of a reference that restarts the attempt count at every page; non-trivial = a retry happened on a page after the first; distinct by the whole case",
		Draw: func(t *rapid.T) interface{} { return vxDrawC13Paged(t) },
		New:  func() interface{} { return &vxC13PCase{} },
		Run: func(ci interface{}, k *vstats.Case) error {
			return vxRunC13Paged(ci.(*vxC13PCase), k)
		},
	})
}
