//go:build verif && go1.21

package gocql

// C16: "the nodes last reported by the cluster (local node plus valid peers, minus those the host filter
// rejects)". system.peers may list a node twice for a while (a stale row under its old address next to the
// current one). Rows the host filter rejects do not count: if exactly one of the two rows passes the filter,
// that row describes the node, wherever it stands in the table.

import (
	"fmt"
	"strings"
	"sync"
	"testing"
	"time"

	"pgregory.net/rapid"
	"verif.local/cqlspec"
	"verif.local/vnode"
	"verif.local/vstats"
	"verif.local/vx"
)

type vxC16DupCase struct {
	Proto      int  `json:"proto"`
	N          int  `json:"n"`           // 2..4 nodes
	Who        int  `json:"who"`         // which peer is listed twice (1..N-1)
	StaleFirst bool `json:"stale_first"` // the stale row stands before the current one
	StaleOK    bool `json:"stale_ok"`    // the host filter accepts the stale address
	RealOK     bool `json:"real_ok"`     // the host filter accepts the current address
	AtStart    bool `json:"at_start"`    // the duplicate is there when the session starts (else it appears before a refresh)
}

func vxRunC16Dup(c *vxC16DupCase, k *vstats.Case) error {
	if c.Proto < 1 || c.Proto > 5 || c.N < 2 || c.N > 4 || c.Who < 1 || c.Who >= c.N {
		return nil
	}
	specs := vxSpecs(c.N, 2)
	cl := vnode.NewCluster(specs)
	var mu sync.Mutex
	served := map[string]int{}
	for i, n := range cl.Nodes() {
		ip := specs[i].IP
		n.Handler = func(rc *vnode.ReqCtx) {
			if rc.Req.Kind == "QUERY" && rc.Req.Statement == "LIST who" {
				mu.Lock()
				served[ip]++
				mu.Unlock()
			}
			rc.Reply(&cqlspec.Response{Kind: "VOID"})
		}
	}
	stale := specs[c.Who]
	stale.IP = "10.0.7.7" // the address the node had before; nobody listens there
	withDup := func() []vnode.HostSpec {
		var t []vnode.HostSpec
		for i, sp := range specs {
			if i == c.Who {
				if c.StaleFirst {
					t = append(t, stale, sp)
				} else {
					t = append(t, sp, stale)
				}
				continue
			}
			t = append(t, sp)
		}
		return t
	}
	if c.AtStart {
		cl.SetTruth(withDup())
	}
	accept := func(ip string) bool {
		switch ip {
		case stale.IP:
			return c.StaleOK
		case specs[c.Who].IP:
			return c.RealOK
		}
		return true
	}
	s, err := vxClusterConfig(cl, c.Proto, func(cfg *ClusterConfig) {
		cfg.PoolConfig.HostSelectionPolicy = RoundRobinHostPolicy()
		cfg.HostFilter = HostFilterFunc(func(h *HostInfo) bool { return accept(h.ConnectAddress().String()) })
	}).CreateSession()
	if err != nil {
		return fmt.Errorf("harness: CreateSession: %v", err)
	}
	defer s.Close()
	if !c.AtStart {
		cl.SetTruth(withDup())
	}
	if err := s.refreshRing(); err != nil {
		return fmt.Errorf("refreshRing with a node listed twice (stale row first: %v, filter accepts stale %v / current %v): %v", c.StaleFirst, c.StaleOK, c.RealOK, err)
	}
	k.Class(fmt.Sprintf("stale-first=%v stale-accepted=%v current-accepted=%v", c.StaleFirst, c.StaleOK, c.RealOK))
	if c.StaleOK != c.RealOK {
		k.NonTrivial()
	}
	id := specs[c.Who].HostID
	deadline := time.Now().Add(10 * time.Second)
	for {
		var last string
		var mine []*HostInfo
		for _, h := range s.ring.allHosts() {
			if strings.ReplaceAll(h.HostID(), "-", "") == id {
				mine = append(mine, h)
			}
		}
		switch {
		case !c.StaleOK && !c.RealOK:
			if len(mine) != 0 {
				last = fmt.Sprintf("the filter rejects both rows of node %s, yet the ring has it at %v", specs[c.Who].IP, mine[0].ConnectAddress())
			}
		case len(mine) != 1:
			last = fmt.Sprintf("node %s is reported (twice) and at least one row passes the filter: the ring has %d hosts with its id", specs[c.Who].IP, len(mine))
		case c.RealOK && !c.StaleOK:
			h := mine[0]
			pool, ok := s.pool.getPool(h)
			if h.ConnectAddress().String() != specs[c.Who].IP {
				last = fmt.Sprintf("only the current row of node %s passes the filter, the ring has the node at %v", specs[c.Who].IP, h.ConnectAddress())
			} else if !ok || pool.Size() == 0 || !h.IsUp() {
				last = fmt.Sprintf("node %s (current row accepted, stale row rejected) is not connected", specs[c.Who].IP)
			}
		case c.StaleOK && !c.RealOK:
			if mine[0].ConnectAddress().String() != stale.IP {
				last = fmt.Sprintf("only the stale row of node %s passes the filter, the ring has the node at %v", specs[c.Who].IP, mine[0].ConnectAddress())
			}
		}
		if last == "" {
			break
		}
		if time.Now().After(deadline) {
			return fmt.Errorf("after 10 s: %s (stale row first: %v)", last, c.StaleFirst)
		}
		time.Sleep(2 * time.Millisecond)
	}
	if c.RealOK && !c.StaleOK {
		for q := 0; q < 3*c.N; q++ {
			if err := s.Query("LIST who").Exec(); err != nil {
				return fmt.Errorf("query failed: %v", err)
			}
		}
		mu.Lock()
		n := served[specs[c.Who].IP]
		mu.Unlock()
		if n == 0 {
			return fmt.Errorf("node %s (current row accepted, stale row rejected) served none of %d round-robin queries", specs[c.Who].IP, 3*c.N)
		}
	}
	return nil
}

func TestVxC16FilteredDup(t *testing.T) {
	vx.Check(t, vx.Prop{
		ID: "C16", Part: "TestVxC16FilteredDup",
		Rule: "protocol 1..5, 2..4 nodes, one peer listed twice in system.peers (a stale row under an address nobody listens on, before or after its current row), present at session start or appearing before a refresh, a HostFilter whose verdict is drawn per row; oracle: both rejected - the node is unknown; exactly one accepted - that row describes the node (the current one: connected and serving queries); both accepted - the node is known once; non-trivial = the verdicts differ; distinct by the case",
		Draw: func(t *rapid.T) interface{} {
			n := rapid.IntRange(2, 4).Draw(t, "n")
			return &vxC16DupCase{Proto: rapid.IntRange(1, 5).Draw(t, "proto"), N: n, Who: rapid.IntRange(1, n-1).Draw(t, "who"), StaleFirst: rapid.Bool().Draw(t, "stale_first"),
				StaleOK: rapid.Bool().Draw(t, "stale_ok"), RealOK: rapid.Bool().Draw(t, "real_ok"), AtStart: rapid.Bool().Draw(t, "at_start")}
		},
		New: func() interface{} { return &vxC16DupCase{} },
		Run: func(ci interface{}, k *vstats.Case) error {
			return vxRunC16Dup(ci.(*vxC16DupCase), k)
		},
	})
}
