//go:build verif && go1.21

// Helpers shared by C10 and C11: an abstract token space of vxRanks ranks with a
// strictly monotone spelling per partitioner, and HostInfo construction.
package gocql

import (
	"fmt"
	"math/big"
	"net"
	"strconv"
)

const vxRanks = 48

var vxPartNames = []string{
	"org.apache.cassandra.dht.Murmur3Partitioner",
	"org.apache.cassandra.dht.ByteOrderedPartitioner",
	"org.apache.cassandra.dht.RandomPartitioner",
}

// vxTokenString spells rank (0..vxRanks-1) as a token of partitioner part so that
// rank order is Cassandra's token order: signed 64-bit for Murmur3 (LongToken),
// unsigned byte-wise for ByteOrdered (hex spelling keeps that order, a proper
// prefix sorts first), numeric for Random (BigIntegerToken). The extremes of each
// token domain are included.
func vxTokenString(part, rank int) string {
	switch part {
	case 0:
		if rank == 0 {
			return "-9223372036854775808"
		}
		if rank == vxRanks-1 {
			return "9223372036854775807"
		}
		d := rank - vxRanks/2
		a := d
		if a < 0 {
			a = -a
		}
		var v int64
		if a <= 8 {
			v = int64(a)
		} else {
			v = int64(1) << uint(a+30)
		}
		if d < 0 {
			v = -v
		}
		return strconv.FormatInt(v, 10)
	case 1:
		s := fmt.Sprintf("%02x", (rank/2)*10)
		if rank%2 == 1 {
			s += "80"
		}
		return s
	default:
		if rank == vxRanks-1 {
			return new(big.Int).Sub(new(big.Int).Lsh(big.NewInt(1), 127), big.NewInt(1)).String()
		}
		if rank <= 8 {
			return strconv.Itoa(rank)
		}
		return new(big.Int).Lsh(big.NewInt(1), uint(rank*2+30)).String()
	}
}

// vxTokensAscend checks, with the driver's own token order, that the spelling
// above ascends strictly (an independent statement of Cassandra's order; a
// failure is a defect of the driver's comparison or parsing).
func vxTokensAscend(p partitioner, part int) error {
	for r := 0; r+1 < vxRanks; r++ {
		a, b := p.ParseString(vxTokenString(part, r)), p.ParseString(vxTokenString(part, r+1))
		if !a.Less(b) || b.Less(a) || a.Less(a) {
			return fmt.Errorf("%s: token %s must sort strictly before %s (Less=%v, reverse Less=%v)",
				p.Name(), vxTokenString(part, r), vxTokenString(part, r+1), a.Less(b), b.Less(a))
		}
	}
	return nil
}

func vxNodeName(i int) string { return "n" + strconv.Itoa(i) }
func vxDCName(i int) string   { return "dc" + strconv.Itoa(i) }
func vxRackName(i int) string { return "r" + strconv.Itoa(i) }

// vxMkHost builds host i the way the upstream policy tests do.
func vxMkHost(i int, dc, rack int, part int, ranks []int, state nodeState) *HostInfo {
	toks := make([]string, len(ranks))
	for j, r := range ranks {
		toks[j] = vxTokenString(part, r)
	}
	return &HostInfo{
		hostId:         vxNodeName(i),
		connectAddress: net.IPv4(10, 0, byte(i/250), byte(1+i%250)),
		port:           9042,
		dataCenter:     vxDCName(dc),
		rack:           vxRackName(rack),
		tokens:         toks,
		state:          state,
	}
}

func vxHostNames(hs []*HostInfo) []string {
	out := make([]string, len(hs))
	for i, h := range hs {
		if h == nil {
			out[i] = "<nil>"
		} else {
			out[i] = h.hostId
		}
	}
	return out
}

// vxRFOpt spells a replication factor the two ways keyspace metadata carries it.
func vxRFOpt(rf int, asString bool) interface{} {
	if asString {
		return strconv.Itoa(rf)
	}
	return rf
}

func vxStrategyClass(nts bool, long bool) string {
	n := "SimpleStrategy"
	if nts {
		n = "NetworkTopologyStrategy"
	}
	if long {
		return "org.apache.cassandra.locator." + n
	}
	return n
}
