//go:build verif && go1.21

// C11 - host selection offers each live node once, nearest and replicas first.
// Observed at HostSelectionPolicy.Pick's NextHost iterator; the policies are driven
// exactly as session.go / events.go drive them (AddHost(s), HostUp after
// setState(NodeUp), HostDown after setState(NodeDown), RemoveHost, SetPartitioner,
// KeyspaceChanged). Keyspace metadata is injected the way the upstream policy tests do.
package gocql

import (
	"sync/atomic"
	"fmt"
	"strings"
	"sync"
	"testing"

	"pgregory.net/rapid"
	"verif.local/vstats"
	"verif.local/vx"
)

type vxC11Host struct {
	DC     int   `json:"dc"`
	Rack   int   `json:"rack"`
	Tokens []int `json:"tokens"`
	Up     bool  `json:"up"`    // initial state
	Added  bool  `json:"added"` // known to the policy from the start
}

type vxC11Op struct {
	Kind int `json:"kind"` // 0 discover(AddHost) 1 connected(up+HostUp) 2 down(down+HostDown) 3 state down only 4 RemoveHost 5 bulk AddHosts(this, next, a known one) 6 the schema becomes unreadable 7 readable again 8 KeyspaceChanged event
	Host int `json:"host"`
}

type vxC11Step struct {
	Ops []vxC11Op `json:"ops"`
	Key int       `json:"key"` // -2 Pick(nil); -1 query without routing key; >=0 routing key number (rank spelling for byte-ordered)
}

type vxC11Policy struct {
	Part       int    `json:"part"`
	Base       int    `json:"base"` // 0 round-robin 1 dc-aware 2 rack-aware
	TokenAware bool   `json:"token_aware"`
	Shuffle    bool   `json:"shuffle"`
	NonLocal   bool   `json:"non_local"`
	LocalDC    int    `json:"local_dc"` // 0..3; no host is ever in dc3
	LocalRack  int    `json:"local_rack"`
	KS         int    `json:"ks"` // 0 metadata unavailable, 1 SimpleStrategy, 2 NetworkTopologyStrategy
	RF         int    `json:"rf"`
	DCRF       [3]int `json:"dcrf"`
}

type vxC11Case struct {
	Pol   vxC11Policy `json:"pol"`
	Hosts []vxC11Host `json:"hosts"`
	Steps []vxC11Step `json:"steps"`
}

func vxC11DrawHosts(t *rapid.T, lo, hi int, allAdded bool) []vxC11Host {
	n := rapid.IntRange(lo, hi).Draw(t, "hosts")
	if n2 := rapid.IntRange(lo, hi).Draw(t, "hosts"); n2 > n { // rapid favours small numbers; clusters should not
		n = n2
	}
	nd := rapid.SampledFrom([]int{1, 2, 2, 3, 3}).Draw(t, "dcs")
	nr := rapid.IntRange(1, 3).Draw(t, "racks")
	maxTok := rapid.IntRange(1, 3).Draw(t, "maxtok")
	used := map[int]bool{}
	var hs []vxC11Host
	for i := 0; i < n; i++ {
		h := vxC11Host{DC: rapid.IntRange(0, nd-1).Draw(t, "dc"), Rack: rapid.IntRange(0, nr-1).Draw(t, "rack")}
		h.Up = rapid.IntRange(0, 3).Draw(t, "up") != 0
		h.Added = allAdded || rapid.IntRange(0, 7).Draw(t, "added") != 0
		for j, k := 0, rapid.IntRange(1, maxTok).Draw(t, "ntok"); j < k; j++ {
			r := rapid.IntRange(0, vxRanks-1).Draw(t, "rank")
			for used[r] {
				r = (r + 1) % vxRanks
			}
			used[r] = true
			h.Tokens = append(h.Tokens, r)
		}
		hs = append(hs, h)
	}
	return hs
}

func vxC11DrawPolicy(t *rapid.T, safeNTS bool) vxC11Policy {
	p := vxC11Policy{Part: rapid.IntRange(0, 2).Draw(t, "part"), Base: rapid.IntRange(0, 2).Draw(t, "base")}
	p.TokenAware = rapid.IntRange(0, 3).Draw(t, "ta") != 0
	if p.TokenAware {
		p.Shuffle = rapid.IntRange(0, 3).Draw(t, "shuffle") == 0
		p.NonLocal = rapid.Bool().Draw(t, "nonlocal")
		p.KS = rapid.IntRange(0, 5).Draw(t, "ks")
		if p.KS > 2 {
			p.KS = 2 - p.KS%2 // 1 or 2 more often than 0
		}
	}
	p.LocalDC = rapid.SampledFrom([]int{0, 0, 0, 1, 2, 3}).Draw(t, "localdc")
	p.LocalRack = rapid.SampledFrom([]int{0, 0, 1, 2, 3}).Draw(t, "localrack")
	p.RF = rapid.IntRange(0, 4).Draw(t, "rf")
	for i := range p.DCRF {
		lo := 0
		if safeNTS {
			lo = 1
		}
		p.DCRF[i] = rapid.IntRange(lo, 3).Draw(t, "dcrf")
	}
	return p
}

// vxC11World is the policy under test plus the model of what session.go told it.
type vxC11World struct {
	c      *vxC11Policy
	pol    HostSelectionPolicy
	ta     *tokenAwareHostPolicy
	hosts  []*HostInfo
	inRing []bool // AddHost'ed and not RemoveHost'ed
	inFB   []bool // known to the round-robin layer (HostDown drops it there, HostUp/AddHost restore it)
	ks     *KeyspaceMetadata
	// the keyspace metadata can be read (op 6/7); mapOK: it could be read the last time the policy rebuilt its
	// replica map (every ring change and every KeyspaceChanged event) - without it the policy knows only the
	// owner of a token's range
	schemaOK int32
	mapOK    bool
}

func vxC11Build(c *vxC11Policy, hs []vxC11Host) *vxC11World {
	w := &vxC11World{c: c, schemaOK: 1}
	var base HostSelectionPolicy
	switch c.Base {
	case 0:
		base = RoundRobinHostPolicy()
	case 1:
		base = DCAwareRoundRobinPolicy(vxDCName(c.LocalDC))
	default:
		base = RackAwareRoundRobinPolicy(vxDCName(c.LocalDC), vxRackName(c.LocalRack))
	}
	w.pol = base
	switch c.KS {
	case 1:
		w.ks = &KeyspaceMetadata{Name: "ks", StrategyClass: vxStrategyClass(false, true),
			StrategyOptions: map[string]interface{}{"class": vxStrategyClass(false, true), "replication_factor": vxRFOpt(c.RF, true)}}
	case 2:
		w.ks = &KeyspaceMetadata{Name: "ks", StrategyClass: vxStrategyClass(true, true),
			StrategyOptions: map[string]interface{}{"class": vxStrategyClass(true, true)}}
		for i, rf := range c.DCRF {
			w.ks.StrategyOptions[vxDCName(i)] = vxRFOpt(rf, true)
		}
	}
	if c.TokenAware {
		var opts []func(*tokenAwareHostPolicy)
		if c.Shuffle {
			opts = append(opts, ShuffleReplicas())
		}
		if c.NonLocal {
			opts = append(opts, NonLocalReplicasFallback())
		}
		w.pol = TokenAwareHostPolicy(base, opts...)
		w.ta = w.pol.(*tokenAwareHostPolicy)
		w.ta.getKeyspaceName = func() string { return "ks" }
		ks := w.ks
		w.ta.getKeyspaceMetadata = func(name string) (*KeyspaceMetadata, error) {
			if ks == nil || name != "ks" || atomic.LoadInt32(&w.schemaOK) == 0 {
				return nil, fmt.Errorf("keyspace %q: no metadata", name)
			}
			return ks, nil
		}
		w.ta.logger = nopLogger{}
	}
	w.hosts = make([]*HostInfo, len(hs))
	w.inRing = make([]bool, len(hs))
	w.inFB = make([]bool, len(hs))
	for i, h := range hs {
		st := NodeDown
		if h.Up {
			st = NodeUp
		}
		w.hosts[i] = vxMkHost(i, h.DC, h.Rack, c.Part, h.Tokens, st)
	}
	// session start-up: partitioner first, then the known hosts in bulk, HostUp for the connected
	// ones, finally KeyspaceChanged for the session keyspace
	w.pol.SetPartitioner(vxPartNames[c.Part])
	var initial []*HostInfo
	for i, h := range hs {
		if h.Added {
			initial = append(initial, w.hosts[i])
			w.inRing[i], w.inFB[i] = true, true
		}
	}
	if w.ta != nil {
		w.ta.AddHosts(initial)
	} else {
		for _, h := range initial {
			w.pol.AddHost(h)
		}
	}
	for i, h := range hs {
		if h.Added && h.Up {
			w.pol.HostUp(w.hosts[i])
		}
	}
	w.pol.KeyspaceChanged(KeyspaceUpdateEvent{Keyspace: "ks"})
	w.mapOK = w.ks != nil
	return w
}

func (w *vxC11World) apply(op vxC11Op) {
	if op.Host < 0 || op.Host >= len(w.hosts) {
		return
	}
	h, i := w.hosts[op.Host], op.Host
	readable := w.ks != nil && atomic.LoadInt32(&w.schemaOK) == 1
	switch op.Kind {
	case 6:
		atomic.StoreInt32(&w.schemaOK, 0)
	case 7:
		atomic.StoreInt32(&w.schemaOK, 1)
	case 8:
		w.pol.KeyspaceChanged(KeyspaceUpdateEvent{Keyspace: "ks"})
		w.mapOK = readable
	case 0: // startPoolFill: AddHost, state untouched
		w.pol.AddHost(h)
		if !w.inRing[i] {
			w.mapOK = readable
		}
		w.inRing[i], w.inFB[i] = true, true
	case 1: // handleNodeConnected (only for hosts the session still has in its ring)
		if !w.inRing[i] {
			return
		}
		h.setState(NodeUp)
		w.pol.HostUp(h)
		w.inFB[i] = true
	case 2: // handleNodeDown
		if !w.inRing[i] {
			return
		}
		h.setState(NodeDown)
		w.pol.HostDown(h)
		w.inFB[i] = false
	case 3: // the window between setState(NodeDown) and HostDown
		h.setState(NodeDown)
	case 4: // removeHost
		w.pol.RemoveHost(h)
		if w.inRing[i] {
			w.mapOK = readable
		}
		w.inRing[i], w.inFB[i] = false, false
	case 5: // the bulk form of discovery (AddHosts, what Session.init uses): this host, the next one, and last a host that is known already
		batch := []*HostInfo{h, w.hosts[(i+1)%len(w.hosts)]}
		for j := range w.hosts {
			if w.inRing[j] && j != i && j != (i+1)%len(w.hosts) {
				batch = append(batch, w.hosts[j])
				w.inFB[j] = true // AddHost restores a host that HostDown dropped from the fallback's list
				break
			}
		}
		if w.ta != nil {
			w.ta.AddHosts(batch)
		} else {
			for _, b := range batch {
				w.pol.AddHost(b)
			}
		}
		for _, j := range []int{i, (i + 1) % len(w.hosts)} {
			w.inRing[j], w.inFB[j] = true, true
		}
		w.mapOK = readable
	}
}

func (w *vxC11World) tier(h *HostInfo) int {
	switch w.c.Base {
	case 0:
		return 0
	case 1:
		if h.dataCenter == vxDCName(w.c.LocalDC) {
			return 0
		}
		return 1
	default:
		if h.dataCenter != vxDCName(w.c.LocalDC) {
			return 2
		}
		if h.rack != vxRackName(w.c.LocalRack) {
			return 1
		}
		return 0
	}
}

func (w *vxC11World) maxTier() int { return w.c.Base }

func (w *vxC11World) query(key int) ExecutableQuery {
	if key == -2 {
		return nil
	}
	q := &Query{routingInfo: &queryRoutingInfo{}}
	q.getKeyspace = func() string { return "ks" }
	if key == -1 {
		// a bound query whose values are not known yet: GetRoutingKey returns (nil, nil)
		q.binding = func(*QueryInfo) ([]interface{}, error) { return nil, nil }
		return q
	}
	q.RoutingKey(w.routingKey(key))
	return q
}

func (w *vxC11World) routingKey(key int) []byte {
	if w.c.Part == 1 {
		return []byte(vxTokenString(1, key%vxRanks)) // byte-ordered: the key is the token
	}
	return []byte(fmt.Sprintf("key-%d", key))
}

// replicasForKey reads the driver's own replica list for the key's token, the way Pick does.
func (w *vxC11World) replicasForKey(key int) (reps []*HostInfo, routed bool) {
	if w.ta == nil || key < 0 {
		return nil, false
	}
	meta := w.ta.getMetadataReadOnly()
	if meta == nil || meta.tokenRing == nil {
		return nil, false
	}
	// The expectation is computed with the driver's own ring and placement code (so that C10's subject
	// does not leak into C11) but over the hosts the policy has been told about *now*: AddHost and
	// RemoveHost rebuild ring and replicas, so a stale cached map is a violation here.
	var known []*HostInfo
	for i, in := range w.inRing {
		if in {
			known = append(known, w.hosts[i])
		}
	}
	ring, err := newTokenRing(vxPartNames[w.c.Part], known)
	if err != nil || ring == nil {
		return nil, false
	}
	tok := ring.partitioner.Hash(w.routingKey(key))
	if w.ks != nil && w.mapOK {
		if strat := getStrategy(w.ks, nopLogger{}); strat != nil {
			if ht := strat.replicaMap(ring).replicasFor(tok); ht != nil {
				return ht.hosts, true
			}
		}
	}
	h, _ := ring.GetHostForToken(tok)
	return []*HostInfo{h}, true
}

const (
	vxC11KnownTier    = "C11-nonlocal-empty-middle-tier"
	vxC11KnownNilHost = "C11-tokenaware-empty-ring-nil-host"
)

func vxC11Drain(it NextHost, limit int) (seq []*HostInfo, err error) {
	for calls := 0; ; calls++ {
		if calls > limit {
			return seq, fmt.Errorf("iterator still yields after %d calls: %v", limit, vxHostNames(seq))
		}
		sh := it()
		if sh == nil {
			return seq, nil
		}
		h := sh.Info()
		if h == nil {
			return seq, fmt.Errorf("iterator yielded a selected host without HostInfo after %v", vxHostNames(seq))
		}
		seq = append(seq, h)
	}
}

// vxC11Judge drains one pick and compares it with the model. known is a confirmed-defect
// classification (the other assertions have still been made).
func (w *vxC11World) judge(key int, k *vstats.Case) (known error, err error) {
	n := len(w.hosts)
	reps, routed := w.replicasForKey(key)
	emptyRingNil := routed && len(reps) == 1 && reps[0] == nil
	if routed {
		seen := map[*HostInfo]bool{}
		for _, h := range reps {
			if h != nil && seen[h] {
				// a node twice in the driver's own replica list (C10's subject; repaired in /repo): the
				// selection then offers that host twice, which is a violation here too - keep judging
				k.Class("duplicate-in-own-replica-list")
			}
			seen[h] = true
		}
	}
	var seq []*HostInfo
	var derr error
	if msg, p := vxCatch(func() { seq, derr = vxC11Drain(w.pol.Pick(w.query(key)), 4*n+4) }); p {
		if emptyRingNil && w.c.Base != 0 && strings.Contains(msg, "nil pointer dereference") {
			return vx.Known(vxC11KnownNilHost, "Pick with a routing key on a ring without tokens panics (%s): the primary replica is a nil *HostInfo and the %s fallback asks for its datacenter",
				msg, []string{"", "dc-aware", "rack-aware"}[w.c.Base]), nil
		}
		return nil, fmt.Errorf("Pick/NextHost panicked: %s", msg)
	}
	if derr != nil {
		return nil, derr
	}
	names := vxHostNames(seq)
	pos := map[*HostInfo]int{}
	idx := map[*HostInfo]int{}
	for i, h := range w.hosts {
		idx[h] = i
	}
	for i, h := range seq {
		j, mine := idx[h]
		if !mine {
			return nil, fmt.Errorf("offered a host that was never given to the policy: %v", names)
		}
		if _, dup := pos[h]; dup {
			return nil, fmt.Errorf("host %s offered twice: %v", h.hostId, names)
		}
		pos[h] = i
		if !h.IsUp() {
			return nil, fmt.Errorf("host %s is down but was offered: %v", h.hostId, names)
		}
		if !w.inFB[j] {
			return nil, fmt.Errorf("host %s is not known to the policy (removed) but was offered: %v", h.hostId, names)
		}
	}
	for i, h := range w.hosts {
		if w.inFB[i] && h.IsUp() {
			if _, ok := pos[h]; !ok {
				return nil, fmt.Errorf("live host %s (tier %d) is never offered: %v", h.hostId, w.tier(h), names)
			}
		}
	}
	// expected prefix from the driver's own replica list
	start := 0
	if routed && !emptyRingNil {
		var segs [][]*HostInfo // each segment: exact order, or any order when shuffling
		var seg []*HostInfo
		for _, h := range reps {
			if w.tier(h) == 0 && h.IsUp() {
				seg = append(seg, h)
			}
		}
		segs = append(segs, seg)
		midEmpty, farUp := true, false
		if w.c.NonLocal {
			for t := 1; t <= w.maxTier(); t++ {
				seg = nil
				for _, h := range reps {
					if w.tier(h) == t {
						if t == 1 && w.maxTier() == 2 {
							midEmpty = false
						}
						if h.IsUp() {
							seg = append(seg, h)
							if t == 2 {
								farUp = true
							}
						}
					}
				}
				segs = append(segs, seg)
			}
		}
		for si, sg := range segs {
			want := vxHostNames(sg)
			if start+len(sg) > len(seq) {
				return nil, fmt.Errorf("sequence %v is shorter than the replica prefix (segment %d = %v)", names, si, want)
			}
			got := seq[start : start+len(sg)]
			ok := true
			if w.c.Shuffle {
				in := map[*HostInfo]bool{}
				for _, h := range sg {
					in[h] = true
				}
				for _, h := range got {
					ok = ok && in[h]
				}
			} else {
				for i := range sg {
					ok = ok && got[i] == sg[i]
				}
			}
			if !ok {
				what := fmt.Sprintf("offered %v; replicas of the token are %v, so positions %d.. must be the up tier-%d replicas %v (shuffle=%v)",
					names, vxHostNames(reps), start, si, want, w.c.Shuffle)
				if si >= 1 && w.c.Base == 2 && w.c.NonLocal && midEmpty && farUp {
					known = vx.Known(vxC11KnownTier, "rack-aware + NonLocalReplicasFallback, no replica in the local DC's other racks: %s", what)
					break // the remote replicas arrive with the fallback; the rest is judged from here
				}
				return nil, fmt.Errorf("%s", what)
			}
			start += len(sg)
		}
	}
	// the remainder walks the tiers outwards
	last := 0
	for _, h := range seq[start:] {
		t := w.tier(h)
		if t < last {
			return nil, fmt.Errorf("host %s of tier %d offered after a tier-%d host outside the replica prefix: %v (prefix length %d)", h.hostId, t, last, names, start)
		}
		last = t
	}
	return known, nil
}

func (w *vxC11World) classify(k *vstats.Case, key int) (nt bool) {
	tiers := map[int]bool{}
	down := false
	for i, h := range w.hosts {
		if w.inFB[i] {
			tiers[w.tier(h)] = true
			if !h.IsUp() {
				down = true
			}
		}
	}
	repOut := false
	if reps, routed := w.replicasForKey(key); routed {
		for _, h := range reps {
			if h != nil && (w.tier(h) != 0 || !h.IsUp()) {
				repOut = true
				if !h.IsUp() {
					down = true
				}
			}
		}
		k.Class("pick routed by token")
	} else {
		k.Class("pick falls back (no key / no ring)")
	}
	return len(tiers) >= 2 && (down || repOut)
}

func vxC11PolName(c *vxC11Policy) string {
	s := []string{"rr", "dc", "rack"}[c.Base]
	if c.TokenAware {
		s = "token(" + s + ")"
		if c.Shuffle {
			s += "+shuffle"
		}
		if c.NonLocal {
			s += "+nonlocal"
		}
		s += []string{" ks=none", " ks=simple", " ks=nts"}[c.KS]
	}
	return s
}

func vxC11Valid(c *vxC11Policy, hs []vxC11Host) bool {
	if c.Part < 0 || c.Part > 2 || c.Base < 0 || c.Base > 2 || c.KS < 0 || c.KS > 2 || c.RF < 0 || len(hs) > 64 {
		return false
	}
	seen := map[int]bool{}
	for _, h := range hs {
		if h.DC < 0 || h.DC > 2 || h.Rack < 0 {
			return false
		}
		for _, r := range h.Tokens {
			if r < 0 || r >= vxRanks || seen[r] {
				return false
			}
			seen[r] = true
		}
	}
	for _, rf := range c.DCRF {
		if rf < 0 {
			return false
		}
	}
	return true
}

func vxC11Run(c *vxC11Case, k *vstats.Case) error {
	if !vxC11Valid(&c.Pol, c.Hosts) {
		return nil
	}
	k.Class(vxC11PolName(&c.Pol))
	var w *vxC11World
	var known error
	var verr error
	msg, p := vxCatch(func() {
		w = vxC11Build(&c.Pol, c.Hosts)
		for _, st := range c.Steps {
			for _, op := range st.Ops {
				was := w.mapOK
				w.apply(op)
				if was && !w.mapOK && w.ta != nil {
					k.Class("replica map lost: the ring changed while the schema was unreadable")
				}
			}
			if w.classify(k, st.Key) {
				k.NonTrivial()
			}
			kn, err := w.judge(st.Key, k)
			if err != nil {
				verr = err
				return
			}
			if kn != nil && known == nil {
				known = kn
			}
		}
		// rotation: with the nearest populated tier all up, as many successive picks as it has
		// hosts start at that many different hosts
		if known == nil {
			var tierHosts []int
			best := -1
			for i, h := range w.hosts {
				if w.inFB[i] && (best < 0 || w.tier(h) < best) {
					best = w.tier(h)
				}
			}
			allUp := true
			for i, h := range w.hosts {
				if w.inFB[i] && w.tier(h) == best {
					tierHosts = append(tierHosts, i)
					allUp = allUp && h.IsUp()
				}
			}
			if allUp && len(tierHosts) > 0 {
				firsts := map[*HostInfo]bool{}
				for range tierHosts {
					sh := w.pol.Pick(w.query(-2))()
					if sh == nil || sh.Info() == nil {
						verr = fmt.Errorf("rotation: a pick offered nothing although tier %d has %d live hosts", best, len(tierHosts))
						return
					}
					if w.tier(sh.Info()) != best {
						verr = fmt.Errorf("rotation: first host %s is of tier %d, nearest populated tier is %d", sh.Info().hostId, w.tier(sh.Info()), best)
						return
					}
					firsts[sh.Info()] = true
				}
				if len(firsts) != len(tierHosts) {
					verr = fmt.Errorf("rotation: %d successive picks over an all-up tier of %d hosts started at only %d distinct hosts", len(tierHosts), len(tierHosts), len(firsts))
					return
				}
				k.Class(fmt.Sprintf("rotation checked over %s hosts", vxBucket(len(tierHosts))))
			}
			// the farther tiers rotate as well: as many successive picks as such a tier has (live) hosts enter
			// it at that many different hosts
			for far := best + 1; far <= w.maxTier() && best >= 0; far++ {
				var members []int
				up := true
				for i, h := range w.hosts {
					if w.inFB[i] && w.tier(h) == far {
						members = append(members, i)
						up = up && h.IsUp()
					}
				}
				if !up || len(members) < 2 {
					continue
				}
				entries := map[*HostInfo]bool{}
				for range members {
					it := w.pol.Pick(w.query(-2))
					for n := 0; n <= len(w.hosts); n++ {
						sh := it()
						if sh == nil || sh.Info() == nil {
							break
						}
						if w.tier(sh.Info()) == far {
							entries[sh.Info()] = true
							break
						}
					}
				}
				if len(entries) != len(members) {
					verr = fmt.Errorf("rotation: %d successive picks entered tier %d (all of its %d hosts up) at only %d distinct hosts", len(members), far, len(members), len(entries))
					return
				}
				k.Class("rotation of a farther tier checked")
			}
		}
	})
	if p {
		return fmt.Errorf("policy panicked outside Pick: %s", msg)
	}
	if verr != nil {
		return verr
	}
	return known
}

func vxBucket(n int) string {
	switch {
	case n <= 1:
		return "1"
	case n <= 3:
		return "2-3"
	default:
		return "4+"
	}
}

func TestVxC11Sequence(t *testing.T) {
	vx.Check(t, vx.Prop{
		ID: "C11", Part: "TestVxC11Sequence",
		Rule: "0..10 hosts (dc 0..2, rack 0..2, 1..3 tokens, initially up/down, initially known or not) x policy {round-robin, dc-aware, rack-aware} optionally token-aware x shuffle x non-local fallback x keyspace {no metadata, SimpleStrategy rf 0..4, NTS rf 0..3 per dc} x local dc/rack possibly matching no host x 3 partitioners; 1..8 picks (routing key / none / nil query) with 0..3 session-style events (discover, connected, down, state-down-only, remove) before each; non-trivial = at least two tiers populated and (a known host is down or a replica of the picked token is down or outside tier 0); distinct by whole case",
		Draw: func(t *rapid.T) interface{} {
			c := &vxC11Case{Pol: vxC11DrawPolicy(t, false), Hosts: vxC11DrawHosts(t, 0, 10, false)}
			ns := rapid.IntRange(1, 8).Draw(t, "picks")
			for i := 0; i < ns; i++ {
				st := vxC11Step{}
				if len(c.Hosts) > 0 {
					for j, no := 0, rapid.IntRange(0, 3).Draw(t, "nops"); j < no; j++ {
						st.Ops = append(st.Ops, vxC11Op{Kind: rapid.SampledFrom([]int{0, 0, 1, 1, 2, 2, 3, 4, 4, 5, 6, 7, 8}).Draw(t, "op"), Host: rapid.IntRange(0, len(c.Hosts)-1).Draw(t, "ophost")})
					}
				}
				switch rapid.IntRange(0, 7).Draw(t, "keykind") {
				case 0:
					st.Key = -2
				case 1:
					st.Key = -1
				default:
					st.Key = rapid.IntRange(0, vxRanks-1).Draw(t, "key")
				}
				c.Steps = append(c.Steps, st)
			}
			return c
		},
		New: func() interface{} { return &vxC11Case{} },
		Run: func(ci interface{}, k *vstats.Case) error { return vxC11Run(ci.(*vxC11Case), k) },
	})
}

// ---- safety under concurrency: pickers drain iterators while mutators replay events.

type vxC11Conc struct {
	Pol      vxC11Policy `json:"pol"`
	Hosts    []vxC11Host `json:"hosts"`
	Pickers  [][]int     `json:"pickers"`  // per picker: the keys of its successive picks
	Mutators [][]vxC11Op `json:"mutators"` // per mutator: its events
}

func vxC11ConcRun(c *vxC11Conc, k *vstats.Case) error {
	if !vxC11Valid(&c.Pol, c.Hosts) || len(c.Hosts) == 0 {
		return nil
	}
	if c.Pol.KS == 2 {
		for _, rf := range c.Pol.DCRF {
			if rf < 1 {
				return nil // every datacenter replicated: keeps C10's panic out by construction
			}
		}
	}
	k.Class(vxC11PolName(&c.Pol))
	var w *vxC11World
	if msg, p := vxCatch(func() { w = vxC11Build(&c.Pol, c.Hosts) }); p {
		return fmt.Errorf("policy panicked during start-up: %s", msg)
	}
	n := len(c.Hosts)
	var mu sync.Mutex
	var first error
	fail := func(e error) {
		mu.Lock()
		if first == nil {
			first = e
		}
		mu.Unlock()
	}
	var wg sync.WaitGroup
	start := make(chan struct{})
	for pi, keys := range c.Pickers {
		wg.Add(1)
		go func(pi int, keys []int) {
			defer wg.Done()
			<-start
			for _, key := range keys {
				if msg, p := vxCatch(func() {
					// lists are snapshots, so even while hosts come and go one iterator is bounded
					if _, err := vxC11Drain(w.pol.Pick(w.query(key)), 16*n+16); err != nil {
						fail(fmt.Errorf("picker %d key %d: %v", pi, key, err))
					}
				}); p {
					fail(fmt.Errorf("picker %d key %d panicked: %s", pi, key, msg))
				}
			}
		}(pi, keys)
	}
	for mi, ops := range c.Mutators {
		wg.Add(1)
		go func(mi int, ops []vxC11Op) {
			defer wg.Done()
			<-start
			for _, op := range ops {
				if op.Host < 0 || op.Host >= n {
					continue
				}
				h := w.hosts[op.Host]
				if msg, p := vxCatch(func() {
					switch op.Kind {
					case 0:
						w.pol.AddHost(h)
					case 1:
						h.setState(NodeUp)
						w.pol.HostUp(h)
					case 2:
						h.setState(NodeDown)
						w.pol.HostDown(h)
					case 3:
						h.setState(NodeDown)
					case 4:
						if op.Host != 0 { // host 0 stays: the ring never loses its last token (see vxC11KnownNilHost)
							w.pol.RemoveHost(h)
						}
					}
				}); p {
					fail(fmt.Errorf("mutator %d event %+v panicked: %s", mi, op, msg))
				}
			}
		}(mi, ops)
	}
	close(start)
	wg.Wait()
	if first != nil {
		return first
	}
	if len(c.Pickers) >= 2 && len(c.Mutators) >= 1 {
		k.NonTrivial()
	}
	// afterwards, quiescent: one more pick must still be a well-formed sequence of live hosts
	var seq []*HostInfo
	var derr error
	if msg, p := vxCatch(func() { seq, derr = vxC11Drain(w.pol.Pick(w.query(-2)), 4*n+4) }); p {
		return fmt.Errorf("pick after the run panicked: %s", msg)
	}
	if derr != nil {
		return derr
	}
	seen := map[*HostInfo]bool{}
	for _, h := range seq {
		if seen[h] || !h.IsUp() {
			return fmt.Errorf("after the run a pick offered %v (duplicate or down host %s)", vxHostNames(seq), h.hostId)
		}
		seen[h] = true
	}
	return nil
}

func TestVxC11Concurrent(t *testing.T) {
	vx.Check(t, vx.Prop{
		ID: "C11", Part: "TestVxC11Concurrent",
		Rule: "1..8 hosts all known at start x any policy combination (NTS with rf>=1 everywhere) ; 1..3 pickers x 5..40 picks race 1..2 mutators x 10..60 session-style events (host 0 is never removed, so the ring keeps a token); safety only: no panic, no selected host without HostInfo, every iterator finite, a quiescent pick afterwards offers live hosts once; non-trivial = at least 2 pickers and 1 mutator; distinct by whole case (schedules are whatever the runtime produced)",
		Draw: func(t *rapid.T) interface{} {
			c := &vxC11Conc{Pol: vxC11DrawPolicy(t, true), Hosts: vxC11DrawHosts(t, 1, 8, true)}
			np := rapid.IntRange(1, 3).Draw(t, "pickers")
			for i := 0; i < np; i++ {
				var keys []int
				for j, m := 0, rapid.IntRange(5, 40).Draw(t, "npicks"); j < m; j++ {
					keys = append(keys, rapid.IntRange(-2, vxRanks-1).Draw(t, "key"))
				}
				c.Pickers = append(c.Pickers, keys)
			}
			nm := rapid.IntRange(1, 2).Draw(t, "mutators")
			for i := 0; i < nm; i++ {
				var ops []vxC11Op
				for j, m := 0, rapid.IntRange(10, 60).Draw(t, "nops"); j < m; j++ {
					ops = append(ops, vxC11Op{Kind: rapid.IntRange(0, 5).Draw(t, "op"), Host: rapid.IntRange(0, len(c.Hosts)-1).Draw(t, "ophost")})
				}
				c.Mutators = append(c.Mutators, ops)
			}
			return c
		},
		New: func() interface{} { return &vxC11Conc{} },
		Run: func(ci interface{}, k *vstats.Case) error { return vxC11ConcRun(ci.(*vxC11Conc), k) },
	})
}
