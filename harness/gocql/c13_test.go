//go:build verif && go1.21

// C13 - retries, idempotence and speculative execution follow the documented contract.
//
// A real Session (public API: ClusterConfig, Session.Query / Session.NewBatch, Query.RetryPolicy,
// Query.Idempotent, Query.SetSpeculativeExecutionPolicy, Query.WithContext, ...) runs against
// lib/vnode's scripted cluster. The hosts a query may use are dictated by a deterministic
// HostSelectionPolicy written here (public interface); what every host answers to its k-th request
// is dictated by the case's script. A reference executor (pure function of the case, written from
// the property statement and the doc comments of policies.go / doc.go) says which requests must
// reach which host in which order and what the caller must get back.
//
// White-box access is used only to put hosts into states a real cluster produces on its own time
// scale: HostInfo.setState(NodeDown), policyConnPool.removeHost, a HostInfo unknown to the pool.
package gocql

import (
	"math"
	"context"
	"errors"
	"fmt"
	"net"
	"sort"
	"strings"
	"sync"
	"testing"
	"time"

	"pgregory.net/rapid"
	"verif.local/cqlspec"
	"verif.local/vnode"
	"verif.local/vstats"
	"verif.local/vx"
)

// ---------------------------------------------------------------------------------------------
// the case

type vxC13Outcome struct {
	Kind      string `json:"kind"`               // ok | err | noreply | close | down (the driver itself takes the host down while the request is in flight: a DOWN event)
	Code      int    `json:"code,omitempty"`     // err: server error code
	Alive     int    `json:"alive,omitempty"`    // Unavailable
	Received  int    `json:"received,omitempty"` // Read/Write timeout
	WriteType string `json:"wt,omitempty"`       // Write timeout
	DelayMs   int    `json:"delay,omitempty"`    // the answer (or close) happens this long after arrival
}

type vxC13Policy struct {
	Kind    string `json:"kind"`              // nil | simple | expo | down | table
	N       int    `json:"n,omitempty"`       // simple / expo: NumRetries
	Levels  []int  `json:"levels,omitempty"`  // down: ConsistencyLevelsToTry
	Attempt []bool `json:"attempt,omitempty"` // table: Attempt(q) = Attempt[q.Attempts()-1] (false beyond)
	Types   []int  `json:"types,omitempty"`   // table: i-th GetRetryType call returns Types[i] (Rethrow beyond)
	Via     string `json:"via"`               // query | cluster | override (a cluster-wide SimpleRetryPolicy{6} that the statement replaces, possibly by nil)
}

type vxC13Spec struct {
	Set      bool `json:"set"`
	Attempts int  `json:"attempts"`
	DelayMs  int  `json:"delay"`
	Zero     bool `json:"zero_delay,omitempty"` // the policy's delay is zero ("any delay"): the speculative executions start at once
}

type vxC13Cancel struct {
	Mode string `json:"mode"` // "" | pre | predeadline | arrival | policy
	K    int    `json:"k"`    // arrival: global index of the request during which ctx is cancelled; policy: index of the Attempt() call that cancels
}

type vxC13Case struct {
	Proto     int              `json:"proto"`
	NHosts    int              `json:"nhosts"`
	NumConns  int              `json:"numconns"`
	HostState []string         `json:"host_state"` // up | down | nopool
	Offers    []int            `json:"offers"`     // host index; -1: SelectedHost with nil Info; -2: host unknown to the pool
	Script    [][]vxC13Outcome `json:"script"`     // per host, per arrival at that host (beyond: ok)
	Policy    vxC13Policy      `json:"policy"`
	Spec      vxC13Spec        `json:"spec"`
	Idem      bool             `json:"idem"`
	IdemVia   string           `json:"idem_via"` // query | cluster (queries only)
	Batch     bool             `json:"batch"`
	BatchIdem []bool           `json:"batch_idem,omitempty"` // per entry; the batch is idempotent iff all are
	Cons      int              `json:"cons"`
	Cancel    vxC13Cancel      `json:"cancel"`
}

func (c *vxC13Case) idempotent() bool {
	if !c.Batch {
		return c.Idem
	}
	for _, b := range c.BatchIdem {
		if !b {
			return false
		}
	}
	return true
}

func (c *vxC13Case) specMode() bool {
	return c.Spec.Set && c.Spec.Attempts > 0 && c.idempotent()
}

func (c *vxC13Case) outcome(h, k int) vxC13Outcome {
	if h >= 0 && h < len(c.Script) && k < len(c.Script[h]) {
		return c.Script[h][k]
	}
	return vxC13Outcome{Kind: "ok"}
}

func (c *vxC13Case) usable(slot int) bool {
	return slot >= 0 && slot < c.NHosts && slot < len(c.HostState) && c.HostState[slot] == "up"
}

func (c *vxC13Case) hasNoReply() bool {
	for _, hs := range c.Script {
		for _, o := range hs {
			if o.Kind == "noreply" {
				return true
			}
		}
	}
	return false
}

// sanitize makes a decoded / drawn case well-formed (replay files may be edited by hand).
func (c *vxC13Case) sanitize() {
	if c.NHosts < 1 {
		c.NHosts = 1
	}
	if c.NHosts > 4 {
		c.NHosts = 4
	}
	if c.NumConns < 1 {
		c.NumConns = 1
	}
	if c.Proto < 2 || c.Proto > 5 {
		c.Proto = 4
	}
	for len(c.HostState) < c.NHosts {
		c.HostState = append(c.HostState, "up")
	}
	for len(c.Script) < c.NHosts {
		c.Script = append(c.Script, nil)
	}
	if c.Batch && len(c.BatchIdem) == 0 {
		c.BatchIdem = []bool{c.Idem}
	}
	if c.Spec.DelayMs < 1 {
		c.Spec.DelayMs = 1
	}
	if c.specMode() {
		c.Cancel = vxC13Cancel{}
	}
}

var vxC13ErrCodes = []int{cqlspec.ErrServer, cqlspec.ErrProtocol, cqlspec.ErrCredentials, cqlspec.ErrUnavailable, cqlspec.ErrOverloaded,
	cqlspec.ErrBootstrapping, cqlspec.ErrTruncate, cqlspec.ErrWriteTimeout, cqlspec.ErrReadTimeout, cqlspec.ErrReadFailure,
	cqlspec.ErrFunctionFailure, cqlspec.ErrWriteFailure, cqlspec.ErrCDCWriteFailure, cqlspec.ErrCASWriteUnknown, cqlspec.ErrSyntax,
	cqlspec.ErrUnauthorized, cqlspec.ErrInvalid, cqlspec.ErrConfig, cqlspec.ErrAlreadyExists}

var vxC13Consistencies = []int{int(Any), int(One), int(Two), int(Three), int(Quorum), int(All), int(LocalQuorum), int(EachQuorum), int(LocalOne)}

func vxC13DrawOutcome(t *rapid.T, spec vxC13Spec, allowNoReply bool, first bool) vxC13Outcome {
	var o vxC13Outcome
	if first && rapid.IntRange(0, 2).Draw(t, "first_fails") != 2 {
		allowNoReply = false
	}
	kinds := []string{"err", "err", "err", "err", "err", "err", "err", "err", "ok", "ok", "close", "close", "down"}
	if allowNoReply {
		kinds = append(kinds, "noreply")
	}
	o.Kind = rapid.SampledFrom(kinds).Draw(t, "kind")
	if first && o.Kind == "ok" && rapid.IntRange(0, 3).Draw(t, "first_not_ok") != 3 {
		o.Kind = "err"
	}
	if o.Kind == "err" {
		if rapid.Bool().Draw(t, "policy_relevant") {
			o.Code = rapid.SampledFrom([]int{cqlspec.ErrUnavailable, cqlspec.ErrWriteTimeout, cqlspec.ErrReadTimeout}).Draw(t, "code")
		} else {
			o.Code = rapid.SampledFrom(vxC13ErrCodes).Draw(t, "code")
		}
		switch o.Code {
		case cqlspec.ErrUnavailable:
			o.Alive = rapid.IntRange(0, 2).Draw(t, "alive")
		case cqlspec.ErrWriteTimeout, cqlspec.ErrWriteFailure:
			o.Received = rapid.IntRange(0, 2).Draw(t, "received")
			o.WriteType = rapid.SampledFrom([]string{"SIMPLE", "BATCH", "COUNTER", "UNLOGGED_BATCH", "BATCH_LOG", "CAS"}).Draw(t, "wt")
		case cqlspec.ErrReadTimeout, cqlspec.ErrReadFailure, cqlspec.ErrCASWriteUnknown:
			o.Received = rapid.IntRange(0, 2).Draw(t, "received")
		}
	}
	if spec.Set && spec.Attempts > 0 && o.Kind != "noreply" {
		d := spec.DelayMs
		if first {
			o.DelayMs = rapid.SampledFrom([]int{2*d + 5, 4*d + 8, d + 3, 3*d + 2, 0}).Draw(t, "delay")
		} else {
			o.DelayMs = rapid.SampledFrom([]int{2*d + 5, 0, d + 3, 0, d/2 + 1, 4*d + 8}).Draw(t, "delay")
		}
	}
	return o
}

// vxC13Draw draws a case; forceSpec: an idempotent statement with a speculative policy of >= 1 attempts.
func vxC13Draw(t *rapid.T, forceSpec bool) *vxC13Case {
	c := &vxC13Case{}
	c.Proto = rapid.SampledFrom([]int{4, 3, 4, 5, 3, 2, 4}).Draw(t, "proto")
	c.NHosts = rapid.SampledFrom([]int{3, 2, 4, 1, 2, 4, 1, 3}).Draw(t, "nhosts")
	c.NumConns = rapid.SampledFrom([]int{1, 2, 1}).Draw(t, "numconns")
	for i := 0; i < c.NHosts; i++ {
		c.HostState = append(c.HostState, rapid.SampledFrom([]string{"up", "up", "up", "up", "up", "up", "up", "up", "down", "nopool"}).Draw(t, "hoststate"))
	}
	// offered order
	switch rapid.SampledFrom([]string{"perm", "perm", "free"}).Draw(t, "offermode") {
	case "perm":
		perm := rapid.Permutation(vxC13Range(c.NHosts)).Draw(t, "perm")
		cut := rapid.IntRange(0, len(perm)).Draw(t, "cut")
		if rapid.IntRange(0, 5).Draw(t, "truncate") != 5 {
			cut = len(perm)
		}
		c.Offers = append(c.Offers, perm[:cut]...)
		if rapid.IntRange(0, 5).Draw(t, "special") == 5 {
			pos := rapid.IntRange(0, len(c.Offers)).Draw(t, "special_pos")
			sp := rapid.SampledFrom([]int{-1, -2}).Draw(t, "special_kind")
			c.Offers = append(c.Offers[:pos], append([]int{sp}, c.Offers[pos:]...)...)
		}
	default:
		n := rapid.SampledFrom([]int{4, 3, 5, 2, 6, 7, 1}).Draw(t, "noffers")
		for i := 0; i < n; i++ {
			if rapid.IntRange(0, 7).Draw(t, "special") == 7 {
				c.Offers = append(c.Offers, rapid.SampledFrom([]int{-1, -2}).Draw(t, "special_kind"))
			} else {
				c.Offers = append(c.Offers, rapid.IntRange(0, c.NHosts-1).Draw(t, "offer"))
			}
		}
	}
	if c.Offers == nil {
		c.Offers = []int{}
	}
	// policies
	c.Spec.Set = forceSpec || rapid.IntRange(0, 2).Draw(t, "spec_set") == 2
	if c.Spec.Set {
		c.Spec.Attempts = rapid.SampledFrom([]int{1, 2, 1, 3, 0}).Draw(t, "spec_attempts")
		if forceSpec && c.Spec.Attempts == 0 {
			c.Spec.Attempts = 2
		}
		c.Spec.DelayMs = rapid.IntRange(1, 20).Draw(t, "spec_delay")
		c.Spec.Zero = rapid.IntRange(0, 5).Draw(t, "spec_zero") == 0
	} else {
		c.Spec.DelayMs = 1
	}
	c.Policy.Kind = rapid.SampledFrom([]string{"table", "simple", "down", "expo", "table", "simple", "down", "table", "simple", "down", "nil", "table"}).Draw(t, "policy")
	c.Policy.Via = rapid.SampledFrom([]string{"query", "query", "cluster", "override"}).Draw(t, "policy_via")
	switch c.Policy.Kind {
	case "simple", "expo":
		// ... and "as often as the plan offers a host": the largest numbers
		c.Policy.N = rapid.SampledFrom([]int{2, 1, 3, 2, 1, 3, 0, math.MaxInt32, math.MaxInt64}).Draw(t, "numretries")
	case "down":
		n := rapid.SampledFrom([]int{2, 3, 1, 2, 3, 0}).Draw(t, "nlevels")
		c.Policy.Levels = []int{}
		for i := 0; i < n; i++ {
			c.Policy.Levels = append(c.Policy.Levels, rapid.SampledFrom(vxC13Consistencies).Draw(t, "level"))
		}
	case "table":
		n := rapid.SampledFrom([]int{3, 4, 2, 5, 3, 4, 1, 6, 0}).Draw(t, "nattempt")
		c.Policy.Attempt = []bool{}
		for i := 0; i < n; i++ {
			c.Policy.Attempt = append(c.Policy.Attempt, rapid.IntRange(0, 5).Draw(t, "attempt_ok") != 5)
		}
		m := rapid.SampledFrom([]int{4, 3, 5, 2, 6, 4, 1, 7, 0}).Draw(t, "ntypes")
		c.Policy.Types = []int{}
		for i := 0; i < m; i++ {
			c.Policy.Types = append(c.Policy.Types, rapid.SampledFrom([]int{1, 0, 1, 0, 0, 0, 2, 3, 4, 9, 0xffff}).Draw(t, "rtype"))
		}
	}
	c.Batch = rapid.IntRange(0, 2).Draw(t, "batch") == 2
	idem := forceSpec || rapid.IntRange(0, 2).Draw(t, "idem") != 2
	c.Idem = idem
	c.IdemVia = rapid.SampledFrom([]string{"query", "query", "cluster"}).Draw(t, "idem_via")
	if c.Batch {
		n := rapid.IntRange(1, 3).Draw(t, "nentries")
		for i := 0; i < n; i++ {
			c.BatchIdem = append(c.BatchIdem, idem)
		}
		if !idem && n > 1 {
			// only some entries are not idempotent
			keep := rapid.IntRange(0, n-1).Draw(t, "nonidem_entry")
			for i := range c.BatchIdem {
				c.BatchIdem[i] = i != keep && rapid.Bool().Draw(t, "entry_idem")
			}
		}
	}
	c.Cons = rapid.SampledFrom(vxC13Consistencies).Draw(t, "cons")
	c.Cancel.Mode = rapid.SampledFrom([]string{"", "", "", "", "", "", "", "", "", "", "", "", "pre", "predeadline", "arrival", "arrival", "arrival", "policy", "policy"}).Draw(t, "cancel")
	if c.Cancel.Mode == "arrival" || c.Cancel.Mode == "policy" {
		c.Cancel.K = rapid.IntRange(0, 3).Draw(t, "cancel_k")
	}
	// script
	specMode := c.specMode()
	noReplies := 0
	for h := 0; h < c.NHosts; h++ {
		n := rapid.SampledFrom([]int{3, 2, 4, 3, 2, 5, 1, 3, 2, 4, 0}).Draw(t, "nscript")
		hs := []vxC13Outcome{}
		for i := 0; i < n; i++ {
			o := vxC13DrawOutcome(t, c.Spec, !specMode && noReplies < 2, i == 0)
			if o.Kind == "noreply" {
				noReplies++
			}
			hs = append(hs, o)
		}
		c.Script = append(c.Script, hs)
	}
	c.sanitize()
	return c
}

func vxC13Range(n int) []int {
	out := make([]int, n)
	for i := range out {
		out[i] = i
	}
	return out
}

// ---------------------------------------------------------------------------------------------
// the reference executor (non-speculative runs)

type vxC13Step struct {
	Host  int  `json:"h"`
	K     int  `json:"k"`
	CL    int  `json:"cl"`
	Local bool `json:"local,omitempty"` // an attempt that fails before anything is written (closed connection still in the pool)
}

// vxC13Res is a result in comparable form.
type vxC13Res struct {
	Kind string // ok | server | timeout | connloss | canceled | deadline | noconn | unknownretry
	Host int
	K    int
	Code int
}

func (r vxC13Res) String() string {
	if r.Kind == "server" {
		return fmt.Sprintf("server error 0x%04x of request #%d at host %d", r.Code, r.K, r.Host)
	}
	return r.Kind
}

type vxC13Pred struct {
	Steps []vxC13Step
	Res   vxC13Res
}

func (p vxC13Pred) requests() []vxC13Step {
	var out []vxC13Step
	for _, s := range p.Steps {
		if !s.Local {
			out = append(out, s)
		}
	}
	return out
}

type vxC13RefOpt struct {
	idem           bool // treat the statement as idempotent
	unloggedAlways bool // DowngradingConsistencyRetryPolicy retries UNLOGGED_BATCH write timeouts even with 0 acknowledgements
	ignoreRethrows bool // the Ignore decision hands the error to the caller instead of ignoring it
}

type vxC13State struct {
	pos          int // index into Offers of the current slot; len(Offers) = exhausted
	attempts     int
	arr          []int
	g            int
	cancelled    bool
	damaged      []bool
	gone         []bool // taken down by the driver itself (a DOWN event): passed over from then on
	lastErr      *vxC13Res
	cl           int
	attemptCalls int
	typeCalls    int
	steps        []vxC13Step
}

func (s vxC13State) clone() vxC13State {
	s.arr = append([]int{}, s.arr...)
	s.damaged = append([]bool{}, s.damaged...)
	s.gone = append([]bool{}, s.gone...)
	s.steps = append([]vxC13Step{}, s.steps...)
	return s
}

type vxC13Ref struct {
	c   *vxC13Case
	opt vxC13RefOpt
	out []vxC13Pred
}

// vxC13Reference lists every (request sequence, result) the contract allows for a non-speculative
// run of c. More than one only where the outcome legitimately depends on timing inside the driver:
// a host that lost a connection earlier in the run may be skipped (pool empty), fail locally (closed
// connection not yet removed from the pool) or be used again (pool refilled); a cancellation that
// happens while a request is in flight may be seen before or after that request's answer.
func vxC13Reference(c *vxC13Case, opt vxC13RefOpt) []vxC13Pred {
	r := &vxC13Ref{c: c, opt: opt}
	st := vxC13State{arr: make([]int, c.NHosts), damaged: make([]bool, c.NHosts), gone: make([]bool, c.NHosts), cl: c.Cons}
	switch c.Cancel.Mode {
	case "pre", "predeadline":
		st.cancelled = true
	}
	st.pos = -1
	r.advance(&st)
	r.loop(st)
	return r.out
}

func (r *vxC13Ref) advance(st *vxC13State) {
	st.pos++
	for st.pos < len(r.c.Offers) && !r.c.usable(r.c.Offers[st.pos]) {
		st.pos++
	}
}

func (r *vxC13Ref) emit(st vxC13State, res vxC13Res) {
	if len(r.out) < 20000 {
		r.out = append(r.out, vxC13Pred{Steps: st.steps, Res: res})
	}
}

func (r *vxC13Ref) ctxRes() vxC13Res {
	if r.c.Cancel.Mode == "predeadline" {
		return vxC13Res{Kind: "deadline"}
	}
	return vxC13Res{Kind: "canceled"}
}

func (r *vxC13Ref) loop(st vxC13State) {
	if len(r.out) >= 20000 {
		return
	}
	if st.pos >= len(r.c.Offers) {
		// no host left: the last attempt's error, or "no connections" if nothing was attempted
		if st.lastErr != nil {
			r.emit(st, *st.lastErr)
		} else {
			r.emit(st, vxC13Res{Kind: "noconn"})
		}
		return
	}
	h := r.c.Offers[st.pos]
	if st.gone[h] {
		// the host is marked down: offered or not, it is passed over
		s := st.clone()
		r.advance(&s)
		r.loop(s)
		return
	}
	if st.damaged[h] {
		s := st.clone() // the pool of h is empty: the host is passed over
		r.advance(&s)
		r.loop(s)
		s = st.clone() // the closed connection is still in the pool: the attempt fails locally
		s.attempts++
		s.steps = append(s.steps, vxC13Step{Host: h, Local: true})
		if s.cancelled {
			r.emit(s, r.ctxRes())
		} else {
			r.decide(s, vxC13Res{Kind: "connloss"}, vxC13Outcome{Kind: "close"})
		}
	}
	st = st.clone()
	st.attempts++
	if st.cancelled {
		// a cancelled context is noticed before anything is written
		st.steps = append(st.steps, vxC13Step{Host: h, Local: true})
		r.emit(st, r.ctxRes())
		return
	}
	k := st.arr[h]
	st.arr[h]++
	g := st.g
	st.g++
	st.steps = append(st.steps, vxC13Step{Host: h, K: k, CL: st.cl})
	oc := r.c.outcome(h, k)
	if r.c.Cancel.Mode == "arrival" && g == r.c.Cancel.K {
		st.cancelled = true
		r.emit(st.clone(), r.ctxRes())
		if oc.Kind == "noreply" {
			return
		}
	}
	switch oc.Kind {
	case "ok":
		r.emit(st, vxC13Res{Kind: "ok"})
	case "err":
		r.decide(st, vxC13Res{Kind: "server", Host: h, K: k, Code: oc.Code}, oc)
	case "noreply":
		r.decide(st, vxC13Res{Kind: "timeout"}, oc)
	case "close":
		st.damaged[h] = true
		r.decide(st, vxC13Res{Kind: "connloss"}, oc)
	case "down":
		// the connection is closed by the driver itself while the request is in flight: to the request that
		// is one more failed attempt (the retry policy decides), the host is down from then on
		st.gone[h] = true
		r.decide(st, vxC13Res{Kind: "connloss"}, vxC13Outcome{Kind: "close"})
	}
}

const (
	vxC13Retry    = 0
	vxC13NextHost = 1
	vxC13Ignore   = 2
	vxC13Rethrow  = 3
)

// decide: an attempt failed with e; what next?
func (r *vxC13Ref) decide(st vxC13State, e vxC13Res, oc vxC13Outcome) {
	p := r.c.Policy
	if !r.opt.idem || p.Kind == "nil" {
		// doc.go: "Non-idempotent queries are not eligible for retrying"; no policy: sent once
		r.emit(st, e)
		return
	}
	if r.c.Cancel.Mode == "policy" && st.attemptCalls == r.c.Cancel.K {
		st.cancelled = true
	}
	st.attemptCalls++
	ok := false
	switch p.Kind {
	case "simple", "expo":
		// "NumRetries: Number of times to retry a query": attempt n+1 is allowed while n <= NumRetries
		ok = st.attempts <= p.N
	case "down":
		// "Next retry will be with the next consistency level provided in the slice"
		ok = st.attempts <= len(p.Levels)
		if ok {
			st.cl = p.Levels[st.attempts-1]
		}
	case "table":
		ok = st.attempts-1 < len(p.Attempt) && p.Attempt[st.attempts-1]
	}
	if !ok {
		r.emit(st, e)
		return
	}
	st.lastErr = &e
	typ := vxC13NextHost
	switch p.Kind {
	case "down":
		typ = r.downgradingDecision(e, oc)
	case "table":
		typ = vxC13Rethrow
		if st.typeCalls < len(p.Types) {
			typ = p.Types[st.typeCalls]
		}
	}
	st.typeCalls++
	switch typ {
	case vxC13Retry:
		r.loop(st)
	case vxC13NextHost:
		r.advance(&st)
		r.loop(st)
	case vxC13Rethrow:
		// "raise error and stop retrying"
		r.emit(st, e)
	case vxC13Ignore:
		// "ignore error and return result": no more attempts and the caller sees no error
		if r.opt.ignoreRethrows {
			r.emit(st, e)
		} else {
			r.emit(st, vxC13Res{Kind: "ok"})
		}
	default:
		r.emit(st, vxC13Res{Kind: "unknownretry"})
	}
}

// downgradingDecision transcribes the doc comment of DowngradingConsistencyRetryPolicy; where the
// comment is silent (other errors; no replica alive / no acknowledgement) the decisions are the
// code's: other errors go to the next host, the silent cases are rethrown.
func (r *vxC13Ref) downgradingDecision(e vxC13Res, oc vxC13Outcome) int {
	if e.Kind != "server" {
		return vxC13NextHost
	}
	switch oc.Code {
	case cqlspec.ErrUnavailable:
		// "if at least one replica is alive, the operation is retried with the next provided consistency level"
		if oc.Alive > 0 {
			return vxC13Retry
		}
		return vxC13Rethrow
	case cqlspec.ErrWriteTimeout:
		switch oc.WriteType {
		case "UNLOGGED_BATCH":
			// "if the operation is an UNLOGGED_BATCH and at least one replica acknowledged the write, the
			// operation is retried with the next consistency level"
			if oc.Received > 0 || r.opt.unloggedAlways {
				return vxC13Retry
			}
			return vxC13Rethrow
		case "SIMPLE", "BATCH", "COUNTER":
			// "for other write types, if at least one replica acknowledged the write, the timeout is ignored"
			if oc.Received > 0 {
				return vxC13Ignore
			}
			return vxC13Rethrow
		}
		return vxC13Rethrow
	case cqlspec.ErrReadTimeout:
		// "On a read timeout: the operation is retried with the next provided consistency level"
		return vxC13Retry
	}
	return vxC13NextHost
}

// perExecBudget is the largest number of attempts one execution may make under the policy.
func (c *vxC13Case) perExecBudget() int {
	switch c.Policy.Kind {
	case "simple", "expo":
		if c.Policy.N >= math.MaxInt32 {
			return math.MaxInt32
		}
		return 1 + c.Policy.N
	case "down":
		return 1 + len(c.Policy.Levels)
	case "table":
		n := 1
		for _, b := range c.Policy.Attempt {
			if b {
				n++
			}
		}
		return n
	}
	return 1
}

// ---------------------------------------------------------------------------------------------
// harness side: host selection policy, retry policies, nodes

type vxC13HostPolicy struct {
	mu     sync.Mutex
	hosts  map[string]*HostInfo // by connect address
	offers []SelectedHost       // nil: every known host in address order
	ups    map[string]int       // HostUp notifications by connect address
	picks  int
	marks  int
}

type vxC13Sel struct {
	p    *vxC13HostPolicy
	info *HostInfo
}

func (s *vxC13Sel) Info() *HostInfo { return s.info }
func (s *vxC13Sel) Mark(error) {
	s.p.mu.Lock()
	s.p.marks++
	s.p.mu.Unlock()
}

func (p *vxC13HostPolicy) AddHost(h *HostInfo) {
	p.mu.Lock()
	if p.hosts == nil {
		p.hosts = map[string]*HostInfo{}
	}
	p.hosts[h.ConnectAddress().String()] = h
	p.mu.Unlock()
}
func (p *vxC13HostPolicy) RemoveHost(h *HostInfo) {
	p.mu.Lock()
	delete(p.hosts, h.ConnectAddress().String())
	p.mu.Unlock()
}
func (p *vxC13HostPolicy) HostUp(h *HostInfo) {
	p.AddHost(h)
	p.mu.Lock()
	if p.ups == nil {
		p.ups = map[string]int{}
	}
	p.ups[h.ConnectAddress().String()]++
	p.mu.Unlock()
}
func (p *vxC13HostPolicy) HostDown(h *HostInfo)                {}
func (p *vxC13HostPolicy) SetPartitioner(string)               {}
func (p *vxC13HostPolicy) KeyspaceChanged(KeyspaceUpdateEvent) {}
func (p *vxC13HostPolicy) Init(*Session)                       {}
func (p *vxC13HostPolicy) IsLocal(*HostInfo) bool              { return true }

// host returns the host with that address once the session has announced it as connected (the
// pool reports its first connection asynchronously and that report sets the host's state to up).
func (p *vxC13HostPolicy) host(ip string) *HostInfo {
	p.mu.Lock()
	defer p.mu.Unlock()
	if p.ups[ip] == 0 {
		return nil
	}
	return p.hosts[ip]
}

// Pick offers the case's hosts in the case's order; every call returns its own iterator.
func (p *vxC13HostPolicy) Pick(ExecutableQuery) NextHost {
	p.mu.Lock()
	p.picks++
	offers := p.offers
	if offers == nil {
		var ips []string
		for ip := range p.hosts {
			ips = append(ips, ip)
		}
		sort.Strings(ips)
		for _, ip := range ips {
			offers = append(offers, &vxC13Sel{p: p, info: p.hosts[ip]})
		}
	}
	p.mu.Unlock()
	i := 0
	return func() SelectedHost {
		if i >= len(offers) {
			return nil
		}
		s := offers[i]
		i++
		return s
	}
}

// vxC13TablePolicy is the table-driven RetryPolicy of a case.
type vxC13TablePolicy struct {
	mu      sync.Mutex
	attempt []bool
	types   []int
	calls   int
}

func (p *vxC13TablePolicy) Attempt(q RetryableQuery) bool {
	n := q.Attempts()
	return n >= 1 && n-1 < len(p.attempt) && p.attempt[n-1]
}

func (p *vxC13TablePolicy) GetRetryType(error) RetryType {
	p.mu.Lock()
	defer p.mu.Unlock()
	i := p.calls
	p.calls++
	if i < len(p.types) {
		return RetryType(p.types[i])
	}
	return Rethrow
}

// vxC13CancelPolicy cancels the query's context inside the k-th Attempt call and otherwise defers
// to the wrapped policy.
type vxC13CancelPolicy struct {
	inner  RetryPolicy
	mu     sync.Mutex
	calls  int
	k      int
	cancel func()
}

func (p *vxC13CancelPolicy) Attempt(q RetryableQuery) bool {
	p.mu.Lock()
	i := p.calls
	p.calls++
	p.mu.Unlock()
	if i == p.k {
		p.cancel()
	}
	return p.inner.Attempt(q)
}

func (p *vxC13CancelPolicy) GetRetryType(err error) RetryType { return p.inner.GetRetryType(err) }

func (c *vxC13Case) retryPolicy() RetryPolicy {
	switch c.Policy.Kind {
	case "simple":
		return &SimpleRetryPolicy{NumRetries: c.Policy.N}
	case "expo":
		return &ExponentialBackoffRetryPolicy{NumRetries: c.Policy.N, Min: time.Millisecond, Max: 3 * time.Millisecond}
	case "down":
		var lv []Consistency
		for _, l := range c.Policy.Levels {
			lv = append(lv, Consistency(l))
		}
		return &DowngradingConsistencyRetryPolicy{ConsistencyLevelsToTry: lv}
	case "table":
		return &vxC13TablePolicy{attempt: c.Policy.Attempt, types: c.Policy.Types}
	}
	return nil
}

// vxC13Arrival is one user request as a node saw it.
type vxC13Arrival struct {
	Host        int
	K           int
	CL          int
	Kind        string // QUERY | BATCH | other
	ArrEv       int64  // event number of the arrival
	ReplyEv     int64  // event number of the answer / close (0: none yet)
	ReplyAt     time.Time
	conn        *vnode.ServerConn
	waiting     bool // a delayed answer is scheduled
	dead        bool // the connection was closed before the scheduled answer
	Outstanding int  // requests that were waiting for a (scheduled) answer when this one arrived
	AfterReturn bool
	ArrAt       time.Time
	Outcome     vxC13Outcome
}

type vxC13World struct {
	c        *vxC13Case
	mu       sync.Mutex
	ev       int64
	arrivals []*vxC13Arrival
	perHost  []int
	pending  int // answers scheduled but not sent yet
	returned bool
	returnEv int64
	cancel   func()
	timers   []*time.Timer
	wg       sync.WaitGroup
	sess     *Session
}

func (w *vxC13World) session() *Session {
	w.mu.Lock()
	defer w.mu.Unlock()
	return w.sess
}

func vxC13Msg(h, k int) string { return fmt.Sprintf("c13 h%d k%d", h, k) }

func (w *vxC13World) handler(h int) func(rc *vnode.ReqCtx) {
	return func(rc *vnode.ReqCtx) {
		req := rc.Req
		ours := false
		cl := -1
		switch req.Kind {
		case "QUERY":
			ours = strings.HasPrefix(req.Statement, "LIST tok")
			if req.Params != nil {
				cl = req.Params.Consistency
			}
		case "BATCH":
			ours = true
			cl = req.Consistency
		}
		if !ours {
			rc.Reply(&cqlspec.Response{Kind: "ERROR", Code: cqlspec.ErrInvalid, Message: "c13: unexpected request " + req.Kind})
			w.mu.Lock()
			w.arrivals = append(w.arrivals, &vxC13Arrival{Host: h, K: -1, Kind: "other:" + req.Kind})
			w.mu.Unlock()
			return
		}
		w.mu.Lock()
		w.ev++
		k := w.perHost[h]
		w.perHost[h]++
		g := 0
		for _, a := range w.arrivals {
			if a.K >= 0 {
				g++
			}
		}
		oc := w.c.outcome(h, k)
		a := &vxC13Arrival{Host: h, K: k, CL: cl, Kind: req.Kind, ArrEv: w.ev, Outstanding: w.pending, AfterReturn: w.returned, ArrAt: time.Now(), Outcome: oc, conn: rc.Conn}
		w.arrivals = append(w.arrivals, a)
		doCancel := w.c.Cancel.Mode == "arrival" && g == w.c.Cancel.K
		cancel := w.cancel
		act := func() {
			w.mu.Lock()
			if a.dead {
				w.mu.Unlock()
				return
			}
			w.ev++
			a.ReplyEv = w.ev
			a.ReplyAt = time.Now()
			if a.waiting {
				a.waiting = false
				w.pending--
			}
			if oc.Kind == "close" || oc.Kind == "down" {
				// every other request in flight on this connection (down: on this host) dies with it
				for _, b := range w.arrivals {
					if b != a && (b.conn == a.conn || (oc.Kind == "down" && b.Host == a.Host)) && b.waiting {
						b.waiting, b.dead = false, true
						w.pending--
					}
				}
			}
			w.mu.Unlock()
			switch oc.Kind {
			case "ok":
				rc.Reply(&cqlspec.Response{Kind: "VOID"})
			case "err":
				rc.Reply(&cqlspec.Response{Kind: "ERROR", Code: oc.Code, Message: vxC13Msg(h, k), Consistency: int(One), Required: 2,
					Alive: oc.Alive, Received: oc.Received, BlockFor: 2, WriteType: oc.WriteType, NumFailures: 1, ErrKeyspace: "ks", ErrTable: "t",
					Function: "f", ArgTypes: []string{"int"}})
			case "close":
				rc.Conn.Close()
			case "down":
				if s := w.session(); s != nil {
					s.handleNodeDown(net.ParseIP(rc.Node.Spec.IP), rc.Node.Spec.Port)
				}
			}
		}
		if oc.Kind != "noreply" && oc.DelayMs > 0 {
			w.pending++
			a.waiting = true
			w.wg.Add(1)
			w.timers = append(w.timers, time.AfterFunc(time.Duration(oc.DelayMs)*time.Millisecond, func() {
				defer w.wg.Done()
				act()
			}))
			w.mu.Unlock()
			if doCancel && cancel != nil {
				cancel()
			}
			return
		}
		w.mu.Unlock()
		if doCancel && cancel != nil {
			cancel()
		}
		if oc.Kind != "noreply" {
			act()
		}
	}
}

// classify turns the caller's error into comparable form.
func vxC13Classify(err error) (vxC13Res, string) {
	if err == nil {
		return vxC13Res{Kind: "ok"}, ""
	}
	switch err {
	case ErrTimeoutNoResponse:
		return vxC13Res{Kind: "timeout"}, ""
	case context.Canceled:
		return vxC13Res{Kind: "canceled"}, ""
	case context.DeadlineExceeded:
		return vxC13Res{Kind: "deadline"}, ""
	case ErrNoConnections:
		return vxC13Res{Kind: "noconn"}, ""
	case ErrUnknownRetryType:
		return vxC13Res{Kind: "unknownretry"}, ""
	}
	if re, ok := err.(RequestError); ok {
		var h, k int
		if _, e := fmt.Sscanf(re.Message(), "c13 h%d k%d", &h, &k); e == nil {
			return vxC13Res{Kind: "server", Host: h, K: k, Code: re.Code()}, ""
		}
		return vxC13Res{Kind: "server", Host: -1, K: -1, Code: re.Code()}, err.Error()
	}
	return vxC13Res{Kind: "connloss"}, fmt.Sprintf("%T %v", err, err)
}

type vxC13Obs struct {
	res      vxC13Res
	resText  string
	arrivals []*vxC13Arrival
	returnEv int64
	returnAt time.Time
	attempts int
}

var errVxC13Harness = errors.New("C13 harness")

// vxC13Execute runs the case once against a fresh cluster and session.
func vxC13Execute(c *vxC13Case, timeoutScale int) (*vxC13Obs, error) {
	cl := vnode.NewCluster(vxSpecs(c.NHosts, 1))
	w := &vxC13World{c: c, perHost: make([]int, c.NHosts)}
	for i, n := range cl.Nodes() {
		n.Handler = w.handler(i)
	}
	pol := &vxC13HostPolicy{}
	rp := c.retryPolicy()

	ctx := context.Background()
	var cancel func()
	switch c.Cancel.Mode {
	case "pre":
		var cf context.CancelFunc
		ctx, cf = context.WithCancel(ctx)
		cf()
		cancel = cf
	case "predeadline":
		var cf context.CancelFunc
		ctx, cf = context.WithDeadline(ctx, time.Unix(1, 0))
		cancel = cf
	case "arrival", "policy":
		var cf context.CancelFunc
		ctx, cf = context.WithCancel(ctx)
		cancel = cf
	}
	if cancel != nil {
		defer cancel()
	}
	w.cancel = cancel
	if c.Cancel.Mode == "policy" && rp != nil {
		rp = &vxC13CancelPolicy{inner: rp, k: c.Cancel.K, cancel: cancel}
	}

	timeout := 10 * time.Second
	if c.hasNoReply() {
		timeout = time.Duration(150*timeoutScale) * time.Millisecond
	}
	cfg := vxClusterConfig(cl, c.Proto, func(cfg *ClusterConfig) {
		cfg.PoolConfig.HostSelectionPolicy = pol
		cfg.NumConns = c.NumConns
		cfg.Timeout = timeout
		cfg.ConnectTimeout = 5 * time.Second
		cfg.Consistency = Consistency(c.Cons)
		if c.Policy.Via == "cluster" {
			cfg.RetryPolicy = rp
		}
		if c.Policy.Via == "override" {
			// a cluster-wide default that the statement overrides (with nil: "no retries")
			cfg.RetryPolicy = &SimpleRetryPolicy{NumRetries: 6}
		}
		if !c.Batch && c.IdemVia == "cluster" {
			cfg.DefaultIdempotence = c.Idem
		}
	})
	s, err := cfg.CreateSession()
	if err != nil {
		return nil, fmt.Errorf("%w: CreateSession: %v", errVxC13Harness, err)
	}
	defer s.Close()
	w.mu.Lock()
	w.sess = s
	w.mu.Unlock()

	// wait until every host is known and its pool is full
	hosts := make([]*HostInfo, c.NHosts)
	deadline := time.Now().Add(10 * time.Second)
	for {
		ready := true
		for i := 0; i < c.NHosts; i++ {
			h := pol.host("10.0.0." + itoa(i+1))
			hosts[i] = h
			if h == nil {
				ready = false
				continue
			}
			p, ok := s.pool.getPool(h)
			if !ok || p.Size() < c.NumConns || !h.IsUp() {
				ready = false
			}
		}
		if ready {
			break
		}
		if time.Now().After(deadline) {
			return nil, fmt.Errorf("%w: pools not ready after 10s", errVxC13Harness)
		}
		time.Sleep(200 * time.Microsecond)
	}
	// host states
	for i, st := range c.HostState[:c.NHosts] {
		switch st {
		case "down":
			hosts[i].setState(NodeDown)
		case "nopool":
			s.pool.removeHost(hosts[i].HostID())
		}
	}
	stranger := &HostInfo{hostId: "99999999-9999-4999-8999-999999999999", connectAddress: net.ParseIP("10.0.9.9"), port: 9042, state: NodeUp}
	offers := []SelectedHost{}
	for _, o := range c.Offers {
		switch {
		case o == -1:
			offers = append(offers, &vxC13Sel{p: pol})
		case o >= 0 && o < c.NHosts:
			offers = append(offers, &vxC13Sel{p: pol, info: hosts[o]})
		default:
			offers = append(offers, &vxC13Sel{p: pol, info: stranger})
		}
	}
	pol.mu.Lock()
	pol.offers = offers
	pol.mu.Unlock()

	var sp SpeculativeExecutionPolicy
	if c.Spec.Set {
		sp = &SimpleSpeculativeExecution{NumAttempts: c.Spec.Attempts, TimeoutDelay: time.Duration(c.Spec.DelayMs) * time.Millisecond}
		if c.Spec.Zero {
			sp = &SimpleSpeculativeExecution{NumAttempts: c.Spec.Attempts}
		}
	}

	var run func() error
	var attempts func() int
	if c.Batch {
		b := s.NewBatch(BatchType(len(c.BatchIdem) % 2)) // logged or unlogged
		for i, idem := range c.BatchIdem {
			b.Entries = append(b.Entries, BatchEntry{Stmt: "LIST tok" + itoa(i), Idempotent: idem})
		}
		if c.Policy.Via == "query" || c.Policy.Via == "override" {
			b.RetryPolicy(rp)
		}
		if sp != nil {
			b.SpeculativeExecutionPolicy(sp)
		}
		if c.Cancel.Mode != "" {
			b = b.WithContext(ctx)
		}
		run = func() error { return s.ExecuteBatch(b) }
		attempts = b.Attempts
	} else {
		q := s.Query("LIST tok0")
		if c.IdemVia == "query" {
			q.Idempotent(c.Idem)
		}
		if c.Policy.Via == "query" || c.Policy.Via == "override" {
			q.RetryPolicy(rp)
		}
		if sp != nil {
			q.SetSpeculativeExecutionPolicy(sp)
		}
		if c.Cancel.Mode != "" {
			q = q.WithContext(ctx)
		}
		if q.IsIdempotent() != c.Idem {
			return nil, fmt.Errorf("Query.IsIdempotent() = %v after marking it %v via %s", q.IsIdempotent(), c.Idem, c.IdemVia)
		}
		run = func() error { return q.Exec() }
		attempts = q.Attempts
	}

	done := make(chan error, 1)
	go func() {
		defer func() {
			if r := recover(); r != nil {
				done <- fmt.Errorf("panic in the driver: %v", r)
			}
		}()
		done <- run()
	}()
	var rerr error
	select {
	case rerr = <-done:
	case <-time.After(30 * time.Second):
		return nil, fmt.Errorf("no result after 30 s (a result is due after at most %v per attempt)", timeout)
	}
	returnAt := time.Now()
	w.mu.Lock()
	w.ev++
	w.returned = true
	w.returnEv = w.ev
	pendingAtReturn := w.pending
	w.mu.Unlock()
	if rerr != nil && strings.HasPrefix(rerr.Error(), "panic in the driver") {
		return nil, rerr
	}
	if c.specMode() {
		// let losing executions show what they still send
		time.Sleep(time.Duration(c.Spec.DelayMs)*time.Millisecond + 2*time.Millisecond)
	}
	if c.specMode() && pendingAtReturn > 0 {
		// an attempt of a losing execution is still waiting for its scripted answer: deliver it and watch
		// whether that execution goes on sending requests although the caller already has its result
		w.wg.Wait()
		time.Sleep(70 * time.Millisecond)
	}
	w.mu.Lock()
	for _, t := range w.timers {
		if t.Stop() {
			w.wg.Done()
		}
	}
	w.mu.Unlock()
	w.wg.Wait()

	o := &vxC13Obs{returnEv: w.returnEv, returnAt: returnAt, attempts: attempts()}
	o.res, o.resText = vxC13Classify(rerr)
	w.mu.Lock()
	o.arrivals = append(o.arrivals, w.arrivals...)
	w.mu.Unlock()
	return o, nil
}

func vxC13FmtSteps(st []vxC13Step) string {
	var b []string
	for _, s := range st {
		if s.Local {
			b = append(b, fmt.Sprintf("h%d(local)", s.Host))
		} else {
			b = append(b, fmt.Sprintf("h%d#%d@cl%d", s.Host, s.K, s.CL))
		}
	}
	return "[" + strings.Join(b, " ") + "]"
}

func vxC13Match(o *vxC13Obs, obs []vxC13Step, preds []vxC13Pred) bool {
	for _, p := range preds {
		req := p.requests()
		if len(req) != len(obs) {
			continue
		}
		same := true
		for i := range req {
			if req[i].Host != obs[i].Host || req[i].K != obs[i].K || req[i].CL != obs[i].CL {
				same = false
				break
			}
		}
		if !same {
			continue
		}
		if p.Res == o.res {
			return true
		}
	}
	return false
}

func vxC13Bits(m int) int {
	n := 0
	for ; m != 0; m &= m - 1 {
		n++
	}
	return n
}

func vxC13DescribePreds(preds []vxC13Pred) string {
	seen := map[string]bool{}
	var out []string
	for _, p := range preds {
		s := vxC13FmtSteps(p.requests()) + " => " + p.Res.String()
		if !seen[s] {
			seen[s] = true
			out = append(out, s)
		}
		if len(out) >= 6 {
			out = append(out, "...")
			break
		}
	}
	return strings.Join(out, " | ")
}

// vxC13Judge compares one observation with the contract.
func vxC13Judge(c *vxC13Case, o *vxC13Obs) error {
	var obs []vxC13Step
	for _, a := range o.arrivals {
		if a.K < 0 {
			return fmt.Errorf("a node received a request that is not the statement: %s", a.Kind)
		}
		want := "QUERY"
		if c.Batch {
			want = "BATCH"
		}
		if a.Kind != want {
			return fmt.Errorf("host %d received a %s, the statement is a %s", a.Host, a.Kind, want)
		}
		obs = append(obs, vxC13Step{Host: a.Host, K: a.K, CL: a.CL})
	}
	if !c.specMode() {
		for _, a := range o.arrivals {
			if a.AfterReturn {
				return fmt.Errorf("request h%d#%d reached a server after the caller had its result (%s)", a.Host, a.K, o.res)
			}
			if a.Outstanding > 0 {
				return fmt.Errorf("request h%d#%d was sent while %d earlier request(s) of the same statement were still being processed by servers: executions overlap (idempotent=%v, speculative attempts=%d)",
					a.Host, a.K, a.Outstanding, c.idempotent(), c.Spec.Attempts)
			}
		}
		idem := c.idempotent()
		// Two behaviours of the code are taken as given because the property's statement agrees with them
		// ("'rethrow' and 'ignore' stop retrying ... whose error, if any, is the last attempt's"): an Ignore
		// decision hands the last error to the caller, and DowngradingConsistencyRetryPolicy retries an
		// UNLOGGED_BATCH write timeout whatever the acknowledgement count. The doc comments of RetryType
		// Ignore and of the policy word it differently; see DESIGN.md 9.3.
		preds := vxC13Reference(c, vxC13RefOpt{idem: idem, ignoreRethrows: true, unloggedAlways: true})
		if vxC13Match(o, obs, preds) {
			return nil
		}
		what := fmt.Sprintf("servers saw %s and the caller got %s %s; the contract allows: %s", vxC13FmtSteps(obs), o.res, o.resText, vxC13DescribePreds(preds))
		// deviations from the documented contract that are known: find the smallest set of them that explains the run
		type dev struct {
			id, text string
		}
		devs := []dev{
			{"C13-nonidempotent-retried", "a statement not marked idempotent was retried exactly as an idempotent one would be (doc.go: \"Non-idempotent queries are not eligible for retrying\"; Query.Idempotent: \"Non-idempotent query won't be retried\")"},
			{"C13-ignore-returns-error", "the policy decided Ignore (\"ignore error and return result\") and the caller got the error all the same, as with Rethrow"},
			{"C13-downgrading-unlogged-batch-no-ack", "DowngradingConsistencyRetryPolicy retried an UNLOGGED_BATCH write timeout that no replica had acknowledged (its doc comment retries only \"if at least one replica acknowledged the write\")"},
		}
		for size := 1; size <= 1; size++ {
			for mask := 1; mask < 2; mask++ {
				if vxC13Bits(mask) != size || (mask&1 != 0 && idem) {
					continue
				}
				opt := vxC13RefOpt{idem: idem || mask&1 != 0, ignoreRethrows: true, unloggedAlways: true}
				if !vxC13Match(o, obs, vxC13Reference(c, opt)) {
					continue
				}
				var texts []string
				first := ""
				for i, d := range devs {
					if mask&(1<<uint(i)) != 0 {
						if first == "" {
							first = d.id
						}
						texts = append(texts, d.text)
					}
				}
				return vx.Known(first, "%s: %s", strings.Join(texts, "; and "), what)
			}
		}
		return fmt.Errorf("%s", what)
	}

	// speculative execution of an idempotent statement: several executions share the host iterator.
	// Once the caller has its one result the executor's context is cancelled: attempts already on the wire
	// may complete, but nothing new may be sent (Conn.exec refuses a cancelled context before writing). A
	// request that was written just before the cancel reaches the in-memory node within microseconds, so
	// an arrival well after the return (>= 40 ms) is a request that was *started* after it.
	for _, a := range o.arrivals {
		if a.AfterReturn && !o.returnAt.IsZero() && a.ArrAt.Sub(o.returnAt) >= 40*time.Millisecond {
			return fmt.Errorf("request h%d#%d reached a server %v after the caller had received its result (%s): attempts continue after the result was returned",
				a.Host, a.K, a.ArrAt.Sub(o.returnAt).Round(time.Millisecond), o.res)
		}
	}
	spec := c.Spec.Attempts
	budget := (1 + spec) * c.perExecBudget()
	desc := func() string {
		var b []string
		for _, a := range o.arrivals {
			s := fmt.Sprintf("h%d#%d(%s", a.Host, a.K, a.Outcome.Kind)
			if a.Outcome.DelayMs > 0 {
				s += fmt.Sprintf(" after %dms", a.Outcome.DelayMs)
			}
			s += fmt.Sprintf(", %d in flight)", a.Outstanding)
			if a.AfterReturn {
				s += "*"
			}
			b = append(b, s)
		}
		return "[" + strings.Join(b, " ") + "]"
	}
	if len(o.arrivals) > budget {
		return fmt.Errorf("%d requests reached servers; 1+%d executions of at most %d attempts each allow %d: %s", len(o.arrivals), spec, c.perExecBudget(), budget, desc())
	}
	usableSlots := map[int]int{}
	nUsable := 0
	for _, s := range c.Offers {
		if c.usable(s) {
			usableSlots[s]++
			nUsable++
		}
	}
	perHost := map[int]int{}
	closedHosts := map[int]bool{}
	for _, a := range o.arrivals {
		if usableSlots[a.Host] == 0 {
			return fmt.Errorf("host %d received a request but is not among the usable offered hosts: %s", a.Host, desc())
		}
		perHost[a.Host]++
		if a.Outstanding > spec {
			return fmt.Errorf("request h%d#%d arrived while %d others were in flight; 1+%d executions allow %d: %s", a.Host, a.K, a.Outstanding, spec, spec, desc())
		}
		if a.Outcome.Kind == "close" || a.Outcome.Kind == "down" {
			closedHosts[a.Host] = true
		}
	}
	nextHostOnly := c.Policy.Kind == "nil" || c.Policy.Kind == "simple" || c.Policy.Kind == "expo"
	if nextHostOnly {
		// every attempt consumes one offer of the shared iterator
		for h, n := range perHost {
			if n > usableSlots[h] {
				return fmt.Errorf("host %d received %d requests but was offered %d time(s) and the policy only ever moves to the next host: %s", h, n, usableSlots[h], desc())
			}
		}
	}
	// the result must be the outcome of a request that was answered before the caller returned
	var src *vxC13Arrival
	var firstOK *vxC13Arrival
	for _, a := range o.arrivals {
		if a.ReplyEv == 0 || a.ReplyEv > o.returnEv {
			continue
		}
		if a.Outcome.Kind == "ok" && (firstOK == nil || a.ReplyEv < firstOK.ReplyEv) {
			firstOK = a
		}
	}
	switch o.res.Kind {
	case "ok":
		// success is either a server's answer or an error the policy decided to ignore
		ignorable := false
		for _, t := range c.Policy.Types {
			if t == vxC13Ignore {
				ignorable = true
			}
		}
		if c.Policy.Kind == "down" {
			ref := &vxC13Ref{c: c}
			for _, a := range o.arrivals {
				if a.Outcome.Kind == "err" && a.ReplyEv != 0 && a.ReplyEv <= o.returnEv &&
					ref.downgradingDecision(vxC13Res{Kind: "server"}, a.Outcome) == vxC13Ignore {
					ignorable = true
				}
			}
		}
		if firstOK == nil && !ignorable {
			return fmt.Errorf("the caller got success but no server had answered success and the policy ignores no error: %s", desc())
		}
	case "server":
		for _, a := range o.arrivals {
			if a.Host == o.res.Host && a.K == o.res.K {
				src = a
			}
		}
		if src == nil || src.Outcome.Kind != "err" || src.Outcome.Code != o.res.Code {
			return fmt.Errorf("the caller got %s %s which no server sent: %s", o.res, o.resText, desc())
		}
		if src.ReplyEv == 0 || src.ReplyEv > o.returnEv {
			return fmt.Errorf("the caller got %s before it was sent: %s", o.res, desc())
		}
		// success always completes an execution: a request that was only sent afterwards cannot win against it.
		// The node sees when it READ a request, not when the driver wrote it: requests of executions that start
		// together are pipelined on one connection and read one after the other, so "read after the success was
		// answered" says nothing by itself (a first version of this rule said it did - a false alarm, met in a
		// thorough run once speculative delays of zero were generated). 20 ms between the answer and the read is
		// two orders of magnitude above the in-memory delivery latency; the case is re-run before it counts.
		if firstOK != nil && firstOK.ReplyEv < src.ArrEv && src.ArrAt.Sub(firstOK.ReplyAt) >= 20*time.Millisecond {
			return fmt.Errorf("the caller got %s although success had been answered (to h%d#%d) %v before that request was even read by its node - not the first result to complete: %s",
				o.res, firstOK.Host, firstOK.K, src.ArrAt.Sub(firstOK.ReplyAt).Round(time.Millisecond), desc())
		}
		// nor can an answer that was sent much later (>= 20 ms, two orders of magnitude above the in-memory
		// delivery latency; confirmed by re-running the case) than an answer that completes its execution:
		// success always does, and without a retry policy every answer does
		for _, a := range o.arrivals {
			if a == src || a.ReplyEv == 0 || a.ReplyEv > src.ReplyEv {
				continue
			}
			final := a.Outcome.Kind == "ok" || c.Policy.Kind == "nil"
			if final && src.ReplyAt.Sub(a.ReplyAt) >= 20*time.Millisecond {
				return fmt.Errorf("the caller got %s, answered %v after the answer to h%d#%d (%s) had completed another execution - not the first result to complete: %s",
					o.res, src.ReplyAt.Sub(a.ReplyAt), a.Host, a.K, a.Outcome.Kind, desc())
			}
		}
	case "connloss":
		okc := false
		for _, a := range o.arrivals {
			if (a.Outcome.Kind == "close" || a.Outcome.Kind == "down") && a.ReplyEv != 0 && a.ReplyEv <= o.returnEv {
				okc = true
			}
		}
		if !okc {
			return fmt.Errorf("the caller got %s %s but no connection was closed: %s", o.res, o.resText, desc())
		}
	case "noconn":
		// legal only if an execution can have found the iterator exhausted
		consumed := 0
		for _, s := range c.Offers {
			if c.usable(s) && closedHosts[s] {
				consumed++
			}
		}
		// (an execution that starts when the other executions have already taken every offer reports
		// "no connections", and that may be the first result to complete; with fewer usable offers than
		// executions this needs no request at all)
		if nUsable >= 1+spec && len(o.arrivals)+consumed < nUsable {
			return fmt.Errorf("the caller got ErrNoConnections although only %d of %d usable offered hosts had been tried by 1+%d executions: %s", len(o.arrivals), nUsable, spec, desc())
		}
	case "unknownretry":
		bad := false
		for _, t := range c.Policy.Types {
			if t < 0 || t > 3 {
				bad = true
			}
		}
		if !bad {
			return fmt.Errorf("the caller got ErrUnknownRetryType but the policy never returns an unknown type")
		}
	default:
		return fmt.Errorf("the caller got %s %s, which no scripted outcome produces: %s", o.res, o.resText, desc())
	}
	return nil
}

func vxC13Classes(c *vxC13Case, o *vxC13Obs, k *vstats.Case) {
	n := len(o.arrivals)
	lbl := itoa(n)
	if n > 5 {
		lbl = "6+"
	}
	k.Class("requests=" + lbl)
	k.Class("policy=" + c.Policy.Kind)
	k.Class("result=" + o.res.Kind)
	if c.specMode() {
		k.Class("mode=speculative")
		mx := 0
		for _, a := range o.arrivals {
			if a.Outstanding > mx {
				mx = a.Outstanding
			}
		}
		k.Class("spec_overlap=" + itoa(mx))
	} else {
		k.Class("mode=sequential")
		if c.Spec.Set && c.Spec.Attempts > 0 {
			k.Class("spec_set_nonidempotent")
		}
	}
	k.Class(fmt.Sprintf("idempotent=%v", c.idempotent()))
	if c.Batch {
		k.Class("stmt=batch")
	} else {
		k.Class("stmt=query")
	}
	if c.Cancel.Mode != "" {
		k.Class("cancel=" + c.Cancel.Mode)
	}
	hosts := map[int]bool{}
	sameHost := false
	for i, a := range o.arrivals {
		hosts[a.Host] = true
		if i > 0 && o.arrivals[i-1].Host == a.Host {
			sameHost = true
		}
		if a.Outcome.Kind != "ok" && a.Outcome.Kind != "err" {
			k.Class("met=" + a.Outcome.Kind)
		}
	}
	if sameHost {
		k.Class("retry_same_host")
	}
	if len(hosts) > 1 {
		k.Class("several_hosts")
	}
	if o.attempts > n {
		k.Class("local_attempts")
	}
	if n >= 2 {
		k.NonTrivial()
	}
}

// vxC13Run is the Run function of both parts.
func vxC13Run(ci interface{}, k *vstats.Case) error {
	c := ci.(*vxC13Case)
	c.sanitize()
	// outcomes that depend on the driver's timers (request timeout, speculative delay) are
	// confirmed by re-running the case with a more generous timeout before they count
	tries := 1
	if c.hasNoReply() || c.specMode() {
		tries = 3
	}
	var err error
	scale := 1
	for i := 0; i < tries; i++ {
		var o *vxC13Obs
		o, err = vxC13Execute(c, scale)
		if err == nil {
			if i == 0 {
				vxC13Classes(c, o, k)
			}
			err = vxC13Judge(c, o)
		}
		if err == nil {
			if i > 0 {
				k.Class("confirmed_only_on_rerun")
			}
			return nil
		}
		if _, ok := err.(*vx.KnownErr); ok {
			return err
		}
		scale *= 3
	}
	return err
}

const vxC13Rule = "1..4 hosts in states up/down/no pool, an offered host order (permutation or free sequence, incl. nil and unknown hosts), per host a script of outcomes for its k-th request (server error kinds, success, no answer, connection closed, delayed answers), a retry policy (none, Simple, ExponentialBackoff, DowngradingConsistency, table-driven incl. unknown RetryType values), a speculative policy (0..3 extra executions, 1..20 ms), idempotent or not, Query or Batch, cancellation before / during request k / inside the k-th policy consultation; non-trivial = at least two requests reached servers (a retry or a speculative execution happened); distinct by the whole case"

// TestVxC13Retries: all combinations; most runs are sequential (no speculative policy, or the
// statement is not idempotent) and are compared request by request with the reference executor.
func TestVxC13Retries(t *testing.T) {
	vx.Check(t, vx.Prop{
		ID: "C13", Part: "TestVxC13Retries", Rule: vxC13Rule,
		Draw: func(t *rapid.T) interface{} { return vxC13Draw(t, false) },
		New:  func() interface{} { return &vxC13Case{} },
		Run:  vxC13Run})
}

// TestVxC13Speculative: idempotent statements with 1..3 speculative executions and delayed answers.
func TestVxC13Speculative(t *testing.T) {
	vx.Check(t, vx.Prop{
		ID: "C13", Part: "TestVxC13Speculative", Rule: "as TestVxC13Retries with the statement idempotent, a speculative policy of 1..3 attempts and answers delayed by 0..4 speculative delays; " + vxC13Rule,
		Draw: func(t *rapid.T) interface{} { return vxC13Draw(t, true) },
		New:  func() interface{} { return &vxC13Case{} },
		Run:  vxC13Run})
}
