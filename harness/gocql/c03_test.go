//go:build verif && go1.21

// C03 - request frames on the wire are exactly what the CQL protocol specifies.
// White-box route: the frame builders of frame.go (writeStartupFrame, writeOptionsFrame,
// writeAuthResponseFrame, writeRegisterFrame, writeQueryFrame, writePrepareFrame, writeExecuteFrame,
// writeBatchFrame; queryParams, queryValues, batchStatment; newFramer, framer.trace, framer.buf)
// are driven with an abstract request under the preconditions their callers in conn.go guarantee;
// the bytes are decoded by lib/cqlspec (written from the specification) and compared.
// The black-box route through Session lives in the session-level checks (vxnode).
package gocql

import (
	"encoding/hex"
	"fmt"
	"reflect"
	"sort"
	"strings"
	"testing"
	"time"

	"github.com/golang/snappy"
	"pgregory.net/rapid"
	"verif.local/cqlspec"
	"verif.local/vstats"
	"verif.local/vx"
)

type vxC03Case struct {
	Version  int                  `json:"version"`
	Stream   int                  `json:"stream"`
	Kind     string               `json:"kind"`
	Snappy   bool                 `json:"snappy"`
	Tracing  bool                 `json:"tracing"`
	Payload  map[string]string    `json:"payload,omitempty"` // hex / "null"
	EmptyPL  bool                 `json:"empty_payload,omitempty"` // an empty but non-nil custom payload map
	Stmt     string               `json:"stmt,omitempty"`
	StmtLen  int                  `json:"stmt_len,omitempty"` // >0: statement is this many 'x' (large statements)
	IDHex    string               `json:"id,omitempty"`
	Cons     int                  `json:"cons"`
	Values   []cqlspec.ReqValue   `json:"values,omitempty"`
	NValues  int                  `json:"nvalues,omitempty"` // >0: this many 1-byte values (boundary counts)
	SkipMeta bool                 `json:"skip_meta,omitempty"`
	PageSize int                  `json:"page_size,omitempty"`
	StateHex *string              `json:"state,omitempty"` // nil: none; "": empty
	Serial   int                  `json:"serial,omitempty"`
	DefTS    bool                 `json:"def_ts,omitempty"`
	TS       int64                `json:"ts,omitempty"`
	Keyspace string               `json:"keyspace,omitempty"`
	Options  map[string]string    `json:"options,omitempty"`
	Events   []string             `json:"events,omitempty"`
	Token    *string              `json:"token,omitempty"`
	BatchTyp int                  `json:"batch_type,omitempty"`
	Entries  []cqlspec.BatchEntry `json:"entries,omitempty"`
}

var vxConsistencies = []int{0, 1, 2, 3, 4, 5, 6, 7, 8, 9, 10, 0x0b, 0x7fff, 0xffff}

func vxDrawReqValues(t *rapid.T, version int, allowNames bool) []cqlspec.ReqValue {
	n := rapid.IntRange(0, 5).Draw(t, "nvals")
	named := allowNames && version >= 3 && rapid.IntRange(0, 3).Draw(t, "named") == 0
	var out []cqlspec.ReqValue
	for i := 0; i < n; i++ {
		v := cqlspec.ReqValue{}
		switch rapid.IntRange(0, 5).Draw(t, "vkind") {
		case 0:
			v.Null = true
		case 1:
			if version >= 4 {
				v.Unset = true
			} else {
				v.Hex = ""
			}
		case 2:
			v.Hex = "" // empty, not null
		default:
			v.Hex = hex.EncodeToString(vxDrawBytes(t, 24))
		}
		if named {
			v.Name = rapid.StringMatching(`[a-z_]{1,8}`).Draw(t, "vname")
		}
		out = append(out, v)
	}
	return out
}

func vxDrawC03(t *rapid.T) *vxC03Case {
	c := &vxC03Case{Version: rapid.IntRange(1, 5).Draw(t, "version")}
	maxStream := 127
	if c.Version >= 3 {
		maxStream = 32767
	}
	c.Stream = rapid.OneOf(rapid.IntRange(0, maxStream), rapid.SampledFrom([]int{0, 1, maxStream, maxStream - 1, 127, 128, 255, 256})).Draw(t, "stream")
	if c.Stream > maxStream {
		c.Stream = maxStream
	}
	kinds := []string{"STARTUP", "OPTIONS", "REGISTER", "QUERY", "PREPARE", "EXECUTE", "QUERY", "EXECUTE"}
	if c.Version >= 2 {
		kinds = append(kinds, "AUTH_RESPONSE", "BATCH", "BATCH")
	}
	c.Kind = rapid.SampledFrom(kinds).Draw(t, "kind")
	c.Snappy = rapid.Bool().Draw(t, "snappy")
	c.Tracing = rapid.IntRange(0, 3).Draw(t, "tracing") == 0
	c.Cons = rapid.SampledFrom(vxConsistencies).Draw(t, "cons")
	if c.Version >= 4 && rapid.IntRange(0, 3).Draw(t, "payload") == 0 && (c.Kind == "QUERY" || c.Kind == "EXECUTE" || c.Kind == "BATCH" || c.Kind == "PREPARE") {
		c.Payload = map[string]string{}
		for i := rapid.IntRange(1, 3).Draw(t, "npayload"); i > 0; i-- {
			v := hex.EncodeToString(vxDrawBytes(t, 12))
			if rapid.IntRange(0, 4).Draw(t, "pnull") == 0 {
				v = "null"
			}
			c.Payload[rapid.StringMatching(`[a-z]{1,6}`).Draw(t, "pkey")] = v
		}
	}
	if c.Payload == nil && rapid.IntRange(0, 9).Draw(t, "emptypl") == 0 && (c.Kind == "QUERY" || c.Kind == "EXECUTE" || c.Kind == "BATCH" || c.Kind == "PREPARE") {
		c.EmptyPL = true
	}
	stmt := rapid.OneOf(rapid.Just("SELECT * FROM t WHERE k = ?"), rapid.String(), rapid.Just("")).Draw(t, "stmt")
	switch c.Kind {
	case "STARTUP":
		c.Options = map[string]string{"CQL_VERSION": "3.0.0"}
		if rapid.Bool().Draw(t, "comp") {
			c.Options["COMPRESSION"] = rapid.SampledFrom([]string{"snappy", "lz4"}).Draw(t, "compname")
		}
		for i := rapid.IntRange(0, 2).Draw(t, "nopts"); i > 0; i-- {
			c.Options[rapid.StringMatching(`[A-Z_]{1,10}`).Draw(t, "optk")] = rapid.String().Draw(t, "optv")
		}
	case "REGISTER":
		c.Events = rapid.SliceOfN(rapid.SampledFrom([]string{"TOPOLOGY_CHANGE", "STATUS_CHANGE", "SCHEMA_CHANGE", ""}), 0, 4).Draw(t, "events")
	case "AUTH_RESPONSE":
		switch rapid.IntRange(0, 3).Draw(t, "tokkind") {
		case 0: // null
		case 1:
			s := ""
			c.Token = &s
		default:
			s := hex.EncodeToString(vxDrawBytes(t, 40))
			c.Token = &s
		}
	case "QUERY", "PREPARE":
		c.Stmt = stmt
		if rapid.IntRange(0, 30).Draw(t, "bigstmt") == 0 {
			c.Stmt, c.StmtLen = "", rapid.SampledFrom([]int{65535, 65536, 70000, 200000}).Draw(t, "stmtlen")
		}
	case "EXECUTE":
		c.IDHex = hex.EncodeToString(vxDrawBytes(t, 20))
	}
	if c.Kind == "QUERY" || c.Kind == "EXECUTE" {
		if c.Kind == "EXECUTE" {
			// the driver only ever binds values to prepared statements (conn.go executeQuery)
			c.Values = vxDrawReqValues(t, c.Version, true)
			if rapid.IntRange(0, 40).Draw(t, "manyvals") == 0 {
				c.Values, c.NValues = nil, rapid.SampledFrom([]int{255, 256, 65534, 65535, 65536, 65537}).Draw(t, "nvalues")
			}
			c.SkipMeta = rapid.Bool().Draw(t, "skipmeta")
		}
		c.PageSize = rapid.SampledFrom([]int{0, 0, 1, 100, 5000, 0x7fffffff, -1}).Draw(t, "pagesize")
		switch rapid.IntRange(0, 3).Draw(t, "state") {
		case 0:
			s := hex.EncodeToString(vxDrawBytes(t, 30))
			if s != "" {
				c.StateHex = &s
			}
		}
		c.Serial = rapid.SampledFrom([]int{0, 0, 8, 9}).Draw(t, "serial")
		c.DefTS = rapid.IntRange(0, 2).Draw(t, "defts") == 0
		if c.DefTS {
			c.TS = rapid.OneOf(rapid.Just(int64(0)), rapid.Int64(), rapid.Just(int64(-1)), rapid.Just(int64(1))).Draw(t, "ts")
		}
		if c.Version >= 5 && rapid.Bool().Draw(t, "ks") {
			c.Keyspace = rapid.StringMatching(`[a-z][a-z0-9_]{0,12}`).Draw(t, "keyspace")
		}
	}
	if c.Kind == "PREPARE" && c.Version >= 5 && rapid.Bool().Draw(t, "ks") {
		c.Keyspace = rapid.StringMatching(`[a-z][a-z0-9_]{0,12}`).Draw(t, "keyspace")
	}
	if c.Kind == "BATCH" {
		c.BatchTyp = rapid.IntRange(0, 2).Draw(t, "btype")
		n := rapid.IntRange(0, 4).Draw(t, "nentries")
		for i := 0; i < n; i++ {
			e := cqlspec.BatchEntry{Values: vxDrawReqValues(t, c.Version, false)}
			if rapid.Bool().Draw(t, "bprep") {
				e.Prepared = true
				id := vxDrawBytes(t, 16)
				if len(id) == 0 {
					id = []byte{1}
				}
				e.IDHex = hex.EncodeToString(id)
			} else {
				e.Statement = rapid.OneOf(rapid.Just("INSERT INTO t (a) VALUES (?)"), rapid.String()).Draw(t, "bstmt")
			}
			c.Entries = append(c.Entries, e)
		}
		c.Serial = rapid.SampledFrom([]int{0, 0, 8, 9}).Draw(t, "serial")
		c.DefTS = rapid.IntRange(0, 2).Draw(t, "defts") == 0
		if c.DefTS {
			c.TS = rapid.OneOf(rapid.Just(int64(0)), rapid.Int64(), rapid.Just(int64(-1))).Draw(t, "ts")
		}
	}
	return c
}

func vxToQueryValues(vs []cqlspec.ReqValue, n int) []queryValues {
	if n > 0 {
		out := make([]queryValues, n)
		for i := range out {
			out[i].value = []byte{byte(i)}
		}
		return out
	}
	var out []queryValues
	for _, v := range vs {
		qv := queryValues{name: v.Name, isUnset: v.Unset}
		if !v.Null && !v.Unset {
			qv.value, _ = hex.DecodeString(v.Hex)
			if qv.value == nil {
				qv.value = []byte{}
			}
		}
		out = append(out, qv)
	}
	return out
}

func (c *vxC03Case) payloadBytes() map[string][]byte {
	if c.EmptyPL && len(c.Payload) == 0 {
		return map[string][]byte{}
	}
	return vxPayloadBytes(c.Payload)
}

func vxPayloadBytes(p map[string]string) map[string][]byte {
	if p == nil {
		return nil
	}
	out := map[string][]byte{}
	for k, v := range p {
		if v == "null" {
			out[k] = nil
		} else {
			b, _ := hex.DecodeString(v)
			if b == nil {
				b = []byte{}
			}
			out[k] = b
		}
	}
	return out
}

func (c *vxC03Case) stmt() string {
	if c.StmtLen > 0 {
		return strings.Repeat("x", c.StmtLen)
	}
	return c.Stmt
}

// vxBuildC03 maps the abstract request onto the driver's frame structs.
func vxBuildC03(c *vxC03Case) frameBuilder {
	params := func() queryParams {
		p := queryParams{consistency: Consistency(c.Cons), skipMeta: c.SkipMeta, values: vxToQueryValues(c.Values, c.NValues),
			serialConsistency: SerialConsistency(c.Serial), defaultTimestamp: c.DefTS, defaultTimestampValue: c.TS, keyspace: c.Keyspace}
		if c.PageSize > 0 { // conn.go: only positive page sizes are passed on
			p.pageSize = c.PageSize
		}
		if c.StateHex != nil {
			p.pagingState, _ = hex.DecodeString(*c.StateHex)
		}
		return p
	}
	switch c.Kind {
	case "STARTUP":
		return &writeStartupFrame{opts: c.Options}
	case "OPTIONS":
		return &writeOptionsFrame{}
	case "REGISTER":
		return &writeRegisterFrame{events: c.Events}
	case "AUTH_RESPONSE":
		var data []byte
		if c.Token != nil {
			data, _ = hex.DecodeString(*c.Token)
			if data == nil {
				data = []byte{}
			}
		}
		return &writeAuthResponseFrame{data: data}
	case "QUERY":
		return &writeQueryFrame{statement: c.stmt(), params: params(), customPayload: c.payloadBytes()}
	case "PREPARE":
		return &writePrepareFrame{statement: c.stmt(), keyspace: c.Keyspace, customPayload: c.payloadBytes()}
	case "EXECUTE":
		id, _ := hex.DecodeString(c.IDHex)
		return &writeExecuteFrame{preparedID: id, params: params(), customPayload: c.payloadBytes()}
	case "BATCH":
		w := &writeBatchFrame{typ: BatchType(c.BatchTyp), consistency: Consistency(c.Cons), serialConsistency: SerialConsistency(c.Serial),
			defaultTimestamp: c.DefTS, defaultTimestampValue: c.TS, customPayload: c.payloadBytes()}
		for _, e := range c.Entries {
			st := batchStatment{statement: e.Statement, values: vxToQueryValues(e.Values, 0)}
			if e.Prepared {
				st.preparedID, _ = hex.DecodeString(e.IDHex)
			}
			w.statements = append(w.statements, st)
		}
		return w
	}
	return nil
}

func vxExpectValues(vs []cqlspec.ReqValue, n int) []cqlspec.ReqValue {
	if n > 0 {
		out := make([]cqlspec.ReqValue, n)
		for i := range out {
			out[i].Hex = hex.EncodeToString([]byte{byte(i)})
		}
		return out
	}
	return vs
}

// vxExpressible reports why the request cannot be expressed in its version ("" if it can).
func vxExpressible(c *vxC03Case) string {
	n := len(c.Values)
	if c.NValues > 0 {
		n = c.NValues
	}
	if n > 65535 {
		return "more than 65535 values"
	}
	return ""
}

// vxCompareC03 checks the decoded request against the abstract one, restricted to what the
// version can express (options a version lacks are documented as ignored there).
func vxCompareC03(c *vxC03Case, r *cqlspec.Request, t0, t1 time.Time) error {
	if r.Kind != c.Kind {
		return fmt.Errorf("opcode says %s, asked for %s", r.Kind, c.Kind)
	}
	if r.Header.Version != c.Version {
		return fmt.Errorf("header version %d, want %d", r.Header.Version, c.Version)
	}
	if r.Header.Stream != c.Stream {
		return fmt.Errorf("header stream %d, want %d", r.Header.Stream, c.Stream)
	}
	wantFlags := byte(0)
	if c.Snappy && c.Kind != "STARTUP" && c.Kind != "OPTIONS" {
		wantFlags |= cqlspec.FlagCompress
	}
	if c.Tracing {
		wantFlags |= cqlspec.FlagTracing
	}
	if len(c.Payload) > 0 {
		wantFlags |= cqlspec.FlagCustomPayload
	}
	if c.Version == 5 {
		wantFlags |= cqlspec.FlagBeta
	}
	if r.Header.Flags != wantFlags {
		return fmt.Errorf("header flags %#x, want %#x", r.Header.Flags, wantFlags)
	}
	if len(c.Payload) > 0 || len(r.Payload) > 0 {
		if !reflect.DeepEqual(r.Payload, c.Payload) {
			return fmt.Errorf("custom payload %v, want %v", r.Payload, c.Payload)
		}
	}
	tsOK := func(has bool, ts int64) error {
		want := c.DefTS && c.Version >= 3
		if has != want {
			return fmt.Errorf("timestamp present=%v, want %v", has, want)
		}
		if !want {
			return nil
		}
		if c.TS != 0 {
			if ts != c.TS {
				return fmt.Errorf("timestamp %d, want %d", ts, c.TS)
			}
			return nil
		}
		if ts < t0.UnixNano()/1000-1 || ts > t1.UnixNano()/1000+1 {
			return fmt.Errorf("timestamp %d is not the time of the call (%d..%d us)", ts, t0.UnixNano()/1000, t1.UnixNano()/1000)
		}
		return nil
	}
	valuesEq := func(got, want []cqlspec.ReqValue) error {
		if len(got) != len(want) {
			return fmt.Errorf("%d values, want %d", len(got), len(want))
		}
		for i := range want {
			if got[i] != want[i] {
				return fmt.Errorf("value %d is %+v, want %+v", i, got[i], want[i])
			}
		}
		return nil
	}
	checkParams := func(p *cqlspec.QueryParams) error {
		if p == nil {
			return fmt.Errorf("no query parameters decoded")
		}
		if p.Consistency != c.Cons {
			return fmt.Errorf("consistency %#x, want %#x", p.Consistency, c.Cons)
		}
		want := vxExpectValues(c.Values, c.NValues)
		if c.Version == 1 {
			if c.Kind == "EXECUTE" {
				return valuesEq(p.Values, want)
			}
			return nil
		}
		if err := valuesEq(p.Values, want); err != nil {
			return err
		}
		if p.HasValues != (len(want) > 0) {
			return fmt.Errorf("values flag %v with %d values", p.HasValues, len(want))
		}
		if p.SkipMeta != c.SkipMeta {
			return fmt.Errorf("skip_metadata %v, want %v", p.SkipMeta, c.SkipMeta)
		}
		if p.HasPageSize != (c.PageSize > 0) || (p.HasPageSize && p.PageSize != c.PageSize) {
			return fmt.Errorf("page size present=%v %d, want %d", p.HasPageSize, p.PageSize, c.PageSize)
		}
		wantState := c.StateHex != nil && *c.StateHex != ""
		if p.HasState != wantState || (wantState && p.StateHex != *c.StateHex) {
			return fmt.Errorf("paging state present=%v %q, want %v", p.HasState, p.StateHex, c.StateHex)
		}
		if p.HasSerial != (c.Serial > 0) || (p.HasSerial && p.Serial != c.Serial) {
			return fmt.Errorf("serial consistency present=%v %d, want %d", p.HasSerial, p.Serial, c.Serial)
		}
		if err := tsOK(p.HasTS, p.TS); err != nil {
			return err
		}
		wantNamed := len(want) > 0 && want[0].Name != ""
		if p.Named != wantNamed {
			return fmt.Errorf("names flag %v, want %v", p.Named, wantNamed)
		}
		if p.HasKeyspace != (c.Keyspace != "") || p.Keyspace != c.Keyspace {
			return fmt.Errorf("keyspace present=%v %q, want %q", p.HasKeyspace, p.Keyspace, c.Keyspace)
		}
		return nil
	}
	switch c.Kind {
	case "STARTUP":
		if !reflect.DeepEqual(r.Options, c.Options) {
			return fmt.Errorf("options %v, want %v", r.Options, c.Options)
		}
	case "REGISTER":
		if len(r.Events) != len(c.Events) {
			return fmt.Errorf("events %v, want %v", r.Events, c.Events)
		}
		for i := range c.Events {
			if r.Events[i] != c.Events[i] {
				return fmt.Errorf("events %v, want %v", r.Events, c.Events)
			}
		}
	case "AUTH_RESPONSE":
		if (r.Token == nil) != (c.Token == nil) || (c.Token != nil && *r.Token != *c.Token) {
			return fmt.Errorf("token %v, want %v", r.Token, c.Token)
		}
	case "QUERY":
		if r.Statement != c.stmt() {
			return fmt.Errorf("statement of %d bytes, want %d bytes", len(r.Statement), len(c.stmt()))
		}
		return checkParams(r.Params)
	case "PREPARE":
		if r.Statement != c.stmt() {
			return fmt.Errorf("statement of %d bytes, want %d bytes", len(r.Statement), len(c.stmt()))
		}
		if r.HasPrepareKS != (c.Keyspace != "") || r.PrepareKeyspace != c.Keyspace {
			return fmt.Errorf("prepare keyspace present=%v %q, want %q", r.HasPrepareKS, r.PrepareKeyspace, c.Keyspace)
		}
	case "EXECUTE":
		if r.IDHex != c.IDHex {
			return fmt.Errorf("prepared id %s, want %s", r.IDHex, c.IDHex)
		}
		return checkParams(r.Params)
	case "BATCH":
		if r.BatchType != c.BatchTyp || r.Consistency != c.Cons {
			return fmt.Errorf("batch type/consistency %d/%#x, want %d/%#x", r.BatchType, r.Consistency, c.BatchTyp, c.Cons)
		}
		if len(r.Entries) != len(c.Entries) {
			return fmt.Errorf("%d batch entries, want %d", len(r.Entries), len(c.Entries))
		}
		for i, e := range c.Entries {
			g := r.Entries[i]
			if g.Prepared != e.Prepared || g.Statement != e.Statement || g.IDHex != e.IDHex {
				return fmt.Errorf("batch entry %d is %+v, want %+v", i, g, e)
			}
			if err := valuesEq(g.Values, e.Values); err != nil {
				return fmt.Errorf("batch entry %d: %v", i, err)
			}
		}
		if c.Version >= 3 {
			if r.HasSerial != (c.Serial > 0) || (r.HasSerial && r.Serial != c.Serial) {
				return fmt.Errorf("batch serial consistency present=%v %d, want %d", r.HasSerial, r.Serial, c.Serial)
			}
			return tsOK(r.HasTS, r.TS)
		}
	}
	return nil
}

func TestVxC03Frames(t *testing.T) {
	vx.Check(t, vx.Prop{
		ID: "C03", Part: "TestVxC03Frames",
		Rule: "abstract request (kind x version 1..5 x stream over the full range x consistency x values with null/unset(v4+)/named(v3+) x boundary value counts up to 65537 x page size/paging state/serial/timestamp(now, explicit)/keyspace(v5) x tracing x custom payload(v4+) x snappy x batch entries x big statements) -> driver frame builder -> independent decoder; non-trivial = >= 2 optional parameters, or a value with a null/unset/named distinction, or a boundary count/length; distinct by the whole case",
		Draw: func(t *rapid.T) interface{} { return vxDrawC03(t) },
		New:  func() interface{} { return &vxC03Case{} },
		Run: func(ci interface{}, k *vstats.Case) error {
			c := ci.(*vxC03Case)
			if c.Version < 1 || c.Version > 5 {
				return nil
			}
			k.Class("kind=" + c.Kind)
			k.Class(fmt.Sprintf("v%d", c.Version))
			opt := 0
			for _, b := range []bool{c.SkipMeta, c.PageSize > 0, c.StateHex != nil, c.Serial > 0, c.DefTS, c.Keyspace != "", c.Tracing, len(c.Payload) > 0, c.Snappy} {
				if b {
					opt++
				}
			}
			dist := false
			for _, v := range c.Values {
				if v.Null || v.Unset || v.Name != "" {
					dist = true
				}
			}
			for _, e := range c.Entries {
				for _, v := range e.Values {
					if v.Null || v.Unset {
						dist = true
					}
				}
			}
			if opt >= 2 || dist || c.NValues > 0 || c.StmtLen > 0 {
				k.NonTrivial()
			}
			if c.NValues > 0 {
				k.Class(fmt.Sprintf("nvalues=%d", c.NValues))
			}
			var comp Compressor
			if c.Snappy {
				comp = SnappyCompressor{}
			}
			fr := newFramer(comp, byte(c.Version))
			if c.Tracing {
				fr.trace()
			}
			b := vxBuildC03(c)
			if b == nil {
				return nil
			}
			t0 := time.Now()
			var err error
			var pan interface{}
			func() {
				defer func() { pan = recover() }()
				err = b.buildFrame(fr, c.Stream)
			}()
			t1 := time.Now()
			if pan != nil {
				k.Class("refused-by-panic")
				return nil // nothing was sent; panics of builders are C05/C06 matter
			}
			if err != nil {
				k.Class("refused-by-error")
				return nil
			}
			why := vxExpressible(c)
			req, derr := cqlspec.DecodeRequest(fr.buf, func(b []byte) ([]byte, error) { return snappy.Decode(nil, b) })
			if derr != nil {
				if why != "" {
					return vx.Known("C03-count-overflow", "request with %s was built into a malformed frame: %v", why, derr)
				}
				return fmt.Errorf("%s v%d: frame % x... does not decode: %v", c.Kind, c.Version, fr.buf[:vxMinInt(len(fr.buf), 48)], derr)
			}
			if cerr := vxCompareC03(c, req, t0, t1); cerr != nil {
				if why != "" {
					return vx.Known("C03-count-overflow", "request with %s was sent as a different request: %v", why, cerr)
				}
				return fmt.Errorf("%s v%d: decoded request differs: %v", c.Kind, c.Version, cerr)
			}
			if why != "" {
				return fmt.Errorf("harness: inexpressible request (%s) decoded to itself", why)
			}
			k.Class("decoded-equal")
			return nil
		},
	})
}

func vxMinInt(a, b int) int {
	if a < b {
		return a
	}
	return b
}

var _ = sort.Strings
