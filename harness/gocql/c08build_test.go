//go:build verif && go1.21

package gocql

// C08 / C06, a request whose frame cannot be built: its stream id goes back to the allocator only after the
// request is no longer registered under it. The harness owns the schedule: the frame builder waits until the
// harness holds the connection's mutex, then fails; the failing request now has to stop at that mutex, and the
// harness looks at the allocator and the registered calls while it waits there.

import (
	"context"
	"errors"
	"fmt"
	"testing"
	"time"

	"pgregory.net/rapid"
	"verif.local/vnode"
	"verif.local/vstats"
	"verif.local/vx"
)

type vxC08BuildCase struct {
	Proto  int `json:"proto"`
	Others int `json:"others"` // requests in flight (unanswered) on the connection meanwhile
	Fails  int `json:"fails"`  // requests whose frame cannot be built, one after the other
}

type vxFailBuilder struct {
	entered chan struct{}
	proceed chan struct{}
}

func (b *vxFailBuilder) buildFrame(f *framer, streamID int) error {
	close(b.entered)
	<-b.proceed
	return errors.New("vx: this frame cannot be built")
}

func vxRunC08Build(c *vxC08BuildCase, k *vstats.Case) error {
	if c.Proto < 1 || c.Proto > 5 || c.Others < 0 || c.Others > 6 || c.Fails < 1 || c.Fails > 4 {
		return nil
	}
	total := 127
	if c.Proto >= 3 {
		total = 32767
	}
	cl := vnode.NewCluster(vxSpecs(1, 1))
	held := make(chan *vnode.ReqCtx, 16)
	cl.Nodes()[0].Handler = func(rc *vnode.ReqCtx) {
		if rc.Req.Kind == "QUERY" && rc.Req.Statement == "LIST held" {
			held <- rc
			return
		}
		rc.Reply(vxVoid())
	}
	s, err := vxClusterConfig(cl, c.Proto, nil).CreateSession()
	if err != nil {
		return fmt.Errorf("harness: CreateSession: %v", err)
	}
	defer s.Close()
	pcs := vxPoolConns(s)
	if len(pcs) != 1 {
		return fmt.Errorf("harness: %d pool connections", len(pcs))
	}
	pc := pcs[0]
	odone := make(chan error, c.Others)
	var hrcs []*vnode.ReqCtx
	for i := 0; i < c.Others; i++ {
		go func() { odone <- s.Query("LIST held").Exec() }()
		select {
		case rc := <-held:
			hrcs = append(hrcs, rc)
		case <-time.After(5 * time.Second):
			return fmt.Errorf("harness: a request did not reach the node")
		}
	}
	if av := pc.AvailableStreams(); av != total-c.Others {
		return fmt.Errorf("%d requests in flight: AvailableStreams() = %d, want %d", c.Others, av, total-c.Others)
	}
	for f := 0; f < c.Fails; f++ {
		b := &vxFailBuilder{entered: make(chan struct{}), proceed: make(chan struct{})}
		fdone := make(chan error, 1)
		go func() { _, err := pc.exec(context.Background(), b, nil); fdone <- err }()
		select {
		case <-b.entered:
		case <-time.After(5 * time.Second):
			return fmt.Errorf("harness: the frame builder was not called")
		}
		pc.mu.Lock()
		close(b.proceed)
		time.Sleep(3 * time.Millisecond) // the failing request runs up to the mutex
		av, registered := pc.AvailableStreams(), len(pc.calls)
		pc.mu.Unlock()
		select {
		case err := <-fdone:
			if err == nil {
				return fmt.Errorf("a request whose frame could not be built returned no error")
			}
		case <-time.After(5 * time.Second):
			return fmt.Errorf("a request whose frame could not be built did not return within 5 s (hang)")
		}
		// while the request was still registered its id was not to be had
		if registered == c.Others+1 && av != total-c.Others-1 {
			return fmt.Errorf("a request whose frame cannot be built is still registered under its stream id (%d calls registered, %d others in flight) while the allocator already offers that id again: AvailableStreams() = %d, want %d",
				registered, c.Others, av, total-c.Others-1)
		}
		if registered != c.Others+1 && registered != c.Others {
			return fmt.Errorf("harness: %d calls registered, %d others in flight", registered, c.Others)
		}
		if av2 := pc.AvailableStreams(); av2 != total-c.Others {
			return fmt.Errorf("after a request whose frame could not be built: AvailableStreams() = %d, want %d", av2, total-c.Others)
		}
	}
	for _, rc := range hrcs {
		rc.Reply(vxVoid())
	}
	for range hrcs {
		select {
		case err := <-odone:
			if err != nil {
				return fmt.Errorf("a request in flight beside the failing ones failed: %v", err)
			}
		case <-time.After(5 * time.Second):
			return fmt.Errorf("a request in flight beside the failing ones did not return within 5 s (hang)")
		}
	}
	if av := pc.AvailableStreams(); av != total {
		return fmt.Errorf("nothing in flight: AvailableStreams() = %d, want %d", av, total)
	}
	k.NonTrivial()
	k.Class(fmt.Sprintf("build failure beside %d in flight", c.Others))
	return nil
}

func TestVxC08BuildFailure(t *testing.T) {
	vx.Check(t, vx.Prop{
		ID: "C08", Part: "TestVxC08BuildFailure",
		Rule: "protocol 1..5, 0..6 requests in flight on one connection, 1..4 requests whose frame builder fails after the harness has taken the connection's mutex (so the failing request stops at that mutex and the harness sees the state in between); oracle: while the failing request is still registered under its id the allocator does not offer that id, afterwards every id but those in flight is available, the others get their answers and in the end all ids are available; every case is non-trivial; distinct by the case",
		Draw: func(t *rapid.T) interface{} {
			return &vxC08BuildCase{Proto: rapid.IntRange(1, 5).Draw(t, "proto"), Others: rapid.IntRange(0, 6).Draw(t, "others"), Fails: rapid.IntRange(1, 4).Draw(t, "fails")}
		},
		New: func() interface{} { return &vxC08BuildCase{} },
		Run: func(ci interface{}, k *vstats.Case) error { return vxRunC08Build(ci.(*vxC08BuildCase), k) },
	})
}
