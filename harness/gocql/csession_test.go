//go:build verif && go1.21

// Session-level parts of C18 (compression negotiation), C20 (authentication conversation) and
// C05 (any well-formed or mutated response at any step of the conversation). Public API only
// (ClusterConfig, PasswordAuthenticator, Compressor), against lib/vnode.
package gocql

import (
	"bytes"
	"context"
	"encoding/hex"
	"fmt"
	"strconv"
	"strings"
	"sync"
	"testing"
	"time"

	"pgregory.net/rapid"
	"verif.local/cqlspec"
	"verif.local/vnode"
	"verif.local/vstats"
	"verif.local/vx"
)

// ---- C18: compression is used only as negotiated -------------------------------------------------

type vxC18NegCase struct {
	Proto      int      `json:"proto"`
	Configured string   `json:"configured"` // "", "snappy", "lz4"
	Advertised []string `json:"advertised"` // COMPRESSION values in SUPPORTED; nil: key absent
	NoKey      bool     `json:"no_key"`
	Queries    int      `json:"queries"`
	BodyLen    int      `json:"body_len"`
	CompressResponses bool `json:"compress_responses"`
	CompressReady     bool `json:"compress_ready,omitempty"` // the answer to STARTUP itself is compressed (as Cassandra does once STARTUP named an algorithm)
	Stream0           bool `json:"stream0,omitempty"`        // the last request is answered with an ERROR on stream 0 (compressed like every response), as Cassandra reports protocol errors
}

func TestVxC18Negotiation(t *testing.T) {
	vx.Check(t, vx.Prop{
		ID: "C18", Part: "TestVxC18Negotiation",
		Rule: "configured compressor {none, snappy, lz4(independent codec behind the Compressor interface)} x SUPPORTED COMPRESSION {key absent, [], [snappy], [lz4], [lz4,snappy], [other], [SNAPPY]} x protocol 1..5 x responses compressed or not (the READY / AUTHENTICATE answering STARTUP included or not); 1..6 queries with statements of 0..3000 bytes; oracle at the node (independent decoder): OPTIONS and STARTUP never flagged; STARTUP carries COMPRESSION=name iff configured and advertised; every later request is flagged and compressed iff that, and decodes; queries succeed; an EVENT frame pushed by the node (compressed when responses are) is read and leaves every connection open; in half of the cases a last request is answered with an ERROR frame on stream 0 (compressed when responses are): the caller's error must carry the node's message; non-trivial = a configured compressor that is not advertised, or several advertised; distinct by the case",
		Draw: func(t *rapid.T) interface{} {
			c := &vxC18NegCase{Proto: rapid.IntRange(1, 5).Draw(t, "proto"), Configured: rapid.SampledFrom([]string{"", "snappy", "lz4"}).Draw(t, "conf"),
				Queries: rapid.IntRange(1, 6).Draw(t, "q"), BodyLen: rapid.SampledFrom([]int{0, 10, 300, 3000}).Draw(t, "len"), CompressResponses: rapid.Bool().Draw(t, "cresp"), CompressReady: rapid.Bool().Draw(t, "cready"),
				Stream0: rapid.Bool().Draw(t, "stream0")}
			switch rapid.IntRange(0, 7).Draw(t, "adv") {
			case 0:
				c.NoKey = true
			case 1:
				c.Advertised = []string{}
			case 2:
				c.Advertised = []string{"snappy"}
			case 3:
				c.Advertised = []string{"lz4"}
			case 4:
				c.Advertised = []string{"lz4", "snappy"}
			case 5:
				c.Advertised = []string{"deflate"}
			case 6:
				c.Advertised = []string{"SNAPPY", "Lz4"}
			default:
				c.Advertised = []string{"snappy", "lz4"}
			}
			return c
		},
		New: func() interface{} { return &vxC18NegCase{} },
		Run: func(ci interface{}, k *vstats.Case) error {
			c := ci.(*vxC18NegCase)
			if c.Proto < 1 || c.Proto > 5 {
				return nil
			}
			cl := vnode.NewCluster(vxSpecs(1, 1))
			node := cl.Nodes()[0]
			node.CompressResponses = c.CompressResponses
			node.CompressReady = c.CompressReady
			node.Supported = map[string][]string{"CQL_VERSION": {"3.4.4"}}
			if !c.NoKey {
				node.Supported["COMPRESSION"] = c.Advertised
			}
			var comp Compressor
			switch c.Configured {
			case "snappy":
				comp = SnappyCompressor{}
			case "lz4":
				comp = vxLZ4{}
			}
			expect := false
			for _, a := range c.Advertised {
				if c.Configured != "" && a == c.Configured && !c.NoKey {
					expect = true
				}
			}
			k.Class(fmt.Sprintf("configured=%s negotiated=%v", c.Configured, expect))
			const boomMsg = "vx: invalid or unsupported protocol version reported on stream zero"
			node.Handler = func(rc *vnode.ReqCtx) {
				if rc.Req.Kind == "QUERY" && rc.Req.Statement == "BOOM" {
					rc.Conn.Send(&cqlspec.Response{Kind: "ERROR", Version: c.Proto, Stream: 0, Code: cqlspec.ErrProtocol, Message: boomMsg})
					return
				}
				rc.Reply(vxVoid())
			}
			if (c.Configured != "" && !expect) || len(c.Advertised) > 1 {
				k.NonTrivial()
			}
			s, err := vxClusterConfig(cl, c.Proto, func(cfg *ClusterConfig) { cfg.Compressor = comp }).CreateSession()
			if err != nil {
				return fmt.Errorf("CreateSession with compressor %q against COMPRESSION=%v failed: %v", c.Configured, c.Advertised, err)
			}
			for i := 0; i < c.Queries; i++ {
				if err := s.Query("LIST " + strings.Repeat("x", c.BodyLen) + itoa(i)).Exec(); err != nil {
					s.Close()
					return fmt.Errorf("query %d failed (compressor %q, advertised %v, negotiated %v): %v", i, c.Configured, c.Advertised, expect, err)
				}
			}
			// a frame the server pushes (EVENT, stream -1) is compressed like any other response once compression
			// is negotiated: it must be read, not taken for garbage (the connection stays open)
			if c.Proto >= 2 {
				ev := &cqlspec.Response{EventType: "STATUS_CHANGE", Change: "UP", AddrHex: "0a000001", Port: 9042}
				if n := node.SendEvent(ev); n != 1 {
					s.Close()
					return fmt.Errorf("harness: %d registered connections, want 1", n)
				}
				if err := s.Query("LIST after-event").Exec(); err != nil {
					s.Close()
					return fmt.Errorf("query after a pushed EVENT frame failed: %v", err)
				}
				time.Sleep(2 * time.Millisecond)
				for _, sc := range node.Conns() {
					if sc.Client.Closed() {
						s.Close()
						return fmt.Errorf("the driver closed connection %d after the node pushed an EVENT frame (compression negotiated=%v, responses compressed=%v)", sc.ID, expect, c.CompressResponses)
					}
				}
				if expect && c.CompressResponses {
					k.Class("compressed EVENT pushed")
				}
			}
			if c.Stream0 {
				// a server reports errors it cannot attribute to a request on stream 0; such a frame is a response
				// like any other: compressed when responses are, and what it says must reach the caller
				err := s.Query("BOOM").Exec()
				if err == nil {
					s.Close()
					return fmt.Errorf("a request answered with an ERROR frame on stream 0 succeeded")
				}
				if !strings.Contains(err.Error(), boomMsg) {
					s.Close()
					return fmt.Errorf("the node reported %q in an ERROR frame on stream 0 (compression negotiated=%v, responses compressed=%v); the request in flight failed with %q, which does not say so", boomMsg, expect, c.CompressResponses, err.Error())
				}
				if expect && c.CompressResponses {
					k.Class("compressed ERROR on stream 0")
				}
			}
			s.Close()
			seen := 0
			for _, l := range cl.AllLogs() {
				if l.Err != "" {
					return fmt.Errorf("node could not decode a request (conn %d): %s", l.ConnID, l.Err)
				}
				flagged := l.Req.Header.Flags&cqlspec.FlagCompress != 0
				switch l.Req.Kind {
				case "OPTIONS":
					if flagged {
						return fmt.Errorf("OPTIONS frame carries the compression flag")
					}
				case "STARTUP":
					if flagged {
						return fmt.Errorf("STARTUP frame carries the compression flag")
					}
					got, has := l.Req.Options["COMPRESSION"]
					if has != expect || (expect && got != c.Configured) {
						return fmt.Errorf("STARTUP COMPRESSION=%q (present %v); configured %q, server advertised %v", got, has, c.Configured, c.Advertised)
					}
				default:
					seen++
					if flagged != expect {
						return fmt.Errorf("%s request flagged compressed=%v, negotiated=%v (configured %q, advertised %v)", l.Req.Kind, flagged, expect, c.Configured, c.Advertised)
					}
				}
			}
			if seen < c.Queries {
				return fmt.Errorf("only %d post-startup requests reached the node", seen)
			}
			return nil
		},
	})
}

// ---- C20: the authentication conversation ---------------------------------------------------------

type vxC20AuthCase struct {
	Proto     int      `json:"proto"`
	Class     string   `json:"class"`     // offered by the server in AUTHENTICATE
	Allowed   []string `json:"allowed"`   // PasswordAuthenticator.AllowedAuthenticators (nil: built-in list)
	HasAuth   bool     `json:"has_auth"`  // an Authenticator is configured
	Provider  bool     `json:"provider,omitempty"` // ... through ClusterConfig.AuthProvider (a function of the host) instead of ClusterConfig.Authenticator
	User      string   `json:"user"`
	Pass      string   `json:"pass"`
	FollowUp  string   `json:"follow_up"` // SUCCESS CHALLENGE ERROR
}

var vxApprovedClasses = []string{
	"org.apache.cassandra.auth.PasswordAuthenticator",
	"com.instaclustr.cassandra.auth.SharedSecretAuthenticator",
	"com.datastax.bdp.cassandra.auth.DseAuthenticator",
	"io.aiven.cassandra.auth.AivenAuthenticator",
	"com.ericsson.bss.cassandra.ecaudit.auth.AuditPasswordAuthenticator",
	"com.amazon.helenus.auth.HelenusAuthenticator",
	"com.ericsson.bss.cassandra.ecaudit.auth.AuditAuthenticator",
	"com.scylladb.auth.SaslauthdAuthenticator",
	"com.scylladb.auth.TransitionalAuthenticator",
	"com.instaclustr.cassandra.auth.InstaclustrPasswordAuthenticator",
}

func TestVxC20AuthSession(t *testing.T) {
	vx.Check(t, vx.Prop{
		ID: "C20", Part: "TestVxC20AuthSession",
		Rule: "protocol 1..5 (protocol 1 has no AUTH_RESPONSE: the handshake must fail and nothing the version does not define may be sent); server demands authentication with a class from the built-in approved list or a near-miss (case change, prefix, suffix, empty, look-alike); client with / without a PasswordAuthenticator (ClusterConfig.Authenticator, or handed out per host by ClusterConfig.AuthProvider) whose AllowedAuthenticators is nil or a custom list; user/password incl. empty, NUL, non-ASCII; server follow-up AUTH_SUCCESS / AUTH_CHALLENGE / ERROR; oracle at the node: an AUTH_RESPONSE is sent iff an authenticator is configured and the class is on the effective list, and its token is exactly 0x00 user 0x00 password; no authenticator or unapproved class => CreateSession fails and no credentials leave; CHALLENGE/ERROR => CreateSession fails (never a crash, never a session); non-trivial = near-miss class or unexpected follow-up; distinct by the case",
		Draw: func(t *rapid.T) interface{} {
			c := &vxC20AuthCase{Proto: rapid.IntRange(1, 5).Draw(t, "proto"), Provider: rapid.IntRange(0, 2).Draw(t, "provider") == 0, HasAuth: rapid.IntRange(0, 4).Draw(t, "hasauth") > 0,
				User: rapid.OneOf(rapid.Just("cassandra"), rapid.Just(""), rapid.String(), rapid.Just("a\x00b")).Draw(t, "user"),
				Pass: rapid.OneOf(rapid.Just("secret"), rapid.Just(""), rapid.String(), rapid.Just("pässwörd")).Draw(t, "pass"),
				FollowUp: rapid.SampledFrom([]string{"SUCCESS", "SUCCESS", "SUCCESS", "CHALLENGE", "ERROR"}).Draw(t, "follow")}
			base := rapid.SampledFrom(vxApprovedClasses).Draw(t, "base")
			switch rapid.IntRange(0, 8).Draw(t, "classmut") {
			case 0, 1, 2:
				c.Class = base
			case 3:
				c.Class = strings.ToLower(base)
			case 4:
				c.Class = base + "X"
			case 5:
				c.Class = "x." + base
			case 6:
				c.Class = ""
			case 7:
				c.Class = strings.Replace(base, "a", "а", 1) // cyrillic a
			default:
				c.Class = base[:len(base)-1]
			}
			if rapid.IntRange(0, 2).Draw(t, "custom") == 0 {
				c.Allowed = rapid.SliceOfN(rapid.SampledFrom([]string{"my.Auth", base, c.Class, "org.apache.cassandra.auth.PasswordAuthenticator"}), 1, 3).Draw(t, "allowed")
			}
			return c
		},
		New: func() interface{} { return &vxC20AuthCase{} },
		Run: func(ci interface{}, k *vstats.Case) error {
			c := ci.(*vxC20AuthCase)
			if c.Proto < 1 || c.Proto > 5 {
				return nil
			}
			effective := c.Allowed
			if len(effective) == 0 {
				effective = vxApprovedClasses
			}
			approved := false
			for _, a := range effective {
				if a == c.Class {
					approved = true
				}
			}
			onBuiltin := false
			for _, a := range vxApprovedClasses {
				if a == c.Class {
					onBuiltin = true
				}
			}
			if !onBuiltin || c.FollowUp != "SUCCESS" {
				k.NonTrivial()
			}
			k.Class(fmt.Sprintf("auth=%v approved=%v follow=%s", c.HasAuth, approved, c.FollowUp))
			cl := vnode.NewCluster(vxSpecs(1, 1))
			node := cl.Nodes()[0]
			node.AuthClass = c.Class
			node.RequireAuth = true
			node.Intercept = func(rc *vnode.ReqCtx) bool {
				if rc.Req.Kind != "AUTH_RESPONSE" {
					return false
				}
				switch c.FollowUp {
				case "CHALLENGE":
					tok := "6d6f7265"
					rc.Reply(&cqlspec.Response{Kind: "AUTH_CHALLENGE", TokenHex: &tok})
				case "ERROR":
					rc.Reply(&cqlspec.Response{Kind: "ERROR", Code: cqlspec.ErrCredentials, Message: "bad credentials"})
				default:
					return false
				}
				return true
			}
			done := make(chan struct{})
			var s *Session
			var err error
			go func() {
				defer close(done)
				s, err = vxClusterConfig(cl, c.Proto, func(cfg *ClusterConfig) {
					cfg.ConnectTimeout = 2 * time.Second
					cfg.Timeout = 2 * time.Second
					if c.HasAuth {
						pa := PasswordAuthenticator{Username: c.User, Password: c.Pass, AllowedAuthenticators: c.Allowed}
						if c.Provider {
							cfg.AuthProvider = func(h *HostInfo) (Authenticator, error) { return pa, nil }
						} else {
							cfg.Authenticator = pa
						}
					}
				}).CreateSession()
			}()
			select {
			case <-done:
			case <-time.After(20 * time.Second):
				return fmt.Errorf("CreateSession did not return within 20 s (class %q follow-up %s)", c.Class, c.FollowUp)
			}
			if s != nil {
				defer s.Close()
			}
			wantToken := append(append([]byte{0}, []byte(c.User)...), append([]byte{0}, []byte(c.Pass)...)...)
			sent := 0
			if c.Proto == 1 {
				// protocol 1 has no AUTH_RESPONSE (it authenticates with CREDENTIALS, which the driver does not speak):
				// the handshake must fail without any frame the version does not know
				k.Class("authentication demanded under protocol 1")
				for _, l := range cl.AllLogs() {
					if l.Err != "" {
						return fmt.Errorf("protocol 1, server demands authentication: a request frame that protocol 1 does not define reached the node: %s", l.Err)
					}
				}
				if err == nil {
					return fmt.Errorf("protocol 1, server demands authentication: a session was created")
				}
				return nil
			}
			for _, l := range cl.AllLogs() {
				if l.Err != "" {
					return fmt.Errorf("node could not decode a request: %s", l.Err)
				}
				if l.Req.Kind != "AUTH_RESPONSE" {
					continue
				}
				sent++
				if !c.HasAuth || !approved {
					return fmt.Errorf("credentials were sent in reply to authenticator class %q (authenticator configured %v, effective allowed list %q)", c.Class, c.HasAuth, effective)
				}
				if l.Req.Token == nil || !bytes.Equal(mustUnhex(*l.Req.Token), wantToken) {
					return fmt.Errorf("AUTH_RESPONSE token %v, want SASL PLAIN %x", l.Req.Token, wantToken)
				}
			}
			wantSession := c.HasAuth && approved && c.FollowUp == "SUCCESS"
			if wantSession {
				if err != nil {
					return fmt.Errorf("CreateSession failed although the server accepted the credentials (class %q): %v", c.Class, err)
				}
				if sent == 0 {
					return fmt.Errorf("session created without any AUTH_RESPONSE although the server demanded authentication")
				}
				return nil
			}
			if err == nil {
				return fmt.Errorf("a session was created although authentication did not succeed (authenticator %v, class %q approved %v, follow-up %s)", c.HasAuth, c.Class, approved, c.FollowUp)
			}
			if c.HasAuth && approved && sent == 0 {
				return fmt.Errorf("no AUTH_RESPONSE was sent for approved class %q: %v", c.Class, err)
			}
			return nil
		},
	})
}

func mustUnhex(s string) []byte {
	b, _ := hex.DecodeString(s)
	return b
}

// ---- C05 (c): any response at any step of the conversation ----------------------------------------

type vxC05ConvCase struct {
	Proto   int               `json:"proto"`
	Step    string            `json:"step"`  // which request gets the odd answer
	Resp    *cqlspec.Response `json:"resp"`  // the well-formed response sent instead (version/stream are overwritten)
	Mut     vxMut             `json:"mut"`   // optional mutation of its body
	Auth    bool              `json:"auth"`  // server demands authentication (reaches AUTH_RESPONSE)
	Nth     int               `json:"nth"`   // apply to the nth occurrence of that step (0 or 1)
	Obs     int               `json:"obs,omitempty"` // 1: StreamObserver whose StreamContext returns nil (documented as allowed); 2: all observers set (stream contexts returned)
}

// observers for the conversation part: they only have to be called without harm
type vxNilStreamObs struct{}

func (vxNilStreamObs) StreamContext(context.Context) StreamObserverContext { return nil }

type vxAllObs struct{}

func (vxAllObs) StreamContext(context.Context) StreamObserverContext    { return vxAllObs{} }
func (vxAllObs) StreamStarted(ObservedStream)                            {}
func (vxAllObs) StreamAbandoned(ObservedStream)                          {}
func (vxAllObs) StreamFinished(ObservedStream)                           {}
func (vxAllObs) ObserveQuery(context.Context, ObservedQuery)             {}
func (vxAllObs) ObserveBatch(context.Context, ObservedBatch)             {}
func (vxAllObs) ObserveConnect(ObservedConnect)                          {}
func (vxAllObs) ObserveFrameHeader(context.Context, ObservedFrameHeader) {}

var vxC05Steps = []string{"OPTIONS", "STARTUP", "AUTH_RESPONSE", "REGISTER", "system.local", "system.peers", "USE", "PREPARE", "EXECUTE", "BATCH", "QUERY", "HEARTBEAT", "EVENT", "EVENT"}

func vxStepOf(rc *vnode.ReqCtx) string {
	switch rc.Req.Kind {
	case "QUERY":
		q := strings.ToLower(rc.Req.Statement)
		switch {
		case strings.Contains(q, "system.local"):
			return "system.local"
		case strings.Contains(q, "system.peers"):
			return "system.peers"
		case strings.HasPrefix(q, "use "):
			return "USE"
		}
		return "QUERY"
	case "OPTIONS":
		if rc.Conn.Started {
			return "HEARTBEAT"
		}
		return "OPTIONS"
	}
	return rc.Req.Kind
}

func TestVxC05Conversation(t *testing.T) {
	vx.Check(t, vx.Prop{
		ID: "C05", Part: "TestVxC05Conversation",
		Rule: "a real session (protocol 1..5, with or without authentication, keyspace set; without observers, with a StreamObserver whose StreamContext returns nil, or with every observer of ClusterConfig set) whose node answers ONE step of the conversation (OPTIONS, STARTUP, AUTH_RESPONSE, REGISTER, system.local, system.peers, USE, PREPARE, EXECUTE, BATCH, QUERY, heartbeat OPTIONS; first or second occurrence) with a well-formed response of a drawn other kind (C04's generator) or a mutated body; then session creation, a plain query, a prepared query and a batch are attempted; oracle: every call returns within the watchdog with a value or an error, the process survives (no panic on driver goroutines); non-trivial = the odd response kind differs from the one the step expects; distinct by the case",
		Draw: func(t *rapid.T) interface{} {
			c := &vxC05ConvCase{Proto: rapid.IntRange(1, 5).Draw(t, "proto"), Step: rapid.SampledFrom(vxC05Steps).Draw(t, "step"),
				Auth: rapid.IntRange(0, 2).Draw(t, "auth") == 0, Nth: rapid.IntRange(0, 1).Draw(t, "nth"), Obs: rapid.SampledFrom([]int{0, 0, 1, 2}).Draw(t, "obs")}
			if c.Step == "AUTH_RESPONSE" {
				c.Auth = true
			}
			if c.Proto < 2 && (c.Auth || c.Step == "BATCH") {
				c.Proto = 2
			}
			for try := 0; try < 120; try++ {
				r := vxDrawResponse(t)
				if c.Step == "EVENT" && rapid.IntRange(0, 3).Draw(t, "realevent") > 0 && r.Kind != "EVENT" {
					continue // mostly real EVENT frames for the unsolicited-frame step
				}
				if r.Kind != "EVENT" || c.Step == "EVENT" {
					c.Resp = r
					break
				}
			}
			if c.Step == "EVENT" && c.Resp != nil {
				c.Resp.Stream = rapid.SampledFrom([]int{-1, -1, -1, 0, -2, 77}).Draw(t, "evstream")
			}
			if c.Resp == nil {
				c.Resp = &cqlspec.Response{Kind: "READY"}
			}
			c.Mut = vxMut{Kind: "none"}
			if rapid.IntRange(0, 2).Draw(t, "mutate") == 0 {
				c.Mut = vxDrawMut(t, true)
			}
			return c
		},
		New: func() interface{} { return &vxC05ConvCase{} },
		Run: func(ci interface{}, k *vstats.Case) error {
			c := ci.(*vxC05ConvCase)
			if c.Proto < 1 || c.Proto > 5 || c.Resp == nil {
				return nil
			}
			k.Class("step=" + c.Step)
			k.Class("resp=" + c.Resp.Kind)
			k.Class(fmt.Sprintf("observers=%d", c.Obs))
			k.NonTrivial()
			cl := vnode.NewCluster(vxSpecs(1, 1))
			node := cl.Nodes()[0]
			if c.Auth {
				node.AuthClass = "org.apache.cassandra.auth.PasswordAuthenticator"
			}
			node.Handler = vxBasicHandler
			seen := map[string]int{}
			fired := false
			var imu sync.Mutex // Intercept runs on every connection's reader goroutine
			node.Intercept = func(rc *vnode.ReqCtx) bool {
				step := vxStepOf(rc)
				imu.Lock()
				n := seen[step]
				seen[step]++
				if step != c.Step || n != c.Nth || fired {
					imu.Unlock()
					return false
				}
				fired = true
				imu.Unlock()
				r := *c.Resp
				r.Version = rc.Req.Header.Version
				r.Stream = rc.Req.Header.Stream
				r.Compress = false
				// the odd response must be encodable in this connection's version
				if r.Version < 4 {
					r.Warnings, r.HasPayload, r.Payload = nil, false, nil
				}
				body, fields := r.Body()
				body = vxApplyMut(body, fields, c.Mut)
				b, _ := r.FrameWithBody(body, nil)
				rc.Conn.SendRaw(b)
				return true
			}
			type outcome struct {
				what string
				err  error
			}
			done := make(chan []outcome, 1)
			go func() {
				var out []outcome
				s, err := vxClusterConfig(cl, c.Proto, func(cfg *ClusterConfig) {
					cfg.ConnectTimeout = 700 * time.Millisecond
					cfg.Timeout = 700 * time.Millisecond
					cfg.Keyspace = "ks1"
					if c.Auth {
						cfg.Authenticator = PasswordAuthenticator{Username: "u", Password: "p"}
					}
					switch c.Obs {
					case 1:
						cfg.StreamObserver = vxNilStreamObs{}
					case 2:
						cfg.StreamObserver, cfg.QueryObserver, cfg.BatchObserver = vxAllObs{}, vxAllObs{}, vxAllObs{}
						cfg.ConnectObserver, cfg.FrameHeaderObserver = vxAllObs{}, vxAllObs{}
					}
				}).CreateSession()
				out = append(out, outcome{"CreateSession", err})
				if s != nil && c.Step == "EVENT" {
					// unsolicited frames on every connection
					r := *c.Resp
					r.Version = c.Proto
					r.Compress = false
					if r.Version < 4 {
						r.Warnings, r.HasPayload, r.Payload = nil, false, nil
					}
					body, fields := r.Body()
					body = vxApplyMut(body, fields, c.Mut)
					b, _ := r.FrameWithBody(body, nil)
					for _, sc := range node.Conns() {
						sc.SendRaw(b)
					}
					imu.Lock()
					fired = true
					imu.Unlock()
					time.Sleep(3 * time.Millisecond)
				}
				if s != nil {
					out = append(out, outcome{"query", s.Query("LIST x").Exec()})
					var v int
					iter := s.Query("SELECT v FROM t WHERE k = ?", 1).Iter()
					iter.Scan(&v)
					out = append(out, outcome{"prepared query", iter.Close()})
					if c.Proto >= 2 {
						b := s.NewBatch(LoggedBatch)
						b.Query("INSERT INTO t (k) VALUES (?)", 1)
						out = append(out, outcome{"batch", s.ExecuteBatch(b)})
					}
					if c.Step == "HEARTBEAT" {
						time.Sleep(1200 * time.Millisecond) // first heartbeat fires 1 s after a connection is opened
						out = append(out, outcome{"query after heartbeat", s.Query("LIST y").Exec()})
					}
					s.Close()
				}
				done <- out
			}()
			select {
			case out := <-done:
				for _, o := range out {
					k.Class(fmt.Sprintf("%s:%s", o.what, vxShortErr(o.err)))
				}
				imu.Lock()
				if fired {
					k.Class("odd-response-delivered")
				}
				imu.Unlock()
				return nil
			case <-time.After(25 * time.Second):
				return fmt.Errorf("the calls did not return within 25 s after step %s (occurrence %d) was answered with %s (mutation %s):\n%s", c.Step, c.Nth, c.Resp.Kind, c.Mut.Kind, vxGoroutineDump())
			}
		},
	})
}

func vxShortErr(err error) string {
	if err == nil {
		return "ok"
	}
	return "error"
}

// ---- C04 through a real session --------------------------------------------------------------------

type vxC04SessCase struct {
	Resp     *cqlspec.Response `json:"resp"`
	Prepared bool              `json:"prepared"`
	NoSkip   bool              `json:"no_skip"` // cfg.DisableSkipMetadata
	Codec    string            `json:"codec"`
	Consumer int               `json:"consumer"`
	Batch    bool              `json:"batch,omitempty"` // the statement travels as a one-statement BATCH (a conditional batch is answered with rows)
	Stale    bool              `json:"stale,omitempty"` // the statement was prepared before the table got its last column: PREPARED describes one column less, the answer to EXECUTE carries the full metadata although the driver asked to skip it
	StaleOld bool              `json:"stale_old,omitempty"` // with Stale: the node behaves like Cassandra up to 4.x (CASSANDRA-10786) - it has prepared the statement again since the table changed, and answers an EXECUTE that asks to skip the metadata without it, with the new column count
	Again    int               `json:"again,omitempty"` // afterwards the same Query object is executed again through 1 Query.Scan, 2 Query.MapScan (first row or ErrNotFound)
}

type vxTracer struct{ ids [][]byte }

func (t *vxTracer) Trace(id []byte) { t.ids = append(t.ids, append([]byte{}, id...)) }

func TestVxC04Session(t *testing.T) {
	vx.Check(t, vx.Prop{
		ID: "C04", Part: "TestVxC04Session",
		Rule: "a real session (protocol 1..5, compression none/snappy/lz4) issues one statement, unprepared or prepared (skip-metadata on unless disabled: the node then answers EXECUTE without metadata), and the node answers with a generated ROWS / VOID / ERROR response (C04's generator: header flags, nested types, null cells, every error code); the caller's view through Iter (Columns, Scan/Scanner/MapScan/SliceMap, Warnings, GetCustomPayload, tracer callback, returned error type and fields) must equal the response; non-trivial as TestVxC04Responses or a prepared statement with skipped metadata; distinct by the case",
		Draw: func(t *rapid.T) interface{} {
			var r *cqlspec.Response
			for try := 0; try < 200; try++ {
				r = vxDrawResponse(t)
				if r.Kind == "ROWS" || r.Kind == "VOID" || r.Kind == "ERROR" {
					break
				}
			}
			return &vxC04SessCase{Resp: r, Prepared: rapid.Bool().Draw(t, "prepared"), NoSkip: rapid.IntRange(0, 3).Draw(t, "noskip") == 0,
				Codec: rapid.SampledFrom([]string{"", "", "snappy", "lz4"}).Draw(t, "codec"), Consumer: rapid.IntRange(0, 4).Draw(t, "consumer"),
				Batch: rapid.IntRange(0, 4).Draw(t, "batch") == 0, Again: rapid.SampledFrom([]int{0, 0, 1, 2}).Draw(t, "again"), Stale: rapid.IntRange(0, 5).Draw(t, "stale") == 0, StaleOld: rapid.Bool().Draw(t, "staleold")}
		},
		New: func() interface{} { return &vxC04SessCase{} },
		Run: func(ci interface{}, k *vstats.Case) error {
			c := ci.(*vxC04SessCase)
			r := c.Resp
			if r == nil || r.Version < 1 || r.Version > 5 || (r.Kind != "ROWS" && r.Kind != "VOID" && r.Kind != "ERROR") {
				return nil
			}
			if r.Kind == "ERROR" && r.Code == cqlspec.ErrUnprepared {
				return nil // makes the driver re-prepare and retry: C14's subject
			}
			// following pages is C15's subject: a response that announces more pages is requested with manual
			// paging (Query.PageState(nil): no automatic follow-up), and Iter.PageState() must be the state it carried
			manual := r.Kind == "ROWS" && r.Meta != nil && r.Meta.HasMore
			if manual {
				k.Class("has-more-pages (manual paging)")
			}
			k.Class("kind=" + r.Kind)
			k.Class(fmt.Sprintf("v%d prepared=%v", r.Version, c.Prepared))
			comp, _ := vxCodec(c.Codec)
			cl := vnode.NewCluster(vxSpecs(1, 1))
			node := cl.Nodes()[0]
			node.CompressResponses = true
			skipped, stale, reexec := false, false, false
			prepares := 0
			node.Handler = func(rc *vnode.ReqCtx) {
				switch rc.Req.Kind {
				case "PREPARE":
					prepares++
					rm := &cqlspec.Metadata{Columns: []cqlspec.Column{}}
					if r.Kind == "ROWS" {
						rm = &cqlspec.Metadata{Columns: r.Meta.Columns, GlobalSpec: r.Meta.GlobalSpec, Keyspace: r.Meta.Keyspace, Table: r.Meta.Table}
						if c.Stale && len(r.Meta.Columns) > 0 && !(c.StaleOld && prepares > 1) {
							rm.Columns = r.Meta.Columns[:len(r.Meta.Columns)-1]
						}
					}
					rc.Reply(&cqlspec.Response{Kind: "PREPARED", PreparedIDHex: "0102", Meta: &cqlspec.Metadata{Columns: []cqlspec.Column{}}, ResultMeta: rm})
				case "EXECUTE", "QUERY", "BATCH":
					out := *r
					if r.Kind == "ROWS" && rc.Req.Kind == "EXECUTE" && rc.Req.Params.SkipMeta && c.Stale && c.StaleOld && len(r.Meta.Columns) > 0 {
						// the statement was prepared again (by somebody else) after the table changed; this client's
						// description is one column short, and nothing in the answer says so but the column count
						m := *r.Meta
						m.NoMetadata = true
						out.Meta = &m
						stale = true
						reexec = true // the driver forgets its description and executes the SELECT once more
					} else if r.Kind == "ROWS" && rc.Req.Kind == "EXECUTE" && rc.Req.Params.SkipMeta && c.Stale && len(r.Meta.Columns) > 0 {
						stale = true // the node knows the table has changed: it sends the metadata of these rows
					} else if r.Kind == "ROWS" && rc.Req.Kind == "EXECUTE" && rc.Req.Params.SkipMeta {
						m := *r.Meta
						m.NoMetadata = true
						out.Meta = &m
						skipped = true
					}
					rc.Reply(&out)
				default:
					rc.Reply(vxVoid())
				}
			}
			s, err := vxClusterConfig(cl, r.Version, func(cfg *ClusterConfig) {
				cfg.Compressor = comp
				cfg.DisableSkipMetadata = c.NoSkip
			}).CreateSession()
			if err != nil {
				return fmt.Errorf("harness: CreateSession: %v", err)
			}
			defer s.Close()
			stmt := "LIST something"
			if c.Prepared {
				stmt = "SELECT * FROM t"
			}
			q := s.Query(stmt)
			tr := &vxTracer{}
			if r.TraceHex != "" {
				q = q.Trace(tr)
			}
			if manual {
				q = q.PageState(nil)
			}
			var iter *Iter
			if c.Batch && r.Version >= 2 && !manual {
				// Session.executeBatch is what ExecuteBatch / ExecuteBatchCAS / MapExecuteBatchCAS consume
				k.Class("as-batch")
				b := s.NewBatch(LoggedBatch)
				b.Query(stmt)
				if r.TraceHex != "" {
					b.Trace(tr)
				}
				iter = s.executeBatch(b)
			} else {
				iter = q.Iter()
			}
			nt := r.TraceHex != "" || r.Warnings != nil || r.HasPayload || comp != nil
			defer func() {
				if skipped {
					k.Class("metadata-skipped")
				}
				if stale {
					k.Class("metadata sent although skipping was asked (statement prepared before the last column existed)")
				}
				if nt || skipped {
					k.NonTrivial()
				}
			}()
			if r.TraceHex != "" {
				wantCalls := 1
				if reexec {
					wantCalls = 2 // two executions on the server, each traced
				}
				if len(tr.ids) != wantCalls || hex.EncodeToString(tr.ids[0]) != r.TraceHex || hex.EncodeToString(tr.ids[len(tr.ids)-1]) != r.TraceHex {
					return fmt.Errorf("tracer got %x, want %d call(s) with %s", tr.ids, wantCalls, r.TraceHex)
				}
			}
			switch r.Kind {
			case "ERROR":
				err := iter.Close()
				if err == nil {
					return fmt.Errorf("ERROR %#x response surfaced as success", r.Code)
				}
				f, ok := err.(frame)
				if !ok {
					return fmt.Errorf("ERROR %#x surfaced as %T %v, not the decoded error frame", r.Code, err, err)
				}
				rr := *r
				rr.Stream = f.Header().stream // the node answers on the request's stream
				return vxCheckFrameKind(f, &rr)
			case "VOID":
				if r.Warnings != nil && !reflectDeepEqualStrs(iter.Warnings(), r.Warnings) {
					return fmt.Errorf("Warnings() = %q, want %q", iter.Warnings(), r.Warnings)
				}
				if r.HasPayload && len(iter.GetCustomPayload()) != len(r.Payload) {
					return fmt.Errorf("GetCustomPayload() = %v, want %v", iter.GetCustomPayload(), r.Payload)
				}
				var x int
				if iter.NumRows() != 0 || iter.Scan(&x) {
					return fmt.Errorf("VOID result has rows")
				}
				if err := iter.Close(); err != nil {
					return fmt.Errorf("VOID result: Close: %v", err)
				}
				return nil
			}
			for _, col := range r.Meta.Columns {
				if col.Type.Depth() >= 2 || col.Type.Kind == cqlspec.Tuple {
					nt = true
				}
			}
			if r.HasPayload {
				for key, v := range r.Payload {
					g, ok := iter.GetCustomPayload()[key]
					if !ok || (v == "null") != (g == nil) || (v != "null" && hex.EncodeToString(g) != v) {
						return fmt.Errorf("custom payload key %q is %x (present %v), want %s", key, g, ok, v)
					}
				}
			}
			if err := vxConsumeRows(iter, r, c.Consumer, k); err != nil {
				return fmt.Errorf("ROWS v%d prepared=%v skipped=%v (%d cols, %d rows, consumer %d): %v", r.Version, c.Prepared, skipped, len(r.Meta.Columns), len(r.Rows), c.Consumer, err)
			}
			// the one-row conveniences, on the Query object that was executed already
			names := map[string]bool{}
			for _, col := range r.Meta.Columns {
				names[col.Name] = true
			}
			switch {
			case c.Again == 1 || (c.Again == 2 && (vxHasOpaqueColumn(r.Meta) || len(names) != len(r.Meta.Columns))):
				k.Class("again: Query.Scan")
				dests := vxRowHolders(r.Meta)
				err := q.Scan(vxDestArgs(dests)...)
				if len(r.Rows) == 0 {
					if err != ErrNotFound {
						return fmt.Errorf("Query.Scan over a result without rows returned %v, want ErrNotFound", err)
					}
					return nil
				}
				if err != nil {
					return fmt.Errorf("Query.Scan: %v", err)
				}
				if err := vxCmpDestRow(r, 0, dests); err != nil {
					return fmt.Errorf("Query.Scan (%d cols, %d rows): %v", len(r.Meta.Columns), len(r.Rows), err)
				}
			case c.Again == 2:
				k.Class("again: Query.MapScan")
				m := map[string]interface{}{}
				err := q.MapScan(m)
				if len(r.Rows) == 0 {
					if err != ErrNotFound {
						return fmt.Errorf("Query.MapScan over a result without rows returned %v, want ErrNotFound", err)
					}
					return nil
				}
				if err != nil {
					return fmt.Errorf("Query.MapScan: %v", err)
				}
				if err := vxCmpMapRow(r, 0, m); err != nil {
					return fmt.Errorf("Query.MapScan (%d cols, %d rows): %v", len(r.Meta.Columns), len(r.Rows), err)
				}
			}
			return nil
		},
	})
}

func reflectDeepEqualStrs(a, b []string) bool {
	if len(a) != len(b) {
		return false
	}
	for i := range a {
		if a[i] != b[i] {
			return false
		}
	}
	return true
}

// ---- C03 through a real session --------------------------------------------------------------------

type vxC03Bind struct {
	Kind int    `json:"kind"` // 0 int, 1 text, 2 nil, 3 unset (v4+)
	Int  int32  `json:"int,omitempty"`
	Text string `json:"text,omitempty"`
}

type vxC03SessCase struct {
	Proto    int                 `json:"proto"`
	Snappy   bool                `json:"snappy"`
	Keyspace bool                `json:"keyspace"`
	Kind     string              `json:"kind"` // query prepared batch
	Cons     int                 `json:"cons"`
	PageSize int                 `json:"page_size"` // -1: leave the session default (5000)
	StateHex string              `json:"state,omitempty"`
	Serial   int                 `json:"serial,omitempty"`
	TSMode   int                 `json:"ts_mode"` // 0 session default (enabled, "now"), 1 explicit value, 2 disabled
	TS       int64               `json:"ts,omitempty"`
	Trace    bool                `json:"trace,omitempty"`
	Payload  map[string]string   `json:"payload,omitempty"`
	EmptyPL  bool                `json:"empty_payload,omitempty"`
	Advert   []string            `json:"advertised,omitempty"` // COMPRESSION values the server advertises (nil: snappy and lz4)
	NoSkip   bool                `json:"no_skip,omitempty"`
	ResCols  bool                `json:"res_cols,omitempty"` // the PREPARED answer describes a result column (else: empty result metadata, as for an INSERT or a conditional update)
	Named    bool                `json:"named,omitempty"`
	Binds    []vxC03Bind         `json:"binds,omitempty"`   // prepared
	BatchTyp int                 `json:"batch_type,omitempty"`
	Entries  [][]vxC03Bind       `json:"entries,omitempty"` // batch: per entry its binds (none: plain text entry)
	// cluster-wide defaults instead of per-statement options
	CfgNoTS   bool   `json:"cfg_no_ts,omitempty"`   // ClusterConfig.DefaultTimestamp = false
	CfgSerial int    `json:"cfg_serial,omitempty"`  // ClusterConfig.SerialConsistency (8 serial, 9 local serial)
	CfgCQL    string `json:"cfg_cql,omitempty"`     // ClusterConfig.CQLVersion (STARTUP's CQL_VERSION)
	ConsVia   int    `json:"cons_via,omitempty"`    // 0 on the statement, 1 ClusterConfig.Consistency, 2 Session.SetConsistency
	Twice     bool   `json:"twice,omitempty"`       // the same Query / Batch object is executed a second time: the same request must go out again
	Released  bool   `json:"released,omitempty"`    // before the statement is built, another Query with every option set otherwise was released into the driver's pool of Query objects
	Layout    int    `json:"layout,omitempty"`      // how the prepared statement's text is laid out: 0 one line, 1 keyword followed by a newline, 2 tabs, 3 leading white space and lower case, 4 mixed case with a trailing newline
}

func vxDrawBinds(t *rapid.T, proto int, min int) []vxC03Bind {
	n := rapid.IntRange(min, 4).Draw(t, "nbind")
	var out []vxC03Bind
	for i := 0; i < n; i++ {
		b := vxC03Bind{Kind: rapid.IntRange(0, 3).Draw(t, "bkind")}
		if b.Kind == 3 && proto < 4 && rapid.IntRange(0, 5).Draw(t, "unset_old") != 0 {
			b.Kind = 2 // (else: "not set" below protocol 4, which has no such thing - the driver must refuse)
		}
		b.Int = int32(rapid.Int32().Draw(t, "bint"))
		b.Text = rapid.String().Draw(t, "btext")
		out = append(out, b)
	}
	return out
}

func vxBindArgs(binds []vxC03Bind, named bool) ([]interface{}, []cqlspec.ReqValue) {
	var args []interface{}
	var exp []cqlspec.ReqValue
	for i, b := range binds {
		var a interface{}
		var e cqlspec.ReqValue
		switch {
		case b.Kind == 2:
			a, e = nil, cqlspec.ReqValue{Null: true}
		case b.Kind == 3:
			a, e = UnsetValue, cqlspec.ReqValue{Unset: true}
		case i%2 == 0: // even bind columns are int, odd ones text (see the node's PREPARED answer)
			a, e = b.Int, cqlspec.ReqValue{Hex: hex.EncodeToString([]byte{byte(b.Int >> 24), byte(b.Int >> 16), byte(b.Int >> 8), byte(b.Int)})}
		default:
			a, e = b.Text, cqlspec.ReqValue{Hex: hex.EncodeToString([]byte(b.Text))}
		}
		if named {
			name := "n" + itoa(i)
			a = NamedValue(name, a)
			e.Name = name
		}
		args = append(args, a)
		exp = append(exp, e)
	}
	return args, exp
}

func TestVxC03Session(t *testing.T) {
	vx.Check(t, vx.Prop{
		ID: "C03", Part: "TestVxC03Session",
		Rule: "a real session (protocol 1..5, snappy or none, keyspace or none) executes one request through the public API: an unprepared query, a prepared query (statement text on one line, with newlines or tabs after the keywords, with leading white space, in lower or mixed case) with 1..4 bound values (int / text / nil / UnsetValue(v4+), optionally NamedValue(v3+)) or a batch (type, 0..3 entries with 0..4 values); options drawn: consistency (on the statement, ClusterConfig.Consistency or Session.SetConsistency), page size (set / default / 0), paging state, serial consistency (statement or ClusterConfig.SerialConsistency), timestamp (default now / explicit / disabled, ClusterConfig.DefaultTimestamp on or off), ClusterConfig.CQLVersion (STARTUP), tracing, custom payload (v4+), NoSkipMetadata, PREPARED with or without result columns (skip_metadata may be asked for only with); in a quarter of the cases the same Query / Batch object is executed twice; every frame the node received is decoded by lib/cqlspec and compared with what was asked; non-trivial = >= 2 options or a null/unset/named value; distinct by the case",
		Draw: func(t *rapid.T) interface{} {
			c := &vxC03SessCase{Proto: rapid.IntRange(1, 5).Draw(t, "proto"), Snappy: rapid.Bool().Draw(t, "snappy"), Keyspace: rapid.Bool().Draw(t, "ks"),
				Kind: rapid.SampledFrom([]string{"query", "prepared", "prepared", "batch"}).Draw(t, "kind"),
				Cons: rapid.IntRange(0, 10).Draw(t, "cons"), PageSize: rapid.SampledFrom([]int{-1, -1, 0, 1, 77, 100000}).Draw(t, "pagesize"),
				Serial: rapid.SampledFrom([]int{0, 0, 8, 9}).Draw(t, "serial"), TSMode: rapid.IntRange(0, 2).Draw(t, "tsmode"),
				TS: rapid.OneOf(rapid.Int64(), rapid.Just(int64(-5)), rapid.Just(int64(1))).Draw(t, "ts"), Trace: rapid.IntRange(0, 3).Draw(t, "trace") == 0,
				NoSkip: rapid.IntRange(0, 3).Draw(t, "noskip") == 0, ResCols: rapid.Bool().Draw(t, "rescols")}
			if c.TS == 0 {
				c.TS = 7
			}
			c.CfgNoTS = rapid.IntRange(0, 3).Draw(t, "cfg_no_ts") == 0
			c.CfgSerial = rapid.SampledFrom([]int{0, 0, 8, 9}).Draw(t, "cfg_serial")
			c.CfgCQL = rapid.SampledFrom([]string{"", "", "3.4.4", "3.0.0", "4.0.0-beta"}).Draw(t, "cfg_cql")
			c.ConsVia = rapid.SampledFrom([]int{0, 0, 1, 2}).Draw(t, "cons_via")
			c.Twice = rapid.IntRange(0, 3).Draw(t, "twice") == 0
			c.Released = rapid.IntRange(0, 2).Draw(t, "released") == 0
			c.Layout = rapid.SampledFrom([]int{0, 0, 0, 1, 2, 3, 4, 5, 6}).Draw(t, "layout")
			if c.Kind == "batch" && c.Proto < 2 {
				c.Proto = 2
			}
			if rapid.IntRange(0, 2).Draw(t, "state") == 0 {
				c.StateHex = hex.EncodeToString(vxDrawBytes(t, 20))
			}
			if c.Proto >= 4 && rapid.IntRange(0, 3).Draw(t, "payload") == 0 {
				c.Payload = map[string]string{rapid.StringMatching(`[a-z]{1,6}`).Draw(t, "pk"): hex.EncodeToString(vxDrawBytes(t, 10))}
			} else if c.Proto >= 4 && rapid.IntRange(0, 5).Draw(t, "emptypl") == 0 {
				c.EmptyPL = true
			}
			switch rapid.IntRange(0, 5).Draw(t, "advert") {
			case 0:
				c.Advert = []string{"lz4"}
			case 1:
				c.Advert = []string{"deflate", "lz4"}
			case 2:
				c.Advert = []string{"snappy"}
			case 3:
				c.Advert = []string{"-"} // SUPPORTED without any COMPRESSION entry
			}
			switch c.Kind {
			case "prepared":
				c.Binds = vxDrawBinds(t, c.Proto, 1)
				c.Named = c.Proto >= 3 && rapid.IntRange(0, 3).Draw(t, "named") == 0
			case "batch":
				c.BatchTyp = rapid.IntRange(0, 2).Draw(t, "btype")
				for i := rapid.IntRange(0, 3).Draw(t, "nentries"); i > 0; i-- {
					c.Entries = append(c.Entries, vxDrawBinds(t, c.Proto, 0))
				}
			}
			return c
		},
		New: func() interface{} { return &vxC03SessCase{} },
		Run: func(ci interface{}, k *vstats.Case) error {
			c := ci.(*vxC03SessCase)
			if c.Proto < 1 || c.Proto > 5 || (c.Kind == "batch" && c.Proto < 2) {
				return nil
			}
			cl := vnode.NewCluster(vxSpecs(1, 1))
			node := cl.Nodes()[0]
			ids := map[string]string{} // statement -> id hex
			node.Handler = func(rc *vnode.ReqCtx) {
				if rc.Req.Kind == "PREPARE" {
					var bind []cqlspec.Column
					n := strings.Count(rc.Req.Statement, "?")
					for i := 0; i < n; i++ {
						ty := cqlspec.Scalar(cqlspec.Int)
						if i%2 == 1 {
							ty = cqlspec.Scalar(cqlspec.Varchar)
						}
						bind = append(bind, cqlspec.Column{Keyspace: "ks1", Table: "t", Name: "n" + itoa(i), Type: ty})
					}
					if bind == nil {
						bind = []cqlspec.Column{}
					}
					id := hex.EncodeToString([]byte("id:" + rc.Req.Statement))
					ids[rc.Req.Statement] = id
					rm := &cqlspec.Metadata{NoMetadata: true, Columns: []cqlspec.Column{}}
					if c.ResCols {
						rm = &cqlspec.Metadata{Columns: []cqlspec.Column{{Keyspace: "ks1", Table: "t", Name: "r", Type: cqlspec.Scalar(cqlspec.Int)}}}
					}
					rc.Reply(&cqlspec.Response{Kind: "PREPARED", PreparedIDHex: id, Meta: &cqlspec.Metadata{Columns: bind}, ResultMeta: rm})
					return
				}
				if rc.Req.Header.Flags&cqlspec.FlagTracing != 0 {
					rc.Reply(&cqlspec.Response{Kind: "VOID", TraceHex: "000102030405060708090a0b0c0d0e0f"})
					return
				}
				rc.Reply(vxVoid())
			}
			var comp Compressor
			if c.Snappy {
				comp = SnappyCompressor{}
			}
			negotiated := c.Snappy
			if len(c.Advert) == 1 && c.Advert[0] == "-" {
				node.Supported = map[string][]string{"CQL_VERSION": {"3.4.4"}}
				negotiated = false
			} else if c.Advert != nil {
				node.Supported = map[string][]string{"CQL_VERSION": {"3.4.4"}, "COMPRESSION": c.Advert}
				negotiated = false
				for _, a := range c.Advert {
					if a == "snappy" && c.Snappy {
						negotiated = true
					}
				}
			}
			s, err := vxClusterConfig(cl, c.Proto, func(cfg *ClusterConfig) {
				cfg.Compressor = comp
				if c.Keyspace {
					cfg.Keyspace = "ks1"
				}
				cfg.DefaultTimestamp = !c.CfgNoTS
				if c.CfgSerial > 0 {
					cfg.SerialConsistency = SerialConsistency(c.CfgSerial)
				}
				if c.CfgCQL != "" {
					cfg.CQLVersion = c.CfgCQL
				}
				if c.ConsVia == 1 {
					cfg.Consistency = Consistency(c.Cons)
				}
			}).CreateSession()
			if err != nil {
				return fmt.Errorf("harness: CreateSession: %v", err)
			}
			defer s.Close()
			if c.ConsVia == 2 {
				s.SetConsistency(Consistency(c.Cons))
			}
			exp := &vxC03Case{Version: c.Proto, Snappy: negotiated, Tracing: c.Trace, Payload: c.Payload, Cons: c.Cons, Serial: c.Serial}
			if c.Serial == 0 {
				exp.Serial = c.CfgSerial // the cluster-wide default applies when the statement does not choose
			}
			if c.Proto >= 5 && c.Keyspace {
				exp.Keyspace = "ks1"
			}
			switch c.TSMode {
			case 0:
				exp.DefTS = !c.CfgNoTS // the cluster-wide default
			case 1:
				exp.DefTS, exp.TS = true, c.TS
			}
			pay := vxPayloadBytes(c.Payload)
			if c.EmptyPL && pay == nil {
				pay = map[string][]byte{}
			}
			tr := &vxTracer{}
			stmtQ := "LIST q"
			placeholders := func(n int) string {
				conds := strings.TrimSuffix(strings.Repeat("c = ? AND ", n), " AND ")
				switch c.Layout {
				case 1:
					return "SELECT\n    a\nFROM t\nWHERE " + conds
				case 2:
					return "SELECT\ta\tFROM\tt\tWHERE " + conds
				case 3:
					return "  \n\tselect a from t where " + conds
				case 4:
					return "Select a From t Where " + conds + "\n"
				case 5:
					return "SELECT* FROM t WHERE " + conds // valid CQL that the driver's DML test does not recognise
				case 6:
					return "/* by id */ SELECT a FROM t WHERE " + conds
				}
				return "SELECT a FROM t WHERE " + conds
			}
			if c.Released {
				// Query objects are pooled: what a released one was told must not reach the next statement
				k.Class("after a released Query")
				for i := 0; i < 3; i++ {
					dq := s.Query("LIST other", 1, "two").Consistency(All).PageSize(7).PageState([]byte{9, 9}).SerialConsistency(LocalSerial).
						WithTimestamp(99).DefaultTimestamp(true).Idempotent(true).RetryPolicy(&SimpleRetryPolicy{NumRetries: 3}).Trace(&vxTracer{}).
						CustomPayload(map[string][]byte{"other": {1}}).RoutingKey([]byte("rk")).Prefetch(0.9).NoSkipMetadata()
					dq.Release()
				}
			}
			t0 := time.Now()
			var execErr error
			wantKind := ""
			switch c.Kind {
			case "query", "prepared":
				stmt := stmtQ
				var args []interface{}
				if c.Kind == "prepared" {
					stmt = placeholders(len(c.Binds))
					var ev []cqlspec.ReqValue
					args, ev = vxBindArgs(c.Binds, c.Named)
					exp.Values = ev
					exp.Kind, wantKind = "EXECUTE", "EXECUTE"
					// the metadata of the rows may be left out only if the PREPARED answer described them
					exp.SkipMeta = !c.NoSkip && c.Proto > 1 && c.ResCols
				} else {
					exp.Kind, wantKind, exp.Stmt = "QUERY", "QUERY", stmt
				}
				q := s.Query(stmt, args...)
				if c.ConsVia == 0 {
					q = q.Consistency(Consistency(c.Cons))
				}
				exp.PageSize = 5000
				if c.PageSize >= 0 {
					q = q.PageSize(c.PageSize)
					exp.PageSize = c.PageSize
				}
				if c.StateHex != "" {
					q = q.PageState(mustUnhex(c.StateHex))
					st := c.StateHex
					exp.StateHex = &st
				}
				if c.Serial > 0 {
					q = q.SerialConsistency(SerialConsistency(c.Serial))
				}
				switch c.TSMode {
				case 1:
					q = q.WithTimestamp(c.TS)
				case 2:
					q = q.DefaultTimestamp(false)
				}
				if c.Trace {
					q = q.Trace(tr)
				}
				if pay != nil {
					q = q.CustomPayload(pay)
				}
				if c.NoSkip {
					q = q.NoSkipMetadata()
				}
				execErr = q.Exec()
				if c.Twice && execErr == nil {
					execErr = q.Exec()
				}
				if c.Kind == "prepared" {
					exp.IDHex = ids[stmt]
				}
			case "batch":
				b := s.NewBatch(BatchType(c.BatchTyp))
				if c.ConsVia == 0 {
					b.SetConsistency(Consistency(c.Cons))
				}
				exp.Kind, wantKind, exp.BatchTyp = "BATCH", "BATCH", c.BatchTyp
				type ent struct {
					stmt string
					n    int
				}
				var ents []ent
				for i, binds := range c.Entries {
					if len(binds) == 0 {
						st := "INSERT INTO t (a) VALUES (" + itoa(i) + ")"
						b.Query(st)
						exp.Entries = append(exp.Entries, cqlspec.BatchEntry{Statement: st})
						continue
					}
					st := "INSERT INTO t" + itoa(i) + " (a) VALUES (" + strings.TrimSuffix(strings.Repeat("?, ", len(binds)), ", ") + ")"
					args, ev := vxBindArgs(binds, false)
					b.Query(st, args...)
					ents = append(ents, ent{st, len(exp.Entries)})
					exp.Entries = append(exp.Entries, cqlspec.BatchEntry{Prepared: true, Values: ev})
				}
				if c.Serial > 0 {
					b.SerialConsistency(SerialConsistency(c.Serial))
				}
				switch c.TSMode {
				case 1:
					b.WithTimestamp(c.TS)
				case 2:
					b.DefaultTimestamp(false)
				}
				if c.Trace {
					b.Trace(tr)
				}
				if pay != nil {
					b.CustomPayload = pay
				}
				execErr = s.ExecuteBatch(b)
				if c.Twice && execErr == nil {
					execErr = s.ExecuteBatch(b)
				}
				for _, e := range ents {
					exp.Entries[e.n].IDHex = ids[e.stmt]
				}
			}
			t1 := time.Now()
			// what cannot be said in the negotiated version, or cannot be sent with its values, is refused - not sent in
			// another form: "not set" below protocol 4; values for a statement the driver does not prepare
			refuse := ""
			if c.Kind == "prepared" || c.Kind == "batch" {
				all := [][]vxC03Bind{c.Binds}
				if c.Kind == "batch" {
					all = c.Entries
				}
				for _, bs := range all {
					for _, b := range bs {
						if b.Kind == 3 && c.Proto < 4 {
							refuse = "a value that is \"not set\" under protocol " + itoa(c.Proto)
						}
					}
				}
			}
			if c.Kind == "prepared" && c.Layout >= 5 && len(c.Binds) > 0 && refuse == "" {
				refuse = "values for a statement the driver does not prepare"
			}
			if refuse != "" {
				k.Class("refused: " + refuse)
				if execErr == nil {
					return fmt.Errorf("%s with %s succeeded", c.Kind, refuse)
				}
				for _, l := range cl.AllLogs() {
					if l.Req != nil && (l.Req.Kind == "EXECUTE" || l.Req.Kind == "BATCH" || (l.Req.Kind == "QUERY" && strings.Contains(l.Req.Statement, " t WHERE "))) {
						return fmt.Errorf("%s with %s was refused (%v) and still a %s request reached the node", c.Kind, refuse, execErr, l.Req.Kind)
					}
					if h, _, herr := cqlspec.ParseHeader(l.Raw); l.Req == nil && herr == nil && (h.Op == cqlspec.OpExecute || h.Op == cqlspec.OpBatch) {
						return fmt.Errorf("%s with %s: a request frame the specification's decoder rejects (%s) reached the node; the caller got %v", c.Kind, refuse, l.Err, execErr)
					}
				}
				return nil
			}
			if execErr != nil {
				return fmt.Errorf("%s failed: %v", c.Kind, execErr)
			}
			opt := 0
			for _, b := range []bool{c.PageSize >= 0, c.StateHex != "", c.Serial > 0, c.TSMode != 0, c.Trace, c.Payload != nil, c.NoSkip, c.Snappy, c.Keyspace} {
				if b {
					opt++
				}
			}
			k.Class(fmt.Sprintf("v%d %s", c.Proto, c.Kind))
			if opt >= 2 || c.Named {
				k.NonTrivial()
			}
			var gots []*cqlspec.Request
			maxStream := 127
			if c.Proto >= 3 {
				maxStream = 32767
			}
			for _, l := range cl.AllLogs() {
				if l.Err != "" {
					return fmt.Errorf("node could not decode a request: %s", l.Err)
				}
				if l.Req.Header.Version != c.Proto {
					return fmt.Errorf("%s frame with version %d on a v%d session", l.Req.Kind, l.Req.Header.Version, c.Proto)
				}
				if l.Req.Header.Stream < 0 || l.Req.Header.Stream > maxStream {
					return fmt.Errorf("%s frame with stream id %d", l.Req.Kind, l.Req.Header.Stream)
				}
				if l.Req.Kind == "STARTUP" {
					wantCQL := c.CfgCQL
					if wantCQL == "" {
						wantCQL = "3.0.0" // NewCluster's documented default
					}
					if got := l.Req.Options["CQL_VERSION"]; got != wantCQL {
						return fmt.Errorf("STARTUP carries CQL_VERSION=%q, ClusterConfig.CQLVersion is %q", got, wantCQL)
					}
				}
				if l.Req.Kind == wantKind && !(wantKind == "QUERY" && l.Req.Statement != stmtQ) {
					gots = append(gots, l.Req)
				}
			}
			wantN := 1
			if c.Twice {
				wantN = 2
				k.Class("executed twice")
			}
			if len(gots) != wantN {
				return fmt.Errorf("%d %s requests reached the node, the statement was executed %d time(s)", len(gots), wantKind, wantN)
			}
			if c.Trace && (len(tr.ids) != wantN || hex.EncodeToString(tr.ids[0]) != "000102030405060708090a0b0c0d0e0f") {
				return fmt.Errorf("tracer got %x", tr.ids)
			}
			for i, got := range gots {
				exp.Stream = got.Header.Stream
				if err := vxCompareC03(exp, got, t0, t1); err != nil {
					return fmt.Errorf("%s v%d, execution %d of %d: the request on the wire differs from what was asked: %v", c.Kind, c.Proto, i+1, len(gots), err)
				}
			}
			return nil
		},
	})
}

// ---- C09 through a real session: routing key from the PREPARED response's pk indexes -----------------

var vxC09Kinds = map[string]*cqlspec.Type{"int": cqlspec.Scalar(cqlspec.Int), "bigint": cqlspec.Scalar(cqlspec.Bigint), "smallint": cqlspec.Scalar(cqlspec.Smallint),
	"tinyint": cqlspec.Scalar(cqlspec.Tinyint), "text": cqlspec.Scalar(cqlspec.Varchar), "varchar": cqlspec.Scalar(cqlspec.Varchar), "ascii": cqlspec.Scalar(cqlspec.Ascii),
	"blob": cqlspec.Scalar(cqlspec.Blob), "boolean": cqlspec.Scalar(cqlspec.Boolean), "uuid": cqlspec.Scalar(cqlspec.UUID), "timeuuid": cqlspec.Scalar(cqlspec.TimeUUID),
	"timestamp": cqlspec.Scalar(cqlspec.Timestamp), "double": cqlspec.Scalar(cqlspec.Double), "float": cqlspec.Scalar(cqlspec.Float), "inet": cqlspec.Scalar(cqlspec.Inet),
	"time": cqlspec.Scalar(cqlspec.Time), "varint": cqlspec.Scalar(cqlspec.Varint), "decimal": cqlspec.Scalar(cqlspec.Decimal), "date": cqlspec.Scalar(cqlspec.Date),
	"list<int>": {Kind: cqlspec.List, Elems: []*cqlspec.Type{cqlspec.Scalar(cqlspec.Int)}}}

func TestVxC09SessionRoutingKey(t *testing.T) {
	vx.Check(t, vx.Prop{ID: "C09", Part: "TestVxC09SessionRoutingKey",
		Rule: "the routing-key cases of TestVxC09RoutingKey through the public API: a real protocol-4/5 session prepares a statement whose PREPARED response (scripted node) declares the bound columns and the partition-key indexes in partition-key order; Query.GetRoutingKey() must be the raw value (single key) or len16|bytes|0 per component in partition-key order, also after the same Query object is bound again (Query.Bind) with other key values; non-trivial = >= 2 components bound out of partition-key order; distinct by the case",
		Draw: func(t *rapid.T) interface{} {
			c := vxC09DrawRK(t)
			if c.Proto < 4 {
				c.Proto = 4
			}
			c.Cache = rapid.SampledFrom([]int{0, 0, 1, 2}).Draw(t, "cache")
			c.Decoy = rapid.SampledFrom([]int{0, 1, 2, 3}).Draw(t, "decoy")
			return c
		},
		New: func() interface{} { return &vxC09RKCase{} },
		Run: func(ci interface{}, k *vstats.Case) error {
			c := ci.(*vxC09RKCase)
			n := len(c.Comps)
			if n < 1 || n > 8 || len(c.Idx) != n || c.NVals < n || c.NVals > 16 || c.Proto < 4 || c.Proto > 5 {
				return nil
			}
			values := make([]interface{}, c.NVals)
			cols := make([]cqlspec.Column, c.NVals)
			for i := range values {
				values[i] = 7
				cols[i] = cqlspec.Column{Keyspace: "ks1", Table: "t", Name: "c" + itoa(i), Type: cqlspec.Scalar(cqlspec.Int)}
			}
			seen := map[int]bool{}
			var encs [][]byte
			total := 0
			inOrder := true
			for i, comp := range c.Comps {
				if c.Idx[i] < 0 || c.Idx[i] >= c.NVals || seen[c.Idx[i]] || vxC09Kinds[comp.T] == nil {
					return nil
				}
				seen[c.Idx[i]] = true
				if i > 0 && c.Idx[i] < c.Idx[i-1] {
					inOrder = false
				}
				ti, v, _, err := vxC09Value(comp, byte(c.Proto))
				if err != nil {
					return nil
				}
				enc, err := Marshal(ti, v)
				if err != nil {
					return nil
				}
				if n == 1 && len(enc) == 0 {
					return nil
				}
				values[c.Idx[i]] = v
				cols[c.Idx[i]].Type = vxC09Kinds[comp.T]
				encs = append(encs, enc)
				total += len(enc) + 3
			}
			if total > 65535 {
				return nil
			}
			if n >= 2 && !inOrder {
				k.NonTrivial()
			}
			k.Class(fmt.Sprintf("components=%d", n))
			cl := vnode.NewCluster(vxSpecs(1, 1))
			cl.Nodes()[0].Handler = func(rc *vnode.ReqCtx) {
				if rc.Req.Kind == "PREPARE" && strings.Contains(rc.Req.Statement, " FROM d ") {
					rc.Reply(&cqlspec.Response{Kind: "PREPARED", PreparedIDHex: "dd", Meta: &cqlspec.Metadata{Columns: []cqlspec.Column{
						{Keyspace: "ks1", Table: "d", Name: "x", Type: cqlspec.Scalar(cqlspec.Varchar)}, {Keyspace: "ks1", Table: "d", Name: "k", Type: cqlspec.Scalar(cqlspec.Int)}},
						PKIndexes: []int{1}, GlobalSpec: true, Keyspace: "ks1", Table: "d"}, ResultMeta: &cqlspec.Metadata{Columns: []cqlspec.Column{}}})
					return
				}
				if rc.Req.Kind == "PREPARE" {
					rc.Reply(&cqlspec.Response{Kind: "PREPARED", PreparedIDHex: "aa", Meta: &cqlspec.Metadata{Columns: cols, PKIndexes: c.Idx, GlobalSpec: true, Keyspace: "ks1", Table: "t"},
						ResultMeta: &cqlspec.Metadata{Columns: []cqlspec.Column{}}})
					return
				}
				rc.Reply(vxVoid())
			}
			s, err := vxClusterConfig(cl, c.Proto, func(cfg *ClusterConfig) {
				if c.Cache > 0 {
					cfg.MaxRoutingKeyInfo = c.Cache
				}
			}).CreateSession()
			if err != nil {
				return fmt.Errorf("harness: CreateSession: %v", err)
			}
			defer s.Close()
			// another statement with another key layout (its routing key is the int bound second)
			decoy := func(when string) error {
				got, err := s.Query("SELECT * FROM d WHERE x = ? AND k = ?", "x", 41).GetRoutingKey()
				if err != nil {
					return fmt.Errorf("GetRoutingKey of the other statement (%s) failed: %v", when, err)
				}
				if !bytes.Equal(got, []byte{0, 0, 0, 41}) {
					return fmt.Errorf("GetRoutingKey of the other statement (%s, MaxRoutingKeyInfo %d) = %x, want 00000029", when, c.Cache, got)
				}
				return nil
			}
			if c.Decoy&1 != 0 {
				k.Class("another statement asked first")
				if err := decoy("before"); err != nil {
					return err
				}
			}
			stmt := "SELECT * FROM t WHERE " + strings.TrimSuffix(strings.Repeat("c = ? AND ", c.NVals), " AND ")
			q := s.Query(stmt, values...)
			got, err := q.GetRoutingKey()
			if err != nil {
				return fmt.Errorf("GetRoutingKey failed: %v", err)
			}
			want := cqlspec.RoutingKey(encs)
			if !bytes.Equal(got, want) {
				return fmt.Errorf("GetRoutingKey() = %x, want %x (components %v bound at %v)", got, want, c.Comps, c.Idx)
			}
			if c.Decoy&2 != 0 {
				k.Class("another statement asked in between")
				if err := decoy("in between"); err != nil {
					return err
				}
			}
			// second use of the same Query object: Bind other values (the low bit of every numeric / textual
			// component flipped), the routing key must follow
			values2 := append([]interface{}{}, values...)
			var encs2 [][]byte
			changed := false
			for i, comp := range c.Comps {
				c2, ok := vxC09Tweak(comp)
				if !ok {
					c2 = comp
				}
				ti, v, _, err := vxC09Value(c2, byte(c.Proto))
				if err != nil {
					return nil
				}
				enc, err := Marshal(ti, v)
				if err != nil || (n == 1 && len(enc) == 0) {
					return nil
				}
				changed = changed || !bytes.Equal(enc, encs[i])
				values2[c.Idx[i]] = v
				encs2 = append(encs2, enc)
			}
			if !changed {
				k.Class("rebind: no component could be changed")
				return nil
			}
			k.Class("rebind")
			got2, err := q.Bind(values2...).GetRoutingKey()
			if err != nil {
				return fmt.Errorf("GetRoutingKey after Bind failed: %v", err)
			}
			if want2 := cqlspec.RoutingKey(encs2); !bytes.Equal(got2, want2) {
				return fmt.Errorf("the same Query bound again: GetRoutingKey() = %x, want %x (first binding gave %x)", got2, want2, got)
			}
			if !bytes.Equal(got, want) {
				return fmt.Errorf("the key returned by the first GetRoutingKey() has become %x after the second call; it was %x", got, want)
			}
			return nil
		},
	})
}

// vxC09Tweak returns the component with another value of the same type (low bit flipped), if the type allows.
func vxC09Tweak(c vxC09Comp) (vxC09Comp, bool) {
	switch c.T {
	case "int", "bigint", "smallint", "tinyint", "timestamp", "time":
		v, err := strconv.ParseInt(c.V, 10, 64)
		if err != nil {
			return c, false
		}
		c.V = strconv.FormatInt(v^1, 10)
		return c, true
	case "text", "varchar", "ascii", "blob":
		b, err := hex.DecodeString(c.V)
		if err != nil || len(b) == 0 {
			return c, false
		}
		b[len(b)-1] ^= 1
		c.V = hex.EncodeToString(b)
		return c, true
	}
	return c, false
}

// ---- C05: a second page that does not match the first -------------------------------------------------

type vxC05PageCase struct {
	Proto    int               `json:"proto"`
	First    *cqlspec.Response `json:"first"`  // page 1 (ROWS), gets the more-pages flag
	Second   *cqlspec.Response `json:"second"` // whatever comes back for page 2 (any kind)
	Mut      vxMut             `json:"mut"`
	Consumer int               `json:"consumer"`
	Flatten  bool              `json:"flatten,omitempty"` // page 2 = page 1 with its tuple columns spread over one column per element (same number of scan targets, more columns)
}

// vxFlattenTuples returns r with every tuple column replaced by one column per element.
func vxFlattenTuples(r *cqlspec.Response) (*cqlspec.Response, bool) {
	out := *r
	m := *r.Meta
	var cols []cqlspec.Column
	did := false
	for _, c := range r.Meta.Columns {
		if c.Type.Kind == cqlspec.Tuple && len(c.Type.Elems) >= 1 {
			did = true
			for j, e := range c.Type.Elems {
				cols = append(cols, cqlspec.Column{Keyspace: c.Keyspace, Table: c.Table, Name: fmt.Sprintf("%s_%d", c.Name, j), Type: e})
			}
			continue
		}
		cols = append(cols, c)
	}
	var rows [][]cqlspec.Value
	for _, row := range r.Rows {
		var nr []cqlspec.Value
		for ci, c := range r.Meta.Columns {
			if c.Type.Kind == cqlspec.Tuple && len(c.Type.Elems) >= 1 {
				for j := range c.Type.Elems {
					if row[ci].Null || j >= len(row[ci].Elems) {
						nr = append(nr, cqlspec.NullValue())
					} else {
						nr = append(nr, row[ci].Elems[j])
					}
				}
				continue
			}
			nr = append(nr, row[ci])
		}
		rows = append(rows, nr)
	}
	m.Columns = cols
	out.Meta = &m
	out.Rows = rows
	return &out, did
}

func TestVxC05Pages(t *testing.T) {
	vx.Check(t, vx.Prop{
		ID: "C05", Part: "TestVxC05Pages",
		Rule: "a real session iterates a paged result: page 1 is a generated rows result with the more-pages flag; the answer to the follow-up request is an unrelated generated response (mostly rows with other columns / column counts / tuple columns, sometimes another kind) or page 1 again with every tuple column spread over one column per element (same number of scan targets, more columns), optionally mutated; consumed with Scan, Scanner, MapScan or SliceMap; oracle: iteration ends with rows or an error, nothing panics, the calls return; non-trivial = the second page's column list differs from the first; distinct by the case",
		Draw: func(t *rapid.T) interface{} {
			c := &vxC05PageCase{Proto: rapid.IntRange(2, 5).Draw(t, "proto"), Consumer: rapid.IntRange(0, 3).Draw(t, "consumer"), Mut: vxMut{Kind: "none"}}
			for try := 0; try < 300 && (c.First == nil || c.Second == nil); try++ {
				r := vxDrawResponse(t)
				if r.Version != c.Proto {
					continue
				}
				if r.Kind == "ROWS" && c.First == nil && len(r.Rows) > 0 {
					c.First = r
				} else if r.Kind != "EVENT" && c.Second == nil && (r.Kind == "ROWS" || rapid.IntRange(0, 3).Draw(t, "other") == 0) {
					c.Second = r
				}
			}
			if rapid.IntRange(0, 3).Draw(t, "mutate") == 0 {
				c.Mut = vxDrawMut(t, true)
			}
			c.Flatten = rapid.IntRange(0, 2).Draw(t, "flatten") == 0
			return c
		},
		New: func() interface{} { return &vxC05PageCase{} },
		Run: func(ci interface{}, k *vstats.Case) error {
			c := ci.(*vxC05PageCase)
			if c.First == nil || c.Second == nil || c.First.Kind != "ROWS" || c.First.Meta == nil || c.Proto < 2 || c.Proto > 5 {
				return nil
			}
			first := *c.First
			m := *first.Meta
			m.HasMore, m.StateHex, m.NoMetadata = true, "7061676532", false
			first.Meta = &m
			first.TraceHex, first.Warnings, first.HasPayload = "", nil, false
			second := *c.Second
			if c.Flatten {
				if f, did := vxFlattenTuples(c.First); did {
					second = *f
					k.Class("second=page 1 with tuple columns spread")
				}
			}
			if second.Meta != nil {
				m2 := *second.Meta
				m2.HasMore, m2.StateHex = false, ""
				second.Meta = &m2
			}
			if c.Proto < 4 {
				second.Warnings, second.HasPayload, second.Payload = nil, false, nil
			}
			second.Compress = false
			differs := second.Kind != "ROWS" || len(second.Meta.Columns) != len(first.Meta.Columns)
			if differs {
				k.NonTrivial()
			}
			k.Class("second=" + second.Kind)
			k.Class(fmt.Sprintf("consumer=%d", c.Consumer))
			cl := vnode.NewCluster(vxSpecs(1, 1))
			cl.Nodes()[0].Handler = func(rc *vnode.ReqCtx) {
				if rc.Req.Kind != "QUERY" {
					rc.Reply(vxVoid())
					return
				}
				if rc.Req.Params == nil || !rc.Req.Params.HasState {
					rc.Reply(&first)
					return
				}
				r := second
				r.Version, r.Stream = rc.Req.Header.Version, rc.Req.Header.Stream
				body, fields := r.Body()
				b, _ := r.FrameWithBody(vxApplyMut(body, fields, c.Mut), nil)
				rc.Conn.SendRaw(b)
			}
			done := make(chan string, 1)
			go func() {
				defer func() {
					if r := recover(); r != nil {
						done <- fmt.Sprintf("panic in the caller: %v\n%s", r, vxShortStack())
					}
				}()
				s, err := vxClusterConfig(cl, c.Proto, func(cfg *ClusterConfig) { cfg.Timeout = 700 * time.Millisecond }).CreateSession()
				if err != nil {
					done <- ""
					return
				}
				defer s.Close()
				iter := s.Query("LIST paged").PageSize(len(first.Rows)).Iter()
				n := 0
				switch c.Consumer {
				case 1:
					sc := iter.Scanner()
					for n < 200 && sc.Next() {
						rd, err := iter.RowData()
						if err != nil {
							break
						}
						sc.Scan(rd.Values...)
						n++
					}
					sc.Err()
				case 2:
					for n < 200 && iter.MapScan(map[string]interface{}{}) {
						n++
					}
				case 3:
					iter.SliceMap()
				default:
					for n < 200 {
						rd, err := iter.RowData()
						if err != nil || !iter.Scan(rd.Values...) {
							break
						}
						n++
					}
				}
				iter.Close()
				done <- ""
			}()
			select {
			case msg := <-done:
				if msg != "" {
					return fmt.Errorf("page 2 answered with %s (mutation %s), consumer %d: %s", second.Kind, c.Mut.Kind, c.Consumer, msg)
				}
				return nil
			case <-time.After(25 * time.Second):
				return fmt.Errorf("iteration did not return within 25 s (second page %s):\n%s", second.Kind, vxGoroutineDump())
			}
		},
	})
}
