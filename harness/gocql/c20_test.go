//go:build verif && go1.21

// C20 - TLS verification and credential disclosure are exactly as documented.
//
// Parts in this file (white-box, package gocql):
//
//	TestVxC20Table     exhaustive product over SslOptions -> setupTLSConfig, judged by the doc.go table
//	TestVxC20Handshake defaultHostDialer.DialHost (obtained through connConfig) against an in-process
//	                   tls.Server over an in-memory duplex connection
//	TestVxC20AuthUnit  PasswordAuthenticator.Challenge / approve / Success
//
// The session-level AUTHENTICATE conversation lives elsewhere.
package gocql

import (
	"bytes"
	"context"
	"crypto/ecdsa"
	"crypto/elliptic"
	"crypto/rand"
	"crypto/tls"
	"crypto/x509"
	"crypto/x509/pkix"
	"encoding/pem"
	"errors"
	"fmt"
	"io"
	"io/ioutil"
	"math/big"
	"net"
	"os"
	"path/filepath"
	"reflect"
	"runtime/debug"
	"strings"
	"sync"
	"testing"
	"time"
	"unicode"

	"pgregory.net/rapid"
	"verif.local/vstats"
	"verif.local/vx"
)

// ---------------------------------------------------------------------------------------
// fixture: two CAs, one leaf key, one client key pair, and the files on disk
// ---------------------------------------------------------------------------------------

type vxC20Fx struct {
	dir      string
	caKey    [2]*ecdsa.PrivateKey
	caCert   [2]*x509.Certificate
	caPEM    [2][]byte
	caFile   [2]string
	leafKey  *ecdsa.PrivateKey
	cliDER   []byte
	cliCert  string // client.crt (signed by CA 0, client auth)
	cliKey   string // client.key
	otherKey string // a valid EC key that does not belong to client.crt
	garbage  string // text that is not PEM
	empty    string // zero bytes
	keyOnly  string // well-formed PEM without any CERTIFICATE block
	badDER   string // CERTIFICATE block whose payload is not DER
	missing  string // path that does not exist
	// leaves signed by each CA for "is this CA in the pool" questions
	probeLeaf [2]*x509.Certificate
}

var (
	vxC20FxOnce sync.Once
	vxC20FxVal  *vxC20Fx
	vxC20FxErr  error
)

var (
	vxC20NotBefore = time.Date(2020, 1, 1, 0, 0, 0, 0, time.UTC)
	vxC20NotAfter  = time.Date(2120, 1, 1, 0, 0, 0, 0, time.UTC)
)

func vxC20PEM(typ string, der []byte) []byte {
	return pem.EncodeToMemory(&pem.Block{Type: typ, Bytes: der})
}

func vxC20Fixture() (*vxC20Fx, error) {
	vxC20FxOnce.Do(func() { vxC20FxVal, vxC20FxErr = vxC20BuildFixture() })
	return vxC20FxVal, vxC20FxErr
}

func vxC20BuildFixture() (*vxC20Fx, error) {
	fx := &vxC20Fx{}
	cwd, err := os.Getwd()
	if err != nil {
		return nil, err
	}
	fx.dir, err = ioutil.TempDir(cwd, "vxc20-")
	if err != nil {
		return nil, err
	}
	write := func(name string, b []byte) (string, error) {
		p := filepath.Join(fx.dir, name)
		return p, ioutil.WriteFile(p, b, 0o600)
	}
	for i := 0; i < 2; i++ {
		k, err := ecdsa.GenerateKey(elliptic.P256(), rand.Reader)
		if err != nil {
			return nil, err
		}
		tmpl := &x509.Certificate{
			SerialNumber:          big.NewInt(int64(100 + i)),
			Subject:               pkix.Name{CommonName: fmt.Sprintf("vx C20 test CA %d", i), Organization: []string{"verif"}},
			NotBefore:             vxC20NotBefore,
			NotAfter:              vxC20NotAfter,
			IsCA:                  true,
			BasicConstraintsValid: true,
			KeyUsage:              x509.KeyUsageCertSign | x509.KeyUsageDigitalSignature,
		}
		der, err := x509.CreateCertificate(rand.Reader, tmpl, tmpl, &k.PublicKey, k)
		if err != nil {
			return nil, err
		}
		c, err := x509.ParseCertificate(der)
		if err != nil {
			return nil, err
		}
		fx.caKey[i], fx.caCert[i], fx.caPEM[i] = k, c, vxC20PEM("CERTIFICATE", der)
		if fx.caFile[i], err = write(fmt.Sprintf("ca%d.pem", i), fx.caPEM[i]); err != nil {
			return nil, err
		}
	}
	if fx.leafKey, err = ecdsa.GenerateKey(elliptic.P256(), rand.Reader); err != nil {
		return nil, err
	}
	for i := 0; i < 2; i++ {
		der, err := fx.leaf(i, &x509.Certificate{DNSNames: []string{"probe.vx.example"}}, x509.ExtKeyUsageServerAuth)
		if err != nil {
			return nil, err
		}
		if fx.probeLeaf[i], err = x509.ParseCertificate(der); err != nil {
			return nil, err
		}
	}
	// client key pair
	ck, err := ecdsa.GenerateKey(elliptic.P256(), rand.Reader)
	if err != nil {
		return nil, err
	}
	ctmpl := &x509.Certificate{
		SerialNumber: big.NewInt(200),
		Subject:      pkix.Name{CommonName: "vx C20 client"},
		NotBefore:    vxC20NotBefore, NotAfter: vxC20NotAfter,
		KeyUsage:    x509.KeyUsageDigitalSignature,
		ExtKeyUsage: []x509.ExtKeyUsage{x509.ExtKeyUsageClientAuth},
	}
	fx.cliDER, err = x509.CreateCertificate(rand.Reader, ctmpl, fx.caCert[0], &ck.PublicKey, fx.caKey[0])
	if err != nil {
		return nil, err
	}
	ckDER, err := x509.MarshalECPrivateKey(ck)
	if err != nil {
		return nil, err
	}
	ok2, err := ecdsa.GenerateKey(elliptic.P256(), rand.Reader)
	if err != nil {
		return nil, err
	}
	ok2DER, err := x509.MarshalECPrivateKey(ok2)
	if err != nil {
		return nil, err
	}
	files := []struct {
		dst  *string
		name string
		b    []byte
	}{
		{&fx.cliCert, "client.crt", vxC20PEM("CERTIFICATE", fx.cliDER)},
		{&fx.cliKey, "client.key", vxC20PEM("EC PRIVATE KEY", ckDER)},
		{&fx.otherKey, "other.key", vxC20PEM("EC PRIVATE KEY", ok2DER)},
		{&fx.garbage, "garbage.pem", []byte("this is not a PEM file\n\x00\x01\x02 -----BEGIN nothing\n")},
		{&fx.empty, "empty.pem", nil},
		{&fx.keyOnly, "keyonly.pem", vxC20PEM("EC PRIVATE KEY", ok2DER)},
		{&fx.badDER, "badder.pem", vxC20PEM("CERTIFICATE", []byte("certainly not DER, but long enough to look like something"))},
	}
	for _, f := range files {
		if *f.dst, err = write(f.name, f.b); err != nil {
			return nil, err
		}
	}
	fx.missing = filepath.Join(fx.dir, "does-not-exist.pem")
	return fx, nil
}

// leaf signs a certificate for the shared leaf key. ca 0/1 = signed by that CA, 2 = self-signed.
func (fx *vxC20Fx) leaf(ca int, san *x509.Certificate, eku x509.ExtKeyUsage) ([]byte, error) {
	tmpl := &x509.Certificate{
		SerialNumber: big.NewInt(300),
		Subject:      san.Subject,
		NotBefore:    vxC20NotBefore, NotAfter: vxC20NotAfter,
		KeyUsage:    x509.KeyUsageDigitalSignature,
		ExtKeyUsage: []x509.ExtKeyUsage{eku},
		DNSNames:    san.DNSNames,
		IPAddresses: san.IPAddresses,
	}
	if tmpl.Subject.CommonName == "" {
		tmpl.Subject.CommonName = "vx C20 leaf"
	}
	if ca == 2 {
		return x509.CreateCertificate(rand.Reader, tmpl, tmpl, &fx.leafKey.PublicKey, fx.leafKey)
	}
	return x509.CreateCertificate(rand.Reader, tmpl, fx.caCert[ca], &fx.leafKey.PublicKey, fx.caKey[ca])
}

func (fx *vxC20Fx) pool(cas ...int) *x509.CertPool {
	p := x509.NewCertPool()
	for _, i := range cas {
		if !p.AppendCertsFromPEM(fx.caPEM[i]) {
			panic("vx: fixture CA does not parse")
		}
	}
	return p
}

// trusts reports whether pool p accepts a leaf signed by fixture CA i.
func (fx *vxC20Fx) trusts(p *x509.CertPool, i int) bool {
	if p == nil {
		return false
	}
	_, err := fx.probeLeaf[i].Verify(x509.VerifyOptions{Roots: p, CurrentTime: time.Date(2026, 1, 1, 0, 0, 0, 0, time.UTC)})
	return err == nil
}

// vxC20CfgDiff compares two tls.Configs field by field (exported fields): pools by content
// (CertPool.Equal), functions by nil-ness, everything else by reflect.DeepEqual.
func vxC20CfgDiff(got, want *tls.Config) string {
	if got == nil || want == nil {
		if got != want {
			return fmt.Sprintf("nil-ness differs: got nil=%v want nil=%v", got == nil, want == nil)
		}
		return ""
	}
	var diffs []string
	gv, wv := reflect.ValueOf(got).Elem(), reflect.ValueOf(want).Elem()
	for i := 0; i < gv.NumField(); i++ {
		f := gv.Type().Field(i)
		if f.PkgPath != "" {
			continue
		}
		g, w := gv.Field(i), wv.Field(i)
		switch {
		case f.Type == reflect.TypeOf((*x509.CertPool)(nil)):
			gp, _ := g.Interface().(*x509.CertPool)
			wp, _ := w.Interface().(*x509.CertPool)
			if (gp == nil) != (wp == nil) || (gp != nil && !gp.Equal(wp)) {
				diffs = append(diffs, f.Name)
			}
		case f.Type.Kind() == reflect.Func:
			if g.IsNil() != w.IsNil() {
				diffs = append(diffs, f.Name)
			}
		default:
			if !reflect.DeepEqual(g.Interface(), w.Interface()) {
				switch f.Type.Kind() {
				case reflect.Bool, reflect.String, reflect.Uint16, reflect.Int:
					diffs = append(diffs, fmt.Sprintf("%s (%v -> %v)", f.Name, w.Interface(), g.Interface()))
				default:
					diffs = append(diffs, f.Name)
				}
			}
		}
	}
	return strings.Join(diffs, ", ")
}

// the documented table (doc.go, "SslOptions and Config.InsecureSkipVerify interact as follows")
//
//	cfg: 0 = Config is nil, 1 = InsecureSkipVerify false, 2 = InsecureSkipVerify true
func vxC20DocVerifies(cfg int, ehv bool) bool {
	switch cfg {
	case 0:
		return ehv // nil|false -> do not verify ; nil|true -> verify
	case 1:
		return true // false|false -> verify ; false|true -> verify
	default:
		return ehv // true|false -> do not verify ; true|true -> verify
	}
}

// ---------------------------------------------------------------------------------------
// part 1: the table, exhaustively
// ---------------------------------------------------------------------------------------

type vxC20Tab struct {
	Cfg   int  `json:"cfg"`   // 0 nil, 1 present ISV=false, 2 present ISV=true
	SN    bool `json:"sn"`    // Config.ServerName set (only when Cfg != 0)
	Roots bool `json:"roots"` // Config.RootCAs preset with CA 1 (only when Cfg != 0)
	EHV   bool `json:"ehv"`
	CA    int  `json:"ca"` // 0 absent 1 valid(CA 0) 2 missing 3 garbage 4 empty 5 pem-without-cert 6 bad DER 7 directory
	KP    int  `json:"kp"` // 0 absent 1 valid 2 cert only 3 key only 4 garbage cert 5 garbage key 6 missing cert 7 key of another pair
	Own   bool `json:"own,omitempty"` // Config.Certificates already holds a certificate of the caller's (only when Cfg != 0)
}

var vxC20CANames = []string{"absent", "valid", "missing", "garbage", "empty", "nocert-pem", "bad-der", "directory"}
var vxC20KPNames = []string{"absent", "valid", "cert-only", "key-only", "garbage-cert", "garbage-key", "missing-cert", "mismatch"}

const vxC20TabServerName = "cassandra.table.vx.example"

func vxC20TabAll() []*vxC20Tab {
	var all []*vxC20Tab
	type cf struct {
		cfg       int
		sn, roots bool
	}
	cfgs := []cf{{0, false, false}}
	for _, isv := range []int{1, 2} {
		for _, sn := range []bool{false, true} {
			for _, r := range []bool{false, true} {
				cfgs = append(cfgs, cf{isv, sn, r})
			}
		}
	}
	// simplest (no files) first so that the first failure met is the smallest one
	for ca := 0; ca < len(vxC20CANames); ca++ {
		for kp := 0; kp < len(vxC20KPNames); kp++ {
			for _, c := range cfgs {
				for _, ehv := range []bool{false, true} {
					all = append(all, &vxC20Tab{Cfg: c.cfg, SN: c.sn, Roots: c.roots, EHV: ehv, CA: ca, KP: kp})
					if c.cfg != 0 {
						all = append(all, &vxC20Tab{Cfg: c.cfg, SN: c.sn, Roots: c.roots, EHV: ehv, CA: ca, KP: kp, Own: true})
					}
				}
			}
		}
	}
	return all
}

func vxC20TabRun(ci interface{}, k *vstats.Case) error {
	c := ci.(*vxC20Tab)
	fx, err := vxC20Fixture()
	if err != nil {
		return fmt.Errorf("harness: fixture: %v", err)
	}
	if c.Cfg < 0 || c.Cfg > 2 || c.CA < 0 || c.CA >= len(vxC20CANames) || c.KP < 0 || c.KP >= len(vxC20KPNames) {
		return nil
	}
	mk := func() *tls.Config {
		if c.Cfg == 0 {
			return nil
		}
		cfg := &tls.Config{InsecureSkipVerify: c.Cfg == 2, MinVersion: tls.VersionTLS12, NextProtos: []string{"vx"}}
		if c.SN {
			cfg.ServerName = vxC20TabServerName
		}
		if c.Roots {
			cfg.RootCAs = fx.pool(1)
		}
		if c.Own {
			// with room behind it, as a slice that was built with append usually has
			cfg.Certificates = make([]tls.Certificate, 1, 3)
			cfg.Certificates[0] = tls.Certificate{Certificate: [][]byte{[]byte("a certificate the caller put there")}}
		}
		return cfg
	}
	own := 0
	if c.Own && c.Cfg != 0 {
		own = 1
	}
	caller, want := mk(), mk()
	opts := &SslOptions{Config: caller, EnableHostVerification: c.EHV}
	opts.CaPath = []string{"", fx.caFile[0], fx.missing, fx.garbage, fx.empty, fx.keyOnly, fx.badDER, fx.dir}[c.CA]
	switch c.KP {
	case 1:
		opts.CertPath, opts.KeyPath = fx.cliCert, fx.cliKey
	case 2:
		opts.CertPath = fx.cliCert
	case 3:
		opts.KeyPath = fx.cliKey
	case 4:
		opts.CertPath, opts.KeyPath = fx.garbage, fx.cliKey
	case 5:
		opts.CertPath, opts.KeyPath = fx.cliCert, fx.garbage
	case 6:
		opts.CertPath, opts.KeyPath = fx.missing, fx.cliKey
	case 7:
		opts.CertPath, opts.KeyPath = fx.cliCert, fx.otherKey
	}
	optsWant := SslOptions{Config: caller, CertPath: opts.CertPath, KeyPath: opts.KeyPath, CaPath: opts.CaPath, EnableHostVerification: c.EHV}

	verify := vxC20DocVerifies(c.Cfg, c.EHV)
	wantErr := c.CA >= 2 || c.KP >= 2
	k.Class("cfg=" + []string{"nil", "isv-false", "isv-true"}[c.Cfg] + fmt.Sprintf("/ehv=%v", c.EHV))
	k.Class("ca=" + vxC20CANames[c.CA])
	k.Class("kp=" + vxC20KPNames[c.KP])
	switch {
	case wantErr:
		k.Class("want=error")
	case verify:
		k.Class("want=verify")
	default:
		k.Class("want=no-verify")
	}
	k.NonTrivial() // every row of the product is a distinct configuration with a definite expected result

	got, gerr := setupTLSConfig(opts)

	// the caller's values are untouched, whatever the result
	if *opts != optsWant {
		return fmt.Errorf("setupTLSConfig changed the caller's SslOptions: %+v, was %+v", *opts, optsWant)
	}
	if c.Own && caller != nil {
		// tls.Config.Clone copies the slice header only: what is appended to the clone's Certificates lands in
		// the caller's backing array, where the next session set up from the same Config overwrites it
		for i, ct := range caller.Certificates[:cap(caller.Certificates)] {
			if i >= len(caller.Certificates) && (len(ct.Certificate) != 0 || ct.PrivateKey != nil) {
				return fmt.Errorf("setupTLSConfig wrote its key pair into the spare capacity of the caller's Config.Certificates (slot %d of %d): the effective config of this session shares that slot with every later session set up from the same Config", i, cap(caller.Certificates))
			}
		}
	}
	var known error // a confirmed defect met on the way; reported after the remaining checks passed
	if d := vxC20CfgDiff(caller, want); d != "" {
		if d == "RootCAs" && c.Roots && c.CA == 1 && c.Cfg != 0 {
			known = vx.Known("C20-caller-rootcas-mutated",
				"SslOptions{Config: &tls.Config{RootCAs: pool}, CaPath: valid}: setupTLSConfig appended the CaPath certificates to the caller's own RootCAs pool (the clone shares the *x509.CertPool); caller's pool trusts the CaPath CA afterwards = %v",
				fx.trusts(caller.RootCAs, 0))
		} else {
			return fmt.Errorf("setupTLSConfig modified the caller's tls.Config: fields %s", d)
		}
	}

	if wantErr {
		if gerr == nil {
			return fmt.Errorf("CaPath=%s CertPath/KeyPath=%s: setupTLSConfig returned no error (config InsecureSkipVerify=%v, %d certificates)",
				vxC20CANames[c.CA], vxC20KPNames[c.KP], got != nil && got.InsecureSkipVerify, vxC20NumCerts(got))
		}
		return known
	}
	if gerr != nil {
		return fmt.Errorf("valid options rejected: %v", gerr)
	}
	if got == nil {
		return fmt.Errorf("setupTLSConfig returned (nil, nil)")
	}
	if got.InsecureSkipVerify != !verify {
		return fmt.Errorf("Config %s, EnableHostVerification=%v: documented result is %q, but the effective config has InsecureSkipVerify=%v",
			[]string{"is nil", "InsecureSkipVerify=false", "InsecureSkipVerify=true"}[c.Cfg], c.EHV,
			map[bool]string{true: "verify host", false: "do not verify host"}[verify], got.InsecureSkipVerify)
	}
	wantSN := ""
	if c.Cfg != 0 && c.SN {
		wantSN = vxC20TabServerName
	}
	if got.ServerName != wantSN {
		return fmt.Errorf("effective ServerName = %q, caller configured %q", got.ServerName, wantSN)
	}
	if c.Cfg != 0 && (got.MinVersion != tls.VersionTLS12 || !reflect.DeepEqual(got.NextProtos, []string{"vx"})) {
		return fmt.Errorf("effective config lost the caller's other settings: MinVersion=%x NextProtos=%v", got.MinVersion, got.NextProtos)
	}
	// trust anchors: the configured CA file is in force; the caller's own anchors stay in force
	if c.CA == 1 && !fx.trusts(got.RootCAs, 0) {
		return fmt.Errorf("valid CaPath: effective RootCAs do not trust the CA from the file (silently connecting without it)")
	}
	if c.Cfg != 0 && c.Roots && !fx.trusts(got.RootCAs, 1) {
		return fmt.Errorf("effective RootCAs lost the caller's own trust anchor")
	}
	if c.CA == 0 && !(c.Cfg != 0 && c.Roots) && got.RootCAs != nil {
		return fmt.Errorf("no CA configured anywhere but effective RootCAs is non-nil")
	}
	if c.CA == 0 && fx.trusts(got.RootCAs, 0) {
		return fmt.Errorf("CA 0 trusted though never configured")
	}
	switch c.KP {
	case 0:
		if n := len(got.Certificates); n != own {
			return fmt.Errorf("no key pair configured but the effective config has %d client certificates (the caller's config had %d)", n, own)
		}
	case 1:
		if n := len(got.Certificates); n != 1+own || len(got.Certificates[n-1].Certificate) == 0 || !bytes.Equal(got.Certificates[n-1].Certificate[0], fx.cliDER) {
			return fmt.Errorf("valid CertPath/KeyPath: effective config does not carry that client certificate (behind the caller's %d) - it has %d certificates", own, n)
		}
	}
	return known
}

func vxC20NumCerts(c *tls.Config) int {
	if c == nil {
		return -1
	}
	return len(c.Certificates)
}

// vxC20Sweep evaluates a finite, fully enumerated case list with the same bookkeeping as
// vx.Check (stats, replay file, known findings); rapid is not involved.
func vxC20Sweep(t *testing.T, p vx.Prop, cases []interface{}) {
	if os.Getenv("VX_REPLAY") != "" {
		vx.Check(t, p) // replay path: decodes the saved case and runs it
		return
	}
	col := vstats.New(p.ID, p.Part, p.Rule)
	for _, c := range cases {
		k := col.Begin(c)
		err := func() (err error) {
			defer func() {
				if r := recover(); r != nil {
					err = fmt.Errorf("panic: %v\n%s", r, debug.Stack())
				}
			}()
			return p.Run(c, k)
		}()
		k.End()
		if err == nil {
			continue
		}
		if ke, ok := err.(*vx.KnownErr); ok && vstats.IsKnown(ke.ID) {
			k.Known(ke.ID, ke.What)
			continue
		}
		col.Violation(k.Enc(), err.Error())
		t.Fatalf("VXFAIL %s/%s: %v", p.ID, p.Part, err)
	}
	col.SetExtra("enumerated", len(cases))
	col.SetExhaustive(true)
}

func TestVxC20Table(t *testing.T) {
	all := vxC20TabAll()
	cases := make([]interface{}, len(all))
	for i, c := range all {
		cases[i] = c
	}
	vxC20Sweep(t, vx.Prop{
		ID: "C20", Part: "TestVxC20Table",
		Rule: "full product, enumerated not sampled: Config {nil, present x ISV t/f x ServerName set/unset x own RootCAs yes/no} x EnableHostVerification t/f x CaPath {absent, valid, missing, garbage, empty, PEM without certificate, CERTIFICATE block with bad DER, directory} x CertPath/KeyPath {absent, valid, cert only, key only, garbage cert, garbage key, missing cert, key of another pair} x the caller's Config already holding a certificate of its own (when present) = 17*2*8*8 = 2176 rows; every row is non-trivial (definite expected result) and distinct by all fields",
		New: func() interface{} { return &vxC20Tab{} },
		Run: vxC20TabRun,
	}, cases)
}

// ---------------------------------------------------------------------------------------
// part 2: handshakes through defaultHostDialer
// ---------------------------------------------------------------------------------------

// in-memory duplex byte stream with unbounded buffers (so that neither side's handshake
// flight can block on the other side's reads) whose addresses are *net.TCPAddr.
type vxC20Half struct {
	mu     sync.Mutex
	cond   *sync.Cond
	buf    []byte
	closed bool
}

func vxC20NewHalf() *vxC20Half {
	h := &vxC20Half{}
	h.cond = sync.NewCond(&h.mu)
	return h
}

type vxC20Conn struct {
	r, w          *vxC20Half
	local, remote *net.TCPAddr
}

func vxC20Pipe(client, server *net.TCPAddr) (*vxC20Conn, *vxC20Conn) {
	a, b := vxC20NewHalf(), vxC20NewHalf()
	return &vxC20Conn{r: a, w: b, local: client, remote: server}, &vxC20Conn{r: b, w: a, local: server, remote: client}
}

func (c *vxC20Conn) Read(p []byte) (int, error) {
	c.r.mu.Lock()
	defer c.r.mu.Unlock()
	for len(c.r.buf) == 0 && !c.r.closed {
		c.r.cond.Wait()
	}
	if len(c.r.buf) == 0 {
		return 0, io.EOF
	}
	n := copy(p, c.r.buf)
	c.r.buf = c.r.buf[n:]
	return n, nil
}

func (c *vxC20Conn) Write(p []byte) (int, error) {
	c.w.mu.Lock()
	defer c.w.mu.Unlock()
	if c.w.closed {
		return 0, io.ErrClosedPipe
	}
	c.w.buf = append(c.w.buf, p...)
	c.w.cond.Broadcast()
	return len(p), nil
}

func (c *vxC20Conn) Close() error {
	for _, h := range []*vxC20Half{c.r, c.w} {
		h.mu.Lock()
		h.closed = true
		h.cond.Broadcast()
		h.mu.Unlock()
	}
	return nil
}

func (c *vxC20Conn) LocalAddr() net.Addr                { return c.local }
func (c *vxC20Conn) RemoteAddr() net.Addr               { return c.remote }
func (c *vxC20Conn) SetDeadline(t time.Time) error      { return nil }
func (c *vxC20Conn) SetReadDeadline(t time.Time) error  { return nil }
func (c *vxC20Conn) SetWriteDeadline(t time.Time) error { return nil }

// a host as the driver knows it
type vxC20Host struct {
	Kind int    `json:"kind"` // 0 DNS-style hostname; 1 no hostname, IPv4; 2 no hostname, IPv6; 3 hostname is an IPv4 literal; 4 hostname is an IPv6 literal
	Lab  string `json:"lab"`  // first label of the DNS name
	A    int    `json:"a"`    // address bytes
	B    int    `json:"b"`
	V6   bool   `json:"v6"`  // kind 0: family of the connect address
	Alt  bool   `json:"alt"` // kind 4: literal written in upper case
	Port int    `json:"port"`
}

func vxC20IP(slot int, v6 bool, a, b int) net.IP {
	a, b = a&0xff, b&0xff
	if b == 0 || b == 255 {
		b = 7
	}
	if v6 {
		ip := make(net.IP, 16)
		copy(ip, []byte{0x20, 0x01, 0x0d, 0xb8, 0, byte(slot + 1)})
		ip[13], ip[14], ip[15] = byte(a), 0, byte(b)
		return ip
	}
	return net.IPv4(10, byte(slot+1), byte(a), byte(b))
}

func vxC20DNS(slot int, lab string) string {
	if lab == "" {
		lab = "n"
	}
	return fmt.Sprintf("%s.s%d.vx.example", lab, slot)
}

// identity of a host in slot: the hostname field, the connect address, and the name the
// driver is documented to verify against when no ServerName is configured.
func (h *vxC20Host) ident(slot int) (hostname string, ip net.IP, name string) {
	switch h.Kind {
	case 0:
		ip = vxC20IP(slot, h.V6, h.A, h.B)
		hostname = vxC20DNS(slot, h.Lab)
		return hostname, ip, hostname
	case 1:
		ip = vxC20IP(slot, false, h.A, h.B)
		return "", ip, ip.String()
	case 2:
		ip = vxC20IP(slot, true, h.A, h.B)
		return "", ip, ip.String()
	case 3:
		ip = vxC20IP(slot, false, h.A, h.B)
		return ip.String(), ip, ip.String()
	default:
		ip = vxC20IP(slot, true, h.A, h.B)
		hostname = ip.String()
		if h.Alt {
			hostname = strings.ToUpper(hostname)
		}
		return hostname, ip, hostname
	}
}

type vxC20Dial struct {
	Host   vxC20Host `json:"host"`
	Chain  int       `json:"chain"`  // server cert: 0 signed by CA 0, 1 signed by CA 1, 2 self-signed, 3 signed by CA 0 but for client auth only
	Target int       `json:"target"` // SANs are written for: 0 the name that must be verified; 1 a decoy (host's own name when ServerName is set, else the previously dialled host, else an unrelated name)
	Match  int       `json:"match"`  // see vxC20SANs
	TLS12  bool      `json:"tls12"`  // server limited to TLS 1.2
}

type vxC20HS struct {
	Cfg        int         `json:"cfg"` // 0 nil, 1 ISV=false, 2 ISV=true
	EHV        bool        `json:"ehv"`
	SN         int         `json:"sn"` // Config.ServerName: 0 unset, 1 DNS name, 2 IPv4 literal, 3 IPv6 literal (only when Cfg != 0)
	SNLab      string      `json:"sn_lab"`
	Trust      int         `json:"trust"`       // 0 nothing configured; 1 CaPath=CA0; 2 Config.RootCAs=CA0 (CaPath if Cfg is nil); 3 Config.RootCAs=CA0 + CaPath=CA1 (both CaPath... see run); 4 CaPath=CA1
	ClientCert bool        `json:"client_cert"` // CertPath/KeyPath set and the server demands a client certificate
	Dials      []vxC20Dial `json:"dials"`
}

const (
	vxC20SlotSN    = 9
	vxC20SlotDecoy = 8
)

// vxC20SANs writes the subject alternative names of a server certificate relative to a
// target name (DNS name or IP literal) and says whether a certificate with these names is
// valid for `expect` (by construction, not by asking crypto/x509).
func vxC20SANs(match int, target string, hostIP net.IP, expect string) (tmpl *x509.Certificate, nameOK bool, label string) {
	tmpl = &x509.Certificate{}
	tip := net.ParseIP(target)
	same := strings.EqualFold(target, expect)
	if tip != nil {
		if eip := net.ParseIP(expect); eip != nil {
			same = eip.Equal(tip)
		} else {
			same = false
		}
	}
	other := func(ip net.IP) net.IP {
		o := make(net.IP, len(ip))
		copy(o, ip)
		o[len(o)-1] ^= 1
		return o
	}
	switch match {
	case 0: // exact
		if tip != nil {
			tmpl.IPAddresses = []net.IP{tip}
		} else {
			tmpl.DNSNames = []string{target}
		}
		return tmpl, same, "exact"
	case 1: // a different name of the same kind
		if tip != nil {
			tmpl.IPAddresses = []net.IP{other(tip)}
		} else {
			tmpl.DNSNames = []string{"x" + target}
		}
		return tmpl, false, "different"
	case 2: // wildcard one level up / IP plus unrelated names
		if tip != nil {
			tmpl.IPAddresses = []net.IP{other(tip), tip}
			tmpl.DNSNames = []string{"unrelated.vx.example"}
		} else {
			tmpl.DNSNames = []string{"*" + target[strings.Index(target, "."):]}
		}
		return tmpl, same, "wildcard-or-list"
	case 3: // wildcard at the wrong level / IP text as a DNS name
		if tip != nil {
			tmpl.DNSNames = []string{target}
			return tmpl, false, "ip-as-dns-san"
		}
		rest := target[strings.Index(target, ".")+1:]
		tmpl.DNSNames = []string{"*" + rest[strings.Index(rest, "."):]}
		return tmpl, false, "wildcard-wrong-level"
	case 4: // upper-case DNS name / 16-byte form of the address
		if tip != nil {
			tmpl.IPAddresses = []net.IP{tip.To16()}
		} else {
			tmpl.DNSNames = []string{strings.ToUpper(target)}
		}
		return tmpl, same, "case-or-form"
	case 5: // common name only
		tmpl.Subject = pkix.Name{CommonName: target}
		return tmpl, false, "cn-only"
	case 6: // the name with something appended
		if tip != nil {
			tmpl.DNSNames = []string{target + ".vx.example"}
			tmpl.IPAddresses = []net.IP{other(tip)}
		} else {
			tmpl.DNSNames = []string{target + ".evil.example", target[:len(target)-1]}
		}
		return tmpl, false, "near-miss"
	case 7: // several names, the right one last
		if tip != nil {
			tmpl.IPAddresses = []net.IP{net.IPv4(192, 0, 2, 1), other(tip), tip}
		} else {
			tmpl.DNSNames = []string{"a.vx.example", "x" + target, target}
		}
		return tmpl, same, "list-last"
	default: // only the connect address of the host being dialled, as an IP SAN
		tmpl.IPAddresses = []net.IP{hostIP}
		eip := net.ParseIP(expect)
		return tmpl, eip != nil && eip.Equal(hostIP), "connect-ip-only"
	}
}

type vxC20Dialer struct {
	mu    sync.Mutex
	serve func(addr string) (net.Conn, error)
	addrs []string
}

func (d *vxC20Dialer) DialContext(ctx context.Context, network, addr string) (net.Conn, error) {
	d.mu.Lock()
	d.addrs = append(d.addrs, network+" "+addr)
	f := d.serve
	d.mu.Unlock()
	return f(addr)
}

func vxC20HSRun(ci interface{}, k *vstats.Case) error {
	c := ci.(*vxC20HS)
	fx, err := vxC20Fixture()
	if err != nil {
		return fmt.Errorf("harness: fixture: %v", err)
	}
	if c.Cfg < 0 || c.Cfg > 2 || len(c.Dials) == 0 || len(c.Dials) > 6 {
		return nil
	}
	// ---- client options ------------------------------------------------------------
	serverName := ""
	if c.Cfg != 0 {
		snHost := vxC20Host{Lab: c.SNLab, A: 3, B: 9}
		switch c.SN {
		case 1:
			snHost.Kind = 0
		case 2:
			snHost.Kind = 3
		case 3:
			snHost.Kind = 4
		}
		if c.SN >= 1 && c.SN <= 3 {
			_, _, serverName = snHost.ident(vxC20SlotSN)
		}
	}
	trusted := map[int]bool{}
	caPath := ""
	var rootCAs []int
	switch c.Trust {
	case 1:
		caPath, trusted[0] = fx.caFile[0], true
	case 2:
		trusted[0] = true
		if c.Cfg == 0 {
			caPath = fx.caFile[0]
		} else {
			rootCAs = []int{0}
		}
	case 3:
		trusted[0], trusted[1] = true, true
		if c.Cfg == 0 {
			// only one CaPath exists; without a Config both CAs cannot be configured
			caPath = fx.caFile[0]
			delete(trusted, 1)
		} else {
			rootCAs = []int{0}
			caPath = fx.caFile[1]
		}
	case 4:
		caPath, trusted[1] = fx.caFile[1], true
	}
	mk := func() *tls.Config {
		if c.Cfg == 0 {
			return nil
		}
		cfg := &tls.Config{InsecureSkipVerify: c.Cfg == 2, ServerName: serverName, MinVersion: tls.VersionTLS12}
		if rootCAs != nil {
			cfg.RootCAs = fx.pool(rootCAs...)
		}
		return cfg
	}
	caller, want := mk(), mk()
	opts := &SslOptions{Config: caller, EnableHostVerification: c.EHV, CaPath: caPath}
	if c.ClientCert {
		opts.CertPath, opts.KeyPath = fx.cliCert, fx.cliKey
	}
	verify := vxC20DocVerifies(c.Cfg, c.EHV)

	dialer := &vxC20Dialer{}
	cluster := NewCluster()
	cluster.SslOpts = opts
	cluster.Dialer = dialer
	cc, err := connConfig(cluster)
	if err != nil {
		return fmt.Errorf("connConfig with valid TLS options: %v", err)
	}
	hd := cc.HostDialer
	if hd == nil {
		return fmt.Errorf("connConfig returned no HostDialer")
	}
	var shared *tls.Config
	var sharedBefore *tls.Config
	if d, ok := hd.(*defaultHostDialer); ok && d.tlsConfig != nil {
		shared = d.tlsConfig
		sharedBefore = &tls.Config{InsecureSkipVerify: shared.InsecureSkipVerify, ServerName: shared.ServerName}
	}

	k.Class(fmt.Sprintf("verify=%v", verify))
	k.Class(fmt.Sprintf("servername=%d", c.SN*vxC20B2I(c.Cfg != 0)))
	k.Class(fmt.Sprintf("dials=%d", len(c.Dials)))

	nontrivial := false
	prevName := ""
	for i := range c.Dials {
		d := &c.Dials[i]
		slot := i
		hostname, ip, hostName := d.Host.ident(slot)
		port := d.Host.Port
		if port <= 0 || port > 65535 {
			port = 9042
		}
		expect := hostName
		if serverName != "" {
			expect = serverName
		}
		target := expect
		if d.Target == 1 {
			switch {
			case serverName != "":
				target = hostName
			case prevName != "":
				target = prevName
			default:
				target = vxC20DNS(vxC20SlotDecoy, "decoy")
			}
		}
		san, nameOK, sanLabel := vxC20SANs(d.Match, target, ip, expect)
		if d.Chain < 0 || d.Chain > 3 {
			return nil
		}
		eku := x509.ExtKeyUsageServerAuth
		signer := d.Chain
		if d.Chain == 3 {
			signer, eku = 0, x509.ExtKeyUsageClientAuth
		}
		der, err := fx.leaf(signer, san, eku)
		if err != nil {
			return fmt.Errorf("harness: cannot issue server certificate: %v", err)
		}
		leaf, err := x509.ParseCertificate(der)
		if err != nil {
			return fmt.Errorf("harness: %v", err)
		}
		// self-check of the construction against crypto/x509's own host name rules
		if lib := leaf.VerifyHostname(expect) == nil; lib != nameOK {
			return fmt.Errorf("harness: SAN construction %s for %q vs %q says nameOK=%v, crypto/x509 says %v (DNS %v IP %v)",
				sanLabel, target, expect, nameOK, lib, leaf.DNSNames, leaf.IPAddresses)
		}
		chainOK := (d.Chain == 0 && trusted[0]) || (d.Chain == 1 && trusted[1])
		wantOK := !verify || (chainOK && nameOK)

		hostKind := []string{"dns", "ipv4", "ipv6", "ipv4-literal", "ipv6-literal"}[d.Host.Kind%5]
		k.Class("host=" + hostKind)
		k.Class("san=" + sanLabel)
		switch {
		case !verify:
			k.Class("expect=accept/not-verifying")
		case wantOK:
			k.Class("expect=accept/verified")
		case chainOK:
			k.Class("expect=reject/name")
			nontrivial = true
		case nameOK:
			k.Class("expect=reject/chain")
			nontrivial = true
		default:
			k.Class("expect=reject/both")
			nontrivial = true
		}
		if i > 0 && verify && serverName == "" {
			k.Class("second-dial-verifying-by-host-name")
		}

		// ---- server ---------------------------------------------------------------
		srvCfg := &tls.Config{
			Certificates: []tls.Certificate{{Certificate: [][]byte{der}, PrivateKey: fx.leafKey}},
			MinVersion:   tls.VersionTLS12,
		}
		if d.TLS12 {
			srvCfg.MaxVersion = tls.VersionTLS12
		}
		if c.ClientCert {
			srvCfg.ClientAuth = tls.RequireAndVerifyClientCert
			srvCfg.ClientCAs = fx.pool(0)
		}
		srvDone := make(chan error, 1)
		var conns []*vxC20Conn
		var connsMu sync.Mutex
		dialer.mu.Lock()
		dialer.serve = func(addr string) (net.Conn, error) {
			cl, sv := vxC20Pipe(&net.TCPAddr{IP: net.IPv4(127, 0, 0, 1), Port: 40000}, &net.TCPAddr{IP: ip, Port: port})
			connsMu.Lock()
			conns = append(conns, cl, sv)
			connsMu.Unlock()
			go func() {
				ts := tls.Server(sv, srvCfg)
				err := ts.Handshake()
				if err == nil {
					buf := make([]byte, 4)
					if _, err = io.ReadFull(ts, buf); err == nil && string(buf) == "ping" {
						_, err = ts.Write([]byte("pong"))
					}
				}
				srvDone <- err
				// keep the conn open until the client closes: the client end is closed by the test
			}()
			return cl, nil
		}
		nBefore := len(dialer.addrs)
		dialer.mu.Unlock()

		host := &HostInfo{hostname: hostname, connectAddress: ip, port: port}
		ctx, cancel := context.WithTimeout(context.Background(), 60*time.Second)
		dh, derr := hd.DialHost(ctx, host)
		accepted := derr == nil
		var echoErr error
		if accepted {
			if dh == nil || dh.Conn == nil {
				cancel()
				return fmt.Errorf("dial %d: DialHost returned neither a connection nor an error", i)
			}
			tc, isTLS := dh.Conn.(*tls.Conn)
			if !isTLS {
				cancel()
				return fmt.Errorf("dial %d: SslOpts configured but DialHost returned a %T, not a TLS connection", i, dh.Conn)
			}
			wd := time.AfterFunc(60*time.Second, func() { dh.Conn.Close() })
			if _, echoErr = dh.Conn.Write([]byte("ping")); echoErr == nil {
				buf := make([]byte, 4)
				if _, echoErr = io.ReadFull(dh.Conn, buf); echoErr == nil && string(buf) != "pong" {
					echoErr = fmt.Errorf("echo returned %q", buf)
				}
			}
			wd.Stop()
			st := tc.ConnectionState()
			if echoErr == nil {
				if len(st.PeerCertificates) == 0 || !bytes.Equal(st.PeerCertificates[0].Raw, der) {
					cancel()
					return fmt.Errorf("dial %d: connection is not with the server that was dialled", i)
				}
				if verify && len(st.VerifiedChains) == 0 {
					cancel()
					return fmt.Errorf("dial %d: documented result is \"verify host\" but the established connection has no verified chain", i)
				}
			}
			dh.Conn.Close()
		}
		cancel()
		connsMu.Lock()
		for _, cn := range conns {
			cn.Close()
		}
		dialled := len(conns) > 0
		connsMu.Unlock()
		if dialled {
			select {
			case <-srvDone:
			case <-time.After(60 * time.Second):
				return fmt.Errorf("harness: in-process TLS server did not finish within 60 s")
			}
		}
		dialer.mu.Lock()
		newAddrs := append([]string(nil), dialer.addrs[nBefore:]...)
		dialer.mu.Unlock()
		wantAddr := "tcp " + net.JoinHostPort(ip.String(), fmt.Sprint(port))
		if len(newAddrs) != 1 || newAddrs[0] != wantAddr {
			return fmt.Errorf("dial %d: host connect address %s: ClusterConfig.Dialer was asked for %q", i, wantAddr, newAddrs)
		}
		desc := fmt.Sprintf("dial %d: Config %s, EnableHostVerification=%v (documented: verify=%v), ServerName=%q, host hostname=%q connect=%s:%d; server certificate DNS=%v IP=%v CN=%q chain=%d (chain ok=%v, name ok for %q=%v)",
			i, []string{"nil", "ISV=false", "ISV=true"}[c.Cfg], c.EHV, verify, serverName, hostname, ip, port,
			leaf.DNSNames, leaf.IPAddresses, leaf.Subject.CommonName, d.Chain, chainOK, expect, nameOK)
		switch {
		case wantOK && !accepted:
			return fmt.Errorf("%s: handshake must succeed but failed: %v", desc, derr)
		case wantOK && echoErr != nil:
			return fmt.Errorf("%s: handshake succeeded but the session is unusable: %v", desc, echoErr)
		case !wantOK && accepted:
			return fmt.Errorf("%s: handshake must fail but the driver accepted the server", desc)
		case !wantOK:
			var cve *tls.CertificateVerificationError
			if !errors.As(derr, &cve) {
				return fmt.Errorf("%s: dial failed, but not with a certificate verification error: %T %v", desc, derr, derr)
			}
		}
		prevName = hostName
	}
	if nontrivial {
		k.NonTrivial()
	}
	// neither the caller's config nor the config shared between dials may have changed
	if d := vxC20CfgDiff(caller, want); d != "" {
		if d == "RootCAs" && c.Cfg != 0 && rootCAs != nil && caPath != "" {
			return vx.Known("C20-caller-rootcas-mutated", "Config.RootCAs preset and CaPath set: the caller's own pool gained the CaPath certificates (trusts CA 1 now: %v)", fx.trusts(caller.RootCAs, 1))
		}
		return fmt.Errorf("after %d dials the caller's tls.Config differs in: %s", len(c.Dials), d)
	}
	if shared != nil && (shared.ServerName != sharedBefore.ServerName || shared.InsecureSkipVerify != sharedBefore.InsecureSkipVerify) {
		return fmt.Errorf("after %d dials the config shared by all connections changed: ServerName %q -> %q, InsecureSkipVerify %v -> %v",
			len(c.Dials), sharedBefore.ServerName, shared.ServerName, sharedBefore.InsecureSkipVerify, shared.InsecureSkipVerify)
	}
	return nil
}

func vxC20B2I(b bool) int {
	if b {
		return 1
	}
	return 0
}

func vxC20DrawHost(t *rapid.T, label string) vxC20Host {
	return vxC20Host{
		Kind: rapid.IntRange(0, 4).Draw(t, label+"_kind"),
		Lab:  rapid.StringMatching(`[a-z]([a-z0-9-]{0,6}[a-z0-9])?`).Draw(t, label+"_lab"),
		A:    rapid.IntRange(0, 255).Draw(t, label+"_a"),
		B:    rapid.IntRange(1, 254).Draw(t, label+"_b"),
		V6:   rapid.Bool().Draw(t, label+"_v6"),
		Alt:  rapid.Bool().Draw(t, label+"_alt"),
		Port: rapid.SampledFrom([]int{9042, 9142, 1, 65535, 19042}).Draw(t, label+"_port"),
	}
}

func TestVxC20Handshake(t *testing.T) {
	vx.Check(t, vx.Prop{
		ID: "C20", Part: "TestVxC20Handshake",
		Rule: "SslOptions {Config nil / ISV f / ISV t} x EnableHostVerification x ServerName {unset, DNS, IPv4, IPv6} x trust {none, CaPath, Config.RootCAs, both, other CA} x client cert; 1-3 consecutive dials through one defaultHostDialer to hosts {DNS hostname, bare IPv4, bare IPv6, IPv4 literal, IPv6 literal} with a server certificate {CA0, CA1, self-signed, wrong EKU} whose SANs are written (9 ways, matching and near-miss) for the name that must be verified or for a decoy (host name under a ServerName, previously dialled host); non-trivial = documented result is 'verify host' and at least one dial presents a certificate that must be rejected; distinct by all drawn fields",
		Draw: func(t *rapid.T) interface{} {
			c := &vxC20HS{
				Cfg:        rapid.SampledFrom([]int{0, 1, 1, 2}).Draw(t, "cfg"),
				EHV:        rapid.Bool().Draw(t, "ehv"),
				SN:         rapid.SampledFrom([]int{0, 0, 0, 1, 1, 2, 3}).Draw(t, "sn"),
				SNLab:      rapid.StringMatching(`[a-z][a-z0-9]{0,5}`).Draw(t, "snlab"),
				Trust:      rapid.SampledFrom([]int{1, 1, 2, 2, 3, 0, 4}).Draw(t, "trust"),
				ClientCert: rapid.IntRange(0, 3).Draw(t, "cc") == 0,
			}
			n := rapid.SampledFrom([]int{1, 2, 2, 2, 3}).Draw(t, "ndials")
			for i := 0; i < n; i++ {
				l := fmt.Sprintf("d%d", i)
				c.Dials = append(c.Dials, vxC20Dial{
					Host:   vxC20DrawHost(t, l),
					Chain:  rapid.SampledFrom([]int{0, 0, 0, 0, 0, 1, 2, 3}).Draw(t, l+"_chain"),
					Target: rapid.SampledFrom([]int{0, 0, 0, 1}).Draw(t, l+"_target"),
					Match:  rapid.SampledFrom([]int{0, 0, 0, 1, 2, 2, 3, 4, 5, 6, 7, 8}).Draw(t, l+"_match"),
					TLS12:  rapid.Bool().Draw(t, l+"_tls12"),
				})
			}
			return c
		},
		New: func() interface{} { return &vxC20HS{} },
		Run: vxC20HSRun,
	})
}

// ---------------------------------------------------------------------------------------
// part 3: PasswordAuthenticator / approve
// ---------------------------------------------------------------------------------------

type vxC20Auth struct {
	AllowedNil bool     `json:"allowed_nil"`
	Allowed    []string `json:"allowed"`
	Offered    []byte   `json:"offered"` // class name as sent by the server (bytes: may be invalid UTF-8)
	How        string   `json:"how"`     // how Offered was derived (label only; the oracle does not use it)
	User       string   `json:"user"`
	Pass       string   `json:"pass"`
	Data       []byte   `json:"data"` // AUTH_SUCCESS token
}

// the built-in list as of process start, to detect later modification
var vxC20DefaultsAtStart = append([]string(nil), defaultApprovedAuthenticators...)

var vxC20Homoglyphs = map[rune]rune{'a': 'а', 'e': 'е', 'o': 'о', 'c': 'с', 'p': 'р', 'A': 'Α', 'P': 'Р', 's': 'ѕ', 'i': 'і'}

func vxC20Mutate(t *rapid.T, base string) (string, string) {
	r := []rune(base)
	how := rapid.SampledFrom([]string{"none", "none", "none", "upper", "lower", "flip-one", "drop-last", "drop-first", "prefix",
		"suffix", "lead", "empty", "homoglyph", "fullwidth", "trail-space", "trail-nul", "lead-space", "bad-utf8", "double", "inner-class"}).Draw(t, "how")
	pos := 0
	if len(r) > 1 {
		pos = rapid.IntRange(0, len(r)-1).Draw(t, "pos")
	}
	switch how {
	case "upper":
		return strings.ToUpper(base), how
	case "lower":
		return strings.ToLower(base), how
	case "flip-one":
		for i := 0; i < len(r); i++ {
			j := (pos + i) % len(r)
			if unicode.IsLetter(r[j]) && r[j] < 128 {
				if unicode.IsUpper(r[j]) {
					r[j] = unicode.ToLower(r[j])
				} else {
					r[j] = unicode.ToUpper(r[j])
				}
				break
			}
		}
		return string(r), how
	case "drop-last":
		if len(r) > 0 {
			r = r[:len(r)-1]
		}
		return string(r), how
	case "drop-first":
		if len(r) > 0 {
			r = r[1:]
		}
		return string(r), how
	case "prefix":
		return string(r[:pos]), how
	case "suffix":
		return base + rapid.SampledFrom([]string{"2", ".", "X", "$Inner", "Authenticator", ";", ","}).Draw(t, "sfx"), how
	case "lead":
		return rapid.SampledFrom([]string{"x", ".", "evil.", "org.", "L"}).Draw(t, "pfx") + base, how
	case "empty":
		return "", how
	case "homoglyph":
		for i := 0; i < len(r); i++ {
			j := (pos + i) % len(r)
			if g, ok := vxC20Homoglyphs[r[j]]; ok {
				r[j] = g
				break
			}
		}
		return string(r), how
	case "fullwidth":
		if len(r) > 0 && r[pos] > 0x20 && r[pos] < 0x7f {
			r[pos] = r[pos] - 0x20 + 0xff00
		}
		return string(r), how
	case "trail-space":
		return base + rapid.SampledFrom([]string{" ", "\t", "\n", "\r\n", " "}).Draw(t, "ws"), how
	case "trail-nul":
		return base + "\x00", how
	case "lead-space":
		return " " + base, how
	case "bad-utf8":
		b := []byte(base)
		if len(b) > 0 {
			b[pos%len(b)] = 0xff
		} else {
			b = []byte{0xc3}
		}
		return string(b), how
	case "double":
		return base + base, how
	case "inner-class":
		return base + "$" + "PlainTextSaslAuthenticator", how
	}
	return base, how
}

func vxC20AuthRun(ci interface{}, k *vstats.Case) error {
	c := ci.(*vxC20Auth)
	var allowed []string
	if !c.AllowedNil {
		allowed = append([]string{}, c.Allowed...)
	}
	allowedCopy := append([]string(nil), allowed...)
	effective := allowed
	listKind := "custom"
	if len(allowed) == 0 {
		effective = vxC20DefaultsAtStart
		listKind = "default(nil)"
		if allowed != nil {
			listKind = "default(empty)"
		}
	}
	offered := string(c.Offered)
	approved := false
	for _, s := range effective {
		if s == offered {
			approved = true
		}
	}
	// near miss: not approved, yet equal to an effective entry after folding case / trimming /
	// or sharing all but a few bytes at either end, or one is a prefix of the other
	near := false
	if !approved {
		for _, s := range effective {
			if s == "" {
				continue
			}
			if strings.EqualFold(s, offered) || strings.TrimSpace(strings.TrimRight(offered, "\x00")) == s ||
				(offered != "" && (strings.HasPrefix(s, offered) || strings.HasPrefix(offered, s) || strings.HasSuffix(offered, s) || strings.HasSuffix(s, offered))) ||
				(len(offered) >= len(s)-2 && len(offered) <= len(s)+2 && vxC20CommonEnds(s, offered) >= len(s)-3) {
				near = true
			}
		}
		if offered == "" {
			near = true
		}
		if !near { // an entry of the built-in list while a custom list is in force
			for _, s := range vxC20DefaultsAtStart {
				if s == offered && len(allowed) > 0 {
					near = true
				}
			}
		}
	}
	k.Class("list=" + listKind)
	k.Class("how=" + c.How)
	switch {
	case approved:
		k.Class("offered=approved")
		k.NonTrivial()
	case near:
		k.Class("offered=near-miss")
		k.NonTrivial()
	default:
		k.Class("offered=unrelated")
	}
	if c.User == "" {
		k.Class("user=empty")
	}
	if c.Pass == "" {
		k.Class("pass=empty")
	}
	if !vxC20ASCII(c.User) || !vxC20ASCII(c.Pass) {
		k.Class("credentials=non-ascii")
	}

	p := PasswordAuthenticator{Username: c.User, Password: c.Pass, AllowedAuthenticators: allowed}
	req := append([]byte(nil), c.Offered...)
	resp, _, err := p.Challenge(req)

	if ap := approve(offered, allowed); ap != approved {
		return fmt.Errorf("approve(%q, %q) = %v, but the class %s on the effective list %q", offered, allowed, ap,
			map[bool]string{true: "is", false: "is not"}[approved], effective)
	}
	if !bytes.Equal(req, c.Offered) {
		return fmt.Errorf("Challenge modified the server's bytes")
	}
	if strings.Join(allowed, "\x01") != strings.Join(allowedCopy, "\x01") || len(allowed) != len(allowedCopy) ||
		len(p.AllowedAuthenticators) != len(allowedCopy) || (allowed == nil) != c.AllowedNil {
		return fmt.Errorf("Challenge modified AllowedAuthenticators: %q -> %q", allowedCopy, allowed)
	}
	if !reflect.DeepEqual(defaultApprovedAuthenticators, vxC20DefaultsAtStart) {
		return fmt.Errorf("the built-in approved list changed: %q", defaultApprovedAuthenticators)
	}
	if p.Username != c.User || p.Password != c.Pass {
		return fmt.Errorf("Challenge changed the credentials held by the authenticator")
	}
	if approved {
		if err != nil {
			return fmt.Errorf("class %q is on the effective list %q but Challenge refused: %v", offered, effective, err)
		}
		want := append(append(append([]byte{0}, c.User...), 0), c.Pass...)
		if !bytes.Equal(resp, want) {
			return fmt.Errorf("token for user %q password %q = %x, want 00|user|00|password = %x", c.User, c.Pass, resp, want)
		}
	} else {
		if err == nil {
			return fmt.Errorf("class %q is not on the effective list %q, yet Challenge answered with a %d-byte token %x (credentials disclosed)", offered, effective, len(resp), resp)
		}
		if len(resp) != 0 {
			return fmt.Errorf("class %q refused (%v) but a %d-byte token %x was returned alongside the error", offered, err, len(resp), resp)
		}
	}
	// Success is documented by its implementation only: it accepts whatever the server sends
	if serr := p.Success(c.Data); serr != nil {
		return fmt.Errorf("Success(%x) = %v", c.Data, serr)
	}
	return nil
}

func vxC20CommonEnds(a, b string) int {
	n := 0
	for n < len(a) && n < len(b) && a[n] == b[n] {
		n++
	}
	m := 0
	for m < len(a)-n && m < len(b)-n && a[len(a)-1-m] == b[len(b)-1-m] {
		m++
	}
	return n + m
}

func vxC20ASCII(s string) bool {
	for i := 0; i < len(s); i++ {
		if s[i] >= 0x80 {
			return false
		}
	}
	return true
}

func vxC20DrawCred(t *rapid.T, label string) string {
	switch rapid.IntRange(0, 7).Draw(t, label+"_kind") {
	case 0:
		return ""
	case 1:
		return rapid.SampledFrom([]string{"cassandra", "admin", "user", "p@ssw0rd", " ", "\x00", "a\x00b", "пароль", "用户", "naïve", "🔑", "x\x00", "\x00x", "\xc3\xa9"}).Draw(t, label+"_fixed")
	case 2:
		return rapid.StringN(1, 40, -1).Draw(t, label+"_uni")
	case 3:
		return rapid.StringOfN(rapid.RuneFrom([]rune("abcXYZ019 \x00\x01éßжあ𝄞")), 1, 24, -1).Draw(t, label+"_mix")
	case 4:
		return strings.Repeat(rapid.StringMatching(`[a-zé]{1,3}`).Draw(t, label+"_rep"), rapid.IntRange(20, 120).Draw(t, label+"_n"))
	default:
		return rapid.StringMatching(`[A-Za-z0-9_.@-]{1,16}`).Draw(t, label+"_ascii")
	}
}

func TestVxC20AuthUnit(t *testing.T) {
	custom := []string{
		"com.example.auth.CustomAuthenticator", "org.apache.cassandra.auth.PasswordAuthenticator",
		"com.datastax.bdp.cassandra.auth.DseAuthenticator", "A", "org.apache.cassandra.auth.AllowAllAuthenticator",
		"com.example.auth.CustomAuthenticator2", "com.example.Auth", "аутентификатор", "",
	}
	vx.Check(t, vx.Prop{
		ID: "C20", Part: "TestVxC20AuthUnit",
		Rule: "AllowedAuthenticators {nil, empty, custom 1-4 entries} x offered class = entry of the effective list / of the built-in list / arbitrary name, put through one of 19 mutations (case, truncation, extension, empty, homoglyph, fullwidth, whitespace, NUL, invalid UTF-8) x user/password {empty, ASCII, NUL-containing, non-ASCII, long}; non-trivial = class approved (token compared byte for byte) or a near miss of an approved entry (case-fold / prefix / suffix / <=3 bytes different / built-in entry under a custom list / empty); distinct by all fields",
		Draw: func(t *rapid.T) interface{} {
			c := &vxC20Auth{}
			switch rapid.SampledFrom([]int{0, 0, 1, 2, 2, 2}).Draw(t, "listmode") {
			case 0:
				c.AllowedNil = true
			case 1:
				c.Allowed = []string{}
			default:
				c.Allowed = rapid.SliceOfN(rapid.SampledFrom(custom), 1, 4).Draw(t, "allowed")
			}
			effective := c.Allowed
			if len(effective) == 0 {
				effective = vxC20DefaultsAtStart
			}
			var base string
			switch rapid.SampledFrom([]int{0, 0, 0, 0, 0, 0, 1, 1, 2}).Draw(t, "base") {
			case 0:
				base = rapid.SampledFrom(effective).Draw(t, "eff")
			case 1:
				base = rapid.SampledFrom(vxC20DefaultsAtStart).Draw(t, "def")
			default:
				base = rapid.OneOf(rapid.SampledFrom(custom), rapid.StringMatching(`[a-z]{2,5}(\.[a-z]{2,8}){1,4}\.[A-Z][a-zA-Z]{3,20}`)).Draw(t, "other")
			}
			off, how := vxC20Mutate(t, base)
			c.Offered, c.How = []byte(off), how
			c.User = vxC20DrawCred(t, "user")
			c.Pass = vxC20DrawCred(t, "pass")
			c.Data = rapid.SliceOfN(rapid.Byte(), 0, 12).Draw(t, "data")
			return c
		},
		New: func() interface{} { return &vxC20Auth{} },
		Run: vxC20AuthRun,
	})
}
